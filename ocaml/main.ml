(* ocaml/main.ml -- hand-written glue around the extracted model: reads one S-expression per
   line (a case written by the Go harness), evaluates Model.run_case with oracle closures built
   from the tables recorded in the case, prints one result line per case.
   A model query that has no recorded oracle answer is flagged (oracle-miss), never guessed.
   With --pure the extracted [run_case_pure] is used instead (what vm_compute evaluates). *)
open Model

let rec pos_of_int n = if n = 1 then XH else if n land 1 = 1 then XI (pos_of_int (n lsr 1)) else XO (pos_of_int (n lsr 1))
let n_of_int n = if n = 0 then N0 else Npos (pos_of_int n)
let z_of_int n = if n = 0 then Z0 else if n > 0 then Zpos (pos_of_int n) else Zneg (pos_of_int (-n))
let rec int_of_pos = function XH -> 1 | XO p -> 2 * int_of_pos p | XI p -> 2 * int_of_pos p + 1
let int_of_n = function N0 -> 0 | Npos p -> int_of_pos p
let int_of_z = function Z0 -> 0 | Zpos p -> int_of_pos p | Zneg p -> - (int_of_pos p)
(* integers of any size (Go ints reach 2^63, OCaml ints stop at 2^62): decimal text <-> Z by Horner's rule in Z itself *)
let z_of_decimal tok : z =
  let neg = Stdlib.String.length tok > 0 && tok.[0] = '-' in
  let ten = z_of_int 10 in
  let acc = ref Z0 in
  Stdlib.String.iteri (fun i c ->
    if i = 0 && neg then () else begin
      if c < '0' || c > '9' then failwith ("bad integer " ^ tok);
      acc := Z.add (Z.mul !acc ten) (z_of_int (Stdlib.Char.code c - 48)) end) tok;
  if neg then Z.opp !acc else !acc
let decimal_of_z (x : z) =
  match x with
  | Z0 -> "0"
  | _ ->
    let neg = (match x with Zneg _ -> true | _ -> false) in
    let ten = z_of_int 10 in
    let cur = ref (if neg then Z.opp x else x) in
    let digits = Stdlib.Buffer.create 20 in
    while !cur <> Z0 do
      let (q, r) = Z.div_eucl !cur ten in
      Stdlib.Buffer.add_char digits (Stdlib.Char.chr (48 + int_of_z r));
      cur := q
    done;
    let d = Stdlib.Buffer.contents digits in
    let n = Stdlib.String.length d in
    (if neg then "-" else "") ^ Stdlib.String.init n (fun i -> d.[n - 1 - i])

let hexval c = match c with
  | '0'..'9' -> Char.code c - 48 | 'a'..'f' -> Char.code c - 87 | 'A'..'F' -> Char.code c - 55
  | _ -> failwith "bad hex"

let bytes_of_hex s off =
  let n = (String.length s - off) / 2 in
  let rec go i acc = if i < 0 then acc else
    go (i - 1) (n_of_int (hexval s.[off + 2*i] * 16 + hexval s.[off + 2*i + 1]) :: acc) in
  go (n - 1) []

let bytes_of_string s =
  let rec go i acc = if i < 0 then acc else go (i - 1) (n_of_int (Char.code s.[i]) :: acc) in
  go (String.length s - 1) []

let string_of_bytes l =
  let b = Buffer.create 16 in
  List.iter (fun c -> Buffer.add_char b (Char.chr ((int_of_n c) land 255))) l; Buffer.contents b

let hex_of_bytes l =
  let b = Buffer.create 16 in
  List.iter (fun c -> Buffer.add_string b (Printf.sprintf "%02x" ((int_of_n c) land 255))) l; Buffer.contents b

let is_hex_tok tok =
  String.length tok land 1 = 1 && tok.[0] = 'x' &&
  (let ok = ref true in
   String.iteri (fun i c -> if i > 0 then match c with '0'..'9' | 'a'..'f' -> () | _ -> ok := false) tok; !ok)

let parse_line (s : Stdlib.String.t) : sx =
  let n = String.length s in
  let pos = ref 0 in
  let rec skip () = if !pos < n && (s.[!pos] = ' ' || s.[!pos] = '\t') then (incr pos; skip ()) in
  let rec item () : sx =
    skip ();
    if !pos >= n then failwith "eof"
    else if s.[!pos] = '(' then begin
      incr pos;
      let rec items acc =
        skip ();
        if !pos >= n then failwith "unterminated"
        else if s.[!pos] = ')' then (incr pos; List.rev acc)
        else items (item () :: acc) in
      SL (items [])
    end else begin
      let st = !pos in
      while !pos < n && s.[!pos] <> ' ' && s.[!pos] <> ')' && s.[!pos] <> '(' do incr pos done;
      let tok = String.sub s st (!pos - st) in
      if is_hex_tok tok then SB (bytes_of_hex tok 1)
      else if (tok.[0] = '-' && String.length tok > 1) || (tok.[0] >= '0' && tok.[0] <= '9')
      then SI (z_of_decimal tok)
      else SY (bytes_of_string tok)
    end in
  item ()

let rec print_sx buf (x : sx) = match x with
  | SB l -> Buffer.add_char buf 'x'; Buffer.add_string buf (hex_of_bytes l)
  | SI z -> Buffer.add_string buf (decimal_of_z z)
  | SY l -> Buffer.add_string buf (string_of_bytes l)
  | SL l ->
      Buffer.add_char buf '(';
      List.iteri (fun i y -> if i > 0 then Buffer.add_char buf ' '; print_sx buf y) l;
      Buffer.add_char buf ')'

let rec fld k l = match l with
  | SL [SY n; v] :: r -> if string_of_bytes n = k then v else fld k r
  | _ :: r -> fld k r
  | [] -> SL []

let as_list = function SL l -> l | _ -> []

let () =
  let pure = Array.length Sys.argv > 1 && Sys.argv.(1) = "--pure" in
  let buf = Buffer.create 4096 in
  try
    while true do
      let line = input_line stdin in
      if String.length line > 0 then begin
        let x = parse_line line in
        let miss = ref false in
        let r =
          if pure then run_case_pure x
          else begin
            let body = match x with SL (_ :: _ :: body) -> body | _ -> [] in
            let orc = as_list (fld "oracle" body) in
            let ta = as_list (fld "ace" orc) and ti = as_list (fld "ip6" orc) and tp = as_list (fld "psl" orc) in
            let ace h = (match lookup_b h ta with None -> miss := true | Some _ -> ()); ace_of ta h in
            let ip6 h = (match lookup_b h ti with None -> miss := true | Some _ -> ()); ip6_of ti h in
            let psl h = (match lookup_b h tp with None -> miss := true | Some _ -> ()); psl_of tp h in
            run_case ace ip6 psl x
          end in
        Buffer.clear buf;
        print_sx buf r;
        if !miss then Buffer.add_string buf " oracle-miss";
        print_endline (Buffer.contents buf)
      end
    done
  with End_of_file -> ()
