(* Extract/Extract.v -- extraction of the executable model and the runners to OCaml.
   ExtrOcamlBasic only: bool, option, unit, list, prod, sumbool, sumor map to OCaml's own
   types and andb/orb to && / ||; N, Z, positive, nat stay Coq's datatypes. *)
Require Import Extract.Driver.
From Coq Require Import ExtrOcamlBasic.
Extraction Language OCaml.
Extraction "model.ml" run_case run_case_pure oracle_tbl lookup_b ace_of ip6_of psl_of.
