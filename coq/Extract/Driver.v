(* Extract/Driver.v -- the executable side of the correspondence check: decoders from the
   harness's S-expressions into model values and, per case family, a runner that evaluates
   the model and the property's specification predicate on the implementation's observables.
   The same runners are evaluated by the extracted OCaml driver and by vm_compute inside Coq. *)
From Coq Require Import String.
Require Import Base.Bytes Gen.Tables.
Require Import Model.Util Model.Headers Model.Methods Model.Origins Model.Netip Model.Idna
  Model.Pattern Model.Radix Model.CfgErrors Model.Config Model.Serve Model.Mw.
Require Import Spec.Origins Spec.AcrhList.
Open Scope N_scope.
Open Scope string_scope.
Delimit Scope string_scope with string.

Inductive sx := SB (s : bytes) | SI (z : Z) | SY (name : bytes) | SL (l : list sx).

Definition sym (s : String.string) : sx := SY (b s).
Definition sbool (x : bool) : sx := SI (if x then 1 else 0)%Z.

Definition is_sym (s : String.string) (x : sx) : bool :=
  match x with SY n => beqb n (b s) | _ => false end.

Definition get_bytes (x : sx) : bytes := match x with SB s => s | _ => [] end.
Definition get_int (x : sx) : Z := match x with SI z => z | _ => 0%Z end.
Definition get_bool (x : sx) : bool := match x with SI z => negb (z =? 0)%Z | _ => false end.
Definition get_list (x : sx) : list sx := match x with SL l => l | _ => [] end.
Definition get_blist (x : sx) : list bytes := map get_bytes (get_list x).

(* (key value) fields of a record-like list *)
Fixpoint field (k : String.string) (l : list sx) : sx :=
  match l with
  | SL [SY n; v] :: r => if beqb n (b k) then v else field k r
  | _ :: r => field k r
  | [] => SL []
  end.

Fixpoint sx_eqb (x y : sx) {struct x} : bool :=
  match x, y with
  | SB s, SB t => beqb s t
  | SI a, SI c => (a =? c)%Z
  | SY a, SY c => beqb a c
  | SL l, SL m =>
      (fix go (l m : list sx) : bool :=
         match l, m with
         | [], [] => true
         | a :: l', c :: m' => sx_eqb a c && go l' m'
         | _, _ => false
         end) l m
  | _, _ => false
  end.

(* every runner answers (agree holds model-observable): [agree] = model equals implementation,
   [holds] = the property's spec predicate evaluated on the IMPLEMENTATION's observables *)
Definition verdict (agree holds : bool) (model : sx) : sx := SL [sbool agree; sbool holds; model].

(* ---------- C19: cfgerrors.All ---------- *)
Fixpoint dec_etree (fuel : nat) (x : sx) : etree Z :=
  match fuel with
  | O => Leaf 0%Z
  | S f =>
      match x with
      | SL (SY n :: args) =>
          if beqb n (b "leaf") then Leaf (get_int (hd (SI 0) args))
          else Join (map (dec_etree f) args)
      | _ => Leaf 0%Z
      end
  end.

Definition run_all (x : sx) : sx :=
  let l := get_list x in
  let t := dec_etree 64 (field "tree" l) in
  let k := get_int (field "k" l) in
  let impl := map get_int (get_list (field "impl" l)) in
  let '(model, late) := yielded t k in
  let spec := if (k <? 0)%Z then flatten t else firstn (Z.to_nat k + 1) (flatten t) in
  let eqz := fix eqz (a c : list Z) := match a, c with [] , [] => true | x :: a', y :: c' => (x =? y)%Z && eqz a' c' | _, _ => false end in
  verdict (eqz model impl && (late =? 0)%Z) (eqz spec impl && negb (get_bool (field "panicked" l)))
          (SL (map SI model)).

(* ---------- C14: headers.Check ---------- *)
Definition run_check (x : sx) : sx :=
  let l := get_list x in
  let names := get_blist (field "names" l) in
  let lines := get_blist (field "lines" l) in
  let impl := get_bool (field "impl" l) in
  let set := fold_left sset_add names sset_empty in
  let m := check set lines in
  let s := spec_check (elems set) lines in
  verdict (Bool.eqb m impl) (Bool.eqb s impl) (sbool m).

(* ---------- oracles recorded by the harness ---------- *)
Fixpoint lookup_b (k : bytes) (tbl : list sx) : option sx :=
  match tbl with
  | SL [SB k'; v] :: r => if beqb k k' then Some v else lookup_b k r
  | _ :: r => lookup_b k r
  | [] => None
  end.

Definition dec_ipres (v : sx) : ipres :=
  match v with
  | SL [SY n; SB canon; lb] => if beqb n (b "ok") then IPOk canon (get_bool lb) else IPErr
  | SY n => if beqb n (b "zone") then IPZone else if beqb n (b "v4in6") then IP4in6 else IPErr
  | _ => IPErr
  end.

(* [miss] is what the oracle answers for a query the harness did not record; the OCaml driver
   wraps these functions to flag such a query as a harness error *)
Definition ace_of (tbl : list sx) (h : bytes) : bool :=
  match lookup_b h tbl with Some v => get_bool v | None => false end.
Definition psl_of (tbl : list sx) (h : bytes) : bool :=
  match lookup_b h tbl with Some v => get_bool v | None => false end.
Definition ip6_of (tbl : list sx) (h : bytes) : ipres :=
  match lookup_b h tbl with Some v => dec_ipres v | None => IPErr end.

(* ---------- C01: ParsePattern + Tree.Insert + Tree.Contains ---------- *)
Definition enc_origin_res (r : option bool) : sx :=
  match r with None => sym "noparse" | Some c => sbool c end.

Section WithOracles.
Variable ace : bytes -> bool.
Variable ip6 : bytes -> ipres.
Variable psl : bytes -> bool.

Definition run_tree (x : sx) : sx :=
  let l := get_list x in
  let pats := get_blist (field "pats" l) in
  let probes := get_blist (field "origins" l) in
  let impl := get_list (field "impl" l) in
  let impl_elems := get_blist (field "elems" l) in
  let parsed := flat_map (fun raw => match parse_pattern ace ip6 raw with inl p => [p] | inr _ => [] end) pats in
  let t := fold_left tree_insert parsed empty_tree in
  let model := map (fun o => match parse o with
                             | None => None
                             | Some og => Some (tree_contains t og) end) probes in
  let spec := map (fun o => match parse o with
                            | None => None
                            | Some og => Some (allowed_by parsed og) end) probes in
  let enc := fun rs => SL (map enc_origin_res rs) in
  let me := tree_elems t in
  verdict (sx_eqb (enc model) (SL impl) && sx_eqb (SL (map SB me)) (SL (map SB impl_elems)))
          (sx_eqb (enc spec) (SL impl))
          (SL [enc model; SL (map SB me)]).

(* dispatcher: a case is (family id (k v)...) *)
Definition run_case (x : sx) : sx :=
  match x with
  | SL (SY fam :: id :: body) =>
      let r :=
        if beqb fam (b "all") then run_all (SL body)
        else if beqb fam (b "check") then run_check (SL body)
        else if beqb fam (b "tree") then run_tree (SL body)
        else if beqb fam (b "psl") then sbool (psl (get_bytes (field "host" body)))
        else SL [sbool false; sbool false; sym "unknown-family"] in
      SL [id; r]
  | _ => SL [sym "bad-case"]
  end.

End WithOracles.

(* in-Coq evaluation of a case (used by the per-run sample): oracles come from the case itself *)
Definition oracle_tbl (k : String.string) (x : sx) : list sx :=
  match x with
  | SL (_ :: _ :: body) => get_list (field k (get_list (field "oracle" body)))
  | _ => []
  end.

Definition run_case_pure (x : sx) : sx :=
  run_case (ace_of (oracle_tbl "ace" x)) (ip6_of (oracle_tbl "ip6" x)) (psl_of (oracle_tbl "psl" x)) x.
