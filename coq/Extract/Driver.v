(* Extract/Driver.v -- the executable side of the correspondence check: decoders from the
   harness's S-expressions into model values and, per case family, a runner that evaluates
   the model and the property's specification predicate on the implementation's observables.
   The same runners are evaluated by the extracted OCaml driver and by vm_compute inside Coq. *)
Require Import Base.Bytes Gen.Tables.
Require Import Model.Util Model.Headers Model.Methods Model.Origins Model.Netip Model.Netip6 Model.Idna
  Model.Pattern Model.Radix Model.CfgErrors Model.Config Model.Serve Model.Mw Model.Prov Model.Index.
Require Import Spec.Origins Spec.AcrhList Spec.Wire Spec.Fetch Spec.ConfigDoc Spec.DebugSM.
Open Scope N_scope.
Import Coq.Strings.String.StringSyntax.
Arguments b _%string_scope.

Inductive sx := SB (s : bytes) | SI (z : Z) | SY (name : bytes) | SL (l : list sx).

Definition sym (s : String.string) : sx := SY (b s).
Arguments sym _%string_scope.
Definition sbool (x : bool) : sx := SI (if x then 1 else 0)%Z.

Definition is_sym (s : String.string) (x : sx) : bool :=
  match x with SY n => beqb n (b s) | _ => false end.

Arguments is_sym _%string_scope _.
Definition get_bytes (x : sx) : bytes := match x with SB s => s | _ => [] end.
Definition get_int (x : sx) : Z := match x with SI z => z | _ => 0%Z end.
Definition get_bool (x : sx) : bool := match x with SI z => negb (z =? 0)%Z | _ => false end.
Definition get_list (x : sx) : list sx := match x with SL l => l | _ => [] end.
Definition get_blist (x : sx) : list bytes := map get_bytes (get_list x).

(* (key value) fields of a record-like list *)
Fixpoint field (k : String.string) (l : list sx) : sx :=
  match l with
  | SL [SY n; v] :: r => if beqb n (b k) then v else field k r
  | _ :: r => field k r
  | [] => SL []
  end.

Arguments field _%string_scope _.
Fixpoint sx_eqb (x y : sx) {struct x} : bool :=
  match x, y with
  | SB s, SB t => beqb s t
  | SI a, SI c => (a =? c)%Z
  | SY a, SY c => beqb a c
  | SL l, SL m =>
      (fix go (l m : list sx) : bool :=
         match l, m with
         | [], [] => true
         | a :: l', c :: m' => sx_eqb a c && go l' m'
         | _, _ => false
         end) l m
  | _, _ => false
  end.

(* every runner answers (agree holds model-observable): [agree] = model equals implementation,
   [holds] = the property's spec predicate evaluated on the IMPLEMENTATION's observables *)
Definition verdict (agree holds : bool) (model : sx) : sx := SL [sbool agree; sbool holds; model].

(* ---------- C19: cfgerrors.All ---------- *)
Fixpoint dec_etree (fuel : nat) (x : sx) : etree Z :=
  match fuel with
  | O => Leaf 0%Z
  | S f =>
      match x with
      | SL (SY n :: args) =>
          if beqb n (b "leaf") then Leaf (get_int (hd (SI 0) args))
          else Join (map (dec_etree f) args)
      | _ => Leaf 0%Z
      end
  end.

Definition run_all (x : sx) : sx :=
  let l := get_list x in
  let t := dec_etree 64 (field "tree" l) in
  let k := get_int (field "k" l) in
  let impl := map get_int (get_list (field "impl" l)) in
  let '(model, late) := yielded t k in
  let spec := if (k <? 0)%Z then flatten t else firstn (Z.to_nat k + 1) (flatten t) in
  let eqz := fix eqz (a c : list Z) := match a, c with [] , [] => true | x :: a', y :: c' => (x =? y)%Z && eqz a' c' | _, _ => false end in
  verdict (eqz model impl && (late =? 0)%Z) (eqz spec impl && negb (get_bool (field "panicked" l)))
          (SL (map SI model)).

(* ---------- C14: headers.Check ---------- *)
Definition run_check (x : sx) : sx :=
  let l := get_list x in
  let names := get_blist (field "names" l) in
  let lines := get_blist (field "lines" l) in
  let impl := get_bool (field "impl" l) in
  let set := fold_left sset_add names sset_empty in
  let m := check set lines in
  let s := spec_check (elems set) lines in
  let via := get_int (field "viamw" l) in          (* the same verdict through the public API; -1: not applicable *)
  let via_ok := fun (v : bool) => (via <? 0)%Z || Bool.eqb v (negb (via =? 0)%Z) in
  verdict (Bool.eqb m impl && via_ok m) (Bool.eqb s impl && via_ok s) (sbool m).

(* ---------- oracles recorded by the harness ---------- *)
Fixpoint lookup_b (k : bytes) (tbl : list sx) : option sx :=
  match tbl with
  | SL [SB k'; v] :: r => if beqb k k' then Some v else lookup_b k r
  | _ :: r => lookup_b k r
  | [] => None
  end.

Definition dec_ipres (v : sx) : ipres :=
  match v with
  | SL [SY n; SB canon; lb] => if beqb n (b "ok") then IPOk canon (get_bool lb) else IPErr
  | SY n => if beqb n (b "zone") then IPZone else if beqb n (b "v4in6") then IP4in6 else IPErr
  | _ => IPErr
  end.

(* [miss] is what the oracle answers for a query the harness did not record; the OCaml driver
   wraps these functions to flag such a query as a harness error *)
Definition ace_of (tbl : list sx) (h : bytes) : bool :=
  match lookup_b h tbl with Some v => get_bool v | None => false end.
Definition psl_of (tbl : list sx) (h : bytes) : bool :=
  match lookup_b h tbl with Some v => get_bool v | None => false end.
Definition ip6_of (tbl : list sx) (h : bytes) : ipres :=
  match lookup_b h tbl with Some v => dec_ipres v | None => IPErr end.

(* ---------- netip: the executable IPv6 model against the real netip.ParseAddr (C13, C06) ---------- *)
Definition enc_ipres (r : ipres) : sx :=
  match r with
  | IPErr => sym "err" | IPZone => sym "zone" | IP4in6 => sym "v4in6"
  | IPOk canon lb => SL [sym "ok"; SB canon; sbool lb]
  end.

(* impl: err | zone | v4in6 | (ok canon loopback), recorded exactly as oracleFor does *)
Definition run_netip (x : sx) : sx :=
  let l := get_list x in
  let s := get_bytes (field "s" l) in
  let impl := field "impl" l in
  let m := enc_ipres (if first_special s =? 58 then ip6_model s else parse_addr (fun _ => IPErr) s) in
  verdict (sx_eqb m impl) (sx_eqb m impl) m.

(* ---------- C01: ParsePattern + Tree.Insert + Tree.Contains ---------- *)
Definition enc_origin_res (r : option bool) : sx :=
  match r with None => sym "noparse" | Some c => sbool c end.


(* ---------- decoders / encoders for configurations, requests, header maps, outcomes ---------- *)
Definition dec_hmap (x : sx) : hmap :=
  flat_map (fun kv => match kv with SL [SB k; SL vs] => [(k, map get_bytes vs)] | _ => [] end) (get_list x).

Fixpoint hmap_insert (kv : bytes * list bytes) (m : hmap) : hmap :=
  match m with
  | [] => [kv]
  | kv' :: r => if bleb (fst kv) (fst kv') then kv :: m else kv' :: hmap_insert kv r
  end.
Definition sort_hmap (m : hmap) : hmap := fold_right hmap_insert [] m.
Definition enc_hmap (m : hmap) : sx := SL (map (fun kv => SL [SB (fst kv); SL (map SB (snd kv))]) (sort_hmap m)).

Definition dec_config (x : sx) : option config :=
  match x with
  | SL l =>
      Some {| c_origins := get_blist (field "origins" l);
              c_credentialed := get_bool (field "cred" l);
              c_methods := get_blist (field "methods" l);
              c_req_headers := get_blist (field "reqhdrs" l);
              c_max_age := get_int (field "maxage" l);
              c_res_headers := get_blist (field "reshdrs" l);
              c_status := get_int (field "status" l);
              c_pna := get_bool (field "pna" l);
              c_pna_nocors := get_bool (field "pnanocors" l);
              c_tol_insecure := get_bool (field "tolinsecure" l);
              c_tol_psl := get_bool (field "tolpsl" l) |}
  | _ => None     (* the symbol nil: no configuration *)
  end.

Definition enc_config (c : config) : sx :=
  SL [SL [sym "origins"; SL (map SB (c_origins c))]; SL [sym "cred"; sbool (c_credentialed c)];
      SL [sym "methods"; SL (map SB (c_methods c))]; SL [sym "reqhdrs"; SL (map SB (c_req_headers c))];
      SL [sym "maxage"; SI (c_max_age c)]; SL [sym "reshdrs"; SL (map SB (c_res_headers c))];
      SL [sym "status"; SI (c_status c)]; SL [sym "pna"; sbool (c_pna c)]; SL [sym "pnanocors"; sbool (c_pna_nocors c)];
      SL [sym "tolinsecure"; sbool (c_tol_insecure c)]; SL [sym "tolpsl"; sbool (c_tol_psl c)]].

Definition dec_request (x : sx) : request :=
  let l := get_list x in
  {| r_method := get_bytes (field "method" l); r_hdrs := dec_hmap (field "hdrs" l) |}.

Definition dec_outcome (x : sx) : outcome :=
  let l := get_list x in
  let st := get_int (field "status" l) in
  {| o_hdrs := dec_hmap (field "hdrs" l);
     o_status := if (st <? 0)%Z then None else Some st;
     o_delegated := get_bool (field "delegated" l) |}.

Definition enc_outcome (o : outcome) : sx :=
  SL [SL [sym "status"; SI (match o_status o with Some s => s | None => (-1)%Z end)];
      SL [sym "delegated"; sbool (o_delegated o)];
      SL [sym "hdrs"; enc_hmap (o_hdrs o)]].

Definition outcome_same (a c : outcome) : bool := sx_eqb (enc_outcome a) (enc_outcome c).

Definition enc_reason (r : reason) : sx :=
  match r with
  | RMissing => sym "missing" | RInvalid => sym "invalid" | RProhibited => sym "prohibited"
  | RForbidden => sym "forbidden" | RCredentialed => sym "credentialed" | RPna => sym "pna" | RPsl => sym "psl"
  end.

Definition enc_cerr (e : cerr) : sx :=
  match e with
  | EOrigin v r => SL [sym "origin"; SB v; enc_reason r]
  | EMethod v r => SL [sym "method"; SB v; enc_reason r]
  | EHeader v t r => SL [sym "header"; SB v; (match t with TRequest => sym "request" | TResponse => sym "response" end); enc_reason r]
  | EMaxAge v d m x => SL [sym "maxage"; SI v; SI d; SI m; SI x]
  | EStatus v d mn mx => SL [sym "status"; SI v; SI d; SI mn; SI mx]
  | EIncompatOrigin v r => SL [sym "incompat-origin"; SB v; enc_reason r]
  | EIncompatPNA => SL [sym "incompat-pna"]
  | EIncompatWildcardResHdr => SL [sym "incompat-wildcard-reshdr"]
  end.

(* multiset comparison of encoded errors *)
Fixpoint remove_first (x : sx) (l : list sx) : option (list sx) :=
  match l with
  | [] => None
  | y :: r => if sx_eqb x y then Some r else match remove_first x r with Some r' => Some (y :: r') | None => None end
  end.
Fixpoint multiset_eqb (a c : list sx) : bool :=
  match a with
  | [] => match c with [] => true | _ => false end
  | x :: a' => match remove_first x c with Some c' => multiset_eqb a' c' | None => false end
  end.

Definition has_sym (k : String.string) (l : list sx) : bool := existsb (is_sym k) l.

Arguments has_sym _%string_scope _.
Definition cors_free (m : hmap) : bool :=
  forallb (fun kv => negb (mem (fst kv) (h_vary :: grant_names)) || beqb (fst kv) h_vary) m.

Section WithOracles.
Variable ace : bytes -> bool.
Variable ip6 : bytes -> ipres.
Variable psl : bytes -> bool.

Definition run_tree (x : sx) : sx :=
  let l := get_list x in
  let pats := get_blist (field "pats" l) in
  let probes := get_blist (field "origins" l) in
  let impl := get_list (field "impl" l) in
  let impl_elems := get_blist (field "elems" l) in
  let parsed := flat_map (fun raw => match parse_pattern ace ip6 raw with inl p => [p] | inr _ => [] end) pats in
  let t := fold_left tree_insert parsed empty_tree in
  let model := map (fun o => match parse o with
                             | None => None
                             | Some og => Some (tree_contains t og) end) probes in
  let spec := map (fun o => match parse o with
                            | None => None
                            | Some og => Some (allowed_by parsed og) end) probes in
  let enc := fun rs => SL (map enc_origin_res rs) in
  let me := tree_elems t in
  (* the same verdicts observed through the public API (ACAO echoed on a GET); an unparsable origin is never granted *)
  let via := get_list (field "viamw" l) in
  let granted := fun rs => SL (map (fun r => match r with Some true => sbool true | _ => sbool false end) rs) in
  let via_ok := fun rs => match via with [SY _] => true | _ => sx_eqb (granted rs) (SL via) end in
  verdict (sx_eqb (enc model) (SL impl) && sx_eqb (SL (map SB me)) (SL (map SB impl_elems)) && via_ok model)
          (sx_eqb (enc spec) (SL impl) && via_ok spec)
          (SL [enc model; SL (map SB me)]).


Definition cfg_patterns (c : config) : list pattern := ConfigDoc.cfg_patterns ace ip6 c.

Definition model_state (cfgx : sx) (debug : bool) : option (option icfg * bool) :=
  match dec_config cfgx with
  | None => Some (None, false)
  | Some c => match new_internal_config ace ip6 psl c with
              | inl ic => Some (Some ic, debug)
              | inr _ => None
              end
  end.

(* ---------- serve: one request against one middleware state (C03, C11, C16) ---------- *)
Definition run_serve (x : sx) : sx :=
  let l := get_list x in
  let debug := get_bool (field "debug" l) in
  let r := dec_request (field "req" l) in
  let pre := dec_hmap (field "pre" l) in
  let impl := dec_outcome (field "impl" l) in
  let want := get_list (field "want" l) in
  match model_state (field "cfg" l) debug with
  | None => verdict false true (sym "model-rejects-config")
  | Some (st, dbg) =>
      let m := serve st dbg r pre in
      let holds :=
        match dec_config (field "cfg" l) with
        | None => (if has_sym "c11" want then c11_ok false r pre impl else true)
        | Some c =>
            (if has_sym "c03" want && cors_free pre then c03_ok c (cfg_patterns c) r impl else true) &&
            (if has_sym "c11" want then c11_ok true r pre impl else true) &&
            (if has_sym "c16" want && negb debug && is_preflight r && cors_free pre then c16_ok c r pre impl && c16_status_ok c impl else true)
        end in
      verdict (outcome_same m impl) holds (enc_outcome m)
  end.

(* ---------- pair: two requests, same state (C10) ---------- *)
Definition run_pair (x : sx) : sx :=
  let l := get_list x in
  let debug := get_bool (field "debug" l) in
  let r1 := dec_request (field "req1" l) in
  let r2 := dec_request (field "req2" l) in
  let pre := dec_hmap (field "pre" l) in
  let i1 := dec_outcome (field "impl1" l) in
  let i2 := dec_outcome (field "impl2" l) in
  match model_state (field "cfg" l) debug with
  | None => verdict false true (sym "model-rejects-config")
  | Some (st, dbg) =>
      let m1 := serve st dbg r1 pre in
      let m2 := serve st dbg r2 pre in
      verdict (outcome_same m1 i1 && outcome_same m2 i2)
              (c10_ok r1 r2 i1 i2 && vary_preserved pre i1 && vary_preserved pre i2)
              (SL [enc_outcome m1; enc_outcome m2])
  end.

(* ---------- intent: the browser's end-to-end verdict (C02) ---------- *)
Definition dec_intent (x : sx) : intent :=
  let l := get_list x in
  {| in_origin := get_bytes (field "origin" l); in_method := get_bytes (field "method" l);
     in_headers := get_blist (field "headers" l); in_credentials := get_bool (field "credentials" l);
     in_pna := get_bool (field "pna" l) |}.

Definition run_intent (x : sx) : sx :=
  let l := get_list x in
  let debug := get_bool (field "debug" l) in
  let i := dec_intent (field "intent" l) in
  let lines := get_blist (field "lines" l) in
  let ip := dec_outcome (field "implpre" l) in
  let ia := dec_outcome (field "implact" l) in
  match dec_config (field "cfg" l), model_state (field "cfg" l) debug with
  | Some c, Some (st, dbg) =>
      let mp := serve st dbg (preflight_request i lines) [] in
      let ma := serve st dbg (actual_request i) [] in
      let want := permits c (cfg_patterns c) i in
      verdict (outcome_same mp ip && outcome_same ma ia)
              (Bool.eqb (browser_verdict i ip ia) want)
              (SL [sbool (browser_verdict i mp ma); sbool want])
  | _, _ => verdict false true (sym "model-rejects-config")
  end.

(* ---------- config: validation and Config() (C04, C05, C19's count clause) ---------- *)
Definition run_config (x : sx) : sx :=
  let l := get_list x in
  let impl_ok := get_bool (field "accepted" l) in
  let impl_errs := get_list (field "errors" l) in
  let impl_cfg := field "config" l in
  let typed_ok := get_bool (field "typedok" l) in     (* Go side: every error is a non-nil pointer to an exported type, message starts with "cors: " *)
  let nil_mw := get_bool (field "nilmw" l) in          (* NewMiddleware returned a nil *Middleware *)
  match dec_config (field "cfg" l) with
  | None => verdict false false (sym "bad-config")
  | Some c =>
      let viol := map enc_cerr (violations ace ip6 psl c) in
      let holds :=
        if impl_ok then doc_ok ace ip6 psl c && negb nil_mw
        else multiset_eqb viol impl_errs && typed_ok && nil_mw in
      match new_internal_config ace ip6 psl c with
      | inl ic =>
          verdict (impl_ok && sx_eqb (enc_config (new_config ic)) impl_cfg) holds
                  (SL [sym "accepted"; enc_config (new_config ic)])
      | inr e =>
          let me := map enc_cerr (flatten e) in
          verdict (negb impl_ok && multiset_eqb me impl_errs) holds (SL (sym "rejected" :: me))
      end
  end.

(* ---------- hist: operation histories with the state observed after every step (C08, C09) ---------- *)
(* an observation: (err B) (debug B) (config cfg|nil) (outs (outcome...)) *)
Definition dec_op (x : sx) : option (op * sm_op) :=
  match x with
  | SL [SY n; v] =>
      if beqb n (b "setdebug") then Some (OSetDebug (get_bool v), SmSetDebug (get_bool v))
      else if beqb n (b "reconf") then
        match dec_config v with
        | None => Some (OReconfigure None, SmReconfNil)
        | Some c => Some (OReconfigure (Some c), SmReconf true)   (* success flag patched from the observation *)
        end
      else None
  | _ => None
  end.

Definition enc_obs (err : bool) (st : mstate) (probes : list request) : sx :=
  SL [SL [sym "err"; sbool err]; SL [sym "debug"; sbool (snd st)];
      SL [sym "config"; match mw_config st with Some c => enc_config c | None => sym "nil" end];
      SL [sym "outs"; SL (map (fun r => enc_outcome (mw_serve st r [])) probes)]].

Fixpoint model_trace (st : mstate) (ops : list op) (probes : list request) : list sx :=
  match ops with
  | [] => []
  | o :: r =>
      let '(st', e) := step ace ip6 psl st o in
      enc_obs (match e with Some _ => true | None => false end) st' probes :: model_trace st' r probes
  end.

(* the state part of an observation: everything but the error flag *)
Definition obs_state (x : sx) : sx := SL (tl (get_list x)).
Definition obs_err (x : sx) : bool := get_bool (field "err" (get_list x)).
Definition obs_debug (x : sx) : bool := get_bool (field "debug" (get_list x)).

(* is this Reconfigure argument invalid? decided by the SPECIFICATION (it has at least one violation),
   never by the implementation's own verdict or a generator label *)
Definition spec_invalid (v : sx) : bool :=
  match dec_config v with
  | Some c => negb (match violations ace ip6 psl c with [] => true | _ => false end)
  | None => false
  end.

Fixpoint c08_ok (prev : sx) (ops : list sx) (obs : list sx) : bool :=
  match ops, obs with
  | o :: ops', x :: obs' =>
      (match o with
       | SL (SY n :: v :: _) =>
           (* a Reconfigure with an invalid Config must return an error and leave every observable as it was *)
           if beqb n (b "reconf") && spec_invalid v
           then obs_err x && sx_eqb (obs_state prev) (obs_state x) else true
       | _ => true
       end) && c08_ok x ops' obs'
  | _, _ => true
  end.

Definition sm_of (o : sx) (x : sx) : sm_op :=
  match o with
  | SL (SY n :: v :: _) =>
      if beqb n (b "setdebug") then SmSetDebug (get_bool v)
      else match v with SY _ => SmReconfNil | _ => SmReconf (negb (obs_err x)) end
  | _ => SmReconfNil
  end.

Fixpoint c09_ok (s : sm_state) (ops : list sx) (obs : list sx) : bool :=
  match ops, obs with
  | o :: ops', x :: obs' =>
      let s' := sm_step s (sm_of o x) in
      Bool.eqb (snd s') (obs_debug x) &&
      Bool.eqb (fst s') (negb (is_sym "nil" (field "config" (get_list x)))) &&
      c09_ok s' ops' obs'
  | _, _ => true
  end.

Definition run_hist (x : sx) : sx :=
  let l := get_list x in
  let initx := field "init" l in
  let opsx := get_list (field "ops" l) in
  let probes := map dec_request (get_list (field "probes" l)) in
  let obs := get_list (field "obs" l) in          (* obs[0] = initial state, then one per op *)
  let want := get_list (field "want" l) in
  let init : option mstate :=
    match dec_config initx with
    | None => Some zero_mw
    | Some c => fst (mw_new ace ip6 psl c)
    end in
  match init, obs with
  | Some st0, o0 :: orest =>
      let ops := flat_map (fun o => match dec_op (match o with SL (a :: v :: _) => SL [a; v] | _ => o end) with
                                    | Some (m, _) => [m] | None => [] end) opsx in
      let mt := enc_obs false st0 probes :: model_trace st0 ops probes in
      let configured0 := negb (is_sym "nil" initx) in
      verdict (sx_eqb (SL mt) (SL obs))
              ((if has_sym "c08" want then c08_ok o0 opsx orest else true) &&
               (if has_sym "c09" want then
                  negb (obs_debug o0) && c09_ok (sm_init configured0) opsx orest else true))
              (SL mt)
  | _, _ => verdict false true (sym "model-rejects-initial-config")
  end.

(* ---------- roundtrip: Config() fed back (C06) ---------- *)
Definition run_roundtrip (x : sx) : sx :=
  let l := get_list x in
  let probes := map dec_request (get_list (field "probes" l)) in
  let impl_cfgs := get_list (field "configs" l) in     (* Config() of: New(c); after Reconfigure(Config()); after a second one *)
  let reconf_ok := get_bool (field "reconfok" l) in
  let outs := get_list (field "outs" l) in             (* per middleware (New c, New Config(), zero+Reconfigure) x debug: list of outcomes *)
  match dec_config (field "cfg" l) with
  | None => verdict false false (sym "bad-config")
  | Some c =>
      match new_internal_config ace ip6 psl c with
      | inr _ => verdict false true (sym "model-rejects-config")
      | inl ic =>
          let c1 := new_config ic in
          match new_internal_config ace ip6 psl c1 with
          | inr _ => verdict false (reconf_ok) (sym "model-rejects-Config()")
          | inl ic1 =>
              let c2 := new_config ic1 in
              let c3 := match new_internal_config ace ip6 psl c2 with inl ic2 => new_config ic2 | inr _ => c2 end in
              let mo := fun (i : icfg) (d : bool) => SL (map (fun r => enc_outcome (serve (Some i) d r [])) probes) in
              let model_outs := [mo ic false; mo ic true; mo ic1 false; mo ic1 true; mo ic false; mo ic true] in
              let all_same := match outs with
                              | a0 :: a1 :: b0 :: b1 :: z0 :: z1 :: _ =>
                                  sx_eqb a0 b0 && sx_eqb a0 z0 && sx_eqb a1 b1 && sx_eqb a1 z1
                              | _ => false
                              end in
              let stable := match impl_cfgs with
                            | _ :: k2 :: k3 :: _ => sx_eqb k2 k3
                            | _ => false
                            end in
              verdict (sx_eqb (SL [enc_config c1; enc_config c2; enc_config c3]) (SL impl_cfgs) &&
                       sx_eqb (SL model_outs) (SL outs))
                      (reconf_ok && all_same && stable)
                      (SL [enc_config c1; enc_config c2; enc_config c3])
          end
      end
  end.

(* ---------- pattern: ParsePattern on labelled strings (C13) ---------- *)
Definition enc_kind (k : pkind) : sx :=
  match k with KDomain => sym "domain" | KNonLoopbackIP => sym "ip" | KLoopbackIP => sym "loopback" | KSubdomains => sym "subdomains" end.

Definition run_pattern (x : sx) : sx :=
  let l := get_list x in
  let raw := get_bytes (field "raw" l) in
  let label := field "label" l in                      (* valid | defect | grey *)
  let impl := field "impl" l in                        (* (ok scheme value kind port) | (err reason value) *)
  let selfmatch := get_bool (field "selfmatch" l) in   (* implementation: ACAO echoed when the pattern is sent as Origin *)
  let wildfree := get_bool (field "wildfree" l) in
  let m := match parse_pattern ace ip6 raw with
           | inl p => SL [sym "ok"; SB (pscheme p); SB (pvalue p); enc_kind (pkind_of p); SI (pport p)]
           | inr r => SL [sym "err"; enc_reason r; SB raw]
           end in
  let impl_ok := match impl with SL (SY n :: _) => beqb n (b "ok") | _ => false end in
  let model_self := match parse_pattern ace ip6 raw, parse raw with
                    | inl p, Some o => tree_contains (tree_insert empty_tree p) o
                    | _, _ => false
                    end in
  let holds :=
    if is_sym "valid" label then impl_ok && (negb wildfree || selfmatch)
    else if is_sym "defect" label then
      negb impl_ok && match impl with SL [_; _; SB v] => beqb v raw | _ => false end
    else true in
  verdict (sx_eqb m impl && (negb (impl_ok && wildfree) || Bool.eqb model_self selfmatch)) holds m.

(* ---------- prov: provenance of installed slices (C12, C18) ---------- *)
Definition enc_tag (t : ptag) : sx :=
  match t with Own => sym "own" | ReqSlice _ => sym "req" | Shared _ => sym "shared" | CfgSlice _ => sym "cfg" end.

Fixpoint tmap_insert (kv : bytes * ptag) (m : tmap) : tmap :=
  match m with
  | [] => [kv]
  | kv' :: r => if bleb (fst kv) (fst kv') then kv :: m else kv' :: tmap_insert kv r
  end.

Fixpoint tags_match (model impl : list sx) : bool :=
  match model, impl with
  | [], [] => true
  | SL [SB k; t] :: m', SL [SB k'; t'] :: i' =>
      beqb k k' && (sx_eqb t t' || is_sym "any" t') && tags_match m' i'
  | _, _ => false
  end.

Definition run_prov (x : sx) : sx :=
  let l := get_list x in
  let debug := get_bool (field "debug" l) in
  let r := dec_request (field "req" l) in
  let pre := dec_hmap (field "pre" l) in
  let impl := get_list (field "impl" l) in
  let impl_del := get_bool (field "delegated" impl) in
  let impl_tags := get_list (field "tags" impl) in
  match model_state (field "cfg" l) debug with
  | None => verdict false true (sym "model-rejects-config")
  | Some (st, dbg) =>
      let '(tm, del) := pserve st dbg r pre in
      let mt := map (fun kv => SL [SB (fst kv); enc_tag (snd kv)]) (fold_right tmap_insert [] tm) in
      verdict (Bool.eqb del impl_del && tags_match mt impl_tags)
              (negb impl_del ||
               forallb (fun e => match e with SL [_; t] => negb (is_sym "shared" t) && negb (is_sym "cfg" t) | _ => false end) impl_tags)
              (SL [sbool del; SL mt])
  end.

(* ---------- split: splitAtCommonSuffix, index-level model vs the Go function (C17) ---------- *)
Definition run_split (x : sx) : sx :=
  let l := get_list x in
  let a := get_bytes (field "a" l) in
  let c := get_bytes (field "c" l) in
  let impl := get_blist (field "impl" l) in      (* (ra rc com), or () if the Go function panicked *)
  match split_at_common_suffix a c with
  | Panic => verdict (match impl with [] => true | _ => false end) false (sym "panic")
  | Ok (ra, rc, com) =>
      let m := SL [SB ra; SB rc; SB com] in
      verdict (sx_eqb m (SL (map SB impl)))
              (match impl with
               | [ia; ic; icom] => beqb (ia ++ icom) a && beqb (ic ++ icom) c &&
                                   (match rev ia, rev ic with x :: _, y :: _ => negb (x =? y) | _, _ => true end)
               | _ => false
               end) m
  end.

(* dispatcher: a case is (family id (k v)...) *)
Definition run_case (x : sx) : sx :=
  match x with
  | SL (SY fam :: id :: body) =>
      let r :=
        if beqb fam (b "all") then run_all (SL body)
        else if beqb fam (b "check") then run_check (SL body)
        else if beqb fam (b "tree") then run_tree (SL body)
        else if beqb fam (b "serve") then run_serve (SL body)
        else if beqb fam (b "pair") then run_pair (SL body)
        else if beqb fam (b "intent") then run_intent (SL body)
        else if beqb fam (b "config") then run_config (SL body)
        else if beqb fam (b "hist") then run_hist (SL body)
        else if beqb fam (b "roundtrip") then run_roundtrip (SL body)
        else if beqb fam (b "pattern") then run_pattern (SL body)
        else if beqb fam (b "prov") then run_prov (SL body)
        else if beqb fam (b "split") then run_split (SL body)
        else if beqb fam (b "netip") then run_netip (SL body)
        else SL [sbool false; sbool false; sym "unknown-family"] in
      SL [id; r]
  | _ => SL [sym "bad-case"]
  end.

End WithOracles.

(* in-Coq evaluation of a case (used by the per-run sample): oracles come from the case itself *)
Definition oracle_tbl (k : String.string) (x : sx) : list sx :=
  match x with
  | SL (_ :: _ :: body) => get_list (field k (get_list (field "oracle" body)))
  | _ => []
  end.

Arguments oracle_tbl _%string_scope _.
Definition run_case_pure (x : sx) : sx :=
  run_case (ace_of (oracle_tbl "ace" x)) (ip6_of (oracle_tbl "ip6" x)) (psl_of (oracle_tbl "psl" x)) x.
