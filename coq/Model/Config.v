(* Model/Config.v -- config.go: Config, internalConfig, the validators, newConfig *)
Require Import Base.Bytes Gen.Tables Model.Util Model.Headers Model.Methods Model.Origins
  Model.Netip Model.Pattern Model.Radix Model.CfgErrors.
Open Scope N_scope.

Record config := {
  c_origins : list bytes;
  c_credentialed : bool;
  c_methods : list bytes;
  c_req_headers : list bytes;
  c_max_age : Z;
  c_res_headers : list bytes;
  c_status : Z;
  c_pna : bool;
  c_pna_nocors : bool;
  c_tol_insecure : bool;
  c_tol_psl : bool
}.

Record icfg := {
  i_tree : node;
  i_methods : sset;
  i_req_hdrs : sset;
  i_acah : option bytes;          (* nil, or the singleton slice holding the joined list *)
  i_status_m200 : Z;              (* uint8, range [0,99] *)
  i_cred : bool;
  i_any_method : bool;
  i_asterisk_req : bool;
  i_allow_auth : bool;
  i_pna : bool;
  i_pna_nocors : bool;
  i_acma : option bytes;          (* nil, or the singleton slice *)
  i_aceh : bytes;
  i_tol_psl : bool;
  i_tol_insecure : bool
}.

Definition star : bytes := headers_ValueWildcard.

Section Oracles.
Variable ace_ok : bytes -> bool.
Variable ip6 : bytes -> ipres.
Variable is_psl : bytes -> bool.

(* ---- validateOrigins ---- *)
(* the errors one list occurrence contributes, and the pattern to insert *)
Definition origin_item (cred pna tol_insec tol_psl : bool) (raw : bytes) : list cerr * option pattern :=
  if beqb raw star then
    ((if cred then [EIncompatOrigin star RCredentialed] else []) ++
     (if pna then [EIncompatOrigin star RPna] else []), None)
  else match parse_pattern ace_ok ip6 raw with
  | inr r => ([EOrigin raw r], None)
  | inl p =>
      ((if is_deemed_insecure p && negb tol_insec then
          (if cred then [EIncompatOrigin raw RCredentialed] else []) ++
          (if pna then [EIncompatOrigin raw RPna] else [])
        else []) ++
       (if pkind_eqb (pkind_of p) KSubdomains && negb tol_psl && host_is_etld is_psl p
        then [EIncompatOrigin raw RPsl] else []),
       Some p)
  end.

Definition validate_origins (cred pna tol_insec tol_psl : bool) (pats : list bytes)
  : node + etree cerr :=
  match pats with
  | [] => inr (Leaf (EOrigin [] RMissing))
  | _ =>
      let items := map (origin_item cred pna tol_insec tol_psl) pats in
      match flat_map fst items with
      | [] =>
          if existsb (fun raw => beqb raw star) pats then inl empty_tree
          else inl (fold_left (fun t it => match snd it with Some p => tree_insert t p | None => t end)
                              items empty_tree)
      | errs => inr (Join (map Leaf errs))
      end
  end.

(* ---- validateMethods ---- *)
Definition method_item (name : bytes) : list cerr * option bytes :=
  if beqb name star then ([], None)
  else if negb (method_is_valid name) then ([EMethod name RInvalid], None)
  else
    let nm := method_normalize name in
    if method_is_safelisted nm then ([], None)
    else if method_is_forbidden nm then ([EMethod nm RForbidden], None)
    else ([], Some nm).

(* (allowAnyMethod, allowedMethods) *)
Definition validate_methods (names : list bytes) : (bool * sset) + etree cerr :=
  match names with
  | [] => inl (false, sset_empty)
  | _ =>
      let items := map method_item names in
      match flat_map fst items with
      | [] =>
          if existsb (fun n => beqb n star) names then inl (true, sset_empty)
          else inl (false, fold_left (fun s it => match snd it with Some m => sset_add s m | None => s end)
                                     items sset_empty)
      | errs => inr (Join (map Leaf errs))
      end
  end.

(* ---- validateRequestHeaders: a single pass whose flags change mid-loop ---- *)
Record rh_state := { rh_asterisk : bool; rh_auth : bool; rh_set : sset; rh_errs : list cerr }.

Definition rh_step (cred : bool) (st : rh_state) (name : bytes) : rh_state :=
  if beqb name star then
    {| rh_asterisk := true; rh_auth := rh_auth st; rh_set := rh_set st; rh_errs := rh_errs st |}
  else if negb (is_valid_name name) then
    {| rh_asterisk := rh_asterisk st; rh_auth := rh_auth st; rh_set := rh_set st;
       rh_errs := rh_errs st ++ [EHeader name TRequest RInvalid] |}
  else
    let nm := lower name in
    if beqb nm headers_Authorization then
      if rh_auth st then st
      else
        {| rh_asterisk := rh_asterisk st; rh_auth := true;
           rh_set := if negb (rh_asterisk st) || negb cred then sset_add (rh_set st) nm else rh_set st;
           rh_errs := rh_errs st |}
    else if is_forbidden_req nm then
      {| rh_asterisk := rh_asterisk st; rh_auth := rh_auth st; rh_set := rh_set st;
         rh_errs := rh_errs st ++ [EHeader name TRequest RForbidden] |}
    else if is_prohibited_req nm then
      {| rh_asterisk := rh_asterisk st; rh_auth := rh_auth st; rh_set := rh_set st;
         rh_errs := rh_errs st ++ [EHeader name TRequest RProhibited] |}
    else
      {| rh_asterisk := rh_asterisk st; rh_auth := rh_auth st; rh_set := sset_add (rh_set st) nm;
         rh_errs := rh_errs st |}.

Definition rh_init : rh_state :=
  {| rh_asterisk := false; rh_auth := false; rh_set := sset_empty; rh_errs := [] |}.

(* (asteriskReqHdrs, allowAuthorization, allowedReqHdrs, acah) *)
Definition validate_req_headers (cred : bool) (names : list bytes)
  : (bool * bool * sset * option bytes) + etree cerr :=
  match names with
  | [] => inl (false, false, sset_empty, None)
  | _ =>
      let st := fold_left (rh_step cred) names rh_init in
      match rh_errs st with
      | [] =>
          if negb (rh_asterisk st) && negb (sset_size (rh_set st) =? 0) then
            inl (rh_asterisk st, rh_auth st, rh_set st, Some (join headers_ValueSep (elems (rh_set st))))
          else inl (rh_asterisk st, rh_auth st, sset_empty, None)
      | errs => inr (Join (map Leaf errs))
      end
  end.

(* ---- validateMaxAge ---- *)
Definition ma_upper : Z := cors_internalConfig_validateMaxAge_upperBound.
Definition ma_disable : Z := cors_internalConfig_validateMaxAge_disableCaching.
Definition ma_default : Z := cors_internalConfig_validateMaxAge_defaultMaxAge.

Definition validate_max_age (delta : Z) : option bytes + etree cerr :=
  if (delta <? ma_disable)%Z || (ma_upper <? delta)%Z then
    inr (Leaf (EMaxAge delta ma_default ma_upper ma_disable))
  else if (delta =? ma_disable)%Z then inl (Some [48])
  else if (delta =? 0)%Z then inl None
  else inl (Some (itoa (Z.to_N delta))).

(* ---- validateResponseHeaders ---- *)
Definition res_item (cred : bool) (name : bytes) : list cerr * option bytes :=
  if beqb name star then ((if cred then [EIncompatWildcardResHdr] else []), None)
  else if negb (is_valid_name name) then ([EHeader name TResponse RInvalid], None)
  else
    let nm := lower name in
    if is_forbidden_res nm then ([EHeader name TResponse RForbidden], None)
    else if is_prohibited_res nm then ([EHeader name TResponse RProhibited], None)
    else if is_safelisted_res nm then ([], None)
    else ([], Some nm).

Definition validate_res_headers (cred : bool) (names : list bytes) : bytes + etree cerr :=
  match names with
  | [] => inl []
  | _ =>
      let items := map (res_item cred) names in
      match flat_map fst items with
      | [] =>
          if existsb (fun n => beqb n star) names then inl star
          else
            let set := fold_left (fun s it => match snd it with Some m => sset_add s m | None => s end)
                                 items sset_empty in
            inl (join headers_ValueSep (elems set))
      | errs => inr (Join (map Leaf errs))
      end
  end.

(* ---- validatePreflightStatus ---- *)
Definition st_lower : Z := cors_internalConfig_validatePreflightStatus_lowerBound.
Definition st_upper : Z := cors_internalConfig_validatePreflightStatus_upperBound.

Definition validate_status (status : Z) : Z + etree cerr :=
  if (status =? 0)%Z then inl (cors_defaultPreflightStatus - 200)%Z
  else if negb ((st_lower <=? status)%Z && (status <=? st_upper)%Z) then
    inr (Leaf (EStatus status cors_defaultPreflightStatus st_lower st_upper))
  else inl ((status - 200) mod 256)%Z.   (* uint8 conversion *)

Definition err_of {A} (r : A + etree cerr) : option (etree cerr) :=
  match r with inl _ => None | inr e => Some e end.
Definition val_of {A} (d : A) (r : A + etree cerr) : A :=
  match r with inl a => a | inr _ => d end.

(* newInternalConfig for a non-nil *Config *)
Definition new_internal_config (c : config) : icfg + etree cerr :=
  let rs := validate_status (c_status c) in
  let epna := if c_pna c && c_pna_nocors c then Some (Leaf EIncompatPNA) else None in
  let pna := c_pna c || c_pna_nocors c in
  let ro := validate_origins (c_credentialed c) pna (c_tol_insecure c) (c_tol_psl c) (c_origins c) in
  let rm := validate_methods (c_methods c) in
  let rh := validate_req_headers (c_credentialed c) (c_req_headers c) in
  let ra := validate_max_age (c_max_age c) in
  let re := validate_res_headers (c_credentialed c) (c_res_headers c) in
  match join_opt [err_of rs; epna; err_of ro; err_of rm; err_of rh; err_of ra; err_of re] with
  | Some e => inr e
  | None =>
      let '(anym, mset) := val_of (false, sset_empty) rm in
      let '(ast, auth, hset, acah) := val_of (false, false, sset_empty, None) rh in
      inl {| i_tree := val_of empty_tree ro;
             i_methods := mset;
             i_req_hdrs := hset;
             i_acah := acah;
             i_status_m200 := val_of 0%Z rs;
             i_cred := c_credentialed c;
             i_any_method := anym;
             i_asterisk_req := ast;
             i_allow_auth := auth;
             i_pna := c_pna c;
             i_pna_nocors := c_pna_nocors c;
             i_acma := val_of None ra;
             i_aceh := val_of [] re;
             i_tol_psl := c_tol_psl c;
             i_tol_insecure := c_tol_insecure c |}
  end.

End Oracles.

(* newConfig for a non-nil *internalConfig *)
Definition new_config (ic : icfg) : config :=
  {| c_origins := if tree_is_empty (i_tree ic) then [star] else tree_elems (i_tree ic);
     c_credentialed := i_cred ic;
     c_methods := if i_any_method ic then [star]
                  else elems (i_methods ic);  (* nil and empty are both "no entries" *)
     c_req_headers :=
       if negb (i_cred ic) && i_asterisk_req ic && i_allow_auth ic then [star; headers_Authorization]
       else if i_asterisk_req ic then [star]
       else elems (i_req_hdrs ic);
     c_max_age := match i_acma ic with
                  | Some v => let m := Z.of_N (atoi v) in if (m =? 0)%Z then (-1)%Z else m
                  | None => 0%Z
                  end;
     c_res_headers := match i_aceh ic with [] => [] | v => split_byte 44 v end;
     c_status := if (((i_status_m200 ic + 200) mod 256) =? cors_defaultPreflightStatus)%Z then 0%Z
                 else (i_status_m200 ic + 200)%Z;
     c_pna := i_pna ic;
     c_pna_nocors := i_pna_nocors ic;
     c_tol_insecure := i_tol_insecure ic;
     c_tol_psl := i_tol_psl ic |}.
