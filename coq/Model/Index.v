(* Model/Index.v -- index-level restatement (C17) of the functions that slice strings by hand
   with hoisted bounds checks: splitAtCommonSuffix (radix.go:132-145), parsePort
   (origins.go:201-220), cutAtComma (acrh.go:102-110), SortedSet.IndexAfter (sortedset.go:40-50),
   First (common.go:71-77). Every index and slice expression of the Go code is an explicit
   operation that yields [Panic] when out of range, exactly as the Go runtime would. *)
Require Import Base.Bytes Gen.Tables Model.Util Model.Headers Model.Origins.
Open Scope Z_scope.

Inductive res (A : Type) := Ok (a : A) | Panic.
Arguments Ok {A} _.
Arguments Panic {A}.

Definition bind {A B} (r : res A) (f : A -> res B) : res B := match r with Ok a => f a | Panic => Panic end.
Notation "x <- r ;; k" := (bind r (fun x => k)) (at level 61, r at next level, right associativity).

Definition zlen {A} (s : list A) : Z := Z.of_nat (length s).

(* s[lo:hi] *)
Definition slice {A} (s : list A) (lo hi : Z) : res (list A) :=
  if (0 <=? lo) && (lo <=? hi) && (hi <=? zlen s)
  then Ok (firstn (Z.to_nat (hi - lo)) (skipn (Z.to_nat lo) s)) else Panic.

(* s[i] *)
Definition index (s : bytes) (i : Z) : res N :=
  if (0 <=? i) && (i <? zlen s) then Ok (nth (Z.to_nat i) s 0%N) else Panic.

(* ---- splitAtCommonSuffix ---- *)
(* for ; 0 <= i && s[i] == l[i]; i-- {}   -- returns the final i *)
Fixpoint suffix_loop (fuel : nat) (s l : bytes) (i : Z) : res Z :=
  match fuel with
  | O => Ok i
  | S f =>
      if 0 <=? i then
        x <- index s i ;; y <- index l i ;;
        if (x =? y)%N then suffix_loop f s l (i - 1) else Ok i
      else Ok i
  end.

Definition split_at_common_suffix (a c : bytes) : res (bytes * bytes * bytes) :=
  let '(s, l) := if zlen c <? zlen a then (c, a) else (a, c) in      (* s for short, l for long *)
  l1 <- slice l (zlen l - zlen s) (zlen l) ;;
  _ <- slice l1 0 (zlen s) ;;                                          (* the hoisted bounds check *)
  i0 <- suffix_loop (S (length s)) s l1 (zlen s - 1) ;;
  let i := i0 + 1 in
  ra <- slice a 0 (zlen a - zlen s + i) ;;
  rc <- slice c 0 (zlen c - zlen s + i) ;;
  com <- slice s i (zlen s) ;;
  Ok (ra, rc, com).

(* ---- parsePort ---- *)
Fixpoint port_loop_idx (fuel : nat) (str : bytes) (i stop : Z) (port : Z) : res (Z * Z) :=
  match fuel with
  | O => Ok (port, i)
  | S f =>
      if i <? stop then
        c <- index str i ;;
        if in_set origins_digits c then port_loop_idx f str (i + 1) stop (origins_parsePort_base * port + (Z.of_N c - 48))
        else Ok (port, i)
      else Ok (port, i)
  end.

Definition parse_port_idx (str : bytes) : res (option (Z * bytes)) :=
  if zlen str =? 0 then Ok None
  else
    c0 <- index str 0 ;;
    if negb (in_set origins_nonzeroDigits c0) then Ok None
    else
      let stop := Z.min (zlen str) origins_maxPortLen in
      _ <- slice str 1 stop ;;                                          (* _ = str[i:end] *)
      pi <- port_loop_idx (length str) str 1 stop (Z.of_N c0 - 48) ;;
      let '(port, i) := pi in
      if (port <? 0) || (origins_maxUint16 <? port) then Ok None
      else rest <- slice str i (zlen str) ;; Ok (Some (port, rest)).

(* ---- cutAtComma ---- *)
Fixpoint index_byte (c : N) (s : bytes) (i : Z) : Z :=
  match s with [] => -1 | x :: r => if (x =? c)%N then i else index_byte c r (i + 1) end.

Definition cut_at_comma_idx (str : bytes) (n : Z) : res (bytes * bytes * bool) :=
  let stop := Z.min (zlen str) n in
  window <- slice str 0 stop ;;
  let i := index_byte 44 window 0 in
  if 0 <=? i then
    after <- slice str (i + 1) (zlen str) ;;
    before <- slice str 0 i ;;
    Ok (before, after, true)
  else Ok (str, [], false).

(* ---- SortedSet.IndexAfter: set.elems[start:] ---- *)
Definition index_after_idx (s : sset) (n : Z) (e : bytes) : res Z :=
  if (maxlen s <? blen e)%N then Ok (-1)
  else
    let start := n + 1 in
    tail <- slice (elems s) start (zlen (elems s)) ;;
    Ok (find_index e tail start).

(* ---- headers.First: v[0], v[:1] ---- *)
Definition first_idx (m : hmap) (k : bytes) : res (option (bytes * list bytes)) :=
  match hget m k with
  | None => Ok None
  | Some v =>
      if zlen v =? 0 then Ok None
      else sgl <- slice v 0 1 ;;
           match v with x :: _ => Ok (Some (x, sgl)) | [] => Panic end
  end.

(* ---- the inner loop of Check, calling the index-level primitives ---- *)
Inductive cres_idx := IFail | IOk (pos emp : Z) | IFuel | IPanic.

Fixpoint check_line_idx (fuel : nat) (set : sset) (win : Z) (acrh : bytes) (pos emp : Z) : cres_idx :=
  match fuel with
  | O => IFuel
  | S f =>
      match cut_at_comma_idx acrh win with
      | Panic => IPanic
      | Ok (name, rest, found) =>
          match trim_ows name max_ows with
          | None => IFail
          | Some [] =>
              let emp' := emp + 1 in
              if max_empty <? emp' then IFail
              else if found then check_line_idx f set win rest pos emp' else IOk pos emp'
          | Some nm =>
              match index_after_idx set pos nm with
              | Panic => IPanic
              | Ok i =>
                  if i <? 0 then IFail
                  else if found then check_line_idx f set win rest i emp else IOk i emp
              end
          end
      end
  end.
