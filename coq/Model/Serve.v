(* Model/Serve.v -- middleware.go: request dispatch, handleNonCORS, handleCORSPreflight,
   process*, handleCORSActual, over association-list header maps *)
Require Import Base.Bytes Gen.Tables Model.Util Model.Headers Model.Methods Model.Origins
  Model.Pattern Model.Radix Model.Config.
Open Scope N_scope.

Record request := { r_method : bytes; r_hdrs : hmap }.

Record outcome := {
  o_hdrs : hmap;             (* the response header map after the middleware has run *)
  o_status : option Z;       (* status written by the middleware itself *)
  o_delegated : bool         (* whether the wrapped handler is invoked *)
}.

Definition method_options : bytes := [79; 80; 84; 73; 79; 78; 83].

Definition handle_non_cors (ic : icfg) (res : hmap) (is_options : bool) : hmap :=
  let res1 := if is_options then hadd res headers_Vary headers_ValueVaryOptions else res in
  if i_pna_nocors ic then res1
  else if negb (tree_is_empty (i_tree ic)) then
    (if negb is_options then hadd res1 headers_Vary headers_Origin else res1)
  else
    let res2 := hset res1 headers_ACAO [headers_ValueWildcard] in
    match i_aceh ic with
    | [] => res2
    | v => hset res2 headers_ACEH [v]
    end.

(* processOriginForPreflight: (buf', ok) *)
Definition process_origin_preflight (ic : icfg) (buf : hmap) (org : bytes) : hmap * bool :=
  match parse org with
  | None => (buf, false)
  | Some o =>
      if negb (i_cred ic) && tree_is_empty (i_tree ic) then (hset buf headers_ACAO headers_WildcardSgl, true)
      else if negb (tree_contains (i_tree ic) o) then (buf, false)
      else
        let buf1 := hset buf headers_ACAO [org] in
        (if i_cred ic then hset buf1 headers_ACAC headers_TrueSgl else buf1, true)
  end.

Definition process_acrpn (ic : icfg) (buf : hmap) (req : hmap) : hmap * bool :=
  match first req headers_ACRPN with
  | None => (buf, true)
  | Some v =>
      if negb (beqb v headers_ValueTrue) then (buf, true)
      else if i_pna ic || i_pna_nocors ic then (hset buf headers_ACAPN headers_TrueSgl, true)
      else (buf, false)
  end.

Definition process_acrm (ic : icfg) (buf : hmap) (acrm : bytes) : hmap * bool :=
  if method_is_safelisted acrm then (buf, true)
  else if i_any_method ic && negb (i_cred ic) then (hset buf headers_ACAM headers_WildcardSgl, true)
  else if i_any_method ic || set_contains (i_methods ic) acrm then (hset buf headers_ACAM [acrm], true)
  else (buf, false).

Definition process_acrh (ic : icfg) (buf : hmap) (req : hmap) (debug : bool) : hmap * bool :=
  match hget req headers_ACRH with
  | None => (buf, true)
  | Some acrh =>
      if i_asterisk_req ic && negb (i_cred ic) then
        (hset buf headers_ACAH (if i_allow_auth ic then headers_WildcardAuthSgl else headers_WildcardSgl), true)
      else if i_asterisk_req ic && i_cred ic then (hset buf headers_ACAH acrh, true)
      else if negb debug then
        if sset_size (i_req_hdrs ic) =? 0 then (buf, false)
        else if negb (check (i_req_hdrs ic) acrh) then (buf, false)
        else (hset buf headers_ACAH acrh, true)
      else match i_acah ic with
           | Some v => (hset buf headers_ACAH [v], true)
           | None => (buf, false)
           end
  end.

Definition success_status (ic : icfg) : Z := (i_status_m200 ic + 200)%Z.

Definition handle_preflight (ic : icfg) (res : hmap) (req : hmap) (org acrm : bytes) (debug : bool)
  : hmap * Z :=
  let res1 := match hget res headers_Vary with
              | None => hset res headers_Vary headers_PreflightVarySgl
              | Some v => hset res headers_Vary (v ++ [headers_ValueVaryOptions])
              end in
  let buf0 : hmap := [] in
  match process_origin_preflight ic buf0 org with
  | (buf1, false) => ((if debug then hcopy res1 buf1 else res1), 403%Z)
  | (buf1, true) =>
    match process_acrpn ic buf1 req with
    | (buf2, false) => if debug then (hcopy res1 buf2, success_status ic) else (res1, 403%Z)
    | (buf2, true) =>
      match process_acrm ic buf2 acrm with
      | (buf3, false) => if debug then (hcopy res1 buf3, success_status ic) else (res1, 403%Z)
      | (buf3, true) =>
        match process_acrh ic buf3 req debug with
        | (buf4, false) => if debug then (hcopy res1 buf4, success_status ic) else (res1, 403%Z)
        | (buf4, true) =>
            let res2 := hcopy res1 buf4 in
            let res3 := match i_acma ic with Some v => hset res2 headers_ACMA [v] | None => res2 end in
            (res3, success_status ic)
        end
      end
    end
  end.

Definition handle_actual (ic : icfg) (res : hmap) (org : bytes) (is_options : bool) : hmap :=
  if i_pna_nocors ic then
    (if is_options then hadd res headers_Vary headers_ValueVaryOptions else res)
  else
    let res1 := if is_options then hadd res headers_Vary headers_ValueVaryOptions
                else if negb (tree_is_empty (i_tree ic)) then hadd res headers_Vary headers_Origin
                else res in
    if negb (i_cred ic) && tree_is_empty (i_tree ic) then
      let res2 := hset res1 headers_ACAO [headers_ValueWildcard] in
      match i_aceh ic with [] => res2 | v => hset res2 headers_ACEH [v] end
    else match parse org with
    | None => res1
    | Some o =>
        if negb (tree_contains (i_tree ic) o) then res1
        else
          let res2 := hset res1 headers_ACAO [org] in
          let res3 := if i_cred ic then hset res2 headers_ACAC [headers_ValueTrue] else res2 in
          match i_aceh ic with [] => res3 | v => hset res3 headers_ACEH [v] end
    end.

(* the handler returned by Wrap, for a given snapshot (icfg, debug) *)
Definition serve (st : option icfg) (debug : bool) (r : request) (pre : hmap) : outcome :=
  match st with
  | None => {| o_hdrs := pre; o_status := None; o_delegated := true |}
  | Some ic =>
      let is_options := beqb (r_method r) method_options in
      match first (r_hdrs r) headers_Origin with
      | None => {| o_hdrs := handle_non_cors ic pre is_options; o_status := None; o_delegated := true |}
      | Some org =>
          match first (r_hdrs r) headers_ACRM with
          | Some acrm =>
              if is_options then
                let '(h, s) := handle_preflight ic pre (r_hdrs r) org acrm debug in
                {| o_hdrs := h; o_status := Some s; o_delegated := false |}
              else {| o_hdrs := handle_actual ic pre org is_options; o_status := None; o_delegated := true |}
          | None => {| o_hdrs := handle_actual ic pre org is_options; o_status := None; o_delegated := true |}
          end
      end
  end.
