(* Model/Netip6.v -- net/netip (Go 1.23) on the literals ParseAddr hands to parseIPv6: those whose
   first special byte (first of '.', ':', '%') is ':'. [ip6_model s] is what the harness records for
   netip.ParseAddr(s): an error, a parsed address with a zone, an IPv4-mapped address, or
   (Addr.String(), Addr.IsLoopback()). It is an exact, executable INSTANCE of the oracle [ip6] of
   Model/Netip.v (the theorems stay quantified over the oracle); the `netip` correspondence family
   compares it with the real library on every run. An address is its list of eight 16-bit groups. *)
Require Import Base.Bytes Model.Netip.
Open Scope N_scope.

(* ---- parseIPv6 ---- *)
Definition hexval (c : N) : option N :=
  if (48 <=? c) && (c <=? 57) then Some (c - 48)
  else if (97 <=? c) && (c <=? 102) then Some (c - 87)
  else if (65 <=? c) && (c <=? 70) then Some (c - 55)
  else None.

(* the inner loop: leading hex digits of s; (value, number of digits, rest) *)
Fixpoint hex_run (s : bytes) (acc : N) (n : nat) : N * nat * bytes :=
  match s with
  | c :: r => match hexval c with
              | Some v => hex_run r (16 * acc + v) (S n)
              | None => (acc, n, s)
              end
  | [] => (acc, n, [])
  end.

Inductive r6 := NoFuel | Bad | Groups (gs : list N).

(* after the loop: the whole string must be used; a short address needs an ellipsis, which is
   expanded at its position; a full one must not have one *)
Definition finish6 (s : bytes) (gs : list N) (ell : option nat) : r6 :=
  match s with
  | _ :: _ => Bad                                                  (* trailing garbage *)
  | [] =>
      if (length gs <? 8)%nat then
        match ell with
        | None => Bad                                              (* address string too short *)
        | Some e => Groups (firstn e gs ++ repeat 0 (8 - length gs) ++ skipn e gs)
        end
      else match ell with None => Groups gs | Some _ => Bad end    (* :: must expand to >= 1 group *)
  end.

(* parseIPv4Fields on the tail (same field rules as parse_ipv4): the two groups it fills *)
Definition v4_tail (s : bytes) : option (N * N) :=
  match map octet_ok (split_byte 46 s) with
  | [Some a; Some c; Some d; Some e] => Some (256 * a + c, 256 * d + e)
  | _ => None
  end.

(* the outer loop "for i < 16": gs = the groups stored so far (i = 2 * length gs), ell = position
   of the ellipsis in groups. Every iteration consumes at least one byte. *)
Fixpoint groups6 (fuel : nat) (s : bytes) (gs : list N) (ell : option nat) : r6 :=
  match fuel with
  | O => NoFuel
  | S f =>
    if (8 <=? length gs)%nat then finish6 s gs ell
    else
      let '(acc, n, r) := hex_run s 0 0 in
      if (n =? 0)%nat || (4 <? n)%nat then Bad          (* no digit; more than 4 digits (value >= 2^16) *)
      else match r with
      | [] => finish6 [] (gs ++ [acc]) ell
      | c :: r1 =>
        if c =? 46 then                                  (* embedded IPv4: replaces the final two groups *)
          if (match ell with None => negb (length gs =? 6)%nat | Some _ => false end) || (6 <? length gs)%nat
          then Bad
          else match v4_tail s with
               | Some (hi, lo) => finish6 [] (gs ++ [hi; lo]) ell
               | None => Bad
               end
        else if negb (c =? 58) then Bad                  (* want colon *)
        else match r1 with
        | [] => Bad                                      (* colon must be followed by more *)
        | c2 :: r2 =>
          if c2 =? 58 then
            match ell with
            | Some _ => Bad                              (* multiple :: *)
            | None =>
                match r2 with
                | [] => finish6 [] (gs ++ [acc]) (Some (S (length gs)))
                | _ => groups6 f r2 (gs ++ [acc]) (Some (S (length gs)))
                end
            end
          else groups6 f r1 (gs ++ [acc]) ell
        end
      end
  end.

(* the address part (zone already split off): a leading "::" first *)
Definition parse6 (a : bytes) : r6 :=
  match cut_prefix [58; 58] a with
  | Some [] => Groups (repeat 0 8)
  | Some r => groups6 (S (length r)) r [] (Some 0%nat)
  | None => groups6 (S (length a)) a [] None
  end.

(* ---- Addr.String for a 16-byte address without zone (appendTo6, RFC 5952) ---- *)
Definition hexdigit (v : N) : N := if v <? 10 then 48 + v else 87 + v.

(* appendHex *)
Definition hex4 (x : N) : bytes :=
  (if 4096 <=? x then [hexdigit ((x / 4096) mod 16)] else []) ++
  (if 256 <=? x then [hexdigit ((x / 256) mod 16)] else []) ++
  (if 16 <=? x then [hexdigit ((x / 16) mod 16)] else []) ++ [hexdigit (x mod 16)].

(* number of zero groups at the head *)
Fixpoint zrun (gs : list N) : nat :=
  match gs with
  | g :: r => if g =? 0 then S (zrun r) else O
  | [] => O
  end.

(* (start, length) of the longest run of >= 2 zero groups, the first one on ties; length 0: none *)
Fixpoint best_run (gs : list N) (i : nat) (best : nat * nat) : nat * nat :=
  match gs with
  | [] => best
  | _ :: r =>
      let l := zrun gs in
      best_run r (S i) (if (2 <=? l)%nat && (snd best <? l)%nat then (i, l) else best)
  end.

Definition join_hex (gs : list N) : bytes := join [58] (map hex4 gs).

Definition render6 (gs : list N) : bytes :=
  let '(st, l) := best_run gs 0 (0, 0)%nat in
  if (l =? 0)%nat then join_hex gs
  else join_hex (firstn st gs) ++ [58; 58] ++ join_hex (skipn (st + l) gs).

Definition is_4in6 (gs : list N) : bool := beqb (firstn 6 gs) [0; 0; 0; 0; 0; 65535].
Definition is_loopback6 (gs : list N) : bool := beqb gs [0; 0; 0; 0; 0; 0; 0; 1].

(* ---- ParseAddr(s) on the parseIPv6 path, classified as the middleware looks at it ---- *)
Definition ip6_model (s : bytes) : ipres :=
  let z := cut_byte 37 s in                              (* zone: everything after the first '%' *)
  match z with
  | Some (_, []) => IPErr                                (* zone must be non-empty *)
  | _ =>
      match parse6 (match z with Some (a, _) => a | None => s end) with
      | Groups gs =>
          match z with
          | Some _ => IPZone
          | None => if is_4in6 gs then IP4in6 else IPOk (render6 gs) (is_loopback6 gs)
          end
      | _ => IPErr
      end
  end.

(* ParseAddr as a whole, with the IPv6 side modelled *)
Definition parse_addr_model (s : bytes) : ipres := parse_addr ip6_model s.
