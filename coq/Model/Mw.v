(* Model/Mw.v -- the Middleware as a state machine: (icfg pointer, debug flag) *)
Require Import Base.Bytes Model.Netip Model.CfgErrors Model.Config Model.Serve Model.Headers.

Definition mstate := (option icfg * bool)%type.

Inductive op :=
| OReconfigure (c : option config)   (* Reconfigure(nil) / Reconfigure(&c) *)
| OSetDebug (b : bool).

Section Oracles.
Variable ace_ok : bytes -> bool.
Variable ip6 : bytes -> ipres.
Variable is_psl : bytes -> bool.

(* NewMiddleware *)
Definition mw_new (c : config) : option mstate * option (etree cerr) :=
  match new_internal_config ace_ok ip6 is_psl c with
  | inr e => (None, Some e)
  | inl ic => (Some (Some ic, false), None)
  end.

Definition zero_mw : mstate := (None, false).

(* one operation: the new state and the error returned (if any) *)
Definition step (st : mstate) (o : op) : mstate * option (etree cerr) :=
  match o with
  | OReconfigure None => ((None, false), None)
  | OReconfigure (Some c) =>
      match new_internal_config ace_ok ip6 is_psl c with
      | inr e => (st, Some e)
      | inl ic => ((Some ic, snd st), None)
      end
  | OSetDebug b => ((fst st, b && match fst st with Some _ => true | None => false end), None)
  end.

Definition run (st : mstate) (ops : list op) : mstate := fold_left (fun s o => fst (step s o)) ops st.

End Oracles.

(* Middleware.Config *)
Definition mw_config (st : mstate) : option config :=
  match fst st with Some ic => Some (new_config ic) | None => None end.

Definition mw_serve (st : mstate) (r : request) (pre : hmap) : outcome := serve (fst st) (snd st) r pre.
