(* Model/CfgErrors.v -- cfgerrors: error values, errors.Join trees, the push iterator All *)
Require Import Base.Bytes Model.Pattern.
Open Scope N_scope.

Inductive htype := TRequest | TResponse.

Inductive cerr :=
| EOrigin (value : bytes) (r : reason)                 (* UnacceptableOriginPatternError *)
| EMethod (value : bytes) (r : reason)                 (* UnacceptableMethodError *)
| EHeader (value : bytes) (t : htype) (r : reason)     (* UnacceptableHeaderNameError *)
| EMaxAge (value dflt max disable : Z)                 (* MaxAgeOutOfBoundsError *)
| EStatus (value dflt min max : Z)                     (* PreflightSuccessStatusOutOfBoundsError *)
| EIncompatOrigin (value : bytes) (r : reason)         (* IncompatibleOriginPatternError *)
| EIncompatPNA                                         (* IncompatiblePrivateNetworkAccessModesError *)
| EIncompatWildcardResHdr.                             (* IncompatibleWildcardResponseHeaderNameError *)

(* an error value: a leaf or the result of errors.Join (which keeps order and drops nils) *)
Inductive etree (A : Type) := Leaf (a : A) | Join (l : list (etree A)).
Arguments Leaf {A} _.
Arguments Join {A} _.

(* errors.Join(errs...) for a list of possibly-nil errors *)
Definition join_opt {A} (l : list (option (etree A))) : option (etree A) :=
  match flat_map (fun o => match o with Some t => [t] | None => [] end) l with
  | [] => None
  | ts => Some (Join ts)
  end.

Fixpoint flatten {A} (t : etree A) : list A :=
  match t with
  | Leaf a => [a]
  | Join l => (fix go (ts : list (etree A)) : list A :=
                 match ts with [] => [] | x :: r => flatten x ++ go r end) l
  end.

(* cfgerrors.All with the range-over-func desugaring: a consumer is a state transformer that
   answers whether iteration should go on; [all] returns the consumer's final state and
   whether no yield has answered false. *)
Fixpoint all {A S} (t : etree A) (yield : A -> S -> S * bool) (s : S) {struct t} : S * bool :=
  match t with
  | Leaf a => yield a s
  | Join l =>
      (fix go (ts : list (etree A)) (s : S) : S * bool :=
         match ts with
         | [] => (s, true)
         | x :: r =>
             match all x yield s with
             | (s', true) => go r s'
             | (s', false) => (s', false)
             end
         end) l s
  end.

(* A consumer that counts: it accepts [k] elements and breaks on the next one (k < 0: never breaks).
   State: (elements received (reversed), k, number of calls made after it had answered false). *)
Definition kconsumer {A} (a : A) (st : list A * Z * Z) : (list A * Z * Z) * bool :=
  let '(seen, k, late) := st in
  if (k =? 0)%Z then ((a :: seen, (-2)%Z, late), false)
  else if (k =? -2)%Z then ((seen, k, (late + 1)%Z), false)
  else ((a :: seen, (if (k <? 0)%Z then k else (k - 1)%Z), late), true).


Definition yielded {A} (t : etree A) (k : Z) : list A * Z :=
  let '((seen, _, late), _) := all t kconsumer ([], k, 0%Z) in (rev seen, late).

