(* Model/Prov.v -- provenance of every slice the middleware installs into the response header
   map (C12, C18): which backing array each value list lives in. The Go code installs either
     Own            a slice freshly allocated by Header.Add / Header.Set / append (handler may write it)
     ReqSlice k     a sub-slice of the request's own header value list for key k (v[:1] or the list itself)
     Shared n       a package-level singleton slice of internal/headers (n-th of the list below)
     CfgSlice acah? a slice owned by the internal configuration (acah or acma), shared by all requests
   [pserve] mirrors Serve.serve, returning for every key the middleware writes its tag. *)
Require Import Base.Bytes Gen.Tables Model.Util Model.Headers Model.Methods Model.Origins
  Model.Pattern Model.Radix Model.Config Model.Serve.
Open Scope N_scope.

Inductive shared_slice := ShPreflightVary | ShTrue | ShWildcard | ShWildcardAuth.
Inductive ptag :=
| Own
| ReqSlice (k : bytes)
| Shared (s : shared_slice)
| CfgSlice (acah : bool).     (* true: icfg.acah, false: icfg.acma *)

Definition tmap := list (bytes * ptag).

Fixpoint tset (m : tmap) (k : bytes) (t : ptag) : tmap :=
  match m with
  | [] => [(k, t)]
  | (k', t') :: r => if beqb k k' then (k, t) :: r else (k', t') :: tset r k t
  end.

Definition tcopy (dst src : tmap) : tmap := fold_left (fun d kv => tset d (fst kv) (snd kv)) src dst.

Definition p_non_cors (ic : icfg) (is_options : bool) : tmap :=
  let m1 := if is_options then [(headers_Vary, Own)] else [] in
  if i_pna_nocors ic then m1
  else if negb (tree_is_empty (i_tree ic)) then (if negb is_options then tset m1 headers_Vary Own else m1)
  else
    let m2 := tset m1 headers_ACAO Own in
    match i_aceh ic with [] => m2 | _ => tset m2 headers_ACEH Own end.

Definition p_origin_preflight (ic : icfg) (buf : tmap) (org : bytes) : tmap * bool :=
  match parse org with
  | None => (buf, false)
  | Some o =>
      if negb (i_cred ic) && tree_is_empty (i_tree ic) then (tset buf headers_ACAO (Shared ShWildcard), true)
      else if negb (tree_contains (i_tree ic) o) then (buf, false)
      else
        let buf1 := tset buf headers_ACAO (ReqSlice headers_Origin) in
        (if i_cred ic then tset buf1 headers_ACAC (Shared ShTrue) else buf1, true)
  end.

Definition p_acrpn (ic : icfg) (buf : tmap) (req : hmap) : tmap * bool :=
  match first req headers_ACRPN with
  | None => (buf, true)
  | Some v =>
      if negb (beqb v headers_ValueTrue) then (buf, true)
      else if i_pna ic || i_pna_nocors ic then (tset buf headers_ACAPN (Shared ShTrue), true)
      else (buf, false)
  end.

Definition p_acrm (ic : icfg) (buf : tmap) (acrm : bytes) : tmap * bool :=
  if method_is_safelisted acrm then (buf, true)
  else if i_any_method ic && negb (i_cred ic) then (tset buf headers_ACAM (Shared ShWildcard), true)
  else if i_any_method ic || set_contains (i_methods ic) acrm then (tset buf headers_ACAM (ReqSlice headers_ACRM), true)
  else (buf, false).

Definition p_acrh (ic : icfg) (buf : tmap) (req : hmap) (debug : bool) : tmap * bool :=
  match hget req headers_ACRH with
  | None => (buf, true)
  | Some acrh =>
      if i_asterisk_req ic && negb (i_cred ic) then
        (tset buf headers_ACAH (Shared (if i_allow_auth ic then ShWildcardAuth else ShWildcard)), true)
      else if i_asterisk_req ic && i_cred ic then (tset buf headers_ACAH (ReqSlice headers_ACRH), true)
      else if negb debug then
        if sset_size (i_req_hdrs ic) =? 0 then (buf, false)
        else if negb (check (i_req_hdrs ic) acrh) then (buf, false)
        else (tset buf headers_ACAH (ReqSlice headers_ACRH), true)
      else match i_acah ic with
           | Some _ => (tset buf headers_ACAH (CfgSlice true), true)
           | None => (buf, false)
           end
  end.

Definition p_preflight (ic : icfg) (pre : hmap) (req : hmap) (org acrm : bytes) (debug : bool) : tmap :=
  let m1 := match hget pre headers_Vary with
            | None => [(headers_Vary, Shared ShPreflightVary)]
            | Some _ => [(headers_Vary, Own)]       (* append to the pre-existing list *)
            end in
  match p_origin_preflight ic [] org with
  | (b1, false) => if debug then tcopy m1 b1 else m1
  | (b1, true) =>
    match p_acrpn ic b1 req with
    | (b2, false) => if debug then tcopy m1 b2 else m1
    | (b2, true) =>
      match p_acrm ic b2 acrm with
      | (b3, false) => if debug then tcopy m1 b3 else m1
      | (b3, true) =>
        match p_acrh ic b3 req debug with
        | (b4, false) => if debug then tcopy m1 b4 else m1
        | (b4, true) =>
            let m2 := tcopy m1 b4 in
            match i_acma ic with Some _ => tset m2 headers_ACMA (CfgSlice false) | None => m2 end
        end
      end
    end
  end.

Definition p_actual (ic : icfg) (org : bytes) (is_options : bool) : tmap :=
  if i_pna_nocors ic then (if is_options then [(headers_Vary, Own)] else [])
  else
    let m1 := if is_options then [(headers_Vary, Own)]
              else if negb (tree_is_empty (i_tree ic)) then [(headers_Vary, Own)] else [] in
    if negb (i_cred ic) && tree_is_empty (i_tree ic) then
      let m2 := tset m1 headers_ACAO Own in
      match i_aceh ic with [] => m2 | _ => tset m2 headers_ACEH Own end
    else match parse org with
    | None => m1
    | Some o =>
        if negb (tree_contains (i_tree ic) o) then m1
        else
          let m2 := tset m1 headers_ACAO (ReqSlice headers_Origin) in
          let m3 := if i_cred ic then tset m2 headers_ACAC Own else m2 in
          match i_aceh ic with [] => m3 | _ => tset m3 headers_ACEH Own end
    end.

(* tags of every key the middleware writes, and whether the wrapped handler is invoked *)
Definition pserve (st : option icfg) (debug : bool) (r : request) (pre : hmap) : tmap * bool :=
  match st with
  | None => ([], true)
  | Some ic =>
      let is_options := beqb (r_method r) method_options in
      match first (r_hdrs r) headers_Origin with
      | None => (p_non_cors ic is_options, true)
      | Some org =>
          match first (r_hdrs r) headers_ACRM with
          | Some acrm => if is_options then (p_preflight ic pre (r_hdrs r) org acrm debug, false)
                         else (p_actual ic org is_options, true)
          | None => (p_actual ic org is_options, true)
          end
      end
  end.

(* slices the wrapped handler may write in place without affecting anybody else *)
Definition handler_safe (t : ptag) : bool := match t with Own | ReqSlice _ => true | _ => false end.
(* allocation sites executed: one per Own slice (Header.Add / Header.Set / append) *)
Definition own_count (m : tmap) : nat := length (filter (fun kv => match snd kv with Own => true | _ => false end) m).

(* ---- the tie to the source (C12, C18): every write to a header map in the request-handling functions of
   middleware.go, as tools/genconc extracts them on every run (coq/Gen/ProvSrc.v) ---- *)
Inductive wmap := MresHdrs | Mbuf.
Inductive sgl := PreflightVarySgl | TrueSgl | OriginSgl | WildcardSgl | WildcardAuthSgl.   (* package-level singletons of internal/headers *)
Inductive cfgfield := Acah | Acma | Aceh.                                                  (* slice-typed fields of internalConfig *)
Inductive wkindp :=
| WAdd | WSet | WDel          (* Header.Add / Header.Set / Header.Del *)
| WAppend                     (* m[k] = append(...) *)
| WCopy                       (* maps.Copy(resHdrs, buf) *)
| WShared (s : sgl)           (* m[k] = headers.XxxSgl *)
| WReq (k : bytes)            (* m[k] = a (sub-)slice of the request's own header k *)
| WCfg (f : cfgfield)         (* m[k] = icfg.<field> *)
| WUnknown.
Definition wev := (wmap * bytes * wkindp)%type.

Definition tag_of_w (w : wkindp) : option ptag :=
  match w with
  | WAdd | WSet | WAppend => Some Own
  | WShared PreflightVarySgl => Some (Shared ShPreflightVary)
  | WShared TrueSgl => Some (Shared ShTrue)
  | WShared WildcardSgl => Some (Shared ShWildcard)
  | WShared WildcardAuthSgl => Some (Shared ShWildcardAuth)
  | WReq k => Some (ReqSlice k)
  | WCfg Acah => Some (CfgSlice true)
  | WCfg Acma => Some (CfgSlice false)
  | _ => None
  end.

Definition ptag_eqb (a c : ptag) : bool :=
  match a, c with
  | Own, Own => true
  | ReqSlice k, ReqSlice k' => beqb k k'
  | Shared ShPreflightVary, Shared ShPreflightVary | Shared ShTrue, Shared ShTrue
  | Shared ShWildcard, Shared ShWildcard | Shared ShWildcardAuth, Shared ShWildcardAuth => true
  | CfgSlice x, CfgSlice y => Bool.eqb x y
  | _, _ => false
  end.

(* a write the wrapped handler may see without reaching anything shared *)
Definition handler_safe_w (w : wev) : bool := match snd w with WAdd | WSet | WReq _ => true | _ => false end.
(* a write the model accounts for (a buffer copy installs what the buffer holds) *)
Definition modelled_w (w : wev) : bool :=
  match snd w with WCopy => true | k => match tag_of_w k with Some _ => true | None => false end end.
