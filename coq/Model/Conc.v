(* Model/Conc.v -- the locking protocol of Middleware (middleware.go:102-116, 119-128, 527-533,
   546-554) as a small-step interleaving semantics: a shared (icfg pointer, debug flag) guarded
   by an RWMutex with the usual abstract semantics (a writer excludes everybody, readers exclude
   writers; fairness is irrelevant to safety), and threads running the four method bodies.
   Configurations are opaque identifiers: the protocol does not look inside them. *)
Require Import Base.Bytes.

Definition cfgid := nat.

Record shared := {
  s_icfg : option cfgid;     (* m.icfg (nil = passthrough) *)
  s_debug : bool;            (* m.debug *)
  s_writer : bool;           (* the write lock is held *)
  s_readers : nat            (* number of read locks held *)
}.

Inductive instr :=
| IRLock | IRUnlock | ILock | IUnlock
| IReadIcfg                         (* icfg = m.icfg *)
| IReadDebug                        (* debug = m.debug *)
| IWriteIcfg (v : option cfgid)     (* m.icfg = icfg' *)
| IWriteDebugReconf (nonnil : bool) (* m.debug = cfg != nil && m.debug *)
| IWriteDebugSet (b : bool)         (* m.debug = b && m.icfg != nil *)
| IUse.                             (* an interaction with the ResponseWriter / wrapped handler / newConfig that uses the thread's snapshot only *)

(* the four method bodies; a request interacts with the outside world k times after the snapshot *)
Definition prog_request (k : nat) : list instr := [IRLock; IReadIcfg; IReadDebug; IRUnlock] ++ repeat IUse k.
Definition prog_reconfigure (v : option cfgid) : list instr :=
  [ILock; IWriteIcfg v; IWriteDebugReconf (match v with Some _ => true | None => false end); IUnlock].
Definition prog_reconfigure_rejected : list instr := [].       (* validation fails before the critical section *)
Definition prog_setdebug (b : bool) : list instr := [ILock; IWriteDebugSet b; IUnlock].
Definition prog_config : list instr := [IRLock; IReadIcfg; IRUnlock; IUse].

Inductive access := ARead | AWrite.

Record thread := {
  t_prog : list instr;                                (* what is left to run *)
  t_icfg : option (option cfgid);                     (* local icfg, once read *)
  t_debug : option bool;                              (* local debug, once read *)
  t_holds_r : bool;
  t_holds_w : bool;
  t_witness : option (option cfgid * bool);           (* ghost: the shared pair at the instant of RUnlock *)
  t_unprotected : nat;                                (* ghost: accesses to shared fields made without the right lock *)
  t_uses : list (option (option cfgid) * option bool) (* ghost: the snapshot seen by each IUse *)
}.

Definition new_thread (p : list instr) : thread :=
  {| t_prog := p; t_icfg := None; t_debug := None; t_holds_r := false; t_holds_w := false;
     t_witness := None; t_unprotected := 0; t_uses := [] |}.

Definition prot (a : access) (t : thread) : nat :=
  match a with
  | ARead => if t_holds_r t || t_holds_w t then 0 else 1
  | AWrite => if t_holds_w t then 0 else 1
  end.

(* one step of one thread; None = blocked or finished *)
Definition tstep (sh : shared) (t : thread) : option (shared * thread) :=
  match t_prog t with
  | [] => None
  | i :: rest =>
      let adv (t' : thread) := t' in
      match i with
      | IRLock =>
          if s_writer sh then None
          else Some ({| s_icfg := s_icfg sh; s_debug := s_debug sh; s_writer := false; s_readers := S (s_readers sh) |},
                     {| t_prog := rest; t_icfg := t_icfg t; t_debug := t_debug t; t_holds_r := true; t_holds_w := t_holds_w t;
                        t_witness := t_witness t; t_unprotected := t_unprotected t; t_uses := t_uses t |})
      | IRUnlock =>
          Some ({| s_icfg := s_icfg sh; s_debug := s_debug sh; s_writer := s_writer sh; s_readers := pred (s_readers sh) |},
                {| t_prog := rest; t_icfg := t_icfg t; t_debug := t_debug t; t_holds_r := false; t_holds_w := t_holds_w t;
                   t_witness := Some (s_icfg sh, s_debug sh); t_unprotected := t_unprotected t; t_uses := t_uses t |})
      | ILock =>
          if s_writer sh || negb (Nat.eqb (s_readers sh) 0) then None
          else Some ({| s_icfg := s_icfg sh; s_debug := s_debug sh; s_writer := true; s_readers := 0 |},
                     {| t_prog := rest; t_icfg := t_icfg t; t_debug := t_debug t; t_holds_r := t_holds_r t; t_holds_w := true;
                        t_witness := t_witness t; t_unprotected := t_unprotected t; t_uses := t_uses t |})
      | IUnlock =>
          Some ({| s_icfg := s_icfg sh; s_debug := s_debug sh; s_writer := false; s_readers := s_readers sh |},
                {| t_prog := rest; t_icfg := t_icfg t; t_debug := t_debug t; t_holds_r := t_holds_r t; t_holds_w := false;
                   t_witness := t_witness t; t_unprotected := t_unprotected t; t_uses := t_uses t |})
      | IReadIcfg =>
          Some (sh, {| t_prog := rest; t_icfg := Some (s_icfg sh); t_debug := t_debug t; t_holds_r := t_holds_r t; t_holds_w := t_holds_w t;
                       t_witness := t_witness t; t_unprotected := t_unprotected t + prot ARead t; t_uses := t_uses t |})
      | IReadDebug =>
          Some (sh, {| t_prog := rest; t_icfg := t_icfg t; t_debug := Some (s_debug sh); t_holds_r := t_holds_r t; t_holds_w := t_holds_w t;
                       t_witness := t_witness t; t_unprotected := t_unprotected t + prot ARead t; t_uses := t_uses t |})
      | IWriteIcfg v =>
          Some ({| s_icfg := v; s_debug := s_debug sh; s_writer := s_writer sh; s_readers := s_readers sh |},
                {| t_prog := rest; t_icfg := t_icfg t; t_debug := t_debug t; t_holds_r := t_holds_r t; t_holds_w := t_holds_w t;
                   t_witness := t_witness t; t_unprotected := t_unprotected t + prot AWrite t; t_uses := t_uses t |})
      | IWriteDebugReconf nonnil =>
          Some ({| s_icfg := s_icfg sh; s_debug := nonnil && s_debug sh; s_writer := s_writer sh; s_readers := s_readers sh |},
                {| t_prog := rest; t_icfg := t_icfg t; t_debug := t_debug t; t_holds_r := t_holds_r t; t_holds_w := t_holds_w t;
                   t_witness := t_witness t; t_unprotected := t_unprotected t + prot ARead t + prot AWrite t; t_uses := t_uses t |})
      | IWriteDebugSet bb =>
          Some ({| s_icfg := s_icfg sh; s_debug := bb && match s_icfg sh with Some _ => true | None => false end;
                   s_writer := s_writer sh; s_readers := s_readers sh |},
                {| t_prog := rest; t_icfg := t_icfg t; t_debug := t_debug t; t_holds_r := t_holds_r t; t_holds_w := t_holds_w t;
                   t_witness := t_witness t; t_unprotected := t_unprotected t + prot ARead t + prot AWrite t; t_uses := t_uses t |})
      | IUse =>
          Some (sh, {| t_prog := rest; t_icfg := t_icfg t; t_debug := t_debug t; t_holds_r := t_holds_r t; t_holds_w := t_holds_w t;
                       t_witness := t_witness t; t_unprotected := t_unprotected t; t_uses := t_uses t ++ [(t_icfg t, t_debug t)] |})
      end
  end.

Definition machine := (shared * list thread)%type.

Fixpoint set_nth {A} (n : nat) (x : A) (l : list A) : list A :=
  match n, l with
  | O, _ :: r => x :: r
  | S n', y :: r => y :: set_nth n' x r
  | _, [] => []
  end.

(* schedule the thread with index tid; a blocked/finished/absent thread leaves the machine unchanged *)
Definition mstep (m : machine) (tid : nat) : machine :=
  match nth_error (snd m) tid with
  | None => m
  | Some t =>
      match tstep (fst m) t with
      | None => m
      | Some (sh', t') => (sh', set_nth tid t' (snd m))
      end
  end.

(* a schedule is any list of thread indices *)
Definition mrun (m : machine) (sched : list nat) : machine := fold_left mstep sched m.

Definition init_shared (ic : option cfgid) (dbg : bool) : shared :=
  {| s_icfg := ic; s_debug := dbg; s_writer := false; s_readers := 0 |}.

(* the method bodies a thread may run *)
Inductive method_body : list instr -> Prop :=
| MB_request k : method_body (prog_request k)
| MB_reconf v : method_body (prog_reconfigure v)
| MB_reconf_rejected : method_body prog_reconfigure_rejected
| MB_setdebug bb : method_body (prog_setdebug bb)
| MB_config : method_body prog_config.

Definition init_machine (ic : option cfgid) (dbg : bool) (progs : list (list instr)) : machine :=
  (init_shared ic dbg, map new_thread progs).

(* ---- the tie to the source (C07): source-level events, as tools/genconc extracts them from
   middleware.go on every run (coq/Gen/ConcSrc.v), and the event shape of each modelled program ---- *)
Inductive wkind := WReconf | WSet | WOther.
Inductive gev :=
| GRLock | GRUnlock | GLock | GUnlock
| GReadIcfg | GReadDebug
| GWriteIcfg
| GWriteDebug (k : wkind)          (* WReconf: cfg != nil && m.debug;  WSet: b && m.icfg != nil *)
| GOther                           (* anything that touches neither the lock nor the shared fields (collapsed) *)
| GDefer | GGo | GLoop.            (* constructs the model does not cover: their presence breaks the tie *)

Definition ev_of (i : instr) : gev :=
  match i with
  | IRLock => GRLock | IRUnlock => GRUnlock | ILock => GLock | IUnlock => GUnlock
  | IReadIcfg => GReadIcfg | IReadDebug => GReadDebug
  | IWriteIcfg _ => GWriteIcfg
  | IWriteDebugReconf _ => GWriteDebug WReconf
  | IWriteDebugSet _ => GWriteDebug WSet
  | IUse => GOther
  end.

(* consecutive GOther collapse into one, as in the translator *)
Fixpoint collapse (l : list gev) : list gev :=
  match l with
  | GOther :: ((GOther :: _) as r) => collapse r
  | x :: r => x :: collapse r
  | [] => []
  end.

Definition shape (p : list instr) : list gev := collapse (map ev_of p).
