(* Model/UtilRt.v -- run-time support for the Gallina functions that tools/genutil generates from internal/util,
   internal/methods and internal/headers (coq/Gen/UtilSrc.v): the standard-library and x/net functions those
   helpers call, as CONTRACT functions (what the documentation of each promises on the inputs the code gives it). *)
Require Import Base.Bytes Model.Util Model.Headers.
Open Scope N_scope.

(* strings.ToLower / strings.ToUpper: on ASCII input (the callers only pass validated tokens) *)
Definition strings_ToLower (s : bytes) : bytes := lower s.
Definition strings_ToUpper (s : bytes) : bytes := upper s.
Definition strings_HasPrefix (s p : bytes) : bool := has_prefix p s.

(* httpguts.ValidHeaderFieldName: the RFC 9110 token rule *)
Definition httpguts_ValidHeaderFieldName (s : bytes) : bool := is_valid_name s.

(* slices.BinarySearch: "the position where target is found, or the position where target would appear in the sort
   order; it also returns a bool saying whether the target is really found" *)
Definition slices_BinarySearch (l : list bytes) (e : bytes) : Z * bool :=
  (Z.of_nat (length (filter (fun x => bltb x e) l)), mem e l).

(* slices.Sort *)
Definition slices_Sort (l : list bytes) : list bytes := sort_bytes l.

Definition set_elems (s : sset) (l : list bytes) : sset := {| elems := l; maxlen := maxlen s |}.
Definition set_maxlen (s : sset) (m : N) : sset := {| elems := elems s; maxlen := m |}.

(* v, found := m[k] on an http.Header *)
Definition map_lookup2 (h : hmap) (k : bytes) : list bytes * bool :=
  match hget h k with
  | Some v => (v, true)
  | None => ([], false)
  end.
