(* Model/Methods.v -- internal/methods/methods.go *)
Require Import Base.Bytes Gen.Tables Model.Util Model.Headers.
Open Scope N_scope.

Definition forbidden_methods_set := new_set methods_byteUppercasedForbiddenMethods.
Definition safelisted_methods_set := new_set methods_safelistedMethods.
Definition normalized_methods_set := new_set methods_browserNormalizedMethods.

Definition method_is_valid (s : bytes) : bool := is_valid_name s.
Definition method_is_forbidden (s : bytes) : bool := set_contains forbidden_methods_set (upper s).
Definition method_is_safelisted (s : bytes) : bool := set_contains safelisted_methods_set s.
Definition method_normalize (s : bytes) : bytes :=
  let u := upper s in if set_contains normalized_methods_set u then u else s.
