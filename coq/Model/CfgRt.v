(* Model/CfgRt.v -- run-time support for the Gallina functions that tools/gencfg generates from config.go
   (coq/Gen/CfgSrc.v): record updates for the two configuration records, zero values, and the multi-valued or
   partial Go primitives as total functions. *)
Require Import Base.Bytes Gen.Tables Model.Util Model.Headers Model.Methods Model.Origins Model.Netip Model.Pattern
  Model.Radix Model.CfgErrors Model.Config.

(* a slice that is nil or a singleton; an error value that may be nil *)
Definition opt_list {A} (o : option A) : list A := match o with Some v => [v] | None => [] end.
Definition is_some {A} (o : option A) : bool := match o with Some _ => true | None => false end.
Definition is_nil {A} (l : list A) : bool := match l with [] => true | _ => false end.
Definition opt_get (o : option bytes) : bytes := match o with Some v => v | None => [] end.

(* strings.Split(s, sep) for a one-byte separator *)
Definition split_sep (sep s : bytes) : list bytes := match sep with [c] => split_byte c s | _ => [s] end.

(* origins.ParsePattern: (pattern, error); the pattern is the zero value when the error is non-nil *)
Definition zero_pattern : pattern := {| pscheme := []; pvalue := []; pkind_of := KDomain; pport := 0%Z |}.
Definition parse_pattern2 (ace_ok : bytes -> bool) (ip6 : bytes -> ipres) (raw : bytes) : pattern * option (etree cerr) :=
  match parse_pattern ace_ok ip6 raw with
  | inl p => (p, None)
  | inr r => (zero_pattern, Some (Leaf (EOrigin raw r)))
  end.

Definition zero_icfg : icfg :=
  {| i_tree := empty_tree; i_methods := sset_empty; i_req_hdrs := sset_empty; i_acah := None; i_status_m200 := 0%Z;
     i_cred := false; i_any_method := false; i_asterisk_req := false; i_allow_auth := false; i_pna := false;
     i_pna_nocors := false; i_acma := None; i_aceh := []; i_tol_psl := false; i_tol_insecure := false |}.

Definition zero_config : config :=
  {| c_origins := []; c_credentialed := false; c_methods := []; c_req_headers := []; c_max_age := 0%Z;
     c_res_headers := []; c_status := 0%Z; c_pna := false; c_pna_nocors := false; c_tol_insecure := false;
     c_tol_psl := false |}.

Definition upd_icfg (ic : icfg) tree methods req_hdrs acah status cred any_method asterisk allow_auth pna pna_nocors acma aceh
  tol_psl tol_insecure : icfg :=
  {| i_tree := tree; i_methods := methods; i_req_hdrs := req_hdrs; i_acah := acah; i_status_m200 := status;
     i_cred := cred; i_any_method := any_method; i_asterisk_req := asterisk; i_allow_auth := allow_auth; i_pna := pna;
     i_pna_nocors := pna_nocors; i_acma := acma; i_aceh := aceh; i_tol_psl := tol_psl; i_tol_insecure := tol_insecure |}.

Definition seti_tree ic v := upd_icfg ic v (i_methods ic) (i_req_hdrs ic) (i_acah ic) (i_status_m200 ic) (i_cred ic) (i_any_method ic) (i_asterisk_req ic) (i_allow_auth ic) (i_pna ic) (i_pna_nocors ic) (i_acma ic) (i_aceh ic) (i_tol_psl ic) (i_tol_insecure ic).
Definition seti_methods ic v := upd_icfg ic (i_tree ic) v (i_req_hdrs ic) (i_acah ic) (i_status_m200 ic) (i_cred ic) (i_any_method ic) (i_asterisk_req ic) (i_allow_auth ic) (i_pna ic) (i_pna_nocors ic) (i_acma ic) (i_aceh ic) (i_tol_psl ic) (i_tol_insecure ic).
Definition seti_req_hdrs ic v := upd_icfg ic (i_tree ic) (i_methods ic) v (i_acah ic) (i_status_m200 ic) (i_cred ic) (i_any_method ic) (i_asterisk_req ic) (i_allow_auth ic) (i_pna ic) (i_pna_nocors ic) (i_acma ic) (i_aceh ic) (i_tol_psl ic) (i_tol_insecure ic).
Definition seti_acah ic v := upd_icfg ic (i_tree ic) (i_methods ic) (i_req_hdrs ic) v (i_status_m200 ic) (i_cred ic) (i_any_method ic) (i_asterisk_req ic) (i_allow_auth ic) (i_pna ic) (i_pna_nocors ic) (i_acma ic) (i_aceh ic) (i_tol_psl ic) (i_tol_insecure ic).
Definition seti_status_m200 ic v := upd_icfg ic (i_tree ic) (i_methods ic) (i_req_hdrs ic) (i_acah ic) v (i_cred ic) (i_any_method ic) (i_asterisk_req ic) (i_allow_auth ic) (i_pna ic) (i_pna_nocors ic) (i_acma ic) (i_aceh ic) (i_tol_psl ic) (i_tol_insecure ic).
Definition seti_cred ic v := upd_icfg ic (i_tree ic) (i_methods ic) (i_req_hdrs ic) (i_acah ic) (i_status_m200 ic) v (i_any_method ic) (i_asterisk_req ic) (i_allow_auth ic) (i_pna ic) (i_pna_nocors ic) (i_acma ic) (i_aceh ic) (i_tol_psl ic) (i_tol_insecure ic).
Definition seti_any_method ic v := upd_icfg ic (i_tree ic) (i_methods ic) (i_req_hdrs ic) (i_acah ic) (i_status_m200 ic) (i_cred ic) v (i_asterisk_req ic) (i_allow_auth ic) (i_pna ic) (i_pna_nocors ic) (i_acma ic) (i_aceh ic) (i_tol_psl ic) (i_tol_insecure ic).
Definition seti_asterisk_req ic v := upd_icfg ic (i_tree ic) (i_methods ic) (i_req_hdrs ic) (i_acah ic) (i_status_m200 ic) (i_cred ic) (i_any_method ic) v (i_allow_auth ic) (i_pna ic) (i_pna_nocors ic) (i_acma ic) (i_aceh ic) (i_tol_psl ic) (i_tol_insecure ic).
Definition seti_allow_auth ic v := upd_icfg ic (i_tree ic) (i_methods ic) (i_req_hdrs ic) (i_acah ic) (i_status_m200 ic) (i_cred ic) (i_any_method ic) (i_asterisk_req ic) v (i_pna ic) (i_pna_nocors ic) (i_acma ic) (i_aceh ic) (i_tol_psl ic) (i_tol_insecure ic).
Definition seti_pna ic v := upd_icfg ic (i_tree ic) (i_methods ic) (i_req_hdrs ic) (i_acah ic) (i_status_m200 ic) (i_cred ic) (i_any_method ic) (i_asterisk_req ic) (i_allow_auth ic) v (i_pna_nocors ic) (i_acma ic) (i_aceh ic) (i_tol_psl ic) (i_tol_insecure ic).
Definition seti_pna_nocors ic v := upd_icfg ic (i_tree ic) (i_methods ic) (i_req_hdrs ic) (i_acah ic) (i_status_m200 ic) (i_cred ic) (i_any_method ic) (i_asterisk_req ic) (i_allow_auth ic) (i_pna ic) v (i_acma ic) (i_aceh ic) (i_tol_psl ic) (i_tol_insecure ic).
Definition seti_acma ic v := upd_icfg ic (i_tree ic) (i_methods ic) (i_req_hdrs ic) (i_acah ic) (i_status_m200 ic) (i_cred ic) (i_any_method ic) (i_asterisk_req ic) (i_allow_auth ic) (i_pna ic) (i_pna_nocors ic) v (i_aceh ic) (i_tol_psl ic) (i_tol_insecure ic).
Definition seti_aceh ic v := upd_icfg ic (i_tree ic) (i_methods ic) (i_req_hdrs ic) (i_acah ic) (i_status_m200 ic) (i_cred ic) (i_any_method ic) (i_asterisk_req ic) (i_allow_auth ic) (i_pna ic) (i_pna_nocors ic) (i_acma ic) v (i_tol_psl ic) (i_tol_insecure ic).
Definition seti_tol_psl ic v := upd_icfg ic (i_tree ic) (i_methods ic) (i_req_hdrs ic) (i_acah ic) (i_status_m200 ic) (i_cred ic) (i_any_method ic) (i_asterisk_req ic) (i_allow_auth ic) (i_pna ic) (i_pna_nocors ic) (i_acma ic) (i_aceh ic) v (i_tol_insecure ic).
Definition seti_tol_insecure ic v := upd_icfg ic (i_tree ic) (i_methods ic) (i_req_hdrs ic) (i_acah ic) (i_status_m200 ic) (i_cred ic) (i_any_method ic) (i_asterisk_req ic) (i_allow_auth ic) (i_pna ic) (i_pna_nocors ic) (i_acma ic) (i_aceh ic) (i_tol_psl ic) v.

Definition upd_config (c : config) origins cred methods req_headers max_age res_headers status pna pna_nocors tol_insecure tol_psl : config :=
  {| c_origins := origins; c_credentialed := cred; c_methods := methods; c_req_headers := req_headers; c_max_age := max_age;
     c_res_headers := res_headers; c_status := status; c_pna := pna; c_pna_nocors := pna_nocors; c_tol_insecure := tol_insecure;
     c_tol_psl := tol_psl |}.

Definition setc_origins c v := upd_config c v (c_credentialed c) (c_methods c) (c_req_headers c) (c_max_age c) (c_res_headers c) (c_status c) (c_pna c) (c_pna_nocors c) (c_tol_insecure c) (c_tol_psl c).
Definition setc_credentialed c v := upd_config c (c_origins c) v (c_methods c) (c_req_headers c) (c_max_age c) (c_res_headers c) (c_status c) (c_pna c) (c_pna_nocors c) (c_tol_insecure c) (c_tol_psl c).
Definition setc_methods c v := upd_config c (c_origins c) (c_credentialed c) v (c_req_headers c) (c_max_age c) (c_res_headers c) (c_status c) (c_pna c) (c_pna_nocors c) (c_tol_insecure c) (c_tol_psl c).
Definition setc_req_headers c v := upd_config c (c_origins c) (c_credentialed c) (c_methods c) v (c_max_age c) (c_res_headers c) (c_status c) (c_pna c) (c_pna_nocors c) (c_tol_insecure c) (c_tol_psl c).
Definition setc_max_age c v := upd_config c (c_origins c) (c_credentialed c) (c_methods c) (c_req_headers c) v (c_res_headers c) (c_status c) (c_pna c) (c_pna_nocors c) (c_tol_insecure c) (c_tol_psl c).
Definition setc_res_headers c v := upd_config c (c_origins c) (c_credentialed c) (c_methods c) (c_req_headers c) (c_max_age c) v (c_status c) (c_pna c) (c_pna_nocors c) (c_tol_insecure c) (c_tol_psl c).
Definition setc_status c v := upd_config c (c_origins c) (c_credentialed c) (c_methods c) (c_req_headers c) (c_max_age c) (c_res_headers c) v (c_pna c) (c_pna_nocors c) (c_tol_insecure c) (c_tol_psl c).
Definition setc_pna c v := upd_config c (c_origins c) (c_credentialed c) (c_methods c) (c_req_headers c) (c_max_age c) (c_res_headers c) (c_status c) v (c_pna_nocors c) (c_tol_insecure c) (c_tol_psl c).
Definition setc_pna_nocors c v := upd_config c (c_origins c) (c_credentialed c) (c_methods c) (c_req_headers c) (c_max_age c) (c_res_headers c) (c_status c) (c_pna c) v (c_tol_insecure c) (c_tol_psl c).
Definition setc_tol_insecure c v := upd_config c (c_origins c) (c_credentialed c) (c_methods c) (c_req_headers c) (c_max_age c) (c_res_headers c) (c_status c) (c_pna c) (c_pna_nocors c) v (c_tol_psl c).
Definition setc_tol_psl c v := upd_config c (c_origins c) (c_credentialed c) (c_methods c) (c_req_headers c) (c_max_age c) (c_res_headers c) (c_status c) (c_pna c) (c_pna_nocors c) (c_tol_insecure c) v.
