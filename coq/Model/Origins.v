(* Model/Origins.v -- internal/origins/origins.go: the lenient request-side parser *)
Require Import Base.Bytes Gen.Tables.
Open Scope N_scope.

Definition in_set (tbl : bytes) (c : N) : bool := memN c tbl.
Definition label_sep : N := Z.to_N origins_labelSep.
Definition host_port_sep : N := Z.to_N origins_hostPortSep.

Fixpoint take_while_n (p : N -> bool) (n : nat) (s : bytes) : bytes * bytes :=
  match n, s with
  | S n', c :: r => if p c then let '(a, rest) := take_while_n p n' r in (c :: a, rest) else ([], s)
  | _, _ => ([], s)
  end.

(* parseScheme *)
Definition parse_scheme (s : bytes) : option (bytes * bytes) :=
  match s with
  | c :: r =>
      if in_set origins_lowerAlpha c then
        let '(a, rest) := take_while_n (in_set origins_laterSchemeBytes) (Z.to_nat origins_maxSchemeLen - 1) r in
        Some (c :: a, rest)
      else None
  | [] => None
  end.

Record host := { hvalue : bytes; assume_ip : bool }.

(* the byte loop of fastParseHost (origins.go:132-154): (host, rest, assumeIPv4) or failure *)
Fixpoint host_loop (s : bytes) (first prev ip4 : bool) : option (bytes * bytes * bool) :=
  match s with
  | [] => Some ([], [], ip4)
  | c :: r =>
      if c =? label_sep then
        if prev then None
        else match host_loop r false true ip4 with
             | Some (h, rest, v) => Some (c :: h, rest, v)
             | None => None
             end
      else if in_set origins_digits c then
        match host_loop r false false (if prev || first then true else ip4) with
        | Some (h, rest, v) => Some (c :: h, rest, v)
        | None => None
        end
      else if in_set origins_asciiLabelBytes c then
        match host_loop r false false (if prev then false else ip4) with
        | Some (h, rest, v) => Some (c :: h, rest, v)
        | None => None
        end
      else Some ([], s, ip4)
  end.

(* fastParseHost *)
Definition fast_parse_host (s : bytes) : option (host * bytes) :=
  match s with
  | 91 :: r =>
      if (Z.to_nat origins_fastParseHost_minIPv6HostLen <=? length s)%nat then
        match cut_byte 93 s with
        | Some (bf, af) => Some ({| hvalue := tl bf; assume_ip := true |}, af)
        | None => None
        end
      else (* too short to be bracketed: generic loop, which stops at once on '[' *)
        match host_loop s true false false with
        | Some (h, rest, v) => Some ({| hvalue := h; assume_ip := v |}, rest)
        | None => None
        end
  | [] => None
  | c :: _ =>
      if c =? label_sep then None
      else match host_loop s true false false with
           | Some (h, rest, v) => Some ({| hvalue := h; assume_ip := v |}, rest)
           | None => None
           end
  end.

(* parsePort *)
Fixpoint port_loop (s : bytes) (n : nat) (acc : Z) : Z * bytes :=
  match n, s with
  | S n', c :: r => if in_set origins_digits c then port_loop r n' (origins_parsePort_base * acc + (Z.of_N c - 48))%Z else (acc, s)
  | _, _ => (acc, s)
  end.

Definition parse_port (s : bytes) : option (Z * bytes) :=
  match s with
  | c :: r =>
      if in_set origins_nonzeroDigits c then
        let '(p, rest) := port_loop r (Z.to_nat origins_maxPortLen - 1) (Z.of_N c - 48)%Z in
        if (p <? 0)%Z || (origins_maxUint16 <? p)%Z then None else Some (p, rest)
      else None
  | [] => None
  end.

Record origin := { oscheme : bytes; ohost : host; oport : Z }.

(* Parse *)
Definition parse (s : bytes) : option origin :=
  if (origins_Parse_maxOriginLen <? Z.of_nat (length s))%Z then None
  else match parse_scheme s with
  | None => None
  | Some (sch, s1) =>
    match cut_prefix origins_schemeHostSep s1 with
    | None => None
    | Some s2 =>
      match fast_parse_host s2 with
      | None => None
      | Some (h, s3) =>
        match s3 with
        | [] => Some {| oscheme := sch; ohost := h; oport := 0 |}
        | _ =>
          match cut_prefix [host_port_sep] s3 with
          | None => None
          | Some s4 =>
            match parse_port s4 with
            | Some (p, []) => Some {| oscheme := sch; ohost := h; oport := p |}
            | _ => None
            end
          end
        end
      end
    end
  end.
