(* Model/AsciiRt.v -- run-time support for the Gallina functions that tools/genascii generates from
   internal/util/asciiset.go (coq/Gen/AsciiSrc.v): an ASCIISet ([8]uint32) is a list of eight words. *)
Require Import Base.Bytes.
Open Scope N_scope.

(* a uint32 result: reduced modulo 2^32 *)
Definition u32 (x : N) : N := x mod 4294967296.

Definition zero_asciiset : list N := [0; 0; 0; 0; 0; 0; 0; 0].

(* as[i] = w (an index outside the array would be a run-time panic in Go; bytes divided by 32 are below 8) *)
Fixpoint set_word_nat (l : list N) (i : nat) (w : N) : list N :=
  match l, i with
  | [], _ => []
  | _ :: r, O => w :: r
  | x :: r, S i' => x :: set_word_nat r i' w
  end.
Definition set_word (l : list N) (i : N) (w : N) : list N := set_word_nat l (N.to_nat i) w.

(* for i := range n *)
Definition index_range (n : nat) : list Z := map Z.of_nat (seq 0 n).
