(* Model/AllRt.v -- a four-construct language for the body of cfgerrors.All, and its interpreter.
   tools/genall translates the Go function into a term of [all_prog] (coq/Gen/AllSrc.v); the constructs are typed
   by what `err` is at that point: a join (inside `case interface{ Unwrap() []error }`), a child of a join (the
   loop variable of `range err.Unwrap()`), or a leaf (inside `default:` and inside `for err := range All(err)`).

     switch err := err.(type) {
     case interface{ Unwrap() []error }:  <join statements>
     default:                             <leaf statements>
     }
     join statement  ::=  for _, err := range err.Unwrap() { <child statements> }      JRangeUnwrap
     child statement ::=  for err := range All(err) { <leaf statements> }              CRangeAll
     leaf statement  ::=  if !yield(err) { return }                                    LIfNotYieldReturn

   Range-over-func is interpreted by its desugaring: the loop body becomes the yield function handed to the
   sequence; a `return` inside the body makes that function answer false and, once the sequence has returned, the
   enclosing function returns. *)
Require Import Base.Bytes Model.CfgErrors.

Inductive leaf_stmt := LIfNotYieldReturn.
Inductive child_stmt := CRangeAll (body : list leaf_stmt).
Inductive join_stmt := JRangeUnwrap (body : list child_stmt).
Record all_prog := { join_case : list join_stmt; default_case : list leaf_stmt }.

Section Interp.
Context {A S : Type}.

(* state, has every yield answered true so far, did the enclosing function return *)
Definition st := (S * bool * bool)%type.

(* leaf statements, with `err` the leaf [a] *)
Fixpoint exec_leaf (stmts : list leaf_stmt) (a : A) (yield : A -> S -> S * bool) (s : S) (ok : bool) : st :=
  match stmts with
  | [] => (s, ok, false)
  | LIfNotYieldReturn :: r =>
      let '(s', c) := yield a s in
      if c then exec_leaf r a yield s' ok else (s', false, true)
  end.

Section WithAll.
(* [call x yield s] is All(x)(yield): final state and whether every yield answered true *)
Variable call : (A -> S -> S * bool) -> S -> S * bool.

(* child statements, with `err` a child on which only All(err) is applied (through [call]) *)
Fixpoint exec_child (stmts : list child_stmt) (yield : A -> S -> S * bool) (s : S) (ok : bool) : st :=
  match stmts with
  | [] => (s, ok, false)
  | CRangeAll body :: r =>
      (* the loop body as a yield function: it answers false when the body returned *)
      let yield' := fun a s0 => let '(s1, ok1, ret1) := exec_leaf body a yield s0 true in (s1, ok1 && negb ret1) in
      let '(s', c) := call yield' s in
      if c then exec_child r yield s' ok else (s', false, true)
  end.
End WithAll.

(* All(t)(yield) for the program [p] *)
Fixpoint run (p : all_prog) (t : etree A) (yield : A -> S -> S * bool) (s : S) {struct t} : S * bool :=
  match t with
  | Leaf a => let '(s', ok, _) := exec_leaf (default_case p) a yield s true in (s', ok)
  | Join l =>
      (fix stmts (js : list join_stmt) (s : S) (ok : bool) {struct js} : S * bool :=
         match js with
         | [] => (s, ok)
         | JRangeUnwrap body :: r =>
             (* for _, err := range err.Unwrap() { body } *)
             let '(s', ok', ret) :=
               (fix kids (ts : list (etree A)) (s : S) (ok : bool) {struct ts} : st :=
                  match ts with
                  | [] => (s, ok, false)
                  | x :: rest =>
                      let '(s1, ok1, ret1) := exec_child (run p x) body yield s ok in
                      if ret1 then (s1, ok1, true) else kids rest s1 ok1
                  end) l s ok in
             if ret then (s', ok') else stmts r s' ok'
         end) (join_case p) s true
  end.
End Interp.
