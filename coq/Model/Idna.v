(* Model/Idna.v -- x/net/idna profile (BidiRule, ValidateLabels, StrictDomainName,
   VerifyDNSLength; no mapping step) restricted to what fastParseHost lets through.
   Exact for hosts without an "xn--" label; such hosts are delegated to the oracle [ace_ok]. *)
Require Import Base.Bytes.
Open Scope N_scope.

Definition ace_prefix : bytes := [120; 110; 45; 45].

Definition nth_byte (l : bytes) (i : nat) : N := nth i l 0.

Definition label_ok (l : bytes) : bool :=
  let n := length l in
  (1 <=? n)%nat && (n <=? 63)%nat &&
  negb (nth_byte l 0 =? 45) && negb (nth_byte l (n - 1) =? 45) &&
  negb ((4 <? n)%nat && (nth_byte l 2 =? 45) && (nth_byte l 3 =? 45)).

Definition idna_plain (h : bytes) : bool :=
  match h with
  | [] => false
  | _ =>
      let h' := trim_suffix_byte 46 h in
      (length h' <=? 253)%nat && forallb label_ok (split_byte 46 h')
  end.

Definition has_ace_label (h : bytes) : bool := existsb (has_prefix ace_prefix) (split_byte 46 h).

Definition idna_ok (ace_ok : bytes -> bool) (h : bytes) : bool :=
  if has_ace_label h then ace_ok h else idna_plain h.
