(* Model/LoopRt.v -- run-time support for the Gallina functions that tools/genloop generates from the loop-carrying
   byte-level code (coq/Gen/LoopSrc.v): fuelled loops whose exhaustion is an explicit outcome, Go slicing, and the
   contract functions of strings.IndexByte / strings.CutPrefix. *)
Require Import Base.Bytes Model.Origins.
Open Scope N_scope.

(* what one iteration of a loop body does with the tuple of loop-carried variables *)
Inductive ctl (S R : Type) := Next (s : S) | Brk (s : S) | Ret (r : R) | Exh.
Arguments Next {S R} _.
Arguments Brk {S R} _.
Arguments Ret {S R} _.
Arguments Exh {S R}.

(* what a loop does: it ends (break, or false condition), it returns from the enclosing function, or the fuel
   the translator gave it did not suffice *)
Inductive lres (S R : Type) := Done (s : S) | Returned (r : R) | Exhausted.
Arguments Done {S R} _.
Arguments Returned {S R} _.
Arguments Exhausted {S R}.

Fixpoint loop_n {S R : Type} (n : nat) (body : S -> ctl S R) (s : S) : lres S R :=
  match n with
  | O => Exhausted
  | Datatypes.S n' =>
      match body s with
      | Next s' => loop_n n' body s'
      | Brk s' => Done s'
      | Ret r => Returned r
      | Exh => Exhausted
      end
  end.

(* for _, x := range l *)
Fixpoint loop_list {A S R : Type} (l : list A) (body : S -> A -> ctl S R) (s : S) : lres S R :=
  match l with
  | [] => Done s
  | x :: r =>
      match body s x with
      | Next s' => loop_list r body s'
      | Brk s' => Done s'
      | Ret v => Returned v
      | Exh => Exhausted
      end
  end.

(* s[a:b] *)
Definition slice3 (s : bytes) (a b : Z) : bytes := firstn (Z.to_nat (b - a)) (skipn (Z.to_nat a) s).

(* strings.IndexByte: index of the first instance of c in s, or -1 *)
Fixpoint index_byte_from (s : bytes) (c : N) (i : Z) : Z :=
  match s with
  | [] => (-1)%Z
  | x :: r => if x =? c then i else index_byte_from r c (i + 1)%Z
  end.
Definition strings_IndexByte (s : bytes) (c : N) : Z := index_byte_from s c 0%Z.

(* strings.CutPrefix: (s without the prefix, true) or (s, false) *)
Definition strings_CutPrefix (s p : bytes) : bytes * bool :=
  match cut_prefix p s with
  | Some r => (r, true)
  | None => (s, false)
  end.

Definition zero_host : host := {| hvalue := []; assume_ip := false |}.
Definition zero_origin : origin := {| oscheme := []; ohost := zero_host; oport := 0%Z |}.
