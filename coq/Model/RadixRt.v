(* Model/RadixRt.v -- run-time support for the Gallina functions that tools/genradix generates from
   internal/origins/radix.go (coq/Gen/RadixSrc.v).

   The Go tree is kept in the Go layout: a node holds its suffix as written (not reversed) and two pairs of
   PARALLEL slices (edges/children, schemes/ports). A pointer into the tree (`n := &t.root`,
   `child := &n.children[i]`) is a PATH of child indices from the root; reading through it is [gget], a write
   through it is [gset]. Slices are lists (value semantics: aliasing between two live slices is outside what
   the translation expresses; see DESIGN section 4.1h). The standard-library calls are CONTRACT functions. *)
Require Import Base.Bytes Model.Util Model.Headers Model.UtilRt Model.LoopRt.
Open Scope N_scope.

Inductive gnode :=
  GNode (suf : bytes) (edges : list N) (children : list gnode) (schemes : list bytes) (ports : list (list Z)).

Definition g_suf (n : gnode) : bytes := match n with GNode a _ _ _ _ => a end.
Definition g_edges (n : gnode) : list N := match n with GNode _ a _ _ _ => a end.
Definition g_children (n : gnode) : list gnode := match n with GNode _ _ a _ _ => a end.
Definition g_schemes (n : gnode) : list bytes := match n with GNode _ _ _ a _ => a end.
Definition g_ports (n : gnode) : list (list Z) := match n with GNode _ _ _ _ a => a end.

Definition set_g_suf (n : gnode) (v : bytes) : gnode := match n with GNode _ b c d e => GNode v b c d e end.
Definition set_g_edges (n : gnode) (v : list N) : gnode := match n with GNode a _ c d e => GNode a v c d e end.
Definition set_g_children (n : gnode) (v : list gnode) : gnode := match n with GNode a b _ d e => GNode a b v d e end.
Definition set_g_schemes (n : gnode) (v : list bytes) : gnode := match n with GNode a b c _ e => GNode a b c v e end.
Definition set_g_ports (n : gnode) (v : list (list Z)) : gnode := match n with GNode a b c d _ => GNode a b c d v end.

(* the zero value of node; a nil slice and an empty slice are both [] *)
Definition zero_gnode : gnode := GNode [] [] [] [] [].
Definition is_nil {A : Type} (l : list A) : bool := match l with [] => true | _ :: _ => false end.

(* l[i] = v *)
Fixpoint list_set_nat {A : Type} (l : list A) (i : nat) (v : A) : list A :=
  match l, i with
  | [], _ => []
  | _ :: r, O => v :: r
  | x :: r, S i' => x :: list_set_nat r i' v
  end.
Definition list_set {A : Type} (l : list A) (i : Z) (v : A) : list A := list_set_nat l (Z.to_nat i) v.

(* copy(dst[a:], src[b:]) with memmove semantics: the new value of dst *)
Definition go_copy {A : Type} (dst : list A) (a : Z) (src : list A) (b : Z) : list A :=
  let a' := Z.to_nat a in
  let chunk := firstn (length dst - a') (skipn (Z.to_nat b) src) in
  firstn a' dst ++ chunk ++ skipn (a' + length chunk) dst.

(* pointers into a tree: paths of child indices *)
Definition gpath := list nat.

Fixpoint gget (n : gnode) (p : gpath) : gnode :=
  match p with
  | [] => n
  | i :: r => gget (nth i (g_children n) zero_gnode) r
  end.

Fixpoint gset (n : gnode) (p : gpath) (v : gnode) : gnode :=
  match p with
  | [] => v
  | i :: r => set_g_children n (list_set_nat (g_children n) i (gset (nth i (g_children n) zero_gnode) r v))
  end.

(* &n.children[i] for a pointer n *)
Definition gchild (p : gpath) (i : Z) : gpath := p ++ [Z.to_nat i].

(* slices.BinarySearch on a sorted slice: "the position where target is found, or the position where target
   would appear in the sort order; it also returns a bool saying whether the target is really found" *)
Definition slices_BinarySearch_N (l : list N) (e : N) : Z * bool :=
  (Z.of_nat (length (filter (fun x => x <? e) l)), memN e l).
Definition slices_BinarySearch_Z (l : list Z) (e : Z) : Z * bool :=
  (Z.of_nat (length (filter (fun x => (x <? e)%Z) l)), memZ e l).

(* slices.Sort on []int *)
Definition slices_Sort_Z (l : list Z) : list Z := fold_right insert_sortedZ [] l.

(* strconv.Itoa *)
Definition strconv_Itoa (z : Z) : bytes :=
  if (z <? 0)%Z then 45 :: itoa (Z.to_N (- z)) else itoa (Z.to_N z).

(* for i, x := range l *)
Fixpoint zip_index_from {A : Type} (i : Z) (l : list A) : list (Z * A) :=
  match l with
  | [] => []
  | x :: r => (i, x) :: zip_index_from (i + 1)%Z r
  end.
Definition zip_index {A : Type} (l : list A) : list (Z * A) := zip_index_from 0%Z l.

(* for i := range l { ... l[i] ... }: the loop over the elements themselves. The body is a parameter of the
   fixpoint (not an argument), so that a recursive call on an element inside the body is guarded. *)
Section LoopElems.
  Context {A S R : Type} (body : S -> A -> ctl S R).
  Fixpoint loop_elems (l : list A) (s : S) : lres S R :=
    match l with
    | [] => Done s
    | x :: r =>
        match body s x with
        | Next s' => loop_elems r s'
        | Brk s' => Done s'
        | Ret v => Returned v
        | Exh => Exhausted
        end
    end.
End LoopElems.

(* checked mode (Gen/RadixChk.v): the bound checks Go performs on x[i] and x[lo:hi] *)
Definition in_range (i : Z) (n : nat) : bool := (0 <=? i)%Z && (i <? Z.of_nat n)%Z.
Definition slice_ok (lo hi : Z) (n : nat) : bool := (0 <=? lo)%Z && (lo <=? hi)%Z && (hi <=? Z.of_nat n)%Z.
