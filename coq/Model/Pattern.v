(* Model/Pattern.v -- internal/origins/pattern.go: the strict config-side parser *)
Require Import Base.Bytes Gen.Tables Model.Origins Model.Netip Model.Idna.
Open Scope N_scope.

Inductive pkind := KDomain | KNonLoopbackIP | KLoopbackIP | KSubdomains.
Inductive reason := RMissing | RInvalid | RProhibited | RForbidden | RCredentialed | RPna | RPsl.

Record pattern := { pscheme : bytes; pvalue : bytes; pkind_of : pkind; pport : Z }.

Definition pkind_eqb (a c : pkind) : bool :=
  match a, c with
  | KDomain, KDomain | KNonLoopbackIP, KNonLoopbackIP | KLoopbackIP, KLoopbackIP | KSubdomains, KSubdomains => true
  | _, _ => false
  end.

Definition is_ip_kind (k : pkind) : bool := match k with KNonLoopbackIP | KLoopbackIP => true | _ => false end.

(* hostOnly *)
Definition host_only (value : bytes) (k : pkind) : bytes :=
  match k with
  | KSubdomains => skipn (length origins_subdomainWildcard + 1) value
  | _ => value
  end.

Definition peek_kind (s : bytes) : pkind :=
  if has_prefix origins_peekKind_wildcardSeq s then KSubdomains else KDomain.

Section Oracles.
Variable ace_ok : bytes -> bool.    (* x/net/idna on hosts that have an xn-- label *)
Variable ip6 : bytes -> ipres.      (* net/netip on IPv6-looking literals *)

(* parseHostPattern: (value, kind, rest) or the error reason *)
Definition parse_host_pattern (s : bytes) : (bytes * pkind * bytes) + reason :=
  let k := peek_kind s in
  match fast_parse_host (host_only s k) with
  | None => inr RInvalid
  | Some (h, rest) =>
      if pkind_eqb k KSubdomains && (Z.to_nat origins_maxHostLen - 2 <? length (hvalue h))%nat then inr RInvalid
      else if pkind_eqb k KSubdomains && assume_ip h then inr RInvalid
      else
        let e := (length (hvalue h) + (if pkind_eqb k KSubdomains then length origins_subdomainWildcard + 1 else 0))%nat in
        let value := firstn e s in
        if assume_ip h then
          match parse_addr ip6 (hvalue h) with
          | IPErr => inr RInvalid
          | IPZone => inr RInvalid
          | IP4in6 => inr RProhibited
          | IPOk canon lb =>
              if beqb canon (hvalue h) then inl (canon, (if lb then KLoopbackIP else KNonLoopbackIP), rest)
              else inr RProhibited
          end
        else if idna_ok ace_ok (hvalue h) then inl (value, k, rest)
        else inr RProhibited
  end.

Definition is_default_port (sch : bytes) (p : Z) : bool :=
  ((p =? origins_portHTTP)%Z && beqb sch origins_schemeHTTP) ||
  ((p =? origins_portHTTPS)%Z && beqb sch origins_schemeHTTPS).

(* parsePortPattern *)
Definition parse_port_pattern (s : bytes) : option (Z * bytes) :=
  match cut_prefix origins_portWildcard s with
  | Some rest => Some (origins_wildcardPort, rest)
  | None => parse_port s
  end.

Definition lit_star : bytes := nth 0 origins_ParsePattern_lits [].
Definition lit_null : bytes := nth 1 origins_ParsePattern_lits [].
Definition lit_file : bytes := nth 4 origins_ParsePattern_lits [].

(* ParsePattern: the error's Value is always the input string *)
Definition parse_pattern (str : bytes) : pattern + reason :=
  if beqb str lit_star || beqb str lit_null then inr RProhibited
  else match parse_scheme str with
  | None => inr RInvalid
  | Some (sch, s1) =>
    if beqb sch lit_file then inr RProhibited
    else match cut_prefix origins_schemeHostSep s1 with
    | None => inr RInvalid
    | Some s2 =>
      match parse_host_pattern s2 with
      | inr r => inr r
      | inl (value, k, s3) =>
        if is_ip_kind k && beqb sch origins_schemeHTTPS then inr RInvalid
        else match s3 with
        | [] => inl {| pscheme := sch; pvalue := value; pkind_of := k; pport := 0 |}
        | _ =>
          match cut_prefix [host_port_sep] s3 with
          | None => inr RInvalid
          | Some s4 =>
            match parse_port_pattern s4 with
            | Some (p, []) =>
                if is_default_port sch p then inr RProhibited
                else inl {| pscheme := sch; pvalue := value; pkind_of := k; pport := p |}
            | _ => inr RInvalid
            end
          end
        end
      end
    end
  end.

End Oracles.

Definition lit_localhost : bytes := nth 0 origins_Pattern_IsDeemedInsecure_lits [].

(* IsDeemedInsecure *)
Definition is_deemed_insecure (p : pattern) : bool :=
  negb (beqb (pscheme p) origins_schemeHTTPS) &&
  negb (pkind_eqb (pkind_of p) KLoopbackIP) &&
  negb (beqb (host_only (pvalue p) (pkind_of p)) lit_localhost).

(* HostIsEffectiveTLD, relative to the public-suffix oracle *)
Definition host_is_etld (is_psl : bytes -> bool) (p : pattern) : bool :=
  is_psl (trim_suffix_byte label_sep (host_only (pvalue p) (pkind_of p))).
