(* Model/Util.v -- internal/util: SortedSet, Set (sortedset.go, set.go).
   slices.BinarySearch on a sorted slice is modelled by its contract (membership / first
   position); append + slices.Sort on a sorted slice by sorted insertion. *)
Require Import Base.Bytes.
Open Scope N_scope.

Record sset := { elems : list bytes; maxlen : N }.

Definition sset_empty : sset := {| elems := []; maxlen := 0 |}.

(* SortedSet.Add *)
Definition sset_add (s : sset) (e : bytes) : sset :=
  if mem e (elems s) then s
  else {| elems := insert_sorted e (elems s); maxlen := N.max (maxlen s) (blen e) |}.

Definition sset_size (s : sset) : N := N.of_nat (length (elems s)).

Fixpoint find_index (e : bytes) (l : list bytes) (i : Z) : Z :=
  match l with
  | [] => (-1)%Z
  | x :: r => if beqb e x then i else find_index e r (i + 1)%Z
  end.

(* SortedSet.IndexAfter; precondition n < Size *)
Definition index_after (s : sset) (n : Z) (e : bytes) : Z :=
  if maxlen s <? blen e then (-1)%Z
  else find_index e (skipn (Z.to_nat (n + 1)) (elems s)) (n + 1)%Z.

(* Set.Contains *)
Definition set_contains (s : sset) (e : bytes) : bool := Z.leb 0 (index_after s (-1) e).

(* NewSet *)
Definition new_set (l : list bytes) : sset := fold_left sset_add l sset_empty.
