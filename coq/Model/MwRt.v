(* Model/MwRt.v -- run-time support for the Gallina functions that tools/genmw generates from middleware.go
   (coq/Gen/MwSrc.v): the state a handler mutates, and the multi-valued Go primitives as total functions. *)
Require Import Base.Bytes Gen.Tables Model.Util Model.Headers Model.Methods Model.Origins Model.Pattern Model.Radix
  Model.Netip Model.CfgErrors Model.Config Model.CfgRt Model.Serve Model.Mw Model.LoopRt.

(* what the translated code mutates: the response header map (w.Header() / resHdrs), the local buffer map of
   handleCORSPreflight (buf), the status passed to w.WriteHeader, and whether the wrapped handler was invoked *)
Record gst := { g_res : hmap; g_buf : hmap; g_status : option Z; g_deleg : bool }.

Definition set_res (st : gst) (h : hmap) : gst :=
  {| g_res := h; g_buf := g_buf st; g_status := g_status st; g_deleg := g_deleg st |}.
Definition set_buf (st : gst) (h : hmap) : gst :=
  {| g_res := g_res st; g_buf := h; g_status := g_status st; g_deleg := g_deleg st |}.
Definition set_status (st : gst) (z : Z) : gst :=
  {| g_res := g_res st; g_buf := g_buf st; g_status := Some z; g_deleg := g_deleg st |}.
Definition set_deleg (st : gst) : gst :=
  {| g_res := g_res st; g_buf := g_buf st; g_status := g_status st; g_deleg := true |}.

(* headers.First: (value, singleton slice, found) *)
Definition first3 (h : hmap) (k : bytes) : bytes * list bytes * bool :=
  match first h k with
  | Some v => (v, [v], true)
  | None => ([], [], false)
  end.

(* v, found := m[k] *)
Definition lookup2 (h : hmap) (k : bytes) : list bytes * bool :=
  match hget h k with
  | Some v => (v, true)
  | None => ([], false)
  end.

(* origins.Parse: (origin, ok); the origin is the zero value when ok is false *)
Definition parse2 (s : bytes) : origin * bool :=
  match parse s with
  | Some o => (o, true)
  | None => (zero_origin, false)
  end.

Definition init_gst (pre : hmap) : gst := {| g_res := pre; g_buf := []; g_status := None; g_deleg := false |}.

(* newInternalConfig / newConfig with their nil guards (config.go: `if cfg == nil { return nil, nil }`,
   `if icfg == nil { return nil }`; tools/gencfg insists on exactly these guards) *)
Definition newInternalConfig2 (ace_ok : bytes -> bool) (ip6 : bytes -> ipres) (is_psl : bytes -> bool) (c : option config)
  : option icfg * option (etree cerr) :=
  match c with
  | None => (None, None)
  | Some c => match new_internal_config ace_ok ip6 is_psl c with
              | inl ic => (Some ic, None)
              | inr e => (None, Some e)
              end
  end.
Definition newConfig2 (ic : option icfg) : option config :=
  match ic with Some ic => Some (new_config ic) | None => None end.
