(* Model/PatRt.v -- run-time support for the Gallina functions that tools/genloop generates from
   internal/origins/pattern.go (coq/Gen/PatSrc.v): the HostPattern record, the Pattern constructor, and the
   net/netip and x/net/idna calls as functions of the model's oracles (Model/Netip.v, Model/Idna.v). *)
Require Import Base.Bytes Gen.Tables Model.Origins Model.Netip Model.Idna Model.Pattern.
Open Scope N_scope.

Record hostpat := { hp_value : bytes; hp_kind : pkind }.
Definition set_hp_value (h : hostpat) (v : bytes) : hostpat := {| hp_value := v; hp_kind := hp_kind h |}.
Definition set_hp_kind (h : hostpat) (k : pkind) : hostpat := {| hp_value := hp_value h; hp_kind := k |}.
Definition zero_hostpat : hostpat := {| hp_value := []; hp_kind := KDomain |}.

(* Pattern{HostPattern: hp, Scheme: s, Port: p}; the embedded HostPattern of a Pattern *)
Definition mk_pattern (sch : bytes) (hp : hostpat) (port : Z) : pattern :=
  {| pscheme := sch; pvalue := hp_value hp; pkind_of := hp_kind hp; pport := port |}.
Definition hostpat_of (p : pattern) : hostpat := {| hp_value := pvalue p; hp_kind := pkind_of p |}.
Definition zero_pat : pattern := {| pscheme := []; pvalue := []; pkind_of := KDomain; pport := 0%Z |}.

(* an error value of pattern.go: nil, or an UnacceptableOriginPatternError (Value, Reason) *)
Definition is_some_err (e : option (bytes * reason)) : bool := match e with Some _ => true | None => false end.

(* netip.ParseAddr and the Addr methods the code calls, in terms of the model's classification [ipres]
   (IPv4 literals are parsed exactly by Model/Netip.v, IPv6-looking ones by the oracle) *)
Definition netip_ParseAddr (ip6 : bytes -> ipres) (s : bytes) : ipres * option (bytes * reason) :=
  let r := parse_addr ip6 s in
  (r, match r with IPErr => Some ([], RInvalid) | _ => None end).
Definition ip_Zone (r : ipres) : bytes := match r with IPZone => [122] | _ => [] end.
Definition ip_Is4In6 (r : ipres) : bool := match r with IP4in6 => true | _ => false end.
Definition ip_String (r : ipres) : bytes := match r with IPOk c _ => c | _ => [] end.
Definition ip_IsLoopback (r : ipres) : bool := match r with IPOk _ lb => lb | _ => false end.

(* profile.ToASCII: only its error is used *)
Definition idna_ToASCII (ace_ok : bytes -> bool) (h : bytes) : option (bytes * reason) :=
  if idna_ok ace_ok h then None else Some ([], RProhibited).

(* strings.TrimSuffix *)
Definition strings_TrimSuffix (s suf : bytes) : bytes :=
  match cut_prefix (rev suf) (rev s) with
  | Some r => rev r
  | None => s
  end.
