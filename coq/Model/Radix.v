(* Model/Radix.v -- internal/origins/radix.go.
   Data refinement: the Go tree is keyed on host *suffixes* (it walks hosts from their last
   byte); the model stores every node's suffix REVERSED and walks reversed hosts from the
   head, which is the same tree read right-to-left. edges/children and schemes/ports
   (parallel slices) are association lists. *)
Require Import Base.Bytes Gen.Tables Model.Origins Model.Pattern.
Open Scope N_scope.

Definition ents_t := list (bytes * list Z).

Inductive node := Node (rsuf : bytes) (kids : list (N * node)) (ents : ents_t).

Definition empty_tree : node := Node [] [] [].

Fixpoint ents_find (sch : bytes) (e : ents_t) : option (list Z) :=
  match e with
  | [] => None
  | (s, ps) :: r => if beqb sch s then Some ps else ents_find sch r
  end.

Definition shift (w : bool) (p : Z) : Z := if w then (p - origins_portOffset)%Z else p.

(* node.contains *)
Definition ents_contains (e : ents_t) (sch : bytes) (port : Z) (w : bool) : bool :=
  match ents_find sch e with
  | None => false
  | Some ps => memZ (shift w port) ps || memZ (shift w origins_wildcardPort) ps
  end.

(* deleteSameSign *)
Definition delete_same_sign (ps : list Z) (v : Z) : list Z :=
  if (v <? 0)%Z then filter (fun x => (0 <=? x)%Z) ps else filter (fun x => (x <? 0)%Z) ps.

Fixpoint ents_put (sch : bytes) (ps : list Z) (e : ents_t) : ents_t :=
  match e with
  | [] => [(sch, ps)]
  | (s, q) :: r =>
      if beqb sch s then (sch, ps) :: r
      else if bltb sch s then (sch, ps) :: e
      else (s, q) :: ents_put sch ps r
  end.

(* node.add -- including the second shift applied by the nested call to contains (radix.go:185) *)
Definition ents_add (e : ents_t) (sch : bytes) (port : Z) (w : bool) : ents_t :=
  let port' := shift w port in
  let wp := shift w origins_wildcardPort in
  if ents_contains e sch port' w then e
  else match ents_find sch e with
       | None => ents_put sch [port'] e
       | Some ps =>
           let ps1 := if (port' =? wp)%Z then delete_same_sign ps port' else ps in
           ents_put sch (insert_sortedZ port' ps1) e
       end.

(* splitAtCommonSuffix, on reversed strings: (rest of a, rest of b, common prefix) *)
Fixpoint common_prefix (a c : bytes) : bytes * bytes * bytes :=
  match a, c with
  | x :: a', y :: c' =>
      if x =? y then let '(ra, rc, com) := common_prefix a' c' in (ra, rc, x :: com)
      else (a, c, [])
  | _, _ => (a, c, [])
  end.

(* upsertEdge *)
Fixpoint upsert (l : N) (ch : node) (ks : list (N * node)) : list (N * node) :=
  match ks with
  | [] => [(l, ch)]
  | (l', c') :: r =>
      if l =? l' then (l, ch) :: r
      else if l <? l' then (l, ch) :: ks
      else (l', c') :: upsert l ch r
  end.

(* the loop of Tree.Insert; s is the reversed remaining host pattern *)
Fixpoint insert (n : node) (s : bytes) (sch : bytes) (port : Z) (w : bool) {struct n} : node :=
  match n with
  | Node suf kids ents =>
      match s with
      | [] => Node suf kids (ents_add ents sch port w)
      | c :: _ =>
          if ents_contains ents sch port true then n
          else
            Node suf
              ((fix go (ks : list (N * node)) : list (N * node) :=
                  match ks with
                  | [] => [(c, Node s [] (ents_add [] sch port w))]
                  | (l, ch) :: rest =>
                      if c <? l then (c, Node s [] (ents_add [] sch port w)) :: ks
                      else if c =? l then
                        (match ch with
                         | Node csuf ckids cents =>
                             match common_prefix s csuf with
                             | (ps, pc, com) =>
                                 match pc with
                                 | [] => (l, insert ch ps sch port w)
                                 | l1 :: _ =>
                                     let gc1 := Node pc ckids cents in
                                     match ps with
                                     | [] => (l, Node com [(l1, gc1)] (ents_add [] sch port w))
                                     | l2 :: _ =>
                                         (l, Node com (upsert l2 (Node ps [] (ents_add [] sch port w)) [(l1, gc1)]) [])
                                     end
                                 end
                             end
                         end) :: rest
                      else (l, ch) :: go rest
                  end) kids)
              ents
      end
  end.

(* the loop of Tree.Contains; h is the reversed remaining host *)
Fixpoint contains (n : node) (h : bytes) (sch : bytes) (port : Z) {struct n} : bool :=
  match n with
  | Node _ kids ents =>
      match h with
      | [] => ents_contains ents sch port false
      | c :: _ =>
          if ents_contains ents sch port true then true
          else
            (fix go (ks : list (N * node)) : bool :=
               match ks with
               | [] => false
               | (l, ch) :: rest =>
                   if l =? c then
                     match ch with
                     | Node csuf _ _ =>
                         match cut_prefix csuf h with
                         | Some h' => contains ch h' sch port
                         | None => false
                         end
                     end
                   else go rest
               end) kids
      end
  end.

(* Tree.Insert *)
Definition tree_insert (t : node) (p : pattern) : node :=
  match pvalue p with
  | 42 :: s' => insert t (rev s') (pscheme p) (pport p) true
  | s => insert t (rev s) (pscheme p) (pport p) false
  end.

(* Tree.Contains *)
Definition tree_contains (t : node) (o : origin) : bool :=
  contains t (rev (hvalue (ohost o))) (oscheme o) (oport o).

(* Tree.IsEmpty *)
Definition tree_is_empty (t : node) : bool :=
  match t with Node _ [] [] => true | _ => false end.

(* node.elems (with the bracket restoration of the F1 fix) and Tree.Elems *)
Definition render (sch host : bytes) (p : Z) : bytes :=
  let wild := if (p <? 0)%Z then origins_subdomainWildcard else [] in
  let p' := if (p <? 0)%Z then (p + origins_portOffset)%Z else p in
  let base := sch ++ origins_schemeHostSep ++ wild ++ host in
  if (p' =? 0)%Z then base
  else if (p' =? origins_wildcardPort)%Z then base ++ [host_port_sep] ++ origins_portWildcard
  else base ++ [host_port_sep] ++ itoa (Z.to_N p').

Fixpoint node_elems (n : node) (acc : bytes) {struct n} : list bytes :=
  match n with
  | Node suf kids ents =>
      let tot := acc ++ suf in
      let host0 := rev tot in
      let host := if memN host_port_sep host0 then [91] ++ host0 ++ [93] else host0 in
      flat_map (fun e => map (render (fst e) host) (snd e)) ents ++
      (fix go (ks : list (N * node)) : list bytes :=
         match ks with
         | [] => []
         | (_, ch) :: r => node_elems ch tot ++ go r
         end) kids
  end.

Definition tree_elems (t : node) : list bytes := sort_bytes (node_elems t []).
