(* Model/Headers.v -- internal/headers: ows.go, acrh.go, common.go, req.go, res.go *)
Require Import Base.Bytes Gen.Tables Model.Util.
Open Scope N_scope.

Definition is_ows (c : N) : bool := (c =? 9) || (c =? 32).

(* trimLeftOWS: note that it strips up to n+1 bytes before it notices (ows.go:24-38) *)
Fixpoint trim_left (s : bytes) (i n : N) : option bytes :=
  match s with
  | [] => Some []
  | c :: r => if n <? i then None else if is_ows c then trim_left r (i + 1) n else Some s
  end.

Definition trim_right (s : bytes) (n : N) : option bytes :=
  match trim_left (rev s) 0 n with Some t => Some (rev t) | None => None end.

(* TrimOWS: None models the (s, false) result *)
Definition trim_ows (s : bytes) (n : N) : option bytes :=
  match trim_right s n with
  | None => None
  | Some t => trim_left t 0 n
  end.

(* cutAtComma(str, n) *)
Fixpoint cut_at_comma (s : bytes) (n : nat) : bytes * bytes * bool :=
  match n, s with
  | O, _ => (s, [], false)
  | _, [] => ([], [], false)
  | S n', c :: r =>
      if c =? 44 then ([], r, true)
      else match cut_at_comma r n' with
           | (bf, af, true) => (c :: bf, af, true)
           | (_, _, false) => (s, [], false)
           end
  end.

Definition max_ows : N := Z.to_N headers_MaxOWSBytes.
Definition max_empty : Z := headers_MaxEmptyElements.

Inductive cres := CFail | COk (pos emp : Z) | CFuel.

(* inner loop of Check for one field line *)
Fixpoint check_line (fuel : nat) (set : sset) (win : nat) (acrh : bytes) (pos emp : Z) : cres :=
  match fuel with
  | O => CFuel
  | S f =>
      match cut_at_comma acrh win with
      | (name, rest, found) =>
          match trim_ows name max_ows with
          | None => CFail
          | Some [] =>
              let emp' := (emp + 1)%Z in
              if (max_empty <? emp')%Z then CFail
              else if found then check_line f set win rest pos emp' else COk pos emp'
          | Some nm =>
              let i := index_after set pos nm in
              if (i <? 0)%Z then CFail
              else if found then check_line f set win rest i emp else COk i emp
          end
      end
  end.

Fixpoint check_lines (set : sset) (win : nat) (lines : list bytes) (pos emp : Z) : cres :=
  match lines with
  | [] => COk pos emp
  | l :: r =>
      match check_line (S (length l)) set win l pos emp with
      | COk p e => check_lines set win r p e
      | x => x
      end
  end.

(* headers.Check *)
Definition check_window (set : sset) : nat := N.to_nat (max_ows + maxlen set + max_ows + 1).

Definition check (set : sset) (lines : list bytes) : bool :=
  match check_lines set (check_window set) lines (-1) 0 with
  | COk _ _ => true
  | _ => false
  end.

(* httpguts.ValidHeaderFieldName: non-empty, all bytes tchar (RFC 9110) -- modelled by contract *)
Definition is_tchar (c : N) : bool :=
  ((48 <=? c) && (c <=? 57)) || ((65 <=? c) && (c <=? 90)) || ((97 <=? c) && (c <=? 122)) ||
  memN c [33; 35; 36; 37; 38; 39; 42; 43; 45; 46; 94; 95; 96; 124; 126].

Definition is_valid_name (s : bytes) : bool :=
  match s with [] => false | _ => all_bytes is_tchar s end.

(* name tables (req.go, res.go), built exactly like the Go package variables *)
Definition forbidden_req_set := new_set headers_discreteForbiddenRequestHeaderNames.
Definition prohibited_req_set := new_set headers_prohibitedRequestHeaderNames.
Definition forbidden_res_set := new_set headers_forbiddenResponseHeaderNames.
Definition prohibited_res_set := new_set headers_prohibitedResponseHeaderNames.
Definition safelisted_res_set := new_set headers_safelistedResponseHeaderNames.

Definition is_forbidden_req (name : bytes) : bool :=
  set_contains forbidden_req_set name ||
  existsb (fun p => has_prefix p name) headers_IsForbiddenRequestHeaderName_lits.
Definition is_prohibited_req (name : bytes) : bool := set_contains prohibited_req_set name.
Definition is_forbidden_res (name : bytes) : bool := set_contains forbidden_res_set name.
Definition is_prohibited_res (name : bytes) : bool := set_contains prohibited_res_set name.
Definition is_safelisted_res (name : bytes) : bool := set_contains safelisted_res_set name.

(* http.Header as an association list; keys are compared byte-wise (canonical keys only) *)
Definition hmap := list (bytes * list bytes).

Fixpoint hget (m : hmap) (k : bytes) : option (list bytes) :=
  match m with
  | [] => None
  | (k', v) :: r => if beqb k k' then Some v else hget r k
  end.

Fixpoint hset (m : hmap) (k : bytes) (v : list bytes) : hmap :=
  match m with
  | [] => [(k, v)]
  | (k', v') :: r => if beqb k k' then (k, v) :: r else (k', v') :: hset r k v
  end.

(* Header.Add with a canonical key *)
Definition hadd (m : hmap) (k : bytes) (v : bytes) : hmap :=
  match hget m k with
  | Some vs => hset m k (vs ++ [v])
  | None => hset m k [v]
  end.

(* maps.Copy(dst, src) *)
Definition hcopy (dst src : hmap) : hmap := fold_left (fun d kv => hset d (fst kv) (snd kv)) src dst.

(* headers.First *)
Definition first (m : hmap) (k : bytes) : option bytes :=
  match hget m k with
  | Some (v :: _) => Some v
  | _ => None
  end.
