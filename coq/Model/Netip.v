(* Model/Netip.v -- the part of net/netip that parseHostPattern relies on.
   IPv4 (dotted quad) is modelled exactly; everything that netip.ParseAddr would hand to its
   IPv6 parser (first special byte is ':') is delegated to an oracle [ip6], a Section variable
   of every theorem; the harness records the real library's answer per case. *)
Require Import Base.Bytes.
Open Scope N_scope.

Inductive ipres :=
| IPErr                                    (* ParseAddr returned an error *)
| IPZone                                   (* parsed, but has a zone *)
| IP4in6                                   (* parsed, no zone, IPv4-mapped IPv6 *)
| IPOk (canon : bytes) (loopback : bool).  (* parsed: Addr.String(), IsLoopback() *)

Definition octet_ok (f : bytes) : option N :=
  match f with
  | [] => None
  | [c] => if is_digit c then Some (c - 48) else None
  | c :: _ =>
      if (length f <=? 3)%nat && all_bytes is_digit f && negb (c =? 48) then
        let v := atoi f in if v <=? 255 then Some v else None
      else None
  end.

Definition parse_ipv4 (s : bytes) : ipres :=
  match map octet_ok (split_byte 46 s) with
  | [Some a; Some b; Some c; Some d] =>
      IPOk (itoa a ++ [46] ++ itoa b ++ [46] ++ itoa c ++ [46] ++ itoa d) (a =? 127)
  | _ => IPErr
  end.

(* netip.ParseAddr dispatches on the first of '.', ':' and '%' *)
Fixpoint first_special (s : bytes) : N :=
  match s with
  | [] => 0
  | c :: r => if (c =? 46) || (c =? 58) || (c =? 37) then c else first_special r
  end.

Definition parse_addr (ip6 : bytes -> ipres) (s : bytes) : ipres :=
  let c := first_special s in
  if c =? 46 then parse_ipv4 s
  else if c =? 58 then ip6 s
  else IPErr.
