(* Proofs/RadixChkP.v -- the checked-mode translation of internal/origins/radix.go (Gen/RadixChk.v, functions chk_xxx:
   every function also returns a flag that is true iff every index expression x[i] and slice expression x[lo:hi]
   evaluated on the way was in range) against the plain translation (Gen/RadixSrc.v, functions go_xxx):
   on every tree that satisfies the invariant [gwf] the flag is TRUE -- Go does not panic with an index or slice
   out of range -- and the other components are exactly what the plain translation returns.
   Main results: chk_Tree_Contains_ok, chk_Tree_Insert_ok, chk_Tree_Elems_ok, chk_Tree_IsEmpty_ok. *)
Require Import Base.Bytes Gen.Tables Model.Util Model.Headers Model.Origins Model.Pattern Model.Radix Model.UtilRt
  Model.LoopRt Model.RadixRt Gen.RadixSrc Gen.RadixChk Proofs.RadixAbs Proofs.RadixP Proofs.RadixSrcHelpP
  Proofs.RadixSrcContainsP Proofs.RadixSrcInsertP.
From Coq Require Import Sorted ZifyBool ZifyNat ZifyN.
Open Scope bool_scope.
Local Open Scope nat_scope.

(* ------------------------------------------------------------------------------------------ *)
(* 1. loops: the checked loop carries one more state component; a simulation                    *)

Section Sim.
  Context {S1 R1 S2 R2 : Type} (RS : S1 -> S2 -> Prop) (RR : R1 -> R2 -> Prop).

  Definition ctl_rel (c1 : ctl S1 R1) (c2 : ctl S2 R2) : Prop :=
    match c1, c2 with
    | Next a, Next c => RS a c
    | Brk a, Brk c => RS a c
    | Ret a, Ret c => RR a c
    | Exh, Exh => True
    | _, _ => False
    end.

  Definition lres_rel (c1 : lres S1 R1) (c2 : lres S2 R2) : Prop :=
    match c1, c2 with
    | Done a, Done c => RS a c
    | Returned a, Returned c => RR a c
    | Exhausted, Exhausted => True
    | _, _ => False
    end.

  Lemma loop_n_sim (body1 : S1 -> ctl S1 R1) (body2 : S2 -> ctl S2 R2) :
    (forall s1 s2, RS s1 s2 -> ctl_rel (body1 s1) (body2 s2)) ->
    forall n s1 s2, RS s1 s2 -> lres_rel (loop_n n body1 s1) (loop_n n body2 s2).
  Proof.
    intros Hb. induction n as [|n IH]; intros s1 s2 Hs; [exact I|].
    rewrite !loop_n_S'. specialize (Hb s1 s2 Hs).
    destruct (body1 s1), (body2 s2); cbn [ctl_rel] in Hb; try contradiction; cbn [lres_rel]; auto.
  Qed.

  (* range loops whose bodies always continue *)
  Lemma loop_list_sim_next {A : Type} (l : list A) (body1 : S1 -> A -> ctl S1 R1) (body2 : S2 -> A -> ctl S2 R2) :
    (forall x, In x l -> forall s1 s2, RS s1 s2 ->
       exists s1' s2', body1 s1 x = Next s1' /\ body2 s2 x = Next s2' /\ RS s1' s2') ->
    forall s1 s2, RS s1 s2 ->
    exists s1' s2', loop_list l body1 s1 = Done s1' /\ loop_list l body2 s2 = Done s2' /\ RS s1' s2'.
  Proof.
    induction l as [|x l IH]; intros Hb s1 s2 Hs; cbn [loop_list].
    - exists s1, s2. repeat split. exact Hs.
    - destruct (Hb x (or_introl eq_refl) s1 s2 Hs) as (a & c & E1 & E2 & Hac). rewrite E1, E2.
      apply IH; [|exact Hac]. intros y Hy. apply Hb. right. exact Hy.
  Qed.

  Lemma loop_elems_sim_next {A : Type} (l : list A) (body1 : S1 -> A -> ctl S1 R1) (body2 : S2 -> A -> ctl S2 R2) :
    (forall x, In x l -> forall s1 s2, RS s1 s2 ->
       exists s1' s2', body1 s1 x = Next s1' /\ body2 s2 x = Next s2' /\ RS s1' s2') ->
    forall s1 s2, RS s1 s2 ->
    exists s1' s2', loop_elems body1 l s1 = Done s1' /\ loop_elems body2 l s2 = Done s2' /\ RS s1' s2'.
  Proof.
    induction l as [|x l IH]; intros Hb s1 s2 Hs; cbn [loop_elems].
    - exists s1, s2. repeat split. exact Hs.
    - destruct (Hb x (or_introl eq_refl) s1 s2 Hs) as (a & c & E1 & E2 & Hac). rewrite E1, E2.
      apply IH; [|exact Hac]. intros y Hy. apply Hb. right. exact Hy.
  Qed.
End Sim.

(* ------------------------------------------------------------------------------------------ *)
(* 2. the helpers                                                                              *)

Lemma chk_Tree_IsEmpty_ok (t : gnode) : chk_Tree_IsEmpty t = (go_Tree_IsEmpty t, true).
Proof. reflexivity. Qed.

Lemma chk_lastByte_ok (s : bytes) : chk_lastByte s = (go_lastByte s, true).
Proof.
  unfold chk_lastByte, go_lastByte, in_range.
  destruct (Z.of_nat (length s) =? 0)%Z eqn:E; [reflexivity|].
  f_equal. lia.
Qed.

Lemma chk_deleteSameSign_ok (s : list Z) (v : Z) : chk_deleteSameSign s v = (go_deleteSameSign s v, true).
Proof.
  unfold chk_deleteSameSign, go_deleteSameSign, slice_ok.
  pose proof (bsZ_index_range s 0%Z) as Hr.
  destruct (slices_BinarySearch_Z s 0%Z) as [i f]. cbn [fst] in Hr.
  destruct (v <? 0)%Z; f_equal; lia.
Qed.

Lemma length_go_copy {A : Type} (dst src : list A) (a c : Z) :
  length (go_copy dst a src c) = length dst.
Proof.
  unfold go_copy. rewrite !app_length, skipn_length, !firstn_length, skipn_length. lia.
Qed.

Lemma chk_insert_ok {T : Type} (z : T) (l : list T) (i : Z) (v : T) :
  (0 <= i <= Z.of_nat (length l))%Z -> chk_insert z l i v = (go_insert z l i v, true).
Proof.
  intros Hi. unfold chk_insert, go_insert, in_range. rewrite length_go_copy, app_length. cbn [length].
  f_equal. lia.
Qed.

Lemma chk_node_contains_ok n sch port w :
  length (g_schemes n) = length (g_ports n) ->
  StronglySorted (fun a c => bltb a c = true) (g_schemes n) ->
  chk_node_contains n sch port w = (go_node_contains n sch port w, true).
Proof.
  intros Hl Hs. unfold chk_node_contains, go_node_contains, in_range.
  destruct w; cbv beta iota zeta;
    (destruct (slices_BinarySearch (g_schemes n) sch) as [i found] eqn:E;
     destruct found; cbn [negb]; [|reflexivity];
     destruct (bsB_found _ _ _ Hs E) as (_ & Hi & _);
     repeat match goal with |- context [slices_BinarySearch_Z ?a ?c] => destruct (slices_BinarySearch_Z a c) as [? []] end;
     f_equal; lia).
Qed.

Lemma chk_node_add_ok n sch port w :
  length (g_schemes n) = length (g_ports n) ->
  StronglySorted (fun a c => bltb a c = true) (g_schemes n) ->
  chk_node_add n sch port w = (go_node_add n sch port w, true).
Proof.
  intros Hl Hs. unfold chk_node_add, go_node_add, in_range.
  destruct w; cbv beta iota zeta;
    (rewrite (chk_node_contains_ok _ _ _ _ Hl Hs);
     match goal with |- context [go_node_contains ?a ?c ?d ?e] => destruct (go_node_contains a c d e) end;
     [reflexivity|];
     pose proof (bsB_index_range (g_schemes n) sch) as Hr;
     destruct (slices_BinarySearch (g_schemes n) sch) as [i found] eqn:E; cbn [fst] in Hr;
     destruct found; cbn [negb];
     [ destruct (bsB_found _ _ _ Hs E) as (_ & Hi & _);
       match goal with |- context [(?a =? ?c)%Z] => destruct (a =? c)%Z end;
       rewrite ?chk_deleteSameSign_ok; f_equal; lia
     | rewrite chk_insert_ok by exact Hr;
       destruct n as [a e c s q]; cbn [g_schemes g_ports set_g_schemes set_g_ports] in *;
       rewrite chk_insert_ok by lia; reflexivity ]).
Qed.

Lemma chk_node_upsertEdge_ok n l ch :
  length (g_edges n) = length (g_children n) -> StronglySorted N.lt (g_edges n) ->
  chk_node_upsertEdge n l ch = (go_node_upsertEdge n l ch, true).
Proof.
  intros Hl Hs. unfold chk_node_upsertEdge, go_node_upsertEdge, in_range.
  pose proof (bsN_index_range (g_edges n) l) as Hr.
  destruct (slices_BinarySearch_N (g_edges n) l) as [i found] eqn:E. cbn [fst] in Hr.
  destruct found; cbn [negb].
  - destruct (bsN_found _ _ _ Hs E) as (_ & Hi & _). f_equal. lia.
  - rewrite chk_insert_ok by exact Hr.
    destruct n as [a e c s q]; cbn [g_edges g_children set_g_edges set_g_children] in *.
    rewrite chk_insert_ok by lia. reflexivity.
Qed.

(* splitAtCommonSuffix, for ALL a and b: after the swap s is the shorter string and l is cut to the same length,
   so the loop index stays within both; the hint `_ = l[:len(s)]` and the three final slices are in range too *)
Definition chk_split_body (s l : bytes) : bool * Z -> ctl (bool * Z) (bytes * bytes * bytes * bool) :=
  fun '(v__chk, v_i) =>
      let v__chk := v__chk && (implb ((0)%Z <=? v_i)%Z ((in_range v_i (length s)) && (in_range v_i (length l)))) in
  if (((0)%Z <=? v_i)%Z && (N.eqb (nth (Z.to_nat v_i) s 0%N) (nth (Z.to_nat v_i) l 0%N))) then (
        let v_i := (v_i - 1)%Z in (Next (v__chk, v_i)))
      else (Brk (v__chk, v_i)).

Lemma chk_split_loop (s l : bytes) : length l = length s -> forall fuel,
  lres_rel (fun (st : bool * Z) (i : Z) => fst st = true /\ snd st = i /\ (-1 <= i < Z.of_nat (length s))%Z)
           (fun (r : bytes * bytes * bytes * bool) (r' : bytes * bytes * bytes) => r = (r', true))
    (loop_n fuel (chk_split_body s l) (true, (Z.of_nat (length s) - 1)%Z))
    (loop_n fuel (split_body s l) (Z.of_nat (length s) - 1)%Z).
Proof.
  intros Hl fuel. apply loop_n_sim; [|cbn [fst snd]; repeat split; lia].
  intros [c i] i' (Hc & Hi & Hb). cbn [fst snd] in Hc, Hi. subst c i'.
  unfold chk_split_body, split_body, in_range. rewrite Hl. cbv zeta.
  destruct ((0 <=? i)%Z && (nth (Z.to_nat i) s 0%N =? nth (Z.to_nat i) l 0%N)%N) eqn:E;
    cbn [ctl_rel fst snd]; repeat split; lia.
Qed.

Lemma chk_splitAtCommonSuffix_ok (a c : bytes) :
  chk_splitAtCommonSuffix a c =
  match go_splitAtCommonSuffix a c with Some r => Some (r, true) | None => None end.
Proof.
  unfold chk_splitAtCommonSuffix, go_splitAtCommonSuffix.
  destruct (Z.of_nat (length c) <? Z.of_nat (length a))%Z eqn:Hlt; cbv beta iota zeta.
  - set (l := skipn (Z.to_nat (Z.of_nat (length a) - Z.of_nat (length c))) a).
    assert (Hl : length l = length c) by (unfold l; rewrite skipn_length; lia).
    replace (slice_ok (Z.of_nat (length a) - Z.of_nat (length c)) (Z.of_nat (length a)) (length a)) with true
      by (unfold slice_ok; lia).
    replace (slice_ok 0 (Z.of_nat (length c)) (length l)) with true by (unfold slice_ok; lia).
    cbn [andb].
    pose proof (chk_split_loop c l Hl (S (Z.to_nat (Z.of_nat (length c) - 1 + 1)))) as H.
    unfold chk_split_body, split_body in H.
    match type of H with lres_rel _ _ ?x ?y => destruct x as [[k i]| |]; destruct y as [i'| |] end;
      cbn [lres_rel fst snd] in H; try contradiction.
    + destruct H as (-> & -> & Hb). unfold slice_ok. do 2 f_equal. lia.
    + rewrite H. reflexivity.
    + reflexivity.
  - set (l := skipn (Z.to_nat (Z.of_nat (length c) - Z.of_nat (length a))) c).
    assert (Hl : length l = length a) by (unfold l; rewrite skipn_length; lia).
    replace (slice_ok (Z.of_nat (length c) - Z.of_nat (length a)) (Z.of_nat (length c)) (length c)) with true
      by (unfold slice_ok; lia).
    replace (slice_ok 0 (Z.of_nat (length a)) (length l)) with true by (unfold slice_ok; lia).
    cbn [andb].
    pose proof (chk_split_loop a l Hl (S (Z.to_nat (Z.of_nat (length a) - 1 + 1)))) as H.
    unfold chk_split_body, split_body in H.
    match type of H with lres_rel _ _ ?x ?y => destruct x as [[k i]| |]; destruct y as [i'| |] end;
      cbn [lres_rel fst snd] in H; try contradiction.
    + destruct H as (-> & -> & Hb). unfold slice_ok. do 2 f_equal. lia.
    + rewrite H. reflexivity.
    + reflexivity.
Qed.

(* ------------------------------------------------------------------------------------------ *)
(* 3. Tree.Contains                                                                            *)

Lemma gwf_node_facts n : gwf n ->
  length (g_edges n) = length (g_children n) /\ length (g_schemes n) = length (g_ports n) /\
  StronglySorted N.lt (g_edges n) /\ StronglySorted (fun a c => bltb a c = true) (g_schemes n) /\
  Forall2 (fun l ch => last_byte (g_suf ch) = (l, true) /\ gwf ch) (g_edges n) (g_children n).
Proof.
  destruct n as [a e c s q]. intros H. apply gwf_inv in H. cbn [g_edges g_children g_schemes g_ports]. tauto.
Qed.

(* the child that a successful search of the edges designates *)
Lemma gwf_found_child n c i : gwf n -> slices_BinarySearch_N (g_edges n) c = (i, true) ->
  (0 <= i < Z.of_nat (length (g_children n)))%Z /\ gwf (nth (Z.to_nat i) (g_children n) zero_gnode).
Proof.
  intros Hwf E. destruct (gwf_node_facts n Hwf) as (Hl & _ & Hs & _ & Hf).
  destruct (bsN_found _ _ _ Hs E) as (_ & Hi & _). split; [lia|].
  apply (Forall2_nth_both _ 0%N zero_gnode _ _ Hf (Z.to_nat i)). lia.
Qed.

(* the body of the generated loop, verbatim *)
Definition chk_contains_body (v_t : gnode) (v_o : origin) : bool * bytes * gpath -> ctl (bool * bytes * gpath) (bool * bool) :=
  (fun '(v__chk, v_host, v_n) =>
      if true then (
        let '(v_label, v_ok, r_chk) := chk_lastByte v_host in
      let v__chk := v__chk && r_chk in
            if (negb v_ok) then (
        let '(h_1, hk_1) := chk_node_contains (gget v_t v_n) (oscheme v_o) (oport v_o) false in
        let v__chk := v__chk && hk_1 in
        (Ret (h_1, v__chk)))
      else (
        let '(h_2, hk_2) := chk_node_contains (gget v_t v_n) (oscheme v_o) (oport v_o) true in
        let v__chk := v__chk && hk_2 in
        if h_2 then (
          (Ret (true, v__chk)))
        else (
          let '(v_i, v_found) := slices_BinarySearch_N (g_edges (gget v_t v_n)) v_label in
          if (negb v_found) then (
            (Ret (false, v__chk)))
          else (
            let v__chk := v__chk && (in_range v_i (length (g_children (gget v_t v_n)))) in
            let v_n := gchild v_n v_i in
            match chk_splitAtCommonSuffix v_host (g_suf (gget v_t v_n)) with
            | None => Exh
            | Some (v_prefixOfHost, _, v_suf, r_chk) =>
              let v__chk := v__chk && r_chk in
                          if (negb ((Z.of_nat (length v_suf)) =? (Z.of_nat (length (g_suf (gget v_t v_n)))))%Z) then (
                (Ret (false, v__chk)))
              else (
                let v_host := v_prefixOfHost in
                (Next (v__chk, v_host, v_n)))
            end))))
      else (Brk (v__chk, v_host, v_n))).

Lemma chk_Tree_Contains_unfold t o :
  chk_Tree_Contains t o =
  match loop_n (S (length (hvalue (ohost o)))) (chk_contains_body t o) (true, hvalue (ohost o), []) with
  | Done _ => None
  | Returned r => Some r
  | Exhausted => None
  end.
Proof.
  unfold chk_Tree_Contains, chk_contains_body. cbv zeta.
  destruct (loop_n _ _ _) as [[[? ?] ?]| |]; reflexivity.
Qed.

Definition cont_RS (t : gnode) (st : bool * bytes * gpath) (st' : bytes * gpath) : Prop :=
  st = (true, fst st', snd st') /\ gwf (gget t (snd st')).
Definition flag_RR {A : Type} (r : A * bool) (r' : A) : Prop := r = (r', true).

Lemma chk_contains_body_sim t o st st' : cont_RS t st st' ->
  ctl_rel (cont_RS t) flag_RR (chk_contains_body t o st) (contains_body t o st').
Proof.
  destruct st' as [h p]. intros [-> Hwf]. cbn [fst snd] in *.
  destruct (gwf_node_facts _ Hwf) as (Hl & Hl2 & Hs & Hs2 & Hf).
  unfold chk_contains_body, contains_body. cbv zeta.
  rewrite chk_lastByte_ok. destruct (go_lastByte h) as [c ok]. cbn [andb].
  destruct ok; cbn [negb].
  2:{ rewrite (chk_node_contains_ok _ _ _ _ Hl2 Hs2). reflexivity. }
  rewrite (chk_node_contains_ok _ _ _ _ Hl2 Hs2). cbn [andb].
  destruct (go_node_contains (gget t p) (oscheme o) (oport o) true); [reflexivity|].
  destruct (slices_BinarySearch_N (g_edges (gget t p)) c) as [i found] eqn:E.
  destruct found; cbn [negb]; [|reflexivity].
  destruct (gwf_found_child _ _ _ Hwf E) as (Hi & Hch).
  replace (in_range i (length (g_children (gget t p)))) with true by (unfold in_range; lia). cbn [andb].
  rewrite chk_splitAtCommonSuffix_ok.
  destruct (go_splitAtCommonSuffix h (g_suf (gget t (gchild p i)))) as [[[pH pC] com]|]; [|exact I].
  cbn [andb].
  destruct (negb (Z.of_nat (length com) =? Z.of_nat (length (g_suf (gget t (gchild p i)))))%Z); [reflexivity|].
  cbn [ctl_rel]. split; [reflexivity|]. cbn [snd]. rewrite gget_gchild. exact Hch.
Qed.

Theorem chk_Tree_Contains_ok (t : gnode) (o : origin) :
  gwf t -> exists v, chk_Tree_Contains t o = Some (v, true) /\ go_Tree_Contains t o = Some v.
Proof.
  intros Hwf. exists (tree_contains (abs t) o). split; [|apply go_Tree_Contains_eq, Hwf].
  pose proof (go_Tree_Contains_eq t o Hwf) as Hgo.
  rewrite go_Tree_Contains_unfold in Hgo. rewrite chk_Tree_Contains_unfold.
  pose proof (loop_n_sim (cont_RS t) flag_RR _ _ (chk_contains_body_sim t o)
                (S (length (hvalue (ohost o)))) (true, hvalue (ohost o), []) (hvalue (ohost o), [])
                (conj eq_refl Hwf)) as H.
  destruct (loop_n _ (contains_body t o) _) as [[? ?]|r|]; try discriminate.
  destruct (loop_n _ (chk_contains_body t o) _) as [?|r1|]; cbn [lres_rel] in H; try contradiction.
  unfold flag_RR in H. subst r1. congruence.
Qed.

(* ------------------------------------------------------------------------------------------ *)
(* 4. Tree.Insert                                                                              *)

(* the body of the generated loop, verbatim *)
Definition chk_ins_body (sch : bytes) (port : Z) (w : bool) :
    gnode * bool * bytes * gpath -> ctl (gnode * bool * bytes * gpath) (gnode * bool) :=
  (fun '(v_t, v__chk, v_s, v_n) =>
      if true then (
        let '(v_labelToChild, v_ok, r_chk) := chk_lastByte v_s in
      let v__chk := v__chk && r_chk in
            if (negb v_ok) then (
        let '(r_node, r_chk) := chk_node_add (gget v_t v_n) sch port w in
        let v_t := gset v_t v_n r_node in
        let v__chk := v__chk && r_chk in
        (Ret (v_t, v__chk)))
      else (
        let '(h_1, hk_1) := chk_node_contains (gget v_t v_n) sch port true in
        let v__chk := v__chk && hk_1 in
        if h_1 then (
          (Ret (v_t, v__chk)))
        else (
          let '(v_i, v_found) := slices_BinarySearch_N (g_edges (gget v_t v_n)) v_labelToChild in
          if (negb v_found) then (
            let v_child := (GNode v_s ([] : list N) ([] : list gnode) ([] : list bytes) ([] : list (list Z))) in
            let '(v_child, r_chk) := chk_node_add v_child sch port w in
            let v__chk := v__chk && r_chk in
            let '(r_node, _, r_chk) := chk_node_upsertEdge (gget v_t v_n) v_labelToChild v_child in
            let v_t := gset v_t v_n r_node in
            let v__chk := v__chk && r_chk in
            (Ret (v_t, v__chk)))
          else (
            let v__chk := v__chk && (in_range v_i (length (g_children (gget v_t v_n)))) in
            let v_child := gchild v_n v_i in
            match chk_splitAtCommonSuffix v_s (g_suf (gget v_t v_child)) with
            | None => Exh
            | Some (v_prefixOfS, v_prefixOfChildSuf, v_suf, r_chk) =>
              let v__chk := v__chk && r_chk in
                          let '(v_labelToGrandChild1, v_ok, r_chk) := chk_lastByte v_prefixOfChildSuf in
              let v__chk := v__chk && r_chk in
                            if (negb v_ok) then (
                let v_s := v_prefixOfS in
                let v_n := v_child in
                (Next (v_t, v__chk, v_s, v_n)))
              else (
                let v_grandChild1 := (GNode v_prefixOfChildSuf (g_edges (gget v_t v_child)) (g_children (gget v_t v_child)) (g_schemes (gget v_t v_child)) (g_ports (gget v_t v_child))) in
                let '(r_node, r_idx, r_chk) := chk_node_upsertEdge (gget v_t v_n) v_labelToChild (GNode v_suf ([] : list N) ([] : list gnode) ([] : list bytes) ([] : list (list Z))) in
                let v_t := gset v_t v_n r_node in
                let v__chk := v__chk && r_chk in
                let v_child := gchild v_n r_idx in
                let '(r_node, _, r_chk) := chk_node_upsertEdge (gget v_t v_child) v_labelToGrandChild1 v_grandChild1 in
                let v_t := gset v_t v_child r_node in
                let v__chk := v__chk && r_chk in
                let '(v_labelToGrandChild2, v_ok, r_chk) := chk_lastByte v_prefixOfS in
                let v__chk := v__chk && r_chk in
                                if (negb v_ok) then (
                  let '(r_node, r_chk) := chk_node_add (gget v_t v_child) sch port w in
                  let v_t := gset v_t v_child r_node in
                  let v__chk := v__chk && r_chk in
                  (Ret (v_t, v__chk)))
                else (
                  let v_grandChild2 := (GNode v_prefixOfS ([] : list N) ([] : list gnode) ([] : list bytes) ([] : list (list Z))) in
                  let '(v_grandChild2, r_chk) := chk_node_add v_grandChild2 sch port w in
                  let v__chk := v__chk && r_chk in
                  let '(r_node, _, r_chk) := chk_node_upsertEdge (gget v_t v_child) v_labelToGrandChild2 v_grandChild2 in
                  let v_t := gset v_t v_child r_node in
                  let v__chk := v__chk && r_chk in
                  (Ret (v_t, v__chk))))
            end))))
      else (Brk (v_t, v__chk, v_s, v_n))).

Lemma chk_Tree_Insert_unfold t p : pvalue p <> [] ->
  chk_Tree_Insert t p =
  let w := N.eqb (nth 0 (pvalue p) 0%N) 42%N in
  let s := if w then skipn 1 (pvalue p) else pvalue p in
  match loop_n (S (length s)) (chk_ins_body (pscheme p) (pport p) w) (t, true, s, []) with
  | Done _ => None
  | Returned r => Some r
  | Exhausted => None
  end.
Proof.
  intros Hne. unfold chk_Tree_Insert, chk_ins_body. cbv zeta.
  replace (in_range 0 (length (pvalue p))) with true
    by (unfold in_range; destruct (pvalue p); [contradiction | cbn [length]; lia]).
  replace (slice_ok 1 (Z.of_nat (length (pvalue p))) (length (pvalue p))) with true
    by (unfold slice_ok; destruct (pvalue p); [contradiction | cbn [length]; lia]).
  cbn [andb].
  destruct (N.eqb (nth (Z.to_nat 0) (pvalue p) 0%N) 42%N) eqn:E;
    change (Z.to_nat 0) with 0 in *; rewrite E; change (Z.to_nat 1) with 1.
  - destruct (loop_n _ _ _) as [[[[? ?] ?] ?]| |]; reflexivity.
  - destruct (loop_n _ _ _) as [[[[? ?] ?] ?]| |]; reflexivity.
Qed.

Definition ins_RS (st : gnode * bool * bytes * gpath) (st' : gnode * bytes * gpath) : Prop :=
  let '(t, s, p) := st' in st = (t, true, s, p) /\ gvalid t p /\ gwf (gget t p).

(* where upsertEdge puts the child *)
Lemma upsert_child n c X r idx :
  length (g_edges n) = length (g_children n) -> StronglySorted N.lt (g_edges n) ->
  go_node_upsertEdge n c X = (r, idx) ->
  Z.to_nat idx < length (g_children r) /\ nth (Z.to_nat idx) (g_children r) zero_gnode = X.
Proof.
  destruct n as [a e ch s q]. cbn [g_edges g_children]. intros Hl Hs E.
  destruct (go_node_upsertEdge_spec a e ch s q c X Hl Hs)
    as (e' & ch' & i & E' & _ & Hi & Hn & _ & Hl' & _).
  rewrite E in E'. injection E' as -> ->. cbn [g_children]. rewrite Nat2Z.id. split; [lia | exact Hn].
Qed.

Lemma chk_ins_body_sim sch port w st st' : ins_RS st st' ->
  ctl_rel ins_RS flag_RR (chk_ins_body sch port w st) (ins_body sch port w st').
Proof.
  destruct st' as [[t s] p]. intros (-> & Hv & Hwf).
  destruct (gwf_node_facts _ Hwf) as (Hl & Hl2 & Hs & Hs2 & Hf).
  unfold chk_ins_body, ins_body. cbv zeta.
  rewrite chk_lastByte_ok. destruct (go_lastByte s) as [c ok]. cbn [andb].
  destruct ok; cbn [negb].
  2:{ rewrite (chk_node_add_ok _ _ _ _ Hl2 Hs2). reflexivity. }
  rewrite (chk_node_contains_ok _ _ _ _ Hl2 Hs2). cbn [andb].
  destruct (go_node_contains (gget t p) sch port true); [reflexivity|].
  destruct (slices_BinarySearch_N (g_edges (gget t p)) c) as [i found] eqn:E.
  destruct found; cbn [negb].
  2:{ rewrite chk_node_add_ok by (cbn; solve [reflexivity | constructor]). cbn [andb].
      rewrite (chk_node_upsertEdge_ok _ _ _ Hl Hs).
      destruct (go_node_upsertEdge _ _ _) as [r ?]. reflexivity. }
  destruct (gwf_found_child _ _ _ Hwf E) as (Hi & Hch).
  replace (in_range i (length (g_children (gget t p)))) with true by (unfold in_range; lia). cbn [andb].
  rewrite chk_splitAtCommonSuffix_ok.
  destruct (go_splitAtCommonSuffix s (g_suf (gget t (gchild p i)))) as [[[pS pC] com]|]; [|exact I].
  cbn [andb]. rewrite chk_lastByte_ok. destruct (go_lastByte pC) as [l1 ok1]. cbn [andb].
  destruct ok1; cbn [negb].
  2:{ cbn [ctl_rel ins_RS]. split; [reflexivity|]. split.
      - unfold gchild. apply gvalid_snoc; [exact Hv | lia].
      - rewrite gget_gchild. exact Hch. }
  rewrite (chk_node_upsertEdge_ok _ _ _ Hl Hs).
  destruct (go_node_upsertEdge (gget t p) c _) as [r1 idx] eqn:E1. cbn [andb].
  destruct (upsert_child _ _ _ _ _ Hl Hs E1) as (Hidx & Hnth).
  unfold gchild. rewrite !(gget_gset_app t p _ _ Hv). cbn [gget]. rewrite Hnth.
  rewrite chk_node_upsertEdge_ok by (cbn; solve [reflexivity | constructor]).
  rewrite upsertEdge_bare. cbn [andb].
  rewrite !(gset_gset_app t p _ _ _ Hv).
  rewrite chk_lastByte_ok. destruct (go_lastByte pS) as [l2 ok2]. cbn [andb].
  rewrite !(gget_gset_app t p _ _ Hv).
  assert (Hg : forall X, gget (gset r1 [Z.to_nat idx] X) [Z.to_nat idx] = X).
  { intros X. apply gget_gset. cbn [gvalid]. split; [exact Hidx | exact I]. }
  rewrite !Hg.
  destruct ok2; cbn [negb].
  - rewrite chk_node_add_ok by (cbn; solve [reflexivity | constructor]). cbn [andb].
    rewrite chk_node_upsertEdge_ok by (cbn; solve [reflexivity | repeat constructor]).
    destruct (go_node_upsertEdge _ l2 _) as [r3 ?].
    rewrite ?(gset_gset_app t p _ _ _ Hv). reflexivity.
  - rewrite chk_node_add_ok by (cbn; solve [reflexivity | constructor]).
    rewrite ?(gset_gset_app t p _ _ _ Hv). reflexivity.
Qed.

Theorem chk_Tree_Insert_ok (t : gnode) (p : pattern) :
  gwf t -> pvalue p <> [] ->
  exists t', chk_Tree_Insert t p = Some (t', true) /\ go_Tree_Insert t p = Some t'.
Proof.
  intros Hwf Hne. destruct (go_Tree_Insert_eq t p Hwf) as (t' & Hgo & _).
  exists t'. split; [|exact Hgo].
  rewrite go_Tree_Insert_unfold in Hgo. rewrite (chk_Tree_Insert_unfold t p Hne). cbv zeta in *.
  set (w := N.eqb (nth 0 (pvalue p) 0%N) 42%N) in *.
  set (s := if w then skipn 1 (pvalue p) else pvalue p) in *.
  pose proof (loop_n_sim ins_RS flag_RR _ _ (chk_ins_body_sim (pscheme p) (pport p) w)
                (S (length s)) (t, true, s, []) (t, s, [])
                (conj eq_refl (conj I Hwf))) as H.
  destruct (loop_n _ (ins_body _ _ _) _) as [?|r|]; try discriminate.
  destruct (loop_n _ (chk_ins_body _ _ _) _) as [?|r1|]; cbn [lres_rel] in H; try contradiction.
  unfold flag_RR in H. subst r1. congruence.
Qed.

(* ------------------------------------------------------------------------------------------ *)
(* 5. Tree.Elems                                                                               *)

Lemma In_zip_index_from {A : Type} (l : list A) : forall k i x,
  In (i, x) (zip_index_from k l) -> (k <= i < k + Z.of_nat (length l))%Z.
Proof.
  induction l as [|a l IH]; intros k i x H; cbn [zip_index_from In length] in *; [contradiction|].
  destruct H as [H|H]; [injection H as <- _; lia|]. apply IH in H. lia.
Qed.

Definition dst_RS (st : list bytes * bool) (st' : list bytes) : Prop := st = (st', true).

Lemma chk_node_elems_ok (n : gnode) : gwf n -> forall dst suf,
  exists l, chk_node_elems n dst suf = Some (l, true) /\ go_node_elems n dst suf = Some l.
Proof.
  induction n as [nsuf edges children schemes ports IH] using gnode_ind'.
  intros Hg dst suf.
  apply gwf_inv in Hg. destruct Hg as (Hle & Hls & _ & _ & _ & H2).
  assert (Hch : forall ch, In ch children -> forall dst suf,
            exists l, chk_node_elems ch dst suf = Some (l, true) /\ go_node_elems ch dst suf = Some l).
  { clear - IH H2. revert IH. induction H2 as [|e c es cs [_ Hg] _ IH2]; intros IH ch Hin; [destruct Hin|].
    inversion IH as [|x l Hx Hr]; subst. destruct Hin as [<-|Hin]; [apply Hx, Hg | apply IH2; assumption]. }
  cbn [chk_node_elems go_node_elems g_suf g_ports g_schemes g_children].
  set (host := if (0 <=? strings_IndexByte (nsuf ++ suf) (Z.to_N origins_hostPortSep))%Z then _ else (nsuf ++ suf)).
  replace (if (0 <=? strings_IndexByte (nsuf ++ suf) (Z.to_N origins_hostPortSep))%Z
           then (true, ([91%N] ++ nsuf ++ suf) ++ [93%N]) else (true, nsuf ++ suf)) with (true, host)
    by (unfold host; destruct (0 <=? strings_IndexByte (nsuf ++ suf) (Z.to_N origins_hostPortSep))%Z; reflexivity).
  cbv beta iota.
  match goal with |- exists l, match loop_list _ ?b1 _ with _ => _ end = _ /\ match loop_list _ ?b2 _ with _ => _ end = _ =>
    destruct (loop_list_sim_next (R1 := list bytes * bool) (R2 := list bytes) dst_RS (zip_index ports) b1 b2) with (s1 := (dst, true)) (s2 := dst)
      as (s1' & s2' & E1 & E2 & Hs) end.
  { intros [i ps] Hin [d k] d' Hd. unfold dst_RS in Hd. injection Hd as -> ->.
    apply In_zip_index_from in Hin.
    replace (in_range i (length schemes)) with true by (unfold in_range; lia). cbn [andb].
    match goal with |- exists s1' s2', match loop_list _ ?b1 _ with _ => _ end = _ /\ match loop_list _ ?b2 _ with _ => _ end = _ /\ _ =>
      destruct (loop_list_sim_next (R1 := list bytes * bool) (R2 := list bytes) dst_RS (zip_index ps) b1 b2) with (s1 := (d', true)) (s2 := d')
        as (s1' & s2' & E1 & E2 & Hs) end.
    - intros [j v] _ [d k] d'' Hd. unfold dst_RS in Hd. injection Hd as -> ->.
      destruct (v <? 0)%Z; cbv beta iota zeta;
        repeat match goal with |- context [(?a =? ?c)%Z] => destruct (a =? c)%Z end;
        eexists; eexists; (split; [reflexivity|]); (split; [reflexivity|]); reflexivity.
    - reflexivity.
    - rewrite E1, E2. unfold dst_RS in Hs. subst s1'. exists (s2', true), s2'. repeat split. }
  { reflexivity. }
  rewrite E1, E2. unfold dst_RS in Hs. subst s1'.
  match goal with |- exists l, match loop_elems ?b1 _ _ with _ => _ end = _ /\ match loop_elems ?b2 _ _ with _ => _ end = _ =>
    destruct (loop_elems_sim_next (R1 := list bytes * bool) (R2 := list bytes) dst_RS children b1 b2) with (s1 := (s2', true)) (s2 := s2')
      as (s1'' & s2'' & E3 & E4 & Hs) end.
  { intros ch Hin [d k] d' Hd. unfold dst_RS in Hd. injection Hd as -> ->.
    destruct (Hch ch Hin d' (nsuf ++ suf)) as (l & F1 & F2). rewrite F1, F2.
    exists (l, true), l. repeat split. }
  { reflexivity. }
  rewrite E3, E4. unfold dst_RS in Hs. subst s1''. exists s2''. split; reflexivity.
Qed.

Theorem chk_Tree_Elems_ok (t : gnode) :
  gwf t -> exists l, chk_Tree_Elems t = Some (l, true) /\ go_Tree_Elems t = Some l.
Proof.
  intros Hwf. unfold chk_Tree_Elems, go_Tree_Elems.
  destruct (chk_node_elems_ok t Hwf [] []) as (l & E1 & E2). rewrite E1, E2.
  exists (slices_Sort l). split; reflexivity.
Qed.

Print Assumptions chk_Tree_Contains_ok.
Print Assumptions chk_Tree_Insert_ok.
Print Assumptions chk_Tree_Elems_ok.
Print Assumptions chk_Tree_IsEmpty_ok.

(* ------------------------------------------------------------------------------------------ *)
(* 6. the statements on concrete values; the flag is not vacuous                               *)

Import Coq.Strings.String.StringSyntax. Arguments b _%string_scope.

Definition chk_ex_pat (sch v : bytes) (port : Z) : pattern :=
  {| pscheme := sch; pvalue := v; pkind_of := KDomain; pport := port |}.
Definition chk_ex_orig (sch h : bytes) (port : Z) : origin :=
  {| oscheme := sch; ohost := {| hvalue := h; assume_ip := false |}; oport := port |}.
Definition chk_ex_ins (t : option (gnode * bool)) (p : pattern) : option (gnode * bool) :=
  match t with
  | Some (t, k) => match chk_Tree_Insert t p with Some (t', k') => Some (t', k && k') | None => None end
  | None => None
  end.
Definition chk_ex_pats : list pattern :=
  [ chk_ex_pat (b "https") (b "example.com") 0; chk_ex_pat (b "http") (b "*.example.com") 8080;
    chk_ex_pat (b "http") (b "example.org") 65536; chk_ex_pat (b "https") (b "*.foo.com") 65536;
    chk_ex_pat (b "http") (b "::1") 90; chk_ex_pat (b "http") (b "ample.com") 1;
    chk_ex_pat (b "https") (b "example.com") 443; chk_ex_pat (b "https") (b "xample.com") 443;
    chk_ex_pat (b "https") (b "example.com") 65536 ].

(* the checked Insert, Contains, Elems run with a true flag on a tree with split nodes, wildcards, an IPv6 host *)
Example chk_runs :
  match fold_left chk_ex_ins chk_ex_pats (Some (zero_gnode, true)) with
  | Some (t, k) =>
      k = true /\ fold_left (fun a p => match a with Some t => go_Tree_Insert t p | None => None end)
                    chk_ex_pats (Some zero_gnode) = Some t /\
      map (chk_Tree_Contains t) [chk_ex_orig (b "https") (b "example.com") 443; chk_ex_orig (b "http") (b "a.example.com") 8080;
                                 chk_ex_orig (b "https") (b "le.com") 443; chk_ex_orig (b "http") (b "") 1]
        = [Some (true, true); Some (true, true); Some (false, true); Some (false, true)] /\
      match chk_Tree_Elems t with Some (l, k') => k' = true /\ length l = 7 /\ go_Tree_Elems t = Some l | None => False end
  | None => False
  end.
Proof. vm_compute. repeat split; reflexivity. Qed.

(* the hypothesis on the pattern is needed: Tree.Insert reads s[0] *)
Example chk_insert_empty_value :
  chk_Tree_Insert zero_gnode (chk_ex_pat (b "https") [] 0) = Some (GNode [] [] [] [b "https"] [[0%Z]], false).
Proof. vm_compute. reflexivity. Qed.

(* the invariant is needed: with parallel slices of different lengths the flag reports the out-of-range index
   (n.ports[i] in node.contains, n.children[i] in Tree.Contains, n.schemes[i] in node.elems) *)
Example chk_flag_not_vacuous :
  chk_Tree_Contains (GNode [] [] [] [b "https"] []) (chk_ex_orig (b "https") [] 0) = Some (false, false) /\
  chk_Tree_Contains (GNode [] [109%N] [] [] []) (chk_ex_orig (b "https") (b "m") 0) = Some (false, false) /\
  chk_Tree_Elems (GNode [] [] [] [] [[0%Z]]) = Some ([b "://"], false).
Proof. vm_compute. repeat split; reflexivity. Qed.
