(* Proofs/AllSrcP.v -- the body of cfgerrors.All, as tools/genall translates it on every run (Gen/AllSrc.v: a term of the
   language of Model/AllRt.v), interpreted with the desugared meaning of range-over-func, computes exactly the
   hand-written model [all] of Model/CfgErrors.v: for every error tree, every consumer and every consumer state. *)
Require Import Base.Bytes Model.CfgErrors Model.AllRt Gen.AllSrc.

Theorem go_All_eq {A S} : forall (t : etree A) (yield : A -> S -> S * bool) s,
  run go_All_prog t yield s = all t yield s.
Proof.
  fix IH 1. intros [a|l] yield s.
  - cbn. destruct (yield a s) as [s' c]. destruct c; reflexivity.
  - cbn [run go_All_prog join_case default_case].
    cbn [all].
    assert (H : forall ts s0,
      (fix kids (ts : list (etree A)) (s : S) (ok : bool) {struct ts} : S * bool * bool :=
         match ts with
         | [] => (s, ok, false)
         | x :: rest =>
             let '(s1, ok1, ret1) := exec_child (run go_All_prog x) [CRangeAll [LIfNotYieldReturn]] yield s ok in
             if ret1 then (s1, ok1, true) else kids rest s1 ok1
         end) ts s0 true =
      let '(s', c) := (fix go (ts : list (etree A)) (s : S) : S * bool :=
         match ts with
         | [] => (s, true)
         | x :: r => match all x yield s with (s', true) => go r s' | (s', false) => (s', false) end
         end) ts s0 in (s', c, negb c)).
    { induction ts as [|x rest IHts]; intros s0; [reflexivity|].
      cbn [exec_child]. rewrite IH.
      replace (all x (fun (a : A) (s1 : S) => let '(s2, ok1, ret1) := exec_leaf [LIfNotYieldReturn] a yield s1 true in (s2, ok1 && negb ret1)) s0)
        with (all x yield s0).
      2:{ clear. revert s0. generalize dependent x. fix IH2 1. intros [a|l] s0.
          - cbn. destruct (yield a s0) as [s' c]. destruct c; reflexivity.
          - cbn [all]. revert s0. induction l as [|y l IHl]; intros s0; [reflexivity|].
            rewrite <- IH2. destruct (all y _ s0) as [s' [|]]; [apply IHl|reflexivity]. }
      destruct (all x yield s0) as [s' [|]].
      + apply IHts.
      + reflexivity. }
    rewrite H. destruct ((fix go (ts : list (etree A)) (s0 : S) : S * bool := match ts with [] => (s0, true) | x :: r => match all x yield s0 with (s', true) => go r s' | (s', false) => (s', false) end end) l s) as [s' c].
    destruct c; reflexivity.
Qed.
Print Assumptions go_All_eq.

(* what a counting consumer sees of the translated iterator *)
Definition go_yielded {A} (t : etree A) (k : Z) : list A * Z :=
  let '((seen, _, late), _) := run go_All_prog t kconsumer ([], k, 0%Z) in (rev seen, late).

Lemma go_yielded_eq {A} : forall (t : etree A) k, go_yielded t k = yielded t k.
Proof. intros. unfold go_yielded, yielded. rewrite go_All_eq. reflexivity. Qed.
