(* Proofs/Netip6GrammarP.v -- C13 with the IPv6 oracle instantiated by the executable model
   (Model/Netip6.v): the two side conditions on bracketed hosts, [g_ip6_min] and [g_ip6_max], follow
   from [g_valid], because a literal the model accepts in canonical form is the rendering of eight
   groups, which has 2..39 bytes (Proofs/Netip6P.v). *)
Require Import Base.Bytes Gen.Tables Model.Origins Model.Netip Model.Netip6 Model.Idna Model.Pattern Model.Radix
  Model.CfgErrors Model.Config Spec.Origins Proofs.RadixP Spec.Grammar Proofs.GrammarP Proofs.Netip6P.
From Coq Require Import ZifyBool ZifyNat ZifyN.
Open Scope N_scope.

Lemma g_valid_ip6_len ace g c :
  g_valid ace ip6_model g = true -> g_host g = GIPv6 c -> (2 <= length c <= 39)%nat.
Proof.
  unfold g_valid. intros H Hh. rewrite Hh in H. cbn [host_ok] in H.
  destruct (ip6_model c) as [| | |canon lb] eqn:E;
    try (rewrite !andb_false_r in H; cbn in H; discriminate).
  assert (Hc : beqb canon c = true).
  { destruct (beqb canon c); [reflexivity|]. rewrite !andb_false_r in H. cbn in H. discriminate. }
  apply Proofs.RadixP.beqb_eq in Hc. subst canon. exact (ip6_model_canon_len _ _ _ E).
Qed.

Lemma g_valid_ip6_min ace g : g_valid ace ip6_model g = true -> g_ip6_min g = true.
Proof.
  intros H. unfold g_ip6_min. destruct (g_host g) as [| |c] eqn:Hh; try reflexivity.
  pose proof (g_valid_ip6_len ace g c H Hh). lia.
Qed.

Lemma g_valid_ip6_max ace g : g_valid ace ip6_model g = true -> g_ip6_max g = true.
Proof.
  intros H. unfold g_ip6_max. destruct (g_host g) as [| |c] eqn:Hh; try reflexivity.
  pose proof (g_valid_ip6_len ace g c H Hh). lia.
Qed.

Theorem documented_forms_accepted_netip6 ace g :
  g_valid ace ip6_model g = true ->
  parse_pattern ace ip6_model (Spec.Grammar.render g) = inl (expected ip6_model g).
Proof. intros H. exact (documented_forms_accepted ace ip6_model g H (g_valid_ip6_min ace g H)). Qed.

Theorem self_match_netip6 ace g :
  g_valid ace ip6_model g = true -> g_wild g = false -> g_port g <> GAnyPort ->
  exists o, parse (Spec.Grammar.render g) = Some o /\
            tree_contains (tree_insert empty_tree (expected ip6_model g)) o = true.
Proof.
  intros H. exact (self_match ace ip6_model g H (g_valid_ip6_min ace g H) (g_valid_ip6_max ace g H)).
Qed.

(* every canonical text is a documented-valid bracketed host: "RFC 5952 canonical form" is no longer
   relative to an oracle *)
Import Coq.Strings.String.StringSyntax.
Arguments b _%string_scope.

Theorem canonical_ipv6_valid ace sch p gs :
  scheme_ok sch = true -> beqb sch (b "https") = false -> port_ok sch p = true ->
  length gs = 8%nat -> g16 gs -> is_4in6 gs = false ->
  g_valid ace ip6_model {| g_scheme := sch; g_wild := false; g_host := GIPv6 (render6 gs); g_port := p |} = true.
Proof.
  intros Hs Hh Hp H8 H16 H4. unfold g_valid. cbn [g_scheme g_wild g_host g_port host_ok].
  rewrite Hs, Hp, Hh, (r6_no_bracket _ (render6_r6 gs)), (r6_first_special _ (render6_r6 gs) (render6_colon gs H8)),
    (ip6_model_round_trip gs H8 H16 H4), Proofs.RadixP.beqb_refl.
  reflexivity.
Qed.

Theorem canonical_ipv6_accepted ace sch p gs :
  scheme_ok sch = true -> beqb sch (b "https") = false -> port_ok sch p = true ->
  length gs = 8%nat -> g16 gs -> is_4in6 gs = false ->
  let g := {| g_scheme := sch; g_wild := false; g_host := GIPv6 (render6 gs); g_port := p |} in
  parse_pattern ace ip6_model (Spec.Grammar.render g) = inl (expected ip6_model g).
Proof.
  intros Hs Hh Hp H8 H16 H4 g.
  exact (documented_forms_accepted_netip6 ace g (canonical_ipv6_valid ace sch p gs Hs Hh Hp H8 H16 H4)).
Qed.
