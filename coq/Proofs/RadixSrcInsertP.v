(* Proofs/RadixSrcInsertP.v -- the Gallina translation of Tree.Insert (Gen/RadixSrc.v, generated from
   internal/origins/radix.go) computes on every well-formed Go-layout tree what the hand-written model's
   [tree_insert] computes, never exhausts the translator's fuel, and preserves the invariant [gwf]. *)
Require Import Base.Bytes Gen.Tables Model.Origins Model.Pattern Model.Radix Model.UtilRt Model.LoopRt Model.RadixRt
  Gen.RadixSrc Proofs.RadixAbs Proofs.RadixP Proofs.RadixSrcHelpP.
Require Proofs.HeadersP.
From Coq Require Import Sorted ZifyBool ZifyNat ZifyN.
Local Open Scope nat_scope.

(* ------------------------------------------------------------------------------------------ *)
(* 1. lists: insertion at an index, assignment at an index                                     *)

Definition ins {A : Type} (i : nat) (x : A) (l : list A) : list A := firstn i l ++ x :: skipn i l.

Lemma ins_0 {A} (x : A) l : ins 0 x l = x :: l.
Proof. reflexivity. Qed.

Lemma ins_S {A} i (x a : A) l : ins (S i) x (a :: l) = a :: ins i x l.
Proof. reflexivity. Qed.

Lemma go_insert_nat {T} (z : T) : forall k l v, k <= length l ->
  list_set_nat
    (firstn (S k) (l ++ [z]) ++
     firstn (length (l ++ [z]) - S k) (skipn k (l ++ [z])) ++
     skipn (S k + length (firstn (length (l ++ [z]) - S k) (skipn k (l ++ [z])))) (l ++ [z])) k v
  = ins k v l.
Proof.
  induction k as [|k IH]; intros l v Hk.
  - destruct l as [|a l].
    + reflexivity.
    + cbn [app firstn skipn length list_set_nat Nat.sub plus]. rewrite Nat.sub_0_r.
      rewrite ins_0. f_equal.
      assert (E : firstn (length (l ++ [z])) (a :: l ++ [z]) = a :: l).
      { rewrite app_length. cbn [length]. change (a :: l ++ [z]) with ((a :: l) ++ [z]).
        replace (length l + 1) with (length (a :: l) + 0) by (cbn [length]; lia).
        rewrite firstn_app_2. cbn [firstn]. rewrite app_nil_r. reflexivity. }
      rewrite E. cbn [length]. rewrite skipn_all2; [apply app_nil_r|]. rewrite app_length. cbn [length]. lia.
  - destruct l as [|a l]; [cbn [length] in Hk; lia|].
    cbn [length] in Hk. specialize (IH l v ltac:(lia)).
    rewrite ins_S. rewrite <- IH. reflexivity.
Qed.

Lemma go_insert_spec {T} (z : T) l i v : (0 <= i <= Z.of_nat (length l))%Z ->
  go_insert z l i v = ins (Z.to_nat i) v l.
Proof.
  intros Hi. unfold go_insert, go_copy, list_set.
  replace (Z.to_nat (i + 1)) with (S (Z.to_nat i)) by lia.
  apply go_insert_nat. lia.
Qed.

Lemma length_ins {A} i (x : A) l : length (ins i x l) = S (length l).
Proof.
  unfold ins. rewrite app_length. cbn [length]. rewrite Nat.add_succ_r, <- app_length, firstn_skipn.
  reflexivity.
Qed.

Lemma length_set {A} : forall (l : list A) i x, length (list_set_nat l i x) = length l.
Proof. induction l as [|a l IH]; intros [|i] x; cbn; auto. Qed.

Lemma nth_ins {A} : forall i (x : A) l d, i <= length l -> nth i (ins i x l) d = x.
Proof.
  induction i as [|i IH]; intros x l d Hi; [reflexivity|].
  destruct l as [|a l]; [cbn in Hi; lia|]. rewrite ins_S. cbn [nth]. apply IH. cbn in Hi. lia.
Qed.

Lemma nth_set {A} : forall (l : list A) i x d, i < length l -> nth i (list_set_nat l i x) d = x.
Proof.
  induction l as [|a l IH]; intros [|i] x d Hi; cbn in *; try lia; [reflexivity|]. apply IH. lia.
Qed.

Lemma set_set {A} : forall (l : list A) i x y, list_set_nat (list_set_nat l i x) i y = list_set_nat l i y.
Proof. induction l as [|a l IH]; intros [|i] x y; cbn; auto. f_equal. apply IH. Qed.

Lemma set_nth_id {A} : forall (l : list A) i d, list_set_nat l i (nth i l d) = l.
Proof. induction l as [|a l IH]; intros [|i] d; cbn; auto. f_equal. apply IH. Qed.

Lemma map_ins {A B} (f : A -> B) i x l : map f (ins i x l) = ins i (f x) (map f l).
Proof. unfold ins. rewrite map_app, firstn_map. cbn [map]. rewrite skipn_map. reflexivity. Qed.

Lemma map_set {A B} (f : A -> B) : forall l i x, map f (list_set_nat l i x) = list_set_nat (map f l) i (f x).
Proof. induction l as [|a l IH]; intros [|i] x; cbn; auto. f_equal. apply IH. Qed.

Lemma Forall2_ins {A B} (P : A -> B -> Prop) x y : forall i a c,
  Forall2 P a c -> P x y -> Forall2 P (ins i x a) (ins i y c).
Proof.
  induction i as [|i IH]; intros a c H Hxy.
  - rewrite !ins_0. constructor; assumption.
  - destruct H as [|a0 c0 a c H0 H].
    + unfold ins. cbn. constructor; [assumption | constructor].
    + rewrite !ins_S. constructor; [assumption | apply IH; assumption].
Qed.

Lemma Forall2_set {A B} (P : A -> B -> Prop) y d : forall a c i,
  Forall2 P a c -> P (nth i a d) y -> Forall2 P a (list_set_nat c i y).
Proof.
  intros a c i H. revert i. induction H as [|a0 c0 a c H0 H IH]; intros i Hy.
  - constructor.
  - destruct i as [|i]; cbn in *; constructor; auto.
Qed.

Lemma Forall_ins {A} (P : A -> Prop) x : forall i l, Forall P l -> P x -> Forall P (ins i x l).
Proof.
  induction i as [|i IH]; intros l H Hx.
  - rewrite ins_0. constructor; assumption.
  - destruct H as [|a l Ha H].
    + unfold ins. cbn. constructor; [assumption | constructor].
    + rewrite ins_S. constructor; [assumption | apply IH; assumption].
Qed.

Lemma Forall_set {A} (P : A -> Prop) x : forall l i, Forall P l -> P x -> Forall P (list_set_nat l i x).
Proof.
  intros l i H. revert i. induction H as [|a l Ha H IH]; intros i Hx; [constructor|].
  destruct i as [|i]; cbn; constructor; auto.
Qed.

Lemma StronglySorted_rel {A} (R R' : A -> A -> Prop) l :
  (forall a c, R a c -> R' a c) -> StronglySorted R l -> StronglySorted R' l.
Proof.
  intros HR H. induction H as [|a l H IH Ha]; constructor; [exact IH|].
  eapply Forall_impl; [|exact Ha]. intros c. apply HR.
Qed.

(* ------------------------------------------------------------------------------------------ *)
(* 2. slices.BinarySearch on a strictly increasing slice of keys, and the sorted association    *)
(*    lists of the model (upsert, ents_put), generically in the key order                       *)

Section Keys.
  Variable K : Type.
  Variables ltb eqb : K -> K -> bool.
  Hypothesis eqb_eq : forall a c, eqb a c = true <-> a = c.
  Hypothesis ltb_irrefl : forall a, ltb a a = false.
  Hypothesis ltb_trans : forall a c d, ltb a c = true -> ltb c d = true -> ltb a d = true.
  Hypothesis ltb_total : forall a c, ltb a c = false -> eqb a c = false -> ltb c a = true.

  Definition ksorted : list K -> Prop := StronglySorted (fun a c => ltb a c = true).
  Definition kpos (c : K) (es : list K) : nat := length (filter (fun y => ltb y c) es).

  Fixpoint kmem (c : K) (es : list K) : bool :=
    match es with [] => false | y :: r => eqb c y || kmem c r end.

  Fixpoint kput {V : Type} (k : K) (v : V) (kvs : list (K * V)) : list (K * V) :=
    match kvs with
    | [] => [(k, v)]
    | (k', v') :: r =>
        if eqb k k' then (k, v) :: r else if ltb k k' then (k, v) :: kvs else (k', v') :: kput k v r
    end.

  Fixpoint kfind {V : Type} (k : K) (kvs : list (K * V)) : option V :=
    match kvs with
    | [] => None
    | (k', v') :: r => if eqb k k' then Some v' else kfind k r
    end.

  Lemma eqb_refl' a : eqb a a = true.
  Proof. apply eqb_eq. reflexivity. Qed.

  Lemma eqb_sym' a c : eqb a c = eqb c a.
  Proof. apply eq_true_iff_eq. rewrite !eqb_eq. split; congruence. Qed.

  Lemma ltb_asym a c : ltb a c = true -> ltb c a = false.
  Proof.
    intros H. destruct (ltb c a) eqn:E; [|reflexivity].
    rewrite <- (ltb_irrefl a). symmetry. eapply ltb_trans; eassumption.
  Qed.

  Lemma ltb_neq a c : ltb a c = true -> eqb c a = false.
  Proof.
    intros H. destruct (eqb c a) eqn:E; [|reflexivity]. apply eqb_eq in E. subst c.
    rewrite ltb_irrefl in H. discriminate.
  Qed.

  Lemma kpos_le c es : kpos c es <= length es.
  Proof.
    unfold kpos. induction es as [|e es IH]; cbn; [constructor|].
    destruct (ltb e c); cbn; [apply le_n_S | apply le_S]; exact IH.
  Qed.

  Lemma filter_above e c es : Forall (fun y => ltb e y = true) es -> ltb e c = false ->
    filter (fun y => ltb y c) es = [].
  Proof.
    intros H Hc. induction H as [|y es Hy H IH]; [reflexivity|]. cbn.
    destruct (ltb y c) eqn:E; [|exact IH]. rewrite (ltb_trans _ _ _ Hy E) in Hc. discriminate.
  Qed.

  Lemma kmem_above e c es : Forall (fun y => ltb e y = true) es -> kmem c es = true -> ltb e c = true.
  Proof.
    intros H. induction H as [|y es Hy H IH]; cbn; [discriminate|].
    destruct (eqb c y) eqn:E; [|exact IH]. apply eqb_eq in E. subst y. intros _. exact Hy.
  Qed.

  Lemma kput_notfound {V} : forall es (vs : list V) c x, length es = length vs -> ksorted es -> kmem c es = false ->
    kput c x (combine es vs) = combine (ins (kpos c es) c es) (ins (kpos c es) x vs).
  Proof.
    induction es as [|e es IH]; intros vs c x Hl Hs Hm; destruct vs as [|v vs]; try discriminate Hl.
    - reflexivity.
    - cbn [kmem] in Hm. apply orb_false_iff in Hm. destruct Hm as [Hce Hm].
      inversion Hs as [|? ? Hs' Hall]; subst. injection Hl as Hl.
      unfold kpos. cbn [filter]. destruct (ltb e c) eqn:E.
      + cbn [length]. rewrite !ins_S. cbn [combine kput]. rewrite Hce, (ltb_asym _ _ E).
        f_equal. apply IH; assumption.
      + rewrite (filter_above e c es Hall E). cbn [length]. rewrite !ins_0. cbn [combine kput].
        rewrite Hce. rewrite (ltb_total e c E) by (rewrite eqb_sym'; exact Hce). reflexivity.
  Qed.

  Lemma ksorted_ins : forall es c, ksorted es -> kmem c es = false -> ksorted (ins (kpos c es) c es).
  Proof.
    induction es as [|e es IH]; intros c Hs Hm.
    - cbn. constructor; constructor.
    - cbn [kmem] in Hm. apply orb_false_iff in Hm. destruct Hm as [Hce Hm].
      inversion Hs as [|? ? Hs' Hall]; subst.
      unfold kpos. cbn [filter]. destruct (ltb e c) eqn:E.
      + cbn [length]. rewrite ins_S. constructor; [apply IH; assumption|].
        apply Forall_ins; assumption.
      + rewrite (filter_above e c es Hall E). cbn [length]. rewrite ins_0.
        assert (Hc : ltb c e = true) by (apply ltb_total; [exact E | rewrite eqb_sym'; exact Hce]).
        constructor; [exact Hs|]. constructor; [exact Hc|].
        eapply Forall_impl; [|exact Hall]. intros y Hy. cbn beta in *. eapply ltb_trans; eassumption.
  Qed.

  Lemma kfound {V} : forall es (vs : list V) c x d dv, length es = length vs -> ksorted es -> kmem c es = true ->
    kpos c es < length es /\ nth (kpos c es) es d = c /\
    kput c x (combine es vs) = combine es (list_set_nat vs (kpos c es) x) /\
    kfind c (combine es vs) = Some (nth (kpos c es) vs dv).
  Proof.
    induction es as [|e es IH]; intros vs c x d dv Hl Hs Hm; destruct vs as [|v vs]; try discriminate Hl.
    - discriminate Hm.
    - inversion Hs as [|? ? Hs' Hall]; subst. injection Hl as Hl.
      cbn [kmem] in Hm. unfold kpos. cbn [filter]. destruct (eqb c e) eqn:Ece.
      + apply eqb_eq in Ece. subst e. rewrite ltb_irrefl.
        rewrite (filter_above c c es Hall (ltb_irrefl c)). cbn [length nth list_set_nat combine kput kfind].
        rewrite eqb_refl'. repeat split. apply Nat.lt_0_succ.
      + cbn [orb] in Hm. pose proof (kmem_above e c es Hall Hm) as E. rewrite E.
        destruct (IH vs c x d dv Hl Hs' Hm) as (H1 & H2 & H3 & H4). fold (kpos c es).
        cbn [length nth list_set_nat combine kput kfind]. rewrite Ece, (ltb_asym _ _ E).
        repeat split; [apply -> Nat.succ_lt_mono; exact H1 | exact H2 | f_equal; exact H3 | exact H4].
  Qed.

  Lemma knotfound_find {V} : forall es (vs : list V) c, kmem c es = false -> kfind c (combine es vs) = None.
  Proof.
    induction es as [|e es IH]; intros vs c Hm; destruct vs as [|v vs]; try reflexivity.
    cbn [kmem] in Hm. apply orb_false_iff in Hm. destruct Hm as [Hce Hm].
    cbn [combine kfind]. rewrite Hce. apply IH, Hm.
  Qed.
End Keys.

(* ---------- the instance for edge labels (N) ---------- *)

Lemma Nltb_trans_k a c d : (a <? c)%N = true -> (c <? d)%N = true -> (a <? d)%N = true.
Proof. lia. Qed.
Lemma Nltb_total_k a c : (a <? c)%N = false -> (a =? c)%N = false -> (c <? a)%N = true.
Proof. lia. Qed.

Lemma memN_kmem c l : memN c l = kmem N N.eqb c l.
Proof. induction l as [|y l IH]; cbn; [reflexivity|]. rewrite IH. reflexivity. Qed.

Lemma upsert_kput l ch ks : upsert l ch ks = kput N N.ltb N.eqb l ch ks.
Proof.
  induction ks as [|[l' c'] r IH]; cbn; [reflexivity|]. rewrite IH. reflexivity.
Qed.

Lemma find_kid_kfind c ks : find_kid c ks = kfind N N.eqb c ks.
Proof.
  induction ks as [|[l' c'] r IH]; cbn; [reflexivity|]. rewrite IH, (N.eqb_sym l' c). reflexivity.
Qed.

Lemma bsearch_N l e : slices_BinarySearch_N l e = (Z.of_nat (kpos N N.ltb e l), memN e l).
Proof. reflexivity. Qed.

Lemma sortedN_ksorted es : StronglySorted N.lt es <-> ksorted N N.ltb es.
Proof. split; apply StronglySorted_rel; intros a c; lia. Qed.

(* ---------- the instance for schemes (byte strings in Go's string order) ---------- *)

Lemma bltb_irrefl_k a : bltb a a = false.
Proof. unfold bltb. rewrite HeadersP.bcmp_refl. reflexivity. Qed.

Lemma bltb_trans_k a c d : bltb a c = true -> bltb c d = true -> bltb a d = true.
Proof. apply HeadersP.blt_trans. Qed.

Lemma bltb_total_k a c : bltb a c = false -> beqb a c = false -> bltb c a = true.
Proof.
  unfold bltb. intros H1 H2. rewrite (HeadersP.bcmp_antisym a c).
  destruct (bcmp a c) eqn:E; [|discriminate|reflexivity].
  apply HeadersP.bcmp_eq in E. subst c. rewrite beqb_refl in H2. discriminate.
Qed.

Lemma mem_kmem c l : mem c l = kmem bytes beqb c l.
Proof. induction l as [|y l IH]; cbn; [reflexivity|]. rewrite IH. reflexivity. Qed.

Lemma ents_put_kput sch ps e : ents_put sch ps e = kput bytes bltb beqb sch ps e.
Proof. induction e as [|[s q] r IH]; cbn; [reflexivity|]. rewrite IH. reflexivity. Qed.

Lemma ents_find_kfind sch e : ents_find sch e = kfind bytes beqb sch e.
Proof. induction e as [|[s q] r IH]; cbn; [reflexivity|]. rewrite IH. reflexivity. Qed.

Lemma bsearch_bytes l e : slices_BinarySearch l e = (Z.of_nat (kpos bytes bltb e l), mem e l).
Proof. reflexivity. Qed.

(* ---------- port lists ---------- *)

Lemma filter_all {A} (f : A -> bool) l : Forall (fun x => f x = true) l -> filter f l = l.
Proof. intros H. induction H as [|x l Hx H IH]; cbn; [reflexivity|]. rewrite Hx, IH. reflexivity. Qed.

Lemma filter_none {A} (f : A -> bool) l : Forall (fun x => f x = false) l -> filter f l = [].
Proof. intros H. induction H as [|x l Hx H IH]; cbn; [reflexivity|]. rewrite Hx, IH. reflexivity. Qed.

Lemma sorted_filter {A} (R : A -> A -> Prop) f l : StronglySorted R l -> StronglySorted R (filter f l).
Proof.
  intros H. induction H as [|a l H IH Ha]; cbn; [constructor|].
  destruct (f a); [|exact IH]. constructor; [exact IH|].
  rewrite Forall_forall in *. intros x Hx. apply filter_In in Hx. apply Ha, Hx.
Qed.

Lemma go_deleteSameSign_spec s v : StronglySorted Z.le s -> go_deleteSameSign s v = delete_same_sign s v.
Proof.
  intros Hs. unfold go_deleteSameSign, delete_same_sign, slices_BinarySearch_Z. rewrite Nat2Z.id.
  assert (H : firstn (length (filter (fun x => (x <? 0)%Z) s)) s = filter (fun x => (x <? 0)%Z) s /\
              skipn (length (filter (fun x => (x <? 0)%Z) s)) s = filter (fun x => (0 <=? x)%Z) s).
  { induction Hs as [|a l Hs IH Ha]; [split; reflexivity|]. cbn [filter].
    destruct (a <? 0)%Z eqn:E.
    - replace (0 <=? a)%Z with false by lia. cbn [length firstn skipn]. destruct IH as [IH1 IH2].
      split; [f_equal; exact IH1 | exact IH2].
    - replace (0 <=? a)%Z with true by lia.
      rewrite (filter_none (fun x => (x <? 0)%Z) l), (filter_all (fun x => (0 <=? x)%Z) l).
      + split; reflexivity.
      + eapply Forall_impl; [|exact Ha]. intros x Hx. cbn beta. lia.
      + eapply Forall_impl; [|exact Ha]. intros x Hx. cbn beta. lia. }
  destruct H as [H1 H2]. destruct (v <? 0)%Z; assumption.
Qed.

Lemma insert_sortedZ_comm a c : forall l,
  insert_sortedZ a (insert_sortedZ c l) = insert_sortedZ c (insert_sortedZ a l).
Proof.
  induction l as [|y l IH].
  - cbn. destruct (a <=? c)%Z eqn:E1, (c <=? a)%Z eqn:E2; try reflexivity; try lia.
    assert (a = c) by lia. subst. reflexivity.
  - cbn [insert_sortedZ]. destruct (c <=? y)%Z eqn:E1, (a <=? y)%Z eqn:E2; cbn [insert_sortedZ];
      rewrite ?E1, ?E2.
    + destruct (a <=? c)%Z eqn:E3, (c <=? a)%Z eqn:E4; try reflexivity; try lia.
      assert (a = c) by lia. subst. reflexivity.
    + replace (a <=? c)%Z with false by lia. reflexivity.
    + replace (c <=? a)%Z with false by lia. reflexivity.
    + f_equal. exact IH.
Qed.

Lemma insert_sortedZ_head a l : StronglySorted Z.le (a :: l) -> insert_sortedZ a l = a :: l.
Proof.
  intros H. inversion H as [|? ? _ Ha]; subst. destruct l as [|y l]; [reflexivity|].
  cbn. inversion Ha; subst. replace (a <=? y)%Z with true by lia. reflexivity.
Qed.

Lemma slices_Sort_Z_snoc x ps : StronglySorted Z.le ps -> slices_Sort_Z (ps ++ [x]) = insert_sortedZ x ps.
Proof.
  unfold slices_Sort_Z. intros H. rewrite fold_right_app. cbn [fold_right insert_sortedZ].
  induction H as [|a l H IH Ha]; [reflexivity|].
  cbn [fold_right]. rewrite IH, insert_sortedZ_comm. f_equal.
  rewrite insert_sortedZ_head; [reflexivity | constructor; assumption].
Qed.

Lemma sorted_insert_sortedZ x ps : StronglySorted Z.le ps -> StronglySorted Z.le (insert_sortedZ x ps).
Proof.
  intros H. induction H as [|a l H IH Ha]; cbn.
  - constructor; constructor.
  - destruct (x <=? a)%Z eqn:E.
    + constructor; [constructor; assumption|]. constructor; [lia|].
      eapply Forall_impl; [|exact Ha]. intros y Hy. cbn beta in *. lia.
    + constructor; [exact IH|].
      assert (Hin : forall y, In y (insert_sortedZ x l) -> y = x \/ In y l).
      { clear. induction l as [|z l IH]; cbn; intros y Hy.
        - destruct Hy as [Hy|[]]; auto.
        - destruct (x <=? z)%Z; cbn in Hy; [destruct Hy as [Hy|[Hy|Hy]]; auto|].
          destruct Hy as [Hy|Hy]; auto. destruct (IH _ Hy); auto. }
      rewrite Forall_forall in *. intros y Hy. destruct (Hin _ Hy) as [->|Hy']; [lia | apply Ha, Hy'].
Qed.

(* ------------------------------------------------------------------------------------------ *)
(* 3. node.add and node.upsertEdge                                                             *)

Definition blt_rel (a c : bytes) : Prop := bltb a c = true.

Lemma go_node_add_unfold n sch port w :
  go_node_add n sch port w =
  let port' := shift w port in
  let wp := shift w origins_wildcardPort in
  if go_node_contains n sch port' w then n
  else
    let '(i, found) := slices_BinarySearch (g_schemes n) sch in
    if negb found then
      set_g_ports (set_g_schemes n (go_insert ([] : bytes) (g_schemes n) i sch))
        (go_insert ([] : list Z) (g_ports (set_g_schemes n (go_insert ([] : bytes) (g_schemes n) i sch))) i [port'])
    else
      let ps := nth (Z.to_nat i) (g_ports n) ([] : list Z) in
      let ps1 := if (port' =? wp)%Z then go_deleteSameSign ps port' else ps in
      set_g_ports n (list_set (g_ports n) i (slices_Sort_Z (ps1 ++ [port']))).
Proof. destruct w; reflexivity. Qed.

Lemma Forall_nth {A} (P : A -> Prop) l i d : Forall P l -> P d -> P (nth i l d).
Proof.
  intros H Hd. revert i. induction H as [|a l Ha H IH]; intros [|i]; cbn; auto.
Qed.

Lemma go_node_add_spec suf e c schemes ports sch port w :
  length schemes = length ports ->
  StronglySorted (fun a c => bltb a c = true) schemes ->
  Forall (StronglySorted Z.le) ports ->
  exists schemes' ports',
    go_node_add (GNode suf e c schemes ports) sch port w = GNode suf e c schemes' ports' /\
    combine schemes' ports' = ents_add (combine schemes ports) sch port w /\
    length schemes' = length ports' /\
    StronglySorted (fun a c => bltb a c = true) schemes' /\
    Forall (StronglySorted Z.le) ports'.
Proof.
  intros Hl Hs Hp. rewrite go_node_add_unfold. cbv zeta.
  rewrite (go_node_contains_spec _ _ _ _ _ _ _ _ Hl Hs Hp). unfold ents_add.
  destruct (ents_contains (combine schemes ports) sch (shift w port) w).
  { exists schemes, ports. repeat split; assumption. }
  cbn [g_schemes g_ports set_g_schemes set_g_ports]. rewrite bsearch_bytes.
  set (k := kpos bytes bltb sch schemes).
  assert (Hk : k <= length schemes) by apply kpos_le.
  rewrite ents_find_kfind, mem_kmem.
  destruct (kmem bytes beqb sch schemes) eqn:Em; cbn [negb].
  - (* the scheme is there: replace its port list *)
    destruct (kfound bytes bltb beqb beqb_true_iff bltb_irrefl_k bltb_trans_k schemes ports sch
                (@nil Z) (@nil N) (@nil Z) Hl Hs Em) as (H1 & _ & _ & H4).
    fold k in H1, H4. rewrite H4. rewrite Nat2Z.id.
    set (ps := nth k ports []).
    assert (Hps : StronglySorted Z.le ps) by (apply Forall_nth; [exact Hp | constructor]).
    set (ps1 := if (shift w port =? shift w origins_wildcardPort)%Z then delete_same_sign ps (shift w port) else ps).
    assert (E1 : (if (shift w port =? shift w origins_wildcardPort)%Z then go_deleteSameSign ps (shift w port) else ps) = ps1).
    { unfold ps1. destruct (shift w port =? shift w origins_wildcardPort)%Z; [apply go_deleteSameSign_spec, Hps | reflexivity]. }
    rewrite E1.
    assert (Hps1 : StronglySorted Z.le ps1).
    { unfold ps1. destruct (shift w port =? shift w origins_wildcardPort)%Z; [|exact Hps].
      unfold delete_same_sign. destruct (shift w port <? 0)%Z; apply sorted_filter, Hps. }
    rewrite (slices_Sort_Z_snoc _ _ Hps1). unfold list_set. rewrite Nat2Z.id.
    exists schemes, (list_set_nat ports k (insert_sortedZ (shift w port) ps1)).
    split; [reflexivity|]. split.
    { rewrite ents_put_kput.
      destruct (kfound bytes bltb beqb beqb_true_iff bltb_irrefl_k bltb_trans_k schemes ports sch
                  (insert_sortedZ (shift w port) ps1) (@nil N) (@nil Z) Hl Hs Em) as (_ & _ & H3 & _).
      symmetry. exact H3. }
    split; [rewrite length_set; exact Hl|]. split; [exact Hs|].
    apply Forall_set; [exact Hp | apply sorted_insert_sortedZ, Hps1].
  - (* a new scheme *)
    rewrite (knotfound_find bytes beqb schemes ports sch Em).
    rewrite !go_insert_spec by lia. rewrite Nat2Z.id.
    exists (ins k sch schemes), (ins k [shift w port] ports).
    split; [reflexivity|]. split.
    { rewrite ents_put_kput. symmetry.
      apply (kput_notfound bytes bltb beqb beqb_true_iff bltb_irrefl_k bltb_trans_k bltb_total_k); assumption. }
    split; [rewrite !length_ins; congruence|]. split.
    { apply (ksorted_ins bytes bltb beqb beqb_true_iff bltb_trans_k bltb_total_k); assumption. }
    apply Forall_ins; [exact Hp | constructor; constructor].
Qed.

Lemma go_node_upsertEdge_found suf edges children schemes ports l ch :
  memN l edges = true ->
  go_node_upsertEdge (GNode suf edges children schemes ports) l ch =
  (GNode suf edges (list_set_nat children (kpos N N.ltb l edges) ch) schemes ports,
   Z.of_nat (kpos N N.ltb l edges)).
Proof.
  intros H. unfold go_node_upsertEdge. cbn [g_edges g_children set_g_children]. rewrite bsearch_N, H.
  cbn [negb]. unfold list_set. rewrite Nat2Z.id. reflexivity.
Qed.

Lemma go_node_upsertEdge_spec suf edges children schemes ports l ch :
  length edges = length children -> StronglySorted N.lt edges ->
  exists edges' children' i,
    go_node_upsertEdge (GNode suf edges children schemes ports) l ch =
      (GNode suf edges' children' schemes ports, Z.of_nat i) /\
    combine edges' (map abs children') = upsert l (abs ch) (combine edges (map abs children)) /\
    i < length edges' /\ nth i children' zero_gnode = ch /\ nth i edges' 0%N = l /\
    length edges' = length children' /\ StronglySorted N.lt edges' /\
    (forall P : N -> gnode -> Prop, Forall2 P edges children -> P l ch -> Forall2 P edges' children').
Proof.
  intros Hl Hs. pose proof (proj1 (sortedN_ksorted edges) Hs) as Hks.
  set (k := kpos N N.ltb l edges).
  assert (Hlm : length edges = length (map abs children)) by (rewrite map_length; exact Hl).
  destruct (memN l edges) eqn:Em.
  - rewrite (go_node_upsertEdge_found _ _ _ _ _ _ _ Em). fold k.
    rewrite memN_kmem in Em.
    destruct (kfound N N.ltb N.eqb N.eqb_eq N.ltb_irrefl Nltb_trans_k edges (map abs children) l (abs ch)
                0%N (abs zero_gnode) Hlm Hks Em) as (H1 & H2 & H3 & _).
    fold k in H1, H2, H3.
    exists edges, (list_set_nat children k ch), k.
    split; [reflexivity|]. split; [rewrite map_set, upsert_kput; symmetry; exact H3|].
    split; [exact H1|]. split; [apply nth_set; lia|]. split; [exact H2|].
    split; [rewrite length_set; exact Hl|]. split; [exact Hs|].
    intros P HP Hch. apply (Forall2_set P ch 0%N); [exact HP | rewrite H2; exact Hch].
  - unfold go_node_upsertEdge. cbn [g_edges g_children set_g_children set_g_edges]. rewrite bsearch_N, Em.
    cbn [negb]. fold k. assert (Hk : k <= length edges) by apply kpos_le.
    rewrite !go_insert_spec by lia. rewrite Nat2Z.id.
    rewrite memN_kmem in Em.
    exists (ins k l edges), (ins k ch children), k.
    split; [reflexivity|]. split.
    { rewrite map_ins, upsert_kput. symmetry.
      apply (kput_notfound N N.ltb N.eqb N.eqb_eq N.ltb_irrefl Nltb_trans_k Nltb_total_k); assumption. }
    split; [rewrite length_ins; lia|]. split; [apply nth_ins; lia|]. split; [apply nth_ins; lia|].
    split; [rewrite !length_ins; congruence|]. split.
    { apply sortedN_ksorted. apply (ksorted_ins N N.ltb N.eqb N.eqb_eq Nltb_trans_k Nltb_total_k); assumption. }
    intros P HP Hch. apply Forall2_ins; assumption.
Qed.

(* ------------------------------------------------------------------------------------------ *)
(* 4. pointers into the tree                                                                   *)

Fixpoint gvalid (t : gnode) (p : gpath) : Prop :=
  match p with
  | [] => True
  | i :: r => i < length (g_children t) /\ gvalid (nth i (g_children t) zero_gnode) r
  end.

Lemma gget_app : forall p t q, gget t (p ++ q) = gget (gget t p) q.
Proof. induction p as [|i r IH]; intros t q; cbn [app gget]; [reflexivity | apply IH]. Qed.

Lemma gset_app : forall p t q v, gset t (p ++ q) v = gset t p (gset (gget t p) q v).
Proof.
  induction p as [|i r IH]; intros t q v; cbn [app gget gset]; [reflexivity|]. rewrite IH. reflexivity.
Qed.

Lemma gget_gset : forall p t v, gvalid t p -> gget (gset t p v) p = v.
Proof.
  induction p as [|i r IH]; intros t v H; [reflexivity|]. destruct H as [H1 H2].
  destruct t as [a e c s q]. cbn [gset gget g_children set_g_children] in *.
  rewrite nth_set by exact H1. apply IH, H2.
Qed.

Lemma gset_gset : forall p t a c, gvalid t p -> gset (gset t p a) p c = gset t p c.
Proof.
  induction p as [|i r IH]; intros t a c H; [reflexivity|]. destruct H as [H1 H2].
  destruct t as [a0 e ch s q]. cbn [gset gget g_children set_g_children] in *.
  rewrite nth_set by exact H1. rewrite set_set, IH by exact H2. reflexivity.
Qed.

Lemma gset_gget_id : forall p t, gset t p (gget t p) = t.
Proof.
  induction p as [|i r IH]; intros t; [reflexivity|]. cbn [gset gget]. rewrite IH, set_nth_id.
  destruct t; reflexivity.
Qed.

Lemma gvalid_snoc : forall p t i, gvalid t p -> i < length (g_children (gget t p)) -> gvalid t (p ++ [i]).
Proof.
  induction p as [|j r IH]; intros t i H Hi; cbn [app gvalid gget] in *; [split; [exact Hi | exact I]|].
  destruct H as [H1 H2]. split; [exact H1 | apply IH; assumption].
Qed.

Lemma gget_gset_app t p v q : gvalid t p -> gget (gset t p v) (p ++ q) = gget v q.
Proof. intros H. rewrite gget_app, gget_gset by exact H. reflexivity. Qed.

Lemma gset_gset_app t p v q u : gvalid t p -> gset (gset t p v) (p ++ q) u = gset t p (gset v q u).
Proof. intros H. rewrite gset_app, gget_gset, gset_gset by exact H. reflexivity. Qed.

(* ------------------------------------------------------------------------------------------ *)
(* 5. the loop of Tree.Insert                                                                  *)

(* the body of the generated loop, verbatim *)
Definition ins_body (sch : bytes) (port : Z) (w : bool) : gnode * bytes * gpath -> ctl (gnode * bytes * gpath) gnode :=
  (fun '(v_t, v_s, v_n) =>
      if true then (
        let '(v_labelToChild, v_ok) := go_lastByte v_s in
            if (negb v_ok) then (
        let r_node := go_node_add (gget v_t v_n) sch port w in
        let v_t := gset v_t v_n r_node in
        (Ret v_t))
      else (
        if (go_node_contains (gget v_t v_n) sch port true) then (
          (Ret v_t))
        else (
          let '(v_i, v_found) := slices_BinarySearch_N (g_edges (gget v_t v_n)) v_labelToChild in
          if (negb v_found) then (
            let v_child := (GNode v_s ([] : list N) ([] : list gnode) ([] : list bytes) ([] : list (list Z))) in
            let v_child := go_node_add v_child sch port w in
            let '(r_node, _) := go_node_upsertEdge (gget v_t v_n) v_labelToChild v_child in
            let v_t := gset v_t v_n r_node in
            (Ret v_t))
          else (
            let v_child := gchild v_n v_i in
            match go_splitAtCommonSuffix v_s (g_suf (gget v_t v_child)) with
            | None => Exh
            | Some (v_prefixOfS, v_prefixOfChildSuf, v_suf) =>
                            let '(v_labelToGrandChild1, v_ok) := go_lastByte v_prefixOfChildSuf in
                            if (negb v_ok) then (
                let v_s := v_prefixOfS in
                let v_n := v_child in
                (Next (v_t, v_s, v_n)))
              else (
                let v_grandChild1 := (GNode v_prefixOfChildSuf (g_edges (gget v_t v_child)) (g_children (gget v_t v_child)) (g_schemes (gget v_t v_child)) (g_ports (gget v_t v_child))) in
                let '(r_node, r_idx) := go_node_upsertEdge (gget v_t v_n) v_labelToChild (GNode v_suf ([] : list N) ([] : list gnode) ([] : list bytes) ([] : list (list Z))) in
                let v_t := gset v_t v_n r_node in
                let v_child := gchild v_n r_idx in
                let '(r_node, _) := go_node_upsertEdge (gget v_t v_child) v_labelToGrandChild1 v_grandChild1 in
                let v_t := gset v_t v_child r_node in
                let '(v_labelToGrandChild2, v_ok) := go_lastByte v_prefixOfS in
                                if (negb v_ok) then (
                  let r_node := go_node_add (gget v_t v_child) sch port w in
                  let v_t := gset v_t v_child r_node in
                  (Ret v_t))
                else (
                  let v_grandChild2 := (GNode v_prefixOfS ([] : list N) ([] : list gnode) ([] : list bytes) ([] : list (list Z))) in
                  let v_grandChild2 := go_node_add v_grandChild2 sch port w in
                  let '(r_node, _) := go_node_upsertEdge (gget v_t v_child) v_labelToGrandChild2 v_grandChild2 in
                  let v_t := gset v_t v_child r_node in
                  (Ret v_t)))
            end))))
      else (Brk (v_t, v_s, v_n))).

Lemma go_Tree_Insert_unfold t p :
  go_Tree_Insert t p =
  let w := N.eqb (nth 0 (pvalue p) 0%N) 42%N in
  let s := if w then skipn 1 (pvalue p) else pvalue p in
  match loop_n (S (length s)) (ins_body (pscheme p) (pport p) w) (t, s, []) with
  | Done _ => None
  | Returned r => Some r
  | Exhausted => None
  end.
Proof.
  unfold go_Tree_Insert, ins_body. cbv zeta. destruct (N.eqb (nth (Z.to_nat 0) (pvalue p) 0%N) 42%N) eqn:E;
    change (Z.to_nat 0) with 0 in *; rewrite E.
  - destruct (loop_n _ _ _) as [[[? ?] ?]| |]; reflexivity.
  - destruct (loop_n _ _ _) as [[[? ?] ?]| |]; reflexivity.
Qed.

(* a step through the pointer p into t is the same step from the root of the subtree at p, written back at p *)
Definition lift (t : gnode) (p : gpath) (c : ctl (gnode * bytes * gpath) gnode) : ctl (gnode * bytes * gpath) gnode :=
  match c with
  | Next (_, s', q) => Next (t, s', p ++ q)
  | Brk x => Brk x
  | Ret n' => Ret (gset t p n')
  | Exh => Exh
  end.

Lemma ins_body_local sch port w t s p : gvalid t p ->
  ins_body sch port w (t, s, p) = lift t p (ins_body sch port w (gget t p, s, [])).
Proof.
  intros Hv. unfold ins_body, gchild. cbv zeta. cbn [gget gset app].
  destruct (go_lastByte s) as [c ok]. destruct ok; cbn [negb]; [|reflexivity].
  destruct (go_node_contains (gget t p) sch port true); [cbn [lift]; rewrite gset_gget_id; reflexivity|].
  destruct (slices_BinarySearch_N (g_edges (gget t p)) c) as [i found]. destruct found; cbn [negb].
  2:{ destruct (go_node_upsertEdge _ _ _) as [r ?]. reflexivity. }
  rewrite !gget_app. cbn [gget].
  destruct (go_splitAtCommonSuffix _ _) as [[[pS pC] com]|]; [|reflexivity].
  destruct (go_lastByte pC) as [l1 ok1]. destruct ok1; cbn [negb]; [|reflexivity].
  destruct (go_node_upsertEdge (gget t p) c _) as [r1 idx].
  rewrite ?(gget_gset_app t p _ _ Hv). cbn [gget].
  destruct (go_node_upsertEdge _ l1 _) as [r2 ?].
  rewrite ?(gset_gset_app t p _ _ _ Hv).
  destruct (go_lastByte pS) as [l2 ok2]. destruct ok2; cbn [negb].
  - rewrite ?(gget_gset_app t p _ _ Hv).
    destruct (go_node_upsertEdge _ l2 _) as [r3 ?].
    rewrite ?(gset_gset_app t p _ _ _ Hv). reflexivity.
  - rewrite ?(gget_gset_app t p _ _ Hv). rewrite ?(gset_gset_app t p _ _ _ Hv). reflexivity.
Qed.

(* ---------- node-level facts in the form the loop needs ---------- *)

Lemma abs_unfold g :
  abs g = Node (rev (g_suf g)) (combine (g_edges g) (map abs (g_children g))) (combine (g_schemes g) (g_ports g)).
Proof. destruct g; reflexivity. Qed.

Lemma node_add_ok n sch port w : gwf n ->
  exists schemes' ports',
    go_node_add n sch port w = GNode (g_suf n) (g_edges n) (g_children n) schemes' ports' /\
    combine schemes' ports' = ents_add (combine (g_schemes n) (g_ports n)) sch port w /\
    gwf (GNode (g_suf n) (g_edges n) (g_children n) schemes' ports').
Proof.
  destruct n as [suf edges children schemes ports]. intros H.
  apply gwf_inv in H. destruct H as (Hl & Hl2 & Hse & Hss & Hp & Hf).
  destruct (go_node_add_spec suf edges children schemes ports sch port w Hl2 Hss Hp)
    as (schemes' & ports' & E & Hc & Hl' & Hs' & Hp').
  exists schemes', ports'. cbn [g_suf g_edges g_children g_schemes g_ports].
  split; [exact E|]. split; [exact Hc|]. constructor; assumption.
Qed.

Lemma upsert_node_ok n c X : gwf n -> last_byte (g_suf X) = (c, true) -> gwf X ->
  exists edges' children',
    fst (go_node_upsertEdge n c X) = GNode (g_suf n) edges' children' (g_schemes n) (g_ports n) /\
    combine edges' (map abs children') = upsert c (abs X) (combine (g_edges n) (map abs (g_children n))) /\
    gwf (GNode (g_suf n) edges' children' (g_schemes n) (g_ports n)).
Proof.
  destruct n as [suf edges children schemes ports]. intros H HX1 HX2.
  apply gwf_inv in H. destruct H as (Hl & Hl2 & Hse & Hss & Hp & Hf).
  destruct (go_node_upsertEdge_spec suf edges children schemes ports c X Hl Hse)
    as (edges' & children' & i & E & Hc & _ & _ & _ & Hl' & Hs' & HF).
  exists edges', children'. cbn [g_suf g_edges g_children g_schemes g_ports]. rewrite E.
  split; [reflexivity|]. split; [exact Hc|]. constructor; try assumption.
  apply HF; [exact Hf | split; assumption].
Qed.

Lemma labels_gt_combine l : forall es (vs : list node), Forall (N.lt l) es -> labels_gt l (combine es vs).
Proof.
  intros es vs H. revert vs. induction H as [|e es He H IH]; intros [|v vs]; cbn [combine]; try constructor.
  - exact He.
  - apply IH.
Qed.

Lemma lab_sorted_combine : forall es (vs : list node), StronglySorted N.lt es -> lab_sorted (combine es vs).
Proof.
  intros es vs H. revert vs. induction H as [|e es H IH He]; intros [|v vs]; cbn [combine lab_sorted]; try exact I.
  split; [apply labels_gt_combine, He | apply IH].
Qed.

Lemma insert_kids_upsert f c : forall ks, lab_sorted ks ->
  insert_kids f c ks = upsert c (f (find_kid c ks)) ks.
Proof.
  induction ks as [|[l ch] r IH]; intros Hs; [reflexivity|]. destruct Hs as [Hgt Hs].
  cbn [insert_kids upsert find_kid]. destruct (c <? l)%N eqn:E1.
  - replace (l =? c)%N with false by lia. replace (c =? l)%N with false by lia.
    rewrite (find_kid_gt c l r Hgt) by lia. reflexivity.
  - destruct (c =? l)%N eqn:E2.
    + rewrite (N.eqb_sym l c), E2. assert (c = l) by lia. subst l. reflexivity.
    + rewrite (N.eqb_sym l c), E2. rewrite IH by exact Hs. reflexivity.
Qed.

Lemma insert_upsert a kids ents c rs sch port w :
  lab_sorted kids -> ents_contains ents sch port true = false ->
  insert (Node a kids ents) (c :: rs) sch port w =
  Node a (upsert c (ins_child sch port w (c :: rs) (find_kid c kids)) kids) ents.
Proof. intros Hs He. rewrite insert_eq, He, insert_kids_upsert by exact Hs. reflexivity. Qed.

Lemma last_byte_rev l : last_byte (rev l) = match l with [] => (0%N, false) | c :: _ => (c, true) end.
Proof. unfold last_byte. rewrite rev_involutive. reflexivity. Qed.

Lemma upsertEdge_bare a s p l x :
  go_node_upsertEdge (GNode a [] [] s p) l x = (GNode a [l] [x] s p, 0%Z).
Proof. reflexivity. Qed.

Definition ins_post (sch : bytes) (port : Z) (w : bool) (n : gnode) (s : bytes) (n' : gnode) : Prop :=
  abs n' = insert (abs n) (rev s) sch port w /\ gwf n' /\ g_suf n' = g_suf n.

Lemma find_kid_edges edges children c : length edges = length children -> StronglySorted N.lt edges ->
  find_kid c (combine edges (map abs children)) =
  if memN c edges then Some (abs (nth (kpos N N.ltb c edges) children zero_gnode)) else None.
Proof.
  intros Hl Hs. rewrite find_kid_kfind, memN_kmem.
  assert (Hlm : length edges = length (map abs children)) by (rewrite map_length; exact Hl).
  destruct (kmem N N.eqb c edges) eqn:Em.
  - destruct (kfound N N.ltb N.eqb N.eqb_eq N.ltb_irrefl Nltb_trans_k edges (map abs children) c (abs zero_gnode)
                0%N (abs zero_gnode) Hlm (proj1 (sortedN_ksorted edges) Hs) Em) as (_ & _ & _ & H4).
    rewrite H4, map_nth. reflexivity.
  - apply knotfound_find, Em.
Qed.

Lemma upsert_post sch port w n s c rs X : gwf n -> rev s = c :: rs ->
  ents_contains (combine (g_schemes n) (g_ports n)) sch port true = false ->
  abs X = ins_child sch port w (c :: rs) (find_kid c (combine (g_edges n) (map abs (g_children n)))) ->
  last_byte (g_suf X) = (c, true) -> gwf X ->
  ins_post sch port w n s (fst (go_node_upsertEdge n c X)).
Proof.
  intros Hwf Ers Ec HX HX1 HX2.
  destruct (upsert_node_ok n c X Hwf HX1 HX2) as (edges' & children' & E & Hc & Hwf').
  rewrite E. unfold ins_post. split; [|split; [exact Hwf' | reflexivity]].
  rewrite Ers, (abs_unfold n). cbn [abs]. rewrite Hc, HX.
  symmetry. apply insert_upsert; [|exact Ec].
  destruct n as [suf edges children schemes ports]. apply gwf_inv in Hwf.
  apply lab_sorted_combine, Hwf.
Qed.

Lemma found_post sch port w suf edges children schemes ports s c rs X :
  gwf (GNode suf edges children schemes ports) -> rev s = c :: rs ->
  ents_contains (combine schemes ports) sch port true = false ->
  memN c edges = true ->
  abs X = ins_child sch port w (c :: rs) (Some (abs (nth (kpos N N.ltb c edges) children zero_gnode))) ->
  last_byte (g_suf X) = (c, true) -> gwf X ->
  ins_post sch port w (GNode suf edges children schemes ports) s
    (GNode suf edges (list_set_nat children (kpos N N.ltb c edges) X) schemes ports).
Proof.
  intros Hwf Ers Ec Em HX HX1 HX2.
  pose proof (upsert_post sch port w _ s c rs X Hwf Ers Ec) as H.
  rewrite (go_node_upsertEdge_found _ _ _ _ _ _ _ Em) in H. cbn [fst] in H. apply H; try assumption.
  cbn [g_edges g_children]. pose proof (gwf_inv _ _ _ _ _ Hwf) as (Hl & _ & Hse & _).
  rewrite (find_kid_edges _ _ _ Hl Hse), Em. exact HX.
Qed.

Lemma gwf_leaf s : gwf (GNode s [] [] [] []).
Proof. constructor; try reflexivity; constructor. Qed.

Lemma ins_body_root sch port w n s : gwf n ->
  match ins_body sch port w (n, s, []) with
  | Ret n' => ins_post sch port w n s n'
  | Next (n1, s', q) =>
      exists i, q = [i] /\ i < length (g_children n) /\ gwf (nth i (g_children n) zero_gnode) /\
                length s' < length s /\
                forall ch', ins_post sch port w (nth i (g_children n) zero_gnode) s' ch' ->
                            ins_post sch port w n s (gset n [i] ch')
  | _ => False
  end.
Proof.
  intros Hwf. destruct n as [suf edges children schemes ports].
  pose proof (gwf_inv _ _ _ _ _ Hwf) as (Hl & Hl2 & Hse & Hss & Hp & Hf).
  unfold ins_body, gchild. cbv zeta. cbn [gget gset app g_edges g_children].
  rewrite go_lastByte_spec. unfold last_byte at 1. destruct (rev s) as [|c rs] eqn:Ers; cbn [negb].
  - (* nothing left: add here *)
    destruct (node_add_ok _ sch port w Hwf) as (schemes' & ports' & E & Hc & Hwf').
    rewrite E. cbn [g_suf g_edges g_children g_schemes g_ports] in *.
    unfold ins_post. rewrite Ers. split; [|split; [exact Hwf' | reflexivity]].
    cbn [abs]. rewrite insert_eq, Hc. reflexivity.
  - rewrite (go_node_contains_spec _ _ _ _ _ _ _ _ Hl2 Hss Hp).
    destruct (ents_contains (combine schemes ports) sch port true) eqn:Ec.
    { unfold ins_post. rewrite Ers. cbn [abs]. rewrite insert_eq, Ec. repeat split; assumption. }
    assert (Hlast : last_byte s = (c, true)) by (unfold last_byte; rewrite Ers; reflexivity).
    rewrite bsearch_N. destruct (memN c edges) eqn:Em; cbn [negb].
    + (* an edge labelled c *)
      set (k := kpos N N.ltb c edges). rewrite Nat2Z.id.
      assert (Hk : k < length edges /\ nth k edges 0%N = c).
      { rewrite memN_kmem in Em.
        destruct (kfound N N.ltb N.eqb N.eqb_eq N.ltb_irrefl Nltb_trans_k edges children c zero_gnode
                    0%N zero_gnode Hl (proj1 (sortedN_ksorted edges) Hse) Em) as (H1 & H2 & _).
        split; assumption. }
      destruct Hk as [Hk Hke].
      pose proof (Forall2_nth_both _ 0%N zero_gnode _ _ Hf k Hk) as Hch. cbv beta in Hch. rewrite Hke in Hch.
      destruct Hch as [Hch1 Hch2].
      remember (nth k children zero_gnode) as ch eqn:Ech.
      destruct ch as [csuf ce cc cs cp]. cbn [g_suf g_edges g_children g_schemes g_ports] in *.
      rewrite go_split_spec, Ers.
      unfold last_byte in Hch1. destruct (rev csuf) as [|c0 rcs] eqn:Ecs; [discriminate|].
      assert (c0 = c) by congruence. subst c0. clear Hch1.
      cbn [common_prefix]. rewrite N.eqb_refl.
      pose proof (common_prefix_spec rs rcs) as Hcp.
      destruct (common_prefix rs rcs) as [[ra rc] com] eqn:Ecp. destruct Hcp as (Hrs & Hrcs & _).
      rewrite go_lastByte_spec, last_byte_rev. destruct rc as [|l1 rc']; cbn [negb].
      * (* the child's suffix is a suffix of s: descend *)
        exists k. split; [reflexivity|]. split; [lia|]. rewrite <- Ech. split; [exact Hch2|].
        split.
        { rewrite rev_length, <- (rev_length s), Ers, Hrs. cbn [length]. rewrite app_length. lia. }
        intros ch' (Ha & Hw' & Hs'). cbn [g_suf] in Hs'.
        apply (found_post sch port w suf edges children schemes ports s c rs); try assumption.
        -- fold k. rewrite <- Ech. rewrite Ha. cbn [abs ins_child]. rewrite Ecs. cbn [common_prefix].
           rewrite N.eqb_refl, Ecp, rev_involutive. reflexivity.
        -- rewrite Hs'. unfold last_byte. rewrite Ecs. reflexivity.
      * rewrite (go_node_upsertEdge_found _ _ _ _ _ _ _ Em). fold k. rewrite Nat2Z.id.
        cbn [gget gset g_children set_g_children]. rewrite nth_set by (rewrite ?length_set; lia).
        rewrite upsertEdge_bare. rewrite set_set. rewrite nth_set by (rewrite ?length_set; lia).
        rewrite go_lastByte_spec, last_byte_rev. rewrite !set_set.
        set (gc1 := GNode (rev (l1 :: rc')) ce cc cs cp).
        set (mid := GNode (rev (c :: com)) [l1] [gc1] [] []).
        assert (Hgc1 : gwf gc1).
        { apply gwf_inv in Hch2. destruct Hch2 as (G1 & G2 & G3 & G4 & G5 & G6). constructor; assumption. }
        assert (Hmid : gwf mid).
        { constructor; [reflexivity | reflexivity | repeat constructor | constructor | constructor |].
          constructor; [|constructor]. split; [|exact Hgc1]. unfold gc1. cbn [g_suf]. apply last_byte_rev. }
        assert (Hmodel : ins_child sch port w (c :: rs) (Some (abs (nth k children zero_gnode))) =
                         match ra with
                         | [] => Node (c :: com) [(l1, abs gc1)] (ents_add [] sch port w)
                         | l2 :: _ => Node (c :: com) (upsert l2 (Node ra [] (ents_add [] sch port w)) [(l1, abs gc1)]) []
                         end).
        { rewrite <- Ech. cbn [abs ins_child]. rewrite Ecs. cbn [common_prefix]. rewrite N.eqb_refl, Ecp.
          unfold gc1. cbn [abs]. rewrite rev_involutive. destruct ra; reflexivity. }
        destruct ra as [|l2 ra']; cbn [negb].
        -- (* s is a proper suffix of the child's suffix: the new middle node carries the entry *)
           destruct (node_add_ok mid sch port w Hmid) as (schemes' & ports' & E & Hc & Hwf').
           rewrite E. cbn [g_suf g_edges g_children g_schemes g_ports mid] in *.
           apply (found_post sch port w suf edges children schemes ports s c rs); try assumption.
           ++ fold k. rewrite Hmodel. cbn [abs map combine]. rewrite rev_involutive, Hc. reflexivity.
           ++ cbn [g_suf]. apply last_byte_rev.
        -- (* two grandchildren *)
           destruct (node_add_ok _ sch port w (gwf_leaf (rev (l2 :: ra')))) as (schemes' & ports' & E & Hc & Hwf').
           rewrite E. cbn [g_suf g_edges g_children g_schemes g_ports] in *.
           set (gc2 := GNode (rev (l2 :: ra')) [] [] schemes' ports') in *.
           assert (Hgc2 : last_byte (g_suf gc2) = (l2, true)) by (unfold gc2; cbn [g_suf]; apply last_byte_rev).
           destruct (upsert_node_ok mid l2 gc2 Hmid Hgc2 Hwf') as (edges' & children' & E' & Hc' & Hwf'').
           destruct (go_node_upsertEdge mid l2 gc2) as [r z]. cbn [fst] in E'. subst r. rewrite set_set.
           cbn [g_suf g_edges g_children g_schemes g_ports mid] in *.
           apply (found_post sch port w suf edges children schemes ports s c rs); try assumption.
           ++ fold k. rewrite Hmodel. cbn [abs map combine]. rewrite rev_involutive, Hc'.
              unfold gc2. cbn [abs map combine]. rewrite rev_involutive, Hc. reflexivity.
           ++ cbn [g_suf]. apply last_byte_rev.
    + (* no edge labelled c: a new leaf *)
      destruct (node_add_ok _ sch port w (gwf_leaf s)) as (schemes' & ports' & E & Hc & Hwf').
      rewrite E. cbn [g_suf g_edges g_children g_schemes g_ports] in *.
      destruct (go_node_upsertEdge _ _ _) as [r z] eqn:Eu.
      change r with (fst (r, z)). rewrite <- Eu.
      apply (upsert_post sch port w _ s c rs); try assumption.
      cbn [g_edges g_children]. rewrite (find_kid_edges _ _ _ Hl Hse), Em.
      cbn [abs ins_child map combine]. rewrite Ers, Hc. reflexivity.
Qed.

(* the loop, started through any valid pointer p at a well-formed subtree, with more fuel than bytes left *)
Lemma ins_loop sch port w : forall k t p s fuel,
  length s <= k -> k < fuel -> gvalid t p -> gwf (gget t p) ->
  exists n', loop_n fuel (ins_body sch port w) (t, s, p) = Returned (gset t p n') /\
             ins_post sch port w (gget t p) s n'.
Proof.
  induction k as [|k IH]; intros t p s fuel Hs Hf Hv Hwf;
    (destruct fuel as [|f]; [lia|]); rewrite loop_n_S', (ins_body_local _ _ _ _ _ _ Hv);
    generalize (ins_body_root sch port w (gget t p) s Hwf);
    destruct (ins_body _ _ _ _) as [[[n1 s'] q]| |n'|]; intros Hroot; try contradiction; cbn [lift].
  - destruct Hroot as (i & _ & _ & _ & Hlt & _). lia.
  - exists n'. split; [reflexivity | exact Hroot].
  - destruct Hroot as (i & -> & Hi & Hch & Hlt & Hk).
    assert (Hv' : gvalid t (p ++ [i])) by (apply gvalid_snoc; assumption).
    assert (Eg : gget t (p ++ [i]) = nth i (g_children (gget t p)) zero_gnode) by (rewrite gget_app; reflexivity).
    destruct (IH t (p ++ [i]) s' f ltac:(lia) ltac:(lia) Hv' ltac:(rewrite Eg; exact Hch)) as (ch' & El & Hpost).
    rewrite Eg in Hpost. exists (gset (gget t p) [i] ch'). split.
    + rewrite gset_app in El. exact El.
    + apply Hk, Hpost.
  - exists n'. split; [reflexivity | exact Hroot].
Qed.

Theorem go_Tree_Insert_eq (t : gnode) (p : pattern) :
  gwf t ->
  exists t', go_Tree_Insert t p = Some t' /\ abs t' = tree_insert (abs t) p /\ gwf t'.
Proof.
  intros Hwf. rewrite go_Tree_Insert_unfold. cbv zeta.
  set (w := N.eqb (nth 0 (pvalue p) 0%N) 42%N).
  set (s := if w then skipn 1 (pvalue p) else pvalue p).
  destruct (ins_loop (pscheme p) (pport p) w (length s) t [] s (S (length s))
              (le_n _) (Nat.lt_succ_diag_r _) I Hwf) as (t' & El & Ha & Hw' & _).
  match goal with |- context [loop_n ?f ?b ?st] =>
    assert (El' : loop_n f b st = Returned (gset t [] t')) by exact El end.
  rewrite El'. cbn [gset gget] in *. exists t'. split; [reflexivity|]. split; [|exact Hw'].
  rewrite Ha. unfold tree_insert, s, w. destruct (pvalue p) as [|c r]; [reflexivity|].
  cbn [nth]. destruct (N.eq_dec c 42) as [->|Hc]; [reflexivity|].
  replace (c =? 42)%N with false by lia. not_star c Hc.
Qed.

Print Assumptions go_Tree_Insert_eq.

(* building a tree by successive Inserts, as origins.NewTree does *)
Fixpoint go_insert_all (t : gnode) (ps : list pattern) : option gnode :=
  match ps with
  | [] => Some t
  | p :: r => match go_Tree_Insert t p with Some t' => go_insert_all t' r | None => None end
  end.

Corollary go_insert_all_eq : forall ps t, gwf t ->
  exists t', go_insert_all t ps = Some t' /\ abs t' = fold_left tree_insert ps (abs t) /\ gwf t'.
Proof.
  induction ps as [|p r IH]; intros t Hwf; cbn [go_insert_all fold_left].
  - exists t. repeat split. exact Hwf.
  - destruct (go_Tree_Insert_eq t p Hwf) as (t1 & E & Ha & Hw). rewrite E, <- Ha. apply IH, Hw.
Qed.

Corollary go_build_eq ps :
  exists t', go_insert_all zero_gnode ps = Some t' /\ abs t' = build ps /\ gwf t'.
Proof. apply (go_insert_all_eq ps zero_gnode gwf_zero). Qed.

Print Assumptions go_insert_all_eq.
