(* Proofs/RoundTripStableP.v -- C06, layer 5: stability of Config() after one round trip.
   A tree rebuilt from its own sorted element list, when that tree was itself built from the sorted
   element list of a tree, is the same tree.
   Main results:
     insert_dichotomy : an insertion that deletes nothing either leaves the tree unchanged or adds
                        exactly the inserted entry (up to permutation of [entries])
     i1set_build      : in a built tree, a wildcard-port entry is alone among the entries of its
                        (host key, scheme, class)
     build_kept       : a build over patterns whose entries all belong to such a set equals the build
                        over the subsequence K of the insertions that changed the tree, and its
                        entries are a permutation of [map entry_of K]
     tree_stable      : the tree of the third validation is the tree of the second. *)
Require Import Base.Bytes Gen.Tables Model.Origins Model.Pattern Model.Radix Spec.Origins.
Require Import Proofs.RadixP Proofs.HeadersP Proofs.RoundTripTreeP.
From Coq Require Import Sorted Permutation ZifyBool ZifyNat ZifyN.
Open Scope N_scope.

(* ------------------------------------------------------------------------------------------ *)
(* 1. sorting                                                                                  *)

Definition ble (x y : bytes) : Prop := bleb x y = true.

Lemma ble_cases x y : ble x y <-> x = y \/ blt x y.
Proof.
  unfold ble, blt, bleb, bltb. split.
  - destruct (bcmp x y) eqn:E; intros H; try discriminate; [left; apply bcmp_eq; exact E | right; reflexivity].
  - intros [->|H]; [rewrite bcmp_refl; reflexivity|]. destruct (bcmp x y); try discriminate; reflexivity.
Qed.

Lemma ble_antisym x y : ble x y -> ble y x -> x = y.
Proof.
  rewrite !ble_cases. intros [H1|H1] [H2|H2]; auto. exfalso. exact (blt_asym _ _ H1 H2).
Qed.

Lemma ble_trans x y z : ble x y -> ble y z -> ble x z.
Proof.
  rewrite !ble_cases. intros [->|H1] [->|H2]; auto. right. eapply blt_trans; eassumption.
Qed.

Lemma insert_sorted_perm x l : Permutation (insert_sorted x l) (x :: l).
Proof.
  induction l as [|y r IH]; cbn [insert_sorted]; [reflexivity|].
  destruct (bleb x y); [reflexivity|]. rewrite IH. apply perm_swap.
Qed.

Lemma sort_bytes_perm l : Permutation (sort_bytes l) l.
Proof.
  induction l as [|x r IH]; [reflexivity|]. cbn [sort_bytes fold_right].
  rewrite insert_sorted_perm. constructor. exact IH.
Qed.

Lemma insert_sorted_ble x l : StronglySorted ble l -> StronglySorted ble (insert_sorted x l).
Proof.
  intros HS. induction HS as [|y r HS IH HF]; cbn [insert_sorted].
  - constructor; constructor.
  - destruct (bleb x y) eqn:E.
    + constructor; [constructor; assumption|]. constructor; [exact E|].
      rewrite Forall_forall in HF |- *. intros z Hz. eapply ble_trans; [exact E | apply HF; exact Hz].
    + constructor; [exact IH|]. rewrite Forall_forall in HF |- *. intros z Hz.
      destruct (In_insert_sorted _ _ _ Hz) as [->|Hz'].
      * apply ble_cases. right. apply bleb_false. exact E.
      * apply HF. exact Hz'.
Qed.

Lemma sort_bytes_sorted l : StronglySorted ble (sort_bytes l).
Proof. induction l as [|x r IH]; [constructor|]. apply insert_sorted_ble. exact IH. Qed.

Lemma sorted_perm_eq l1 : forall l2, StronglySorted ble l1 -> StronglySorted ble l2 ->
  Permutation l1 l2 -> l1 = l2.
Proof.
  induction l1 as [|a r1 IH]; intros l2 H1 H2 HP.
  - apply Permutation_nil in HP. subst. reflexivity.
  - destruct l2 as [|c r2]; [apply Permutation_sym, Permutation_nil in HP; discriminate|].
    apply StronglySorted_inv in H1. destruct H1 as [S1 F1].
    apply StronglySorted_inv in H2. destruct H2 as [S2 F2].
    rewrite Forall_forall in F1, F2.
    assert (E : a = c).
    { assert (Ha : In a (c :: r2)) by (eapply Permutation_in; [exact HP | left; reflexivity]).
      assert (Hc : In c (a :: r1)) by (eapply Permutation_in; [apply Permutation_sym; exact HP | left; reflexivity]).
      destruct Ha as [Ha|Ha]; [congruence|]. destruct Hc as [Hc|Hc]; [congruence|].
      apply ble_antisym; [apply F1, Hc | apply F2, Ha]. }
    subst c. f_equal. apply IH; [exact S1 | exact S2 | exact (Permutation_cons_inv HP)].
Qed.

Lemma sort_bytes_of_perm l l' : Permutation l l' -> StronglySorted ble l' -> sort_bytes l = l'.
Proof.
  intros HP HS. apply sorted_perm_eq; [apply sort_bytes_sorted | exact HS|].
  rewrite sort_bytes_perm. exact HP.
Qed.

(* subsequences *)
Inductive subseq {A : Type} : list A -> list A -> Prop :=
| sub_nil : subseq [] []
| sub_skip l1 l2 y : subseq l1 l2 -> subseq l1 (y :: l2)
| sub_take l1 l2 y : subseq l1 l2 -> subseq (y :: l1) (y :: l2).

Lemma subseq_In {A} (l1 l2 : list A) : subseq l1 l2 -> forall x, In x l1 -> In x l2.
Proof.
  intros H. induction H as [|l1 l2 y H IH|l1 l2 y H IH]; intros x Hx; [exact Hx | right; auto|].
  destruct Hx as [->|Hx]; [left; reflexivity | right; auto].
Qed.

Lemma subseq_map {A B} (f : A -> B) l1 l2 : subseq l1 l2 -> subseq (map f l1) (map f l2).
Proof. intros H. induction H; cbn [map]; constructor; assumption. Qed.

Lemma subseq_sorted_ble l1 l2 : subseq l1 l2 -> StronglySorted ble l2 -> StronglySorted ble l1.
Proof.
  intros H. induction H as [|l1 l2 y H IH|l1 l2 y H IH]; intro HS.
  - exact HS.
  - apply StronglySorted_inv in HS. apply IH. apply HS.
  - apply StronglySorted_inv in HS. destruct HS as [HS HF]. constructor; [apply IH; exact HS|].
    rewrite Forall_forall in HF |- *. intros z Hz. apply HF. eapply subseq_In; eassumption.
Qed.

Lemma subseq_refl {A} (l : list A) : subseq l l.
Proof. induction l; constructor; assumption. Qed.

(* ------------------------------------------------------------------------------------------ *)
(* 2. entries of one node after node.add                                                       *)

Definition same_spot (e1 e2 : bytes * bytes * Z) : Prop :=
  fst (fst e1) = fst (fst e2) /\ snd (fst e1) = snd (fst e2) /\ (snd e1 <? 0)%Z = (snd e2 <? 0)%Z.
Definition is_any (e : bytes * bytes * Z) : Prop := snd e = 65536%Z \/ snd e = (-1)%Z.
(* inserting e deletes nothing from E *)
Definition NoDel (E : list (bytes * bytes * Z)) (e : bytes * bytes * Z) : Prop :=
  is_any e -> forall e', In e' E -> same_spot e e' -> e' = e.
(* a wildcard-port entry is alone in its spot *)
Definition I1set (S : list (bytes * bytes * Z)) : Prop := forall e, In e S -> NoDel S e.

Lemma NoDel_sub E E' e : (forall x, In x E' -> In x E) -> NoDel E e -> NoDel E' e.
Proof. intros Hs H Ha e' He'. apply H; auto. Qed.

Lemma ents_entries_app k e1 e2 : ents_entries k (e1 ++ e2) = ents_entries k e1 ++ ents_entries k e2.
Proof. unfold ents_entries. apply flat_map_app. Qed.

Lemma ents_find_none_all sch e : (forall x, In x (map fst e) -> beqb sch x = false) -> ents_find sch e = None.
Proof.
  induction e as [|[s' q'] r' IH]; intros Hall; [reflexivity|]. cbn [ents_find].
  rewrite (Hall s' (or_introl eq_refl)). apply IH. intros x Hx. apply Hall. right. exact Hx.
Qed.

Lemma ents_find_none_sorted sch s q r : StronglySorted blt (s :: map fst r) -> bltb sch s = true ->
  ents_find sch ((s, q) :: r) = None.
Proof.
  intros HS Hlt. apply StronglySorted_inv in HS. destruct HS as [_ HF]. rewrite Forall_forall in HF.
  apply ents_find_none_all. cbn [map fst]. intros x Hx.
  destruct (beqb sch x) eqn:E; [|reflexivity]. apply RadixP.beqb_eq in E. subst x.
  exfalso. destruct Hx as [->|Hx]; [exact (blt_irrefl _ Hlt)|].
  exact (blt_irrefl _ (blt_trans _ _ _ Hlt (HF _ Hx))).
Qed.

Lemma ents_put_replace sch ps e ps0 : ents_sorted e -> ents_find sch e = Some ps0 ->
  exists e1 e2, e = e1 ++ (sch, ps0) :: e2 /\ ents_put sch ps e = e1 ++ (sch, ps) :: e2.
Proof.
  unfold ents_sorted. induction e as [|[s q] r IH]; intros HS Hf; [discriminate|].
  cbn [ents_find] in Hf. cbn [ents_put]. destruct (beqb sch s) eqn:E.
  - apply RadixP.beqb_eq in E. subst s. injection Hf as ->. exists [], r. split; reflexivity.
  - destruct (bltb sch s) eqn:E2.
    + exfalso. pose proof (ents_find_none_sorted sch s q r HS E2) as Hn. cbn [ents_find] in Hn.
      rewrite E in Hn. congruence.
    + cbn [map fst] in HS. apply StronglySorted_inv in HS. destruct HS as [HS _].
      destruct (IH HS Hf) as [e1 [e2 [-> ->]]]. exists ((s, q) :: e1), e2. split; reflexivity.
Qed.

Lemma ents_put_new k sch ps e : ents_find sch e = None ->
  Permutation (ents_entries k (ents_put sch ps e)) (map (fun c => (k, sch, c)) ps ++ ents_entries k e).
Proof.
  induction e as [|[s q] r IH]; intros Hf; cbn [ents_put].
  - rewrite ents_entries_cons. reflexivity.
  - cbn [ents_find] in Hf. destruct (beqb sch s) eqn:E; [discriminate|].
    destruct (bltb sch s); [rewrite ents_entries_cons; reflexivity|].
    rewrite !ents_entries_cons, (IH Hf). rewrite !app_assoc. apply Permutation_app_tail, Permutation_app_comm.
Qed.

Lemma insert_sortedZ_perm x l : Permutation (insert_sortedZ x l) (x :: l).
Proof.
  induction l as [|y r IH]; cbn [insert_sortedZ]; [reflexivity|].
  destruct (x <=? y)%Z; [reflexivity|]. rewrite IH. apply perm_swap.
Qed.

Lemma filter_all {A} (f : A -> bool) l : (forall x, In x l -> f x = true) -> filter f l = l.
Proof.
  induction l as [|x r IH]; intros H; [reflexivity|]. cbn [filter].
  rewrite (H x (or_introl eq_refl)), IH; [reflexivity|]. intros y Hy. apply H. right. exact Hy.
Qed.

Lemma memZ_In x l : memZ x l = true <-> In x l.
Proof.
  induction l as [|y r IH]; cbn [memZ In]; [split; [discriminate | intros []]|].
  rewrite orb_true_iff, IH, Z.eqb_eq. split; intros [H|H]; auto.
Qed.

Lemma ents_add_dichotomy k e sch p w : ents_sorted e -> (0 <= p <= 65536)%Z ->
  NoDel (ents_entries k e) (k, sch, shift w p) ->
  ents_add e sch p w = e \/
  Permutation (ents_entries k (ents_add e sch p w)) ((k, sch, shift w p) :: ents_entries k e).
Proof.
  intros HS Hp Hnd. unfold ents_add. destruct (ents_contains e sch (shift w p) w) eqn:Ec; [left; reflexivity|].
  right. destruct (ents_find sch e) as [ps0|] eqn:Ef.
  - (* nothing is deleted *)
    assert (Hsame : (if (shift w p =? shift w origins_wildcardPort)%Z then delete_same_sign ps0 (shift w p) else ps0) = ps0).
    { destruct (shift w p =? shift w origins_wildcardPort)%Z eqn:Ew; [|reflexivity].
      assert (Hany : is_any (k, sch, shift w p)).
      { unfold is_any, shift in *. rewrite off_eq, wild_eq in *. cbn [snd]. destruct w; lia. }
      assert (Hno : forall x, In x ps0 -> (x <? 0)%Z = (shift w p <? 0)%Z -> False).
      { intros x Hx Hsign.
        assert (Hin : In (k, sch, x) (ents_entries k e)).
        { apply In_ents_entries. exists sch, ps0, x. split; [apply ents_find_In, Ef | auto]. }
        pose proof (Hnd Hany _ Hin) as He. unfold same_spot in He. cbn [fst snd] in He.
        assert (Hx' : x = shift w p) by (injection (He (conj eq_refl (conj eq_refl (eq_sym Hsign)))); auto).
        unfold ents_contains in Ec. rewrite Ef in Ec. apply orb_false_iff in Ec. destruct Ec as [_ Ec].
        assert (Heq : shift w origins_wildcardPort = x).
        { subst x. unfold shift in *. rewrite off_eq, wild_eq in *. destruct w; lia. }
        rewrite Heq in Ec. apply memZ_In in Hx. congruence. }
      unfold delete_same_sign. destruct (shift w p <? 0)%Z eqn:Es; apply filter_all; intros x Hx.
      - destruct (0 <=? x)%Z eqn:E0; [reflexivity|]. exfalso. apply (Hno x Hx). lia.
      - destruct (x <? 0)%Z eqn:E0; [reflexivity|]. exfalso. apply (Hno x Hx). lia. }
    rewrite Hsame.
    destruct (ents_put_replace sch (insert_sortedZ (shift w p) ps0) e ps0 HS Ef) as [e1 [e2 [He Hput]]].
    rewrite Hput, He, !ents_entries_app, !ents_entries_cons.
    rewrite (Permutation_map _ (insert_sortedZ_perm (shift w p) ps0)). cbn [map app].
    symmetry. apply Permutation_middle.
  - rewrite (ents_put_new k sch [shift w p] e Ef). reflexivity.
Qed.

(* ------------------------------------------------------------------------------------------ *)
(* 3. an insertion that deletes nothing: unchanged tree, or exactly one more entry              *)

Lemma insert_kids_cases f c ks :
  (exists b a, ks = b ++ a /\ insert_kids f c ks = b ++ (c, f None) :: a) \/
  (exists b ch a, ks = b ++ (c, ch) :: a /\ insert_kids f c ks = b ++ (c, f (Some ch)) :: a).
Proof.
  induction ks as [|[l ch] r IH]; cbn [insert_kids].
  - left. exists [], []. split; reflexivity.
  - destruct (c <? l).
    + left. exists [], ((l, ch) :: r). split; reflexivity.
    + destruct (c =? l) eqn:E.
      * assert (c = l) by lia. subst l. right. exists [], ch, r. split; reflexivity.
      * destruct IH as [[b [a [-> ->]]]|[b [ch' [a [-> ->]]]]].
        -- left. exists ((l, ch) :: b), a. split; reflexivity.
        -- right. exists ((l, ch) :: b), ch', a. split; reflexivity.
Qed.

Lemma kids_entries_app tot k1 k2 : kids_entries tot (k1 ++ k2) = kids_entries tot k1 ++ kids_entries tot k2.
Proof. unfold kids_entries. apply flat_map_app. Qed.

Lemma kids_entries_cons tot l ch r : kids_entries tot ((l, ch) :: r) = entries ch tot ++ kids_entries tot r.
Proof. reflexivity. Qed.

Lemma ents_add_nil sch p w : ents_add [] sch p w = [(sch, [shift w p])].
Proof. reflexivity. Qed.

Lemma entries_leaf_eq s sch p w tot :
  entries (Node s [] (ents_add [] sch p w)) tot = [(tot ++ s, sch, shift w p)].
Proof. rewrite entries_eq, ents_add_nil. reflexivity. Qed.

Lemma perm_mid {T} (e : T) A B C X : Permutation X (e :: C) ->
  Permutation (A ++ B ++ X) (e :: A ++ B ++ C).
Proof.
  intros H. rewrite H, !app_assoc. symmetry. apply Permutation_cons_app. reflexivity.
Qed.

Lemma insert_dichotomy sch p w : (0 <= p <= 65536)%Z -> forall n, wf2 n -> forall s acc,
  NoDel (entries n acc) (acc ++ rsuf_of n ++ s, sch, shift w p) ->
  insert n s sch p w = n \/
  Permutation (entries (insert n s sch p w) acc) ((acc ++ rsuf_of n ++ s, sch, shift w p) :: entries n acc).
Proof.
  intros Hp. induction n as [suf kids ents IH] using node_ind'. intros Hwf s acc Hnd.
  apply wf2_inv in Hwf. destruct Hwf as (Hes & Hs & Hk & Hl).
  rewrite insert_eq. cbn [rsuf_of] in *. rewrite entries_eq in Hnd. destruct s as [|c s'].
  - rewrite app_nil_r in *.
    destruct (ents_add_dichotomy (acc ++ suf) ents sch p w Hes Hp) as [E|E].
    + eapply NoDel_sub; [|exact Hnd]. intros x Hx. apply in_or_app. left. exact Hx.
    + left. rewrite E. reflexivity.
    + right. rewrite !entries_eq, E. reflexivity.
  - destruct (ents_contains ents sch p true); [left; reflexivity|].
    set (tot := acc ++ suf) in *.
    assert (Ekey : acc ++ suf ++ c :: s' = tot ++ c :: s') by (unfold tot; rewrite app_assoc; reflexivity).
    rewrite Ekey in *.
    destruct (insert_kids_cases (ins_child sch p w (c :: s')) c kids) as [[b [a [Ek Ei]]]|[b [ch [a [Ek Ei]]]]].
    + (* a new leaf *)
      right. rewrite Ei, !entries_eq, Ek. fold tot. rewrite !kids_entries_app, kids_entries_cons.
      cbn [ins_child]. rewrite entries_leaf_eq. cbn [app].
      rewrite !app_assoc. symmetry. apply Permutation_cons_app. rewrite <- !app_assoc. reflexivity.
    + (* the child labelled c *)
      assert (Hin : In (c, ch) kids) by (rewrite Ek; apply in_or_app; right; left; reflexivity).
      rewrite Forall_forall in IH, Hk. specialize (IH _ Hin). specialize (Hk _ Hin). cbn [snd] in IH, Hk.
      assert (Hsub : forall x, In x (entries ch tot) -> In x (ents_entries tot ents ++ kids_entries tot kids)).
      { intros x Hx. apply in_or_app. right. unfold kids_entries. apply in_flat_map. exists (c, ch). auto. }
      assert (Hshape : forall ch', Permutation (entries ch' tot) ((tot ++ c :: s', sch, shift w p) :: entries ch tot) ->
                Permutation (entries (Node suf (b ++ (c, ch') :: a) ents) acc)
                            ((tot ++ c :: s', sch, shift w p) :: entries (Node suf kids ents) acc)).
      { intros ch' HP. rewrite !entries_eq, Ek. fold tot. rewrite !kids_entries_app, !kids_entries_cons, HP.
        cbn [app]. rewrite !app_assoc. symmetry. apply Permutation_cons_app. rewrite <- !app_assoc. reflexivity. }
      rewrite Ei. destruct ch as [csuf ckids cents]. unfold ins_child.
      pose proof (common_prefix_spec (c :: s') csuf) as Hcp.
      destruct (common_prefix (c :: s') csuf) as [[ps pc] com]. destruct Hcp as (Hs1 & Hc1 & Hd).
      destruct pc as [|l1 pc'].
      * rewrite app_nil_r in Hc1. subst csuf.
        destruct (IH Hk ps tot) as [E|E].
        -- cbn [rsuf_of]. rewrite <- Hs1. eapply NoDel_sub; [exact Hsub | exact Hnd].
        -- left. rewrite E, <- Ek. reflexivity.
        -- right. apply Hshape. cbn [rsuf_of] in E. rewrite <- Hs1 in E. exact E.
      * right. apply Hshape. subst csuf. rewrite Hs1. destruct ps as [|l2 ps'].
        -- rewrite entries_eq, ents_add_nil. unfold kids_entries. cbn [flat_map snd].
           rewrite !app_nil_r, entries_resuf. reflexivity.
        -- rewrite entries_eq. cbn [ents_entries flat_map app].
           assert (Hne : l2 <> l1) by exact Hd.
           unfold kids_entries. cbn [upsert]. destruct (l2 =? l1) eqn:E1; [lia|].
           destruct (l2 <? l1); cbn [flat_map snd]; rewrite entries_leaf_eq, entries_resuf, app_nil_r, <- !app_assoc.
           ++ reflexivity.
           ++ symmetry. apply Permutation_cons_app. rewrite app_nil_r. reflexivity.
Qed.

(* ------------------------------------------------------------------------------------------ *)
(* 4. a wildcard port is alone in its spot                                                     *)

Definition i1ps (ps : list Z) : Prop :=
  (In 65536%Z ps -> forall c, In c ps -> (0 <= c)%Z -> c = 65536%Z) /\
  (In (-1)%Z ps -> forall c, In c ps -> (c < 0)%Z -> c = (-1)%Z).
Definition i1ents (e : ents_t) : Prop := forall s ps, In (s, ps) e -> i1ps ps.

Inductive allI1 : node -> Prop :=
| allI1_Node suf kids ents : i1ents ents -> Forall (fun kv => allI1 (snd kv)) kids -> allI1 (Node suf kids ents).

Lemma allI1_inv suf kids ents : allI1 (Node suf kids ents) ->
  i1ents ents /\ Forall (fun kv => allI1 (snd kv)) kids.
Proof. intros H. inversion H. auto. Qed.

Lemma i1ents_nil : i1ents []. Proof. intros s ps []. Qed.

Lemma In_delete_same_sign' x l v : In x (delete_same_sign l v) ->
  In x l /\ (if (v <? 0)%Z then (0 <= x)%Z else (x < 0)%Z).
Proof.
  unfold delete_same_sign. destruct (v <? 0)%Z; intros H; apply filter_In in H; destruct H as [H1 H2];
    (split; [exact H1 | lia]).
Qed.

Lemma i1ents_add e sch p w : (0 <= p <= 65536)%Z -> i1ents e -> i1ents (ents_add e sch p w).
Proof.
  intros Hp Hi. unfold ents_add. destruct (ents_contains e sch (shift w p) w) eqn:Ec; [exact Hi|].
  assert (Hput : forall psn, i1ps psn -> i1ents (ents_put sch psn e)).
  { intros psn Hn s ps Hin. apply In_ents_put in Hin. destruct Hin as [[_ ->]|Hin]; [exact Hn | exact (Hi _ _ Hin)]. }
  destruct (ents_find sch e) as [ps|] eqn:Ef; apply Hput.
  - pose proof (Hi _ _ (ents_find_In _ _ _ Ef)) as [I1 I2].
    unfold ents_contains in Ec. rewrite Ef in Ec. apply orb_false_iff in Ec. destruct Ec as [_ Ec].
    assert (Hnw : ~ In (shift w origins_wildcardPort) ps).
    { intros Hin. apply memZ_In in Hin. congruence. }
    unfold shift in *. rewrite off_eq, wild_eq in *.
    destruct ((if w then p - 65537 else p) =? (if w then 65536 - 65537 else 65536))%Z eqn:Ew.
    + (* the wildcard port replaces the discrete ports of its class *)
      split; intros Hin c Hc Hs; apply In_insert_sortedZ in Hin; apply In_insert_sortedZ in Hc.
      * destruct Hc as [->|Hc]; [destruct w; lia|]. apply In_delete_same_sign' in Hc. destruct Hc as [Hc Hsg].
        destruct Hin as [Hin|Hin].
        -- destruct w; [lia|]. replace (p <? 0)%Z with false in Hsg by lia. lia.
        -- apply In_delete_same_sign' in Hin. apply I1; [apply Hin | exact Hc | exact Hs].
      * destruct Hc as [->|Hc]; [destruct w; lia|]. apply In_delete_same_sign' in Hc. destruct Hc as [Hc Hsg].
        destruct Hin as [Hin|Hin].
        -- destruct w; [|lia]. replace (p - 65537 <? 0)%Z with true in Hsg by lia. lia.
        -- apply In_delete_same_sign' in Hin. apply I2; [apply Hin | exact Hc | exact Hs].
    + split; intros Hin c Hc Hs; apply In_insert_sortedZ in Hin; apply In_insert_sortedZ in Hc.
      * destruct Hin as [Hin|Hin]; [destruct w; lia|].
        destruct Hc as [->|Hc]; [|apply I1; assumption].
        destruct w; [lia|]. exfalso. apply Hnw. exact Hin.
      * destruct Hin as [Hin|Hin]; [destruct w; lia|].
        destruct Hc as [->|Hc]; [|apply I2; assumption].
        destruct w; [|lia]. exfalso. apply Hnw. exact Hin.
  - split; intros [<-|[]] c [<-|[]] _; reflexivity.
Qed.

Lemma allI1_leaf s sch p w : (0 <= p <= 65536)%Z -> allI1 (Node s [] (ents_add [] sch p w)).
Proof. intros Hp. constructor; [apply i1ents_add; [exact Hp | apply i1ents_nil] | constructor]. Qed.

Lemma allI1_insert sch p w : (0 <= p <= 65536)%Z -> forall n, allI1 n -> forall s, allI1 (insert n s sch p w).
Proof.
  intros Hp. induction n as [suf kids ents IH] using node_ind'. intros Hwf s.
  apply allI1_inv in Hwf. destruct Hwf as (Hi & Hk).
  rewrite insert_eq. destruct s as [|c s'].
  - constructor; [apply i1ents_add|]; assumption.
  - destruct (ents_contains ents sch p true); [constructor; assumption|].
    constructor; [exact Hi|].
    apply Forall_insert_kids; [apply allI1_leaf, Hp|].
    generalize (c :: s'). intros s.
    rewrite Forall_forall in *. intros [l ch] Hin. specialize (IH _ Hin). specialize (Hk _ Hin).
    cbn [snd] in *. split; [exact Hk|].
    destruct ch as [csuf ckids cents]. unfold ins_child.
    destruct (common_prefix s csuf) as [[ps pc] com].
    destruct pc as [|l1 pc']; [apply IH, Hk|].
    apply allI1_inv in Hk. destruct Hk as (Hi' & Hk').
    assert (Hg : allI1 (Node (l1 :: pc') ckids cents)) by (constructor; assumption).
    destruct ps as [|l2 ps'].
    + constructor; [apply i1ents_add; [exact Hp | apply i1ents_nil]|]. constructor; [exact Hg | constructor].
    + constructor; [apply i1ents_nil|]. apply Forall_upsert2; [apply allI1_leaf, Hp | exact Hg].
Qed.

Lemma allI1_build ps : Forall valid_pattern ps -> allI1 (build ps).
Proof.
  unfold build. assert (H0 : allI1 empty_tree) by (constructor; [apply i1ents_nil | constructor]).
  revert H0. generalize empty_tree.
  induction ps as [|p ps IH]; intros t Ht Hv; [exact Ht|]. inversion Hv as [|? ? Hp Hv']; subst.
  cbn [fold_left]. apply IH; [|exact Hv'].
  destruct (tree_insert_cases t p) as [(s' & _ & ->) | (_ & ->)]; apply allI1_insert; assumption.
Qed.

Lemma ents_sorted_unique e s ps ps' : ents_sorted e -> In (s, ps) e -> In (s, ps') e -> ps = ps'.
Proof.
  unfold ents_sorted. induction e as [|[s0 q0] r IH]; intros HS H1 H2; [destruct H1|].
  cbn [map fst] in HS. apply StronglySorted_inv in HS. destruct HS as [HS HF]. rewrite Forall_forall in HF.
  assert (Hno : forall q, In (s0, q) r -> False).
  { intros q Hq. apply (blt_irrefl s0). apply HF. apply in_map_iff. exists (s0, q). auto. }
  destruct H1 as [H1|H1], H2 as [H2|H2].
  - congruence.
  - injection H1 as -> _. exfalso. exact (Hno _ H2).
  - injection H2 as -> _. exfalso. exact (Hno _ H1).
  - exact (IH HS H1 H2).
Qed.

Lemma lab_sorted_unique ks l ch ch' : lab_sorted ks -> In (l, ch) ks -> In (l, ch') ks -> ch = ch'.
Proof.
  induction ks as [|[l0 c0] r IH]; intros HS H1 H2; [destruct H1|].
  destruct HS as [Hgt HS]. unfold labels_gt in Hgt. rewrite Forall_forall in Hgt.
  assert (Hno : forall q, In (l0, q) r -> False).
  { intros q Hq. specialize (Hgt _ Hq). cbn [fst] in Hgt. lia. }
  destruct H1 as [H1|H1], H2 as [H2|H2].
  - congruence.
  - injection H1 as -> _. exfalso. exact (Hno _ H2).
  - injection H2 as -> _. exfalso. exact (Hno _ H1).
  - exact (IH HS H1 H2).
Qed.

Lemma kid_entry_key tot kids l ch e : Forall (fun kv => starts (fst kv) (snd kv)) kids ->
  In (l, ch) kids -> In e (entries ch tot) -> exists k', fst (fst e) = tot ++ l :: k'.
Proof.
  intros Hl Hin He. rewrite Forall_forall in Hl. destruct (Hl _ Hin) as [t Ht]. cbn [fst snd] in Ht.
  destruct (entries_key_prefix _ _ _ He) as [k' Hk]. rewrite Ht in Hk. exists (t ++ k'). exact Hk.
Qed.

Lemma i1set_entries : forall n, wf2 n -> allI1 n -> forall acc, I1set (entries n acc).
Proof.
  induction n as [suf kids ents IH] using node_ind'. intros Hwf Hall acc.
  apply wf2_inv in Hwf. destruct Hwf as (Hes & Hs & Hk & Hl).
  apply allI1_inv in Hall. destruct Hall as (Hi & Hka).
  rewrite entries_eq. set (tot := acc ++ suf).
  intros e He Hany e' He' Hspot. apply in_app_or in He, He'.
  destruct He as [He|He], He' as [He'|He'].
  - apply In_ents_entries in He, He'. destruct He as [s [ps [c [H1 [H2 ->]]]]].
    destruct He' as [s' [ps' [c' [H1' [H2' ->]]]]].
    destruct Hspot as [_ [Hsch Hsign]]. cbn [fst snd] in Hsch, Hsign. subst s'.
    rewrite <- (ents_sorted_unique _ _ _ _ Hes H1 H1') in H2'.
    destruct (Hi _ _ H1) as [I1 I2]. unfold is_any in Hany. cbn [snd] in Hany.
    f_equal. destruct Hany as [-> | ->]; [apply I1 | apply I2]; try assumption; lia.
  - exfalso. apply In_ents_entries in He. destruct He as [s [ps [c [_ [_ ->]]]]].
    unfold kids_entries in He'. apply in_flat_map in He'. destruct He' as [[l ch] [Hin He']].
    destruct (kid_entry_key _ _ _ _ _ Hl Hin He') as [k' Hk']. destruct Hspot as [Hkey _]. cbn [fst] in Hkey.
    rewrite Hk' in Hkey. rewrite <- (app_nil_r tot) in Hkey at 1. apply app_inv_head in Hkey. discriminate.
  - exfalso. apply In_ents_entries in He'. destruct He' as [s [ps [c [_ [_ ->]]]]].
    unfold kids_entries in He. apply in_flat_map in He. destruct He as [[l ch] [Hin He]].
    destruct (kid_entry_key _ _ _ _ _ Hl Hin He) as [k' Hk']. destruct Hspot as [Hkey _]. cbn [fst] in Hkey.
    rewrite Hk' in Hkey. rewrite <- (app_nil_r tot) in Hkey at 2. apply app_inv_head in Hkey. discriminate.
  - unfold kids_entries in He, He'. apply in_flat_map in He, He'.
    destruct He as [[l ch] [Hin He]]. destruct He' as [[l' ch'] [Hin' He']]. cbn [snd] in He, He'.
    destruct (kid_entry_key _ _ _ _ _ Hl Hin He) as [k1 Hk1].
    destruct (kid_entry_key _ _ _ _ _ Hl Hin' He') as [k2 Hk2].
    pose proof Hspot as [Hkey _]. rewrite Hk1, Hk2 in Hkey. apply app_inv_head in Hkey. injection Hkey as <- _.
    rewrite <- (lab_sorted_unique _ _ _ _ Hs Hin Hin') in He'.
    rewrite Forall_forall in IH, Hk, Hka.
    exact (IH _ Hin (Hk _ Hin) (Hka _ Hin) tot e He Hany e' He' Hspot).
Qed.

Theorem i1set_build ps : Forall valid_pattern ps -> I1set (entries (build ps) []).
Proof. intros Hv. apply i1set_entries; [apply wf2_build | apply allI1_build, Hv]. Qed.

(* ------------------------------------------------------------------------------------------ *)
(* 5. a build that deletes nothing = the build over the insertions that changed the tree        *)

Lemma tree_insert_dichotomy t p : wf2 t -> rsuf_of t = [] -> valid_pattern p ->
  NoDel (entries t []) (entry_of p) ->
  tree_insert t p = t \/ Permutation (entries (tree_insert t p) []) (entry_of p :: entries t []).
Proof.
  intros Hwf Hr Hp Hnd. unfold valid_pattern in Hp.
  destruct (tree_insert_cases t p) as [(s' & Hv & ->) | (Hn & ->)];
    destruct (entry_of_cases p) as [(s'' & Hv' & He) | (Hn' & He)];
    try (exfalso; first [exact (Hn _ Hv') | exact (Hn' _ Hv)]); rewrite He in *.
  - rewrite Hv in Hv'. injection Hv' as <-.
    pose proof (insert_dichotomy (pscheme p) (pport p) true Hp t Hwf (rev s') []) as H.
    rewrite Hr in H. cbn [app] in H. exact (H Hnd).
  - pose proof (insert_dichotomy (pscheme p) (pport p) false Hp t Hwf (rev (pvalue p)) []) as H.
    rewrite Hr in H. cbn [app] in H. exact (H Hnd).
Qed.

Theorem build_kept S : I1set S -> forall ps t, wf2 t -> rsuf_of t = [] -> Forall valid_pattern ps ->
  (forall p, In p ps -> In (entry_of p) S) -> (forall x, In x (entries t []) -> In x S) ->
  exists K, subseq K ps /\ fold_left tree_insert ps t = fold_left tree_insert K t /\
            Permutation (entries (fold_left tree_insert K t) []) (entries t [] ++ map entry_of K).
Proof.
  intros HS. induction ps as [|p r IH]; intros t Hwf Hr Hv Hps Ht.
  - exists []. split; [constructor|]. split; [reflexivity|]. cbn [fold_left map]. rewrite app_nil_r. reflexivity.
  - inversion Hv as [|? ? Hp Hv']; subst.
    assert (Hnd : NoDel (entries t []) (entry_of p)).
    { eapply NoDel_sub; [exact Ht|]. apply HS, Hps. left. reflexivity. }
    destruct (tree_insert_dichotomy t p Hwf Hr Hp Hnd) as [E|E].
    + destruct (IH t Hwf Hr Hv' (fun q Hq => Hps q (or_intror Hq)) Ht) as [K [K1 [K2 K3]]].
      exists K. split; [constructor; exact K1|]. split; [cbn [fold_left]; rewrite E; exact K2 | exact K3].
    + assert (Ht' : forall x, In x (entries (tree_insert t p) []) -> In x S).
      { intros x Hx. apply (Permutation_in _ E) in Hx. destruct Hx as [<-|Hx]; [apply Hps; left; reflexivity | auto]. }
      destruct (IH (tree_insert t p) (wf2_tree_insert t p Hwf)
                  (eq_trans (rsuf_tree_insert t p) Hr) Hv' (fun q Hq => Hps q (or_intror Hq)) Ht')
        as [K [K1 [K2 K3]]].
      exists (p :: K). split; [constructor; exact K1|]. split; [cbn [fold_left]; exact K2|].
      cbn [fold_left map]. rewrite K3, E. cbn [app]. apply Permutation_middle.
Qed.

Print Assumptions build_kept.
Print Assumptions i1set_build.
