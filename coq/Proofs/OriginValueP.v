(* Proofs/OriginValueP.v -- the request-side parser (Model/Origins.v: parse) is sound and complete
   for the declarative grammar of Origin header values (Spec/OriginValue.v: origin_value).
   1. byte classes = generated tables     2. scheme     3. plain host (host_loop), the IPv4 hint
   4. fast_parse_host     5. port     6. parse_sound, parse_complete, parse_functional
   7. corollaries used by Properties/C03b.v *)
Require Import Base.Bytes Gen.Tables Model.Origins Spec.Grammar Spec.OriginValue Proofs.GrammarP.
From Coq Require Import ZifyBool ZifyNat ZifyN.
Open Scope N_scope.
Import Coq.Strings.String.StringSyntax.
Arguments b _%string_scope.

(* ========================================================================================== *)
(* 1. the byte classes of the specification are the generated tables of the code                *)

Lemma lower_letter_table c : is_lower_letter c = in_set origins_lowerAlpha c.
Proof. rewrite lowerAlpha_char. reflexivity. Qed.
Lemma digit_table c : is_digit c = in_set origins_digits c.
Proof. rewrite digits_char. reflexivity. Qed.
Lemma scheme_byte_table c : is_scheme_byte c = in_set origins_laterSchemeBytes c.
Proof.
  rewrite laterScheme_char. unfold is_scheme_byte, later_byte, scheme_tail_byte, is_lower_letter, is_lower, is_digit, is_dig.
  lia.
Qed.
Lemma label_byte_table c : is_label_byte c = in_set origins_asciiLabelBytes c.
Proof.
  rewrite asciiLabel_char. unfold is_label_byte, label_byte, ldh_byte, is_lower_letter, is_lower, is_digit, is_dig.
  lia.
Qed.
Lemma label_byte_eq c : is_label_byte c = label_byte c.
Proof. rewrite label_byte_table, asciiLabel_char. reflexivity. Qed.

Lemma every_nil p : every p [].
Proof. intros c []. Qed.
Lemma every_cons p c r : every p (c :: r) <-> p c = true /\ every p r.
Proof.
  unfold every. split.
  - intros H. split; [apply H; left; reflexivity | intros x Hx; apply H; right; exact Hx].
  - intros [H1 H2] x [<-|Hx]; auto.
Qed.
Lemma every_all_bytes p s : every p s <-> all_bytes p s = true.
Proof. symmetry. apply all_bytes_forall. Qed.
Lemma every_ext (p q : N -> bool) s : (forall c, p c = q c) -> every p s -> every q s.
Proof. intros E H c Hc. rewrite <- E. exact (H c Hc). Qed.

(* ========================================================================================== *)
(* 2. scheme                                                                                    *)

Lemma take_while_n_inv p : forall n s a r, take_while_n p n s = (a, r) ->
  s = a ++ r /\ every p a /\ (length a <= n)%nat.
Proof.
  induction n as [|n IH]; intros s a r; cbn [take_while_n].
  - destruct s; intros H; inversion H; subst; (split; [reflexivity | split; [apply every_nil | simpl; lia]]).
  - destruct s as [|c s]; [intros H; inversion H; subst; split; [reflexivity | split; [apply every_nil | simpl; lia]]|].
    destruct (p c) eqn:Ec; [|intros H; inversion H; subst; split; [reflexivity | split; [apply every_nil | simpl; lia]]].
    destruct (take_while_n p n s) as [a' r'] eqn:E. intros H; inversion H; subst.
    destruct (IH _ _ _ E) as (-> & H2 & H3).
    split; [reflexivity | split; [apply every_cons; split; assumption | simpl; lia]].
Qed.

Lemma parse_scheme_inv s sch s1 : parse_scheme s = Some (sch, s1) -> s = sch ++ s1 /\ scheme_shape sch.
Proof.
  unfold parse_scheme. destruct s as [|c r]; [discriminate|].
  rewrite <- lower_letter_table. destruct (is_lower_letter c) eqn:Ec; [|discriminate].
  change (Z.to_nat origins_maxSchemeLen - 1)%nat with 63%nat.
  destruct (take_while_n _ 63 r) as [a rest] eqn:E. intros H; inversion H; subst.
  destruct (take_while_n_inv _ _ _ _ _ E) as (-> & H2 & H3).
  split; [reflexivity|]. exists c, a. split; [reflexivity|]. split; [exact Ec|]. split.
  - eapply every_ext; [|exact H2]. intros x. symmetry. apply scheme_byte_table.
  - simpl. lia.
Qed.

Lemma parse_scheme_complete sch rest : scheme_shape sch ->
  parse_scheme (sch ++ b "://" ++ rest) = Some (sch, b "://" ++ rest).
Proof.
  intros (c & r & -> & Hc & Hr & Hlen). cbn [app parse_scheme].
  rewrite <- lower_letter_table, Hc. change (Z.to_nat origins_maxSchemeLen - 1)%nat with 63%nat.
  rewrite take_while_n_app; [reflexivity| | |].
  - apply every_all_bytes. eapply every_ext; [|exact Hr]. apply scheme_byte_table.
  - simpl in Hlen. lia.
  - right. reflexivity.
Qed.

(* ========================================================================================== *)
(* 3. the plain host: host_loop                                                                 *)

Definition hostb (c : N) : bool := is_label_byte c || (c =? 46).

(* every byte is a dot, a label byte, or a byte at which the loop stops *)
Lemma byte_cases c : c = 46 \/ label_byte c = true \/ stop_byte c = true.
Proof.
  unfold stop_byte. destruct (N.eqb_spec c 46) as [->|_]; [left; reflexivity|].
  destruct (label_byte c); [right; left; reflexivity | right; right; reflexivity].
Qed.

Lemma stop_byte_ends c t : stop_byte c = true -> ends_host (c :: t).
Proof.
  unfold stop_byte. intros H x y E. inversion E; subst x y. rewrite label_byte_eq. split; [lia|].
  intros ->. discriminate.
Qed.

Lemma ends_host_stops rest : ends_host rest -> stops rest = true.
Proof.
  destruct rest as [|c t]; [reflexivity|]. intros H. destruct (H c t eq_refl) as [H1 H2].
  unfold stops, stop_byte. rewrite <- label_byte_eq, H1. apply N.eqb_neq in H2. rewrite H2. reflexivity.
Qed.

Lemma ends_host_nil : ends_host [].
Proof. intros c t E. discriminate. Qed.

Lemma no_dd_cons c h : (forall u w, c :: h <> u ++ [46; 46] ++ w) -> forall u w, h <> u ++ [46; 46] ++ w.
Proof. intros H u w E. apply (H (c :: u) w). rewrite E. reflexivity. Qed.

(* what the loop returns: a split of its input into a maximal run of host bytes and the rest *)
Lemma host_loop_inv : forall s first prev ip4 h rest v,
  host_loop s first prev ip4 = Some (h, rest, v) ->
  s = h ++ rest /\ every hostb h /\ ends_host rest /\
  (prev = true -> forall t, h <> 46 :: t) /\ (forall u w, h <> u ++ [46; 46] ++ w).
Proof.
  induction s as [|c r IH]; intros first prev ip4 h rest v H.
  - cbn [host_loop] in H. inversion H; subst.
    split; [reflexivity|]. split; [apply every_nil|]. split; [apply ends_host_nil|].
    split; [intros _ t; discriminate | intros [|? ?] w; discriminate].
  - destruct (byte_cases c) as [->|[Hc|Hc]].
    + rewrite host_loop_dot_gen in H. destruct prev; [discriminate|].
      destruct (host_loop r false true ip4) as [[[h0 r0] v0]|] eqn:E; [|discriminate].
      cbn [host_prep app] in H. inversion H; subst.
      destruct (IH _ _ _ _ _ _ E) as (-> & H2 & H3 & H4 & H5).
      split; [reflexivity|]. split; [apply every_cons; split; [reflexivity | exact H2]|].
      split; [exact H3|]. split; [discriminate|].
      intros [|x u] w Eq; cbn [app] in Eq; inversion Eq; subst.
      * exact (H4 eq_refl _ eq_refl).
      * exact (H5 _ _ eq_refl).
    + rewrite (host_loop_cons_label c _ _ _ _ Hc) in H.
      destruct (host_loop r false false _) as [[[h0 r0] v0]|] eqn:E; [|discriminate].
      cbn [host_prep app] in H. inversion H; subst.
      destruct (IH _ _ _ _ _ _ E) as (-> & H2 & H3 & H4 & H5).
      pose proof (label_byte_not_dot c Hc) as Hnd.
      split; [reflexivity|]. split; [apply every_cons; split; [unfold hostb; rewrite label_byte_eq, Hc; reflexivity | exact H2]|].
      split; [exact H3|]. split; [intros _ t Eq; inversion Eq; subst; discriminate|].
      intros [|x u] w Eq; cbn [app] in Eq; inversion Eq; subst.
      * discriminate.
      * exact (H5 _ _ eq_refl).
    + rewrite (host_loop_stops (c :: r) first prev ip4 Hc) in H. inversion H; subst.
      split; [reflexivity|]. split; [apply every_nil|]. split; [apply stop_byte_ends; exact Hc|].
      split; [intros _ t; discriminate | intros [|? ?] w; discriminate].
Qed.

Lemma hostb_cases c : hostb c = true -> c = 46 \/ label_byte c = true.
Proof. unfold hostb. rewrite label_byte_eq. destruct (label_byte c); [right; reflexivity|]. cbn [orb]. intros H. left. lia. Qed.

(* conversely: on such a split the loop succeeds *)
Lemma host_loop_complete : forall h first prev ip4 rest,
  every hostb h -> (prev = true -> forall t, h <> 46 :: t) -> (forall u w, h <> u ++ [46; 46] ++ w) ->
  ends_host rest -> exists v, host_loop (h ++ rest) first prev ip4 = Some (h, rest, v).
Proof.
  induction h as [|c h IH]; intros first prev ip4 rest Hh Hp Hdd Hr.
  - exists ip4. cbn [app]. apply host_loop_stops, ends_host_stops, Hr.
  - apply every_cons in Hh. destruct Hh as [Hc Hh]. cbn [app].
    destruct (hostb_cases c Hc) as [->|Hl].
    + rewrite host_loop_dot_gen. destruct prev; [exfalso; exact (Hp eq_refl h eq_refl)|].
      destruct (IH false true ip4 rest Hh) as [v Hv].
      * intros _ t ->. exact (Hdd [] t eq_refl).
      * exact (no_dd_cons _ _ Hdd).
      * exact Hr.
      * exists v. rewrite Hv. reflexivity.
    + rewrite (host_loop_cons_label c _ _ _ _ Hl).
      match goal with |- context [host_loop _ false false ?i] =>
        destruct (IH false false i rest Hh) as [v Hv] end.
      * discriminate.
      * exact (no_dd_cons _ _ Hdd).
      * exact Hr.
      * exists v. rewrite Hv. reflexivity.
Qed.

(* ---- the IPv4 hint ---- *)
(* loop invariant: [h0] is what has been consumed, (first, prev, ip4) the state of the loop *)
Definition ip_inv (h0 : bytes) (first prev ip4 : bool) : Prop :=
  (h0 = [] /\ first = true /\ prev = false /\ ip4 = false) \/
  (first = false /\
   exists pre lab dot,
     h0 = pre ++ lab ++ dot /\ lab <> [] /\ ~ In 46 lab /\
     (pre = [] \/ exists pre', pre = pre' ++ [46]) /\
     ((prev = false /\ dot = []) \/ (prev = true /\ dot = [46])) /\
     ip4 = is_digit (hd 0 lab)).

Lemma ip_inv_flag h0 first prev ip4 : ip_inv h0 first prev ip4 -> ip_flag h0 ip4.
Proof.
  intros [(-> & _ & _ & ->)|(_ & pre & lab & dot & H1 & H2 & H3 & H4 & H5 & H6)].
  - left. split; reflexivity.
  - right. exists pre, lab, dot. repeat split; try assumption.
    destruct H5 as [[_ ->]|[_ ->]]; [left|right]; reflexivity.
Qed.

Lemma ip_inv_dot h0 first ip4 : h0 <> [] -> ip_inv h0 first false ip4 -> ip_inv (h0 ++ [46]) false true ip4.
Proof.
  intros Hne [(-> & _)|(_ & pre & lab & dot & H1 & H2 & H3 & H4 & H5 & H6)]; [congruence|].
  destruct H5 as [[_ ->]|[Hf _]]; [|discriminate].
  right. split; [reflexivity|]. exists pre, lab, [46]. rewrite H1, app_nil_r, <- app_assoc.
  repeat split; try assumption. right. split; reflexivity.
Qed.

Lemma hd_app_nonempty (l : bytes) x : l <> [] -> hd 0 (l ++ [x]) = hd 0 l.
Proof. destruct l; [congruence | reflexivity]. Qed.

Lemma ip_inv_label h0 first prev ip4 c : label_byte c = true -> ip_inv h0 first prev ip4 ->
  ip_inv (h0 ++ [c]) false false
    (if is_dig c then (if prev || first then true else ip4) else (if prev then false else ip4)).
Proof.
  intros Hc Hinv. pose proof (label_byte_not_dot c Hc) as Hnd. apply N.eqb_neq in Hnd.
  right. split; [reflexivity|].
  destruct Hinv as [(-> & -> & -> & ->)|(-> & pre & lab & dot & H1 & H2 & H3 & H4 & H5 & H6)].
  - exists [], [c], []. cbn [app orb hd]. change is_digit with is_dig.
    split; [reflexivity|]. split; [discriminate|]. split; [intros [E|[]]; congruence|].
    split; [left; reflexivity|]. split; [left; split; reflexivity|]. destruct (is_dig c); reflexivity.
  - destruct H5 as [[-> ->]|[-> ->]].
    + exists pre, (lab ++ [c]), []. rewrite H1, !app_nil_r, <- app_assoc.
      split; [reflexivity|]. split; [destruct lab; discriminate|].
      split; [intros Hin; apply in_app_or in Hin; destruct Hin as [Hin|[E|[]]]; [exact (H3 Hin) | congruence]|].
      split; [exact H4|]. split; [left; split; reflexivity|].
      rewrite (hd_app_nonempty lab c H2). cbn [orb]. destruct (is_dig c); exact H6.
    + exists ((pre ++ lab) ++ [46]), [c], []. rewrite H1. cbn [orb hd]. change is_digit with is_dig.
      split; [rewrite app_nil_r, <- !app_assoc; reflexivity|]. split; [discriminate|].
      split; [intros [E|[]]; congruence|]. split; [right; eexists; reflexivity|].
      split; [left; split; reflexivity|]. destruct (is_dig c); reflexivity.
Qed.

Lemma host_loop_ip : forall s first prev ip4 h rest v,
  host_loop s first prev ip4 = Some (h, rest, v) ->
  forall h0, ip_inv h0 first prev ip4 -> (h0 = [] -> forall t, s <> 46 :: t) -> ip_flag (h0 ++ h) v.
Proof.
  induction s as [|c r IH]; intros first prev ip4 h rest v H h0 Hinv Hld.
  - cbn [host_loop] in H. inversion H; subst. rewrite app_nil_r. exact (ip_inv_flag _ _ _ _ Hinv).
  - destruct (byte_cases c) as [->|[Hc|Hc]].
    + rewrite host_loop_dot_gen in H. destruct prev; [discriminate|].
      destruct (host_loop r false true ip4) as [[[h1 r1] v1]|] eqn:E; [|discriminate].
      cbn [host_prep app] in H. inversion H; subst.
      assert (Hne : h0 <> []) by (intros E0; exact (Hld E0 r eq_refl)).
      replace (h0 ++ 46 :: h1) with ((h0 ++ [46]) ++ h1) by (rewrite <- app_assoc; reflexivity).
      apply (IH _ _ _ _ _ _ E); [exact (ip_inv_dot _ _ _ Hne Hinv)|].
      intros E0. destruct h0; discriminate.
    + rewrite (host_loop_cons_label c _ _ _ _ Hc) in H.
      destruct (host_loop r false false _) as [[[h1 r1] v1]|] eqn:E; [|discriminate].
      cbn [host_prep app] in H. inversion H; subst.
      replace (h0 ++ c :: h1) with ((h0 ++ [c]) ++ h1) by (rewrite <- app_assoc; reflexivity).
      apply (IH _ _ _ _ _ _ E); [exact (ip_inv_label _ _ _ _ _ Hc Hinv)|].
      intros E0. destruct h0; discriminate.
    + rewrite (host_loop_stops (c :: r) first prev ip4 Hc) in H. inversion H; subst.
      rewrite app_nil_r. exact (ip_inv_flag _ _ _ _ Hinv).
Qed.

(* the hint is determined by the host text *)
Lemma last_label_unique : forall pre pre' lab lab' : bytes,
  pre ++ lab = pre' ++ lab' -> ~ In 46 lab -> ~ In 46 lab' ->
  (pre = [] \/ exists q, pre = q ++ [46]) -> (pre' = [] \/ exists q, pre' = q ++ [46]) -> lab = lab'.
Proof.
  assert (Hends : forall (a : N) (pr q : bytes), a :: pr = q ++ [46] -> pr = [] \/ exists q', pr = q' ++ [46]).
  { intros a pr [|x q] E; inversion E; [left; reflexivity | right; eexists; reflexivity]. }
  induction pre as [|a pr IH]; intros pre' lab lab' E Hl Hl' Hp Hp'.
  - destruct Hp' as [->|[q ->]]; [exact E|]. exfalso. apply Hl. cbn [app] in E. rewrite E, <- app_assoc.
    apply in_or_app. right. left. reflexivity.
  - destruct Hp as [Hp|[q Hq]]; [discriminate|].
    destruct pre' as [|a' pr'].
    + exfalso. apply Hl'. assert (E' : lab' = (q ++ [46]) ++ lab) by (rewrite <- Hq; symmetry; exact E).
      rewrite E', <- app_assoc. apply in_or_app. right. left. reflexivity.
    + cbn [app] in E. inversion E; subst a'.
      destruct Hp' as [Hp'|[q' Hq']]; [discriminate|].
      exact (IH pr' lab lab' H1 Hl Hl' (Hends _ _ _ Hq) (Hends _ _ _ Hq')).
Qed.

Lemma ip_flag_fun h ip ip' : ip_flag h ip -> ip_flag h ip' -> ip = ip'.
Proof.
  assert (Hnil : forall pre lab dot : bytes, lab <> [] -> [] <> pre ++ lab ++ dot).
  { intros pre lab dot Hl E. destruct pre; [destruct lab; [congruence | discriminate] | discriminate]. }
  assert (Hmix : forall pre lab pre' lab' : bytes, lab <> [] -> ~ In 46 lab ->
            pre ++ lab ++ [] = pre' ++ lab' ++ [46] -> False).
  { intros pre lab pre' lab' Hne Hl E. destruct (exists_last Hne) as (l & x & ->).
    rewrite app_nil_r, !app_assoc in E. apply app_inj_tail in E. destruct E as [_ ->].
    apply Hl, in_or_app. right. left. reflexivity. }
  intros [(-> & ->)|(pre & lab & dot & H1 & H2 & H3 & H4 & H5 & H6)]
         [(E & ->)|(pre' & lab' & dot' & H1' & H2' & H3' & H4' & H5' & H6')].
  - reflexivity.
  - exfalso. exact (Hnil _ _ _ H2' H1').
  - exfalso. subst h. exact (Hnil _ _ _ H2 (eq_sym E)).
  - subst ip ip'. f_equal. f_equal. rewrite H1 in H1'.
    destruct H5 as [->| ->]; destruct H5' as [->| ->].
    + rewrite !app_nil_r in H1'. exact (last_label_unique _ _ _ _ H1' H3 H3' H4 H4').
    + exfalso. exact (Hmix _ _ _ _ H2 H3 H1').
    + exfalso. exact (Hmix _ _ _ _ H2' H3' (eq_sym H1')).
    + rewrite !app_assoc in H1'. apply app_inj_tail in H1'. destruct H1' as [H1' _].
      exact (last_label_unique _ _ _ _ H1' H3 H3' H4 H4').
Qed.

(* ========================================================================================== *)
(* 4. fast_parse_host                                                                           *)

Lemma host_loop_plain s h rest v : host_loop s true false false = Some (h, rest, v) ->
  s <> [] -> (forall t, s <> 46 :: t) -> s = h ++ rest /\ host_shape h rest h v.
Proof.
  intros H Hne Hld. destruct (host_loop_inv _ _ _ _ _ _ _ H) as (E & H2 & H3 & _ & H5).
  split; [exact E|]. right. split; [reflexivity|]. split; [|split; [exact H3 | split]].
  - split; [exact H2|]. split; [|exact H5]. intros t ->. exact (Hld _ E).
  - rewrite <- E. exact Hne.
  - apply (host_loop_ip _ _ _ _ _ _ _ H []); [left; repeat split | intros _; exact Hld].
Qed.

Lemma cut_byte_inv c : forall s u v, cut_byte c s = Some (u, v) -> s = u ++ c :: v /\ ~ In c u.
Proof.
  induction s as [|x s IH]; intros u v; cbn [cut_byte]; [discriminate|].
  destruct (N.eqb_spec x c) as [->|Hx].
  - intros H; inversion H; subst. split; [reflexivity | intros []].
  - destruct (cut_byte c s) as [[u' v']|]; [|discriminate]. intros H; inversion H; subst.
    destruct (IH _ _ eq_refl) as [-> Hn]. split; [reflexivity|]. intros [E|Hin]; [congruence | exact (Hn Hin)].
Qed.

Lemma fast_parse_host_inv s2 h s3 : fast_parse_host s2 = Some (h, s3) ->
  exists hosttext, s2 = hosttext ++ s3 /\ host_shape hosttext s3 (hvalue h) (assume_ip h).
Proof.
  destruct s2 as [|c r]; [discriminate|]. destruct (N.eq_dec c 91) as [->|Hc].
  - rewrite fast_parse_host_bracket. destruct (Nat.leb_spec 4 (length (91 :: r))) as [Hlen|Hlen].
    + destruct (cut_byte 93 (91 :: r)) as [[bf af]|] eqn:E; [|discriminate].
      intros H; inversion H; subst. cbn [hvalue assume_ip].
      destruct (cut_byte_inv _ _ _ _ E) as [E1 Hn]. destruct bf as [|x bf]; [discriminate|].
      cbn [app] in E1. inversion E1; subst x. cbn [tl].
      exists ([91] ++ bf ++ [93]). split; [cbn [app]; rewrite <- app_assoc; reflexivity|].
      left. split; [reflexivity|]. split; [intros Hin; apply Hn; right; exact Hin|]. split; [reflexivity|].
      replace (([91] ++ bf ++ [93]) ++ s3) with (91 :: r); [exact Hlen|].
      rewrite E1. cbn [app]. rewrite <- app_assoc. reflexivity.
    + destruct (host_loop (91 :: r) true false false) as [[[h0 r0] v0]|] eqn:E; [|discriminate].
      intros H; inversion H; subst. cbn [hvalue assume_ip].
      destruct (host_loop_plain _ _ _ _ E) as [E1 Hs]; [discriminate | intros t; discriminate|].
      exists h0. split; assumption.
  - rewrite (fast_parse_host_generic c r Hc). rewrite label_sep_eq.
    destruct (N.eqb_spec c 46) as [->|Hd]; [discriminate|].
    destruct (host_loop (c :: r) true false false) as [[[h0 r0] v0]|] eqn:E; [|discriminate].
    intros H; inversion H; subst. cbn [hvalue assume_ip].
    destruct (host_loop_plain _ _ _ _ E) as [E1 Hs]; [discriminate | intros t Et; inversion Et; congruence|].
    exists h0. split; assumption.
Qed.

Lemma In_memN_false c l : ~ In c l -> memN c l = false.
Proof. intros H. destruct (memN c l) eqn:E; [|reflexivity]. exfalso. exact (H (memN_In _ _ E)). Qed.

(* [porttext] is any text here; the side condition excludes an empty host followed by "[" *)
Lemma fast_parse_host_complete hosttext porttext h ip :
  host_shape hosttext porttext h ip -> (hosttext <> [] \/ forall t, porttext <> 91 :: t) ->
  fast_parse_host (hosttext ++ porttext) = Some ({| hvalue := h; assume_ip := ip |}, porttext).
Proof.
  intros [(-> & Hn & -> & Hlen)|(-> & (Hb & Hld & Hdd) & Hend & Hne & Hip)] Hport.
  - rewrite <- !app_assoc in *. apply fast_parse_host_ip6; [apply In_memN_false, Hn | exact Hlen].
  - destruct (host_loop_complete h true false false porttext Hb ltac:(discriminate) Hdd Hend) as [v Hv].
    assert (Hs : h ++ porttext <> [] /\ forall t, h ++ porttext <> 46 :: t).
    { split; [exact Hne|]. intros t E. destruct h as [|x h'].
      - cbn [app] in E. destruct (Hend _ _ E) as [_ H]. congruence.
      - cbn [app] in E. inversion E; subst x. exact (Hld _ eq_refl). }
    destruct Hs as [_ Hs].
    assert (Hip' : ip_flag ([] ++ h) v).
    { apply (host_loop_ip _ _ _ _ _ _ _ Hv []); [left; repeat split | intros _; exact Hs]. }
    cbn [app] in Hip'.
    rewrite (ip_flag_fun _ _ _ Hip Hip').
    destruct (h ++ porttext) as [|c r] eqn:E; [congruence|].
    assert (Hc : c <> 91).
    { intros ->. destruct h as [|x h'].
      - cbn [app] in E. destruct Hport as [Hport|Hport]; [congruence | exact (Hport _ E)].
      - cbn [app] in E. inversion E; subst x. pose proof (Hb 91 (or_introl eq_refl)) as Hx. discriminate. }
    rewrite (fast_parse_host_generic c r Hc), label_sep_eq.
    destruct (N.eqb_spec c 46) as [->|_]; [exfalso; exact (Hs r eq_refl)|].
    rewrite Hv. reflexivity.
Qed.

(* ========================================================================================== *)
(* 5. port                                                                                      *)

Lemma port_loop_inv : forall n s acc p rest, port_loop s n acc = (p, rest) -> (0 <= acc)%Z ->
  exists ds, s = ds ++ rest /\ every is_digit ds /\ (length ds <= n)%nat /\
             p = Z.of_N (atoi_acc ds (Z.to_N acc)).
Proof.
  assert (Hstop : forall (n : nat) s acc, (0 <= acc)%Z ->
            exists ds : bytes, s = ds ++ s /\ every is_digit ds /\ (length ds <= n)%nat /\
                               acc = Z.of_N (atoi_acc ds (Z.to_N acc))).
  { intros n s acc Hacc. exists []. split; [reflexivity|]. split; [apply every_nil|]. split; [simpl; lia|].
    cbn [atoi_acc]. lia. }
  induction n as [|n IH]; intros s acc p rest H Hacc.
  - destruct s; cbn [port_loop] in H; inversion H; subst; apply Hstop; exact Hacc.
  - destruct s as [|c r]; [cbn [port_loop] in H; inversion H; subst; apply Hstop; exact Hacc|].
    cbn [port_loop] in H. rewrite <- digit_table in H. destruct (is_digit c) eqn:Ec.
    + apply IH in H; [|unfold origins_parsePort_base, is_digit in *; lia].
      destruct H as (ds & -> & H2 & H3 & ->). exists (c :: ds).
      split; [reflexivity|]. split; [apply every_cons; split; assumption|]. split; [simpl; lia|].
      cbn [atoi_acc]. do 2 f_equal. unfold origins_parsePort_base, is_digit in *. lia.
    + inversion H; subst. apply Hstop; exact Hacc.
Qed.

Lemma atoi_acc_ge : forall ds a, a <= atoi_acc ds a.
Proof. induction ds as [|c ds IH]; intros a; cbn [atoi_acc]; [lia|]. specialize (IH (10 * a + (c - 48))). lia. Qed.

Lemma parse_port_inv s p : parse_port s = Some (p, []) -> port_shape ([58] ++ s) p.
Proof.
  unfold parse_port. destruct s as [|c r]; [discriminate|].
  rewrite nonzeroDigits_char. destruct (nonzero_dig c) eqn:Ec; [|discriminate].
  change (Z.to_nat origins_maxPortLen - 1)%nat with 4%nat.
  destruct (port_loop r 4 (Z.of_N c - 48)) as [q rest] eqn:E.
  destruct ((q <? 0)%Z || (origins_maxUint16 <? q)%Z) eqn:Er; [discriminate|].
  intros H; inversion H; subst. unfold nonzero_dig in Ec.
  apply port_loop_inv in E; [|lia]. destruct E as (ds & -> & H2 & H3 & ->). rewrite app_nil_r.
  right. exists c, ds. split; [reflexivity|].
  split; [apply every_cons; split; [unfold is_digit; lia | exact H2]|]. split; [lia|]. split; [simpl; lia|].
  assert (Ea : Z.to_N (Z.of_N c - 48) = 10 * 0 + (c - 48)) by lia. rewrite Ea in *.
  unfold atoi. cbn [atoi_acc]. split; [reflexivity|].
  pose proof (atoi_acc_ge ds (10 * 0 + (c - 48))). unfold origins_maxUint16 in Er. lia.
Qed.

Lemma parse_port_complete d ds p :
  every is_digit (d :: ds) -> d <> 48 -> (length (d :: ds) <= 5)%nat -> p = Z.of_N (atoi (d :: ds)) ->
  (1 <= p <= 65535)%Z -> parse_port (d :: ds) = Some (p, []).
Proof.
  intros Hd Hnz Hlen -> Hp. apply every_cons in Hd. destruct Hd as [Hd Hds].
  rewrite <- (app_nil_r (d :: ds)) at 1. rewrite parse_port_digits.
  - destruct (N.ltb_spec 65535 (atoi (d :: ds))); [lia | reflexivity].
  - unfold nonzero_dig, is_digit in *. lia.
  - apply every_all_bytes. exact Hds.
  - simpl in Hlen. lia.
  - exact I.
Qed.

(* ========================================================================================== *)
(* 6. soundness, completeness, functionality                                                    *)

Theorem parse_sound : forall v o, parse v = Some o ->
  origin_value v (oscheme o) (hvalue (ohost o)) (assume_ip (ohost o)) (oport o).
Proof.
  intros v o. unfold parse.
  destruct (Z.ltb_spec origins_Parse_maxOriginLen (Z.of_nat (length v))) as [|Hlen]; [discriminate|].
  unfold origins_Parse_maxOriginLen in Hlen.
  destruct (parse_scheme v) as [[sch s1]|] eqn:E1; [|discriminate].
  destruct (cut_prefix origins_schemeHostSep s1) as [s2|] eqn:E2; [|discriminate].
  destruct (fast_parse_host s2) as [[h s3]|] eqn:E3; [|discriminate].
  destruct (parse_scheme_inv _ _ _ E1) as [Ev Hsch].
  apply cut_prefix_inv in E2. change origins_schemeHostSep with (b "://") in E2.
  destruct (fast_parse_host_inv _ _ _ E3) as (hosttext & Es2 & Hhost).
  assert (Ev' : v = sch ++ b "://" ++ hosttext ++ s3) by (rewrite Ev, E2, Es2; reflexivity).
  destruct s3 as [|c s3'].
  - intros H; inversion H; subst o. cbn [oscheme ohost oport].
    exists hosttext, []. split; [exact Ev'|]. split; [lia|]. split; [exact Hsch|]. split; [exact Hhost|].
    left. split; reflexivity.
  - destruct (cut_prefix [host_port_sep] (c :: s3')) as [s4|] eqn:E4; [|discriminate].
    apply cut_prefix_inv in E4. rewrite host_port_sep_eq in E4.
    destruct (parse_port s4) as [[p [|? ?]]|] eqn:E5; try discriminate.
    intros H; inversion H; subst o. cbn [oscheme ohost oport].
    exists hosttext, (c :: s3'). split; [exact Ev'|]. split; [lia|]. split; [exact Hsch|]. split; [exact Hhost|].
    rewrite E4. exact (parse_port_inv _ _ E5).
Qed.

(* the parser on  scheme "://" hosttext ++ rest  for ANY rest: what remains is the port stage
   ([after_host_o], Proofs/GrammarP.v) *)
Lemma parse_front_value sch hosttext rest h ip :
  scheme_shape sch -> host_shape hosttext rest h ip -> (hosttext <> [] \/ forall t, rest <> 91 :: t) ->
  (length (sch ++ b "://" ++ hosttext ++ rest) <= 327)%nat ->
  parse (sch ++ b "://" ++ hosttext ++ rest) = after_host_o sch {| hvalue := h; assume_ip := ip |} rest.
Proof.
  intros Hsch Hhost Hside Hlen. unfold parse.
  destruct (Z.ltb_spec origins_Parse_maxOriginLen (Z.of_nat (length (sch ++ b "://" ++ hosttext ++ rest)))) as [Hgt|_];
    [unfold origins_Parse_maxOriginLen in Hgt; lia|].
  rewrite (parse_scheme_complete sch _ Hsch).
  change origins_schemeHostSep with (b "://"). rewrite cut_prefix_app_same.
  rewrite (fast_parse_host_complete hosttext rest h ip Hhost Hside). reflexivity.
Qed.

Theorem parse_complete : forall v sch h ip p, origin_value v sch h ip p ->
  parse v = Some {| oscheme := sch; ohost := {| hvalue := h; assume_ip := ip |}; oport := p |}.
Proof.
  intros v sch h ip p (hosttext & porttext & -> & Hlen & Hsch & Hhost & Hport).
  rewrite (parse_front_value sch hosttext porttext h ip Hsch Hhost); [| |exact Hlen].
  - destruct Hport as [[-> ->]|(d & ds & -> & Hd & Hnz & Hl & Hp & Hr)]; [reflexivity|].
    unfold after_host_o. cbn [app cut_prefix]. rewrite host_port_sep_eq, N.eqb_refl.
    rewrite (parse_port_complete d ds p Hd Hnz Hl Hp Hr). reflexivity.
  - right. destruct Hport as [[-> _]|(d & ds & -> & _)]; intros t; discriminate.
Qed.

(* the relation is functional in v; it holds exactly of the parser's result *)
Theorem parse_functional : forall v sch h ip p sch' h' ip' p',
  origin_value v sch h ip p -> origin_value v sch' h' ip' p' -> sch = sch' /\ h = h' /\ ip = ip' /\ p = p'.
Proof.
  intros v sch h ip p sch' h' ip' p' H H'. apply parse_complete in H, H'. rewrite H in H'.
  inversion H'; subst. repeat split.
Qed.

Theorem parse_iff : forall v o, parse v = Some o <->
  origin_value v (oscheme o) (hvalue (ohost o)) (assume_ip (ohost o)) (oport o).
Proof.
  intros v o. split; [apply parse_sound|]. intros H. apply parse_complete in H.
  destruct o as [s [hv i] q]. exact H.
Qed.

(* ========================================================================================== *)
(* 7. corollaries                                                                               *)

(* ---- 7.1 bytes of the scheme and of a plain host ---- *)
Lemma scheme_byte_lower_ascii c : is_scheme_byte c = true -> 0 < c < 128 /\ ~ (65 <= c <= 90).
Proof. unfold is_scheme_byte, is_lower_letter, is_digit. lia. Qed.
Lemma host_byte_lower_ascii c : is_label_byte c || (c =? 46) = true -> 0 < c < 128 /\ ~ (65 <= c <= 90).
Proof. unfold is_label_byte, is_lower_letter, is_digit. lia. Qed.

Lemma scheme_shape_bytes sch : scheme_shape sch -> every is_scheme_byte sch.
Proof.
  intros (c & r & -> & Hc & Hr & _). apply every_cons. split; [|exact Hr].
  unfold is_scheme_byte. rewrite Hc. reflexivity.
Qed.

(* without an opening bracket in the value, the host is made of label bytes and dots *)
Theorem parse_bytes v o : parse v = Some o ->
  every is_scheme_byte (oscheme o) /\
  (~ In 91 v -> every (fun c => is_label_byte c || (c =? 46)) (hvalue (ohost o))).
Proof.
  intros H. apply parse_sound in H. destruct H as (ht & pt & Ev & _ & Hsch & Hhost & _).
  split; [exact (scheme_shape_bytes _ Hsch)|]. intros Hnb.
  destruct Hhost as [(-> & _)|(_ & (Hb & _) & _)]; [|exact Hb].
  exfalso. apply Hnb. rewrite Ev. apply in_or_app. right. apply in_or_app. right. left. reflexivity.
Qed.

Definition value_byte (c : N) : bool := is_scheme_byte c || (c =? 58) || (c =? 47).

Lemma port_shape_bytes pt p : port_shape pt p -> every value_byte pt.
Proof.
  intros [[-> _]|(d & ds & -> & Hd & _)]; [apply every_nil|].
  apply every_cons. split; [reflexivity|]. intros c Hc. apply Hd in Hc.
  unfold value_byte, is_scheme_byte. rewrite Hc. rewrite orb_true_r. reflexivity.
Qed.

Lemma every_app p s t : every p s -> every p t -> every p (s ++ t).
Proof. intros Hs Ht c Hc. apply in_app_or in Hc. destruct Hc; auto. Qed.

(* all bytes of a bracket-less value are  a-z 0-9 + - . _ : /  *)
Theorem parse_plain_bytes v o : parse v = Some o -> ~ In 91 v -> every value_byte v.
Proof.
  intros H Hnb. destruct (parse_bytes v o H) as [Hs Hh]. specialize (Hh Hnb).
  apply parse_sound in H. destruct H as (ht & pt & Ev & _ & _ & Hhost & Hport).
  assert (Hht : ht = hvalue (ohost o)).
  { destruct Hhost as [(-> & _)|(E & _)]; [|exact E].
    exfalso. apply Hnb. rewrite Ev. apply in_or_app. right. apply in_or_app. right. left. reflexivity. }
  rewrite Ev, Hht. apply every_app; [|apply every_app; [|apply every_app]].
  - intros c Hc. unfold value_byte. rewrite (Hs c Hc). reflexivity.
  - intros c [<-|[<-|[<-|[]]]]; reflexivity.
  - intros c Hc. apply Hh in Hc. cbv beta in Hc.
    unfold value_byte, is_scheme_byte, is_label_byte, is_lower_letter, is_digit in *. lia.
  - exact (port_shape_bytes _ _ Hport).
Qed.

(* hence: an upper-case letter, a NUL or a non-ASCII byte anywhere in a bracket-less value *)
Theorem parse_rejects_bad_byte v c : ~ In 91 v -> In c v -> (c = 0 \/ 128 <= c \/ 65 <= c <= 90) ->
  parse v = None.
Proof.
  intros Hnb Hc Hbad. destruct (parse v) as [o|] eqn:E; [|reflexivity]. exfalso.
  pose proof (parse_plain_bytes v o E Hnb c Hc) as H.
  unfold value_byte, is_scheme_byte, is_lower_letter, is_digit in H. lia.
Qed.

(* ---- 7.2 nothing may follow the host or the port ---- *)
Lemma host_shape_extend ht pt h ip x : host_shape ht pt h ip -> (pt = [] -> ends_host x) ->
  host_shape ht (pt ++ x) h ip.
Proof.
  intros [(E & Hn & Hi & Hlen)|(E & Hp & Hend & Hne & Hip)] Hx.
  - left. split; [exact E|]. split; [exact Hn|]. split; [exact Hi|]. rewrite app_assoc, app_length. lia.
  - right. split; [exact E|]. split; [exact Hp|]. split; [|split; [|exact Hip]].
    + destruct pt as [|c t]; [exact (Hx eq_refl)|]. intros c' t' Eq. cbn [app] in Eq. inversion Eq; subst.
      exact (Hend _ _ eq_refl).
    + rewrite app_assoc. intros Eq. apply app_eq_nil in Eq. destruct Eq as [Eq _]. exact (Hne Eq).
Qed.

(* [s] is a complete value, [c] cannot continue it: neither a host byte nor ":"; in particular
   "/" "?" "#" "@" " ", upper-case letters, NUL, non-ASCII bytes *)
Theorem parse_trailing_junk s o c t : parse s = Some o ->
  is_label_byte c = false -> c <> 46 -> c <> 58 -> parse (s ++ [c] ++ t) = None.
Proof.
  intros H Hl Hd Hc. apply parse_sound in H. destruct H as (ht & pt & -> & _ & Hsch & Hhost & Hport).
  destruct (le_lt_dec (length ((oscheme o ++ b "://" ++ ht ++ pt) ++ [c] ++ t)) 327) as [Hlen|Hlen].
  - assert (Hends : ends_host ([c] ++ t)) by (intros x y Eq; inversion Eq; subst; split; assumption).
    replace ((oscheme o ++ b "://" ++ ht ++ pt) ++ [c] ++ t)
      with (oscheme o ++ b "://" ++ ht ++ (pt ++ [c] ++ t)) in * by (rewrite <- !app_assoc; reflexivity).
    rewrite (parse_front_value _ ht (pt ++ [c] ++ t) _ _ Hsch (host_shape_extend _ _ _ _ _ Hhost (fun _ => Hends)));
      [| |exact Hlen].
    + destruct Hport as [[-> _]|(d & ds & -> & Hds & Hnz & Hlen5 & _)].
      * unfold after_host_o. cbn [app cut_prefix]. rewrite host_port_sep_eq.
        destruct (N.eqb_spec 58 c); [congruence | reflexivity].
      * unfold after_host_o. cbn [app cut_prefix]. rewrite host_port_sep_eq, N.eqb_refl.
        apply every_cons in Hds. destruct Hds as [Hd1 Hds].
        change (d :: ds ++ c :: t) with ((d :: ds) ++ c :: t). rewrite parse_port_digits.
        -- destruct (65535 <? atoi (d :: ds)); reflexivity.
        -- unfold nonzero_dig, is_digit in *. lia.
        -- apply every_all_bytes. exact Hds.
        -- simpl in Hlen5. lia.
        -- cbn [head_fails]. unfold is_label_byte in Hl. change is_dig with is_digit.
           destruct (is_digit c); [|reflexivity]. rewrite orb_true_r in Hl. discriminate.
    + destruct Hport as [[-> _]|(d & ds & -> & _)].
      * left. destruct Hhost as [(-> & _)|(<- & _ & _ & Hne & _)]; [discriminate|].
        rewrite app_nil_r in Hne. exact Hne.
      * right. intros t'. discriminate.
  - unfold parse. destruct (Z.ltb_spec origins_Parse_maxOriginLen (Z.of_nat (length ((oscheme o ++ b "://" ++ ht ++ pt) ++ [c] ++ t)))) as [_|Hle];
      [reflexivity | unfold origins_Parse_maxOriginLen in Hle; lia].
Qed.

Corollary parse_no_path_query_fragment_userinfo s o c t : parse s = Some o ->
  In c [47; 63; 35; 64; 32] -> parse (s ++ [c] ++ t) = None.
Proof.
  intros H Hc. apply (parse_trailing_junk s o c t H);
    destruct Hc as [<-|[<-|[<-|[<-|[<-|[]]]]]]; try reflexivity; discriminate.
Qed.

(* ---- 7.3 ports ---- *)
Lemma port_shape_leading_zero ds p : ~ port_shape ([58; 48] ++ ds) p.
Proof. intros [[E _]|(d & ds' & E & _ & Hnz & _)]; [discriminate|]. inversion E. congruence. Qed.
Lemma port_shape_no_digits p : ~ port_shape [58] p.
Proof. intros [[E _]|(d & ds' & E & _)]; discriminate. Qed.
Lemma port_shape_too_long ds p : (6 <= length ds)%nat -> ~ port_shape ([58] ++ ds) p.
Proof. intros Hl [[E _]|(d & ds' & E & _ & _ & Hlen & _)]; [discriminate|]. inversion E; subst. lia. Qed.
Lemma port_shape_too_big ds p : 65535 < atoi ds -> ~ port_shape ([58] ++ ds) p.
Proof. intros Hl [[E _]|(d & ds' & E & _ & _ & _ & Hp & Hr)]; [discriminate|]. inversion E; subst. lia. Qed.
Lemma port_shape_nondigit ds c p : In c ds -> is_digit c = false -> ~ port_shape ([58] ++ ds) p.
Proof.
  intros Hc Hnd [[E _]|(d & ds' & E & Hd & _)]; [discriminate|]. inversion E; subst.
  rewrite (Hd c Hc) in Hnd. discriminate.
Qed.

(* a port-less complete value followed by ":" and anything *)
Theorem parse_port_suffix s o ds : parse s = Some o -> oport o = 0%Z ->
  parse (s ++ [58] ++ ds) =
  match parse_port ds with
  | Some (p, []) => if (length (s ++ [58%N] ++ ds) <=? 327)%nat
                    then Some {| oscheme := oscheme o; ohost := ohost o; oport := p |} else None
  | _ => None
  end.
Proof.
  intros H Hp0. apply parse_sound in H. destruct H as (ht & pt & -> & _ & Hsch & Hhost & Hport).
  destruct Hport as [[-> _]|(d & ds' & _ & _ & _ & _ & _ & Hr)]; [|lia].
  rewrite app_nil_r in *.
  destruct (Nat.leb_spec (length ((oscheme o ++ b "://" ++ ht) ++ [58] ++ ds)) 327) as [Hlen|Hlen].
  - replace ((oscheme o ++ b "://" ++ ht) ++ [58] ++ ds)
      with (oscheme o ++ b "://" ++ ht ++ ([] ++ [58] ++ ds)) in * by (rewrite <- !app_assoc; reflexivity).
    rewrite (parse_front_value _ ht ([] ++ [58] ++ ds) (hvalue (ohost o)) (assume_ip (ohost o)) Hsch); [| |right; intros t; discriminate|exact Hlen].
    + unfold after_host_o. cbn [app cut_prefix]. rewrite host_port_sep_eq, N.eqb_refl.
      destruct (ohost o) as [hv i]. reflexivity.
    + apply host_shape_extend; [exact Hhost|]. intros _ x y Eq. inversion Eq; subst. split; [reflexivity|discriminate].
  - replace (parse _) with (@None origin).
    + destruct (parse_port ds) as [[p [|? ?]]|]; reflexivity.
    + unfold parse. destruct (Z.ltb_spec origins_Parse_maxOriginLen (Z.of_nat (length ((oscheme o ++ b "://" ++ ht) ++ [58] ++ ds)))) as [_|Hle];
        [reflexivity | unfold origins_Parse_maxOriginLen in Hle; lia].
Qed.

Theorem parse_bad_port s o ds : parse s = Some o -> oport o = 0%Z ->
  (forall p, ~ port_shape ([58] ++ ds) p) -> parse (s ++ [58] ++ ds) = None.
Proof.
  intros H Hp0 Hbad. rewrite (parse_port_suffix s o ds H Hp0).
  destruct (parse_port ds) as [[p [|? ?]]|] eqn:E; try reflexivity.
  exfalso. exact (Hbad p (parse_port_inv _ _ E)).
Qed.

Corollary parse_port_leading_zero s o ds : parse s = Some o -> oport o = 0%Z ->
  parse (s ++ [58; 48] ++ ds) = None.
Proof. intros H H0. apply (parse_bad_port s o (48 :: ds) H H0). intros p. apply port_shape_leading_zero. Qed.
Corollary parse_port_empty s o : parse s = Some o -> oport o = 0%Z -> parse (s ++ [58]) = None.
Proof. intros H H0. apply (parse_bad_port s o [] H H0). intros p. apply port_shape_no_digits. Qed.
Corollary parse_port_too_long s o ds : parse s = Some o -> oport o = 0%Z -> (6 <= length ds)%nat ->
  parse (s ++ [58] ++ ds) = None.
Proof. intros H H0 Hl. apply (parse_bad_port s o ds H H0). intros p. apply port_shape_too_long, Hl. Qed.
Corollary parse_port_too_big s o ds : parse s = Some o -> oport o = 0%Z -> 65535 < atoi ds ->
  parse (s ++ [58] ++ ds) = None.
Proof. intros H H0 Hl. apply (parse_bad_port s o ds H H0). intros p. apply port_shape_too_big, Hl. Qed.

(* a parsed port is absent (0) or in 1..65535, and a value with a port is a port-less value plus the port text *)
Corollary parse_port_range' v o : parse v = Some o -> (0 <= oport o <= 65535)%Z.
Proof.
  intros H. apply parse_sound in H. destruct H as (ht & pt & _ & _ & _ & _ & [[_ ->]|(d & ds & _ & _ & _ & _ & _ & Hr)]); lia.
Qed.

(* ---- 7.4 length ---- *)
Corollary parse_too_long v : (327 < length v)%nat -> parse v = None.
Proof.
  intros Hl. destruct (parse v) as [o|] eqn:E; [|reflexivity].
  apply parse_sound in E. destruct E as (ht & pt & _ & Hlen & _). lia.
Qed.
