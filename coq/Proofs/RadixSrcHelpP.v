(* Proofs/RadixSrcHelpP.v -- the helpers of the Gallina functions that tools/genradix generates from
   internal/origins/radix.go (Gen/RadixSrc.v) against the hand-written model (Model/Radix.v):
     go_lastByte_spec       : lastByte is [last_byte];
     go_split_spec          : splitAtCommonSuffix is [common_prefix] on the reversed strings (and never runs out of fuel);
     go_node_contains_spec  : node.contains is [ents_contains] on the zipped schemes/ports;
   and the contracts of the binary searches on sorted slices (slices_BinarySearch_N / slices_BinarySearch /
   slices_BinarySearch_Z) together with their link to the association lists of the model (find_kid, ents_find). *)
Require Import Base.Bytes Gen.Tables Model.Origins Model.Pattern Model.Radix Model.UtilRt Model.LoopRt Model.RadixRt
  Gen.RadixSrc Proofs.RadixAbs Proofs.HeadersP Proofs.RadixP.
From Coq Require Import Sorted ZifyBool ZifyNat ZifyN.
Open Scope bool_scope.
Open Scope N_scope.

(* ------------------------------------------------------------------------------------------ *)
(* lists                                                                                       *)

Lemma loop_n_S' : forall (St R : Type) n (body : St -> ctl St R) st,
  loop_n (S n) body st =
  match body st with Next s' => loop_n n body s' | Brk s' => Done s' | Ret r => Returned r | Exh => Exhausted end.
Proof. reflexivity. Qed.

Lemma firstn_S_snoc {A : Type} (d : A) : forall (l : list A) k, (k < length l)%nat ->
  firstn (S k) l = firstn k l ++ [nth k l d].
Proof.
  induction l as [|x l IH]; intros k Hk; cbn [length] in Hk; [lia|].
  destruct k as [|k]; [reflexivity|].
  change (firstn (S (S k)) (x :: l)) with (x :: firstn (S k) l).
  rewrite IH by lia. reflexivity.
Qed.

Lemma filter_nil_of_Forall {A : Type} (f : A -> bool) l : Forall (fun y => f y = false) l -> filter f l = [].
Proof. induction 1 as [|x r Hx _ IH]; cbn [filter]; [reflexivity|]. rewrite Hx. exact IH. Qed.

Lemma SS_impl {A : Type} (R R' : A -> A -> Prop) l : (forall x y, R x y -> R' x y) ->
  StronglySorted R l -> StronglySorted R' l.
Proof.
  intros H. induction 1 as [|x r _ IH Hx]; constructor; [exact IH|].
  eapply Forall_impl; [|exact Hx]. intros y; apply H.
Qed.

Lemma In_skipn_In {A : Type} (x : A) n l : In x (skipn n l) -> In x l.
Proof. intros H. rewrite <- (firstn_skipn n l). apply in_or_app. right. exact H. Qed.

Lemma In_firstn_In {A : Type} (x : A) n l : In x (firstn n l) -> In x l.
Proof. intros H. rewrite <- (firstn_skipn n l). apply in_or_app. left. exact H. Qed.

Lemma Forall2_nth_both {A B : Type} (P : A -> B -> Prop) da db : forall l1 l2, Forall2 P l1 l2 ->
  forall i, (i < length l1)%nat -> P (nth i l1 da) (nth i l2 db).
Proof.
  induction 1 as [|x y l1 l2 Hxy _ IH]; intros i Hi; cbn [length] in Hi; [lia|].
  destruct i as [|i]; [exact Hxy|]. cbn [nth]. apply IH. lia.
Qed.

(* ------------------------------------------------------------------------------------------ *)
(* lastByte                                                                                    *)

Lemma go_lastByte_spec (s : bytes) : go_lastByte s = last_byte s.
Proof.
  unfold go_lastByte, last_byte.
  destruct (rev s) as [|c r] eqn:E.
  - assert (Hs : s = []) by (rewrite <- (rev_involutive s), E; reflexivity). subst s. reflexivity.
  - assert (Hs : s = rev r ++ [c]) by (rewrite <- (rev_involutive s), E; reflexivity).
    rewrite Hs. rewrite app_length. cbn [length].
    replace (Z.of_nat (length (rev r) + 1) =? 0)%Z with false by lia.
    replace (Z.to_nat (Z.of_nat (length (rev r) + 1) - 1)) with (length (rev r)) by lia.
    rewrite nth_middle. reflexivity.
Qed.

Lemma last_byte_nil : last_byte [] = (0, false).
Proof. reflexivity. Qed.

Lemma last_byte_true_nonempty (s : bytes) l : last_byte s = (l, true) -> s <> [].
Proof. intros H ->. discriminate. Qed.

(* ------------------------------------------------------------------------------------------ *)
(* splitAtCommonSuffix                                                                         *)

(* the length of the common prefix *)
Fixpoint clen (x y : bytes) : nat :=
  match x, y with
  | a :: x', c :: y' => if a =? c then S (clen x' y') else O
  | _, _ => O
  end.

Lemma common_prefix_clen x y :
  common_prefix x y = (skipn (clen x y) x, skipn (clen x y) y, firstn (clen x y) x).
Proof.
  revert y; induction x as [|a x IH]; intros [|c y]; cbn [common_prefix clen]; try reflexivity.
  destruct (a =? c); [rewrite IH; reflexivity | reflexivity].
Qed.

Lemma clen_firstn_eq x y : firstn (clen x y) x = firstn (clen x y) y.
Proof.
  revert y; induction x as [|a x IH]; intros [|c y]; cbn [clen]; try reflexivity.
  destruct (a =? c) eqn:E; [|reflexivity]. apply N.eqb_eq in E. subst c.
  cbn [firstn]. f_equal. apply IH.
Qed.

Lemma clen_le x y : (clen x y <= length x)%nat /\ (clen x y <= length y)%nat.
Proof.
  revert y; induction x as [|a x IH]; intros [|c y]; cbn [clen length]; try lia.
  destruct (a =? c); [|lia]. specialize (IH y). lia.
Qed.

Lemma clen_sym x y : clen x y = clen y x.
Proof.
  revert y; induction x as [|a x IH]; intros [|c y]; cbn [clen]; try reflexivity.
  rewrite (N.eqb_sym c a). destruct (a =? c); [f_equal; apply IH | reflexivity].
Qed.

Lemma clen_firstn_r x y : clen x (firstn (length x) y) = clen x y.
Proof.
  revert y; induction x as [|a x IH]; intros [|c y]; cbn [clen length firstn]; try reflexivity.
  destruct (a =? c); [f_equal; apply IH | reflexivity].
Qed.

Definition split_body (s l : bytes) : Z -> ctl Z (bytes * bytes * bytes) := fun v_i =>
  if (((0)%Z <=? v_i)%Z && (N.eqb (nth (Z.to_nat v_i) s 0%N) (nth (Z.to_nat v_i) l 0%N))) then (
    let v_i := (v_i - 1)%Z in (Next v_i))
  else (Brk v_i).

Lemma split_loop s l : forall k fuel, (k <= length s)%nat -> (k <= length l)%nat -> (S k <= fuel)%nat ->
  loop_n fuel (split_body s l) (Z.of_nat k - 1)%Z =
  Done (Z.of_nat (k - clen (rev (firstn k s)) (rev (firstn k l))) - 1)%Z.
Proof.
  induction k as [|k IH]; intros fuel Hs Hl Hf; (destruct fuel as [|f]; [lia|]); rewrite loop_n_S'; unfold split_body at 1.
  - replace (0 <=? Z.of_nat 0 - 1)%Z with false by lia. cbn [andb]. reflexivity.
  - replace (0 <=? Z.of_nat (S k) - 1)%Z with true by lia. cbn [andb].
    replace (Z.to_nat (Z.of_nat (S k) - 1)) with k by lia.
    rewrite (firstn_S_snoc 0 s k) by lia. rewrite (firstn_S_snoc 0 l k) by lia.
    rewrite !rev_unit. cbn [clen].
    destruct (nth k s 0 =? nth k l 0).
    + cbv zeta. replace (Z.of_nat (S k) - 1 - 1)%Z with (Z.of_nat k - 1)%Z by lia.
      rewrite IH by lia. reflexivity.
    + f_equal; lia.
Qed.

Lemma split_core (s l : bytes) : (length s <= length l)%nat ->
  loop_n (S (length s)) (split_body s (skipn (length l - length s) l)) (Z.of_nat (length s) - 1)%Z =
  Done (Z.of_nat (length s - clen (rev s) (rev l)) - 1)%Z.
Proof.
  intros Hle.
  assert (Hlen : length (skipn (length l - length s) l) = length s) by (rewrite skipn_length; lia).
  rewrite split_loop by lia.
  rewrite firstn_all. rewrite <- Hlen at 2. rewrite firstn_all.
  rewrite <- firstn_rev. rewrite <- (rev_length s) at 2. rewrite clen_firstn_r. reflexivity.
Qed.

Lemma go_split_spec (a c : bytes) :
  go_splitAtCommonSuffix a c =
  let '(ra, rc, com) := common_prefix (rev a) (rev c) in Some (rev ra, rev rc, rev com).
Proof.
  rewrite common_prefix_clen. unfold go_splitAtCommonSuffix.
  pose proof (clen_le (rev a) (rev c)) as Hn. rewrite !rev_length in Hn.
  rewrite !skipn_rev, !rev_involutive.
  destruct (Z.of_nat (length c) <? Z.of_nat (length a))%Z eqn:Hlt; cbv beta iota zeta.
  - (* the shorter string is c *)
    replace (Z.to_nat (Z.of_nat (length a) - Z.of_nat (length c))) with (length a - length c)%nat by lia.
    replace (Z.to_nat (Z.of_nat (length c) - 1 + 1)) with (length c) by lia.
    change (fun v_i : Z => if (0 <=? v_i)%Z && (nth (Z.to_nat v_i) c 0 =? nth (Z.to_nat v_i) (skipn (length a - length c) a) 0)
                            then Next (v_i - 1)%Z else Brk v_i)
      with (split_body c (skipn (length a - length c) a)).
    rewrite split_core by lia. rewrite (clen_sym (rev c) (rev a)).
    rewrite clen_firstn_eq, firstn_rev, rev_involutive.
    f_equal. f_equal; [f_equal|]; f_equal; lia.
  - replace (Z.to_nat (Z.of_nat (length c) - Z.of_nat (length a))) with (length c - length a)%nat by lia.
    replace (Z.to_nat (Z.of_nat (length a) - 1 + 1)) with (length a) by lia.
    change (fun v_i : Z => if (0 <=? v_i)%Z && (nth (Z.to_nat v_i) a 0 =? nth (Z.to_nat v_i) (skipn (length c - length a) c) 0)
                            then Next (v_i - 1)%Z else Brk v_i)
      with (split_body a (skipn (length c - length a) c)).
    rewrite split_core by lia.
    rewrite firstn_rev, rev_involutive.
    f_equal. f_equal; [f_equal|]; f_equal; lia.
Qed.

(* ------------------------------------------------------------------------------------------ *)
(* binary search on a strictly sorted list, for any decidable strict total order               *)

Section BSearch.
  Context {A : Type} (ltb : A -> A -> bool).
  Hypothesis lt_irrefl : forall x, ltb x x = false.
  Hypothesis lt_trans : forall x y z, ltb x y = true -> ltb y z = true -> ltb x z = true.
  Hypothesis lt_total : forall x y, ltb x y = false -> x <> y -> ltb y x = true.

  Definition ltP (x y : A) : Prop := ltb x y = true.
  (* the index slices.BinarySearch returns: the number of smaller elements *)
  Definition bs_idx (l : list A) (e : A) : nat := length (filter (fun x => ltb x e) l).

  Lemma bs_idx_le l e : (bs_idx l e <= length l)%nat.
  Proof using.
    clear lt_irrefl lt_trans lt_total.
    unfold bs_idx. induction l as [|x r IH]; cbn [filter length]; [lia|].
    destruct (ltb x e); cbn [length]; lia.
  Qed.

  Lemma bs_head_ge x r e : Forall (ltP x) r -> ltb x e = false -> Forall (fun y => ltb y e = false) (x :: r).
  Proof using lt_trans.
    intros Hx E. constructor; [exact E|]. eapply Forall_impl; [|exact Hx].
    intros y Hy. unfold ltP in Hy. destruct (ltb y e) eqn:E2; [|reflexivity].
    rewrite (lt_trans _ _ _ Hy E2) in E. discriminate.
  Qed.

  (* everything before the index is smaller, nothing from the index on is *)
  Lemma bs_split l e : StronglySorted ltP l ->
    Forall (fun x => ltb x e = true) (firstn (bs_idx l e) l) /\
    Forall (fun x => ltb x e = false) (skipn (bs_idx l e) l).
  Proof using lt_trans.
    unfold bs_idx. induction 1 as [|x r _ IH Hx]; [split; constructor|].
    destruct (ltb x e) eqn:E.
    - cbn [filter]. rewrite E. cbn [length firstn skipn]. destruct IH as [IH1 IH2].
      split; [constructor; assumption | assumption].
    - pose proof (bs_head_ge x r e Hx E) as Hall.
      rewrite (filter_nil_of_Forall _ _ Hall). cbn [length firstn skipn]. split; [constructor | exact Hall].
  Qed.

  (* found: the index is the position of the element *)
  Lemma bs_found l e d : StronglySorted ltP l -> In e l ->
    (bs_idx l e < length l)%nat /\ nth (bs_idx l e) l d = e.
  Proof using lt_irrefl lt_trans.
    unfold bs_idx. induction 1 as [|x r _ IH Hx]; intros Hin; [destruct Hin|].
    destruct (ltb x e) eqn:E.
    - cbn [filter]. rewrite E. cbn [length nth].
      destruct Hin as [->|Hin]; [rewrite lt_irrefl in E; discriminate|].
      destruct (IH Hin) as [IH1 IH2]. split; [apply (proj1 (Nat.succ_lt_mono _ _)), IH1 | exact IH2].
    - pose proof (bs_head_ge x r e Hx E) as Hall.
      rewrite (filter_nil_of_Forall _ _ Hall). cbn [length nth]. split; [apply Nat.lt_0_succ|].
      destruct Hin as [->|Hin]; [reflexivity|].
      rewrite Forall_forall in Hx. specialize (Hx _ Hin). unfold ltP in Hx. rewrite Hx in E. discriminate.
  Qed.

  (* found: what follows the element is greater *)
  Lemma bs_found_after l e : StronglySorted ltP l -> In e l ->
    Forall (fun x => ltb e x = true) (skipn (S (bs_idx l e)) l).
  Proof using lt_irrefl lt_trans.
    unfold bs_idx. induction 1 as [|x r _ IH Hx]; intros Hin; [destruct Hin|].
    destruct (ltb x e) eqn:E.
    - cbn [filter]. rewrite E. cbn [length]. change (skipn (S ?n) (x :: r)) with (skipn n r).
      destruct Hin as [->|Hin]; [rewrite lt_irrefl in E; discriminate|]. apply IH, Hin.
    - pose proof (bs_head_ge x r e Hx E) as Hall.
      rewrite (filter_nil_of_Forall _ _ Hall). cbn [length skipn].
      destruct Hin as [->|Hin]; [exact Hx|].
      rewrite Forall_forall in Hx. specialize (Hx _ Hin). unfold ltP in Hx. rewrite Hx in E. discriminate.
  Qed.

  (* not found: the index is the insertion point *)
  Lemma bs_notfound l e : StronglySorted ltP l -> ~ In e l ->
    Forall (fun x => ltb x e = true) (firstn (bs_idx l e) l) /\
    Forall (fun x => ltb e x = true) (skipn (bs_idx l e) l).
  Proof using lt_trans lt_total.
    intros Hs Hn. destruct (bs_split l e Hs) as [H1 H2]. split; [exact H1|].
    rewrite Forall_forall in *. intros x Hx. apply lt_total; [apply H2, Hx|].
    intros ->. apply Hn. eapply In_skipn_In, Hx.
  Qed.

  (* a strictly sorted list has no duplicates: the position of an element is unique *)
  Lemma bs_unique l e d j : StronglySorted ltP l -> (j < length l)%nat -> nth j l d = e -> j = bs_idx l e.
  Proof using lt_irrefl lt_trans.
    unfold bs_idx. intros Hs. revert j. induction Hs as [|x r _ IH Hx]; intros j Hj Hn; cbn [length] in Hj; [inversion Hj|].
    destruct j as [|j]; cbn [nth] in Hn.
    - subst x. cbn [filter]. rewrite lt_irrefl.
      assert (Hall : Forall (fun y => ltb y e = false) r).
      { eapply Forall_impl; [|exact Hx]. intros y Hy. unfold ltP in Hy.
        destruct (ltb y e) eqn:E2; [|reflexivity].
        pose proof (lt_irrefl e) as Hirr. rewrite (lt_trans _ _ _ Hy E2) in Hirr. discriminate. }
      rewrite (filter_nil_of_Forall _ _ Hall). reflexivity.
    - apply (proj2 (Nat.succ_lt_mono _ _)) in Hj.
      assert (Hin : In e r) by (subst e; apply nth_In; exact Hj).
      rewrite Forall_forall in Hx. specialize (Hx _ Hin). unfold ltP in Hx.
      cbn [filter]. rewrite Hx. cbn [length]. f_equal. apply IH; [exact Hj | exact Hn].
  Qed.
End BSearch.

(* ------------------------------------------------------------------------------------------ *)
(* slices_BinarySearch_N on edges (StronglySorted N.lt)                                        *)

Lemma Nltb_irrefl x : (x <? x) = false.
Proof. lia. Qed.
Lemma Nltb_trans x y z : (x <? y) = true -> (y <? z) = true -> (x <? z) = true.
Proof. lia. Qed.
Lemma Nltb_total x y : (x <? y) = false -> x <> y -> (y <? x) = true.
Proof. lia. Qed.

Lemma SS_Nlt_ltP edges : StronglySorted N.lt edges -> StronglySorted (ltP N.ltb) edges.
Proof. apply SS_impl. intros x y H. unfold ltP. lia. Qed.

Lemma memN_In l edges : memN l edges = true <-> In l edges.
Proof.
  induction edges as [|x r IH]; cbn [memN In]; [split; [discriminate | tauto]|].
  rewrite orb_true_iff, IH, N.eqb_eq. split; (intros [H|H]; [left; congruence | right; exact H]).
Qed.

Lemma bsN_eq edges l : slices_BinarySearch_N edges l = (Z.of_nat (bs_idx N.ltb edges l), memN l edges).
Proof. reflexivity. Qed.

Lemma bsN_found_iff edges l : snd (slices_BinarySearch_N edges l) = true <-> In l edges.
Proof. rewrite bsN_eq. cbn [snd]. apply memN_In. Qed.

Lemma bsN_index_range edges l : (0 <= fst (slices_BinarySearch_N edges l) <= Z.of_nat (length edges))%Z.
Proof. rewrite bsN_eq. cbn [fst]. pose proof (bs_idx_le N.ltb edges l). lia. Qed.

Lemma Forall_Nltb_l l (xs : list N) : Forall (fun x => (x <? l) = true) xs -> Forall (fun x => x < l) xs.
Proof. apply Forall_impl. intros x Hx. lia. Qed.
Lemma Forall_Nltb_r l (xs : list N) : Forall (fun x => (l <? x) = true) xs -> Forall (fun x => l < x) xs.
Proof. apply Forall_impl. intros x Hx. lia. Qed.

(* found: i is the position of l; before it everything is smaller, after it everything is greater *)
Lemma bsN_found edges l i : StronglySorted N.lt edges -> slices_BinarySearch_N edges l = (i, true) ->
  In l edges /\ (0 <= i < Z.of_nat (length edges))%Z /\ nth (Z.to_nat i) edges 0 = l /\
  Forall (fun x => x < l) (firstn (Z.to_nat i) edges) /\
  Forall (fun x => l < x) (skipn (S (Z.to_nat i)) edges).
Proof.
  intros Hs H. apply SS_Nlt_ltP in Hs. rewrite bsN_eq in H. injection H as Hi Hm. subst i.
  apply memN_In in Hm. rewrite Nat2Z.id.
  destruct (bs_found N.ltb Nltb_irrefl Nltb_trans edges l 0 Hs Hm) as [H1 H2].
  destruct (bs_split N.ltb Nltb_trans edges l Hs) as [H3 _].
  pose proof (bs_found_after N.ltb Nltb_irrefl Nltb_trans edges l Hs Hm) as H4.
  repeat split; [exact Hm | lia | lia | exact H2 | apply Forall_Nltb_l, H3 | apply Forall_Nltb_r, H4].
Qed.

(* not found: i is the insertion point *)
Lemma bsN_notfound edges l i : StronglySorted N.lt edges -> slices_BinarySearch_N edges l = (i, false) ->
  ~ In l edges /\ (0 <= i <= Z.of_nat (length edges))%Z /\
  Forall (fun x => x < l) (firstn (Z.to_nat i) edges) /\
  Forall (fun x => l < x) (skipn (Z.to_nat i) edges).
Proof.
  intros Hs H. apply SS_Nlt_ltP in Hs. rewrite bsN_eq in H. injection H as Hi Hm. subst i.
  assert (Hn : ~ In l edges) by (rewrite <- memN_In, Hm; discriminate). rewrite Nat2Z.id.
  destruct (bs_notfound N.ltb Nltb_trans Nltb_total edges l Hs Hn) as [H1 H2].
  pose proof (bs_idx_le N.ltb edges l).
  repeat split; [exact Hn | lia | lia | apply Forall_Nltb_l, H1 | apply Forall_Nltb_r, H2].
Qed.

(* the search finds what is stored at a position *)
Lemma bsN_at edges j : StronglySorted N.lt edges -> (j < length edges)%nat ->
  slices_BinarySearch_N edges (nth j edges 0) = (Z.of_nat j, true).
Proof.
  intros Hs Hj. rewrite bsN_eq. apply SS_Nlt_ltP in Hs.
  rewrite <- (bs_unique N.ltb Nltb_irrefl Nltb_trans edges _ 0 j Hs Hj eq_refl).
  f_equal. apply memN_In, nth_In, Hj.
Qed.

(* the link with the association list of the model *)
Lemma find_kid_combine (d : node) c : forall edges (vs : list node),
  StronglySorted N.lt edges -> length edges = length vs ->
  find_kid c (combine edges vs) = if memN c edges then Some (nth (bs_idx N.ltb edges c) vs d) else None.
Proof.
  intros edges vs Hs. revert vs. induction Hs as [|x r Hr IH Hx]; intros vs Hlen; [reflexivity|].
  destruct vs as [|v vs]; [discriminate|]. cbn [length] in Hlen.
  cbn [combine find_kid memN]. unfold bs_idx. cbn [filter]. rewrite (IH vs) by lia.
  destruct (x =? c) eqn:E1.
  - assert (x = c) by lia. subst x. rewrite N.eqb_refl, N.ltb_irrefl. cbn [orb].
    rewrite filter_nil_of_Forall; [reflexivity|]. eapply Forall_impl; [|exact Hx]. intros y Hy. lia.
  - rewrite (N.eqb_sym c x), E1. cbn [orb]. destruct (x <? c) eqn:E2; [reflexivity|].
    destruct (memN c r) eqn:M; [|reflexivity]. apply memN_In in M.
    rewrite Forall_forall in Hx. specialize (Hx _ M). lia.
Qed.

Lemma bsN_find_kid edges children l : StronglySorted N.lt edges -> length edges = length children ->
  find_kid l (combine edges (map abs children)) =
  let '(i, found) := slices_BinarySearch_N edges l in
  if found then Some (abs (nth (Z.to_nat i) children zero_gnode)) else None.
Proof.
  intros Hs Hlen. rewrite bsN_eq, Nat2Z.id.
  rewrite (find_kid_combine (abs zero_gnode)); [|exact Hs | rewrite map_length; exact Hlen].
  rewrite map_nth. reflexivity.
Qed.

(* ------------------------------------------------------------------------------------------ *)
(* slices_BinarySearch on schemes (strictly increasing for bltb)                               *)

Lemma bltb_irrefl x : bltb x x = false.
Proof. unfold bltb. rewrite bcmp_refl. reflexivity. Qed.
Lemma bltb_trans x y z : bltb x y = true -> bltb y z = true -> bltb x z = true.
Proof. exact (blt_trans x y z). Qed.
Lemma bltb_total x y : bltb x y = false -> x <> y -> bltb y x = true.
Proof.
  unfold bltb. rewrite (bcmp_antisym x y). intros H Hne.
  destruct (bcmp x y) eqn:E; [apply bcmp_eq in E; contradiction | discriminate | reflexivity].
Qed.

Lemma bsB_eq schemes sch : slices_BinarySearch schemes sch = (Z.of_nat (bs_idx bltb schemes sch), mem sch schemes).
Proof. reflexivity. Qed.

Lemma bsB_found_iff schemes sch : snd (slices_BinarySearch schemes sch) = true <-> In sch schemes.
Proof. rewrite bsB_eq. cbn [snd]. apply mem_In. Qed.

Lemma bsB_index_range schemes sch : (0 <= fst (slices_BinarySearch schemes sch) <= Z.of_nat (length schemes))%Z.
Proof. rewrite bsB_eq. cbn [fst]. pose proof (bs_idx_le bltb schemes sch). lia. Qed.

Lemma bsB_found schemes sch i : StronglySorted (fun a c => bltb a c = true) schemes ->
  slices_BinarySearch schemes sch = (i, true) ->
  In sch schemes /\ (0 <= i < Z.of_nat (length schemes))%Z /\ nth (Z.to_nat i) schemes [] = sch /\
  Forall (fun x => bltb x sch = true) (firstn (Z.to_nat i) schemes) /\
  Forall (fun x => bltb sch x = true) (skipn (S (Z.to_nat i)) schemes).
Proof.
  intros Hs H. rewrite bsB_eq in H. injection H as Hi Hm. subst i.
  apply mem_In in Hm. rewrite Nat2Z.id.
  destruct (bs_found bltb bltb_irrefl bltb_trans schemes sch [] Hs Hm) as [H1 H2].
  destruct (bs_split bltb bltb_trans schemes sch Hs) as [H3 _].
  pose proof (bs_found_after bltb bltb_irrefl bltb_trans schemes sch Hs Hm) as H4.
  repeat split; [exact Hm | lia | lia | exact H2 | exact H3 | exact H4].
Qed.

Lemma bsB_notfound schemes sch i : StronglySorted (fun a c => bltb a c = true) schemes ->
  slices_BinarySearch schemes sch = (i, false) ->
  ~ In sch schemes /\ (0 <= i <= Z.of_nat (length schemes))%Z /\
  Forall (fun x => bltb x sch = true) (firstn (Z.to_nat i) schemes) /\
  Forall (fun x => bltb sch x = true) (skipn (Z.to_nat i) schemes).
Proof.
  intros Hs H. rewrite bsB_eq in H. injection H as Hi Hm. subst i.
  assert (Hn : ~ In sch schemes) by (rewrite <- mem_In, Hm; discriminate). rewrite Nat2Z.id.
  destruct (bs_notfound bltb bltb_trans bltb_total schemes sch Hs Hn) as [H1 H2].
  pose proof (bs_idx_le bltb schemes sch).
  repeat split; [exact Hn | lia | lia | exact H1 | exact H2].
Qed.

Lemma bsB_at schemes j : StronglySorted (fun a c => bltb a c = true) schemes -> (j < length schemes)%nat ->
  slices_BinarySearch schemes (nth j schemes []) = (Z.of_nat j, true).
Proof.
  intros Hs Hj. rewrite bsB_eq.
  rewrite <- (bs_unique bltb bltb_irrefl bltb_trans schemes _ [] j Hs Hj eq_refl).
  f_equal. apply mem_In, nth_In, Hj.
Qed.

Lemma ents_find_combine sch : forall schemes (ports : list (list Z)),
  StronglySorted (fun a c => bltb a c = true) schemes -> length schemes = length ports ->
  ents_find sch (combine schemes ports) =
  if mem sch schemes then Some (nth (bs_idx bltb schemes sch) ports []) else None.
Proof.
  intros schemes ports Hs. revert ports. induction Hs as [|x r Hr IH Hx]; intros ports Hlen; [reflexivity|].
  destruct ports as [|v ports]; [discriminate|]. cbn [length] in Hlen.
  cbn [combine ents_find mem]. unfold bs_idx. cbn [filter]. rewrite (IH ports) by lia.
  destruct (beqb sch x) eqn:E1.
  - apply RadixP.beqb_eq in E1. subst x. rewrite bltb_irrefl. cbn [orb].
    rewrite filter_nil_of_Forall; [reflexivity|]. eapply Forall_impl; [|exact Hx]. intros y Hy. cbv beta in Hy.
    destruct (bltb y sch) eqn:E2; [|reflexivity].
    pose proof (bltb_irrefl sch) as Hirr. rewrite (bltb_trans _ _ _ Hy E2) in Hirr. discriminate.
  - cbn [orb]. destruct (bltb x sch) eqn:E2; [reflexivity|].
    destruct (mem sch r) eqn:M; [|reflexivity]. apply mem_In in M.
    rewrite Forall_forall in Hx. specialize (Hx _ M). cbv beta in Hx.
    assert (Hne : x <> sch) by (intros ->; rewrite RadixP.beqb_refl in E1; discriminate).
    pose proof (bltb_total x sch E2 Hne) as H3.
    pose proof (bltb_irrefl sch) as Hirr. rewrite (bltb_trans _ _ _ H3 Hx) in Hirr. discriminate.
Qed.

Lemma bsB_ents_find schemes (ports : list (list Z)) sch :
  StronglySorted (fun a c => bltb a c = true) schemes -> length schemes = length ports ->
  ents_find sch (combine schemes ports) =
  let '(i, found) := slices_BinarySearch schemes sch in
  if found then Some (nth (Z.to_nat i) ports []) else None.
Proof. intros Hs Hlen. rewrite bsB_eq, Nat2Z.id. apply ents_find_combine; assumption. Qed.

(* ------------------------------------------------------------------------------------------ *)
(* slices_BinarySearch_Z on a port list (StronglySorted Z.le)                                  *)

Lemma bsZ_found ps x : snd (slices_BinarySearch_Z ps x) = memZ x ps.
Proof. reflexivity. Qed.

Lemma memZ_In x ps : memZ x ps = true <-> In x ps.
Proof.
  induction ps as [|y r IH]; cbn [memZ In]; [split; [discriminate | tauto]|].
  rewrite orb_true_iff, IH, Z.eqb_eq. split; (intros [H|H]; [left; congruence | right; exact H]).
Qed.

Lemma bsZ_index_range ps x : (0 <= fst (slices_BinarySearch_Z ps x) <= Z.of_nat (length ps))%Z.
Proof.
  unfold slices_BinarySearch_Z. cbn [fst].
  assert (H : (length (filter (fun y => (y <? x)%Z) ps) <= length ps)%nat).
  { induction ps as [|y r IH]; cbn [filter length]; [lia|]. destruct (y <? x)%Z; cbn [length]; lia. }
  lia.
Qed.

(* the index splits a sorted list into the elements below x and the others *)
Lemma bsZ_split ps x : StronglySorted Z.le ps ->
  firstn (Z.to_nat (fst (slices_BinarySearch_Z ps x))) ps = filter (fun y => (y <? x)%Z) ps /\
  skipn (Z.to_nat (fst (slices_BinarySearch_Z ps x))) ps = filter (fun y => (x <=? y)%Z) ps.
Proof.
  unfold slices_BinarySearch_Z. cbn [fst]. rewrite Nat2Z.id.
  induction 1 as [|y r _ IH Hy]; [split; reflexivity|].
  cbn [filter]. destruct (y <? x)%Z eqn:E.
  - replace (x <=? y)%Z with false by lia. cbn [length firstn skipn]. destruct IH as [IH1 IH2].
    split; [f_equal; exact IH1 | exact IH2].
  - replace (x <=? y)%Z with true by lia.
    assert (H1 : filter (fun z => (z <? x)%Z) r = []).
    { apply filter_nil_of_Forall. eapply Forall_impl; [|exact Hy]. intros z Hz. lia. }
    assert (H2 : filter (fun z => (x <=? z)%Z) r = r).
    { clear IH H1. induction Hy as [|z r' Hz _ IH']; [reflexivity|]. cbn [filter].
      replace (x <=? z)%Z with true by lia. f_equal. exact IH'. }
    rewrite H1, H2. split; reflexivity.
Qed.

(* ------------------------------------------------------------------------------------------ *)
(* node.contains                                                                               *)

Lemma go_node_contains_spec suf edges children schemes ports sch port w :
  length schemes = length ports ->
  StronglySorted (fun a c => bltb a c = true) schemes ->
  Forall (StronglySorted Z.le) ports ->
  go_node_contains (GNode suf edges children schemes ports) sch port w
  = ents_contains (combine schemes ports) sch port w.
Proof.
  intros Hlen Hs _. unfold go_node_contains, ents_contains. cbn [g_schemes g_ports].
  rewrite (bsB_ents_find schemes ports sch Hs Hlen).
  destruct (slices_BinarySearch schemes sch) as [i found].
  unfold shift, slices_BinarySearch_Z.
  destruct w; destruct found; cbn [negb]; try reflexivity;
    match goal with |- (if ?a then _ else _) = _ => destruct a; reflexivity end.
Qed.
