(* Proofs/Netip6P.v -- facts about the executable IPv6 model (Model/Netip6.v) that need nothing but
   the model itself:
     1. the fuel of [groups6] is never exhausted ([parse6_fuel]);
     2. a successful parse yields exactly eight groups ([parse6_len]);
     3. the rendering of eight groups has between 2 and 39 bytes ([render6_len]);
     4. an accepted literal's canonical text is such a rendering ([ip6_model_ok_inv], [ip6_model_canon_len]);
     5. no literal starting with '*' is accepted ([ip6_model_star]);
     6. round trip: the canonical text of ANY eight groups below 2^16 parses back to exactly those
        groups ([parse6_render]), so every canonical text of an address that is not IPv4-mapped is
        accepted as itself ([ip6_model_round_trip], [parse_addr_round_trip]).
   The glue to the C13 / C06 theorems is in Proofs/Netip6GrammarP.v and Proofs/Netip6RoundTripP.v. *)
Require Import Base.Bytes Model.Netip Model.Netip6.
From Coq Require Import ZifyBool ZifyNat ZifyN.
Open Scope N_scope.

(* ------------------------------------------------------------------------------------------ *)
(* 1. fuel                                                                                      *)

Lemma hex_run_len s : forall acc n a m r,
  hex_run s acc n = (a, m, r) -> (length r + m = length s + n)%nat.
Proof.
  induction s as [|c s IH]; intros acc n a m r H; cbn [hex_run] in H.
  - inversion H; subst. reflexivity.
  - destruct (hexval c) as [v|].
    + apply IH in H. cbn [length]. lia.
    + inversion H; subst. reflexivity.
Qed.

Lemma finish6_fuel s gs ell : finish6 s gs ell <> NoFuel.
Proof.
  unfold finish6. destruct s; [|discriminate].
  destruct (length gs <? 8)%nat; destruct ell; discriminate.
Qed.

Lemma groups6_fuel f : forall s gs ell, (length s < f)%nat -> groups6 f s gs ell <> NoFuel.
Proof.
  induction f as [|f IH]; intros s gs ell Hf; [lia|]. cbn [groups6].
  destruct (8 <=? length gs)%nat; [apply finish6_fuel|].
  destruct (hex_run s 0 0) as [[acc n] r] eqn:E. apply hex_run_len in E.
  destruct ((n =? 0)%nat || (4 <? n)%nat) eqn:En; [discriminate|].
  destruct r as [|c r1]; [apply finish6_fuel|].
  destruct (c =? 46).
  { destruct (match ell with Some _ => false | None => _ end || _); [discriminate|]. destruct (v4_tail s) as [[hi lo]|]; [apply finish6_fuel|discriminate]. }
  destruct (negb (c =? 58)); [discriminate|].
  destruct r1 as [|c2 r2]; [discriminate|]. cbn [length] in E.
  destruct (c2 =? 58).
  - destruct ell; [discriminate|]. destruct r2 as [|c3 r3]; [apply finish6_fuel|].
    apply IH. cbn [length] in *. lia.
  - apply IH. cbn [length] in *. lia.
Qed.

(* the fuel [parse6] passes is enough: the out-of-fuel value is never produced *)
Theorem parse6_fuel a : parse6 a <> NoFuel.
Proof.
  unfold parse6. destruct (cut_prefix [58; 58] a) as [[|c r]|]; [discriminate| |]; apply groups6_fuel; lia.
Qed.

(* ------------------------------------------------------------------------------------------ *)
(* 2. eight groups                                                                              *)

Lemma finish6_len s gs ell r : (length gs <= 8)%nat -> finish6 s gs ell = Groups r -> length r = 8%nat.
Proof.
  unfold finish6. intros Hl H. destruct s; [|discriminate].
  destruct (length gs <? 8)%nat eqn:E; destruct ell as [e|]; try discriminate.
  - assert (Hr : r = firstn e gs ++ repeat 0 (8 - length gs) ++ skipn e gs) by congruence.
    rewrite Hr, !app_length, repeat_length, firstn_length, skipn_length. lia.
  - assert (Hr : r = gs) by congruence. subst r. lia.
Qed.

Lemma groups6_len f : forall s gs ell r,
  (length gs <= 8)%nat -> groups6 f s gs ell = Groups r -> length r = 8%nat.
Proof.
  induction f as [|f IH]; intros s gs ell r Hl H; [discriminate|]. cbn [groups6] in H.
  destruct (8 <=? length gs)%nat eqn:E8; [exact (finish6_len _ _ _ _ Hl H)|].
  assert (Hl1 : forall x : N, (length (gs ++ [x]) <= 8)%nat) by (intros; rewrite app_length; cbn [length]; lia).
  destruct (hex_run s 0 0) as [[acc n] r0].
  destruct ((n =? 0)%nat || (4 <? n)%nat); [discriminate|].
  destruct r0 as [|c r1].
  { apply (finish6_len _ _ _ _) in H; [exact H | apply Hl1]. }
  destruct (c =? 46).
  { destruct (match ell with Some _ => false | None => _ end || (6 <? length gs)%nat) eqn:Ec; [discriminate|].
    destruct (v4_tail s) as [[hi lo]|]; [|discriminate].
    apply (finish6_len _ _ _ _) in H; [exact H|]. rewrite app_length. cbn [length]. lia. }
  destruct (negb (c =? 58)); [discriminate|].
  destruct r1 as [|c2 r2]; [discriminate|].
  destruct (c2 =? 58).
  - destruct ell; [discriminate|]. destruct r2 as [|c3 r3].
    + apply (finish6_len _ _ _ _) in H; [exact H | apply Hl1].
    + apply IH in H; [exact H | apply Hl1].
  - apply IH in H; [exact H | apply Hl1].
Qed.

Theorem parse6_len a r : parse6 a = Groups r -> length r = 8%nat.
Proof.
  unfold parse6. destruct (cut_prefix [58; 58] a) as [[|c t]|]; intros H.
  - inversion H. reflexivity.
  - apply groups6_len in H; [exact H | cbn; lia].
  - apply groups6_len in H; [exact H | cbn; lia].
Qed.

(* ------------------------------------------------------------------------------------------ *)
(* 3. the canonical text of eight groups has 2..39 bytes                                       *)

Lemma hex4_len x : (1 <= length (hex4 x) <= 4)%nat.
Proof.
  unfold hex4. destruct (4096 <=? x); destruct (256 <=? x); destruct (16 <=? x); cbn [app length]; lia.
Qed.

Lemma join_hex_cons x gs :
  join_hex (x :: gs) = match gs with [] => hex4 x | _ => hex4 x ++ [58] ++ join_hex gs end.
Proof. unfold join_hex. cbn [map join]. destruct gs; reflexivity. Qed.

(* every group renders to at most 4 bytes, plus one colon between neighbours *)
Lemma join_hex_len gs : (length gs <= length (join_hex gs) <= 5 * length gs - 1)%nat.
Proof.
  induction gs as [|x gs IH]; [cbn; lia|]. rewrite join_hex_cons. pose proof (hex4_len x) as Hx.
  destruct gs as [|y gs]; [cbn [length]; lia|].
  rewrite !app_length. cbn [length] in *. lia.
Qed.

Lemma zrun_le gs : (zrun gs <= length gs)%nat.
Proof. induction gs as [|g gs IH]; cbn [zrun length]; [lia|]. destruct (g =? 0); lia. Qed.

(* the elided run, if any, has at least two groups and lies inside the address *)
Definition run_ok (n : nat) (best : nat * nat) : Prop :=
  snd best = 0%nat \/ (2 <= snd best /\ fst best + snd best <= n)%nat.

Lemma best_run_ok n gs : forall i best,
  (i + length gs = n)%nat -> run_ok n best -> run_ok n (best_run gs i best).
Proof.
  induction gs as [|g gs IH]; intros i best Hn Hb; [exact Hb|].
  cbn [best_run]. apply IH; [cbn [length] in Hn; lia|].
  destruct ((2 <=? zrun (g :: gs))%nat && (snd best <? zrun (g :: gs))%nat) eqn:E; [|exact Hb].
  right. cbn [fst snd]. pose proof (zrun_le (g :: gs)). lia.
Qed.

(* compression only shortens: without it 8 x 4 digits + 7 colons, with it at most 6 groups and "::" *)
Theorem render6_len gs : length gs = 8%nat -> (2 <= length (render6 gs) <= 39)%nat.
Proof.
  intros H8. unfold render6.
  destruct (best_run gs 0 (0, 0)%nat) as [st l] eqn:E.
  assert (Hok : run_ok 8 (st, l)).
  { rewrite <- E. apply best_run_ok; [lia | left; reflexivity]. }
  destruct (l =? 0)%nat eqn:El.
  - pose proof (join_hex_len gs). lia.
  - destruct Hok as [Hz | [H2 Hfit]]; cbn [fst snd] in *; [lia|].
    rewrite !app_length. cbn [length].
    pose proof (join_hex_len (firstn st gs)) as H1. pose proof (join_hex_len (skipn (st + l) gs)) as H3.
    rewrite firstn_length in H1. rewrite skipn_length in H3. lia.
Qed.

(* ------------------------------------------------------------------------------------------ *)
(* 4. accepted literals                                                                         *)

Theorem ip6_model_ok_inv s canon lb :
  ip6_model s = IPOk canon lb ->
  exists gs, length gs = 8%nat /\ canon = render6 gs /\ lb = is_loopback6 gs /\ is_4in6 gs = false.
Proof.
  unfold ip6_model. destruct (cut_byte 37 s) as [[a [|z0 z]]|]; [discriminate| |].
  - destruct (parse6 a); discriminate.
  - destruct (parse6 s) as [| |gs] eqn:E; try discriminate.
    destruct (is_4in6 gs) eqn:E4; [discriminate|]. intros H. inversion H; subst.
    exists gs. repeat split; [exact (parse6_len _ _ E) | exact E4].
Qed.

Theorem ip6_model_canon_len s canon lb :
  ip6_model s = IPOk canon lb -> (2 <= length canon <= 39)%nat.
Proof.
  intros H. destruct (ip6_model_ok_inv _ _ _ H) as (gs & H8 & -> & _). exact (render6_len gs H8).
Qed.

(* ------------------------------------------------------------------------------------------ *)
(* 5. a literal that starts with '*' is never accepted (this is [ip6_sane ip6_model])           *)

Lemma parse6_star t : parse6 (42 :: t) = Bad.
Proof. reflexivity. Qed.

Theorem ip6_model_star s : match ip6_model (42 :: s) with IPOk _ _ => False | _ => True end.
Proof.
  unfold ip6_model. cbn [cut_byte]. change (42 =? 37) with false. cbv iota.
  destruct (cut_byte 37 s) as [[u [|z0 z]]|]; [exact I| |]; rewrite parse6_star; exact I.
Qed.

(* ------------------------------------------------------------------------------------------ *)
(* 6. round trip: the canonical text of any eight 16-bit groups parses back to those groups     *)

Definition hexc (c : N) : bool := match hexval c with Some _ => true | None => false end.
Definition hexfold (acc : N) (u : bytes) : N :=
  fold_left (fun a c => 16 * a + match hexval c with Some v => v | None => 0 end) u acc.

Lemma hex_run_app u : forall rest acc n, all_bytes hexc u = true ->
  hex_run (u ++ rest) acc n = hex_run rest (hexfold acc u) (n + length u).
Proof.
  induction u as [|c u IH]; intros rest acc n H; cbn [app hexfold fold_left length].
  - rewrite Nat.add_0_r. reflexivity.
  - cbn [all_bytes] in H. apply andb_true_iff in H. destruct H as [Hc Hu]. unfold hexc in Hc.
    cbn [hex_run]. destruct (hexval c) as [v|]; [|discriminate].
    rewrite IH by exact Hu. unfold hexfold. f_equal. lia.
Qed.

(* appendHex writes hex digits whose value is the group: per digit, hexval inverts hexdigit; the
   four-digit statement follows arithmetically (g = ((d3*16+d2)*16+d1)*16+d0 with di = (g / 16^i) mod 16),
   by cases on which leading digits appendHex suppresses *)
Definition hex4_ok (x : N) : bool := all_bytes hexc (hex4 x) && (hexfold 0 (hex4 x) =? x).

Lemma hexval_hexdigit d : d < 16 -> hexval (hexdigit d) = Some d.
Proof.
  intros H. unfold hexdigit, hexval. destruct (d <? 10) eqn:E.
  - replace ((48 <=? 48 + d) && (48 + d <=? 57)) with true by lia. f_equal. lia.
  - replace ((48 <=? 87 + d) && (87 + d <=? 57)) with false by lia.
    replace ((97 <=? 87 + d) && (87 + d <=? 102)) with true by lia. f_equal. lia.
Qed.

Lemma hex4_ok_lt x : x < 65536 -> hex4_ok x = true.
Proof.
  intros Hx. unfold hex4_ok, hex4.
  assert (H3 : (x / 4096) mod 16 < 16) by (apply N.mod_lt; discriminate).
  assert (H2 : (x / 256) mod 16 < 16) by (apply N.mod_lt; discriminate).
  assert (H1 : (x / 16) mod 16 < 16) by (apply N.mod_lt; discriminate).
  assert (H0 : x mod 16 < 16) by (apply N.mod_lt; discriminate).
  destruct (4096 <=? x) eqn:E3; destruct (256 <=? x) eqn:E2; destruct (16 <=? x) eqn:E1;
    cbn [app all_bytes hexfold fold_left]; unfold hexc; rewrite !hexval_hexdigit by assumption;
    cbn [andb]; apply N.eqb_eq; zify; Z.div_mod_to_equations; lia.
Qed.

Lemma hex_run_hex4 x rest : x < 65536 ->
  match rest with [] => True | c :: _ => hexval c = None end ->
  hex_run (hex4 x ++ rest) 0 0 = (x, length (hex4 x), rest).
Proof.
  intros Hx Hr. apply hex4_ok_lt in Hx. unfold hex4_ok in Hx. apply andb_true_iff in Hx.
  destruct Hx as [Ha Hv]. apply N.eqb_eq in Hv. rewrite (hex_run_app _ _ _ _ Ha), Hv. cbn [Nat.add].
  destruct rest as [|c r]; cbn [hex_run]; [reflexivity | rewrite Hr; reflexivity].
Qed.

(* bytes of a group: hex digits, so none of ':' '.' '%' ']' *)
Definition h6byte (c : N) : bool := negb (memN c [58; 46; 37; 93]).
Definition r6byte (c : N) : bool := negb (memN c [46; 37; 93]).

Lemma hexdigit_h6 v : h6byte (hexdigit v) = true.
Proof. unfold h6byte, hexdigit, memN. destruct (v <? 10) eqn:E; lia. Qed.

Lemma hex4_h6 x : all_bytes h6byte (hex4 x) = true.
Proof.
  unfold hex4. destruct (4096 <=? x); destruct (256 <=? x); destruct (16 <=? x);
    cbn [app all_bytes]; rewrite !hexdigit_h6; reflexivity.
Qed.

Lemma h6_r6 c : h6byte c = true -> r6byte c = true.
Proof. unfold h6byte, r6byte, memN. lia. Qed.

Lemma all_bytes_app p u v : all_bytes p (u ++ v) = all_bytes p u && all_bytes p v.
Proof. induction u as [|c u IH]; cbn [app all_bytes]; [reflexivity|]. rewrite IH, andb_assoc. reflexivity. Qed.

Lemma all_bytes_imp (p q : N -> bool) u : (forall c, p c = true -> q c = true) -> all_bytes p u = true -> all_bytes q u = true.
Proof.
  intros Hpq. induction u as [|c u IH]; cbn [all_bytes]; [trivial|]. intros H. apply andb_true_iff in H.
  destruct H as [Hc Hu]. rewrite (Hpq _ Hc), (IH Hu). reflexivity.
Qed.

Lemma hex4_head x : exists c t, hex4 x = c :: t /\ h6byte c = true.
Proof.
  pose proof (hex4_len x) as Hl. pose proof (hex4_h6 x) as Hh. destruct (hex4 x) as [|c t]; [cbn in Hl; lia|].
  cbn [all_bytes] in Hh. apply andb_true_iff in Hh. exists c, t. split; [reflexivity | apply Hh].
Qed.

Lemma join_hex_head y ps : exists c t, join_hex (y :: ps) = c :: t /\ h6byte c = true.
Proof.
  rewrite join_hex_cons. destruct (hex4_head y) as (c & t & E & Hc). rewrite E.
  destruct ps as [|z ps]; [exists c, t | exists c, (t ++ [58] ++ join_hex (z :: ps))]; split; try reflexivity; exact Hc.
Qed.

Lemma h6_not_colon c : h6byte c = true -> (c =? 58) = false /\ (c =? 46) = false /\ hexval 58 = None.
Proof. unfold h6byte, memN. intros H. repeat split; lia. Qed.

(* one iteration of the loop on a rendered group *)
Lemma lt8_leb (gs0 : list N) : (length gs0 < 8)%nat -> (8 <=? length gs0)%nat = false.
Proof. intros H. apply Nat.leb_gt. exact H. Qed.

Lemma digits_ok x : (length (hex4 x) =? 0)%nat || (4 <? length (hex4 x))%nat = false.
Proof. pose proof (hex4_len x). lia. Qed.

Lemma groups6_step_end f x gs0 ell : x < 65536 -> (length gs0 < 8)%nat ->
  groups6 (S f) (hex4 x) gs0 ell = finish6 [] (gs0 ++ [x]) ell.
Proof.
  intros Hx Hl. cbn [groups6]. rewrite (lt8_leb _ Hl).
  pose proof (hex_run_hex4 x [] Hx I) as E. rewrite app_nil_r in E. rewrite E, digits_ok. reflexivity.
Qed.

Lemma groups6_step_colon f x c2 r2 gs0 ell : x < 65536 -> (length gs0 < 8)%nat -> (c2 =? 58) = false ->
  groups6 (S f) (hex4 x ++ 58 :: c2 :: r2) gs0 ell = groups6 f (c2 :: r2) (gs0 ++ [x]) ell.
Proof.
  intros Hx Hl Hc. cbn [groups6]. rewrite (lt8_leb _ Hl).
  rewrite (hex_run_hex4 x (58 :: c2 :: r2) Hx eq_refl), digits_ok.
  change (58 =? 46) with false. change (negb (58 =? 58)) with false. cbv iota. rewrite Hc. reflexivity.
Qed.

Lemma groups6_step_ell f x r2 gs0 : x < 65536 -> (length gs0 < 8)%nat ->
  groups6 (S f) (hex4 x ++ 58 :: 58 :: r2) gs0 None =
  match r2 with
  | [] => finish6 [] (gs0 ++ [x]) (Some (S (length gs0)))
  | _ => groups6 f r2 (gs0 ++ [x]) (Some (S (length gs0)))
  end.
Proof.
  intros Hx Hl. cbn [groups6]. rewrite (lt8_leb _ Hl).
  rewrite (hex_run_hex4 x (58 :: 58 :: r2) Hx eq_refl), digits_ok.
  change (58 =? 46) with false. change (negb (58 =? 58)) with false. change (58 =? 58) with true. cbv iota.
  reflexivity.
Qed.

Definition g16 (gs : list N) : Prop := Forall (fun x => x < 65536) gs.

(* the groups of a colon-separated text, up to its end ... *)
Lemma groups6_join ps : forall gs0 ell f, ps <> [] -> g16 ps -> (length gs0 + length ps <= 8)%nat ->
  groups6 (length ps + f) (join_hex ps) gs0 ell = finish6 [] (gs0 ++ ps) ell.
Proof.
  induction ps as [|x ps IH]; intros gs0 ell f Hne Hall Hl; [congruence|].
  inversion Hall as [|? ? Hx Hps]; subst. rewrite join_hex_cons. cbn [length] in Hl. destruct ps as [|y ps].
  - cbn [length Nat.add]. apply groups6_step_end; [exact Hx | lia].
  - destruct (join_hex_head y ps) as (c & t & Ej & Hc). rewrite Ej.
    change (length (x :: y :: ps) + f)%nat with (S (length (y :: ps) + f)).
    cbn [app]. rewrite groups6_step_colon; [| exact Hx | lia | apply (h6_not_colon _ Hc)].
    rewrite <- Ej, IH; [| discriminate | exact Hps | rewrite app_length; cbn [length] in *; lia].
    rewrite <- app_assoc. reflexivity.
Qed.

(* ... and up to a "::" *)
Lemma groups6_join_ell ps : forall gs0 f rest, ps <> [] -> g16 ps -> (length gs0 + length ps <= 8)%nat ->
  groups6 (length ps + f) (join_hex ps ++ 58 :: 58 :: rest) gs0 None =
  match rest with
  | [] => finish6 [] (gs0 ++ ps) (Some (length gs0 + length ps)%nat)
  | _ => groups6 f rest (gs0 ++ ps) (Some (length gs0 + length ps)%nat)
  end.
Proof.
  induction ps as [|x ps IH]; intros gs0 f rest Hne Hall Hl; [congruence|].
  inversion Hall as [|? ? Hx Hps]; subst. rewrite join_hex_cons. cbn [length] in Hl. destruct ps as [|y ps].
  - cbn [length Nat.add]. rewrite groups6_step_ell; [| exact Hx | lia].
    replace (length gs0 + 1)%nat with (S (length gs0)) by lia. reflexivity.
  - destruct (join_hex_head y ps) as (c & t & Ej & Hc). rewrite Ej.
    change (length (x :: y :: ps) + f)%nat with (S (length (y :: ps) + f)).
    rewrite <- !app_assoc. cbn [app]. rewrite groups6_step_colon; [| exact Hx | lia | apply (h6_not_colon _ Hc)].
    change (c :: t ++ 58 :: 58 :: rest) with ((c :: t) ++ 58 :: 58 :: rest).
    rewrite <- Ej, IH; [| discriminate | exact Hps | rewrite app_length; cbn [length] in *; lia].
    rewrite <- app_assoc.
    replace (length (gs0 ++ [x]) + length (y :: ps))%nat with (length gs0 + length (x :: y :: ps))%nat
      by (rewrite app_length; cbn [length]; lia).
    reflexivity.
Qed.

(* the elided run consists of zero groups *)
Lemma zrun_split l : forall t, (l <= zrun t)%nat -> t = repeat 0 l ++ skipn l t.
Proof.
  induction l as [|l IH]; intros t H; [reflexivity|]. destruct t as [|g t]; cbn [zrun] in H; [lia|].
  destruct (g =? 0) eqn:E; [|lia]. apply N.eqb_eq in E. subst g. cbn [repeat skipn app]. f_equal. apply IH. lia.
Qed.

Lemma skipn_S_cons {A} i : forall (G : list A) g r, skipn i G = g :: r -> skipn (S i) G = r.
Proof.
  induction i as [|i IH]; intros G g r H.
  - cbn [skipn] in H. subst G. reflexivity.
  - destruct G as [|a G]; [discriminate|]. cbn [skipn] in H. cbn [skipn]. exact (IH _ _ _ H).
Qed.

Lemma skipn_add {A} a : forall b (l : list A), skipn a (skipn b l) = skipn (b + a) l.
Proof.
  induction b as [|b IH]; intros l; [reflexivity|]. destruct l as [|x l]; cbn [skipn Nat.add].
  - destruct a; reflexivity.
  - apply IH.
Qed.

Definition run_zero (G : list N) (best : nat * nat) : Prop :=
  snd best = 0%nat \/ (snd best <= zrun (skipn (fst best) G))%nat.

Lemma best_run_zero G gs : forall i best,
  skipn i G = gs -> run_zero G best -> run_zero G (best_run gs i best).
Proof.
  induction gs as [|g gs IH]; intros i best Hs Hb; [exact Hb|].
  cbn [best_run]. apply IH; [exact (skipn_S_cons _ _ _ _ Hs)|].
  destruct ((2 <=? zrun (g :: gs))%nat && (snd best <? zrun (g :: gs))%nat); [|exact Hb].
  right. cbn [fst snd]. rewrite Hs. lia.
Qed.

Lemma best_run_split gs st l : length gs = 8%nat -> best_run gs 0 (0, 0)%nat = (st, l) -> l <> 0%nat ->
  (2 <= l /\ st + l <= 8)%nat /\ gs = firstn st gs ++ repeat 0 l ++ skipn (st + l) gs.
Proof.
  intros H8 E Hl.
  assert (Hok : run_ok 8 (st, l)) by (rewrite <- E; apply best_run_ok; [lia | left; reflexivity]).
  assert (Hz : run_zero gs (st, l)) by (rewrite <- E; apply best_run_zero; [reflexivity | left; reflexivity]).
  destruct Hok as [H0 | Hok]; [cbn in H0; lia|]. destruct Hz as [H0 | Hz]; [cbn in H0; lia|].
  cbn [fst snd] in *. split; [exact Hok|].
  rewrite <- (firstn_skipn st gs) at 1. f_equal.
  rewrite (zrun_split l _ Hz) at 1. f_equal. apply skipn_add.
Qed.

Lemma firstn_len_app {A} (u v : list A) : firstn (length u) (u ++ v) = u.
Proof. induction u as [|a u IH]; cbn [length firstn app]; [destruct v; reflexivity | rewrite IH; reflexivity]. Qed.

Lemma skipn_len_app {A} (u v : list A) : skipn (length u) (u ++ v) = v.
Proof. induction u as [|a u IH]; cbn [length skipn app]; [reflexivity | exact IH]. Qed.

Lemma cut_colons_head c t : h6byte c = true -> cut_prefix [58; 58] (c :: t) = None.
Proof. intros H. cbn [cut_prefix]. rewrite N.eqb_sym. destruct (h6_not_colon _ H) as [-> _]. reflexivity. Qed.

Theorem parse6_render gs : length gs = 8%nat -> g16 gs -> parse6 (render6 gs) = Groups gs.
Proof.
  intros H8 H16. unfold render6. destruct (best_run gs 0 (0, 0)%nat) as [st l] eqn:E.
  destruct (l =? 0)%nat eqn:El.
  - (* no run of two zero groups: eight groups, seven colons *)
    destruct gs as [|x gs]; [discriminate|]. destruct (join_hex_head x gs) as (c & t & Ej & Hc).
    unfold parse6. rewrite Ej, (cut_colons_head _ _ Hc), <- Ej.
    pose proof (join_hex_len (x :: gs)) as Hj.
    replace (S (length (join_hex (x :: gs)))) with (length (x :: gs) + (S (length (join_hex (x :: gs))) - length (x :: gs)))%nat by lia.
    rewrite groups6_join; [| discriminate | exact H16 | cbn [length] in *; lia].
    unfold finish6. cbn [app]. rewrite H8. reflexivity.
  - apply Nat.eqb_neq in El. destruct (best_run_split gs st l H8 E El) as [[H2 Hfit] Hgs].
    set (pre := firstn st gs) in *. set (post := skipn (st + l) gs) in *.
    assert (Hpre : length pre = st) by (unfold pre; rewrite firstn_length; lia).
    assert (Hpost : length post = (8 - (st + l))%nat) by (unfold post; rewrite skipn_length; lia).
    assert (H16' : g16 pre /\ g16 post).
    { unfold g16 in *. rewrite Hgs in H16. apply Forall_app in H16. destruct H16 as [Ha Hb].
      apply Forall_app in Hb. split; [exact Ha | apply Hb]. }
    destruct H16' as [H16a H16b]. rewrite Hgs. clearbody pre post. clear Hgs E.
    unfold parse6. destruct pre as [|x pre].
    + (* "::" first *)
      cbn [length] in Hpre. subst st. change (join_hex [] ++ [58; 58] ++ join_hex post) with (58 :: 58 :: join_hex post).
      change (cut_prefix [58; 58] (58 :: 58 :: join_hex post)) with (Some (join_hex post)).
      destruct post as [|y post].
      * cbn [length] in Hpost. change (join_hex []) with (@nil N). cbn [app]. rewrite app_nil_r.
        replace l with 8%nat by lia. reflexivity.
      * destruct (join_hex_head y post) as (c & t & Ej & Hc). rewrite Ej, <- Ej.
        pose proof (join_hex_len (y :: post)) as Hj.
        replace (S (length (join_hex (y :: post)))) with (length (y :: post) + (S (length (join_hex (y :: post))) - length (y :: post)))%nat by lia.
        rewrite groups6_join; [| discriminate | exact H16b | cbn [length] in *; lia].
        unfold finish6. cbn [app]. replace (length (y :: post) <? 8)%nat with true by lia.
        cbn [firstn skipn app]. rewrite Hpost. replace (8 - (8 - (0 + l)))%nat with l by lia. reflexivity.
    + (* groups, "::", possibly more groups *)
      destruct (join_hex_head x pre) as (c & t & Ej & Hc).
      rewrite Ej. cbn [app]. rewrite (cut_colons_head _ _ Hc).
      change (c :: t ++ 58 :: 58 :: join_hex post) with ((c :: t) ++ 58 :: 58 :: join_hex post). rewrite <- Ej.
      pose proof (join_hex_len (x :: pre)) as Hj1. pose proof (join_hex_len post) as Hj2.
      set (F := S (length (join_hex (x :: pre) ++ 58 :: 58 :: join_hex post))).
      assert (HF : (length (x :: pre) + length post + 2 < F)%nat).
      { unfold F. rewrite app_length. cbn [length] in *. lia. }
      replace F with (length (x :: pre) + (F - length (x :: pre)))%nat by lia.
      rewrite groups6_join_ell; [| discriminate | exact H16a | cbn [length] in *; lia].
      cbn [app length Nat.add]. change (S (length pre)) with (length (x :: pre)).
      destruct post as [|y post].
      * change (join_hex []) with (@nil N). unfold finish6.
        replace (length (x :: pre) <? 8)%nat with true by (cbn [length] in *; lia).
        change (S (length pre)) with (length (x :: pre)).
        rewrite firstn_all, skipn_all, !app_nil_r. cbn [length] in Hpost.
        replace (8 - length (x :: pre))%nat with l by lia. reflexivity.
      * destruct (join_hex_head y post) as (c' & t' & Ej' & Hc'). rewrite Ej', <- Ej'.
        replace (F - length (x :: pre))%nat with (length (y :: post) + (F - length (x :: pre) - length (y :: post)))%nat by lia.
        rewrite groups6_join; [| discriminate | exact H16b | lia].
        unfold finish6.
        replace (length ((x :: pre) ++ y :: post) <? 8)%nat with true by (rewrite app_length; lia).
        change (S (length pre)) with (length (x :: pre)).
        rewrite firstn_len_app, skipn_len_app, app_length.
        replace (8 - (length (x :: pre) + length (y :: post)))%nat with l by lia. reflexivity.
Qed.

(* the canonical text consists of hex digits and colons, and has a colon *)
Lemma join_hex_r6 gs : all_bytes r6byte (join_hex gs) = true.
Proof.
  induction gs as [|x gs IH]; [reflexivity|]. rewrite join_hex_cons.
  pose proof (all_bytes_imp _ _ _ h6_r6 (hex4_h6 x)) as Hx.
  destruct gs; [exact Hx|]. rewrite !all_bytes_app, Hx, IH. reflexivity.
Qed.

Lemma render6_r6 gs : all_bytes r6byte (render6 gs) = true.
Proof.
  unfold render6. destruct (best_run gs 0 (0, 0)%nat) as [st l]. destruct (l =? 0)%nat; [apply join_hex_r6|].
  rewrite !all_bytes_app, !join_hex_r6. reflexivity.
Qed.

Lemma render6_colon gs : length gs = 8%nat -> In 58 (render6 gs).
Proof.
  intros H8. unfold render6. destruct (best_run gs 0 (0, 0)%nat) as [st l]. destruct (l =? 0)%nat.
  - destruct gs as [|x [|y gs]]; try discriminate. rewrite join_hex_cons.
    apply in_or_app. right. left. reflexivity.
  - apply in_or_app. right. left. reflexivity.
Qed.

Lemma r6_no_zone s : all_bytes r6byte s = true -> cut_byte 37 s = None.
Proof.
  induction s as [|c s IH]; cbn [all_bytes cut_byte]; [reflexivity|]. intros H. apply andb_true_iff in H.
  destruct H as [Hc Hs]. rewrite (IH Hs). unfold r6byte, memN in Hc. replace (c =? 37) with false by lia. reflexivity.
Qed.

Lemma r6_no_bracket s : all_bytes r6byte s = true -> memN 93 s = false.
Proof.
  induction s as [|c s IH]; cbn [all_bytes memN]; [reflexivity|]. intros H. apply andb_true_iff in H.
  destruct H as [Hc Hs]. rewrite (IH Hs). unfold r6byte, memN in Hc. lia.
Qed.

Lemma r6_first_special s : all_bytes r6byte s = true -> In 58 s -> first_special s = 58.
Proof.
  induction s as [|c s IH]; cbn [all_bytes first_special]; intros H Hin; [destruct Hin|].
  apply andb_true_iff in H. destruct H as [Hc Hs]. unfold r6byte, memN in Hc.
  destruct (c =? 58) eqn:E.
  - replace ((c =? 46) || true || (c =? 37)) with true by lia. lia.
  - replace ((c =? 46) || false || (c =? 37)) with false by lia. apply IH; [exact Hs|].
    destruct Hin as [Hc58|Hin]; [apply N.eqb_neq in E; contradiction | exact Hin].
Qed.

(* every canonical text (of an address that is not IPv4-mapped) is accepted, as itself *)
Theorem ip6_model_round_trip gs : length gs = 8%nat -> g16 gs -> is_4in6 gs = false ->
  ip6_model (render6 gs) = IPOk (render6 gs) (is_loopback6 gs).
Proof.
  intros H8 H16 H4. unfold ip6_model.
  rewrite (r6_no_zone _ (render6_r6 gs)), (parse6_render gs H8 H16), H4. reflexivity.
Qed.

Theorem parse_addr_round_trip gs : length gs = 8%nat -> g16 gs -> is_4in6 gs = false ->
  parse_addr ip6_model (render6 gs) = IPOk (render6 gs) (is_loopback6 gs).
Proof.
  intros H8 H16 H4. unfold parse_addr.
  rewrite (r6_first_special _ (render6_r6 gs) (render6_colon gs H8)). cbn [N.eqb Pos.eqb].
  exact (ip6_model_round_trip gs H8 H16 H4).
Qed.
