(* Proofs/Compose2P.v -- discharging, from validation, the extra hypotheses of C02 *)
Require Import Base.Bytes Gen.Tables.
Require Import Model.Util Model.Headers Model.Origins Model.Netip Model.Pattern Model.Radix Model.Config Model.Serve.
Require Import Spec.Origins Spec.Wire Spec.ConfigDoc Spec.Fetch Spec.AcrhList.
Require Import Proofs.HeadersP Proofs.RadixP Proofs.Rel Proofs.ConfigP Proofs.ValidateP Proofs.EquivP Proofs.FetchP.
Open Scope N_scope.

(* every configured request-header name of an accepted configuration is a token *)
Lemma accepted_req_hdr_tokens : forall ace ip6 psl c ic,
  new_internal_config ace ip6 psl c = inl ic ->
  Forall (fun n => Spec.Fetch.is_token n = true) (elems (i_req_hdrs ic)).
Proof.
  intros ace ip6 psl c ic Hacc.
  pose proof (accepted_rel _ _ _ _ _ Hacc) as R.
  assert (Hdoc : doc_ok ace ip6 psl c = true).
  { pose proof (validate_flatten ace ip6 psl c) as Hv. rewrite Hacc in Hv.
    apply (proj2 (doc_ok_iff_no_violation ace ip6 psl c)). exact Hv. }
  apply Forall_forall. intros n Hin.
  apply (proj2 (mem_In n _)) in Hin.
  rewrite (rel_req_elems _ _ _ _ R) in Hin.
  apply andb_true_iff in Hin. destruct Hin as [_ Hin].
  rewrite mem_map_existsb in Hin. apply existsb_exists in Hin. destruct Hin as [x [Hx Hnx]].
  apply filter_In in Hx. destruct Hx as [Hx Hns].
  apply RadixP.beqb_true_iff in Hnx. subst n.
  assert (Hr : req_header_ok x = true).
  { unfold doc_ok in Hdoc. repeat (apply andb_true_iff in Hdoc; destruct Hdoc as [Hdoc ?]).
    match goal with H : forallb req_header_ok (c_req_headers c) = true |- _ =>
      rewrite forallb_forall in H; exact (H x Hx) end. }
  unfold req_header_ok in Hr.
  unfold Spec.Fetch.is_token. rewrite valid_name_token, is_token_lower.
  apply orb_true_iff in Hr. destruct Hr as [Hr|Hr].
  - unfold is_star in Hns. rewrite Hr in Hns. discriminate.
  - apply andb_true_iff in Hr. destruct Hr as [Hr _]. exact Hr.
Qed.

(* C02 for every configuration accepted by validation *)
Lemma c02_accepted_exact : forall ace ip6 psl c ic i lines dbg,
  new_internal_config ace ip6 psl c = inl ic -> wf_intent i -> perturb (in_headers i) lines ->
  browser_verdict i (serve (Some ic) dbg (preflight_request i lines) [])
                    (serve (Some ic) dbg (actual_request i) []) =
  permits c (cfg_patterns ace ip6 c) i && negb (opaque_preflight_under_allow_all c i).
Proof.
  intros ace ip6 psl c ic i lines dbg Hacc WF PT.
  apply (f_C02_exact ace ip6 c ic i lines dbg);
    [eapply accepted_rel; exact Hacc | apply accepted_patterns_valid
     | eapply accepted_req_hdr_tokens; exact Hacc | exact WF | exact PT].
Qed.

Lemma c02_accepted : forall ace ip6 psl c ic i lines dbg,
  new_internal_config ace ip6 psl c = inl ic -> wf_intent i -> perturb (in_headers i) lines ->
  (lists_star (c_origins c) = true -> needs_preflight i = true -> parse (in_origin i) <> None) ->
  browser_verdict i (serve (Some ic) dbg (preflight_request i lines) [])
                    (serve (Some ic) dbg (actual_request i) []) = permits c (cfg_patterns ace ip6 c) i.
Proof.
  intros ace ip6 psl c ic i lines dbg Hacc WF PT HP.
  apply (f_C02_main ace ip6 c ic i lines dbg);
    [eapply accepted_rel; exact Hacc | apply accepted_patterns_valid
     | eapply accepted_req_hdr_tokens; exact Hacc | exact WF | exact PT | exact HP].
Qed.

Lemma c02_accepted_debug_invariant : forall ace ip6 psl c ic i lines,
  new_internal_config ace ip6 psl c = inl ic -> wf_intent i -> perturb (in_headers i) lines ->
  browser_verdict i (serve (Some ic) true (preflight_request i lines) [])
                    (serve (Some ic) true (actual_request i) []) =
  browser_verdict i (serve (Some ic) false (preflight_request i lines) [])
                    (serve (Some ic) false (actual_request i) []).
Proof.
  intros ace ip6 psl c ic i lines Hacc WF PT.
  rewrite (c02_accepted_exact ace ip6 psl c ic i lines true Hacc WF PT).
  rewrite (c02_accepted_exact ace ip6 psl c ic i lines false Hacc WF PT). reflexivity.
Qed.

Lemma c02_accepted_perturbation_invariant : forall ace ip6 psl c ic i lines lines' dbg,
  new_internal_config ace ip6 psl c = inl ic -> wf_intent i ->
  perturb (in_headers i) lines -> perturb (in_headers i) lines' ->
  browser_verdict i (serve (Some ic) dbg (preflight_request i lines) [])
                    (serve (Some ic) dbg (actual_request i) []) =
  browser_verdict i (serve (Some ic) dbg (preflight_request i lines') [])
                    (serve (Some ic) dbg (actual_request i) []).
Proof.
  intros ace ip6 psl c ic i lines lines' dbg Hacc WF PT PT'.
  rewrite (c02_accepted_exact ace ip6 psl c ic i lines dbg Hacc WF PT).
  rewrite (c02_accepted_exact ace ip6 psl c ic i lines' dbg Hacc WF PT'). reflexivity.
Qed.

(* ---- C01 through the public API: an actual (non-OPTIONS) request carrying an Origin that parses to o
   is granted Access-Control-Allow-Origin iff the configuration lists "*" or some listed pattern denotes o ---- *)
Require Import Proofs.ServeP Proofs.ParseP.

Lemma c01_middleware : forall ace ip6 psl c ic dbg r pre v o,
  new_internal_config ace ip6 psl c = inl ic -> c_pna_nocors c = false -> cors_free pre ->
  beqb (r_method r) method_options = false ->
  first (r_hdrs r) headers_Origin = Some v -> parse v = Some o ->
  (hget (o_hdrs (serve (Some ic) dbg r pre)) headers_ACAO <> None <->
   (lists_star (c_origins c) = true \/ allowed_by (cfg_patterns ace ip6 c) o = true)).
Proof.
  intros ace ip6 psl c ic dbg r pre v o Hacc Hnc Hfree Hm Hf Hp.
  pose proof (accepted_rel _ _ _ _ _ Hacc) as R.
  assert (Hpre : hget pre headers_ACAO = None) by (apply Hfree; reflexivity).
  assert (Hout : o_hdrs (serve (Some ic) dbg r pre) = handle_actual ic pre v false).
  { unfold serve. rewrite Hm, Hf. destruct (first (r_hdrs r) headers_ACRM); reflexivity. }
  rewrite Hout. unfold handle_actual.
  rewrite (rel_pna_nocors _ _ _ _ R), Hnc, (rel_tree_empty _ _ _ _ R), (rel_cred _ _ _ _ R).
  cbn [negb].
  destruct (lists_star (c_origins c)) eqn:Hs.
  - (* allow-all: not credentialed *)
    destruct (rel_star _ _ _ _ R Hs) as [Hc _]. rewrite Hc. cbn [negb andb].
    split; [intros _; left; reflexivity|]. intros _.
    destruct (i_aceh ic); [|rewrite hget_hset_neq by reflexivity]; rewrite hget_hset_eq; discriminate.
  - cbn [negb andb]. rewrite andb_false_r. rewrite Hp.
    assert (Hc : tree_contains (i_tree ic) o = allowed_by (cfg_patterns ace ip6 c) o).
    { rewrite (rel_tree _ _ _ _ R), Hs. apply tree_contains_build; [apply accepted_patterns_valid|].
      eapply parse_valid_origin; exact Hp. }
    rewrite Hc. destruct (allowed_by (cfg_patterns ace ip6 c) o) eqn:Ha; cbn [negb].
    + split; [intros _; right; reflexivity|]. intros _.
      destruct (i_aceh ic); [|rewrite hget_hset_neq by reflexivity];
        (destruct (c_credentialed c); [rewrite hget_hset_neq by reflexivity|]); rewrite hget_hset_eq; discriminate.
    + split.
      * intros H. exfalso. apply H. rewrite hget_hadd_neq by reflexivity. exact Hpre.
      * intros [H|H]; discriminate.
Qed.
