(* Proofs/IndexP.v -- C17: the hand-sliced functions of the Go code never panic (every index and
   slice expression of Model/Index.v is in range, under the invariant its callers establish) and
   compute exactly what the structural models compute.
   Main results: [split_at_common_suffix_safe], [parse_port_idx_ok], [cut_at_comma_idx_ok],
   [index_after_idx_ok] / [index_after_idx_panic_iff], [check_line_idx_ok], [check_lines_idx_ok],
   [first_idx_ok], [pattern_value_nonempty], [wildcard_value_has_prefix], [status_fits_uint8],
   [acma_is_decimal]. *)
Require Import Base.Bytes Gen.Tables.
Require Import Model.Util Model.Headers Model.Origins Model.Netip Model.Idna Model.Pattern Model.Radix
  Model.CfgErrors Model.Config Model.Index.
Require Import Spec.Wire.
Require Import Proofs.Rel Proofs.ConfigP.
From Coq Require Import ZifyBool ZifyNat ZifyN.
Import Coq.Strings.String.StringSyntax.
Arguments b _%string_scope.
Open Scope Z_scope.

(* ------------------------------------------------------------------------------------------ *)
(* 0. slice / index in range, list facts                                                       *)
(* ------------------------------------------------------------------------------------------ *)

Lemma slice_ok {A} (s : list A) lo hi : 0 <= lo -> lo <= hi -> hi <= zlen s ->
  slice s lo hi = Ok (firstn (Z.to_nat (hi - lo)) (skipn (Z.to_nat lo) s)).
Proof.
  intros H1 H2 H3. unfold slice.
  replace ((0 <=? lo) && (lo <=? hi) && (hi <=? zlen s)) with true by lia. reflexivity.
Qed.

Lemma slice_panic {A} (s : list A) lo hi : ~ (0 <= lo /\ lo <= hi /\ hi <= zlen s) -> slice s lo hi = Panic.
Proof.
  intros H. unfold slice.
  replace ((0 <=? lo) && (lo <=? hi) && (hi <=? zlen s)) with false by lia. reflexivity.
Qed.

(* s[lo:] *)
Lemma slice_to_end {A} (s : list A) lo : 0 <= lo <= zlen s ->
  slice s lo (zlen s) = Ok (skipn (Z.to_nat lo) s).
Proof.
  intros H. rewrite slice_ok by lia. f_equal. apply firstn_all2.
  rewrite skipn_length. unfold zlen. lia.
Qed.

(* s[:hi] *)
Lemma slice_from_start {A} (s : list A) hi : 0 <= hi <= zlen s ->
  slice s 0 hi = Ok (firstn (Z.to_nat hi) s).
Proof. intros H. rewrite slice_ok by lia. rewrite Z.sub_0_r. reflexivity. Qed.

Lemma index_ok (s : bytes) i : 0 <= i < zlen s -> index s i = Ok (nth (Z.to_nat i) s 0%N).
Proof.
  intros H. unfold index. replace ((0 <=? i) && (i <? zlen s)) with true by lia. reflexivity.
Qed.

Lemma skipn_skipn' {A} (l : list A) : forall m n, skipn m (skipn n l) = skipn (n + m) l.
Proof.
  induction l as [|x r IH]; intros m n.
  - rewrite !skipn_nil. reflexivity.
  - destruct n as [|n]; [reflexivity|]. cbn [skipn Nat.add]. apply IH.
Qed.

Lemma nth_skipn' {A} (l : list A) d : forall n j, nth j (skipn n l) d = nth (n + j) l d.
Proof.
  induction l as [|x r IH]; intros n j.
  - rewrite skipn_nil. destruct j, n; reflexivity.
  - destruct n as [|n]; [reflexivity|]. cbn [skipn Nat.add nth]. apply IH.
Qed.

Lemma skipn_nth_cons {A} (l : list A) d : forall n, (n < length l)%nat ->
  skipn n l = nth n l d :: skipn (S n) l.
Proof.
  induction l as [|x r IH]; intros n H; [cbn in H; lia|].
  destruct n as [|n]; [reflexivity|]. cbn [skipn nth]. apply IH. cbn in H. lia.
Qed.

Lemma firstn_S_snoc {A} (l : list A) d : forall n, (n < length l)%nat ->
  firstn (S n) l = firstn n l ++ [nth n l d].
Proof.
  induction l as [|x r IH]; intros n H; [cbn in H; lia|].
  destruct n as [|n]; [reflexivity|].
  change (firstn (S (S n)) (x :: r)) with (x :: firstn (S n) r).
  rewrite IH by (cbn in H; lia). reflexivity.
Qed.

Lemma firstn_min_len {A} (l : list A) n : firstn (Nat.min n (length l)) l = firstn n l.
Proof.
  destruct (Nat.le_ge_cases n (length l)) as [H|H].
  - rewrite Nat.min_l by exact H. reflexivity.
  - rewrite Nat.min_r by exact H. rewrite !firstn_all2 by lia. reflexivity.
Qed.

(* ------------------------------------------------------------------------------------------ *)
(* 1. splitAtCommonSuffix                                                                      *)
(* ------------------------------------------------------------------------------------------ *)

(* the backwards loop started at index p-1: it reads s[j], l[j] only for j < p, stops at q-1 where
   q is the least position such that s and l agree on [q, p) *)
Lemma suffix_loop_spec s l : forall p fuel,
  (p <= length s)%nat -> (p <= length l)%nat -> (p <= fuel)%nat ->
  exists q, (q <= p)%nat /\ suffix_loop fuel s l (Z.of_nat p - 1) = Ok (Z.of_nat q - 1) /\
    (forall j, (q <= j < p)%nat -> nth j s 0%N = nth j l 0%N) /\
    (q = O \/ nth (q - 1) s 0%N <> nth (q - 1) l 0%N).
Proof.
  induction p as [|p IH]; intros fuel Hs Hl Hf.
  - exists O. split; [lia|]. split; [|split; [intros j Hj; lia | left; reflexivity]].
    destruct fuel; reflexivity.
  - destruct fuel as [|f]; [lia|]. cbn [suffix_loop].
    replace (0 <=? Z.of_nat (S p) - 1) with true by lia.
    rewrite !index_ok by (unfold zlen; lia).
    replace (Z.to_nat (Z.of_nat (S p) - 1)) with p by lia. cbn [bind].
    destruct (nth p s 0 =? nth p l 0)%N eqn:E.
    + replace (Z.of_nat (S p) - 1 - 1) with (Z.of_nat p - 1) by lia.
      destruct (IH f ltac:(lia) ltac:(lia) ltac:(lia)) as [q [Hq [Hr [Hagree Hmax]]]].
      exists q. split; [lia|]. split; [exact Hr|]. split; [|exact Hmax].
      intros j Hj. destruct (Nat.eq_dec j p) as [->|Hne]; [apply N.eqb_eq; exact E|].
      apply Hagree. lia.
    + exists (S p). split; [lia|]. split; [reflexivity|]. split; [intros j Hj; lia|].
      right. replace (S p - 1)%nat with p by lia. apply N.eqb_neq. exact E.
Qed.

(* characterisation of the model's common_prefix, read right-to-left *)
Lemma common_prefix_app com : forall x y, common_prefix x y = (x, y, []) ->
  common_prefix (com ++ x) (com ++ y) = (x, y, com).
Proof.
  induction com as [|u com IH]; intros x y H; [exact H|].
  cbn [app common_prefix]. rewrite N.eqb_refl. rewrite (IH x y H). reflexivity.
Qed.

Lemma common_suffix_char (a c ra rc com : bytes) :
  a = ra ++ com -> c = rc ++ com ->
  (ra = [] \/ rc = [] \/ exists ra' rc' u v, ra = ra' ++ [u] /\ rc = rc' ++ [v] /\ u <> v) ->
  common_prefix (rev a) (rev c) = (rev ra, rev rc, rev com).
Proof.
  intros -> -> H. rewrite !rev_app_distr. apply common_prefix_app.
  destruct H as [->|[->|[ra' [rc' [u [v [-> [-> Huv]]]]]]]].
  - reflexivity.
  - cbn [rev]. destruct (rev ra); reflexivity.
  - rewrite !rev_app_distr. cbn [rev app common_prefix].
    apply N.eqb_neq in Huv. rewrite Huv. reflexivity.
Qed.

(* the generic step: s is the shorter string, l the longer one, q the loop's result + 1 *)
Lemma suffix_split (s l : bytes) (q : nat) :
  (length s <= length l)%nat -> (q <= length s)%nat ->
  (forall j, (q <= j < length s)%nat ->
     nth j s 0%N = nth j (skipn (length l - length s) l) 0%N) ->
  (q = O \/ nth (q - 1) s 0%N <> nth (q - 1) (skipn (length l - length s) l) 0%N) ->
  let com := skipn q s in
  let rs := firstn q s in
  let rl := firstn (length l - length s + q) l in
  s = rs ++ com /\ l = rl ++ com /\
  (rs = [] \/ exists rs' rl' u v, rs = rs' ++ [u] /\ rl = rl' ++ [v] /\ u <> v).
Proof.
  intros Hlen Hq Hagree Hmax com rs rl. subst com rs rl.
  assert (Hcom : skipn q s = skipn (length l - length s + q) l).
  { rewrite <- skipn_skipn'. apply (nth_ext _ _ 0%N 0%N).
    - rewrite !skipn_length. lia.
    - intros j Hj. rewrite skipn_length in Hj.
      rewrite (nth_skipn' s), (nth_skipn' (skipn (length l - length s) l)). apply Hagree. lia. }
  split; [symmetry; apply firstn_skipn|].
  split; [rewrite Hcom; symmetry; apply firstn_skipn|].
  destruct Hmax as [->|Hne]; [left; reflexivity|].
  destruct q as [|q]; [left; reflexivity|]. right.
  replace (S q - 1)%nat with q in Hne by lia. rewrite nth_skipn' in Hne.
  exists (firstn q s), (firstn (length l - length s + q) l), (nth q s 0%N),
    (nth (length l - length s + q) l 0%N).
  split; [apply firstn_S_snoc; lia|].
  split; [|exact Hne].
  replace (length l - length s + S q)%nat with (S (length l - length s + q)) by lia.
  apply firstn_S_snoc. lia.
Qed.

Theorem split_at_common_suffix_safe : forall a c,
  exists ra rc com, split_at_common_suffix a c = Ok (ra, rc, com) /\
    a = ra ++ com /\ c = rc ++ com /\
    common_prefix (rev a) (rev c) = (rev ra, rev rc, rev com).
Proof.
  intros a c. unfold split_at_common_suffix.
  destruct (zlen c <? zlen a) eqn:E.
  - (* s = c, l = a *)
    assert (Hlen : (length c <= length a)%nat) by (unfold zlen in E; lia).
    rewrite slice_to_end by (unfold zlen; lia). cbn [bind].
    replace (Z.to_nat (zlen a - zlen c)) with (length a - length c)%nat by (unfold zlen; lia).
    set (l1 := skipn (length a - length c) a).
    assert (Hl1 : length l1 = length c) by (unfold l1; rewrite skipn_length; lia).
    rewrite slice_from_start by (unfold zlen; lia). cbn [bind].
    destruct (suffix_loop_spec c l1 (length c) (S (length c)) ltac:(lia) ltac:(lia) ltac:(lia))
      as [q [Hq [Hr [Hagree Hmax]]]].
    unfold zlen at 1. rewrite Hr. cbn [bind].
    destruct (suffix_split c a q Hlen Hq Hagree Hmax) as [Hc [Ha Hm]].
    rewrite !slice_from_start by (unfold zlen; lia).
    rewrite slice_to_end by (unfold zlen; lia). cbn [bind].
    replace (Z.to_nat (zlen a - zlen c + (Z.of_nat q - 1 + 1))) with (length a - length c + q)%nat
      by (unfold zlen; lia).
    replace (Z.to_nat (zlen c - zlen c + (Z.of_nat q - 1 + 1))) with q by (unfold zlen; lia).
    replace (Z.to_nat (Z.of_nat q - 1 + 1)) with q by lia.
    eexists _, _, _. split; [reflexivity|]. split; [exact Ha|]. split; [exact Hc|].
    apply common_suffix_char; [exact Ha | exact Hc |].
    destruct Hm as [Hm|[rs' [rl' [u [v [H1 [H2 Huv]]]]]]]; [right; left; exact Hm|].
    right; right. exists rl', rs', v, u. split; [exact H2|]. split; [exact H1|]. congruence.
  - (* s = a, l = c *)
    assert (Hlen : (length a <= length c)%nat) by (unfold zlen in E; lia).
    rewrite slice_to_end by (unfold zlen; lia). cbn [bind].
    replace (Z.to_nat (zlen c - zlen a)) with (length c - length a)%nat by (unfold zlen; lia).
    set (l1 := skipn (length c - length a) c).
    assert (Hl1 : length l1 = length a) by (unfold l1; rewrite skipn_length; lia).
    rewrite slice_from_start by (unfold zlen; lia). cbn [bind].
    destruct (suffix_loop_spec a l1 (length a) (S (length a)) ltac:(lia) ltac:(lia) ltac:(lia))
      as [q [Hq [Hr [Hagree Hmax]]]].
    unfold zlen at 1. rewrite Hr. cbn [bind].
    destruct (suffix_split a c q Hlen Hq Hagree Hmax) as [Ha [Hc Hm]].
    rewrite !slice_from_start by (unfold zlen; lia).
    rewrite slice_to_end by (unfold zlen; lia). cbn [bind].
    replace (Z.to_nat (zlen c - zlen a + (Z.of_nat q - 1 + 1))) with (length c - length a + q)%nat
      by (unfold zlen; lia).
    replace (Z.to_nat (zlen a - zlen a + (Z.of_nat q - 1 + 1))) with q by (unfold zlen; lia).
    replace (Z.to_nat (Z.of_nat q - 1 + 1)) with q by lia.
    eexists _, _, _. split; [reflexivity|]. split; [exact Ha|]. split; [exact Hc|].
    apply common_suffix_char; [exact Ha | exact Hc |].
    destruct Hm as [Hm|[rs' [rl' [u [v [H1 [H2 Huv]]]]]]]; [left; exact Hm|].
    right; right. exists rs', rl', u, v. split; [exact H1|]. split; [exact H2|]. exact Huv.
Qed.

(* ------------------------------------------------------------------------------------------ *)
(* 2. parsePort                                                                                *)
(* ------------------------------------------------------------------------------------------ *)

Lemma port_loop_0 s acc : port_loop s 0 acc = (acc, s).
Proof. destruct s; reflexivity. Qed.

Lemma port_loop_min : forall s n acc, port_loop s (Nat.min n (length s)) acc = port_loop s n acc.
Proof.
  induction s as [|c r IH]; intros n acc.
  - destruct n; reflexivity.
  - destruct n as [|n]; [reflexivity|]. cbn [length Nat.min port_loop].
    destruct (in_set origins_digits c); [apply IH | reflexivity].
Qed.

(* the index loop on [i, stop) is the structural loop on the suffix str[i:], for stop - i steps *)
Lemma port_loop_idx_spec str stop : stop <= zlen str ->
  forall fuel i acc, 0 <= i <= stop -> (Z.to_nat (stop - i) <= fuel)%nat ->
  exists j, i <= j <= stop /\
    port_loop_idx fuel str i stop acc =
      Ok (fst (port_loop (skipn (Z.to_nat i) str) (Z.to_nat (stop - i)) acc), j) /\
    snd (port_loop (skipn (Z.to_nat i) str) (Z.to_nat (stop - i)) acc) = skipn (Z.to_nat j) str.
Proof.
  intros Hstop. induction fuel as [|f IH]; intros i acc Hi Hf.
  - exists i. split; [lia|]. replace (Z.to_nat (stop - i)) with O by lia. rewrite port_loop_0. split; reflexivity.
  - cbn [port_loop_idx]. destruct (i <? stop) eqn:E.
    + rewrite index_ok by lia. cbn [bind].
      rewrite (skipn_nth_cons str 0%N (Z.to_nat i)) by (unfold zlen in Hstop; lia).
      replace (Z.to_nat (stop - i)) with (S (Z.to_nat (stop - (i + 1)))) by lia.
      cbn [port_loop].
      destruct (in_set origins_digits (nth (Z.to_nat i) str 0%N)).
      * destruct (IH (i + 1) (origins_parsePort_base * acc + (Z.of_N (nth (Z.to_nat i) str 0%N) - 48))
                     ltac:(lia) ltac:(lia)) as [j [Hj [Hr Hs]]].
        replace (Z.to_nat (i + 1)) with (S (Z.to_nat i)) in Hr, Hs by lia.
        exists j. split; [lia|]. split; [exact Hr | exact Hs].
      * exists i. split; [lia|]. cbn [fst snd]. split; [reflexivity|].
        symmetry. apply skipn_nth_cons. unfold zlen in Hstop. lia.
    + exists i. split; [lia|]. replace (Z.to_nat (stop - i)) with O by lia. rewrite port_loop_0. split; reflexivity.
Qed.

Theorem parse_port_idx_ok : forall s, parse_port_idx s = Ok (parse_port s).
Proof.
  intros s. unfold parse_port_idx, parse_port.
  destruct s as [|c r]; [reflexivity|].
  replace (zlen (c :: r) =? 0) with false by (unfold zlen; cbn [length]; lia).
  rewrite index_ok by (unfold zlen; cbn [length]; lia).
  change (nth (Z.to_nat 0) (c :: r) 0%N) with c. cbn [bind].
  destruct (in_set origins_nonzeroDigits c); [|reflexivity]. cbn [negb].
  change origins_maxPortLen with 5.
  set (stop := Z.min (zlen (c :: r)) 5).
  assert (Hstop : 1 <= stop <= zlen (c :: r)) by (unfold stop, zlen; cbn [length]; lia).
  rewrite slice_ok by lia. cbn [bind].
  destruct (port_loop_idx_spec (c :: r) stop ltac:(lia) (length (c :: r)) 1 (Z.of_N c - 48)
              ltac:(lia) ltac:(unfold stop, zlen; lia)) as [j [Hj [Hr Hs]]].
  rewrite Hr. cbn [bind].
  change (skipn (Z.to_nat 1) (c :: r)) with r in Hs |- *.
  replace (Z.to_nat (stop - 1)) with (Nat.min 4 (length r)) in Hs |- *
    by (unfold stop, zlen; cbn [length]; lia).
  rewrite port_loop_min in Hs |- *.
  change (Z.to_nat 5 - 1)%nat with 4%nat.
  destruct (port_loop r 4 (Z.of_N c - 48)) as [p rest]. cbn [fst snd] in Hs |- *.
  destruct ((p <? 0) || (origins_maxUint16 <? p)); [reflexivity|].
  rewrite slice_to_end by lia. cbn [bind]. rewrite Hs. reflexivity.
Qed.

(* ------------------------------------------------------------------------------------------ *)
(* 3. cutAtComma                                                                               *)
(* ------------------------------------------------------------------------------------------ *)

Lemma index_byte_shift c : forall w k,
  index_byte c w k = if index_byte c w 0 <? 0 then -1 else k + index_byte c w 0.
Proof.
  induction w as [|x r IH]; intros k; [reflexivity|].
  cbn [index_byte]. destruct (x =? c)%N.
  - replace (0 <? 0) with false by lia. lia.
  - rewrite (IH (k + 1)), (IH (0 + 1)).
    destruct (index_byte c r 0 <? 0) eqn:E; [reflexivity|].
    replace (0 + 1 + index_byte c r 0 <? 0) with false by lia. lia.
Qed.

(* strings.IndexByte on the window str[:n], against the structural cut *)
Lemma cut_at_comma_index : forall n s,
  let i := index_byte 44 (firstn n s) 0 in
  if 0 <=? i
  then i < Z.of_nat (Nat.min n (length s)) /\
       cut_at_comma s n = (firstn (Z.to_nat i) s, skipn (Z.to_nat (i + 1)) s, true)
  else cut_at_comma s n = (s, [], false).
Proof.
  induction n as [|n IH]; intros s.
  - cbn. destruct s; reflexivity.
  - destruct s as [|c r]; [reflexivity|].
    cbn [firstn index_byte cut_at_comma length Nat.min]. destruct (c =? 44)%N.
    + cbn zeta. replace (0 <=? 0) with true by lia. split; [lia|]. reflexivity.
    + specialize (IH r). cbn zeta in IH |- *. rewrite index_byte_shift.
      destruct (0 <=? index_byte 44 (firstn n r) 0) eqn:E.
      * destruct IH as [Hlt IH]. rewrite IH.
        replace (index_byte 44 (firstn n r) 0 <? 0) with false by lia.
        replace (0 <=? 0 + 1 + index_byte 44 (firstn n r) 0) with true by lia.
        split; [lia|].
        replace (Z.to_nat (0 + 1 + index_byte 44 (firstn n r) 0))
          with (S (Z.to_nat (index_byte 44 (firstn n r) 0))) by lia.
        replace (Z.to_nat (0 + 1 + index_byte 44 (firstn n r) 0 + 1))
          with (S (Z.to_nat (index_byte 44 (firstn n r) 0 + 1))) by lia.
        reflexivity.
      * rewrite IH. replace (index_byte 44 (firstn n r) 0 <? 0) with true by lia. reflexivity.
Qed.

Theorem cut_at_comma_idx_ok : forall s n, cut_at_comma_idx s (Z.of_nat n) = Ok (cut_at_comma s n).
Proof.
  intros s n. unfold cut_at_comma_idx.
  rewrite slice_from_start by (unfold zlen; lia). cbn [bind].
  replace (Z.to_nat (Z.min (zlen s) (Z.of_nat n))) with (Nat.min n (length s)) by (unfold zlen; lia).
  rewrite firstn_min_len.
  pose proof (cut_at_comma_index n s) as H. cbn zeta in H.
  destruct (0 <=? index_byte 44 (firstn n s) 0) eqn:E.
  - destruct H as [Hlt H].
    rewrite slice_to_end by (unfold zlen; lia). cbn [bind].
    rewrite slice_from_start by (unfold zlen; lia). cbn [bind]. rewrite H. reflexivity.
  - rewrite H. reflexivity.
Qed.

(* ------------------------------------------------------------------------------------------ *)
(* 4. SortedSet.IndexAfter                                                                     *)
(* ------------------------------------------------------------------------------------------ *)

Theorem index_after_idx_ok : forall set n e,
  -1 <= n < Z.of_nat (length (elems set)) \/ n = -1 ->
  index_after_idx set n e = Ok (index_after set n e).
Proof.
  intros set n e H. unfold index_after_idx, index_after.
  destruct (maxlen set <? blen e)%N; [reflexivity|].
  rewrite slice_to_end by (unfold zlen; lia). reflexivity.
Qed.

(* exactly when it panics: the length pre-check does not return early and the documented
   precondition -1 <= n < Size is violated *)
Theorem index_after_idx_panic_iff : forall set n e,
  index_after_idx set n e = Panic <->
  (maxlen set <? blen e)%N = false /\ ~ (-1 <= n < Z.of_nat (length (elems set)) \/ n = -1).
Proof.
  intros set n e. unfold index_after_idx.
  destruct (maxlen set <? blen e)%N.
  - split; [discriminate | intros [H _]; discriminate].
  - split.
    + intros H. split; [reflexivity|]. intros Hn.
      rewrite slice_to_end in H by (unfold zlen; lia). discriminate.
    + intros [_ Hn]. rewrite slice_panic by (unfold zlen; lia). reflexivity.
Qed.

Lemma find_index_range e : forall l k,
  find_index e l k = -1 \/ k <= find_index e l k < k + Z.of_nat (length l).
Proof.
  induction l as [|x r IH]; intros k; [left; reflexivity|].
  cbn [find_index length]. destruct (beqb e x); [right; lia|].
  destruct (IH (k + 1)) as [H|H]; [left; exact H | right; lia].
Qed.

(* the value IndexAfter returns re-establishes its own precondition *)
Lemma index_after_range set n e : -1 <= n < Z.of_nat (length (elems set)) \/ n = -1 ->
  index_after set n e = -1 \/ n < index_after set n e < Z.of_nat (length (elems set)).
Proof.
  intros H. unfold index_after. destruct (maxlen set <? blen e)%N; [left; reflexivity|].
  destruct (find_index_range e (skipn (Z.to_nat (n + 1)) (elems set)) (n + 1)) as [Hf|Hf];
    [left; exact Hf|].
  right. rewrite skipn_length in Hf. lia.
Qed.

(* ------------------------------------------------------------------------------------------ *)
(* 5. the Check loop                                                                           *)
(* ------------------------------------------------------------------------------------------ *)

Definition cres_to_idx (r : cres) : cres_idx :=
  match r with CFail => IFail | COk p e => IOk p e | CFuel => IFuel end.

Definition pos_inv (set : sset) (pos : Z) : Prop :=
  -1 <= pos < Z.of_nat (length (elems set)) \/ pos = -1.

Theorem check_line_idx_ok : forall fuel set win acrh pos emp,
  pos_inv set pos ->
  check_line_idx fuel set (Z.of_nat win) acrh pos emp = cres_to_idx (check_line fuel set win acrh pos emp).
Proof.
  induction fuel as [|f IH]; intros set win acrh pos emp Hpos; [reflexivity|].
  cbn [check_line_idx check_line]. rewrite cut_at_comma_idx_ok.
  destruct (cut_at_comma acrh win) as [[name rest] found].
  destruct (trim_ows name max_ows) as [[|x nm]|]; [| |reflexivity].
  - cbv zeta. destruct (max_empty <? emp + 1); [reflexivity|].
    destruct found; [apply IH; exact Hpos | reflexivity].
  - rewrite index_after_idx_ok by exact Hpos. cbv zeta.
    destruct (index_after set pos (x :: nm) <? 0) eqn:E; [reflexivity|].
    destruct found; [|reflexivity]. apply IH.
    destruct (index_after_range set pos (x :: nm) Hpos) as [Hr|Hr]; unfold pos_inv; lia.
Qed.

(* the invariant is also an output of the loop, so it holds again for the next field line *)
Lemma check_line_pos_inv : forall fuel set win acrh pos emp p e,
  pos_inv set pos -> check_line fuel set win acrh pos emp = COk p e -> pos_inv set p.
Proof.
  induction fuel as [|f IH]; intros set win acrh pos emp p e Hpos; [discriminate|].
  cbn [check_line]. destruct (cut_at_comma acrh win) as [[name rest] found].
  destruct (trim_ows name max_ows) as [[|x nm]|]; [| |discriminate].
  - cbv zeta. destruct (max_empty <? emp + 1); [discriminate|].
    destruct found; [apply IH; exact Hpos|]. intros H. injection H as <- _. exact Hpos.
  - cbv zeta. destruct (index_after set pos (x :: nm) <? 0) eqn:E; [discriminate|].
    assert (Hn : pos_inv set (index_after set pos (x :: nm))).
    { destruct (index_after_range set pos (x :: nm) Hpos) as [Hr|Hr]; unfold pos_inv; lia. }
    destruct found; [apply IH; exact Hn|]. intros H. injection H as <- _. exact Hn.
Qed.

(* headers.Check over all field lines, at index level *)
Fixpoint check_lines_idx (set : sset) (win : Z) (lines : list bytes) (pos emp : Z) : cres_idx :=
  match lines with
  | [] => IOk pos emp
  | l :: r =>
      match check_line_idx (S (length l)) set win l pos emp with
      | IOk p e => check_lines_idx set win r p e
      | x => x
      end
  end.

Theorem check_lines_idx_ok : forall set win lines pos emp,
  pos_inv set pos ->
  check_lines_idx set (Z.of_nat win) lines pos emp = cres_to_idx (check_lines set win lines pos emp).
Proof.
  intros set win lines. induction lines as [|l r IH]; intros pos emp Hpos; [reflexivity|].
  cbn [check_lines_idx check_lines]. rewrite check_line_idx_ok by exact Hpos.
  destruct (check_line (S (length l)) set win l pos emp) as [|p e|] eqn:E; cbn [cres_to_idx];
    [reflexivity| |reflexivity].
  apply IH. eapply check_line_pos_inv; eassumption.
Qed.

(* Check starts from pos = -1 with the window it computes: it never panics *)
Theorem check_idx_never_panics : forall set lines,
  check_lines_idx set (Z.of_nat (check_window set)) lines (-1) 0 =
    cres_to_idx (check_lines set (check_window set) lines (-1) 0) /\
  check_lines_idx set (Z.of_nat (check_window set)) lines (-1) 0 <> IPanic.
Proof.
  intros set lines.
  assert (H : check_lines_idx set (Z.of_nat (check_window set)) lines (-1) 0 =
              cres_to_idx (check_lines set (check_window set) lines (-1) 0))
    by (apply check_lines_idx_ok; right; reflexivity).
  split; [exact H|]. rewrite H.
  destruct (check_lines set (check_window set) lines (-1) 0); discriminate.
Qed.

(* ------------------------------------------------------------------------------------------ *)
(* 6. headers.First                                                                            *)
(* ------------------------------------------------------------------------------------------ *)

Theorem first_idx_ok : forall m k,
  first_idx m k = Ok (match hget m k with Some (x :: _) => Some (x, [x]) | _ => None end) /\
  (forall x sgl, first_idx m k = Ok (Some (x, sgl)) -> first m k = Some x /\ sgl = [x]) /\
  (first_idx m k = Ok None <-> first m k = None).
Proof.
  intros m k. unfold first_idx, first. destruct (hget m k) as [[|x v]|].
  - split; [reflexivity|]. split; [intros x sgl H; discriminate | split; reflexivity].
  - replace (zlen (x :: v) =? 0) with false by (unfold zlen; cbn [length]; lia).
    rewrite slice_from_start by (unfold zlen; cbn [length]; lia). cbn [bind].
    change (firstn (Z.to_nat 1) (x :: v)) with [x].
    split; [reflexivity|]. split.
    + intros y sgl H. injection H as <- <-. split; reflexivity.
    + split; discriminate.
  - split; [reflexivity|]. split; [intros x sgl H; discriminate | split; reflexivity].
Qed.

(* ------------------------------------------------------------------------------------------ *)
(* 7. "non-empty by construction": the value of an accepted pattern                            *)
(* ------------------------------------------------------------------------------------------ *)

Lemma has_wildcard_prefix s : has_prefix origins_peekKind_wildcardSeq s = true ->
  exists r, s = 42%N :: 46%N :: r.
Proof.
  unfold origins_peekKind_wildcardSeq. destruct s as [|x [|y r]]; cbn [has_prefix].
  - discriminate.
  - rewrite andb_false_r. discriminate.
  - intros H. apply andb_true_iff in H. destruct H as [H1 H2].
    apply andb_true_iff in H2. destruct H2 as [H2 _].
    apply N.eqb_eq in H1, H2. subst. exists r. reflexivity.
Qed.

Lemma parse_host_pattern_value ace ip6 s value k rest :
  parse_host_pattern ace ip6 s = inl (value, k, rest) ->
  value <> [] /\ (k = KSubdomains -> exists r, value = 42%N :: 46%N :: r /\ r <> []).
Proof.
  unfold parse_host_pattern.
  destruct (fast_parse_host (host_only s (peek_kind s))) as [[h rest']|] eqn:Ef; [|discriminate].
  destruct (pkind_eqb (peek_kind s) KSubdomains &&
            (Z.to_nat origins_maxHostLen - 2 <? length (hvalue h))%nat); [discriminate|].
  destruct (pkind_eqb (peek_kind s) KSubdomains && assume_ip h); [discriminate|].
  destruct (assume_ip h).
  - (* IP literal: the value is the canonical form, equal to the parsed host *)
    destruct (parse_addr ip6 (hvalue h)) as [| | |canon lb] eqn:Ea; try discriminate.
    destruct (beqb canon (hvalue h)) eqn:Eb; [|discriminate].
    intros H. injection H as <- <- _. apply Proofs.RadixP.beqb_eq in Eb. subst canon.
    split; [|destruct lb; discriminate].
    intros Hnil. rewrite Hnil in Ea. discriminate.
  - destruct (idna_ok ace (hvalue h)) eqn:Ei; [|discriminate].
    assert (Hne : hvalue h <> []) by (intros Hnil; rewrite Hnil in Ei; discriminate).
    intros H. injection H as <- <- _. unfold peek_kind in Ef |- *.
    destruct (has_prefix origins_peekKind_wildcardSeq s) eqn:Ep.
    + destruct (has_wildcard_prefix s Ep) as [r ->]. cbn [pkind_eqb].
      change (length origins_subdomainWildcard + 1)%nat with 2%nat.
      replace (length (hvalue h) + 2)%nat with (S (S (length (hvalue h)))) by lia.
      cbn [firstn]. split; [discriminate|]. intros _. eexists. split; [reflexivity|].
      change (host_only (42%N :: 46%N :: r) KSubdomains) with r in Ef.
      destruct r as [|c r]; [discriminate|].
      destruct (hvalue h) as [|y hv]; [contradiction|]. discriminate.
    + split; [|discriminate]. cbn [pkind_eqb host_only] in Ef |- *.
      destruct s as [|c r]; [discriminate|].
      destruct (hvalue h) as [|y hv]; [contradiction|]. cbn [length Nat.add firstn]. discriminate.
Qed.

Lemma parse_pattern_host ace ip6 raw p : parse_pattern ace ip6 raw = inl p ->
  exists s k rest, parse_host_pattern ace ip6 s = inl (pvalue p, k, rest) /\ pkind_of p = k.
Proof.
  unfold parse_pattern.
  destruct (beqb raw lit_star || beqb raw lit_null); [discriminate|].
  destruct (parse_scheme raw) as [[sch s1]|]; [|discriminate].
  destruct (beqb sch lit_file); [discriminate|].
  destruct (cut_prefix origins_schemeHostSep s1) as [s2|]; [|discriminate].
  destruct (parse_host_pattern ace ip6 s2) as [[[value k] s3]|r] eqn:Eh; [|discriminate].
  destruct (is_ip_kind k && beqb sch origins_schemeHTTPS); [discriminate|].
  destruct s3 as [|c s3'].
  - intros H; inversion H; subst; cbn [pvalue pkind_of]. eexists _, _, _. split; [exact Eh | reflexivity].
  - destruct (cut_prefix [host_port_sep] (c :: s3')) as [s4|]; [|discriminate].
    destruct (parse_port_pattern s4) as [[q rest]|] eqn:E; [|discriminate].
    destruct rest; [|discriminate].
    destruct (is_default_port sch q); [discriminate|].
    intros H; inversion H; subst; cbn [pvalue pkind_of]. eexists _, _, _. split; [exact Eh | reflexivity].
Qed.

Theorem pattern_value_nonempty : forall ace ip6 raw p,
  parse_pattern ace ip6 raw = inl p -> pvalue p <> [].
Proof.
  intros ace ip6 raw p H. destruct (parse_pattern_host _ _ _ _ H) as [s [k [rest [Hh _]]]].
  exact (proj1 (parse_host_pattern_value _ _ _ _ _ _ Hh)).
Qed.

Theorem wildcard_value_has_prefix : forall ace ip6 raw p,
  parse_pattern ace ip6 raw = inl p -> pkind_of p = KSubdomains ->
  exists rest, pvalue p = 42%N :: 46%N :: rest.
Proof.
  intros ace ip6 raw p H Hk. destruct (parse_pattern_host _ _ _ _ H) as [s [k [rest [Hh Hk']]]].
  destruct (proj2 (parse_host_pattern_value _ _ _ _ _ _ Hh) ltac:(congruence)) as [r [Hr _]].
  exists r. exact Hr.
Qed.

(* the host part (what hostOnly returns) of an accepted pattern is non-empty as well *)
Theorem pattern_host_nonempty : forall ace ip6 raw p,
  parse_pattern ace ip6 raw = inl p -> host_only (pvalue p) (pkind_of p) <> [].
Proof.
  intros ace ip6 raw p H. destruct (parse_pattern_host _ _ _ _ H) as [s [k [rest [Hh Hk]]]].
  destruct (parse_host_pattern_value _ _ _ _ _ _ Hh) as [Hne Hw]. rewrite Hk.
  destruct k; try exact Hne.
  destruct (Hw eq_refl) as [r [-> Hr]]. exact Hr.
Qed.

(* ------------------------------------------------------------------------------------------ *)
(* 8. uint8(status - 200) and Atoi on the rendered max-age                                     *)
(* ------------------------------------------------------------------------------------------ *)

Theorem status_fits_uint8 : forall ace ip6 psl c ic,
  new_internal_config ace ip6 psl c = inl ic -> 0 <= i_status_m200 ic <= 99.
Proof.
  intros ace ip6 psl c ic H. pose proof (accepted_rel _ _ _ _ _ H) as R.
  destruct (rel_status _ _ _ _ R) as [_ Hr]. lia.
Qed.

Lemma digits_fuel_digits : forall fuel n acc,
  all_bytes is_digit acc = true -> all_bytes is_digit (digits_fuel fuel n acc) = true.
Proof.
  induction fuel as [|f IH]; intros n acc Hacc; [exact Hacc|].
  cbn [digits_fuel].
  assert (Hd : all_bytes is_digit ((48 + n mod 10)%N :: acc) = true).
  { cbn [all_bytes]. rewrite Hacc, andb_true_r. unfold is_digit.
    pose proof (N.mod_upper_bound n 10 ltac:(lia)). lia. }
  destruct (n <? 10)%N; [exact Hd | apply IH; exact Hd].
Qed.

Lemma digits_fuel_nonempty : forall fuel n acc, acc <> [] -> digits_fuel fuel n acc <> [].
Proof.
  induction fuel as [|f IH]; intros n acc Hacc; [exact Hacc|].
  cbn [digits_fuel]. destruct (n <? 10)%N; [discriminate | apply IH; discriminate].
Qed.

Lemma digits_fuel_S_nonempty f n acc : digits_fuel (S f) n acc <> [].
Proof.
  cbn [digits_fuel]. destruct (n <? 10)%N; [discriminate | apply digits_fuel_nonempty; discriminate].
Qed.

Lemma itoa_decimal n : itoa n <> [] /\ all_bytes is_digit (itoa n) = true.
Proof.
  unfold itoa. split; [|apply digits_fuel_digits; reflexivity].
  apply digits_fuel_S_nonempty.
Qed.

Theorem acma_is_decimal : forall ace ip6 psl c ic v,
  new_internal_config ace ip6 psl c = inl ic -> i_acma ic = Some v ->
  v <> [] /\ all_bytes is_digit v = true.
Proof.
  intros ace ip6 psl c ic v H Hv. pose proof (accepted_rel _ _ _ _ _ H) as R.
  rewrite (rel_acma _ _ _ _ R) in Hv. unfold spec_max_age in Hv.
  destruct (c_max_age c =? 0); [discriminate|].
  destruct (c_max_age c =? -1).
  - injection Hv as <-. split; [discriminate | reflexivity].
  - injection Hv as <-. apply itoa_decimal.
Qed.
