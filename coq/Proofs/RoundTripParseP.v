(* Proofs/RoundTripParseP.v -- C06, layer 3: the pattern parser is idempotent on what Config() prints.
   Main result: [reparse]: if [parse_pattern raw = inl p] then the text [render_entry (entry_of p)]
   under which the tree lists p parses to p again -- provided the IPv6 oracle rejects literals that
   start with '*' ([ip6_sane]; net/netip does), because such a "canonical address" would be stored
   as a subdomain wildcard. *)
Require Import Base.Bytes Gen.Tables Model.Origins Model.Netip Model.Idna Model.Pattern Model.Radix Spec.Origins.
Require Import Proofs.RadixP Proofs.HeadersP Proofs.ParseP Proofs.RoundTripTreeP.
From Coq Require Import ZifyBool ZifyNat ZifyN.
Open Scope N_scope.

Definition ip6_sane (ip6 : bytes -> ipres) : Prop :=
  forall s, match ip6 (42 :: s) with IPOk _ _ => False | _ => True end.

(* ------------------------------------------------------------------------------------------ *)
(* 1. finite checks over a range of N                                                          *)

Fixpoint all_from (f : N -> bool) (k : nat) (n : N) : bool :=
  match k with
  | O => true
  | S k' => if f n then all_from f k' (n + 1) else false
  end.

Lemma all_from_spec f k : forall n, all_from f k n = true -> forall m, n <= m < n + N.of_nat k -> f m = true.
Proof.
  induction k as [|k IH]; intros n H m Hm; [lia|]. cbn [all_from] in H.
  destruct (f n) eqn:E; [|discriminate].
  destruct (N.eq_dec m n) as [->|Hne]; [exact E|]. apply (IH _ H). lia.
Qed.

Definition port_rt_ok (n : N) : bool :=
  match parse_port (itoa n) with
  | Some (p, []) => (p =? Z.of_N n)%Z
  | _ => false
  end &&
  match itoa n with c :: _ => negb (c =? 42) | [] => false end.

Lemma port_rt_all : all_from port_rt_ok (N.to_nat 65535) 1 = true.
Proof. vm_cast_no_check (eq_refl true). Qed.

Lemma parse_port_itoa q : (1 <= q <= 65535)%Z ->
  parse_port (itoa (Z.to_N q)) = Some (q, []) /\ cut_prefix origins_portWildcard (itoa (Z.to_N q)) = None.
Proof.
  intros Hq. pose proof (all_from_spec _ _ _ port_rt_all (Z.to_N q) ltac:(rewrite N2Nat.id; lia)) as H.
  unfold port_rt_ok in H. apply andb_true_iff in H. destruct H as [H1 H2]. split.
  - destruct (parse_port (itoa (Z.to_N q))) as [[p [|x r]]|]; try discriminate. f_equal. f_equal. lia.
  - destruct (itoa (Z.to_N q)) as [|c r]; [discriminate|]. change origins_portWildcard with [42].
    cbn [cut_prefix]. rewrite N.eqb_sym. apply negb_true_iff in H2. rewrite H2. reflexivity.
Qed.

(* ------------------------------------------------------------------------------------------ *)
(* 2. scheme                                                                                   *)

Lemma tw_reparse p n : forall s a c r, take_while_n p n s = (a, c :: r) ->
  forall r', take_while_n p n (a ++ c :: r') = (a, c :: r').
Proof.
  induction n as [|n IH]; intros s a c r H r'.
  - destruct s; cbn [take_while_n] in H; injection H as <- _; reflexivity.
  - destruct s as [|x t]; cbn [take_while_n] in H; [discriminate|].
    destruct (p x) eqn:E.
    + destruct (take_while_n p n t) as [a' rest] eqn:E2. injection H as <- ->.
      cbn [app take_while_n]. rewrite E, (IH _ _ _ _ E2 r'). reflexivity.
    + injection H as <- <- <-. cbn [app take_while_n]. rewrite E. reflexivity.
Qed.

Lemma parse_scheme_reparse raw sch c r : parse_scheme raw = Some (sch, c :: r) ->
  forall r', parse_scheme (sch ++ c :: r') = Some (sch, c :: r').
Proof.
  unfold parse_scheme. destruct raw as [|x t]; [discriminate|].
  destruct (in_set origins_lowerAlpha x) eqn:E; [|discriminate].
  destruct (take_while_n _ _ t) as [a rest] eqn:E2. intros H r'. injection H as <- ->.
  cbn [app]. rewrite E, (tw_reparse _ _ _ _ _ _ E2 r'). reflexivity.
Qed.

(* ------------------------------------------------------------------------------------------ *)
(* 3. the host loop                                                                            *)

Definition hostchar (c : N) : bool :=
  (c =? label_sep) || in_set origins_digits c || in_set origins_asciiLabelBytes c.

(* what may follow a host in a rendered pattern *)
Definition stop (r : bytes) : Prop := r = [] \/ exists t, r = 58 :: t.

Lemma host_loop_stop r f p i : stop r -> host_loop r f p i = Some ([], r, i).
Proof. intros [->|[t ->]]; reflexivity. Qed.

Lemma host_loop_reparse : forall s f p i h rest v, host_loop s f p i = Some (h, rest, v) ->
  s = h ++ rest /\ forallb hostchar h = true /\
  forall r', stop r' -> host_loop (h ++ r') f p i = Some (h, r', v).
Proof.
  induction s as [|c t IH]; intros f p i h rest v H.
  - cbn in H. injection H as <- <- <-. split; [reflexivity|]. split; [reflexivity|].
    intros r' Hr. apply host_loop_stop, Hr.
  - cbn [host_loop] in H.
    destruct (c =? label_sep) eqn:E1.
    + destruct p; [discriminate|].
      destruct (host_loop t false true i) as [[[h' rest'] v']|] eqn:E; [|discriminate].
      injection H as <- <- <-. destruct (IH _ _ _ _ _ _ E) as [I1 [I2 I3]].
      split; [cbn [app]; f_equal; exact I1|]. split; [cbn [forallb]; unfold hostchar at 1; rewrite E1, I2; reflexivity|].
      intros r' Hr. cbn [app host_loop]. rewrite E1, (I3 r' Hr). reflexivity.
    + destruct (in_set origins_digits c) eqn:E2.
      * destruct (host_loop t false false _) as [[[h' rest'] v']|] eqn:E; [|discriminate].
        injection H as <- <- <-. destruct (IH _ _ _ _ _ _ E) as [I1 [I2 I3]].
        split; [cbn [app]; f_equal; exact I1|]. split; [cbn [forallb]; unfold hostchar at 1; rewrite E1, E2, I2; reflexivity|].
        intros r' Hr. cbn [app host_loop]. rewrite E1, E2, (I3 r' Hr). reflexivity.
      * destruct (in_set origins_asciiLabelBytes c) eqn:E3.
        -- destruct (host_loop t false false _) as [[[h' rest'] v']|] eqn:E; [|discriminate].
           injection H as <- <- <-. destruct (IH _ _ _ _ _ _ E) as [I1 [I2 I3]].
           split; [cbn [app]; f_equal; exact I1|].
           split; [cbn [forallb]; unfold hostchar at 1; rewrite E1, E2, E3, I2; reflexivity|].
           intros r' Hr. cbn [app host_loop]. rewrite E1, E2, E3, (I3 r' Hr). reflexivity.
        -- injection H as <- <- <-. split; [reflexivity|]. split; [reflexivity|].
           intros r' Hr. apply host_loop_stop, Hr.
Qed.

Lemma hostchar_not c : hostchar c = true -> c <> 58 /\ c <> 42 /\ c <> 91.
Proof. intros H. repeat split; intros ->; discriminate H. Qed.

Lemma hostchars_no_colon h : forallb hostchar h = true -> memN host_port_sep h = false.
Proof.
  induction h as [|c t IH]; [reflexivity|]. cbn [forallb memN]. intros H.
  apply andb_true_iff in H. destruct H as [H1 H2]. rewrite (IH H2), orb_false_r.
  destruct (hostchar_not c H1) as [Hc _]. change host_port_sep with 58. lia.
Qed.

(* ------------------------------------------------------------------------------------------ *)
(* 4. fastParseHost                                                                            *)

Definition fph_loop (s : bytes) : option (host * bytes) :=
  match host_loop s true false false with
  | Some (h, rest, v) => Some ({| hvalue := h; assume_ip := v |}, rest)
  | None => None
  end.

Lemma fph_not91 c t : c <> 91 ->
  fast_parse_host (c :: t) = if c =? label_sep then None else fph_loop (c :: t).
Proof.
  intros Hc. unfold fast_parse_host, fph_loop.
  destruct c as [|p0]; [reflexivity|].
  do 7 (destruct p0 as [p0|p0|]; try reflexivity).
  exfalso. apply Hc. reflexivity.
Qed.

Lemma fph_91 t : fast_parse_host (91 :: t) =
  if Nat.leb 4 (length (91 :: t)) then
    match cut_byte 93 (91 :: t) with
    | Some (bf, af) => Some ({| hvalue := tl bf; assume_ip := true |}, af)
    | None => None
    end
  else fph_loop (91 :: t).
Proof. reflexivity. Qed.

Lemma cut_byte_spec c : forall s u v, cut_byte c s = Some (u, v) -> s = u ++ c :: v /\ ~ In c u.
Proof.
  induction s as [|x r IH]; intros u v H; [discriminate|]. cbn [cut_byte] in H.
  destruct (x =? c) eqn:E.
  - injection H as <- <-. assert (x = c) by lia. subst x. split; [reflexivity | intros []].
  - destruct (cut_byte c r) as [[u' v']|] eqn:E2; [|discriminate]. injection H as <- <-.
    destruct (IH _ _ eq_refl) as [I1 I2]. split; [cbn [app]; f_equal; exact I1|].
    intros [Hx|Hx]; [lia | exact (I2 Hx)].
Qed.

Lemma cut_byte_first c u v : ~ In c u -> cut_byte c (u ++ c :: v) = Some (u, v).
Proof.
  induction u as [|x u IH]; intros H.
  - cbn [app cut_byte]. rewrite N.eqb_refl. reflexivity.
  - cbn [app cut_byte]. destruct (x =? c) eqn:E.
    + exfalso. apply H. left. lia.
    + rewrite IH; [reflexivity|]. intros Hin. apply H. right. exact Hin.
Qed.

(* the two ways fastParseHost succeeds *)
Lemma fph_cases s h rest : fast_parse_host s = Some (h, rest) ->
  (exists c t, s = c :: t /\ c <> label_sep /\
               host_loop s true false false = Some (hvalue h, rest, assume_ip h)) \/
  (exists content, s = 91 :: content ++ 93 :: rest /\ h = {| hvalue := content; assume_ip := true |} /\
                   ~ In 93 content /\ (4 <= length s)%nat).
Proof.
  destruct s as [|c t]; [discriminate|].
  destruct (N.eq_dec c 91) as [->|Hc].
  - rewrite fph_91. destruct (Nat.leb 4 (length (91 :: t))) eqn:EL.
    + destruct (cut_byte 93 (91 :: t)) as [[bf af]|] eqn:E; [|discriminate].
      intros H. injection H as <- <-. right.
      destruct (cut_byte_spec _ _ _ _ E) as [E1 E2].
      destruct bf as [|x bf']; [discriminate|]. cbn [app] in E1. injection E1 as <- ->.
      exists bf'. cbn [tl]. split; [reflexivity|]. split; [reflexivity|].
      split; [intros Hin; apply E2; right; exact Hin|]. apply Nat.leb_le in EL. exact EL.
    + unfold fph_loop. destruct (host_loop (91 :: t) true false false) as [[[h' rest'] v']|] eqn:E; [|discriminate].
      intros H. injection H as <- <-. left. exists 91, t. split; [reflexivity|]. split; [discriminate | reflexivity].
  - rewrite (fph_not91 _ _ Hc). destruct (c =? label_sep) eqn:E1; [discriminate|].
    unfold fph_loop. destruct (host_loop (c :: t) true false false) as [[[h' rest'] v']|] eqn:E; [|discriminate].
    intros H. injection H as <- <-. left. exists c, t. split; [reflexivity|]. split; [lia | reflexivity].
Qed.

(* re-parsing an unbracketed host followed by a rendered port *)
Lemma fph_loop_reparse s hv rest v r' : host_loop s true false false = Some (hv, rest, v) ->
  hv <> [] -> match s with c :: _ => c <> label_sep | [] => True end -> stop r' ->
  fast_parse_host (hv ++ r') = Some ({| hvalue := hv; assume_ip := v |}, r').
Proof.
  intros H Hne Hsep Hr. destruct (host_loop_reparse _ _ _ _ _ _ _ H) as [E1 [E2 E3]].
  destruct hv as [|c hv']; [congruence|]. cbn [forallb] in E2. apply andb_true_iff in E2.
  destruct (hostchar_not c (proj1 E2)) as [_ [_ Hc]].
  cbn [app]. rewrite (fph_not91 _ _ Hc). subst s. cbn [app] in Hsep.
  destruct (c =? label_sep) eqn:E; [lia|].
  unfold fph_loop. change (c :: hv' ++ r') with ((c :: hv') ++ r'). rewrite (E3 r' Hr). reflexivity.
Qed.

(* ------------------------------------------------------------------------------------------ *)
(* 5. dotted-quad text is read back as an IPv4-looking host                                    *)

Lemma octet_ok_digits f v : octet_ok f = Some v -> f <> [] /\ all_bytes is_digit f = true.
Proof.
  unfold octet_ok. destruct f as [|c [|d r]]; [discriminate | |].
  - destruct (is_digit c) eqn:E; [|discriminate]. intros _. split; [discriminate|].
    cbn [all_bytes]. rewrite E. reflexivity.
  - destruct ((length (c :: d :: r) <=? 3)%nat && all_bytes is_digit (c :: d :: r) && negb (c =? 48)) eqn:E;
      [|discriminate].
    intros _. split; [discriminate|]. apply andb_true_iff in E. destruct E as [E _].
    apply andb_true_iff in E. apply E.
Qed.

Lemma is_digit_hostdigit c : is_digit c = true -> (c =? label_sep) = false /\ in_set origins_digits c = true.
Proof.
  unfold is_digit. intros H.
  assert (Hc : c = 48 \/ c = 49 \/ c = 50 \/ c = 51 \/ c = 52 \/ c = 53 \/ c = 54 \/ c = 55 \/ c = 56 \/ c = 57) by lia.
  repeat (destruct Hc as [->|Hc]; [split; reflexivity|]). subst c. split; reflexivity.
Qed.

Lemma host_loop_dotted r' : stop r' -> forall s first prev ip4 f1 fs,
  split_byte 46 s = f1 :: fs -> all_bytes is_digit f1 = true ->
  Forall (fun f => f <> [] /\ all_bytes is_digit f = true) fs ->
  ((f1 <> [] /\ prev || first = true) \/ (prev = false /\ first = false /\ ip4 = true)) ->
  host_loop (s ++ r') first prev ip4 = Some (s, r', true).
Proof.
  intros Hr. induction s as [|x t IH]; intros first prev ip4 f1 fs Hsp Hd HF Halt.
  - cbn in Hsp. injection Hsp as <- <-. destruct Halt as [[Hne _]|[-> [-> ->]]]; [congruence|].
    apply host_loop_stop, Hr.
  - cbn [split_byte] in Hsp. pose proof (split_byte_ne 46 t) as Hne.
    destruct (split_byte 46 t) as [|h tl] eqn:ES; [congruence|]. clear Hne.
    destruct (x =? 46) eqn:E.
    + assert (x = 46) by lia. subst x. injection Hsp as <- <-.
      destruct Halt as [[Hne _]|[-> [-> ->]]]; [congruence|].
      inversion HF as [|? ? [Hh1 Hh2] HF']; subst.
      cbn [app host_loop]. change (46 =? label_sep) with true. cbv iota.
      rewrite (IH false true true h tl eq_refl Hh2 HF'); [reflexivity|]. left. split; [exact Hh1 | reflexivity].
    + injection Hsp as <- <-. cbn [all_bytes] in Hd. apply andb_true_iff in Hd. destruct Hd as [Hx Hh].
      destruct (is_digit_hostdigit x Hx) as [Hx1 Hx2].
      cbn [app host_loop]. rewrite Hx1, Hx2.
      assert (Hip : (if prev || first then true else ip4) = true).
      { destruct Halt as [[_ ->]|[-> [-> ->]]]; reflexivity. }
      rewrite Hip. rewrite (IH false false true h tl eq_refl Hh HF); [reflexivity|]. right. auto.
Qed.

Lemma ipv4_host_loop content canon lb r' : parse_ipv4 content = IPOk canon lb -> stop r' ->
  (exists x t, content = x :: t /\ is_digit x = true) /\
  host_loop (content ++ r') true false false = Some (content, r', true).
Proof.
  unfold parse_ipv4. intros H Hr.
  destruct (split_byte 46 content) as [|f1 fs] eqn:ES; [discriminate|].
  assert (G : all_bytes is_digit f1 = true /\ f1 <> [] /\
              Forall (fun f => f <> [] /\ all_bytes is_digit f = true) fs).
  { cbn [map] in H. destruct (octet_ok f1) as [a|] eqn:E1; [|discriminate].
    destruct (octet_ok_digits _ _ E1) as [N1 D1].
    destruct fs as [|f2 fs]; [discriminate|]. cbn [map] in H.
    destruct (octet_ok f2) as [b|] eqn:E2; [|discriminate]. destruct (octet_ok_digits _ _ E2) as [N2 D2].
    destruct fs as [|f3 fs]; [discriminate|]. cbn [map] in H.
    destruct (octet_ok f3) as [c|] eqn:E3; [|discriminate]. destruct (octet_ok_digits _ _ E3) as [N3 D3].
    destruct fs as [|f4 fs]; [discriminate|]. cbn [map] in H.
    destruct (octet_ok f4) as [d|] eqn:E4; [|discriminate]. destruct (octet_ok_digits _ _ E4) as [N4 D4].
    destruct fs as [|f5 fs]; [|discriminate].
    split; [exact D1|]. split; [exact N1|]. repeat constructor; assumption. }
  destruct G as [D1 [N1 HF]]. split.
  - destruct content as [|x t]; [cbn in ES; injection ES as <- _; congruence|].
    exists x, t. split; [reflexivity|]. cbn [split_byte] in ES.
    destruct (x =? 46); [injection ES as <- _; congruence|].
    destruct (split_byte 46 t); injection ES as <- _; cbn [all_bytes] in D1; apply andb_true_iff in D1; apply D1.
  - apply (host_loop_dotted r' Hr content true false false f1 fs ES D1 HF). left. split; [exact N1 | reflexivity].
Qed.

Lemma first_special_no_colon s : memN 58 s = false -> first_special s <> 58.
Proof.
  induction s as [|c r IH]; [discriminate|]. cbn [memN first_special]. intros H.
  apply orb_false_iff in H. destruct H as [H1 H2].
  destruct ((c =? 46) || (c =? 58) || (c =? 37)) eqn:E; [lia | exact (IH H2)].
Qed.

(* ------------------------------------------------------------------------------------------ *)
(* 6. parseHostPattern                                                                         *)

Section Oracles.
Variable ace_ok : bytes -> bool.
Variable ip6 : bytes -> ipres.

Definition php_e (k : pkind) (h : host) : nat :=
  (length (hvalue h) + (if pkind_eqb k KSubdomains then length origins_subdomainWildcard + 1 else 0))%nat.

(* everything parseHostPattern does once fastParseHost has answered *)
Definition php_tail (k : pkind) (h : host) (s rest : bytes) : (bytes * pkind * bytes) + reason :=
  if pkind_eqb k KSubdomains && (Z.to_nat origins_maxHostLen - 2 <? length (hvalue h))%nat then inr RInvalid
  else if pkind_eqb k KSubdomains && assume_ip h then inr RInvalid
  else
    let value := firstn (php_e k h) s in
    if assume_ip h then
      match parse_addr ip6 (hvalue h) with
      | IPErr => inr RInvalid
      | IPZone => inr RInvalid
      | IP4in6 => inr RProhibited
      | IPOk canon lb =>
          if beqb canon (hvalue h) then inl (canon, (if lb then KLoopbackIP else KNonLoopbackIP), rest)
          else inr RProhibited
      end
    else if idna_ok ace_ok (hvalue h) then inl (value, k, rest)
    else inr RProhibited.

Lemma php_eq s : parse_host_pattern ace_ok ip6 s =
  match fast_parse_host (host_only s (peek_kind s)) with
  | None => inr RInvalid
  | Some (h, rest) => php_tail (peek_kind s) h s rest
  end.
Proof. reflexivity. Qed.

Lemma php_tail_inv k h s rest value k' rest0 : php_tail k h s rest = inl (value, k', rest0) ->
  rest0 = rest /\ hvalue h <> [] /\
  ((assume_ip h = true /\ pkind_eqb k KSubdomains = false /\ value = hvalue h /\
    exists lb, parse_addr ip6 (hvalue h) = IPOk (hvalue h) lb) \/
   (assume_ip h = false /\ k' = k /\ value = firstn (php_e k h) s)) /\
  forall s' rest', (assume_ip h = true \/ firstn (php_e k h) s' = firstn (php_e k h) s) ->
                   php_tail k h s' rest' = inl (value, k', rest').
Proof.
  unfold php_tail.
  destruct (pkind_eqb k KSubdomains && (Z.to_nat origins_maxHostLen - 2 <? length (hvalue h))%nat); [discriminate|].
  destruct (pkind_eqb k KSubdomains && assume_ip h) eqn:E2; [discriminate|]. cbv zeta.
  destruct (assume_ip h) eqn:Ea.
  - destruct (parse_addr ip6 (hvalue h)) as [| | |canon lb] eqn:Ep; try discriminate.
    destruct (beqb canon (hvalue h)) eqn:Eb; [|discriminate]. apply RadixP.beqb_eq in Eb. subst canon.
    intros H. injection H as <- <- <-. split; [reflexivity|]. split.
    { intros Hn. rewrite Hn in Ep. discriminate Ep. }
    split; [|intros; reflexivity]. left. rewrite andb_true_r in E2. repeat split; try assumption. exists lb. reflexivity.
  - destruct (idna_ok ace_ok (hvalue h)) eqn:Ei; [|discriminate].
    intros H. injection H as <- <- <-. split; [reflexivity|]. split.
    { intros Hn. rewrite Hn in Ei. discriminate Ei. }
    split; [right; auto|]. intros s' rest' [Hc|Hc]; [discriminate|]. rewrite Hc. reflexivity.
Qed.

(* the host part of the text Config() prints for a stored value *)
Definition hosttext (v : bytes) : bytes :=
  match v with
  | 42 :: s' => 42 :: bracket s'
  | _ => bracket v
  end.

Lemma hosttext_not_star c t : c <> 42 -> hosttext (c :: t) = bracket (c :: t).
Proof. intros Hc. unfold hosttext. not_star c Hc. Qed.

Definition tail_ok (s3 r' : bytes) : Prop := (r' = [] /\ s3 = []) \/ (exists c t, r' = 58 :: c :: t).

Lemma tail_ok_stop s3 r' : tail_ok s3 r' -> stop r'.
Proof. intros [[-> _]|[c [t ->]]]; [left; reflexivity | right; eexists; reflexivity]. Qed.

Lemma bracket_plain h : memN host_port_sep h = false -> bracket h = h.
Proof. unfold bracket. intros ->. reflexivity. Qed.

Lemma peek_not_star c t : c <> 42 -> peek_kind (c :: t) = KDomain.
Proof.
  intros Hc. unfold peek_kind. change origins_peekKind_wildcardSeq with [42; 46]. cbn [has_prefix].
  destruct (42 =? c) eqn:E; [lia | reflexivity].
Qed.

Lemma has_prefix_wild s : has_prefix origins_peekKind_wildcardSeq s = true -> exists t, s = 42 :: 46 :: t.
Proof.
  change origins_peekKind_wildcardSeq with [42; 46]. destruct s as [|a [|c t]]; cbn [has_prefix]; try discriminate.
  - rewrite andb_false_r. discriminate.
  - intros H. apply andb_true_iff in H. destruct H as [H1 H2]. apply andb_true_iff in H2. destruct H2 as [H2 _].
    exists t. f_equal; [lia | f_equal; lia].
Qed.

Lemma firstn_exact {A} (a c : list A) : firstn (length a) (a ++ c) = a.
Proof. rewrite firstn_app, Nat.sub_diag, firstn_all. cbn [firstn]. apply app_nil_r. Qed.

Lemma php_reparse s2 value k s3 r' : ip6_sane ip6 ->
  parse_host_pattern ace_ok ip6 s2 = inl (value, k, s3) -> tail_ok s3 r' ->
  parse_host_pattern ace_ok ip6 (hosttext value ++ r') = inl (value, k, r').
Proof.
  intros Hsane H Htail. pose proof (tail_ok_stop _ _ Htail) as Hstop.
  rewrite php_eq in H.
  destruct (fast_parse_host (host_only s2 (peek_kind s2))) as [[h rest]|] eqn:EF; [|discriminate].
  destruct (php_tail_inv _ _ _ _ _ _ _ H) as [Hrest [Hne [Hcase Htrans]]]. subst s3. clear H.
  unfold peek_kind in EF, Hcase, Htrans. destruct (has_prefix origins_peekKind_wildcardSeq s2) eqn:EP.
  - (* "*." ++ host *)
    destruct (has_prefix_wild _ EP) as [s2' ->]. change (host_only (42 :: 46 :: s2') KSubdomains) with s2' in EF.
    destruct Hcase as [[_ [Hk _]]|[Ha [-> Hv]]]; [discriminate|].
    destruct (fph_cases _ _ _ EF) as [[c [t [Es [Hsep HL]]]] | [content [_ [Eh _]]]];
      [|rewrite Eh in Ha; discriminate].
    destruct (host_loop_reparse _ _ _ _ _ _ _ HL) as [E1 [E2 _]].
    assert (Hval : value = 42 :: 46 :: hvalue h).
    { rewrite Hv, E1. unfold php_e. change (pkind_eqb KSubdomains KSubdomains) with true. cbv iota.
      change (length origins_subdomainWildcard + 1)%nat with 2%nat. rewrite Nat.add_comm.
      cbn [Nat.add firstn]. rewrite firstn_exact. reflexivity. }
    assert (Htext : hosttext value = 42 :: 46 :: hvalue h).
    { rewrite Hval. unfold hosttext. rewrite bracket_plain; [reflexivity|].
      cbn [memN]. rewrite (hostchars_no_colon _ E2). reflexivity. }
    rewrite Htext, php_eq. cbn [app].
    assert (Hpk : peek_kind (42 :: 46 :: hvalue h ++ r') = KSubdomains) by reflexivity. rewrite Hpk.
    change (host_only (42 :: 46 :: hvalue h ++ r') KSubdomains) with (hvalue h ++ r').
    assert (Hs : match s2' with c0 :: _ => c0 <> label_sep | [] => True end) by (rewrite Es; exact Hsep).
    rewrite (fph_loop_reparse _ _ _ _ r' HL Hne Hs Hstop).
    replace {| hvalue := hvalue h; assume_ip := assume_ip h |} with h by (destruct h; reflexivity).
    apply Htrans. right. rewrite E1. unfold php_e. change (pkind_eqb KSubdomains KSubdomains) with true. cbv iota.
    change (length origins_subdomainWildcard + 1)%nat with 2%nat. rewrite Nat.add_comm.
    cbn [Nat.add firstn]. rewrite !firstn_exact. reflexivity.
  - change (host_only s2 KDomain) with s2 in EF.
    destruct (fph_cases _ _ _ EF) as [[c [t [Es [Hsep HL]]]] | [content [Es [Eh [Hn93 Hlen]]]]].
    + (* host typed without brackets *)
      destruct (host_loop_reparse _ _ _ _ _ _ _ HL) as [E1 [E2 _]].
      assert (Hval : value = hvalue h).
      { destruct Hcase as [[_ [_ [Hv _]]]|[_ [_ Hv]]]; [exact Hv|]. rewrite Hv, E1. unfold php_e.
        change (pkind_eqb KDomain KSubdomains) with false. cbv iota. rewrite Nat.add_0_r. apply firstn_exact. }
      destruct (hvalue h) as [|c' hv'] eqn:Ehv; [congruence|]. rewrite <- Ehv in *.
      assert (Hc' : c' <> 42).
      { rewrite Ehv in E2. cbn [forallb] in E2. apply andb_true_iff in E2. apply (hostchar_not c'), E2. }
      assert (Htext : hosttext value = hvalue h).
      { rewrite Hval, Ehv, (hosttext_not_star _ _ Hc'), <- Ehv. apply bracket_plain, hostchars_no_colon, E2. }
      rewrite Htext, php_eq.
      assert (Hpk : peek_kind (hvalue h ++ r') = KDomain) by (rewrite Ehv; apply peek_not_star, Hc'). rewrite Hpk.
      change (host_only (hvalue h ++ r') KDomain) with (hvalue h ++ r').
      assert (Hs : match s2 with c0 :: _ => c0 <> label_sep | [] => True end) by (rewrite Es; exact Hsep).
      rewrite (fph_loop_reparse _ _ _ _ r' HL Hne Hs Hstop).
      replace {| hvalue := hvalue h; assume_ip := assume_ip h |} with h by (destruct h; reflexivity).
      apply Htrans. right. rewrite E1. unfold php_e.
      change (pkind_eqb KDomain KSubdomains) with false. cbv iota. rewrite Nat.add_0_r, !firstn_exact. reflexivity.
    + (* bracketed literal *)
      subst h. cbn [hvalue assume_ip] in *.
      destruct Hcase as [[_ [_ [Hv [lb Hp]]]]|[Ha _]]; [|discriminate]. subst value.
      (* the literal does not start with '*' *)
      assert (Hstar : forall s', content <> 42 :: s').
      { intros s' ->. unfold parse_addr in Hp. cbn [first_special] in Hp.
        change ((42 =? 46) || (42 =? 58) || (42 =? 37)) with false in Hp. cbv iota in Hp.
        destruct (first_special s' =? 46) eqn:E46.
        - destruct (ipv4_host_loop _ _ _ [] Hp (or_introl eq_refl)) as [[x [t [Hx Hd]]] _].
          injection Hx as <- _. discriminate Hd.
        - destruct (first_special s' =? 58); [|discriminate].
          pose proof (Hsane s') as Hs. rewrite Hp in Hs. exact Hs. }
      destruct content as [|x ct] eqn:Ect; [congruence|]. rewrite <- Ect in *.
      assert (Hx : x <> 42) by (intros ->; apply (Hstar ct); exact Ect).
      assert (Htext : hosttext content = bracket content) by (rewrite Ect; apply hosttext_not_star, Hx).
      rewrite Htext. unfold bracket. destruct (memN host_port_sep content) eqn:Ecolon.
      * (* an IPv6 literal keeps its brackets *)
        rewrite php_eq. rewrite <- !app_assoc. cbn [app].
        assert (Hpk : peek_kind (91 :: content ++ 93 :: r') = KDomain) by (apply peek_not_star; discriminate).
        rewrite Hpk. change (host_only (91 :: content ++ 93 :: r') KDomain) with (91 :: content ++ 93 :: r').
        rewrite fph_91.
        assert (HL : Nat.leb 4 (length (91 :: content ++ 93 :: r')) = true).
        { apply Nat.leb_le. destruct Htail as [[-> ->]|[c0 [t0 ->]]].
          - rewrite Es in Hlen. exact Hlen.
          - rewrite Ect. cbn [length app]. rewrite app_length. cbn [length]. lia. }
        rewrite HL. change (91 :: content ++ 93 :: r') with ((91 :: content) ++ 93 :: r').
        rewrite cut_byte_first.
        -- cbn [tl]. apply Htrans. left. reflexivity.
        -- intros [Hin|Hin]; [discriminate | exact (Hn93 Hin)].
      * (* a bracketed IPv4 literal loses them *)
        assert (H4 : parse_ipv4 content = IPOk content lb).
        { unfold parse_addr in Hp. destruct (first_special content =? 46); [exact Hp|].
          destruct (first_special content =? 58) eqn:E58; [|discriminate].
          exfalso. apply (first_special_no_colon content Ecolon). lia. }
        destruct (ipv4_host_loop _ _ _ r' H4 Hstop) as [[x' [t' [Hx' Hd]]] HL].
        rewrite php_eq.
        assert (Hpk : peek_kind (content ++ r') = KDomain) by (rewrite Ect; apply peek_not_star, Hx). rewrite Hpk.
        change (host_only (content ++ r') KDomain) with (content ++ r').
        rewrite Hx' in HL |- *. destruct (is_digit_hostdigit _ Hd) as [Hd1 Hd2].
        cbn [app]. rewrite fph_not91 by (intros ->; discriminate Hd). rewrite Hd1.
        unfold fph_loop. cbn [app] in HL. rewrite HL. rewrite <- Hx'. apply Htrans. left. reflexivity.
Qed.

End Oracles.

(* ------------------------------------------------------------------------------------------ *)
(* 7. ports                                                                                    *)

Lemma digit_ge c : in_set origins_digits c = true -> 48 <= c.
Proof. unfold in_set, origins_digits. cbn [memN]. lia. Qed.

Lemma nonzero_digit_ge c : in_set origins_nonzeroDigits c = true -> 49 <= c.
Proof. unfold in_set, origins_nonzeroDigits. cbn [memN]. lia. Qed.

Lemma port_loop_ge : forall n s acc, (0 <= acc)%Z -> (acc <= fst (port_loop s n acc))%Z.
Proof.
  induction n as [|n IH]; intros s acc Ha; [destruct s; cbn; lia|].
  destruct s as [|c r]; [cbn; lia|]. cbn [port_loop].
  destruct (in_set origins_digits c) eqn:E; [|cbn; lia].
  apply digit_ge in E. change origins_parsePort_base with 10%Z.
  eapply Z.le_trans; [|apply IH]; lia.
Qed.

Lemma parse_port_pos s p rest : parse_port s = Some (p, rest) -> (1 <= p)%Z.
Proof.
  unfold parse_port. destruct s as [|c r]; [discriminate|].
  destruct (in_set origins_nonzeroDigits c) eqn:E; [|discriminate]. apply nonzero_digit_ge in E.
  pose proof (port_loop_ge (Z.to_nat origins_maxPortLen - 1) r (Z.of_N c - 48)%Z ltac:(lia)) as H.
  destruct (port_loop r _ _) as [q rest']. cbn [fst] in H.
  destruct ((q <? 0)%Z || (origins_maxUint16 <? q)%Z); [discriminate|].
  intros H'. injection H' as <- _. lia.
Qed.

Lemma parse_port_pattern_pos s p rest : parse_port_pattern s = Some (p, rest) -> (1 <= p <= 65536)%Z.
Proof.
  intros H. pose proof (parse_port_pattern_range _ _ _ H) as Hr. split; [|lia].
  unfold parse_port_pattern in H. destruct (cut_prefix origins_portWildcard s).
  - injection H as <- _. rewrite wild_eq. lia.
  - exact (parse_port_pos _ _ _ H).
Qed.

Definition porttext (q : Z) : bytes :=
  if (q =? 0)%Z then [] else if (q =? 65536)%Z then [58; 42] else 58 :: itoa (Z.to_N q).

Lemma hosttext_cases v :
  (exists s', v = 42 :: s' /\ hosttext v = 42 :: bracket s') \/
  ((forall s', v <> 42 :: s') /\ hosttext v = bracket v).
Proof.
  destruct v as [|c s']; [right; split; [discriminate | reflexivity]|].
  destruct (N.eq_dec c 42) as [->|Hc]; [left; exists s'; split; reflexivity|].
  right. split; [congruence | apply hosttext_not_star, Hc].
Qed.

(* the text under which Tree.Elems lists a pattern *)
Lemma render_entry_of p : valid_pattern p ->
  render_entry (entry_of p) = pscheme p ++ [58; 47; 47] ++ hosttext (pvalue p) ++ porttext (pport p).
Proof.
  unfold valid_pattern. intros Hp.
  destruct (entry_of_cases p) as [(s' & Hv & ->) | (Hn & ->)];
    destruct (hosttext_cases (pvalue p)) as [(s'' & Hv' & ->) | (Hn' & ->)];
    try (exfalso; first [exact (Hn _ Hv') | exact (Hn' _ Hv)]).
  - rewrite Hv in Hv'. injection Hv' as <-.
    unfold render_entry, render, shift, porttext. rewrite off_eq, wild_eq, rev_involutive.
    replace (pport p - 65537 <? 0)%Z with true by lia.
    replace (pport p - 65537 + 65537)%Z with (pport p) by lia.
    change origins_subdomainWildcard with [42]. change origins_schemeHostSep with [58; 47; 47].
    change host_port_sep with 58. change origins_portWildcard with [42].
    destruct (pport p =? 0)%Z; [rewrite app_nil_r; reflexivity|].
    destruct (pport p =? 65536)%Z; rewrite <- !app_assoc; reflexivity.
  - unfold render_entry, render, shift, porttext. rewrite wild_eq, rev_involutive.
    replace (pport p <? 0)%Z with false by lia.
    change origins_schemeHostSep with [58; 47; 47].
    change host_port_sep with 58. change origins_portWildcard with [42].
    destruct (pport p =? 0)%Z; [rewrite app_nil_r; reflexivity|].
    destruct (pport p =? 65536)%Z; rewrite <- !app_assoc; reflexivity.
Qed.

(* ------------------------------------------------------------------------------------------ *)
(* 8. ParsePattern on its own rendering                                                        *)

Section Reparse.
Variable ace_ok : bytes -> bool.
Variable ip6 : bytes -> ipres.
Hypothesis Hsane : ip6_sane ip6.

Lemma porttext_tail q s3 : (s3 = [] /\ q = 0%Z) \/ (s3 <> [] /\ (1 <= q <= 65536)%Z) -> tail_ok s3 (porttext q).
Proof.
  unfold porttext. intros [[-> ->]|[_ Hq]]; [left; split; reflexivity|]. right.
  replace (q =? 0)%Z with false by lia. destruct (q =? 65536)%Z eqn:E; [exists 42, []; reflexivity|].
  destruct (itoa (Z.to_N q)) as [|c t] eqn:Ei; [|exists c, t; reflexivity].
  exfalso. destruct (parse_port_itoa q ltac:(lia)) as [H _]. rewrite Ei in H. discriminate H.
Qed.

Theorem reparse raw p : parse_pattern ace_ok ip6 raw = inl p ->
  parse_pattern ace_ok ip6 (render_entry (entry_of p)) = inl p.
Proof.
  intros H. pose proof (parse_pattern_valid _ _ _ _ H) as Hv. rewrite (render_entry_of p Hv).
  unfold parse_pattern in H.
  destruct (beqb raw lit_star || beqb raw lit_null); [discriminate|].
  destruct (parse_scheme raw) as [[sch s1]|] eqn:ES; [|discriminate].
  destruct (beqb sch lit_file) eqn:EFile; [discriminate|].
  destruct (cut_prefix origins_schemeHostSep s1) as [s2|] eqn:EC; [|discriminate].
  apply cut_prefix_some in EC. change origins_schemeHostSep with [58; 47; 47] in EC. cbn [app] in EC. subst s1.
  destruct (parse_host_pattern ace_ok ip6 s2) as [[[value k] s3]|r] eqn:EH; [|discriminate].
  destruct (is_ip_kind k && beqb sch origins_schemeHTTPS) eqn:EK; [discriminate|].
  (* the port, and what follows the host in the rendering *)
  assert (G : exists q, p = {| pscheme := sch; pvalue := value; pkind_of := k; pport := q |} /\
                        ((s3 = [] /\ q = 0%Z) \/
                         (s3 <> [] /\ (1 <= q <= 65536)%Z /\ is_default_port sch q = false))).
  { destruct s3 as [|c s3'].
    - injection H as <-. exists 0%Z. split; [reflexivity | left; auto].
    - destruct (cut_prefix [host_port_sep] (c :: s3')) as [s4|]; [|discriminate].
      destruct (parse_port_pattern s4) as [[q rest]|] eqn:EP; [|discriminate].
      destruct rest; [|discriminate]. destruct (is_default_port sch q) eqn:ED; [discriminate|].
      injection H as <-. exists q. split; [reflexivity|]. right. split; [discriminate|].
      split; [exact (parse_port_pattern_pos _ _ _ EP) | exact ED]. }
  destruct G as [q [-> Hq]]. cbn [pscheme pvalue pport]. clear H Hv.
  assert (Htail : tail_ok s3 (porttext q)).
  { apply porttext_tail. destruct Hq as [Hq|[Hq1 [Hq2 _]]]; [left | right]; auto. }
  pose proof (php_reparse ace_ok ip6 _ _ _ _ _ Hsane EH Htail) as HP.
  set (X := hosttext value ++ porttext q) in *.
  pose proof (parse_scheme_reparse _ _ _ _ ES (47 :: 47 :: X)) as HS. cbn [app].
  unfold parse_pattern.
  assert (Hlit : beqb (sch ++ 58 :: 47 :: 47 :: X) lit_star || beqb (sch ++ 58 :: 47 :: 47 :: X) lit_null = false).
  { assert (Hn1 : parse_scheme lit_star = None) by reflexivity.
    assert (Hn2 : parse_scheme lit_null = Some (lit_null, [])) by reflexivity.
    apply orb_false_iff. split.
    - destruct (beqb _ lit_star) eqn:E; [|reflexivity]. apply RadixP.beqb_eq in E. rewrite E, Hn1 in HS. discriminate HS.
    - destruct (beqb _ lit_null) eqn:E; [|reflexivity]. apply RadixP.beqb_eq in E. rewrite E, Hn2 in HS.
      injection HS as _ HS. discriminate HS. }
  rewrite Hlit, HS, EFile. change origins_schemeHostSep with [58; 47; 47]. cbn [cut_prefix].
  rewrite !N.eqb_refl, HP, EK. unfold porttext.
  destruct Hq as [[_ ->]|[_ [Hq Hd]]]; [reflexivity|].
  replace (q =? 0)%Z with false by lia. destruct (q =? 65536)%Z eqn:E.
  - assert (q = 65536%Z) by lia. subst q. change host_port_sep with 58. cbn [cut_prefix]. rewrite N.eqb_refl.
    change (parse_port_pattern [42]) with (Some (origins_wildcardPort, @nil N)). cbv iota.
    rewrite wild_eq, Hd. reflexivity.
  - destruct (parse_port_itoa q ltac:(lia)) as [P1 P2].
    destruct (itoa (Z.to_N q)) as [|c t] eqn:Ei; [discriminate P1|].
    change host_port_sep with 58. cbn [cut_prefix]. rewrite N.eqb_refl.
    unfold parse_port_pattern. rewrite P2, P1, Hd. reflexivity.
Qed.

End Reparse.

Print Assumptions reparse.
