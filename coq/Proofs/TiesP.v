(* Proofs/TiesP.v -- the source ties, bundled by the path of the library they cover. Every property is proved about
   the hand-written model; what makes it a statement about /repo is that the code on the property's path, as translated
   on this run, IS that model. A property's check therefore carries the bundle(s) of its path as proof obligations
   (Properties/Cxxz.v), so that a change to any file on the path breaks an obligation of that property -- not only of
   the property whose own source-level file happens to mention the function that changed. *)
Require Import Base.Bytes Gen.Tables.
Require Import Proofs.MwSrcP Proofs.CfgSrcP Proofs.UtilSrcP Proofs.LoopOriginsP Proofs.LoopHeadersP Proofs.PatSrcP.
Require Import Proofs.RadixSrcContainsP Proofs.RadixSrcInsertP Proofs.RadixSrcElemsP Proofs.AsciiSrcP Proofs.FirstSrcP Proofs.EtldSrcP.

(* the request path: middleware.go's handlers, headers.First, origins.Parse, headers.Check and its helpers, Tree.Contains,
   the byte sets, the method and header-name predicates *)
Definition req_path_proof :=
  conj go_serve_eq (conj go_headers_First_eq (conj go_Parse_eq (conj go_Check_eq (conj go_TrimOWS_eq (conj go_cutAtComma_eq
  (conj go_Tree_Contains_eq (conj go_ASCIISet_Contains_Make (conj UtilSrcP.go_methods_eq (conj go_header_predicates_eq
  (conj go_isOWS_eq go_ByteLowercase_eq)))))))))).
Definition req_path_ties : Prop := ltac:(let t := type of req_path_proof in exact t).
Theorem req_path_is_the_model : req_path_ties.
Proof. exact req_path_proof. Qed.

(* the configuration path: config.go's validation and rendering, ParsePattern and the Pattern methods, Tree.Insert /
   Elems / IsEmpty, the sets, the predicates *)
Definition cfg_path_proof :=
  conj go_newInternalConfig_eq (conj go_newConfig_eq (conj go_ParsePattern_eq (conj go_IsDeemedInsecure_eq (conj go_HostIsEffectiveTLD_eq
  (conj go_Tree_Insert_eq (conj go_Tree_Elems_eq (conj go_Tree_IsEmpty_eq (conj go_NewSet_eq (conj go_SortedSet_Add_eq
  (conj go_Set_Contains_eq (conj go_SortedSet_IndexAfter_eq (conj UtilSrcP.go_methods_eq (conj go_header_predicates_eq
  (conj go_ByteLowercase_eq (conj go_ByteUppercase_eq go_ASCIISet_Contains_Make))))))))))))))).
Definition cfg_path_ties : Prop := ltac:(let t := type of cfg_path_proof in exact t).
Theorem cfg_path_is_the_model : cfg_path_ties.
Proof. exact cfg_path_proof. Qed.

(* the state-changing methods, as sequential transformers of (configuration, debug) *)
Definition state_path_proof :=
  conj go_NewMiddleware_eq (conj go_Reconfigure_eq (conj go_SetDebug_eq (conj go_Config_eq go_run_eq))).
Definition state_path_ties : Prop := ltac:(let t := type of state_path_proof in exact t).
Theorem state_path_is_the_model : state_path_ties.
Proof. exact state_path_proof. Qed.
