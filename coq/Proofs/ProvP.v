(* Proofs/ProvP.v -- provenance of the slices installed into the response header map
   (Model/Prov.v [pserve] against Model/Serve.v [serve]): lemmas for C12 and C18. *)
Require Import Base.Bytes Gen.Tables Model.Util Model.Headers Model.Methods Model.Origins
  Model.Pattern Model.Radix Model.Config Model.Serve Model.Prov Proofs.HeadersP.
Open Scope N_scope.

(* ------------------------------------------------------------------------------------------ *)
(* 1. header-map algebra                                                                        *)
(* ------------------------------------------------------------------------------------------ *)

Lemma beqb_sym : forall x y, beqb x y = beqb y x.
Proof.
  intros x y. destruct (beqb x y) eqn:E1; destruct (beqb y x) eqn:E2; try reflexivity.
  - apply beqb_eq in E1. subst. rewrite beqb_refl in E2. discriminate.
  - apply beqb_eq in E2. subst. rewrite beqb_refl in E1. discriminate.
Qed.

Lemma beqb_false_ne : forall x y, beqb x y = false <-> x <> y.
Proof.
  intros x y. split.
  - intros E H. subst. rewrite beqb_refl in E. discriminate.
  - intros H. destruct (beqb x y) eqn:E; [|reflexivity]. apply beqb_eq in E. contradiction.
Qed.

Lemma hget_hset : forall m k v k',
  hget (hset m k v) k' = if beqb k' k then Some v else hget m k'.
Proof.
  induction m as [|[k0 v0] r IH]; intros k v k'.
  - reflexivity.
  - cbn [hset hget]. destruct (beqb k k0) eqn:E.
    + apply beqb_eq in E. subst k0. cbn [hget]. destruct (beqb k' k); reflexivity.
    + cbn [hget]. destruct (beqb k' k0) eqn:E0.
      * apply beqb_eq in E0. subst k0. rewrite beqb_sym, E. reflexivity.
      * apply IH.
Qed.

Lemma hget_hset_other : forall m k v k', k' <> k -> hget (hset m k v) k' = hget m k'.
Proof.
  intros m k v k' H. rewrite hget_hset. apply beqb_false_ne in H. rewrite H. reflexivity.
Qed.

Lemma hget_hadd_other : forall m k v k', k' <> k -> hget (hadd m k v) k' = hget m k'.
Proof.
  intros m k v k' H. unfold hadd. destruct (hget m k); apply hget_hset_other; exact H.
Qed.

Lemma hget_hcopy_notin : forall src dst k,
  ~ In k (map fst src) -> hget (hcopy dst src) k = hget dst k.
Proof.
  unfold hcopy. induction src as [|[k0 v0] r IH]; intros dst k H.
  - reflexivity.
  - cbn [fold_left fst snd]. rewrite IH.
    + apply hget_hset_other. intro E. apply H. left. symmetry. exact E.
    + intro E. apply H. right. exact E.
Qed.

(* ------------------------------------------------------------------------------------------ *)
(* 2. tag maps: keys, and the parallel structure with header maps                               *)
(* ------------------------------------------------------------------------------------------ *)

Lemma tkeys_tset : forall m k' t k,
  In k (map fst (tset m k' t)) <-> k = k' \/ In k (map fst m).
Proof.
  induction m as [|[k0 t0] r IH]; intros k' t k.
  - cbn. split; intros [H|H]; auto.
  - cbn [tset]. destruct (beqb k' k0) eqn:E.
    + apply beqb_eq in E. subst k0. cbn [map fst In]. split.
      * intros [H|H]; auto.
      * intros [H|[H|H]]; auto.
    + cbn [map fst In]. rewrite IH. split.
      * intros [H|[H|H]]; auto.
      * intros [H|[H|H]]; auto.
Qed.

Lemma tkeys_tcopy : forall src dst k,
  In k (map fst (tcopy dst src)) <-> In k (map fst dst) \/ In k (map fst src).
Proof.
  unfold tcopy. induction src as [|[k0 t0] r IH]; intros dst k.
  - cbn. split; [auto | intros [H|[]]; exact H].
  - cbn [fold_left fst snd map In]. rewrite IH, tkeys_tset. split.
    + intros [[H|H]|H]; auto.
    + intros [H|[H|H]]; auto.
Qed.

(* hset and tset act identically on the list of keys *)
Lemma keys_hset_tset : forall (h : hmap) (m : tmap) k v t,
  map fst h = map fst m -> map fst (hset h k v) = map fst (tset m k t).
Proof.
  induction h as [|[k0 v0] r IH]; intros [|[k1 t1] m] k v t H; try discriminate.
  - reflexivity.
  - cbn [map fst] in H. injection H as H0 H1. subst k1.
    cbn [hset tset]. destruct (beqb k k0).
    + cbn [map fst]. rewrite H1. reflexivity.
    + cbn [map fst]. rewrite (IH m k v t H1). reflexivity.
Qed.

(* [acc pre h m]: h differs from pre at most on the keys tagged in m *)
Definition acc (pre h : hmap) (m : tmap) : Prop :=
  forall k, ~ In k (map fst m) -> hget h k = hget pre k.

Lemma acc_nil : forall pre, acc pre pre [].
Proof. intros pre k _. reflexivity. Qed.

Lemma acc_hset : forall pre h m k v t, acc pre h m -> acc pre (hset h k v) (tset m k t).
Proof.
  intros pre h m k v t A k' H. rewrite tkeys_tset in H.
  rewrite hget_hset_other; [apply A|]; intro E; apply H; auto.
Qed.

Lemma acc_hadd : forall pre h m k v t, acc pre h m -> acc pre (hadd h k v) (tset m k t).
Proof.
  intros pre h m k v t A k' H. rewrite tkeys_tset in H.
  rewrite hget_hadd_other; [apply A|]; intro E; apply H; auto.
Qed.

Lemma acc_hset1 : forall pre k v t, acc pre (hset pre k v) [(k, t)].
Proof. intros. apply (acc_hset pre pre [] k v t). apply acc_nil. Qed.

Lemma acc_hadd1 : forall pre k v t, acc pre (hadd pre k v) [(k, t)].
Proof. intros. apply (acc_hadd pre pre [] k v t). apply acc_nil. Qed.

Lemma acc_hcopy : forall pre h m buf tb,
  acc pre h m -> map fst buf = map fst tb -> acc pre (hcopy h buf) (tcopy m tb).
Proof.
  intros pre h m buf tb A K k H. rewrite tkeys_tcopy in H.
  rewrite hget_hcopy_notin; [apply A|]; intro E; apply H; auto.
  right. rewrite <- K. exact E.
Qed.

(* ------------------------------------------------------------------------------------------ *)
(* 3. predicates over all tags of a map; counting Own tags                                      *)
(* ------------------------------------------------------------------------------------------ *)

Definition tall (P : ptag -> Prop) (m : tmap) : Prop := Forall (fun kv => P (snd kv)) m.

Lemma tall_nil : forall P, tall P [].
Proof. intro P. constructor. Qed.

Lemma tall_one : forall (P : ptag -> Prop) k t, P t -> tall P [(k, t)].
Proof. intros P k t H. constructor; [exact H | constructor]. Qed.

Lemma tall_tset : forall (P : ptag -> Prop) m k t, tall P m -> P t -> tall P (tset m k t).
Proof.
  intros P. induction m as [|[k0 t0] r IH]; intros k t A H.
  - apply tall_one. exact H.
  - cbn [tset]. inversion A as [|x l A1 A2]; subst. destruct (beqb k k0).
    + constructor; assumption.
    + constructor; [assumption | apply IH; assumption].
Qed.

Lemma tall_tcopy : forall (P : ptag -> Prop) src dst, tall P dst -> tall P src -> tall P (tcopy dst src).
Proof.
  intros P. unfold tcopy. induction src as [|[k0 t0] r IH]; intros dst A B.
  - exact A.
  - inversion B as [|x l B1 B2]; subst. cbn [fold_left fst snd]. apply IH; [|exact B2].
    apply tall_tset; assumption.
Qed.

Definition isown (t : ptag) : nat := match t with Own => 1 | _ => 0 end.

Lemma own_count_cons : forall k t m, own_count ((k, t) :: m) = (isown t + own_count m)%nat.
Proof. intros k t m. unfold own_count. cbn [filter snd]. destruct t; reflexivity. Qed.

Lemma own_count_tset : forall m k t, (own_count (tset m k t) <= own_count m + isown t)%nat.
Proof.
  induction m as [|[k0 t0] r IH]; intros k t.
  - cbn [tset]. rewrite own_count_cons. unfold own_count. cbn. lia.
  - cbn [tset]. destruct (beqb k k0).
    + rewrite !own_count_cons. lia.
    + rewrite !own_count_cons. specialize (IH k t). lia.
Qed.

Lemma own_count_tset_S : forall m k t, (own_count (tset m k t) <= S (own_count m))%nat.
Proof. intros m k t. pose proof (own_count_tset m k t). destruct t; cbn [isown] in *; lia. Qed.

Lemma own_count_tset_notown : forall m k t, isown t = 0%nat -> (own_count (tset m k t) <= own_count m)%nat.
Proof. intros m k t H. pose proof (own_count_tset m k t). lia. Qed.

Lemma own_count_tcopy : forall src dst, (own_count (tcopy dst src) <= own_count dst + own_count src)%nat.
Proof.
  unfold tcopy. induction src as [|[k0 t0] r IH]; intros dst.
  - cbn [fold_left]. unfold own_count at 3. cbn. lia.
  - cbn [fold_left fst snd]. rewrite own_count_cons.
    specialize (IH (tset dst k0 t0)). pose proof (own_count_tset dst k0 t0). lia.
Qed.

Lemma own_count_tall_notown : forall m, tall (fun t => isown t = 0%nat) m -> own_count m = 0%nat.
Proof.
  induction m as [|[k0 t0] r IH]; intros A.
  - reflexivity.
  - inversion A as [|x l A1 A2]; subst. rewrite own_count_cons. cbn [snd] in A1. rewrite A1, (IH A2). reflexivity.
Qed.

(* ------------------------------------------------------------------------------------------ *)
(* 4. the preflight processors: keys in parallel, same verdict, tags                            *)
(* ------------------------------------------------------------------------------------------ *)

Definition par (hb : hmap * bool) (tb : tmap * bool) : Prop :=
  map fst (fst hb) = map fst (fst tb) /\ snd hb = snd tb.

Lemma par_origin : forall ic buf tb org, map fst buf = map fst tb ->
  par (process_origin_preflight ic buf org) (p_origin_preflight ic tb org).
Proof.
  intros ic buf tb org K. unfold process_origin_preflight, p_origin_preflight, par.
  destruct (parse org) as [o|]; [|split; [exact K | reflexivity]].
  destruct (negb (i_cred ic) && tree_is_empty (i_tree ic)).
  { split; [apply keys_hset_tset; exact K | reflexivity]. }
  destruct (negb (tree_contains (i_tree ic) o)); [split; [exact K | reflexivity]|].
  destruct (i_cred ic); cbn [fst snd]; split; try reflexivity;
    repeat apply keys_hset_tset; exact K.
Qed.

Lemma par_acrpn : forall ic buf tb req, map fst buf = map fst tb ->
  par (process_acrpn ic buf req) (p_acrpn ic tb req).
Proof.
  intros ic buf tb req K. unfold process_acrpn, p_acrpn, par.
  destruct (first req headers_ACRPN) as [v|]; [|split; [exact K | reflexivity]].
  destruct (negb (beqb v headers_ValueTrue)); [split; [exact K | reflexivity]|].
  destruct (i_pna ic || i_pna_nocors ic); cbn [fst snd]; split; try reflexivity;
    try apply keys_hset_tset; exact K.
Qed.

Lemma par_acrm : forall ic buf tb acrm, map fst buf = map fst tb ->
  par (process_acrm ic buf acrm) (p_acrm ic tb acrm).
Proof.
  intros ic buf tb acrm K. unfold process_acrm, p_acrm, par.
  destruct (method_is_safelisted acrm); [split; [exact K | reflexivity]|].
  destruct (i_any_method ic && negb (i_cred ic)).
  { split; [apply keys_hset_tset; exact K | reflexivity]. }
  destruct (i_any_method ic || set_contains (i_methods ic) acrm); cbn [fst snd]; split; try reflexivity;
    try apply keys_hset_tset; exact K.
Qed.

Lemma par_acrh : forall ic buf tb req dbg, map fst buf = map fst tb ->
  par (process_acrh ic buf req dbg) (p_acrh ic tb req dbg).
Proof.
  intros ic buf tb req dbg K. unfold process_acrh, p_acrh, par.
  destruct (hget req headers_ACRH) as [acrh|]; [|split; [exact K | reflexivity]].
  destruct (i_asterisk_req ic && negb (i_cred ic)).
  { split; [apply keys_hset_tset; exact K | reflexivity]. }
  destruct (i_asterisk_req ic && i_cred ic).
  { split; [apply keys_hset_tset; exact K | reflexivity]. }
  destruct (negb dbg).
  - destruct (sset_size (i_req_hdrs ic) =? 0); [split; [exact K | reflexivity]|].
    destruct (negb (check (i_req_hdrs ic) acrh)); cbn [fst snd]; split; try reflexivity;
      try apply keys_hset_tset; exact K.
  - destruct (i_acah ic); cbn [fst snd]; split; try reflexivity;
      try apply keys_hset_tset; exact K.
Qed.

(* tags written by the preflight processors *)
Section PreflightTags.
Variable P : ptag -> Prop.
Hypothesis P_req : forall k, k = headers_Origin \/ k = headers_ACRM \/ k = headers_ACRH -> P (ReqSlice k).
Hypothesis P_shared : forall s, P (Shared s).
Hypothesis P_cfg : forall a, P (CfgSlice a).

Lemma tall_origin : forall ic tb org, tall P tb -> tall P (fst (p_origin_preflight ic tb org)).
Proof.
  intros ic tb org A. unfold p_origin_preflight.
  destruct (parse org) as [o|]; [|exact A].
  destruct (negb (i_cred ic) && tree_is_empty (i_tree ic)); [apply tall_tset; auto|].
  destruct (negb (tree_contains (i_tree ic) o)); [exact A|].
  destruct (i_cred ic); cbn [fst]; repeat apply tall_tset; auto.
Qed.

Lemma tall_acrpn : forall ic tb req, tall P tb -> tall P (fst (p_acrpn ic tb req)).
Proof.
  intros ic tb req A. unfold p_acrpn.
  destruct (first req headers_ACRPN) as [v|]; [|exact A].
  destruct (negb (beqb v headers_ValueTrue)); [exact A|].
  destruct (i_pna ic || i_pna_nocors ic); cbn [fst]; [apply tall_tset; auto | exact A].
Qed.

Lemma tall_acrm : forall ic tb acrm, tall P tb -> tall P (fst (p_acrm ic tb acrm)).
Proof.
  intros ic tb acrm A. unfold p_acrm.
  destruct (method_is_safelisted acrm); [exact A|].
  destruct (i_any_method ic && negb (i_cred ic)); [apply tall_tset; auto|].
  destruct (i_any_method ic || set_contains (i_methods ic) acrm); cbn [fst]; [apply tall_tset; auto | exact A].
Qed.

Lemma tall_acrh : forall ic tb req dbg, tall P tb -> tall P (fst (p_acrh ic tb req dbg)).
Proof.
  intros ic tb req dbg A. unfold p_acrh.
  destruct (hget req headers_ACRH) as [acrh|]; [|exact A].
  destruct (i_asterisk_req ic && negb (i_cred ic)); [apply tall_tset; auto|].
  destruct (i_asterisk_req ic && i_cred ic); [apply tall_tset; auto|].
  destruct (negb dbg).
  - destruct (sset_size (i_req_hdrs ic) =? 0); [exact A|].
    destruct (negb (check (i_req_hdrs ic) acrh)); cbn [fst]; [exact A | apply tall_tset; auto].
  - destruct (i_acah ic); cbn [fst]; [apply tall_tset; auto | exact A].
Qed.

(* the buffer handed to maps.Copy, whatever the exit taken *)
Lemma tall_buffers : forall ic req org acrm dbg,
  tall P (fst (p_origin_preflight ic [] org)) /\
  tall P (fst (p_acrpn ic (fst (p_origin_preflight ic [] org)) req)) /\
  tall P (fst (p_acrm ic (fst (p_acrpn ic (fst (p_origin_preflight ic [] org)) req)) acrm)) /\
  tall P (fst (p_acrh ic (fst (p_acrm ic (fst (p_acrpn ic (fst (p_origin_preflight ic [] org)) req)) acrm)) req dbg)).
Proof.
  intros ic req org acrm dbg.
  assert (A1 := tall_origin ic [] org (tall_nil P)).
  assert (A2 := tall_acrpn ic _ req A1).
  assert (A3 := tall_acrm ic _ acrm A2).
  assert (A4 := tall_acrh ic _ req dbg A3).
  auto.
Qed.
End PreflightTags.

(* [p_preflight] in terms of the four buffers *)
Lemma p_preflight_shape : forall ic pre req org acrm dbg,
  let m1 := match hget pre headers_Vary with
            | None => [(headers_Vary, Shared ShPreflightVary)]
            | Some _ => [(headers_Vary, Own)] end in
  let b1 := fst (p_origin_preflight ic [] org) in
  let b2 := fst (p_acrpn ic b1 req) in
  let b3 := fst (p_acrm ic b2 acrm) in
  let b4 := fst (p_acrh ic b3 req dbg) in
  exists bf, (bf = b1 \/ bf = b2 \/ bf = b3 \/ bf = b4) /\
    (p_preflight ic pre req org acrm dbg = m1 \/
     p_preflight ic pre req org acrm dbg = tcopy m1 bf \/
     p_preflight ic pre req org acrm dbg = tset (tcopy m1 bf) headers_ACMA (CfgSlice false)).
Proof.
  intros ic pre req org acrm dbg m1 b1 b2 b3 b4. unfold p_preflight. fold m1.
  subst b4 b3 b2 b1.
  destruct (p_origin_preflight ic [] org) as [b1 [|]]; cbn [fst].
  2:{ exists b1. split; [auto|]. destruct dbg; auto. }
  destruct (p_acrpn ic b1 req) as [b2 [|]]; cbn [fst].
  2:{ exists b2. split; [auto|]. destruct dbg; auto. }
  destruct (p_acrm ic b2 acrm) as [b3 [|]]; cbn [fst].
  2:{ exists b3. split; [auto|]. destruct dbg; auto. }
  destruct (p_acrh ic b3 req dbg) as [b4 [|]]; cbn [fst].
  2:{ exists b4. split; [auto 6|]. destruct dbg; auto. }
  exists b4. split; [auto 6|]. destruct (i_acma ic); auto.
Qed.

Lemma tall_preflight : forall (P : ptag -> Prop),
  (forall k, k = headers_Origin \/ k = headers_ACRM \/ k = headers_ACRH -> P (ReqSlice k)) ->
  (forall s, P (Shared s)) -> (forall a, P (CfgSlice a)) -> P Own ->
  forall ic pre req org acrm dbg, tall P (p_preflight ic pre req org acrm dbg).
Proof.
  intros P H1 H2 H3 H4 ic pre req org acrm dbg.
  destruct (tall_buffers P H1 H2 H3 ic req org acrm dbg) as (A1 & A2 & A3 & A4).
  destruct (p_preflight_shape ic pre req org acrm dbg) as (bf & Hbf & Hp).
  assert (Am : tall P (match hget pre headers_Vary with
            | None => [(headers_Vary, Shared ShPreflightVary)]
            | Some _ => [(headers_Vary, Own)] end)).
  { destruct (hget pre headers_Vary); apply tall_one; auto. }
  assert (Ab : tall P bf). { destruct Hbf as [->|[->|[->| ->]]]; assumption. }
  destruct Hp as [-> | [-> | ->]].
  - exact Am.
  - apply tall_tcopy; assumption.
  - apply tall_tset; [apply tall_tcopy; assumption | auto].
Qed.

Lemma own_preflight : forall ic pre req org acrm dbg,
  (own_count (p_preflight ic pre req org acrm dbg) <= 1)%nat.
Proof.
  intros ic pre req org acrm dbg.
  destruct (tall_buffers (fun t => isown t = 0%nat) (fun _ _ => eq_refl) (fun _ => eq_refl) (fun _ => eq_refl)
              ic req org acrm dbg) as (A1 & A2 & A3 & A4).
  destruct (p_preflight_shape ic pre req org acrm dbg) as (bf & Hbf & Hp).
  set (m1 := match hget pre headers_Vary with
            | None => [(headers_Vary, Shared ShPreflightVary)]
            | Some _ => [(headers_Vary, Own)] end) in *.
  assert (Am : (own_count m1 <= 1)%nat).
  { subst m1. destruct (hget pre headers_Vary); rewrite own_count_cons; cbn; lia. }
  assert (Ab : own_count bf = 0%nat).
  { apply own_count_tall_notown. destruct Hbf as [->|[->|[->| ->]]]; assumption. }
  pose proof (own_count_tcopy bf m1) as Hc.
  destruct Hp as [-> | [-> | ->]].
  - exact Am.
  - lia.
  - pose proof (own_count_tset_notown (tcopy m1 bf) headers_ACMA (CfgSlice false) eq_refl). lia.
Qed.

(* ------------------------------------------------------------------------------------------ *)
(* 5. non-CORS and actual requests                                                              *)
(* ------------------------------------------------------------------------------------------ *)

Lemma tall_non_cors : forall (P : ptag -> Prop), P Own -> forall ic o, tall P (p_non_cors ic o).
Proof.
  intros P H ic o. unfold p_non_cors.
  assert (A : tall P (if o then [(headers_Vary, Own)] else [])).
  { destruct o; [apply tall_one; exact H | apply tall_nil]. }
  destruct (i_pna_nocors ic); [exact A|].
  destruct (negb (tree_is_empty (i_tree ic))).
  - destruct (negb o); [apply tall_tset; assumption | exact A].
  - destruct (i_aceh ic); repeat apply tall_tset; assumption.
Qed.

Lemma tall_actual : forall (P : ptag -> Prop), P Own -> P (ReqSlice headers_Origin) ->
  forall ic org o, tall P (p_actual ic org o).
Proof.
  intros P H H' ic org o. unfold p_actual.
  destruct (i_pna_nocors ic).
  { destruct o; [apply tall_one; exact H | apply tall_nil]. }
  assert (A : tall P (if o then [(headers_Vary, Own)]
                      else if negb (tree_is_empty (i_tree ic)) then [(headers_Vary, Own)] else [])).
  { destruct o; [apply tall_one; exact H|].
    destruct (negb (tree_is_empty (i_tree ic))); [apply tall_one; exact H | apply tall_nil]. }
  destruct (negb (i_cred ic) && tree_is_empty (i_tree ic)).
  { destruct (i_aceh ic); repeat apply tall_tset; assumption. }
  destruct (parse org) as [og|]; [|exact A].
  destruct (negb (tree_contains (i_tree ic) og)); [exact A|].
  destruct (i_cred ic); destruct (i_aceh ic); repeat apply tall_tset; assumption.
Qed.

Lemma own_m0 : forall (c : bool), (own_count (if c then [(headers_Vary, Own)] else []) <= 1)%nat.
Proof. intros [|]; [rewrite own_count_cons|]; cbn; lia. Qed.

Lemma own_non_cors : forall ic o, (own_count (p_non_cors ic o) <= 3)%nat.
Proof.
  intros ic o. unfold p_non_cors.
  set (m1 := if o then [(headers_Vary, Own)] else []).
  assert (A : (own_count m1 <= 1)%nat) by apply own_m0.
  destruct (i_pna_nocors ic); [lia|].
  destruct (negb (tree_is_empty (i_tree ic))).
  - destruct (negb o); [|lia]. pose proof (own_count_tset_S m1 headers_Vary Own). lia.
  - pose proof (own_count_tset_S m1 headers_ACAO Own).
    pose proof (own_count_tset_S (tset m1 headers_ACAO Own) headers_ACEH Own).
    destruct (i_aceh ic); lia.
Qed.

Lemma own_actual : forall ic org o, (own_count (p_actual ic org o) <= 3)%nat.
Proof.
  intros ic org o. unfold p_actual.
  destruct (i_pna_nocors ic). { pose proof (own_m0 o). lia. }
  set (m1 := if o then [(headers_Vary, Own)]
             else if negb (tree_is_empty (i_tree ic)) then [(headers_Vary, Own)] else []).
  assert (A : (own_count m1 <= 1)%nat).
  { subst m1. destruct o; [apply (own_m0 true)|]. apply own_m0. }
  destruct (negb (i_cred ic) && tree_is_empty (i_tree ic)).
  { pose proof (own_count_tset_S m1 headers_ACAO Own).
    pose proof (own_count_tset_S (tset m1 headers_ACAO Own) headers_ACEH Own).
    destruct (i_aceh ic); lia. }
  destruct (parse org) as [og|]; [|lia].
  destruct (negb (tree_contains (i_tree ic) og)); [lia|].
  pose proof (own_count_tset_notown m1 headers_ACAO (ReqSlice headers_Origin) eq_refl) as B.
  set (m2 := tset m1 headers_ACAO (ReqSlice headers_Origin)) in *.
  pose proof (own_count_tset_S m2 headers_ACAC Own) as C.
  destruct (i_cred ic).
  - pose proof (own_count_tset_S (tset m2 headers_ACAC Own) headers_ACEH Own). destruct (i_aceh ic); lia.
  - pose proof (own_count_tset_S m2 headers_ACEH Own). destruct (i_aceh ic); lia.
Qed.

Lemma acc_non_cors : forall ic pre o, acc pre (handle_non_cors ic pre o) (p_non_cors ic o).
Proof.
  intros ic pre o. unfold handle_non_cors, p_non_cors.
  assert (A : acc pre (if o then hadd pre headers_Vary headers_ValueVaryOptions else pre)
                      (if o then [(headers_Vary, Own)] else [])).
  { destruct o; [apply acc_hadd1 | apply acc_nil]. }
  destruct (i_pna_nocors ic); [exact A|].
  destruct (negb (tree_is_empty (i_tree ic))).
  - destruct (negb o); [apply acc_hadd; exact A | exact A].
  - destruct (i_aceh ic); repeat apply acc_hset; exact A.
Qed.

Lemma acc_actual : forall ic pre org o, acc pre (handle_actual ic pre org o) (p_actual ic org o).
Proof.
  intros ic pre org o. unfold handle_actual, p_actual.
  destruct (i_pna_nocors ic). { destruct o; [apply acc_hadd1 | apply acc_nil]. }
  assert (A : acc pre (if o then hadd pre headers_Vary headers_ValueVaryOptions
                       else if negb (tree_is_empty (i_tree ic)) then hadd pre headers_Vary headers_Origin else pre)
                      (if o then [(headers_Vary, Own)]
                       else if negb (tree_is_empty (i_tree ic)) then [(headers_Vary, Own)] else [])).
  { destruct o; [apply acc_hadd1|].
    destruct (negb (tree_is_empty (i_tree ic))); [apply acc_hadd1 | apply acc_nil]. }
  destruct (negb (i_cred ic) && tree_is_empty (i_tree ic)).
  { destruct (i_aceh ic); repeat apply acc_hset; exact A. }
  destruct (parse org) as [og|]; [|exact A].
  destruct (negb (tree_contains (i_tree ic) og)); [exact A|].
  destruct (i_cred ic); destruct (i_aceh ic); repeat apply acc_hset; exact A.
Qed.

(* preflight: serve's header map against the tag map *)
Lemma acc_preflight : forall ic pre req org acrm dbg,
  acc pre (fst (handle_preflight ic pre req org acrm dbg)) (p_preflight ic pre req org acrm dbg).
Proof.
  intros ic pre req org acrm dbg. unfold handle_preflight, p_preflight.
  set (res1 := match hget pre headers_Vary with
               | Some v => hset pre headers_Vary (v ++ [headers_ValueVaryOptions])
               | None => hset pre headers_Vary headers_PreflightVarySgl end).
  set (m1 := match hget pre headers_Vary with
             | Some _ => [(headers_Vary, Own)]
             | None => [(headers_Vary, Shared ShPreflightVary)] end).
  assert (A : acc pre res1 m1).
  { subst res1 m1. destruct (hget pre headers_Vary); apply acc_hset1. }
  pose proof (par_origin ic [] [] org eq_refl) as P1.
  destruct (process_origin_preflight ic [] org) as [hb1 ok1].
  destruct (p_origin_preflight ic [] org) as [tb1 ok1'].
  destruct P1 as [K1 E1]. cbn [fst snd] in K1, E1. subst ok1'.
  destruct ok1.
  2:{ destruct dbg; cbn [fst]; [apply acc_hcopy; assumption | exact A]. }
  pose proof (par_acrpn ic hb1 tb1 req K1) as P2.
  destruct (process_acrpn ic hb1 req) as [hb2 ok2].
  destruct (p_acrpn ic tb1 req) as [tb2 ok2'].
  destruct P2 as [K2 E2]. cbn [fst snd] in K2, E2. subst ok2'.
  destruct ok2.
  2:{ destruct dbg; cbn [fst]; [apply acc_hcopy; assumption | exact A]. }
  pose proof (par_acrm ic hb2 tb2 acrm K2) as P3.
  destruct (process_acrm ic hb2 acrm) as [hb3 ok3].
  destruct (p_acrm ic tb2 acrm) as [tb3 ok3'].
  destruct P3 as [K3 E3]. cbn [fst snd] in K3, E3. subst ok3'.
  destruct ok3.
  2:{ destruct dbg; cbn [fst]; [apply acc_hcopy; assumption | exact A]. }
  pose proof (par_acrh ic hb3 tb3 req dbg K3) as P4.
  destruct (process_acrh ic hb3 req dbg) as [hb4 ok4].
  destruct (p_acrh ic tb3 req dbg) as [tb4 ok4'].
  destruct P4 as [K4 E4]. cbn [fst snd] in K4, E4. subst ok4'.
  destruct ok4.
  2:{ destruct dbg; cbn [fst]; [apply acc_hcopy; assumption | exact A]. }
  cbn [fst]. destruct (i_acma ic); [apply acc_hset|]; apply acc_hcopy; assumption.
Qed.

(* ------------------------------------------------------------------------------------------ *)
(* 6. the theorems                                                                              *)
(* ------------------------------------------------------------------------------------------ *)

Lemma tall_forallb : forall (f : ptag -> bool) m,
  tall (fun t => f t = true) m -> forallb (fun kv => f (snd kv)) m = true.
Proof. intros f m A. apply forallb_forall. apply (proj1 (Forall_forall _ _) A). Qed.

Lemma handler_sees_only_private_slices : forall st dbg r pre,
  snd (pserve st dbg r pre) = true ->
  forallb (fun kv => handler_safe (snd kv)) (fst (pserve st dbg r pre)) = true.
Proof.
  intros st dbg r pre H. apply tall_forallb. revert H. unfold pserve.
  destruct st as [ic|]; [|intros _; apply tall_nil].
  destruct (first (r_hdrs r) headers_Origin) as [org|].
  2:{ intros _. cbn [fst]. apply tall_non_cors. reflexivity. }
  destruct (first (r_hdrs r) headers_ACRM) as [acrm|].
  - destruct (beqb (r_method r) method_options); cbn [fst snd]; [discriminate|].
    intros _. apply tall_actual; reflexivity.
  - intros _. cbn [fst]. apply tall_actual; reflexivity.
Qed.

Lemma prov_accounts_for_every_write : forall st dbg r pre,
  snd (pserve st dbg r pre) = o_delegated (serve st dbg r pre) /\
  forall k, ~ In k (map fst (fst (pserve st dbg r pre))) ->
            hget (o_hdrs (serve st dbg r pre)) k = hget pre k.
Proof.
  intros st dbg r pre. unfold pserve, serve.
  destruct st as [ic|]; [|split; [reflexivity | intros k _; reflexivity]].
  destruct (first (r_hdrs r) headers_Origin) as [org|].
  2:{ split; [reflexivity|]. cbn [fst o_hdrs]. apply acc_non_cors. }
  destruct (first (r_hdrs r) headers_ACRM) as [acrm|].
  - destruct (beqb (r_method r) method_options).
    + pose proof (acc_preflight ic pre (r_hdrs r) org acrm dbg) as A.
      destruct (handle_preflight ic pre (r_hdrs r) org acrm dbg) as [h s].
      split; [reflexivity|]. cbn [fst o_hdrs] in *. exact A.
    + split; [reflexivity|]. cbn [fst o_hdrs]. apply acc_actual.
  - split; [reflexivity|]. cbn [fst o_hdrs]. apply acc_actual.
Qed.

Lemma bounded_allocation_sites : forall st dbg r pre, (own_count (fst (pserve st dbg r pre)) <= 3)%nat.
Proof.
  intros st dbg r pre. unfold pserve.
  destruct st as [ic|]; [|cbn; lia].
  destruct (first (r_hdrs r) headers_Origin) as [org|]; [|apply own_non_cors].
  destruct (first (r_hdrs r) headers_ACRM) as [acrm|]; [|apply own_actual].
  destruct (beqb (r_method r) method_options); cbn [fst]; [|apply own_actual].
  pose proof (own_preflight ic pre (r_hdrs r) org acrm dbg). lia.
Qed.

Lemma preflight_allocates_at_most_vary : forall st dbg r pre,
  snd (pserve st dbg r pre) = false -> (own_count (fst (pserve st dbg r pre)) <= 1)%nat.
Proof.
  intros st dbg r pre. unfold pserve.
  destruct st as [ic|]; [|discriminate].
  destruct (first (r_hdrs r) headers_Origin) as [org|]; [|discriminate].
  destruct (first (r_hdrs r) headers_ACRM) as [acrm|]; [|discriminate].
  destruct (beqb (r_method r) method_options); cbn [fst snd]; [|discriminate].
  intros _. apply own_preflight.
Qed.

Definition req_tag_ok (t : ptag) : Prop :=
  match t with ReqSlice k' => k' = headers_Origin \/ k' = headers_ACRM \/ k' = headers_ACRH | _ => True end.

Lemma request_data_is_reflected_not_copied : forall st dbg r pre k t,
  In (k, t) (fst (pserve st dbg r pre)) ->
  match t with ReqSlice k' => k' = headers_Origin \/ k' = headers_ACRM \/ k' = headers_ACRH | _ => True end.
Proof.
  intros st dbg r pre k t H.
  assert (A : tall req_tag_ok (fst (pserve st dbg r pre))).
  { unfold pserve. destruct st as [ic|]; [|apply tall_nil].
    destruct (first (r_hdrs r) headers_Origin) as [org|]; [|apply tall_non_cors; exact I].
    assert (B : tall req_tag_ok (p_actual ic org (beqb (r_method r) method_options))).
    { apply tall_actual; cbn; auto. }
    destruct (first (r_hdrs r) headers_ACRM) as [acrm|]; [|exact B].
    destruct (beqb (r_method r) method_options); cbn [fst]; [|exact B].
    apply tall_preflight; cbn; auto. }
  apply (proj1 (Forall_forall _ _) A (k, t) H).
Qed.
