(* Proofs/DispatchP.v -- request dispatch (C10, C11), rejected Reconfigure (C08), debug mode (C09). *)
Require Import Base.Bytes Gen.Tables Model.Util Model.Headers Model.Methods Model.Origins
  Model.Pattern Model.Radix Model.Netip Model.CfgErrors Model.Config Model.Serve Model.Mw.
Require Import Spec.Wire Spec.DebugSM.
Require Import Proofs.HeadersP.
Open Scope N_scope.

(* ------------------------------------------------------------------------------------------ *)
(* 1. header-map algebra                                                                       *)
(* ------------------------------------------------------------------------------------------ *)

Lemma d_beqb_false_ne : forall x y, beqb x y = false -> x <> y.
Proof. intros x y H E. subst. rewrite beqb_refl in H. discriminate. Qed.

Lemma d_beqb_sym : forall x y, beqb x y = beqb y x.
Proof.
  intros x y. destruct (beqb x y) eqn:E1; destruct (beqb y x) eqn:E2; try reflexivity.
  - apply beqb_eq in E1. subst. rewrite beqb_refl in E2. discriminate.
  - apply beqb_eq in E2. subst. rewrite beqb_refl in E1. discriminate.
Qed.

Lemma d_hget_hset : forall m k v k',
  hget (hset m k v) k' = if beqb k' k then Some v else hget m k'.
Proof.
  induction m as [|[k0 v0] r IH]; intros k v k'; simpl.
  - reflexivity.
  - destruct (beqb k k0) eqn:E; simpl.
    + apply beqb_eq in E. subst k0. destruct (beqb k' k); reflexivity.
    + rewrite IH. destruct (beqb k' k0) eqn:E0; [|reflexivity].
      destruct (beqb k' k) eqn:E1; [|reflexivity].
      apply beqb_eq in E0. apply beqb_eq in E1. subst. rewrite beqb_refl in E. discriminate.
Qed.

Lemma d_hget_hset_ne : forall m k v k', beqb k' k = false -> hget (hset m k v) k' = hget m k'.
Proof. intros m k v k' H. rewrite d_hget_hset, H. reflexivity. Qed.

Lemma d_hget_hset_eq : forall m k v, hget (hset m k v) k = Some v.
Proof. intros. rewrite d_hget_hset, beqb_refl. reflexivity. Qed.

Definition added (o : option (list bytes)) (v : bytes) : list bytes :=
  match o with Some vs => vs ++ [v] | None => [v] end.

Lemma d_hadd_hset : forall m k v, hadd m k v = hset m k (added (hget m k) v).
Proof. intros. unfold hadd, added. destruct (hget m k); reflexivity. Qed.

Lemma d_hget_hadd_ne : forall m k v k', beqb k' k = false -> hget (hadd m k v) k' = hget m k'.
Proof. intros. rewrite d_hadd_hset. apply d_hget_hset_ne. assumption. Qed.

Lemma d_hget_hadd_eq : forall m k v, hget (hadd m k v) k = Some (added (hget m k) v).
Proof. intros. rewrite d_hadd_hset. apply d_hget_hset_eq. Qed.

Lemma d_hget_none_notin : forall m k, hget m k = None <-> ~ In k (map fst m).
Proof.
  induction m as [|[k0 v0] r IH]; intros k; simpl.
  - split; auto.
  - destruct (beqb k k0) eqn:E.
    + apply beqb_eq in E. subst. split; [discriminate | intros H; exfalso; apply H; left; reflexivity].
    + rewrite IH. apply d_beqb_false_ne in E. split.
      * intros H [H1|H1]; [congruence | auto].
      * intros H H1. apply H. right. exact H1.
Qed.

Lemma d_keys_hset : forall m k v,
  map fst (hset m k v) = match hget m k with Some _ => map fst m | None => map fst m ++ [k] end.
Proof.
  induction m as [|[k0 v0] r IH]; intros k v; simpl.
  - reflexivity.
  - destruct (beqb k k0) eqn:E; simpl.
    + apply beqb_eq in E. subst. reflexivity.
    + rewrite IH. destruct (hget r k); reflexivity.
Qed.

Definition keys_distinct (m : hmap) : Prop := NoDup (map fst m).

Lemma d_hset_distinct : forall m k v, keys_distinct m -> keys_distinct (hset m k v).
Proof.
  unfold keys_distinct. intros m k v H. rewrite d_keys_hset. destruct (hget m k) eqn:E.
  - exact H.
  - apply d_hget_none_notin in E. apply NoDup_rev in H.
    rewrite <- (rev_involutive (map fst m ++ [k])). apply NoDup_rev.
    rewrite rev_app_distr. simpl. constructor; [|exact H].
    intro H1. apply E. apply in_rev. exact H1.
Qed.

Lemma d_hget_in : forall m k v, keys_distinct m -> In (k, v) m -> hget m k = Some v.
Proof.
  unfold keys_distinct. induction m as [|[k0 v0] r IH]; intros k v Hd Hin; simpl in *.
  - contradiction.
  - inversion Hd as [|x l Hn Hd']. subst. destruct Hin as [Hin|Hin].
    + injection Hin as -> ->. rewrite beqb_refl. reflexivity.
    + destruct (beqb k k0) eqn:E.
      * apply beqb_eq in E. subst. exfalso. apply Hn. apply (in_map fst) in Hin. exact Hin.
      * apply IH; assumption.
Qed.

Lemma d_hget_hcopy : forall src dst k, keys_distinct src ->
  hget (hcopy dst src) k = match hget src k with Some v => Some v | None => hget dst k end.
Proof.
  unfold hcopy, keys_distinct. induction src as [|[k0 v0] r IH]; intros dst k Hd; simpl.
  - reflexivity.
  - inversion Hd as [|x l Hn Hd']. subst. rewrite IH by assumption. rewrite d_hget_hset.
    destruct (beqb k k0) eqn:E; [|reflexivity].
    apply beqb_eq in E. subst. apply d_hget_none_notin in Hn. rewrite Hn. reflexivity.
Qed.

(* [hsets L m m']: m' results from m by header writes to names listed in L only *)
Inductive hsets (L : list bytes) (m : hmap) : hmap -> Prop :=
| hs_refl : hsets L m m
| hs_set : forall m' k v, hsets L m m' -> mem k L = true -> hsets L m (hset m' k v).

Lemma hsets_add : forall L m m' k v, hsets L m m' -> mem k L = true -> hsets L m (hadd m' k v).
Proof. intros. rewrite d_hadd_hset. apply hs_set; assumption. Qed.

Lemma hsets_trans : forall L m1 m2 m3, hsets L m1 m2 -> hsets L m2 m3 -> hsets L m1 m3.
Proof. intros L m1 m2 m3 H1 H2. induction H2; [assumption | apply hs_set; assumption]. Qed.

Lemma hsets_distinct : forall L m m', hsets L m m' -> keys_distinct m -> keys_distinct m'.
Proof. intros L m m' H Hd. induction H; [assumption | apply d_hset_distinct; assumption]. Qed.

Lemma hsets_frame : forall L m m' k, hsets L m m' -> mem k L = false -> hget m' k = hget m k.
Proof.
  intros L m m' k H Hk. induction H as [|m' k0 v H IH Hm]; [reflexivity|].
  rewrite d_hget_hset_ne; [exact IH|].
  destruct (beqb k k0) eqn:E; [|reflexivity]. apply beqb_eq in E. subst. congruence.
Qed.

Lemma hsets_keys : forall L m', hsets L [] m' -> forall kv, In kv m' -> mem (fst kv) L = true.
Proof.
  intros L m' H kv Hin. destruct (mem (fst kv) L) eqn:E; [reflexivity|].
  pose proof (hsets_frame L [] m' (fst kv) H E) as Hf. simpl in Hf.
  apply d_hget_none_notin in Hf. exfalso. apply Hf. apply in_map. exact Hin.
Qed.

Lemma hsets_hcopy : forall L src dst, (forall kv, In kv src -> mem (fst kv) L = true) ->
  hsets L dst (hcopy dst src).
Proof.
  unfold hcopy. induction src as [|kv r IH]; intros dst H; simpl.
  - apply hs_refl.
  - eapply hsets_trans; [|apply IH; intros; apply H; right; assumption].
    apply hs_set; [apply hs_refl | apply H; left; reflexivity].
Qed.

(* reflection of the spec's list comparisons *)
Lemma blist_eqb_eq : forall x y, blist_eqb x y = true <-> x = y.
Proof.
  unfold blist_eqb. induction x as [|a x IH]; destruct y as [|c y]; split; intro H;
    try discriminate; try reflexivity.
  - apply andb_true_iff in H. destruct H as [H1 H2]. apply beqb_eq in H1. apply IH in H2. congruence.
  - injection H as -> ->. apply andb_true_iff. split; [apply beqb_refl | apply IH; reflexivity].
Qed.

Lemma opt_blist_eqb_eq : forall x y, opt_blist_eqb x y = true <-> x = y.
Proof.
  intros [x|] [y|]; simpl; split; intro H; try discriminate; try reflexivity.
  - apply blist_eqb_eq in H. congruence.
  - injection H as ->. apply blist_eqb_eq. reflexivity.
Qed.

Lemma same_except_intro : forall ks a c, keys_distinct a -> keys_distinct c ->
  (forall k, mem k ks = false -> hget c k = hget a k) -> same_except ks a c = true.
Proof.
  intros ks a c Ha Hc H. unfold same_except. apply andb_true_iff.
  split; apply forallb_forall; intros [k v] Hin; simpl; destruct (mem k ks) eqn:E; try reflexivity; simpl;
    apply opt_blist_eqb_eq.
  - rewrite H by assumption. apply d_hget_in; assumption.
  - rewrite <- H by assumption. apply d_hget_in; assumption.
Qed.

Lemma hsets_same_except : forall L m m', hsets L m m' -> keys_distinct m -> same_except L m m' = true.
Proof.
  intros L m m' H Hd. apply same_except_intro; [assumption | eapply hsets_distinct; eassumption |].
  intros k Hk. eapply hsets_frame; eassumption.
Qed.

Lemma hmap_eqb_refl : forall m, keys_distinct m -> hmap_eqb m m = true.
Proof. intros m H. unfold hmap_eqb. apply same_except_intro; auto. Qed.

Lemma outcome_eqb_refl : forall o, keys_distinct (o_hdrs o) -> outcome_eqb o o = true.
Proof.
  intros o H. unfold outcome_eqb. rewrite hmap_eqb_refl by assumption. simpl.
  destruct (o_status o); [rewrite Z.eqb_refl|]; destruct (o_delegated o); reflexivity.
Qed.

(* ------------------------------------------------------------------------------------------ *)
(* 2. what the handlers write                                                                  *)
(* ------------------------------------------------------------------------------------------ *)

Definition actual_names : list bytes := [h_vary; h_acao; h_acac; h_aceh].
Definition buf_names : list bytes := [h_acao; h_acac; h_acapn; h_acam; h_acah].
Definition preflight_names : list bytes := h_vary :: grant_names.

Ltac hs_step :=
  first [ apply hs_refl
        | apply hs_set; [| reflexivity]
        | apply hsets_add; [| reflexivity] ].

Lemma handle_non_cors_hsets : forall ic res o, hsets actual_names res (handle_non_cors ic res o).
Proof.
  intros ic res o. unfold handle_non_cors.
  destruct (i_pna_nocors ic); [destruct o; repeat hs_step|].
  destruct (negb (tree_is_empty (i_tree ic))).
  - destruct o; simpl; repeat hs_step.
  - destruct (i_aceh ic); [|apply hs_set; [|reflexivity]]; destruct o; repeat hs_step.
Qed.

Lemma handle_actual_hsets : forall ic res org o, hsets actual_names res (handle_actual ic res org o).
Proof.
  intros ic res org o. unfold handle_actual.
  destruct (i_pna_nocors ic); [destruct o; repeat hs_step|].
  set (res1 := if o then _ else _).
  assert (H1 : hsets actual_names res res1).
  { unfold res1. destruct o; [repeat hs_step|]. destruct (negb (tree_is_empty (i_tree ic))); repeat hs_step. }
  clearbody res1.
  destruct (negb (i_cred ic) && tree_is_empty (i_tree ic)).
  - destruct (i_aceh ic); [|apply hs_set; [|reflexivity]]; (apply hs_set; [assumption | reflexivity]).
  - destruct (parse org); [|assumption].
    destruct (negb (tree_contains (i_tree ic) o0)); [assumption|].
    destruct (i_aceh ic); [|apply hs_set; [|reflexivity]];
      destruct (i_cred ic); repeat (apply hs_set; [| reflexivity]); assumption.
Qed.

Lemma pop_hsets : forall ic buf org, hsets buf_names buf (fst (process_origin_preflight ic buf org)).
Proof.
  intros. unfold process_origin_preflight. destruct (parse org); [|apply hs_refl].
  destruct (negb (i_cred ic) && tree_is_empty (i_tree ic)); simpl; [repeat hs_step|].
  destruct (negb (tree_contains (i_tree ic) o)); simpl; [apply hs_refl|].
  destruct (i_cred ic); repeat hs_step.
Qed.

Lemma pacrpn_hsets : forall ic buf req, hsets buf_names buf (fst (process_acrpn ic buf req)).
Proof.
  intros. unfold process_acrpn. destruct (first req headers_ACRPN); [|apply hs_refl].
  destruct (negb (beqb b headers_ValueTrue)); [apply hs_refl|].
  destruct (i_pna ic || i_pna_nocors ic); simpl; repeat hs_step.
Qed.

Lemma pacrm_hsets : forall ic buf acrm, hsets buf_names buf (fst (process_acrm ic buf acrm)).
Proof.
  intros. unfold process_acrm. destruct (method_is_safelisted acrm); [apply hs_refl|].
  destruct (i_any_method ic && negb (i_cred ic)); [simpl; repeat hs_step|].
  destruct (i_any_method ic || set_contains (i_methods ic) acrm); simpl; repeat hs_step.
Qed.

Lemma pacrh_hsets : forall ic buf req dbg, hsets buf_names buf (fst (process_acrh ic buf req dbg)).
Proof.
  intros. unfold process_acrh. destruct (hget req headers_ACRH); [|apply hs_refl].
  destruct (i_asterisk_req ic && negb (i_cred ic)); [simpl; repeat hs_step|].
  destruct (i_asterisk_req ic && i_cred ic); [simpl; repeat hs_step|].
  destruct (negb dbg).
  - destruct (sset_size (i_req_hdrs ic) =? 0); [apply hs_refl|].
    destruct (negb (check (i_req_hdrs ic) l)); simpl; repeat hs_step.
  - destruct (i_acah ic); simpl; repeat hs_step.
Qed.

(* the four buffers of a preflight, as functions *)
Definition pf_buf1 ic org := fst (process_origin_preflight ic [] org).
Definition pf_buf2 ic org req := fst (process_acrpn ic (pf_buf1 ic org) req).
Definition pf_buf3 ic org req acrm := fst (process_acrm ic (pf_buf2 ic org req) acrm).
Definition pf_buf4 ic org req acrm dbg := fst (process_acrh ic (pf_buf3 ic org req acrm) req dbg).

Lemma pf_buf1_hsets : forall ic org, hsets buf_names [] (pf_buf1 ic org).
Proof. intros. apply pop_hsets. Qed.
Lemma pf_buf2_hsets : forall ic org req, hsets buf_names [] (pf_buf2 ic org req).
Proof. intros. eapply hsets_trans; [apply pf_buf1_hsets | apply pacrpn_hsets]. Qed.
Lemma pf_buf3_hsets : forall ic org req acrm, hsets buf_names [] (pf_buf3 ic org req acrm).
Proof. intros. eapply hsets_trans; [apply pf_buf2_hsets | apply pacrm_hsets]. Qed.
Lemma pf_buf4_hsets : forall ic org req acrm dbg, hsets buf_names [] (pf_buf4 ic org req acrm dbg).
Proof. intros. eapply hsets_trans; [apply pf_buf3_hsets | apply pacrh_hsets]. Qed.

Definition pf_res1 (res : hmap) : hmap :=
  match hget res headers_Vary with
  | None => hset res headers_Vary headers_PreflightVarySgl
  | Some v => hset res headers_Vary (v ++ [headers_ValueVaryOptions])
  end.

(* handle_preflight in terms of the buffers *)
Lemma handle_preflight_eq : forall ic res req org acrm dbg,
  handle_preflight ic res req org acrm dbg =
  if negb (snd (process_origin_preflight ic [] org)) then
    ((if dbg then hcopy (pf_res1 res) (pf_buf1 ic org) else pf_res1 res), 403%Z)
  else if negb (snd (process_acrpn ic (pf_buf1 ic org) req)) then
    (if dbg then (hcopy (pf_res1 res) (pf_buf2 ic org req), success_status ic) else (pf_res1 res, 403%Z))
  else if negb (snd (process_acrm ic (pf_buf2 ic org req) acrm)) then
    (if dbg then (hcopy (pf_res1 res) (pf_buf3 ic org req acrm), success_status ic) else (pf_res1 res, 403%Z))
  else if negb (snd (process_acrh ic (pf_buf3 ic org req acrm) req dbg)) then
    (if dbg then (hcopy (pf_res1 res) (pf_buf4 ic org req acrm dbg), success_status ic) else (pf_res1 res, 403%Z))
  else
    (match i_acma ic with
     | Some v => hset (hcopy (pf_res1 res) (pf_buf4 ic org req acrm dbg)) headers_ACMA [v]
     | None => hcopy (pf_res1 res) (pf_buf4 ic org req acrm dbg)
     end, success_status ic).
Proof.
  intros. unfold handle_preflight, pf_buf4, pf_buf3, pf_buf2, pf_buf1. fold (pf_res1 res).
  destruct (process_origin_preflight ic [] org) as [b1 [|]]; simpl; [|reflexivity].
  destruct (process_acrpn ic b1 req) as [b2 [|]]; simpl; [|reflexivity].
  destruct (process_acrm ic b2 acrm) as [b3 [|]]; simpl; [|reflexivity].
  destruct (process_acrh ic b3 req dbg) as [b4 [|]]; simpl; reflexivity.
Qed.

Lemma pf_res1_hsets : forall res, hsets preflight_names res (pf_res1 res).
Proof. intros. unfold pf_res1. destruct (hget res headers_Vary); repeat hs_step. Qed.

Lemma buf_copy_hsets : forall res buf, hsets buf_names [] buf -> hsets preflight_names res (hcopy res buf).
Proof.
  intros res buf H. apply hsets_hcopy. intros kv Hin.
  pose proof (hsets_keys _ _ H kv Hin) as Hm. apply mem_In in Hm. apply mem_In.
  unfold buf_names in Hm. unfold preflight_names, grant_names. simpl in *. intuition.
Qed.

Lemma handle_preflight_hsets : forall ic res req org acrm dbg,
  hsets preflight_names res (fst (handle_preflight ic res req org acrm dbg)).
Proof.
  intros. rewrite handle_preflight_eq.
  pose proof (pf_res1_hsets res) as H1.
  assert (Hc : forall buf, hsets buf_names [] buf -> hsets preflight_names res (hcopy (pf_res1 res) buf)).
  { intros buf Hb. eapply hsets_trans; [exact H1 | apply buf_copy_hsets; exact Hb]. }
  repeat match goal with |- context [if negb ?c then _ else _] => destruct (negb c) end;
    destruct dbg; simpl; try exact H1;
    try (destruct (i_acma ic); [apply hs_set; [|reflexivity]|]);
    apply Hc; first [apply pf_buf1_hsets | apply pf_buf2_hsets | apply pf_buf3_hsets | apply pf_buf4_hsets].
Qed.

(* ---- Vary: earlier values are kept as a prefix ---- *)
Definition vary_ext (pre out : hmap) : Prop :=
  forall vs, hget pre headers_Vary = Some vs -> exists ext, hget out headers_Vary = Some (vs ++ ext).

Lemma vary_ext_refl : forall m, vary_ext m m.
Proof. intros m vs H. exists []. rewrite app_nil_r. exact H. Qed.

Lemma vary_ext_frame : forall L pre m m', mem headers_Vary L = false ->
  vary_ext pre m -> hsets L m m' -> vary_ext pre m'.
Proof. intros L pre m m' HL H Hs vs Hv. rewrite (hsets_frame _ _ _ _ Hs HL). apply H. exact Hv. Qed.

Lemma vary_ext_hadd : forall m v, vary_ext m (hadd m headers_Vary v).
Proof. intros m v vs H. rewrite d_hget_hadd_eq, H. simpl. exists [v]. reflexivity. Qed.

Lemma vary_ext_pf_res1 : forall m, vary_ext m (pf_res1 m).
Proof.
  intros m vs H. unfold pf_res1. rewrite H. rewrite d_hget_hset_eq.
  exists [headers_ValueVaryOptions]. reflexivity.
Qed.

Lemma vary_ext_preserved : forall pre out, vary_ext pre (o_hdrs out) -> vary_preserved pre out = true.
Proof.
  intros pre out H. unfold vary_preserved. change h_vary with headers_Vary.
  destruct (hget pre headers_Vary) as [vs|] eqn:E; [|reflexivity].
  destruct (H vs E) as [ext ->]. unfold is_prefix_list.
  rewrite firstn_app, firstn_all, Nat.sub_diag. simpl. rewrite app_nil_r. apply blist_eqb_eq. reflexivity.
Qed.

(* ------------------------------------------------------------------------------------------ *)
(* 3. dispatch (C11) and Vary preservation                                                     *)
(* ------------------------------------------------------------------------------------------ *)

Lemma serve_preflight : forall ic dbg r pre, is_preflight r = true ->
  exists org acrm, first (r_hdrs r) headers_Origin = Some org /\ first (r_hdrs r) headers_ACRM = Some acrm /\
    beqb (r_method r) method_options = true /\
    serve (Some ic) dbg r pre =
      {| o_hdrs := fst (handle_preflight ic pre (r_hdrs r) org acrm dbg);
         o_status := Some (snd (handle_preflight ic pre (r_hdrs r) org acrm dbg));
         o_delegated := false |}.
Proof.
  intros ic dbg r pre H. unfold is_preflight in H.
  change h_origin with headers_Origin in H. change h_acrm with headers_ACRM in H.
  change m_options with method_options in H. unfold serve.
  destruct (beqb (r_method r) method_options); [|discriminate]. simpl in H.
  destruct (first (r_hdrs r) headers_Origin) as [org|]; [|discriminate].
  destruct (first (r_hdrs r) headers_ACRM) as [acrm|]; [|discriminate].
  exists org, acrm. repeat split. destruct (handle_preflight ic pre (r_hdrs r) org acrm dbg). reflexivity.
Qed.

(* the header map a non-preflight request is answered with *)
Definition nonpf_hdrs (ic : icfg) (r : request) (pre : hmap) : hmap :=
  match first (r_hdrs r) headers_Origin with
  | None => handle_non_cors ic pre (beqb (r_method r) method_options)
  | Some org => handle_actual ic pre org (beqb (r_method r) method_options)
  end.

Lemma serve_not_preflight : forall ic dbg r pre, is_preflight r = false ->
  serve (Some ic) dbg r pre = {| o_hdrs := nonpf_hdrs ic r pre; o_status := None; o_delegated := true |}.
Proof.
  intros ic dbg r pre H. unfold is_preflight in H.
  change h_origin with headers_Origin in H. change h_acrm with headers_ACRM in H.
  change m_options with method_options in H. unfold serve, nonpf_hdrs.
  destruct (first (r_hdrs r) headers_Origin) as [org|]; [|reflexivity].
  destruct (first (r_hdrs r) headers_ACRM) as [acrm|]; [|reflexivity].
  destruct (beqb (r_method r) method_options); [discriminate | reflexivity].
Qed.

Lemma nonpf_hsets : forall ic r pre, hsets actual_names pre (nonpf_hdrs ic r pre).
Proof.
  intros. unfold nonpf_hdrs. destruct (first (r_hdrs r) headers_Origin);
    [apply handle_actual_hsets | apply handle_non_cors_hsets].
Qed.

Lemma serve_passthrough : forall dbg r pre,
  serve None dbg r pre = {| o_hdrs := pre; o_status := None; o_delegated := true |}.
Proof. reflexivity. Qed.

Lemma serve_delegated : forall ic dbg r pre,
  o_delegated (serve (Some ic) dbg r pre) = negb (is_preflight r).
Proof.
  intros. destruct (is_preflight r) eqn:E.
  - destruct (serve_preflight ic dbg r pre E) as (org & acrm & _ & _ & _ & ->). reflexivity.
  - rewrite serve_not_preflight by assumption. reflexivity.
Qed.

(* every write of the middleware goes to one of the CORS response names or Vary *)
Lemma serve_hsets : forall st dbg r pre, hsets preflight_names pre (o_hdrs (serve st dbg r pre)).
Proof.
  intros [ic|] dbg r pre; [|apply hs_refl].
  destruct (is_preflight r) eqn:E.
  - destruct (serve_preflight ic dbg r pre E) as (org & acrm & _ & _ & _ & ->). apply handle_preflight_hsets.
  - rewrite serve_not_preflight by assumption. simpl.
    pose proof (nonpf_hsets ic r pre) as H. clear E. induction H; [apply hs_refl|].
    apply hs_set; [assumption|]. apply mem_In in H0. apply mem_In.
    unfold actual_names in H0. unfold preflight_names, grant_names. simpl in *. intuition.
Qed.

Lemma serve_distinct : forall st dbg r pre, keys_distinct pre -> keys_distinct (o_hdrs (serve st dbg r pre)).
Proof. intros. eapply hsets_distinct; [apply serve_hsets | assumption]. Qed.

(* Vary *)
Lemma handle_non_cors_vary : forall ic res o, vary_ext res (handle_non_cors ic res o).
Proof.
  intros ic res o. unfold handle_non_cors.
  assert (H1 : vary_ext res (if o then hadd res headers_Vary headers_ValueVaryOptions else res)).
  { destruct o; [apply vary_ext_hadd | apply vary_ext_refl]. }
  destruct (i_pna_nocors ic); [exact H1|].
  destruct (negb (tree_is_empty (i_tree ic))).
  - destruct o; simpl; [apply vary_ext_hadd | apply vary_ext_hadd].
  - eapply (vary_ext_frame [headers_ACAO; headers_ACEH]); [reflexivity | exact H1 |].
    destruct (i_aceh ic); repeat hs_step.
Qed.

Lemma handle_actual_vary : forall ic res org o, vary_ext res (handle_actual ic res org o).
Proof.
  intros ic res org o. unfold handle_actual.
  destruct (i_pna_nocors ic); [destruct o; [apply vary_ext_hadd | apply vary_ext_refl]|].
  set (res1 := if o then _ else _).
  assert (H1 : vary_ext res res1).
  { unfold res1. destruct o; [apply vary_ext_hadd|].
    destruct (negb (tree_is_empty (i_tree ic))); [apply vary_ext_hadd | apply vary_ext_refl]. }
  clearbody res1.
  eapply (vary_ext_frame [headers_ACAO; headers_ACAC; headers_ACEH]); [reflexivity | exact H1 |].
  destruct (negb (i_cred ic) && tree_is_empty (i_tree ic)).
  - destruct (i_aceh ic); repeat hs_step.
  - destruct (parse org); [|apply hs_refl].
    destruct (negb (tree_contains (i_tree ic) o0)); [apply hs_refl|].
    destruct (i_aceh ic); destruct (i_cred ic); repeat hs_step.
Qed.

Lemma handle_preflight_vary : forall ic res req org acrm dbg,
  vary_ext res (fst (handle_preflight ic res req org acrm dbg)).
Proof.
  intros. rewrite handle_preflight_eq.
  pose proof (vary_ext_pf_res1 res) as H1.
  assert (Hc : forall buf, hsets buf_names [] buf -> vary_ext res (hcopy (pf_res1 res) buf)).
  { intros buf Hb. eapply (vary_ext_frame buf_names); [reflexivity | exact H1 |].
    apply hsets_hcopy. apply hsets_keys. exact Hb. }
  assert (Hm : forall m v, vary_ext res m -> vary_ext res (hset m headers_ACMA [v])).
  { intros m v Hv. eapply (vary_ext_frame [headers_ACMA]); [reflexivity | exact Hv | repeat hs_step]. }
  repeat match goal with |- context [if negb ?c then _ else _] => destruct (negb c) end;
    destruct dbg; simpl; try exact H1;
    try (destruct (i_acma ic); [apply Hm|]);
    apply Hc; first [apply pf_buf1_hsets | apply pf_buf2_hsets | apply pf_buf3_hsets | apply pf_buf4_hsets].
Qed.

Lemma serve_vary_ext : forall st dbg r pre, vary_ext pre (o_hdrs (serve st dbg r pre)).
Proof.
  intros [ic|] dbg r pre; [|apply vary_ext_refl].
  destruct (is_preflight r) eqn:E.
  - destruct (serve_preflight ic dbg r pre E) as (org & acrm & _ & _ & _ & ->). apply handle_preflight_vary.
  - rewrite serve_not_preflight by assumption. simpl. unfold nonpf_hdrs.
    destruct (first (r_hdrs r) headers_Origin); [apply handle_actual_vary | apply handle_non_cors_vary].
Qed.

Lemma serve_vary_preserved : forall st dbg r pre, vary_preserved pre (serve st dbg r pre) = true.
Proof. intros. apply vary_ext_preserved. apply serve_vary_ext. Qed.

Lemma c11_dispatch : forall ic dbg r pre, NoDup (map fst pre) ->
  c11_ok true r pre (serve (Some ic) dbg r pre) = true.
Proof.
  intros ic dbg r pre Hd. unfold c11_ok. change (negb true) with false. cbv iota.
  destruct (is_preflight r) eqn:E.
  - destruct (serve_preflight ic dbg r pre E) as (org & acrm & _ & _ & _ & ->). reflexivity.
  - rewrite serve_vary_preserved. rewrite serve_not_preflight by assumption. simpl.
    rewrite (hsets_same_except actual_names); [reflexivity | apply nonpf_hsets | exact Hd].
Qed.

(* without distinct keys in [pre] even the identity fails the spec's map comparison *)
Lemma c11_needs_distinct_keys :
  let pre := [([1], [[2]]); ([1], [[3]])] in
  c11_ok false {| r_method := []; r_hdrs := [] |} pre (serve None false {| r_method := []; r_hdrs := [] |} pre) = false.
Proof. vm_compute. reflexivity. Qed.

(* ------------------------------------------------------------------------------------------ *)
(* 4. C08: a rejected Reconfigure is a no-op                                                   *)
(* ------------------------------------------------------------------------------------------ *)

Section SM.
Variable ace : bytes -> bool.
Variable ip6 : bytes -> ipres.
Variable psl : bytes -> bool.

Lemma step_rejected : forall st c e,
  new_internal_config ace ip6 psl c = inr e ->
  step ace ip6 psl st (OReconfigure (Some c)) = (st, Some e).
Proof. intros st c e H. unfold step. rewrite H. reflexivity. Qed.

Lemma step_rejected_observables : forall st c e,
  new_internal_config ace ip6 psl c = inr e ->
  let st' := fst (step ace ip6 psl st (OReconfigure (Some c))) in
  (forall r pre, mw_serve st' r pre = mw_serve st r pre) /\ mw_config st' = mw_config st /\ snd st' = snd st.
Proof. intros st c e H. rewrite (step_rejected st c e H). simpl. auto. Qed.

(* [interleave l1 l2 m]: m is an interleaving of l1 and l2 (both in their original order) *)
Inductive interleave {A : Type} : list A -> list A -> list A -> Prop :=
| il_nil : interleave [] [] []
| il_left : forall x l1 l2 m, interleave l1 l2 m -> interleave (x :: l1) l2 (x :: m)
| il_right : forall x l1 l2 m, interleave l1 l2 m -> interleave l1 (x :: l2) (x :: m).

Definition rejected_op (o : op) : Prop :=
  exists c e, o = OReconfigure (Some c) /\ new_internal_config ace ip6 psl c = inr e.

Lemma run_cons : forall st o ops,
  run ace ip6 psl st (o :: ops) = run ace ip6 psl (fst (step ace ip6 psl st o)) ops.
Proof. reflexivity. Qed.

Lemma run_interleave_rejected : forall st ops bad,
  (forall o, In o bad -> rejected_op o) ->
  forall merged, interleave ops bad merged -> run ace ip6 psl st merged = run ace ip6 psl st ops.
Proof.
  intros st ops bad Hbad merged Hi. revert st Hbad.
  induction Hi as [|x l1 l2 m Hi IH|x l1 l2 m Hi IH]; intros st Hbad.
  - reflexivity.
  - rewrite !run_cons. apply IH. exact Hbad.
  - rewrite run_cons. destruct (Hbad x (or_introl eq_refl)) as (c & e & -> & He).
    rewrite (step_rejected st c e He). simpl fst. apply IH. intros o Ho. apply Hbad. right. exact Ho.
Qed.

(* ------------------------------------------------------------------------------------------ *)
(* 5. C09: the debug-mode state machine                                                        *)
(* ------------------------------------------------------------------------------------------ *)

Definition abs (st : mstate) : sm_state :=
  (match fst st with Some _ => true | None => false end, snd st).

Definition sm_of (o : op) : sm_op :=
  match o with
  | OSetDebug b => SmSetDebug b
  | OReconfigure None => SmReconfNil
  | OReconfigure (Some c) =>
      SmReconf (match new_internal_config ace ip6 psl c with inl _ => true | inr _ => false end)
  end.

Definition inv (st : mstate) : Prop := fst st = None -> snd st = false.

Lemma step_refines : forall st o, inv st ->
  abs (fst (step ace ip6 psl st o)) = sm_step (abs st) (sm_of o) /\ inv (fst (step ace ip6 psl st o)).
Proof.
  intros [[ic|] d] o Hi; unfold inv in *; simpl in Hi.
  - destruct o as [[c|]|bb]; simpl.
    + destruct (new_internal_config ace ip6 psl c); simpl; split; try reflexivity; discriminate.
    + split; reflexivity.
    + rewrite andb_true_r. split; [reflexivity | discriminate].
  - rewrite (Hi eq_refl). destruct o as [[c|]|bb]; simpl.
    + destruct (new_internal_config ace ip6 psl c); simpl; split; try reflexivity; discriminate.
    + split; reflexivity.
    + rewrite andb_false_r. split; reflexivity.
Qed.

Lemma run_refines : forall st ops, inv st ->
  abs (run ace ip6 psl st ops) = sm_run (abs st) (map sm_of ops) /\ inv (run ace ip6 psl st ops).
Proof.
  intros st ops. revert st. induction ops as [|o ops IH]; intros st Hi.
  - split; [reflexivity | exact Hi].
  - rewrite run_cons. destruct (step_refines st o Hi) as [Ha Hi'].
    destruct (IH _ Hi') as [H1 H2]. split; [|exact H2].
    rewrite H1, Ha. reflexivity.
Qed.

Lemma initial_states : abs zero_mw = sm_init false /\ inv zero_mw /\
  forall c st, fst (mw_new ace ip6 psl c) = Some st -> abs st = sm_init true /\ inv st.
Proof.
  split; [reflexivity|]. split; [intros _; reflexivity|].
  intros c st H. unfold mw_new in H. destruct (new_internal_config ace ip6 psl c); simpl in H; [|discriminate].
  injection H as <-. split; [reflexivity | intros _; reflexivity].
Qed.

End SM.

Lemma debug_only_affects_preflights : forall st r pre, is_preflight r = false ->
  serve st true r pre = serve st false r pre.
Proof.
  intros [ic|] r pre H; [|reflexivity]. rewrite !serve_not_preflight by assumption. reflexivity.
Qed.

Definition acah_rendered (ic : icfg) : Prop := sset_size (i_req_hdrs ic) <> 0 -> i_acah ic <> None.

Lemma pacrh_debug : forall ic buf req, acah_rendered ic ->
  snd (process_acrh ic buf req false) = true ->
  snd (process_acrh ic buf req true) = true /\
  forall k, beqb k headers_ACAH = false ->
    hget (fst (process_acrh ic buf req true)) k = hget (fst (process_acrh ic buf req false)) k.
Proof.
  intros ic buf req Hr. unfold process_acrh.
  destruct (hget req headers_ACRH) as [acrh|]; [|auto].
  destruct (i_asterisk_req ic && negb (i_cred ic)); [auto|].
  destruct (i_asterisk_req ic && i_cred ic); [auto|].
  change (negb false) with true. change (negb true) with false. cbv iota.
  destruct (sset_size (i_req_hdrs ic) =? 0) eqn:E; [discriminate|].
  destruct (negb (check (i_req_hdrs ic) acrh)); [discriminate|]. intros _.
  destruct (i_acah ic) as [v|] eqn:Ea.
  - split; [reflexivity|]. intros k Hk. simpl. rewrite !d_hget_hset_ne by assumption. reflexivity.
  - exfalso. apply Hr; [|exact Ea]. apply N.eqb_neq. exact E.
Qed.

Lemma debug_keeps_preflight_success : forall ic r pre, acah_rendered ic -> is_preflight r = true ->
  o_status (serve (Some ic) false r pre) <> Some 403%Z ->
  o_status (serve (Some ic) true r pre) = o_status (serve (Some ic) false r pre) /\
  forall k, beqb k headers_ACAH = false ->
    hget (o_hdrs (serve (Some ic) true r pre)) k = hget (o_hdrs (serve (Some ic) false r pre)) k.
Proof.
  intros ic r pre Hr Hpf.
  destruct (serve_preflight ic false r pre Hpf) as (org & acrm & Ho & Ha & _ & ->).
  destruct (serve_preflight ic true r pre Hpf) as (org' & acrm' & Ho' & Ha' & _ & ->).
  rewrite Ho in Ho'. injection Ho' as <-. rewrite Ha in Ha'. injection Ha' as <-.
  cbn [o_status o_hdrs]. rewrite !handle_preflight_eq.
  destruct (negb (snd (process_origin_preflight ic [] org))); [intros H; exfalso; apply H; reflexivity|].
  destruct (negb (snd (process_acrpn ic (pf_buf1 ic org) (r_hdrs r)))); [intros H; exfalso; apply H; reflexivity|].
  destruct (negb (snd (process_acrm ic (pf_buf2 ic org (r_hdrs r)) acrm))); [intros H; exfalso; apply H; reflexivity|].
  destruct (snd (process_acrh ic (pf_buf3 ic org (r_hdrs r) acrm) (r_hdrs r) false)) eqn:E4;
    [|intros H; exfalso; apply H; reflexivity].
  destruct (pacrh_debug ic _ _ Hr E4) as [E4' Hk4]. rewrite E4'. intros _.
  cbn [negb fst snd]. cbv iota. split; [reflexivity|]. intros k Hk.
  assert (Hc : hget (hcopy (pf_res1 pre) (pf_buf4 ic org (r_hdrs r) acrm true)) k =
               hget (hcopy (pf_res1 pre) (pf_buf4 ic org (r_hdrs r) acrm false)) k).
  { rewrite !d_hget_hcopy by (eapply hsets_distinct; [apply pf_buf4_hsets | constructor]).
    unfold pf_buf4. rewrite (Hk4 k Hk). reflexivity. }
  destruct (i_acma ic); [rewrite !d_hget_hset, Hc; reflexivity | exact Hc].
Qed.

(* ------------------------------------------------------------------------------------------ *)
(* 6. C10: the response's Vary field lists everything the response depends on                  *)
(* ------------------------------------------------------------------------------------------ *)

Definition tree_cred_ok (st : option icfg) : Prop :=
  match st with
  | Some ic => tree_is_empty (i_tree ic) = true -> i_cred ic = false
  | None => True
  end.

Lemma first_ext : forall m1 m2 k, hget m1 k = hget m2 k -> first m1 k = first m2 k.
Proof. intros m1 m2 k H. unfold first. rewrite H. reflexivity. Qed.

Lemma handle_preflight_ext : forall ic res req1 req2 org acrm dbg,
  hget req1 headers_ACRH = hget req2 headers_ACRH ->
  first req1 headers_ACRPN = first req2 headers_ACRPN ->
  handle_preflight ic res req1 org acrm dbg = handle_preflight ic res req2 org acrm dbg.
Proof.
  intros ic res req1 req2 org acrm dbg H1 H2.
  unfold handle_preflight, process_acrpn, process_acrh. rewrite H1, H2. reflexivity.
Qed.

(* everything [serve] reads from a request *)
Lemma serve_ext : forall st dbg r1 r2 pre,
  r_method r1 = r_method r2 ->
  hget (r_hdrs r1) headers_Origin = hget (r_hdrs r2) headers_Origin ->
  hget (r_hdrs r1) headers_ACRM = hget (r_hdrs r2) headers_ACRM ->
  hget (r_hdrs r1) headers_ACRH = hget (r_hdrs r2) headers_ACRH ->
  hget (r_hdrs r1) headers_ACRPN = hget (r_hdrs r2) headers_ACRPN ->
  serve st dbg r1 pre = serve st dbg r2 pre.
Proof.
  intros [ic|] dbg r1 r2 pre Hm Ho Ha Hh Hp; [|reflexivity].
  unfold serve. rewrite Hm, (first_ext _ _ _ Ho), (first_ext _ _ _ Ha).
  destruct (first (r_hdrs r2) headers_Origin); [|reflexivity].
  destruct (first (r_hdrs r2) headers_ACRM); [|reflexivity].
  destruct (beqb (r_method r2) method_options); [|reflexivity].
  rewrite (handle_preflight_ext ic pre (r_hdrs r1) (r_hdrs r2)); [reflexivity | exact Hh | apply first_ext; exact Hp].
Qed.

(* names listed by the last Vary value *)
Definition vary_tail (v : bytes) (m : hmap) : Prop := exists ws, hget m headers_Vary = Some (ws ++ [v]).

Lemma vary_names_tail : forall h v n, vary_tail v h ->
  In n (vary_names [(headers_Vary, [v])]) -> In n (vary_names h).
Proof.
  intros h v n [ws H]. unfold vary_names. change h_vary with headers_Vary. rewrite H.
  change (hget [(headers_Vary, [v])] headers_Vary) with (Some [v]). cbv iota.
  rewrite flat_map_app, map_app, filter_app. intro Hin. apply in_or_app. right. exact Hin.
Qed.

Lemma vary_options_names :
  vary_names [(headers_Vary, [headers_ValueVaryOptions])] = [h_acrh; h_acrm; h_acrpn; h_origin].
Proof. vm_compute. reflexivity. Qed.

Lemma vary_origin_names : vary_names [(headers_Vary, [headers_Origin])] = [h_origin].
Proof. vm_compute. reflexivity. Qed.

Lemma vary_tail_hadd : forall m v, vary_tail v (hadd m headers_Vary v).
Proof.
  intros m v. unfold vary_tail. rewrite d_hget_hadd_eq. destruct (hget m headers_Vary) as [vs|]; simpl.
  - exists vs. reflexivity.
  - exists []. reflexivity.
Qed.

Lemma vary_tail_frame : forall L v m m', mem headers_Vary L = false ->
  vary_tail v m -> hsets L m m' -> vary_tail v m'.
Proof. intros L v m m' HL [ws H] Hs. exists ws. rewrite (hsets_frame _ _ _ _ Hs HL). exact H. Qed.

Lemma vary_tail_pf_res1 : forall m, vary_tail headers_ValueVaryOptions (pf_res1 m).
Proof.
  intros m. unfold vary_tail, pf_res1. destruct (hget m headers_Vary) as [vs|]; rewrite d_hget_hset_eq.
  - exists vs. reflexivity.
  - exists []. reflexivity.
Qed.

Lemma handle_non_cors_options_vary : forall ic res,
  vary_tail headers_ValueVaryOptions (handle_non_cors ic res true).
Proof.
  intros ic res. unfold handle_non_cors.
  pose proof (vary_tail_hadd res headers_ValueVaryOptions) as H1.
  destruct (i_pna_nocors ic); [exact H1|].
  destruct (negb (tree_is_empty (i_tree ic))); [exact H1|].
  eapply (vary_tail_frame [headers_ACAO; headers_ACEH]); [reflexivity | exact H1 |].
  destruct (i_aceh ic); repeat hs_step.
Qed.

Lemma handle_actual_options_vary : forall ic res org,
  vary_tail headers_ValueVaryOptions (handle_actual ic res org true).
Proof.
  intros ic res org. unfold handle_actual.
  pose proof (vary_tail_hadd res headers_ValueVaryOptions) as H1.
  destruct (i_pna_nocors ic); [exact H1|].
  eapply (vary_tail_frame [headers_ACAO; headers_ACAC; headers_ACEH]); [reflexivity | exact H1 |].
  destruct (negb (i_cred ic) && tree_is_empty (i_tree ic)).
  - destruct (i_aceh ic); repeat hs_step.
  - destruct (parse org); [|apply hs_refl].
    destruct (negb (tree_contains (i_tree ic) o)); [apply hs_refl|].
    destruct (i_aceh ic); destruct (i_cred ic); repeat hs_step.
Qed.

Lemma handle_preflight_options_vary : forall ic res req org acrm dbg,
  vary_tail headers_ValueVaryOptions (fst (handle_preflight ic res req org acrm dbg)).
Proof.
  intros. rewrite handle_preflight_eq.
  pose proof (vary_tail_pf_res1 res) as H1.
  assert (Hc : forall buf, hsets buf_names [] buf ->
               vary_tail headers_ValueVaryOptions (hcopy (pf_res1 res) buf)).
  { intros buf Hb. eapply (vary_tail_frame buf_names); [reflexivity | exact H1 |].
    apply hsets_hcopy. apply hsets_keys. exact Hb. }
  assert (Hm : forall m v, vary_tail headers_ValueVaryOptions m ->
               vary_tail headers_ValueVaryOptions (hset m headers_ACMA [v])).
  { intros m v Hv. eapply (vary_tail_frame [headers_ACMA]); [reflexivity | exact Hv | repeat hs_step]. }
  repeat match goal with |- context [if negb ?c then _ else _] => destruct (negb c) end;
    destruct dbg; simpl; try exact H1;
    try (destruct (i_acma ic); [apply Hm|]);
    apply Hc; first [apply pf_buf1_hsets | apply pf_buf2_hsets | apply pf_buf3_hsets | apply pf_buf4_hsets].
Qed.

Lemma serve_options_vary : forall ic dbg r pre, beqb (r_method r) method_options = true ->
  vary_tail headers_ValueVaryOptions (o_hdrs (serve (Some ic) dbg r pre)).
Proof.
  intros ic dbg r pre Hm. destruct (is_preflight r) eqn:E.
  - destruct (serve_preflight ic dbg r pre E) as (org & acrm & _ & _ & _ & ->).
    apply handle_preflight_options_vary.
  - rewrite serve_not_preflight by assumption. simpl. unfold nonpf_hdrs. rewrite Hm.
    destruct (first (r_hdrs r) headers_Origin);
      [apply handle_actual_options_vary | apply handle_non_cors_options_vary].
Qed.

Lemma not_options_not_preflight : forall r, beqb (r_method r) method_options = false -> is_preflight r = false.
Proof. intros r H. unfold is_preflight. change m_options with method_options. rewrite H. reflexivity. Qed.

(* non-OPTIONS requests: either the response does not depend on the request at all ... *)
Lemma nonopt_indep : forall ic r pre, tree_cred_ok (Some ic) ->
  i_pna_nocors ic = true \/ tree_is_empty (i_tree ic) = true ->
  beqb (r_method r) method_options = false ->
  nonpf_hdrs ic r pre = handle_non_cors ic pre false.
Proof.
  intros ic r pre Htc Hc Hm. unfold nonpf_hdrs. rewrite Hm.
  destruct (first (r_hdrs r) headers_Origin) as [org|]; [|reflexivity].
  unfold handle_actual, handle_non_cors.
  destruct (i_pna_nocors ic); [reflexivity|].
  destruct Hc as [Hc|Hc]; [discriminate|]. simpl in Htc. rewrite (Htc Hc), Hc. reflexivity.
Qed.

(* ... or it lists Origin in Vary *)
Lemma nonopt_vary : forall ic r pre,
  i_pna_nocors ic = false -> tree_is_empty (i_tree ic) = false ->
  beqb (r_method r) method_options = false ->
  vary_tail headers_Origin (nonpf_hdrs ic r pre).
Proof.
  intros ic r pre Hp Ht Hm. unfold nonpf_hdrs. rewrite Hm.
  pose proof (vary_tail_hadd pre headers_Origin) as H1.
  destruct (first (r_hdrs r) headers_Origin) as [org|].
  - unfold handle_actual. rewrite Hp, Ht. simpl.
    eapply (vary_tail_frame [headers_ACAO; headers_ACAC; headers_ACEH]); [reflexivity | exact H1 |].
    rewrite andb_false_r.
    destruct (parse org); [|apply hs_refl].
    destruct (negb (tree_contains (i_tree ic) o)); [apply hs_refl|].
    destruct (i_aceh ic); destruct (i_cred ic); repeat hs_step.
  - unfold handle_non_cors. rewrite Hp, Ht. simpl. exact H1.
Qed.

Lemma agree_in : forall r1 r2 names n, forallb (agree_on r1 r2) names = true -> In n names ->
  hget (r_hdrs r1) n = hget (r_hdrs r2) n.
Proof.
  intros r1 r2 names n H Hin. rewrite forallb_forall in H. apply H in Hin.
  unfold agree_on in Hin. apply opt_blist_eqb_eq. exact Hin.
Qed.

Lemma serve_vary_determines : forall st dbg r1 r2 pre, tree_cred_ok st ->
  r_method r1 = r_method r2 ->
  forallb (agree_on r1 r2) (vary_names (o_hdrs (serve st dbg r1 pre))) = true ->
  serve st dbg r1 pre = serve st dbg r2 pre.
Proof.
  intros [ic|] dbg r1 r2 pre Htc Hm Hf; [|reflexivity].
  destruct (beqb (r_method r1) method_options) eqn:Eo.
  - pose proof (serve_options_vary ic dbg r1 pre Eo) as Ht.
    assert (Hin : forall n, In n [h_acrh; h_acrm; h_acrpn; h_origin] ->
                  hget (r_hdrs r1) n = hget (r_hdrs r2) n).
    { intros n Hn. apply (agree_in _ _ _ _ Hf). eapply vary_names_tail; [exact Ht|].
      rewrite vary_options_names. exact Hn. }
    apply serve_ext; [exact Hm | | | |]; apply Hin; simpl; auto.
  - assert (Eo2 : beqb (r_method r2) method_options = false) by (rewrite <- Hm; exact Eo).
    rewrite (serve_not_preflight ic dbg r1 pre (not_options_not_preflight r1 Eo)) in *.
    rewrite (serve_not_preflight ic dbg r2 pre (not_options_not_preflight r2 Eo2)).
    f_equal. cbn [o_hdrs] in Hf.
    destruct (i_pna_nocors ic) eqn:Ep.
    { rewrite !nonopt_indep by auto. reflexivity. }
    destruct (tree_is_empty (i_tree ic)) eqn:Et.
    { rewrite !nonopt_indep by auto. reflexivity. }
    pose proof (nonopt_vary ic r1 pre Ep Et Eo) as Ht.
    assert (Ho : hget (r_hdrs r1) headers_Origin = hget (r_hdrs r2) headers_Origin).
    { apply (agree_in _ _ _ _ Hf). eapply vary_names_tail; [exact Ht|].
      rewrite vary_origin_names. left. reflexivity. }
    unfold nonpf_hdrs. rewrite Hm, (first_ext _ _ _ Ho). reflexivity.
Qed.

Lemma c10_vary_sufficient : forall st dbg r1 r2 pre, NoDup (map fst pre) -> tree_cred_ok st ->
  c10_ok r1 r2 (serve st dbg r1 pre) (serve st dbg r2 pre) = true.
Proof.
  intros st dbg r1 r2 pre Hd Htc. unfold c10_ok.
  destruct (beqb (r_method r1) (r_method r2) && forallb (agree_on r1 r2) (vary_names (o_hdrs (serve st dbg r1 pre)))) eqn:E;
    [|reflexivity].
  apply andb_true_iff in E. destruct E as [Hm Hf]. apply beqb_eq in Hm.
  rewrite <- (serve_vary_determines st dbg r1 r2 pre Htc Hm Hf).
  apply outcome_eqb_refl. apply serve_distinct. exact Hd.
Qed.

(* the structural form: no hypothesis on [pre] *)
Lemma c10_vary_sufficient_eq : forall st dbg r1 r2 pre, tree_cred_ok st ->
  beqb (r_method r1) (r_method r2) = true ->
  forallb (agree_on r1 r2) (vary_names (o_hdrs (serve st dbg r1 pre))) = true ->
  serve st dbg r1 pre = serve st dbg r2 pre.
Proof. intros st dbg r1 r2 pre Htc Hm Hf. apply beqb_eq in Hm. apply serve_vary_determines; assumption. Qed.

Lemma serve_frame : forall st dbg r pre k, mem k preflight_names = false ->
  hget (o_hdrs (serve st dbg r pre)) k = hget pre k.
Proof. intros st dbg r pre k. exact (hsets_frame _ _ _ k (serve_hsets st dbg r pre)). Qed.

Lemma initial_states_all : abs zero_mw = sm_init false /\ inv zero_mw /\
  forall ace ip6 psl c st, fst (mw_new ace ip6 psl c) = Some st -> abs st = sm_init true /\ inv st.
Proof.
  split; [reflexivity|]. split; [intros _; reflexivity|].
  intros ace ip6 psl. apply (initial_states ace ip6 psl).
Qed.

(* neither hypothesis of c10_vary_sufficient can be dropped *)
Definition c10_cred_empty : icfg :=
  {| i_tree := empty_tree; i_methods := sset_empty; i_req_hdrs := sset_empty; i_acah := None;
     i_status_m200 := 4; i_cred := true; i_any_method := false; i_asterisk_req := false;
     i_allow_auth := false; i_pna := false; i_pna_nocors := false; i_acma := None; i_aceh := [];
     i_tol_psl := false; i_tol_insecure := false |}.

Lemma c10_needs_tree_cred_ok :
  let r1 := {| r_method := [71; 69; 84]; r_hdrs := [] |} in
  let r2 := {| r_method := [71; 69; 84]; r_hdrs := [(headers_Origin, [[120]])] |} in
  vary_names (o_hdrs (serve (Some c10_cred_empty) false r1 [])) = [] /\
  c10_ok r1 r2 (serve (Some c10_cred_empty) false r1 []) (serve (Some c10_cred_empty) false r2 []) = false.
Proof. vm_compute. split; reflexivity. Qed.

Lemma c10_needs_distinct_keys :
  let r := {| r_method := []; r_hdrs := [] |} in
  let pre := [([1], [[2]]); ([1], [[3]])] in
  c10_ok r r (serve None false r pre) (serve None false r pre) = false.
Proof. vm_compute. reflexivity. Qed.
