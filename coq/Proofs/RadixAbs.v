(* Proofs/RadixAbs.v -- the link between the Go-layout tree that tools/genradix translates (Model/RadixRt.v,
   Gen/RadixSrc.v: suffixes as written, parallel slices, pointers as paths) and the hand-written model
   (Model/Radix.v: suffixes reversed, association lists): the abstraction function [abs] and the invariant [gwf]
   of every tree that the translated code builds. *)
Require Import Base.Bytes Gen.Tables Model.Origins Model.Pattern Model.Radix Model.LoopRt Model.RadixRt.
From Coq Require Import Sorted.
Open Scope N_scope.

(* the model tree a Go tree stands for *)
Fixpoint abs (g : gnode) : node :=
  match g with
  | GNode suf edges children schemes ports =>
      Node (rev suf) (combine edges (map abs children)) (combine schemes ports)
  end.

(* the last byte of a string (0 for the empty string) and whether there is one *)
Definition last_byte (s : bytes) : N * bool :=
  match rev s with [] => (0, false) | c :: _ => (c, true) end.

(* the invariant of the Go tree:
   - the parallel slices have equal lengths;
   - edges and schemes are strictly increasing (what slices.BinarySearch needs), every port list is sorted;
   - a child's suffix is non-empty and ends with the byte that labels its edge (so that every descent consumes
     at least one byte: this is what makes the fuel of the two `for { }` loops sufficient);
   - recursively for the children. *)
Inductive gwf : gnode -> Prop :=
| gwf_node suf edges children schemes ports :
    length edges = length children ->
    length schemes = length ports ->
    StronglySorted N.lt edges ->
    StronglySorted (fun a c => bltb a c = true) schemes ->
    Forall (StronglySorted Z.le) ports ->
    Forall2 (fun l ch => last_byte (g_suf ch) = (l, true) /\ gwf ch) edges children ->
    gwf (GNode suf edges children schemes ports).

Lemma gwf_zero : gwf zero_gnode.
Proof. constructor; try reflexivity; constructor. Qed.

Lemma gwf_inv suf edges children schemes ports : gwf (GNode suf edges children schemes ports) ->
  length edges = length children /\ length schemes = length ports /\
  StronglySorted N.lt edges /\ StronglySorted (fun a c => bltb a c = true) schemes /\
  Forall (StronglySorted Z.le) ports /\
  Forall2 (fun l ch => last_byte (g_suf ch) = (l, true) /\ gwf ch) edges children.
Proof. intros H. inversion H; subst. repeat split; assumption. Qed.

(* induction over Go trees (the children are a nested list) *)
Section GnodeInd.
  Variable P : gnode -> Prop.
  Hypothesis Hnode : forall suf edges children schemes ports,
    Forall P children -> P (GNode suf edges children schemes ports).
  Fixpoint gnode_ind' (n : gnode) : P n :=
    match n with
    | GNode suf edges children schemes ports =>
        Hnode suf edges children schemes ports
          ((fix go (l : list gnode) : Forall P l :=
              match l with
              | [] => Forall_nil _
              | x :: r => Forall_cons x (gnode_ind' x) (go r)
              end) children)
    end.
End GnodeInd.
