(* Proofs/ServeP.v -- header-map algebra, the shape of handle_preflight, and the proofs of
   C03 (never over-grants) and C16 (no disclosure with debug off) for the handler [serve]. *)
Require Import Base.Bytes Gen.Tables.
Require Import Model.Util Model.Headers Model.Methods Model.Origins Model.Netip Model.Pattern Model.Radix
  Model.CfgErrors Model.Config Model.Serve.
Require Import Spec.Origins Spec.Wire Spec.ConfigDoc.
Require Import Proofs.RadixP Proofs.HeadersP Proofs.ParseP Proofs.Rel.
From Coq Require Import ZifyBool.
Open Scope N_scope.
Import Coq.Strings.String.StringSyntax.
Arguments b _%string_scope.

(* ------------------------------------------------------------------------------------------ *)
(* 0. bytes                                                                                    *)

Lemma beqb_neq x y : beqb x y = false -> x <> y.
Proof. intros H E. subst y. rewrite RadixP.beqb_refl in H. discriminate. Qed.

Lemma blist_eqb_refl l : blist_eqb l l = true.
Proof.
  unfold blist_eqb. induction l as [|a l IH]; [reflexivity|].
  rewrite RadixP.beqb_refl. exact IH.
Qed.

Lemma mem_false_neq k k' ks : mem k ks = true -> mem k' ks = false -> beqb k' k = false.
Proof.
  intros H1 H2. destruct (beqb k' k) eqn:E; [|reflexivity].
  apply RadixP.beqb_eq in E. subst k'. congruence.
Qed.

(* ------------------------------------------------------------------------------------------ *)
(* 1. association-list header maps                                                             *)

Lemma hget_hset m k v k' : hget (hset m k v) k' = if beqb k' k then Some v else hget m k'.
Proof.
  induction m as [|[k0 v0] m IH]; cbn [hset hget].
  - reflexivity.
  - destruct (beqb k k0) eqn:E.
    + apply RadixP.beqb_eq in E. subst k0. cbn [hget]. destruct (beqb k' k); reflexivity.
    + cbn [hget]. rewrite IH. destruct (beqb k' k0) eqn:E2; [|reflexivity].
      apply RadixP.beqb_eq in E2. subst k0. rewrite RadixP.beqb_sym in E. rewrite E. reflexivity.
Qed.

Lemma hget_hset_eq m k v : hget (hset m k v) k = Some v.
Proof. rewrite hget_hset, RadixP.beqb_refl. reflexivity. Qed.

Lemma hget_hset_neq m k v k' : beqb k' k = false -> hget (hset m k v) k' = hget m k'.
Proof. intros H. rewrite hget_hset, H. reflexivity. Qed.

Lemma hget_hadd_neq m k v k' : beqb k' k = false -> hget (hadd m k v) k' = hget m k'.
Proof. intros H. unfold hadd. destruct (hget m k); apply hget_hset_neq, H. Qed.

Lemma hget_hadd_eq m k v :
  hget (hadd m k v) k = Some (match hget m k with Some vs => vs ++ [v] | None => [v] end).
Proof. unfold hadd. destruct (hget m k); apply hget_hset_eq. Qed.

Lemma In_hset kv m k v : In kv (hset m k v) -> kv = (k, v) \/ In kv m.
Proof.
  induction m as [|[k0 v0] m IH]; cbn [hset].
  - intros [H|[]]. left. symmetry. exact H.
  - destruct (beqb k k0).
    + intros [H|H]; [left; symmetry; exact H | right; right; exact H].
    + intros [H|H]; [right; left; exact H|]. destruct (IH H) as [H'|H']; [left|right; right]; exact H'.
Qed.

Lemma In_keys_hset x m k v : In x (map fst (hset m k v)) -> x = k \/ In x (map fst m).
Proof.
  intros H. apply in_map_iff in H. destruct H as [kv [H1 H2]].
  apply In_hset in H2. destruct H2 as [H2|H2].
  - subst kv. left. symmetry. exact H1.
  - right. apply in_map_iff. exists kv. split; assumption.
Qed.

Lemma NoDup_hset m k v : NoDup (map fst m) -> NoDup (map fst (hset m k v)).
Proof.
  induction m as [|[k0 v0] m IH]; cbn [hset map fst]; intros H.
  - constructor; [intros []|constructor].
  - inversion H as [|x l Hn Hd]; subst. destruct (beqb k k0) eqn:E.
    + apply RadixP.beqb_eq in E. subst k0. cbn [map fst]. constructor; assumption.
    + cbn [map fst]. constructor; [|apply IH, Hd].
      intros Hin. apply In_keys_hset in Hin. destruct Hin as [Hin|Hin]; [|contradiction].
      subst k0. rewrite RadixP.beqb_refl in E. discriminate.
Qed.

Lemma hget_notin m k : ~ In k (map fst m) -> hget m k = None.
Proof.
  induction m as [|[k0 v0] m IH]; cbn [hget map fst]; intros H; [reflexivity|].
  destruct (beqb k k0) eqn:E.
  - apply RadixP.beqb_eq in E. subst k0. exfalso. apply H. left. reflexivity.
  - apply IH. intros Hin. apply H. right. exact Hin.
Qed.

Lemma hget_In m k v : hget m k = Some v -> In (k, v) m.
Proof.
  induction m as [|[k0 v0] m IH]; cbn [hget]; [discriminate|].
  destruct (beqb k k0) eqn:E.
  - apply RadixP.beqb_eq in E. subst k0. intros H. injection H as <-. left. reflexivity.
  - intros H. right. apply IH, H.
Qed.

Lemma NoDup_hget m k v : NoDup (map fst m) -> In (k, v) m -> hget m k = Some v.
Proof.
  induction m as [|[k0 v0] m IH]; cbn [hget map fst]; intros Hd Hin; [destruct Hin|].
  inversion Hd as [|x l Hn Hd']; subst. destruct Hin as [Hin|Hin].
  - injection Hin as -> ->. rewrite RadixP.beqb_refl. reflexivity.
  - destruct (beqb k k0) eqn:E.
    + apply RadixP.beqb_eq in E. subst k0. exfalso. apply Hn.
      apply in_map_iff. exists (k, v). split; [reflexivity|exact Hin].
    + apply IH; assumption.
Qed.

(* maps.Copy from a source with pairwise distinct keys *)
Lemma hget_hcopy src : forall dst k, NoDup (map fst src) ->
  hget (hcopy dst src) k = match hget src k with Some v => Some v | None => hget dst k end.
Proof.
  unfold hcopy. induction src as [|[k0 v0] src IH]; intros dst k Hd; cbn [fold_left hget fst snd map] in *.
  - reflexivity.
  - inversion Hd as [|x l Hn Hd']; subst. rewrite (IH _ _ Hd'), hget_hset.
    destruct (beqb k k0) eqn:E; [|reflexivity].
    apply RadixP.beqb_eq in E. subst k0. rewrite (hget_notin _ _ Hn). reflexivity.
Qed.

Lemma hcopy_nil dst : hcopy dst [] = dst.
Proof. reflexivity. Qed.

(* ------------------------------------------------------------------------------------------ *)
(* 2. header names: the model's constants are the specification's names                        *)

Lemma n_origin : headers_Origin = h_origin. Proof. reflexivity. Qed.
Lemma n_acrm : headers_ACRM = h_acrm. Proof. reflexivity. Qed.
Lemma n_acrh : headers_ACRH = h_acrh. Proof. reflexivity. Qed.
Lemma n_acrpn : headers_ACRPN = h_acrpn. Proof. reflexivity. Qed.
Lemma n_acao : headers_ACAO = h_acao. Proof. reflexivity. Qed.
Lemma n_acac : headers_ACAC = h_acac. Proof. reflexivity. Qed.
Lemma n_acam : headers_ACAM = h_acam. Proof. reflexivity. Qed.
Lemma n_acah : headers_ACAH = h_acah. Proof. reflexivity. Qed.
Lemma n_acapn : headers_ACAPN = h_acapn. Proof. reflexivity. Qed.
Lemma n_acma : headers_ACMA = h_acma. Proof. reflexivity. Qed.
Lemma n_aceh : headers_ACEH = h_aceh. Proof. reflexivity. Qed.
Lemma n_vary : headers_Vary = h_vary. Proof. reflexivity. Qed.
Lemma n_star : headers_ValueWildcard = v_star. Proof. reflexivity. Qed.
Lemma n_true : headers_ValueTrue = v_true. Proof. reflexivity. Qed.
Lemma n_options : method_options = m_options. Proof. reflexivity. Qed.
Lemma n_star_sgl : headers_WildcardSgl = [v_star]. Proof. reflexivity. Qed.
Lemma n_true_sgl : headers_TrueSgl = [v_true]. Proof. reflexivity. Qed.
Lemma n_star_auth_sgl : headers_WildcardAuthSgl = [b "*,authorization"]. Proof. reflexivity. Qed.
Lemma n_preflight_vary_sgl :
  headers_PreflightVarySgl =
  [b "Access-Control-Request-Headers, Access-Control-Request-Method, Access-Control-Request-Private-Network, Origin"].
Proof. reflexivity. Qed.

Ltac names :=
  change headers_Origin with h_origin in *; change headers_ACRM with h_acrm in *;
  change headers_ACRH with h_acrh in *; change headers_ACRPN with h_acrpn in *;
  change headers_ACAO with h_acao in *; change headers_ACAC with h_acac in *;
  change headers_ACAM with h_acam in *; change headers_ACAH with h_acah in *;
  change headers_ACAPN with h_acapn in *; change headers_ACMA with h_acma in *;
  change headers_ACEH with h_aceh in *; change headers_Vary with h_vary in *;
  change headers_ValueWildcard with v_star in *; change headers_ValueTrue with v_true in *;
  change headers_WildcardSgl with [v_star] in *; change headers_TrueSgl with [v_true] in *;
  change headers_WildcardAuthSgl with [b "*,authorization"] in *.

Lemma vary_not_grant : mem h_vary grant_names = false.
Proof. reflexivity. Qed.

(* ------------------------------------------------------------------------------------------ *)
(* 3. same_except                                                                              *)

Definition SE (ks : list bytes) (a c : hmap) : Prop :=
  (forall k v, In (k, v) a -> mem k ks = false -> hget c k = Some v) /\
  (forall k v, In (k, v) c -> mem k ks = false -> hget a k = Some v).

(* every entry of the map is the one a lookup of its key finds: true of any map with pairwise
   distinct keys, hence of any Go map *)
Definition hconsistent (m : hmap) : Prop := forall k v, In (k, v) m -> hget m k = Some v.

Lemma NoDup_hconsistent m : NoDup (map fst m) -> hconsistent m.
Proof. intros H k v Hin. apply NoDup_hget; assumption. Qed.

Lemma SE_same_except ks a c : SE ks a c -> same_except ks a c = true.
Proof.
  intros [H1 H2]. unfold same_except. apply andb_true_iff.
  split; apply forallb_forall; intros [k v] Hin; cbn [fst snd].
  - destruct (mem k ks) eqn:E; [reflexivity|]. rewrite (H1 _ _ Hin E). cbn [orb opt_blist_eqb].
    apply blist_eqb_refl.
  - destruct (mem k ks) eqn:E; [reflexivity|]. rewrite (H2 _ _ Hin E). cbn [orb opt_blist_eqb].
    apply blist_eqb_refl.
Qed.

Lemma SE_refl ks m : hconsistent m -> SE ks m m.
Proof. intros H. split; intros k v Hin _; apply H, Hin. Qed.

Lemma SE_hset ks a c k v : SE ks a c -> mem k ks = true -> SE ks a (hset c k v).
Proof.
  intros [H1 H2] Hk. split.
  - intros k' v' Hin Hk'. rewrite hget_hset_neq; [apply H1; assumption|].
    eapply mem_false_neq; eassumption.
  - intros k' v' Hin Hk'. apply In_hset in Hin. destruct Hin as [Hin|Hin].
    + injection Hin as -> ->. congruence.
    + apply H2; assumption.
Qed.

Lemma SE_hcopy ks a src : forall c, SE ks a c -> (forall k, mem k ks = false -> hget src k = None) ->
  SE ks a (hcopy c src).
Proof.
  unfold hcopy. induction src as [|[k0 v0] src IH]; intros c H Hk; cbn [fold_left fst snd]; [exact H|].
  assert (Hk0 : mem k0 ks = true).
  { destruct (mem k0 ks) eqn:E; [reflexivity|]. specialize (Hk _ E). cbn [hget] in Hk.
    rewrite RadixP.beqb_refl in Hk. discriminate. }
  apply IH; [apply SE_hset; assumption|].
  intros k Ek. specialize (Hk _ Ek). cbn [hget] in Hk. destruct (beqb k k0); [discriminate|exact Hk].
Qed.

(* ------------------------------------------------------------------------------------------ *)
(* 4. C03 from the values of the grant names                                                   *)

Definition cors_free (pre : hmap) : Prop := forall k, mem k grant_names = true -> hget pre k = None.

Definition org_allowed (pats : list pattern) (r : request) : bool :=
  match first (r_hdrs r) h_origin with Some v => value_allowed pats v | None => false end.

Lemma parse_star : parse v_star = None.
Proof. vm_compute. reflexivity. Qed.

Lemma value_allowed_not_star pats v : value_allowed pats v = true -> beqb v v_star = false.
Proof.
  intros H. destruct (beqb v v_star) eqn:E; [|reflexivity].
  apply RadixP.beqb_eq in E. subst v. unfold value_allowed in H. rewrite parse_star in H. discriminate.
Qed.

(* the possible (ACAO, ACAC) pairs *)
Definition origin_view (c : config) (pats : list pattern) (r : request) (oa oc : option (list bytes)) : Prop :=
  (oa = None /\ oc = None) \/
  (oa = Some [v_star] /\ oc = None /\ lists_star (c_origins c) = true /\ c_credentialed c = false) \/
  (exists o, first (r_hdrs r) h_origin = Some o /\ oa = Some [o] /\
      (lists_star (c_origins c) = true \/ value_allowed pats o = true) /\
      (oc = None \/ (oc = Some [v_true] /\ c_credentialed c = true /\ value_allowed pats o = true))).

Lemma c03_intro c pats r h s d :
  origin_view c pats r (hget h h_acao) (hget h h_acac) ->
  (lists_star (c_origins c) || org_allowed pats r = false ->
   forall k, mem k grant_names = true -> hget h k = None) ->
  (d = true -> forall k, mem k preflight_only = true -> hget h k = None) ->
  (d = false -> hget h h_aceh = None) ->
  (forall vs, hget h h_acma = Some vs -> exists v, spec_max_age c = Some v /\ vs = [v]) ->
  (forall vs, hget h h_aceh = Some vs -> exists v, spec_aceh c = Some v /\ vs = [v]) ->
  c03_ok c pats r {| o_hdrs := h; o_status := s; o_delegated := d |} = true.
Proof.
  intros Hov Hnone Hd Hd' Hma Heh. unfold c03_ok. cbn [o_hdrs o_delegated].
  fold (org_allowed pats r).
  repeat (apply andb_true_iff; split).
  - destruct Hov as [[-> _]|[[-> [_ [Hs Hc]]]|[o [Ho [-> [Hal _]]]]]]; [reflexivity| |].
    + rewrite Hs, Hc, RadixP.beqb_refl. apply orb_true_r.
    + rewrite Ho, RadixP.beqb_refl. unfold org_allowed. rewrite Ho.
      destruct Hal as [->| ->]; [reflexivity|]. rewrite orb_true_r. reflexivity.
  - destruct Hov as [[_ ->]|[[_ [-> _]]|[o [Ho [-> [_ [->|[-> [Hc Hv]]]]]]]]]; try reflexivity.
    rewrite Hc, Ho. unfold org_allowed. rewrite Ho, Hv, RadixP.beqb_refl.
    rewrite (value_allowed_not_star _ _ Hv). reflexivity.
  - rewrite <- negb_orb. destruct (lists_star (c_origins c) || org_allowed pats r) eqn:E; [reflexivity|].
    cbn [negb]. specialize (Hnone eq_refl). apply forallb_forall. intros k Hk.
    apply mem_In in Hk. unfold present. rewrite (Hnone _ Hk). reflexivity.
  - destruct d.
    + apply forallb_forall. intros k Hk. apply mem_In in Hk. unfold present. rewrite (Hd eq_refl _ Hk). reflexivity.
    + unfold present. rewrite (Hd' eq_refl). reflexivity.
  - destruct (hget h h_acma) as [vs|] eqn:E; [|reflexivity].
    destruct (Hma _ eq_refl) as [v [-> ->]]. apply blist_eqb_refl.
  - destruct (hget h h_aceh) as [vs|] eqn:E; [|reflexivity].
    destruct (Heh _ eq_refl) as [v [-> ->]]. apply blist_eqb_refl.
Qed.

(* when only names outside the grant set were touched *)
Lemma c03_none c pats r h s d :
  (forall k, mem k grant_names = true -> hget h k = None) ->
  c03_ok c pats r {| o_hdrs := h; o_status := s; o_delegated := d |} = true.
Proof.
  intros H. apply c03_intro.
  - left. split; apply H; reflexivity.
  - intros _. exact H.
  - intros _ k Hk. apply H.
    apply mem_In in Hk. apply mem_In. unfold preflight_only, grant_names in *. cbn [In] in *. tauto.
  - intros _. apply H. reflexivity.
  - intros vs E. rewrite H in E by reflexivity. discriminate.
  - intros vs E. rewrite H in E by reflexivity. discriminate.
Qed.

Lemma grant_not_vary k : mem k grant_names = true -> beqb k h_vary = false.
Proof.
  intros H. destruct (beqb k h_vary) eqn:E; [|reflexivity].
  apply RadixP.beqb_eq in E. subst k. rewrite vary_not_grant in H. discriminate.
Qed.

Ltac hg Hfree := repeat first
  [ rewrite hget_hset_eq | rewrite hget_hset_neq by reflexivity
  | rewrite hget_hadd_neq by reflexivity | rewrite Hfree by reflexivity ].

(* ------------------------------------------------------------------------------------------ *)
(* 5. the handler, under icfg_rel                                                              *)

Section Serve.
Variable ace : bytes -> bool.
Variable ip6 : bytes -> ipres.
Variable c : config.
Variable ic : icfg.
Hypothesis Hrel : icfg_rel ace ip6 c ic.
Notation pats := (cfg_patterns ace ip6 c).

Lemma lookup_allowed org o :
  Forall valid_pattern pats -> parse org = Some o ->
  negb (i_cred ic) && tree_is_empty (i_tree ic) = false ->
  tree_contains (i_tree ic) o = true -> value_allowed pats org = true.
Proof.
  intros Hv Hp Hw Ht. destruct (lists_star (c_origins c)) eqn:Es.
  - destruct (rel_star _ _ _ _ Hrel Es) as [Hc _].
    rewrite (rel_cred _ _ _ _ Hrel), Hc, (rel_tree_empty _ _ _ _ Hrel), Es in Hw. discriminate.
  - rewrite (rel_tree _ _ _ _ Hrel), Es in Ht.
    rewrite (tree_contains_build _ _ Hv (parse_valid_origin _ _ Hp)) in Ht.
    unfold value_allowed. rewrite Hp. exact Ht.
Qed.

Lemma wild_branch :
  negb (i_cred ic) && tree_is_empty (i_tree ic) = true ->
  lists_star (c_origins c) = true /\ c_credentialed c = false.
Proof.
  rewrite (rel_cred _ _ _ _ Hrel), (rel_tree_empty _ _ _ _ Hrel). intros H.
  apply andb_true_iff in H. destruct H as [H1 H2]. split; [exact H2|].
  destruct (c_credentialed c); [discriminate|reflexivity].
Qed.

Lemma empty_branch :
  tree_is_empty (i_tree ic) = true -> lists_star (c_origins c) = true /\ c_credentialed c = false.
Proof.
  rewrite (rel_tree_empty _ _ _ _ Hrel). intros H. split; [exact H|].
  apply (rel_star _ _ _ _ Hrel H).
Qed.

Lemma aceh_cons a l : i_aceh ic = a :: l -> spec_aceh c = Some (a :: l).
Proof.
  rewrite (rel_aceh _ _ _ _ Hrel). destruct (spec_aceh c) as [v|]; cbn [opt_or_nil].
  - intros ->. reflexivity.
  - discriminate.
Qed.

(* wildcard outcome of handleNonCORS / handleCORSActual *)
Lemma c03_wild r m s :
  (forall k, mem k grant_names = true -> hget m k = None) ->
  lists_star (c_origins c) = true -> c_credentialed c = false ->
  c03_ok c pats r {| o_hdrs := match i_aceh ic with
                               | [] => hset m h_acao [v_star]
                               | v => hset (hset m h_acao [v_star]) h_aceh [v]
                               end;
                     o_status := s; o_delegated := true |} = true.
Proof.
  intros Hm Hs Hc. destruct (i_aceh ic) as [|a l] eqn:Ea.
  - apply c03_intro.
    + right; left. hg Hm. auto.
    + rewrite Hs. discriminate.
    + intros _ k Hk. apply mem_In in Hk. unfold preflight_only in Hk. cbn [In] in Hk.
      destruct Hk as [<-|[<-|[<-|[<-|[]]]]]; hg Hm; reflexivity.
    + discriminate.
    + intros vs. hg Hm. discriminate.
    + intros vs. hg Hm. discriminate.
  - apply c03_intro.
    + right; left. hg Hm. auto.
    + rewrite Hs. discriminate.
    + intros _ k Hk. apply mem_In in Hk. unfold preflight_only in Hk. cbn [In] in Hk.
      destruct Hk as [<-|[<-|[<-|[<-|[]]]]]; hg Hm; reflexivity.
    + discriminate.
    + intros vs. hg Hm. discriminate.
    + intros vs. hg Hm. intros E. injection E as <-. exists (a :: l). split; [apply aceh_cons, Ea|reflexivity].
Qed.

Lemma c03_non_cors r pre opt s :
  cors_free pre -> first (r_hdrs r) h_origin = None ->
  c03_ok c pats r {| o_hdrs := handle_non_cors ic pre opt; o_status := s; o_delegated := true |} = true.
Proof.
  intros Hfree Ho. unfold handle_non_cors. names.
  set (res1 := if opt then hadd pre h_vary headers_ValueVaryOptions else pre).
  assert (Hres1 : forall k, mem k grant_names = true -> hget res1 k = None).
  { intros k Hk. subst res1. destruct opt; [rewrite hget_hadd_neq by (apply grant_not_vary, Hk)|]; apply Hfree, Hk. }
  destruct (i_pna_nocors ic); [apply c03_none, Hres1|].
  destruct (tree_is_empty (i_tree ic)) eqn:Et; cbn [negb].
  - destruct (empty_branch Et) as [Hs Hc]. apply c03_wild; assumption.
  - apply c03_none. intros k Hk.
    destruct (negb opt); [rewrite hget_hadd_neq by (apply grant_not_vary, Hk)|]; apply Hres1, Hk.
Qed.

Lemma c03_actual r pre org opt s :
  Forall valid_pattern pats -> cors_free pre -> first (r_hdrs r) h_origin = Some org ->
  c03_ok c pats r {| o_hdrs := handle_actual ic pre org opt; o_status := s; o_delegated := true |} = true.
Proof.
  intros Hv Hfree Ho. unfold handle_actual. names.
  destruct (i_pna_nocors ic).
  { apply c03_none. intros k Hk.
    destruct opt; [rewrite hget_hadd_neq by (apply grant_not_vary, Hk)|]; apply Hfree, Hk. }
  set (res1 := if opt then hadd pre h_vary headers_ValueVaryOptions
               else if negb (tree_is_empty (i_tree ic)) then hadd pre h_vary h_origin else pre).
  assert (Hres1 : forall k, mem k grant_names = true -> hget res1 k = None).
  { intros k Hk. subst res1. destruct opt; [|destruct (negb (tree_is_empty (i_tree ic)))];
      try rewrite hget_hadd_neq by (apply grant_not_vary, Hk); apply Hfree, Hk. }
  clearbody res1.
  destruct (negb (i_cred ic) && tree_is_empty (i_tree ic)) eqn:Ew.
  { destruct (wild_branch Ew) as [Hs Hc]. apply c03_wild; assumption. }
  destruct (parse org) as [o|] eqn:Hp; [|apply c03_none, Hres1].
  destruct (tree_contains (i_tree ic) o) eqn:Ht; cbn [negb]; [|apply c03_none, Hres1].
  pose proof (lookup_allowed _ _ Hv Hp Ew Ht) as Hal.
  assert (Hoa : lists_star (c_origins c) || org_allowed pats r = false -> False).
  { unfold org_allowed. rewrite Ho, Hal, orb_true_r. discriminate. }
  rewrite (rel_cred _ _ _ _ Hrel).
  destruct (c_credentialed c) eqn:Hc; destruct (i_aceh ic) as [|a l] eqn:Ea;
    (apply c03_intro;
     [ right; right; exists org; hg Hres1; repeat split; auto
     | intros H; destruct (Hoa H)
     | intros _ k Hk; apply mem_In in Hk; unfold preflight_only in Hk; cbn [In] in Hk;
       destruct Hk as [<-|[<-|[<-|[<-|[]]]]]; hg Hres1; reflexivity
     | discriminate
     | intros vs; hg Hres1; discriminate
     | intros vs; hg Hres1;
       first [ discriminate
             | intros E; injection E as <-; exists (a :: l); split; [apply aceh_cons, Ea|reflexivity] ] ]).
Qed.

(* ---- handle_preflight: its shape, independently of any specification ---- *)

Definition vary_step (pre : hmap) : hmap :=
  match hget pre headers_Vary with
  | None => hset pre headers_Vary headers_PreflightVarySgl
  | Some v => hset pre headers_Vary (v ++ [headers_ValueVaryOptions])
  end.

(* the entries the steps after the origin check may put in the buffer *)
Definition step_ok (req : hmap) (acrm : bytes) (dbg : bool) (k : bytes) (v : list bytes) : Prop :=
  (k = h_acapn /\ v = [v_true]) \/
  (k = h_acam /\ (v = [v_star] \/ v = [acrm])) \/
  (k = h_acah /\ (v = [v_star] \/ v = [b "*,authorization"] \/ hget req h_acrh = Some v \/ dbg = true)).

Inductive ext (req : hmap) (acrm : bytes) (dbg : bool) (b0 : hmap) : hmap -> Prop :=
| ext_refl : ext req acrm dbg b0 b0
| ext_step : forall b1 k v,
    ext req acrm dbg b0 b1 -> step_ok req acrm dbg k v -> ext req acrm dbg b0 (hset b1 k v).

Lemma acrpn_ext req acrm dbg b0 buf buf' ok :
  ext req acrm dbg b0 buf -> process_acrpn ic buf req = (buf', ok) -> ext req acrm dbg b0 buf'.
Proof.
  intros He. unfold process_acrpn. names.
  destruct (first req h_acrpn) as [v|]; [|intros H; injection H as <- _; exact He].
  destruct (negb (beqb v v_true)); [intros H; injection H as <- _; exact He|].
  destruct (i_pna ic || i_pna_nocors ic); intros H; injection H as <- _; [|exact He].
  apply ext_step; [exact He|]. left. auto.
Qed.

Lemma acrm_ext req acrm dbg b0 buf buf' ok :
  ext req acrm dbg b0 buf -> process_acrm ic buf acrm = (buf', ok) -> ext req acrm dbg b0 buf'.
Proof.
  intros He. unfold process_acrm. names.
  destruct (method_is_safelisted acrm); [intros H; injection H as <- _; exact He|].
  destruct (i_any_method ic && negb (i_cred ic)).
  { intros H; injection H as <- _. apply ext_step; [exact He|]. right; left. auto. }
  destruct (i_any_method ic || set_contains (i_methods ic) acrm); intros H; injection H as <- _; [|exact He].
  apply ext_step; [exact He|]. right; left. auto.
Qed.

Lemma acrh_ext req acrm dbg b0 buf buf' ok :
  ext req acrm dbg b0 buf -> process_acrh ic buf req dbg = (buf', ok) -> ext req acrm dbg b0 buf'.
Proof.
  intros He. unfold process_acrh. names.
  destruct (hget req h_acrh) as [acrh|] eqn:Eh; [|intros H; injection H as <- _; exact He].
  destruct (i_asterisk_req ic && negb (i_cred ic)).
  { intros H; injection H as <- _. apply ext_step; [exact He|]. right; right. split; [reflexivity|].
    destruct (i_allow_auth ic); auto. }
  destruct (i_asterisk_req ic && i_cred ic).
  { intros H; injection H as <- _. apply ext_step; [exact He|]. right; right. auto. }
  destruct dbg; cbn [negb].
  - destruct (i_acah ic); intros H; injection H as <- _; [|exact He].
    apply ext_step; [exact He|]. right; right. auto 6.
  - destruct (sset_size (i_req_hdrs ic) =? 0); [intros H; injection H as <- _; exact He|].
    destruct (negb (check (i_req_hdrs ic) acrh)); intros H; injection H as <- _; [exact He|].
    apply ext_step; [exact He|]. right; right. auto.
Qed.

Lemma handle_preflight_shape pre req org acrm dbg h s :
  handle_preflight ic pre req org acrm dbg = (h, s) ->
  (exists b1, process_origin_preflight ic [] org = (b1, false) /\
              h = (if dbg then hcopy (vary_step pre) b1 else vary_step pre) /\ s = 403%Z)
  \/ (exists b1 buf, process_origin_preflight ic [] org = (b1, true) /\ ext req acrm dbg b1 buf /\
       ((dbg = false /\ h = vary_step pre /\ s = 403%Z) \/
        (s = success_status ic /\
         (h = hcopy (vary_step pre) buf \/
          exists v, i_acma ic = Some v /\ h = hset (hcopy (vary_step pre) buf) h_acma [v])))).
Proof.
  unfold handle_preflight. cbv zeta. fold (vary_step pre).
  destruct (process_origin_preflight ic [] org) as [b1 [|]] eqn:E1.
  2:{ intros H. injection H as <- <-. left. exists b1. auto. }
  intros H. right. exists b1.
  destruct (process_acrpn ic b1 req) as [b2 [|]] eqn:E2.
  2:{ exists b2. split; [reflexivity|]. split; [eapply acrpn_ext; [apply ext_refl|exact E2]|].
      destruct dbg; injection H as <- <-; auto. }
  pose proof (acrpn_ext req acrm dbg _ _ _ _ (ext_refl _ _ _ _) E2) as X2.
  destruct (process_acrm ic b2 acrm) as [b3 [|]] eqn:E3.
  2:{ exists b3. split; [reflexivity|]. split; [eapply acrm_ext; eassumption|].
      destruct dbg; injection H as <- <-; auto. }
  pose proof (acrm_ext _ _ _ _ _ _ _ X2 E3) as X3.
  destruct (process_acrh ic b3 req dbg) as [b4 [|]] eqn:E4.
  2:{ exists b4. split; [reflexivity|]. split; [eapply acrh_ext; eassumption|].
      destruct dbg; injection H as <- <-; auto. }
  pose proof (acrh_ext _ _ _ _ _ _ _ X3 E4) as X4.
  exists b4. split; [reflexivity|]. split; [exact X4|]. right.
  injection H as <- <-. split; [reflexivity|]. names.
  destruct (i_acma ic) as [v|]; [right; exists v; auto|left; reflexivity].
Qed.

(* ---- the origin step on the empty buffer ---- *)

Lemma origin_stage_fail org b1 : process_origin_preflight ic [] org = (b1, false) -> b1 = [].
Proof.
  unfold process_origin_preflight. destruct (parse org) as [o|]; [|intros H; injection H as <-; reflexivity].
  destruct (negb (i_cred ic) && tree_is_empty (i_tree ic)); [discriminate|].
  destruct (negb (tree_contains (i_tree ic) o)); [intros H; injection H as <-; reflexivity|].
  discriminate.
Qed.

Lemma origin_stage_ok org b1 :
  process_origin_preflight ic [] org = (b1, true) ->
  (b1 = hset [] h_acao [v_star] /\ lists_star (c_origins c) = true /\ c_credentialed c = false)
  \/ (exists o, parse org = Some o /\ negb (i_cred ic) && tree_is_empty (i_tree ic) = false /\
                tree_contains (i_tree ic) o = true /\
        ((c_credentialed c = false /\ b1 = hset [] h_acao [org]) \/
         (c_credentialed c = true /\ b1 = hset (hset [] h_acao [org]) h_acac [v_true]))).
Proof.
  unfold process_origin_preflight. names. destruct (parse org) as [o|]; [|discriminate].
  destruct (negb (i_cred ic) && tree_is_empty (i_tree ic)) eqn:Ew.
  { intros H; injection H as <-. left. split; [reflexivity|]. apply wild_branch, Ew. }
  destruct (tree_contains (i_tree ic) o) eqn:Ht; cbn [negb]; [|discriminate].
  intros H; injection H as <-. right. exists o. repeat split; try assumption.
  rewrite (rel_cred _ _ _ _ Hrel). destruct (c_credentialed c); auto.
Qed.

(* ---- what holds of every buffer the later steps can produce ---- *)

Definition buf_keys : list bytes := [h_acao; h_acac; h_acam; h_acah; h_acapn].

Definition val16 (req : hmap) (org acrm : bytes) (k : bytes) (vs : list bytes) : Prop :=
  (k = h_acao -> vs = [v_star] \/ vs = [org]) /\
  (k = h_acac -> vs = [v_true]) /\
  (k = h_acapn -> vs = [v_true]) /\
  (k = h_acam -> vs = [v_star] \/ vs = [acrm]) /\
  (k = h_acah -> vs = [v_star] \/ vs = [b "*,authorization"] \/ hget req h_acrh = Some vs).

Record binv (req : hmap) (org acrm : bytes) (dbg : bool) (b1 buf : hmap) : Prop := {
  bi_nodup : NoDup (map fst buf);
  bi_keys : forall k, mem k buf_keys = false -> hget buf k = None;
  bi_acao : hget buf h_acao = hget b1 h_acao;
  bi_acac : hget buf h_acac = hget b1 h_acac;
  bi_vals : dbg = false -> forall k vs, hget buf k = Some vs -> val16 req org acrm k vs
}.

Ltac nm_absurd := let E := fresh "E" in intros E; exfalso; revert E; apply beqb_neq; reflexivity.

Lemma binv_ext req org acrm dbg b1 buf :
  binv req org acrm dbg b1 b1 -> ext req acrm dbg b1 buf -> binv req org acrm dbg b1 buf.
Proof.
  intros H0 He. induction He as [|b2 k v He IH Hs]; [exact H0|].
  assert (Hk : mem k buf_keys = true /\ beqb h_acao k = false /\ beqb h_acac k = false).
  { destruct Hs as [[-> _]|[[-> _]|[-> _]]]; repeat split; reflexivity. }
  destruct Hk as [Hk [Ka Kc]]. destruct IH as [I1 I2 I3 I4 I5]. constructor.
  - apply NoDup_hset, I1.
  - intros k' Hk'. rewrite hget_hset_neq; [apply I2, Hk'|]. eapply mem_false_neq; eassumption.
  - rewrite hget_hset_neq by exact Ka. exact I3.
  - rewrite hget_hset_neq by exact Kc. exact I4.
  - intros Hd k' vs. rewrite hget_hset. destruct (beqb k' k) eqn:E; [|apply I5, Hd].
    apply RadixP.beqb_eq in E. subst k'. intros Hv; injection Hv as <-. subst dbg.
    destruct Hs as [[-> ->]|[[-> Hv]|[-> Hv]]]; unfold val16; repeat split; try nm_absurd; intros _; auto.
    destruct Hv as [Hv|[Hv|[Hv|Hv]]]; auto. discriminate.
Qed.

Lemma origin_stage_binv req org acrm dbg b1 :
  process_origin_preflight ic [] org = (b1, true) -> binv req org acrm dbg b1 b1.
Proof.
  intros H. apply origin_stage_ok in H.
  assert (Hx : exists v, b1 = hset [] h_acao [v] /\ (v = v_star \/ v = org) \/
                         b1 = hset (hset [] h_acao [org]) h_acac [v_true]).
  { destruct H as [[-> _]|[o [_ [_ [_ [[_ ->]|[_ ->]]]]]]];
      [exists v_star; auto | exists org; auto | exists org; auto]. }
  clear H. destruct Hx as [v [[-> Hv]| ->]].
  - constructor; try reflexivity.
    + apply NoDup_hset. constructor.
    + intros k Hk. rewrite hget_hset_neq; [reflexivity|].
      eapply mem_false_neq; [|exact Hk]. reflexivity.
    + intros _ k vs. rewrite hget_hset. destruct (beqb k h_acao) eqn:E; [|discriminate].
      apply RadixP.beqb_eq in E. subst k. intros Hvs; injection Hvs as <-.
      unfold val16; repeat split; try nm_absurd. intros _. destruct Hv as [-> | ->]; auto.
  - constructor; try reflexivity.
    + apply NoDup_hset, NoDup_hset. constructor.
    + intros k Hk. rewrite !hget_hset_neq; [reflexivity| |];
        (eapply mem_false_neq; [|exact Hk]; reflexivity).
    + intros _ k vs. rewrite !hget_hset. destruct (beqb k h_acac) eqn:E.
      * apply RadixP.beqb_eq in E. subst k. intros Hvs; injection Hvs as <-.
        unfold val16; repeat split; nm_absurd.
      * destruct (beqb k h_acao) eqn:E'; [|discriminate].
        apply RadixP.beqb_eq in E'. subst k. intros Hvs; injection Hvs as <-.
        unfold val16; repeat split; try nm_absurd. auto.
Qed.

Lemma buf_keys_sub k : mem k (h_vary :: grant_names) = false -> mem k buf_keys = false.
Proof.
  unfold grant_names, buf_keys. cbn [mem]. rewrite !orb_false_iff. tauto.
Qed.

Lemma buf_keys_grant k : mem k buf_keys = true -> mem k grant_names = true.
Proof.
  unfold grant_names, buf_keys. cbn [mem]. rewrite !orb_true_iff. tauto.
Qed.

Lemma vary_step_get pre k : beqb k h_vary = false -> hget (vary_step pre) k = hget pre k.
Proof. intros H. unfold vary_step. names. destruct (hget pre h_vary); apply hget_hset_neq, H. Qed.

Lemma vary_step_free pre : cors_free pre -> cors_free (vary_step pre).
Proof. intros H k Hk. rewrite vary_step_get by (apply grant_not_vary, Hk). apply H, Hk. Qed.

(* on the grant names, the response after maps.Copy shows exactly the buffer *)
Lemma hcopy_view pre buf k :
  cors_free pre -> NoDup (map fst buf) -> mem k grant_names = true ->
  hget (hcopy (vary_step pre) buf) k = hget buf k.
Proof.
  intros Hf Hd Hk. rewrite hget_hcopy by exact Hd. destruct (hget buf k); [reflexivity|].
  apply vary_step_free; assumption.
Qed.

(* ---- C03 on preflight responses ---- *)

Lemma origin_stage_view r org b1 :
  Forall valid_pattern pats -> first (r_hdrs r) h_origin = Some org ->
  process_origin_preflight ic [] org = (b1, true) ->
  origin_view c pats r (hget b1 h_acao) (hget b1 h_acac) /\
  lists_star (c_origins c) || org_allowed pats r = true.
Proof.
  intros Hv Ho H. apply origin_stage_ok in H.
  destruct H as [[-> [Hs Hc]]|[o [Hp [Hw [Ht Hb]]]]].
  - split; [|rewrite Hs; reflexivity]. right; left. auto.
  - pose proof (lookup_allowed _ _ Hv Hp Hw Ht) as Hal. split.
    + right; right. exists org. destruct Hb as [[Hc ->]|[Hc ->]].
      * repeat split; auto.
      * rewrite hget_hset_neq by reflexivity. rewrite !hget_hset_eq. repeat split; auto.
    + unfold org_allowed. rewrite Ho, Hal. apply orb_true_r.
Qed.

Lemma c03_preflight r pre org acrm dbg h s :
  Forall valid_pattern pats -> cors_free pre -> first (r_hdrs r) h_origin = Some org ->
  handle_preflight ic pre (r_hdrs r) org acrm dbg = (h, s) ->
  c03_ok c pats r {| o_hdrs := h; o_status := Some s; o_delegated := false |} = true.
Proof.
  intros Hv Hf Ho H. apply handle_preflight_shape in H.
  pose proof (vary_step_free _ Hf) as Hf1.
  destruct H as [[b1 [H1 [-> _]]]|[b1 [buf [H1 [He H]]]]].
  { apply origin_stage_fail in H1. subst b1. rewrite hcopy_nil. destruct dbg; apply c03_none, Hf1. }
  destruct H as [[_ [-> _]]|[_ H]]; [apply c03_none, Hf1|].
  destruct (origin_stage_view r _ _ Hv Ho H1) as [Hov Hal].
  pose proof (binv_ext _ _ _ _ _ _ (origin_stage_binv (r_hdrs r) org acrm dbg _ H1) He) as [I1 I2 I3 I4 _].
  rewrite <- I3, <- I4 in Hov.
  destruct H as [->|[v [Hma ->]]].
  - apply c03_intro.
    + rewrite !hcopy_view by (assumption || reflexivity). exact Hov.
    + rewrite Hal. discriminate.
    + discriminate.
    + intros _. rewrite hcopy_view by (assumption || reflexivity). apply I2. reflexivity.
    + intros vs. rewrite hcopy_view by (assumption || reflexivity). rewrite I2 by reflexivity. discriminate.
    + intros vs. rewrite hcopy_view by (assumption || reflexivity). rewrite I2 by reflexivity. discriminate.
  - apply c03_intro.
    + rewrite !hget_hset_neq by reflexivity. rewrite !hcopy_view by (assumption || reflexivity). exact Hov.
    + rewrite Hal. discriminate.
    + discriminate.
    + intros _. rewrite hget_hset_neq by reflexivity.
      rewrite hcopy_view by (assumption || reflexivity). apply I2. reflexivity.
    + intros vs. rewrite hget_hset_eq. intros E; injection E as <-.
      exists v. split; [|reflexivity]. rewrite <- (rel_acma _ _ _ _ Hrel). exact Hma.
    + intros vs. rewrite hget_hset_neq by reflexivity.
      rewrite hcopy_view by (assumption || reflexivity). rewrite I2 by reflexivity. discriminate.
Qed.

Lemma c03_serve dbg r pre :
  Forall valid_pattern pats -> cors_free pre ->
  c03_ok c pats r (serve (Some ic) dbg r pre) = true.
Proof.
  intros Hv Hf. unfold serve. names.
  destruct (first (r_hdrs r) h_origin) as [org|] eqn:Ho; [|apply c03_non_cors; assumption].
  destruct (first (r_hdrs r) h_acrm) as [acrm|] eqn:Hm; [|apply c03_actual; assumption].
  destruct (beqb (r_method r) method_options) eqn:Eo; [|apply c03_actual; assumption].
  destruct (handle_preflight ic pre (r_hdrs r) org acrm dbg) as [h s] eqn:Hp.
  eapply c03_preflight; eassumption.
Qed.

(* ---- C16 ---- *)

Lemma match_403 (A B : bool) (s : Z) : s <> 403%Z -> (match s with 403%Z => A | _ => B end) = B.
Proof.
  intros H. destruct s as [|p|p]; try reflexivity.
  do 9 (destruct p as [p|p|]; try reflexivity). contradiction.
Qed.

Lemma c16_intro r pre h s d :
  s <> 403%Z ->
  same_except (h_vary :: grant_names) pre h = true ->
  (forall vs, hget h h_acao = Some vs ->
     vs = [v_star] \/ exists o, first (r_hdrs r) h_origin = Some o /\ vs = [o]) ->
  (forall vs, hget h h_acac = Some vs -> vs = [v_true]) ->
  (forall vs, hget h h_acapn = Some vs -> vs = [v_true]) ->
  (forall vs, hget h h_acam = Some vs ->
     vs = [v_star] \/ exists m, first (r_hdrs r) h_acrm = Some m /\ vs = [m]) ->
  (forall vs, hget h h_acah = Some vs ->
     vs = [v_star] \/ vs = [b "*,authorization"] \/ hget (r_hdrs r) h_acrh = Some vs) ->
  (forall vs, hget h h_acma = Some vs -> exists v, spec_max_age c = Some v /\ vs = [v]) ->
  hget h h_aceh = None ->
  c16_ok c r pre {| o_hdrs := h; o_status := Some s; o_delegated := d |} = true.
Proof.
  intros Hs Hse Hao Hac Hapn Ham Hah Hma Heh. unfold c16_ok. cbn [o_status o_hdrs].
  rewrite match_403 by exact Hs. rewrite Hse. cbn [andb].
  repeat (apply andb_true_iff; split).
  - destruct (hget h h_acao) as [vs|]; [|reflexivity].
    destruct (Hao _ eq_refl) as [->|[o [-> ->]]]; [reflexivity|].
    rewrite blist_eqb_refl. apply orb_true_r.
  - destruct (hget h h_acac) as [vs|]; [|reflexivity]. rewrite (Hac _ eq_refl). reflexivity.
  - destruct (hget h h_acapn) as [vs|]; [|reflexivity]. rewrite (Hapn _ eq_refl). reflexivity.
  - destruct (hget h h_acam) as [vs|]; [|reflexivity].
    destruct (Ham _ eq_refl) as [->|[o [-> ->]]]; [reflexivity|].
    rewrite blist_eqb_refl. apply orb_true_r.
  - destruct (hget h h_acah) as [vs|]; [|reflexivity].
    destruct (Hah _ eq_refl) as [->|[->| ->]]; try reflexivity.
    cbn [opt_blist_eqb]. rewrite blist_eqb_refl. apply orb_true_r.
  - destruct (hget h h_acma) as [vs|]; [|reflexivity].
    destruct (Hma _ eq_refl) as [v [-> ->]]. apply blist_eqb_refl.
  - unfold present. rewrite Heh. reflexivity.
Qed.

Lemma success_not_403 : success_status ic <> 403%Z.
Proof. unfold success_status. pose proof (rel_status _ _ _ _ Hrel) as [_ H]. lia. Qed.

Lemma SE_vary_step ks pre : hconsistent pre -> mem h_vary ks = true -> SE ks pre (vary_step pre).
Proof.
  intros Hc Hk. unfold vary_step. names.
  destruct (hget pre h_vary); apply SE_hset; try assumption; apply SE_refl, Hc.
Qed.

Lemma c16_preflight r pre org acrm h s :
  hconsistent pre -> cors_free pre ->
  first (r_hdrs r) h_origin = Some org -> first (r_hdrs r) h_acrm = Some acrm ->
  handle_preflight ic pre (r_hdrs r) org acrm false = (h, s) ->
  c16_ok c r pre {| o_hdrs := h; o_status := Some s; o_delegated := false |} = true.
Proof.
  intros Hc Hf Ho Hm H. apply handle_preflight_shape in H.
  assert (Hfail : c16_ok c r pre {| o_hdrs := vary_step pre; o_status := Some 403%Z; o_delegated := false |} = true).
  { change (same_except [h_vary] pre (vary_step pre) = true).
    apply SE_same_except, SE_vary_step; [exact Hc|reflexivity]. }
  destruct H as [[b1 [_ [-> ->]]]|[b1 [buf [H1 [He H]]]]]; [exact Hfail|].
  destruct H as [[_ [-> ->]]|[-> H]]; [exact Hfail|].
  pose proof (binv_ext _ _ _ _ _ _ (origin_stage_binv (r_hdrs r) org acrm false _ H1) He) as [I1 I2 _ _ I5].
  specialize (I5 eq_refl).
  assert (Hse : SE (h_vary :: grant_names) pre (hcopy (vary_step pre) buf)).
  { apply SE_hcopy; [apply SE_vary_step; [exact Hc|reflexivity]|].
    intros k Hk. apply I2, buf_keys_sub, Hk. }
  assert (Hview : forall k, mem k grant_names = true -> hget (hcopy (vary_step pre) buf) k = hget buf k).
  { intros k Hk. apply hcopy_view; assumption. }
  assert (Hgen : forall h', SE (h_vary :: grant_names) pre h' ->
            (forall k, mem k grant_names = true -> beqb k h_acma = false -> hget h' k = hget buf k) ->
            (forall vs, hget h' h_acma = Some vs -> exists v, spec_max_age c = Some v /\ vs = [v]) ->
            c16_ok c r pre {| o_hdrs := h'; o_status := Some (success_status ic); o_delegated := false |} = true).
  { intros h' Hse' Hv' Hma'. apply c16_intro.
    - apply success_not_403.
    - apply SE_same_except, Hse'.
    - intros vs. rewrite Hv' by reflexivity. intros E. destruct (I5 _ _ E) as [X _].
      destruct (X eq_refl) as [->| ->]; [left; reflexivity|right; exists org; auto].
    - intros vs. rewrite Hv' by reflexivity. intros E. destruct (I5 _ _ E) as [_ [X _]]. exact (X eq_refl).
    - intros vs. rewrite Hv' by reflexivity. intros E. destruct (I5 _ _ E) as [_ [_ [X _]]]. exact (X eq_refl).
    - intros vs. rewrite Hv' by reflexivity. intros E. destruct (I5 _ _ E) as [_ [_ [_ [X _]]]].
      destruct (X eq_refl) as [->| ->]; [left; reflexivity|right; exists acrm; auto].
    - intros vs. rewrite Hv' by reflexivity. intros E. destruct (I5 _ _ E) as [_ [_ [_ [_ X]]]].
      exact (X eq_refl).
    - exact Hma'.
    - rewrite Hv' by reflexivity. apply I2. reflexivity. }
  destruct H as [->|[v [Hma ->]]].
  - apply Hgen; [exact Hse| |].
    + intros k Hk _. apply Hview, Hk.
    + intros vs. rewrite Hview by reflexivity. rewrite I2 by reflexivity. discriminate.
  - apply Hgen.
    + apply SE_hset; [exact Hse|reflexivity].
    + intros k Hk Hk'. rewrite hget_hset_neq by exact Hk'. apply Hview, Hk.
    + intros vs. rewrite hget_hset_eq. intros E; injection E as <-.
      exists v. split; [|reflexivity]. rewrite <- (rel_acma _ _ _ _ Hrel). exact Hma.
Qed.

Lemma c16_serve r pre :
  hconsistent pre -> cors_free pre -> is_preflight r = true ->
  c16_ok c r pre (serve (Some ic) false r pre) = true.
Proof.
  intros Hc Hf Hp. unfold is_preflight in Hp. apply andb_true_iff in Hp. destruct Hp as [Hm Hp].
  unfold serve. names. change method_options with m_options. rewrite Hm.
  destruct (first (r_hdrs r) h_origin) as [org|] eqn:Ho; [|discriminate].
  destruct (first (r_hdrs r) h_acrm) as [acrm|] eqn:Ha; [|discriminate].
  destruct (handle_preflight ic pre (r_hdrs r) org acrm false) as [h s] eqn:E.
  eapply c16_preflight; eassumption.
Qed.

End Serve.

(* ------------------------------------------------------------------------------------------ *)
(* 6. the two properties                                                                       *)

Lemma c03_holds : forall ace ip6 c ic dbg r pre,
  icfg_rel ace ip6 c ic -> Forall valid_pattern (cfg_patterns ace ip6 c) -> cors_free pre ->
  c03_ok c (cfg_patterns ace ip6 c) r (serve (Some ic) dbg r pre) = true.
Proof. intros. apply c03_serve; assumption. Qed.

(* [same_except] compares ENTRIES, so it is not even reflexive on an association list that binds a
   key twice with different values; a Go map cannot: hence the distinct-keys hypothesis *)
Lemma c16_holds_consistent : forall ace ip6 c ic r pre,
  icfg_rel ace ip6 c ic -> hconsistent pre -> cors_free pre -> is_preflight r = true ->
  c16_ok c r pre (serve (Some ic) false r pre) = true.
Proof. intros. eapply c16_serve; eassumption. Qed.

Lemma c16_holds : forall ace ip6 c ic r pre,
  icfg_rel ace ip6 c ic -> NoDup (map fst pre) -> cors_free pre -> is_preflight r = true ->
  c16_ok c r pre (serve (Some ic) false r pre) = true.
Proof. intros. eapply c16_serve; try eassumption. apply NoDup_hconsistent. assumption. Qed.

(* ------------------------------------------------------------------------------------------ *)
(* 7. [cors_free] as a boolean on entries (the form the test driver evaluates)                 *)

Definition cors_freeb (m : hmap) : bool :=
  forallb (fun kv => negb (mem (fst kv) (h_vary :: grant_names)) || beqb (fst kv) h_vary) m.

Lemma hget_none_notin m k : hget m k = None -> ~ In k (map fst m).
Proof.
  induction m as [|[k0 v0] m IH]; cbn [hget map fst]; intros H; [intros []|].
  destruct (beqb k k0) eqn:E; [discriminate|]. intros [Hin|Hin].
  - subst k0. rewrite RadixP.beqb_refl in E. discriminate.
  - exact (IH H Hin).
Qed.

Lemma cors_freeb_spec m : cors_freeb m = true <-> cors_free m.
Proof.
  unfold cors_freeb, cors_free. rewrite forallb_forall. split.
  - intros H k Hk. apply hget_notin. intros Hin. apply in_map_iff in Hin.
    destruct Hin as [[k' v] [E Hin]]. cbn [fst] in E. subst k'.
    specialize (H _ Hin). cbn [fst mem] in H. rewrite Hk, (grant_not_vary _ Hk) in H. discriminate.
  - intros H [k v] Hin. cbn [fst mem].
    destruct (beqb k h_vary) eqn:E; [reflexivity|]. cbn [orb].
    destruct (mem k grant_names) eqn:Ek; [|reflexivity].
    exfalso. apply (hget_none_notin _ _ (H _ Ek)). apply in_map_iff. exists (k, v). auto.
Qed.
