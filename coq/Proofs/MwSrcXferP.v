(* Proofs/MwSrcXferP.v -- the request-level theorems restated for [go_serve], the function that tools/genmw
   generates from middleware.go on every run: each one is the corresponding theorem about the hand-written
   [serve], transported along [go_serve_eq]. *)
Require Import Base.Bytes Gen.Tables.
Require Import Model.Util Model.Headers Model.Methods Model.Origins Model.Netip Model.Pattern Model.Radix
  Model.CfgErrors Model.Config Model.Serve Model.MwRt Model.Prov Gen.MwSrc.
Require Import Spec.Origins Spec.Wire Spec.ConfigDoc Spec.AcrhList Spec.Fetch.
Require Import Proofs.RadixP Proofs.HeadersP Proofs.Rel Proofs.FetchP Proofs.ServeP Proofs.DispatchP Proofs.DispatchRelP
  Proofs.ProvP Proofs.ComposeP Proofs.Compose2P Proofs.MwSrcP.

Lemma go_c02_accepted : forall ace ip6 psl c ic i lines dbg,
  new_internal_config ace ip6 psl c = inl ic -> wf_intent i -> perturb (in_headers i) lines ->
  (lists_star (c_origins c) = true -> needs_preflight i = true -> parse (in_origin i) <> None) ->
  browser_verdict i (go_serve (Some ic) dbg (preflight_request i lines) [])
                    (go_serve (Some ic) dbg (actual_request i) []) = permits c (cfg_patterns ace ip6 c) i.
Proof. intros. rewrite !go_serve_eq. eapply c02_accepted; eassumption. Qed.

Lemma go_c03_accepted : forall ace ip6 psl c ic dbg r pre,
  new_internal_config ace ip6 psl c = inl ic -> cors_free pre ->
  c03_ok c (cfg_patterns ace ip6 c) r (go_serve (Some ic) dbg r pre) = true.
Proof. intros. rewrite go_serve_eq. eapply c03_accepted; eassumption. Qed.

Lemma go_debug_only_affects_preflights : forall st r pre, is_preflight r = false ->
  go_serve st true r pre = go_serve st false r pre.
Proof. intros. rewrite !go_serve_eq. apply debug_only_affects_preflights; assumption. Qed.

Lemma go_c09_diag_accepted : forall ace ip6 psl c ic r pre,
  new_internal_config ace ip6 psl c = inl ic -> is_preflight r = true ->
  o_status (go_serve (Some ic) false r pre) <> Some 403%Z ->
  o_status (go_serve (Some ic) true r pre) = o_status (go_serve (Some ic) false r pre) /\
  forall k, beqb k headers_ACAH = false ->
    hget (o_hdrs (go_serve (Some ic) true r pre)) k = hget (o_hdrs (go_serve (Some ic) false r pre)) k.
Proof. intros ace ip6 psl c ic r pre Hacc Hpf. rewrite !go_serve_eq. eapply c09_diag_accepted; eassumption. Qed.

Lemma go_c10_accepted : forall ace ip6 psl c ic dbg r1 r2 pre,
  new_internal_config ace ip6 psl c = inl ic -> NoDup (map fst pre) ->
  c10_ok r1 r2 (go_serve (Some ic) dbg r1 pre) (go_serve (Some ic) dbg r2 pre) = true.
Proof. intros. rewrite !go_serve_eq. eapply c10_accepted; eassumption. Qed.

Lemma go_request_fields_read : forall st dbg r1 r2 pre,
  r_method r1 = r_method r2 ->
  hget (r_hdrs r1) headers_Origin = hget (r_hdrs r2) headers_Origin ->
  hget (r_hdrs r1) headers_ACRM = hget (r_hdrs r2) headers_ACRM ->
  hget (r_hdrs r1) headers_ACRH = hget (r_hdrs r2) headers_ACRH ->
  hget (r_hdrs r1) headers_ACRPN = hget (r_hdrs r2) headers_ACRPN ->
  go_serve st dbg r1 pre = go_serve st dbg r2 pre.
Proof. intros. rewrite !go_serve_eq. apply serve_ext; assumption. Qed.

Lemma go_c11_dispatch : forall ic dbg r pre, NoDup (map fst pre) ->
  c11_ok true r pre (go_serve (Some ic) dbg r pre) = true.
Proof. intros. rewrite go_serve_eq. apply c11_dispatch; assumption. Qed.

Lemma go_serve_passthrough : forall dbg r pre,
  go_serve None dbg r pre = {| o_hdrs := pre; o_status := None; o_delegated := true |}.
Proof. intros. rewrite go_serve_eq. apply serve_passthrough. Qed.

Lemma go_serve_delegated : forall ic dbg r pre,
  o_delegated (go_serve (Some ic) dbg r pre) = negb (is_preflight r).
Proof. intros. rewrite go_serve_eq. apply serve_delegated. Qed.

Lemma go_serve_frame : forall st dbg r pre k, mem k preflight_names = false ->
  hget (o_hdrs (go_serve st dbg r pre)) k = hget pre k.
Proof. intros. rewrite go_serve_eq. apply serve_frame; assumption. Qed.

Lemma go_prov_accounts_for_every_write : forall st dbg r pre,
  snd (pserve st dbg r pre) = o_delegated (go_serve st dbg r pre) /\
  forall k, ~ In k (map fst (fst (pserve st dbg r pre))) ->
            hget (o_hdrs (go_serve st dbg r pre)) k = hget pre k.
Proof. intros. rewrite go_serve_eq. apply prov_accounts_for_every_write. Qed.

Lemma go_c16_accepted : forall ace ip6 psl c ic r pre,
  new_internal_config ace ip6 psl c = inl ic -> NoDup (map fst pre) -> cors_free pre -> is_preflight r = true ->
  c16_ok c r pre (go_serve (Some ic) false r pre) = true.
Proof. intros. rewrite go_serve_eq. eapply c16_accepted; eassumption. Qed.
