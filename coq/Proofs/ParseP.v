(* Proofs/ParseP.v -- port ranges established by the two parsers (hypotheses of C01) *)
Require Import Base.Bytes Gen.Tables Model.Origins Model.Netip Model.Pattern Proofs.RadixP.
From Coq Require Import ZifyBool.
Open Scope Z_scope.

Lemma parse_port_range s p rest : parse_port s = Some (p, rest) -> 0 <= p <= 65535.
Proof.
  unfold parse_port. destruct s as [|c r]; [discriminate|].
  destruct (in_set origins_nonzeroDigits c); [|discriminate].
  destruct (port_loop r _ _) as [q rest'].
  destruct ((q <? 0) || (origins_maxUint16 <? q)) eqn:E; [discriminate|].
  intros H; inversion H; subst. unfold origins_maxUint16 in E. lia.
Qed.

Lemma parse_valid_origin s o : parse s = Some o -> valid_origin o.
Proof.
  unfold parse, valid_origin.
  destruct (origins_Parse_maxOriginLen <? Z.of_nat (length s)); [discriminate|].
  destruct (parse_scheme s) as [[sch s1]|]; [|discriminate].
  destruct (cut_prefix origins_schemeHostSep s1) as [s2|]; [|discriminate].
  destruct (fast_parse_host s2) as [[h s3]|]; [|discriminate].
  destruct s3 as [|c s3'].
  - intros H; inversion H; subst; simpl; lia.
  - destruct (cut_prefix [host_port_sep] (c :: s3')) as [s4|]; [|discriminate].
    destruct (parse_port s4) as [[p rest]|] eqn:E; [|discriminate].
    destruct rest; [|discriminate].
    intros H; inversion H; subst; simpl. apply parse_port_range in E. lia.
Qed.

Lemma parse_port_pattern_range s p rest : parse_port_pattern s = Some (p, rest) -> 0 <= p <= 65536.
Proof.
  unfold parse_port_pattern. destruct (cut_prefix origins_portWildcard s).
  - intros H; inversion H; subst. unfold origins_wildcardPort. lia.
  - intros H. apply parse_port_range in H. lia.
Qed.

Lemma parse_pattern_valid ace ip6 raw p : parse_pattern ace ip6 raw = inl p -> valid_pattern p.
Proof.
  unfold parse_pattern, valid_pattern.
  destruct (beqb raw lit_star || beqb raw lit_null); [discriminate|].
  destruct (parse_scheme raw) as [[sch s1]|]; [|discriminate].
  destruct (beqb sch lit_file); [discriminate|].
  destruct (cut_prefix origins_schemeHostSep s1) as [s2|]; [|discriminate].
  destruct (parse_host_pattern ace ip6 s2) as [[[value k] s3]|r]; [|discriminate].
  destruct (is_ip_kind k && beqb sch origins_schemeHTTPS); [discriminate|].
  destruct s3 as [|c s3'].
  - intros H; inversion H; subst; simpl; lia.
  - destruct (cut_prefix [host_port_sep] (c :: s3')) as [s4|]; [|discriminate].
    destruct (parse_port_pattern s4) as [[q rest]|] eqn:E; [|discriminate].
    destruct rest; [|discriminate].
    destruct (is_default_port sch q); [discriminate|].
    intros H; inversion H; subst; simpl. apply parse_port_pattern_range in E. lia.
Qed.
