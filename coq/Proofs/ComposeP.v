(* Proofs/ComposeP.v -- the request-level theorems, stated for configurations ACCEPTED BY
   VALIDATION: composition of [accepted_rel] (Proofs/ConfigP.v) with the lemmas that take the
   characterisation [icfg_rel] as a hypothesis. *)
Require Import Base.Bytes Gen.Tables.
Require Import Model.Util Model.Headers Model.Origins Model.Netip Model.Pattern Model.Radix Model.Config Model.Serve.
Require Import Spec.Origins Spec.Wire Spec.ConfigDoc.
Require Import Proofs.RadixP Proofs.Rel Proofs.ConfigP Proofs.ServeP Proofs.DispatchP Proofs.DispatchRelP.
Open Scope N_scope.

Lemma c03_accepted : forall ace ip6 psl c ic dbg r pre,
  new_internal_config ace ip6 psl c = inl ic -> cors_free pre ->
  c03_ok c (cfg_patterns ace ip6 c) r (serve (Some ic) dbg r pre) = true.
Proof.
  intros ace ip6 psl c ic dbg r pre Hacc Hfree.
  apply c03_holds; [eapply accepted_rel; exact Hacc | apply accepted_patterns_valid | exact Hfree].
Qed.

Lemma c16_accepted : forall ace ip6 psl c ic r pre,
  new_internal_config ace ip6 psl c = inl ic -> NoDup (map fst pre) -> cors_free pre -> is_preflight r = true ->
  c16_ok c r pre (serve (Some ic) false r pre) = true.
Proof.
  intros ace ip6 psl c ic r pre Hacc Hnd Hfree Hpf.
  apply (c16_holds ace ip6); [eapply accepted_rel; exact Hacc | exact Hnd | exact Hfree | exact Hpf].
Qed.

Lemma accepted_tree_cred_ok : forall ace ip6 psl c ic,
  new_internal_config ace ip6 psl c = inl ic -> tree_cred_ok (Some ic).
Proof. intros ace ip6 psl c ic Hacc. eapply rel_tree_cred_ok. eapply accepted_rel. exact Hacc. Qed.

Lemma accepted_acah_rendered : forall ace ip6 psl c ic,
  new_internal_config ace ip6 psl c = inl ic -> acah_rendered ic.
Proof. intros ace ip6 psl c ic Hacc. eapply rel_acah_rendered. eapply accepted_rel. exact Hacc. Qed.

Lemma c10_accepted : forall ace ip6 psl c ic dbg r1 r2 pre,
  new_internal_config ace ip6 psl c = inl ic -> NoDup (map fst pre) ->
  c10_ok r1 r2 (serve (Some ic) dbg r1 pre) (serve (Some ic) dbg r2 pre) = true.
Proof.
  intros ace ip6 psl c ic dbg r1 r2 pre Hacc Hnd.
  apply c10_vary_sufficient; [exact Hnd | eapply accepted_tree_cred_ok; exact Hacc].
Qed.

Lemma c10_accepted_eq : forall ace ip6 psl c ic dbg r1 r2 pre,
  new_internal_config ace ip6 psl c = inl ic ->
  beqb (r_method r1) (r_method r2) = true ->
  forallb (agree_on r1 r2) (vary_names (o_hdrs (serve (Some ic) dbg r1 pre))) = true ->
  serve (Some ic) dbg r1 pre = serve (Some ic) dbg r2 pre.
Proof.
  intros ace ip6 psl c ic dbg r1 r2 pre Hacc. apply c10_vary_sufficient_eq. eapply accepted_tree_cred_ok; exact Hacc.
Qed.

Lemma c09_diag_accepted : forall ace ip6 psl c ic r pre,
  new_internal_config ace ip6 psl c = inl ic -> is_preflight r = true ->
  o_status (serve (Some ic) false r pre) <> Some 403%Z ->
  o_status (serve (Some ic) true r pre) = o_status (serve (Some ic) false r pre) /\
  forall k, beqb k headers_ACAH = false ->
    hget (o_hdrs (serve (Some ic) true r pre)) k = hget (o_hdrs (serve (Some ic) false r pre)) k.
Proof.
  intros ace ip6 psl c ic r pre Hacc. apply debug_keeps_preflight_success. eapply accepted_acah_rendered; exact Hacc.
Qed.

(* C19, count clause: iterating over the error returned by validation yields exactly the violations *)
Require Import Model.CfgErrors Proofs.CfgErrorsP Proofs.ValidateP.
Lemma all_yields_the_violations : forall ace ip6 psl c e,
  new_internal_config ace ip6 psl c = inr e ->
  yielded e (-1) = (violations ace ip6 psl c, 0%Z) /\
  length (fst (yielded e (-1))) = length (violations ace ip6 psl c).
Proof.
  intros ace ip6 psl c e He.
  pose proof (validate_flatten ace ip6 psl c) as H. rewrite He in H. destruct H as [Hf _].
  assert (Hy : yielded e (-1) = (violations ace ip6 psl c, 0%Z)).
  { rewrite yielded_spec by lia. simpl. rewrite Hf. reflexivity. }
  split; [exact Hy | rewrite Hy; reflexivity].
Qed.
