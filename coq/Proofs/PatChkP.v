(* Proofs/PatChkP.v -- the checked translation of internal/origins/pattern.go (Gen/PatChk.v) never sees an
   out-of-range index or slice expression: its flag is true, and its other results are those of Gen/PatSrc.v. *)
Require Import Base.Bytes Gen.Tables Model.Util Model.Headers Model.Origins Model.Netip Model.Idna Model.Pattern
  Model.UtilRt Gen.UtilSrc Model.LoopRt Model.RadixRt Gen.LoopSrc Gen.LoopChk Model.PatRt Gen.PatSrc Gen.PatChk
  Spec.OriginValue Proofs.LoopOriginsP Proofs.PatSrcP Proofs.OriginValueP Proofs.LoopChkP.
Require Proofs.IndexP.   (* not imported: its lemma [slice_ok] would shadow Model.RadixRt.slice_ok *)
From Coq Require Import ZifyBool ZifyNat ZifyN.
Open Scope bool_scope.

(* ---------- facts about the callees ---------- *)

(* the host that fastParseHost returns is no longer than its input *)
Lemma fph_len s h r : fast_parse_host s = Some (h, r) -> (length (hvalue h) <= length s)%nat.
Proof.
  intros H. destruct (fast_parse_host_inv _ _ _ H) as (ht & -> & [(-> & _)|(-> & _)]);
    rewrite ?app_length; cbn [length]; lia.
Qed.

Lemma go_fph_len s h r : go_fastParseHost s = Some (h, r, true) -> (length (hvalue h) <= length s)%nat.
Proof.
  intros H. destruct (go_fastParseHost_eq s) as (r' & _ & E). rewrite E in H. clear E.
  destruct (fast_parse_host s) as [[h0 r0]|] eqn:F; [|discriminate].
  inversion H; subst. exact (fph_len _ _ _ F).
Qed.

Lemma wildcard_prefix_len s : strings_HasPrefix s origins_peekKind_wildcardSeq = true -> (2 <= length s)%nat.
Proof.
  unfold strings_HasPrefix, origins_peekKind_wildcardSeq.
  destruct s as [|x [|y s]]; cbn [has_prefix length]; intros H; lia.
Qed.

(* ---------- small functions ---------- *)

Lemma chk_peekKind_ok s : chk_peekKind s = (go_peekKind s, true).
Proof. unfold chk_peekKind, go_peekKind. cbv zeta. destruct (strings_HasPrefix s _); reflexivity. Qed.

Lemma go_peekKind_len s : go_peekKind s = KSubdomains -> (2 <= length s)%nat.
Proof.
  unfold go_peekKind. cbv zeta. destruct (strings_HasPrefix s _) eqn:E; [|discriminate].
  intros _. exact (wildcard_prefix_len _ E).
Qed.

(* hostOnly slices Value[len("*")+1:] of a wildcard pattern: in range iff the value has two bytes *)
Lemma chk_hostOnly_ok hp : (hp_kind hp = KSubdomains -> (2 <= length (hp_value hp))%nat) ->
  chk_hostOnly hp = (go_hostOnly hp, true).
Proof.
  intros H. unfold chk_hostOnly, go_hostOnly. cbv zeta.
  destruct (hp_kind hp); cbn [pkind_eqb]; try reflexivity.
  specialize (H eq_refl). f_equal. unfold slice_ok, origins_subdomainWildcard. cbn [length]. lia.
Qed.

(* ... and only then *)
Lemma chk_hostOnly_flag hp :
  snd (chk_hostOnly hp) = true <-> (hp_kind hp = KSubdomains -> (2 <= length (hp_value hp))%nat).
Proof.
  split.
  - unfold chk_hostOnly. cbv zeta. intros H Hk. rewrite Hk in H. cbn [pkind_eqb snd] in H.
    unfold slice_ok, origins_subdomainWildcard in H. cbn [length] in H. lia.
  - intros H. rewrite (chk_hostOnly_ok _ H). reflexivity.
Qed.

Lemma chk_IsIP_ok hp : chk_IsIP hp = (go_IsIP hp, true).
Proof. reflexivity. Qed.

Lemma chk_isDefaultPortForScheme_ok sch p : chk_isDefaultPortForScheme sch p = (go_isDefaultPortForScheme sch p, true).
Proof. reflexivity. Qed.

Lemma chk_parsePortPattern_ok (s : bytes) :
  exists p r ok, chk_parsePortPattern s = Some (p, r, ok, true) /\ go_parsePortPattern s = Some (p, r, ok).
Proof.
  unfold chk_parsePortPattern, go_parsePortPattern. cbv zeta.
  destruct (strings_CutPrefix s origins_portWildcard) as [rest [|]].
  - eexists _, _, _. split; reflexivity.
  - destruct (chk_parsePort_ok s) as (p & r & ok & -> & ->). eexists _, _, _. split; reflexivity.
Qed.

(* ---------- parseHostPattern ---------- *)

Section Oracles.
Variable ace_ok : bytes -> bool.
Variable ip6 : bytes -> ipres.

Lemma chk_parseHostPattern_ok_sec (s full : bytes) :
  exists hp r e, chk_parseHostPattern ace_ok ip6 s full = Some (hp, r, e, true) /\
                 go_parseHostPattern ace_ok ip6 s full = Some (hp, r, e).
Proof.
  unfold chk_parseHostPattern, go_parseHostPattern. cbv zeta.
  rewrite chk_peekKind_ok.
  pose proof (go_peekKind_len s) as Hk.
  set (k := go_peekKind s) in *.
  rewrite (chk_hostOnly_ok {| hp_value := s; hp_kind := k |} Hk).
  destruct (chk_fastParseHost_ok (go_hostOnly {| hp_value := s; hp_kind := k |})) as (h & r & ok & -> & E).
  rewrite E.
  destruct ok; cbn [negb]; [|eexists _, _, _; split; reflexivity].
  apply go_fph_len in E. cbn [hp_kind hp_value].
  assert (Hs : slice_ok 0 (if pkind_eqb k KSubdomains
                           then Z.of_nat (length (hvalue h)) + (Z.of_nat (length origins_subdomainWildcard) + 1)
                           else Z.of_nat (length (hvalue h)))%Z (length s) = true).
  { unfold go_hostOnly in E. cbn [hp_kind hp_value] in E. unfold slice_ok.
    destruct (pkind_eqb k KSubdomains) eqn:Hks.
    - assert (Hk' : k = KSubdomains) by (destruct k; try discriminate; reflexivity).
      specialize (Hk Hk'). rewrite skipn_length in E.
      unfold origins_subdomainWildcard in *. cbn [length] in *. lia.
    - lia. }
  destruct (netip_ParseAddr ip6 (hvalue h)) as [v_ip v_err].
  destruct (pkind_eqb k KSubdomains); rewrite Hs; cbn [andb];
  repeat match goal with |- context [if ?c then _ else _] => destruct c end;
  eexists _, _, _; split; reflexivity.
Qed.

End Oracles.

Lemma chk_parseHostPattern_ok ace_ok ip6 (s full : bytes) :
  exists hp r e, chk_parseHostPattern ace_ok ip6 s full = Some (hp, r, e, true) /\
                 go_parseHostPattern ace_ok ip6 s full = Some (hp, r, e).
Proof. exact (chk_parseHostPattern_ok_sec ace_ok ip6 s full). Qed.

(* ---------- ParsePattern ---------- *)

Theorem chk_ParsePattern_ok ace_ok ip6 (s : bytes) :
  exists p e, chk_ParsePattern ace_ok ip6 s = Some (p, e, true) /\ go_ParsePattern ace_ok ip6 s = Some (p, e).
Proof.
  unfold chk_ParsePattern, go_ParsePattern. cbv zeta.
  destruct (beqb s [42%N] || beqb s [110%N; 117%N; 108%N; 108%N]); [eexists _, _; split; reflexivity|].
  destruct (chk_parseScheme_ok s) as (sch & s1 & ok & -> & ->).
  destruct ok; cbn [negb]; [|eexists _, _; split; reflexivity].
  destruct (beqb sch [102%N; 105%N; 108%N; 101%N]); [eexists _, _; split; reflexivity|].
  destruct (strings_CutPrefix s1 origins_schemeHostSep) as [s2 [|]]; cbn [negb];
    [|eexists _, _; split; reflexivity].
  destruct (chk_parseHostPattern_ok ace_ok ip6 s2 s) as (hp & s3 & e & -> & ->).
  destruct (is_some_err e); [eexists _, _; split; reflexivity|].
  rewrite chk_IsIP_ok.
  destruct (go_IsIP hp && beqb sch origins_schemeHTTPS); [eexists _, _; split; reflexivity|].
  destruct (0 <? Z.of_nat (length s3))%Z; [|eexists _, _; split; reflexivity].
  destruct (strings_CutPrefix s3 [Z.to_N origins_hostPortSep]) as [s4 [|]]; cbn [negb];
    [|eexists _, _; split; reflexivity].
  destruct (chk_parsePortPattern_ok s4) as (port & s5 & ok & -> & ->).
  destruct (negb ok || negb (beqb s5 [])); [eexists _, _; split; reflexivity|].
  rewrite chk_isDefaultPortForScheme_ok.
  destruct (go_isDefaultPortForScheme sch port); eexists _, _; split; reflexivity.
Qed.

(* ---------- the methods that take an arbitrary Pattern ---------- *)

(* Pattern.hostOnly slices p.Value[2:] when p.Kind is PatternKindSubdomains: a Pattern literal built by hand with
   that kind and a value shorter than two bytes would make it panic.  This is the condition under which it does not: *)
Definition pat_wf (p : pattern) : Prop := pkind_of p = KSubdomains -> (2 <= length (pvalue p))%nat.

Lemma chk_IsDeemedInsecure_ok (p : pattern) : pat_wf p ->
  chk_IsDeemedInsecure p = (go_IsDeemedInsecure p, true).
Proof.
  intros H. unfold chk_IsDeemedInsecure, go_IsDeemedInsecure. cbv zeta.
  rewrite (chk_hostOnly_ok (hostpat_of p) H).
  destruct (negb (beqb (pscheme p) origins_schemeHTTPS) && negb (pkind_eqb (pkind_of p) KLoopbackIP)); reflexivity.
Qed.

(* the results other than the flag do not depend on the hypothesis *)
Lemma chk_IsDeemedInsecure_fst (p : pattern) : fst (chk_IsDeemedInsecure p) = go_IsDeemedInsecure p.
Proof.
  unfold chk_IsDeemedInsecure, go_IsDeemedInsecure, chk_hostOnly, go_hostOnly. cbv zeta.
  destruct (pkind_eqb (hp_kind (hostpat_of p)) KSubdomains); reflexivity.
Qed.

(* the exact condition: hostOnly is only evaluated when the scheme is not https (a wildcard kind is not a loopback kind) *)
Lemma chk_IsDeemedInsecure_flag (p : pattern) :
  snd (chk_IsDeemedInsecure p) = true <-> (beqb (pscheme p) origins_schemeHTTPS = false -> pat_wf p).
Proof.
  unfold chk_IsDeemedInsecure. cbv zeta.
  pose proof (chk_hostOnly_flag (hostpat_of p)) as Hf. cbn [hostpat_of hp_kind hp_value] in Hf. fold (pat_wf p) in Hf.
  destruct (chk_hostOnly (hostpat_of p)) as [h1 hk1]. cbn [snd] in *.
  destruct (beqb (pscheme p) origins_schemeHTTPS); cbn [negb andb implb].
  - split; [intros _ Hd; discriminate | reflexivity].
  - split.
    + intros H _. destruct (pkind_eqb (pkind_of p) KLoopbackIP) eqn:Hl; cbn [negb implb andb] in H; [|apply Hf; exact H].
      unfold pat_wf. intros Hk. rewrite Hk in Hl. discriminate.
    + intros H. apply Hf in H; [|reflexivity]. rewrite H. destruct (negb _); reflexivity.
Qed.

Lemma chk_HostIsEffectiveTLD_ok psl (p : pattern) : pat_wf p ->
  exists h b, chk_HostIsEffectiveTLD psl p = (h, b, true) /\ go_HostIsEffectiveTLD psl p = (h, b).
Proof.
  intros H. unfold chk_HostIsEffectiveTLD, go_HostIsEffectiveTLD. cbv zeta.
  rewrite (chk_hostOnly_ok (hostpat_of p) H).
  destruct (beqb _ _); eexists _, _; split; reflexivity.
Qed.

Lemma chk_HostIsEffectiveTLD_flag psl (p : pattern) :
  snd (chk_HostIsEffectiveTLD psl p) = true <-> pat_wf p.
Proof.
  unfold chk_HostIsEffectiveTLD. cbv zeta.
  pose proof (chk_hostOnly_flag (hostpat_of p)) as Hf. cbn [hostpat_of hp_kind hp_value] in Hf. fold (pat_wf p) in Hf.
  destruct (chk_hostOnly (hostpat_of p)) as [h1 hk1]. cbn [snd andb] in *.
  destruct (beqb _ _); exact Hf.
Qed.

(* every pattern that ParsePattern returns without error satisfies the condition *)
Lemma parsed_pattern_wf ace_ok ip6 (s : bytes) (p : pattern) :
  go_ParsePattern ace_ok ip6 s = Some (p, None) -> pat_wf p.
Proof.
  rewrite go_ParsePattern_eq. intros H Hk.
  destruct (parse_pattern ace_ok ip6 s) as [p0|r] eqn:E; [|discriminate].
  inversion H; subst p0.
  destruct (IndexP.wildcard_value_has_prefix _ _ _ _ E Hk) as [rest ->]. cbn [length]. lia.
Qed.

Lemma parsed_pattern_wf_chk ace_ok ip6 (s : bytes) (p : pattern) c :
  chk_ParsePattern ace_ok ip6 s = Some (p, None, c) -> pat_wf p.
Proof.
  destruct (chk_ParsePattern_ok ace_ok ip6 s) as (p0 & e & -> & G). intros H. inversion H; subst.
  exact (parsed_pattern_wf _ _ _ _ G).
Qed.

(* so on parsed patterns the two methods never slice out of range *)
Corollary parsed_IsDeemedInsecure_ok ace_ok ip6 s p : go_ParsePattern ace_ok ip6 s = Some (p, None) ->
  chk_IsDeemedInsecure p = (go_IsDeemedInsecure p, true).
Proof. intros H. exact (chk_IsDeemedInsecure_ok p (parsed_pattern_wf _ _ _ _ H)). Qed.

Corollary parsed_HostIsEffectiveTLD_ok ace_ok ip6 psl s p : go_ParsePattern ace_ok ip6 s = Some (p, None) ->
  exists h b, chk_HostIsEffectiveTLD psl p = (h, b, true) /\ go_HostIsEffectiveTLD psl p = (h, b).
Proof. intros H. exact (chk_HostIsEffectiveTLD_ok psl p (parsed_pattern_wf _ _ _ _ H)). Qed.

(* the hypothesis is needed: a hand-made wildcard pattern with a one-byte value *)
Example hostOnly_out_of_range :
  chk_IsDeemedInsecure {| pscheme := [104; 116; 116; 112]%N; pvalue := [42]%N; pkind_of := KSubdomains; pport := 0%Z |}
  = (true, false).
Proof. vm_compute. reflexivity. Qed.

Print Assumptions chk_ParsePattern_ok.
Print Assumptions chk_parseHostPattern_ok.
Print Assumptions chk_parsePortPattern_ok.
Print Assumptions chk_IsDeemedInsecure_ok.
Print Assumptions chk_HostIsEffectiveTLD_ok.
Print Assumptions parsed_pattern_wf.
Print Assumptions parsed_IsDeemedInsecure_ok.
Print Assumptions parsed_HostIsEffectiveTLD_ok.
