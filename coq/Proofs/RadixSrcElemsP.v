(* Proofs/RadixSrcElemsP.v -- the translated Tree.Elems / node.elems / Tree.IsEmpty of Gen/RadixSrc.v
   (generated from internal/origins/radix.go) compute what the hand-written model of Model/Radix.v says, on
   every Go tree that satisfies the invariant [gwf] of Proofs/RadixAbs.v (and, for Elems, whose stored port
   values are not below -65537: the [ents_ok] component of [wf]).
   Main results:
     go_node_elems_eq   : go_node_elems n dst suf = Some (dst ++ node_elems (abs n) (rev suf));
     go_Tree_Elems_eq   : go_Tree_Elems t = Some (tree_elems (abs t));
     go_Tree_IsEmpty_eq : go_Tree_IsEmpty t = tree_is_empty (abs t). *)
Require Import Base.Bytes Gen.Tables Model.Util Model.Headers Model.Origins Model.Pattern Model.Radix.
Require Import Model.UtilRt Model.LoopRt Model.RadixRt Gen.RadixSrc Proofs.RadixP Proofs.RadixAbs.
From Coq Require Import Sorted Lia ZifyBool ZifyNat ZifyN.
Open Scope N_scope.

(* ------------------------------------------------------------------------------------------ *)
(* bytes, membership                                                                           *)

Lemma bcmp_refl x : bcmp x x = Eq.
Proof. induction x as [|a x IH]; simpl; [reflexivity|]. rewrite N.compare_refl. exact IH. Qed.

Lemma bltb_irrefl x : bltb x x = false.
Proof. unfold bltb. rewrite bcmp_refl. reflexivity. Qed.

Lemma In_memZ v l : In v l -> memZ v l = true.
Proof.
  induction l as [|z l IH]; simpl; [intros []|].
  intros [->|H]; [rewrite Z.eqb_refl; reflexivity|]. rewrite (IH H). apply orb_true_r.
Qed.

(* strings.IndexByte answers a non-negative index exactly when the byte occurs *)
Lemma index_byte_from_mem s c : forall i, (0 <= i)%Z -> (0 <=? index_byte_from s c i)%Z = memN c s.
Proof.
  induction s as [|a s IH]; intros i Hi; simpl; [reflexivity|].
  rewrite (N.eqb_sym c a). destruct (a =? c); simpl.
  - apply Z.leb_le. exact Hi.
  - apply IH. lia.
Qed.

Lemma IndexByte_mem s c : (0 <=? strings_IndexByte s c)%Z = memN c s.
Proof. unfold strings_IndexByte. apply index_byte_from_mem. lia. Qed.

(* ------------------------------------------------------------------------------------------ *)
(* the bound on stored ports, from the model invariant                                         *)

Definition port_bound (v : Z) : Prop := (-65537 <= v)%Z.

Lemma ents_find_combine_In sch ss : forall ps r, ents_find sch (combine ss ps) = Some r -> In sch ss.
Proof.
  induction ss as [|s ss IH]; intros [|p ps] r H; simpl in H; try discriminate.
  destruct (beqb sch s) eqn:E.
  - apply beqb_eq in E. left. symmetry. exact E.
  - right. eapply IH. exact H.
Qed.

Lemma ents_ok_bound schemes : forall ports, length schemes = length ports ->
  StronglySorted (fun a c => bltb a c = true) schemes ->
  ents_ok (combine schemes ports) -> Forall (Forall port_bound) ports.
Proof.
  induction schemes as [|s ss IH]; intros [|p ps] Hl Hs Hok; try discriminate; constructor.
  - apply Forall_forall. intros v Hv. apply (Hok s p v).
    + simpl. rewrite beqb_refl. reflexivity.
    + apply In_memZ. exact Hv.
  - inversion Hs as [|s' ss' Hss Hall]; subst.
    apply IH; [simpl in Hl; lia | exact Hss |].
    intros sch ps' v Hf Hm. apply (Hok sch ps' v); [|exact Hm].
    simpl. destruct (beqb sch s) eqn:E; [|exact Hf]. exfalso.
    apply beqb_eq in E. subst sch. apply ents_find_combine_In in Hf.
    rewrite Forall_forall in Hall. specialize (Hall _ Hf). rewrite bltb_irrefl in Hall. discriminate.
Qed.

(* ------------------------------------------------------------------------------------------ *)
(* range loops whose body always continues                                                     *)

Lemma loop_zip_flat {A : Type} (G : list bytes -> Z * A -> ctl (list bytes) (list bytes))
    (F : Z -> A -> list bytes) (l : list A) :
  (forall dst i x, In x l -> G dst (i, x) = Next (dst ++ F i x)) ->
  forall k dst, loop_list (zip_index_from k l) G dst =
                Done (dst ++ flat_map (fun ix => F (fst ix) (snd ix)) (zip_index_from k l)).
Proof.
  induction l as [|x l IH]; intros HG k dst; simpl.
  - rewrite app_nil_r. reflexivity.
  - rewrite (HG dst k x) by (left; reflexivity).
    rewrite IH by (intros d i y Hy; apply HG; right; exact Hy).
    rewrite app_assoc. reflexivity.
Qed.

Lemma flat_map_zip_single {A : Type} (f : A -> bytes) (l : list A) : forall k,
  flat_map (fun ix : Z * A => [f (snd ix)]) (zip_index_from k l) = map f l.
Proof. induction l as [|x l IH]; intros k; simpl; [reflexivity|]. rewrite IH. reflexivity. Qed.

(* `for i, ports := range n.ports { scheme := n.schemes[i] ...`: the parallel slices as one association list *)
Lemma flat_map_zip_combine (F : bytes -> list Z -> list bytes) (all : list bytes) :
  forall (ports : list (list Z)) (schemes : list bytes) (k : nat),
  length schemes = length ports ->
  (forall j, nth (k + j) all [] = nth j schemes []) ->
  flat_map (fun ix : Z * list Z => F (nth (Z.to_nat (fst ix)) all []) (snd ix)) (zip_index_from (Z.of_nat k) ports) =
  flat_map (fun e => F (fst e) (snd e)) (combine schemes ports).
Proof.
  induction ports as [|p ps IH]; intros [|s ss] k Hl Hn; simpl in Hl; try discriminate; [reflexivity|].
  cbn [zip_index_from combine flat_map fst snd]. f_equal.
  - rewrite Nat2Z.id. specialize (Hn O). rewrite Nat.add_0_r in Hn. rewrite Hn. reflexivity.
  - replace (Z.of_nat k + 1)%Z with (Z.of_nat (S k)) by lia.
    apply IH; [lia|]. intros j. specialize (Hn (S j)).
    replace (S k + j)%nat with (k + S j)%nat by lia. exact Hn.
Qed.

Lemma loop_elems_children (E : gnode -> list bytes) (suf : bytes) : forall children,
  Forall (fun ch => forall dst, go_node_elems ch dst suf = Some (dst ++ E ch)) children ->
  forall dst,
  loop_elems (S := list bytes) (R := list bytes)
    (fun v_dst ch => match go_node_elems ch v_dst suf with None => Exh | Some d => Next d end) children dst =
  Done (dst ++ flat_map E children).
Proof.
  induction children as [|ch r IH]; intros HF dst; simpl.
  - rewrite app_nil_r. reflexivity.
  - inversion HF as [|x l Hx Hr]; subst. rewrite Hx. rewrite (IH Hr). rewrite app_assoc. reflexivity.
Qed.

(* the model's walk over the children *)
Lemma kids_elems_flat (tot : bytes) : forall (edges : list N) (children : list gnode),
  length edges = length children ->
  (fix go (ks : list (N * node)) : list bytes :=
     match ks with
     | [] => []
     | (_, ch) :: r => node_elems ch tot ++ go r
     end) (combine edges (map abs children)) =
  flat_map (fun ch => node_elems (abs ch) tot) children.
Proof.
  induction edges as [|e es IH]; intros [|c cs] Hl; simpl in Hl; try discriminate; [reflexivity|].
  cbn [map combine flat_map]. f_equal. apply IH. lia.
Qed.

(* ------------------------------------------------------------------------------------------ *)
(* one rendered element                                                                        *)

Lemma itoa_nonneg z : (0 <= z)%Z -> strconv_Itoa z = itoa (Z.to_N z).
Proof. intros H. unfold strconv_Itoa. destruct (z <? 0)%Z eqn:E; [lia | reflexivity]. Qed.

Lemma elem_body (scheme host : bytes) (dst : list bytes) (v : Z) : port_bound v ->
  (let v_maybeWildcard := ([] : bytes) in
   let '(v_port, v_maybeWildcard) :=
     if (v <? 0)%Z then (let v_maybeWildcard := origins_subdomainWildcard in
                         let v_port := (v + origins_portOffset)%Z in
                         (v_port, v_maybeWildcard)) else ((v, v_maybeWildcard)) in
   let v_s := ([] : bytes) in
   let v_s := if (v_port =? (0)%Z)%Z then (let v_s := (((scheme ++ origins_schemeHostSep) ++ v_maybeWildcard) ++ host) in
     v_s) else (let v_s := if (v_port =? origins_wildcardPort)%Z then (let v_s := (((((scheme ++ origins_schemeHostSep) ++ v_maybeWildcard) ++ host) ++ [(Z.to_N origins_hostPortSep)]) ++ origins_portWildcard) in
       v_s) else (let v_s := (((((scheme ++ origins_schemeHostSep) ++ v_maybeWildcard) ++ host) ++ [(Z.to_N origins_hostPortSep)]) ++ (strconv_Itoa v_port)) in
       v_s) in
     v_s) in
   let v_dst := (dst ++ [v_s]) in
   (Next v_dst : ctl (list bytes) (list bytes))) = Next (dst ++ [render scheme host v]).
Proof.
  unfold port_bound. intros Hb. unfold render, host_port_sep. cbv zeta.
  destruct (v <? 0)%Z eqn:Ev.
  - destruct (v + origins_portOffset =? 0)%Z; [rewrite <- !app_assoc; reflexivity|].
    destruct (v + origins_portOffset =? origins_wildcardPort)%Z; [rewrite <- !app_assoc; reflexivity|].
    rewrite itoa_nonneg by (rewrite off_eq; lia). rewrite <- !app_assoc. reflexivity.
  - destruct (v =? 0)%Z; [rewrite <- !app_assoc; reflexivity|].
    destruct (v =? origins_wildcardPort)%Z; [rewrite <- !app_assoc; reflexivity|].
    rewrite itoa_nonneg by lia. rewrite <- !app_assoc. reflexivity.
Qed.

(* ------------------------------------------------------------------------------------------ *)
(* node.elems                                                                                  *)

Lemma children_hyps (P : gnode -> Prop) : forall (edges : list N) (children : list gnode),
  Forall (fun ch => gwf ch -> wf (abs ch) -> P ch) children ->
  Forall2 (fun l ch => last_byte (g_suf ch) = (l, true) /\ gwf ch) edges children ->
  Forall (fun kv : N * node => wf (snd kv)) (combine edges (map abs children)) ->
  Forall P children.
Proof.
  intros edges children HI H2. revert HI.
  induction H2 as [|e c es cs [_ Hg] _ IH]; intros HI Hw; [constructor|].
  cbn [map combine] in Hw. inversion Hw as [|kv kvs Hw1 Hw2]; subst.
  inversion HI as [|x l Hx Hr]; subst.
  constructor; [apply Hx; [exact Hg | exact Hw1] | apply IH; assumption].
Qed.

Lemma go_node_elems_eq (n : gnode) : gwf n -> wf (abs n) ->
  forall dst suf, go_node_elems n dst suf = Some (dst ++ node_elems (abs n) (rev suf)).
Proof.
  induction n as [nsuf edges children schemes ports IH] using gnode_ind'.
  intros Hg Hw dst suf.
  apply gwf_inv in Hg. destruct Hg as (Hle & Hls & _ & Hss & _ & H2).
  cbn [abs] in Hw. apply wf_inv in Hw. destruct Hw as (Hok & _ & Hkids).
  assert (Hb : Forall (Forall port_bound) ports) by (apply (ents_ok_bound schemes); assumption).
  assert (Hch : Forall (fun ch => forall dst suf, go_node_elems ch dst suf =
                          Some (dst ++ node_elems (abs ch) (rev suf))) children)
    by (apply (children_hyps _ edges); assumption).
  cbn [go_node_elems g_suf g_ports g_schemes g_children abs node_elems].
  rewrite IndexByte_mem. fold host_port_sep.
  rewrite <- rev_app_distr, rev_involutive.
  rewrite <- (app_assoc [91] (nsuf ++ suf) [93]).
  set (host := if memN host_port_sep (nsuf ++ suf) then _ else _). clearbody host.
  unfold zip_index at 1.
  rewrite (loop_zip_flat _ (fun i ps => map (render (nth (Z.to_nat i) schemes []) host) ps)).
  - rewrite (loop_elems_children (fun ch => node_elems (abs ch) (rev (nsuf ++ suf)))).
    + f_equal. rewrite <- app_assoc. f_equal. f_equal.
      * apply (flat_map_zip_combine (fun s ps => map (render s host) ps) schemes ports schemes O Hls).
        intros j. reflexivity.
      * symmetry. apply kids_elems_flat. exact Hle.
    + rewrite Forall_forall in *. intros ch Hin d. apply Hch. exact Hin.
  - intros d i ps Hin. cbv beta iota.
    unfold zip_index.
    rewrite (loop_zip_flat _ (fun _ v => [render (nth (Z.to_nat i) schemes []) host v])).
    + rewrite flat_map_zip_single. reflexivity.
    + intros d' i' v Hv. cbv beta iota. apply elem_body.
      rewrite Forall_forall in Hb. specialize (Hb _ Hin). rewrite Forall_forall in Hb. apply Hb, Hv.
Qed.

(* ------------------------------------------------------------------------------------------ *)
(* Tree.Elems, Tree.IsEmpty                                                                    *)

Theorem go_Tree_Elems_eq (t : gnode) :
  gwf t -> wf (abs t) -> go_Tree_Elems t = Some (tree_elems (abs t)).
Proof.
  intros Hg Hw. unfold go_Tree_Elems. rewrite (go_node_elems_eq t Hg Hw). reflexivity.
Qed.

Theorem go_Tree_IsEmpty_eq (t : gnode) :
  gwf t -> go_Tree_IsEmpty t = tree_is_empty (abs t).
Proof.
  intros Hg. destruct t as [suf edges children schemes ports].
  apply gwf_inv in Hg. destruct Hg as (Hle & Hls & _).
  unfold go_Tree_IsEmpty. cbn [g_schemes g_children abs tree_is_empty].
  destruct schemes as [|s ss], ports as [|p ps]; try discriminate;
    destruct edges as [|e es], children as [|c cs]; try discriminate; reflexivity.
Qed.

(* ------------------------------------------------------------------------------------------ *)
(* the statements on a concrete tree built by the translated Tree.Insert (IPv6 host, wildcard subdomains,
   wildcard port, split nodes), and the role of the port bound                                           *)

Import Coq.Strings.String.StringSyntax. Arguments b _%string_scope.

Definition ex_ins (t : option gnode) (p : pattern) : option gnode :=
  match t with Some t => go_Tree_Insert t p | None => None end.
Definition ex_pats : list pattern :=
  [ {| pscheme := b "https"; pvalue := b "example.com"; pkind_of := KDomain; pport := 0 |};
    {| pscheme := b "http"; pvalue := b "*.example.com"; pkind_of := KSubdomains; pport := 8080 |};
    {| pscheme := b "http"; pvalue := b "example.org"; pkind_of := KDomain; pport := 65536 |};
    {| pscheme := b "https"; pvalue := b "*.foo.com"; pkind_of := KSubdomains; pport := 65536 |};
    {| pscheme := b "http"; pvalue := b "::1"; pkind_of := KLoopbackIP; pport := 90 |};
    {| pscheme := b "http"; pvalue := b "ample.com"; pkind_of := KDomain; pport := 1 |};
    {| pscheme := b "https"; pvalue := b "example.com"; pkind_of := KDomain; pport := 443 |} ].
Definition ex_tree : gnode :=
  match fold_left ex_ins ex_pats (Some zero_gnode) with Some t => t | None => zero_gnode end.

Example ex_tree_elems :
  go_Tree_Elems ex_tree = Some (tree_elems (abs ex_tree)) /\
  tree_elems (abs ex_tree) =
    [ b "http://*.example.com:8080"; b "http://[::1]:90"; b "http://ample.com:1"; b "http://example.org:*";
      b "https://*.foo.com:*"; b "https://example.com"; b "https://example.com:443" ] /\
  go_Tree_IsEmpty ex_tree = false /\ go_Tree_IsEmpty zero_gnode = true.
Proof. vm_compute. repeat split; reflexivity. Qed.

(* without the bound the two sides differ: strconv.Itoa prints a sign, the model clamps at 0 *)
Example port_bound_needed :
  let t := GNode [] [] [] [b "http"] [[(-70000)%Z]] in
  gwf t /\ go_Tree_Elems t = Some [b "http://*:-4463"] /\ tree_elems (abs t) = [b "http://*:0"].
Proof.
  split; [|vm_compute; split; reflexivity].
  constructor; try reflexivity; repeat constructor.
Qed.

Print Assumptions go_Tree_Elems_eq.
Print Assumptions go_Tree_IsEmpty_eq.
