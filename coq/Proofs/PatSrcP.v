(* Proofs/PatSrcP.v -- the Gallina functions generated from internal/origins/pattern.go (Gen/PatSrc.v) compute
   exactly what the hand-written model (Model/Pattern.v) computes, for all inputs and all oracles. *)
Require Import Base.Bytes Gen.Tables Model.Util Model.Origins Model.Netip Model.Idna Model.Pattern Model.UtilRt
  Model.LoopRt Gen.LoopSrc Model.PatRt Gen.PatSrc Proofs.LoopOriginsP.
From Coq Require Import ZifyBool ZifyNat ZifyN.
Open Scope bool_scope.

(* ---------- small functions ---------- *)

Lemma go_peekKind_eq : forall s, go_peekKind s = peek_kind s.
Proof. reflexivity. Qed.

Lemma go_hostOnly_eq : forall v k, go_hostOnly {| hp_value := v; hp_kind := k |} = host_only v k.
Proof. intros v k. destruct k; reflexivity. Qed.

Lemma go_IsIP_eq : forall v k, go_IsIP {| hp_value := v; hp_kind := k |} = is_ip_kind k.
Proof. intros v k. destruct k; reflexivity. Qed.

Lemma go_isDefaultPortForScheme_eq : forall sch p, go_isDefaultPortForScheme sch p = is_default_port sch p.
Proof. reflexivity. Qed.

Lemma go_parsePortPattern_eq : forall s,
  go_parsePortPattern s =
  Some (match parse_port_pattern s with Some (p, rest) => (p, rest, true) | None => (0%Z, s, false) end).
Proof.
  intros s. unfold go_parsePortPattern, parse_port_pattern, strings_CutPrefix. cbv zeta.
  destruct (cut_prefix origins_portWildcard s) as [r|]; [reflexivity|].
  rewrite go_parsePort_eq. reflexivity.
Qed.

(* ---------- parseHostPattern ---------- *)

Lemma maxlen_test : forall n : nat,
  ((origins_maxHostLen - 2)%Z <? Z.of_nat n)%Z = (Z.to_nat origins_maxHostLen - 2 <? n)%nat.
Proof. intros n. unfold origins_maxHostLen. lia. Qed.

Lemma end_sub : forall n : nat,
  Z.to_nat (Z.of_nat n + (Z.of_nat (length origins_subdomainWildcard) + 1))%Z
  = (n + (length origins_subdomainWildcard + 1))%nat.
Proof. intros n. lia. Qed.

Lemma end_dom : forall n : nat, Z.to_nat (Z.of_nat n) = (n + 0)%nat.
Proof. intros n. lia. Qed.

Section Oracles.
Variable ace_ok : bytes -> bool.
Variable ip6 : bytes -> ipres.

(* the common tail of parseHostPattern, after the subdomain-specific checks: IP or domain *)
Lemma host_tail_eq : forall (full value : bytes) (k : pkind) (h : host) (rest : bytes),
  (if assume_ip h
   then
     let '(v_ip, v_err) := netip_ParseAddr ip6 (hvalue h) in
     if is_some_err v_err then Some (zero_hostpat, rest, Some (full, RInvalid))
     else if negb (beqb (ip_Zone v_ip) []) then Some (zero_hostpat, rest, Some (full, RInvalid))
     else if ip_Is4In6 v_ip then Some (zero_hostpat, rest, Some (full, RProhibited))
     else if negb (beqb (ip_String v_ip) (hvalue h)) then Some (zero_hostpat, rest, Some (full, RProhibited))
     else Some (set_hp_value
                  (if ip_IsLoopback v_ip
                   then set_hp_kind {| hp_value := value; hp_kind := k |} KLoopbackIP
                   else set_hp_kind {| hp_value := value; hp_kind := k |} KNonLoopbackIP)
                  (ip_String v_ip), rest, None)
   else
     if is_some_err (idna_ToASCII ace_ok (hvalue h))
     then Some (zero_hostpat, rest, Some (full, RProhibited))
     else Some ({| hp_value := value; hp_kind := k |}, rest, None))
  =
  Some (match (if assume_ip h
               then match parse_addr ip6 (hvalue h) with
                    | IPErr => inr RInvalid
                    | IPZone => inr RInvalid
                    | IP4in6 => inr RProhibited
                    | IPOk canon lb =>
                        if beqb canon (hvalue h)
                        then inl (canon, (if lb then KLoopbackIP else KNonLoopbackIP), rest)
                        else inr RProhibited
                    end
               else if idna_ok ace_ok (hvalue h) then inl (value, k, rest) else inr RProhibited)
        with
        | inl (v, k', r) => ({| hp_value := v; hp_kind := k' |}, r, None)
        | inr r => (zero_hostpat, rest, Some (full, r))
        end).
Proof.
  intros full value k h rest.
  destruct (assume_ip h).
  - unfold netip_ParseAddr. cbv zeta.
    destruct (parse_addr ip6 (hvalue h)) as [| | |canon lb]; try reflexivity.
    cbn [is_some_err ip_Zone ip_Is4In6 ip_String ip_IsLoopback].
    replace (beqb [] []) with true by reflexivity. cbn [negb].
    destruct (beqb canon (hvalue h)); cbn [negb]; [|reflexivity].
    destruct lb; reflexivity.
  - unfold idna_ToASCII. destruct (idna_ok ace_ok (hvalue h)); reflexivity.
Qed.

Lemma go_parseHostPattern_eq : forall s full, exists rest',
  go_parseHostPattern ace_ok ip6 s full =
  Some (match parse_host_pattern ace_ok ip6 s with
        | inl (value, k, rest) => ({| hp_value := value; hp_kind := k |}, rest, None)
        | inr r => (zero_hostpat, rest', Some (full, r))
        end).
Proof.
  intros s full.
  unfold go_parseHostPattern, parse_host_pattern. cbv zeta.
  rewrite go_hostOnly_eq, go_peekKind_eq.
  destruct (go_fastParseHost_eq (host_only s (peek_kind s))) as [r0 [_ Hh]]. rewrite Hh. clear Hh.
  destruct (fast_parse_host (host_only s (peek_kind s))) as [[h rest]|]; cbn [negb];
    [|exists r0; reflexivity].
  cbn [hp_kind hp_value].
  destruct (peek_kind s) eqn:Hk; cbn [pkind_eqb andb].
  - (* KDomain *)
    exists rest. unfold set_hp_value at 1. cbn [hp_kind hp_value].
    rewrite end_dom. apply host_tail_eq.
  - exists rest. unfold set_hp_value at 1. cbn [hp_kind hp_value].
    rewrite end_dom. apply host_tail_eq.
  - exists rest. unfold set_hp_value at 1. cbn [hp_kind hp_value].
    rewrite end_dom. apply host_tail_eq.
  - (* KSubdomains *)
    exists rest. rewrite maxlen_test.
    destruct (Z.to_nat origins_maxHostLen - 2 <? length (hvalue h))%nat; [reflexivity|].
    destruct (assume_ip h) eqn:Hip; [reflexivity|].
    unfold set_hp_value at 1. cbn [hp_kind hp_value].
    rewrite end_sub.
    pose proof (host_tail_eq full
      (firstn (length (hvalue h) + (length origins_subdomainWildcard + 1)) s) KSubdomains h rest) as HT.
    rewrite Hip in HT. exact HT.
Qed.

(* ---------- ParsePattern ---------- *)

Theorem go_ParsePattern_eq_sec : forall s,
  go_ParsePattern ace_ok ip6 s =
  Some (match parse_pattern ace_ok ip6 s with
        | inl p => (p, None)
        | inr r => (zero_pat, Some (s, r))
        end).
Proof.
  intros s. unfold go_ParsePattern, parse_pattern. cbv zeta.
  change lit_star with ([42]%N : bytes). change lit_null with ([110; 117; 108; 108]%N : bytes).
  change lit_file with ([102; 105; 108; 101]%N : bytes).
  destruct (beqb s [42%N] || beqb s [110%N; 117%N; 108%N; 108%N]); [reflexivity|].
  rewrite go_parseScheme_eq.
  destruct (parse_scheme s) as [[sch s1]|]; cbn [negb]; [|reflexivity].
  destruct (beqb sch [102%N; 105%N; 108%N; 101%N]); [reflexivity|].
  unfold strings_CutPrefix.
  destruct (cut_prefix origins_schemeHostSep s1) as [s2|]; cbn [negb]; [|reflexivity].
  destruct (go_parseHostPattern_eq s2 s) as [r0 Hhp]. rewrite Hhp. clear Hhp.
  destruct (parse_host_pattern ace_ok ip6 s2) as [[[value k] s3]|r]; cbn [is_some_err]; [|reflexivity].
  rewrite go_IsIP_eq.
  destruct (is_ip_kind k && beqb sch origins_schemeHTTPS); [reflexivity|].
  destruct s3 as [|x s3]; [reflexivity|].
  replace (0 <? Z.of_nat (length (x :: s3)))%Z with true by (cbn [length]; lia).
  unfold host_port_sep.
  destruct (cut_prefix [Z.to_N origins_hostPortSep] (x :: s3)) as [s4|]; cbn [negb]; [|reflexivity].
  rewrite go_parsePortPattern_eq.
  destruct (parse_port_pattern s4) as [[p rest]|]; cbn [negb orb]; [|reflexivity].
  destruct rest as [|y rest]; [|reflexivity].
  replace (beqb [] []) with true by reflexivity. cbn [negb].
  rewrite go_isDefaultPortForScheme_eq.
  destruct (is_default_port sch p); reflexivity.
Qed.

End Oracles.

Theorem go_ParsePattern_eq : forall ace_ok ip6 s,
  go_ParsePattern ace_ok ip6 s =
  Some (match parse_pattern ace_ok ip6 s with
        | inl p => (p, None)
        | inr r => (zero_pat, Some (s, r))
        end).
Proof. exact go_ParsePattern_eq_sec. Qed.

Theorem go_IsDeemedInsecure_eq : forall p, go_IsDeemedInsecure p = is_deemed_insecure p.
Proof.
  intros p. unfold go_IsDeemedInsecure, is_deemed_insecure, hostpat_of.
  rewrite go_hostOnly_eq. reflexivity.
Qed.

Print Assumptions go_ParsePattern_eq.
Print Assumptions go_IsDeemedInsecure_eq.
