(* Proofs/MwSrcP.v -- the functions that tools/genmw generates from middleware.go on every run (Gen/MwSrc.v)
   compute, for every configuration, request, debug flag and pre-existing response header map, exactly what the
   hand-written model of Model/Serve.v computes.  Every theorem about `serve` therefore is a theorem about the
   translated source. *)
Require Import Base.Bytes Gen.Tables Model.Util Model.Headers Model.Methods Model.Origins Model.Pattern Model.Radix
  Model.Netip Model.CfgErrors Model.Config Model.CfgRt Model.Serve Model.Mw Model.MwRt Gen.MwSrc.
Open Scope bool_scope.

Ltac split_ifs :=
  repeat (match goal with
          | |- context [if ?c then _ else _] => destruct c eqn:?
          | |- context [match ?x with Some _ => _ | None => _ end] => destruct x eqn:?
          | |- context [match ?x with [] => _ | _ :: _ => _ end] => destruct x eqn:?
          end; cbn in * ); try reflexivity; try congruence; try discriminate.

Lemma set_res_id st : set_res st (g_res st) = st.
Proof. destruct st; reflexivity. Qed.
Lemma set_buf_id st : set_buf st (g_buf st) = st.
Proof. destruct st; reflexivity. Qed.

Lemma go_handleNonCORS_eq ic st o :
  go_handleNonCORS ic st o = set_res st (handle_non_cors ic (g_res st) o).
Proof.
  destruct st as [res buf stat del]. unfold go_handleNonCORS, handle_non_cors, set_res. cbn.
  split_ifs.
Qed.

Lemma go_processOriginForPreflight_eq ic st org :
  go_processOriginForPreflight ic st org [org] =
  (set_buf st (fst (process_origin_preflight ic (g_buf st) org)), snd (process_origin_preflight ic (g_buf st) org)).
Proof.
  destruct st as [res buf stat del]. unfold go_processOriginForPreflight, process_origin_preflight, parse2, set_buf. cbn.
  split_ifs.
Qed.

Lemma go_processACRPN_eq ic st req :
  go_processACRPN ic st req =
  (set_buf st (fst (process_acrpn ic (g_buf st) req)), snd (process_acrpn ic (g_buf st) req)).
Proof.
  destruct st as [res buf stat del]. unfold go_processACRPN, process_acrpn, first3, set_buf. cbn.
  split_ifs.
Qed.

Lemma go_processACRM_eq ic st acrm :
  go_processACRM ic st acrm [acrm] =
  (set_buf st (fst (process_acrm ic (g_buf st) acrm)), snd (process_acrm ic (g_buf st) acrm)).
Proof.
  destruct st as [res buf stat del]. unfold go_processACRM, process_acrm, set_buf. cbn.
  split_ifs.
Qed.

Lemma go_processACRH_eq ic st req dbg :
  go_processACRH ic st req dbg =
  (set_buf st (fst (process_acrh ic (g_buf st) req dbg)), snd (process_acrh ic (g_buf st) req dbg)).
Proof.
  destruct st as [res buf stat del]. unfold go_processACRH, process_acrh, lookup2, set_buf, is_some, opt_list. cbn.
  split_ifs.
Qed.

Lemma go_handleCORSActual_eq ic st org o :
  go_handleCORSActual ic st org [org] o = set_res st (handle_actual ic (g_res st) org o).
Proof.
  destruct st as [res buf stat del]. unfold go_handleCORSActual, handle_actual, parse2, set_res. cbn.
  split_ifs.
Qed.

(* the preflight handler: the buffer is created empty, the status is written exactly once *)
Lemma go_handleCORSPreflight_eq ic st req org acrm dbg :
  go_handleCORSPreflight ic st req org [org] acrm [acrm] dbg =
  let '(h, s) := handle_preflight ic (g_res st) req org acrm dbg in
  {| g_res := h; g_buf := g_buf (go_handleCORSPreflight ic st req org [org] acrm [acrm] dbg);
     g_status := Some s; g_deleg := g_deleg st |}.
Proof.
  destruct st as [res buf stat del].
  unfold go_handleCORSPreflight, handle_preflight, lookup2, success_status.
  cbn [g_res g_buf g_status g_deleg set_res set_buf set_status].
  destruct (hget res headers_Vary) as [vary|] eqn:Hv; cbn [negb g_res g_buf g_status g_deleg set_res set_buf set_status];
  rewrite go_processOriginForPreflight_eq; cbn [g_res g_buf g_status g_deleg set_res set_buf set_status fst snd];
  (destruct (process_origin_preflight ic [] org) as [b1 [|]] eqn:H1; cbn [negb fst snd g_res g_buf g_status g_deleg set_res set_buf set_status];
   [ rewrite go_processACRPN_eq; cbn [g_res g_buf g_status g_deleg set_res set_buf set_status fst snd];
     destruct (process_acrpn ic b1 req) as [b2 [|]] eqn:H2; cbn [negb fst snd g_res g_buf g_status g_deleg set_res set_buf set_status];
     [ rewrite go_processACRM_eq; cbn [g_res g_buf g_status g_deleg set_res set_buf set_status fst snd];
       destruct (process_acrm ic b2 acrm) as [b3 [|]] eqn:H3; cbn [negb fst snd g_res g_buf g_status g_deleg set_res set_buf set_status];
       [ rewrite go_processACRH_eq; cbn [g_res g_buf g_status g_deleg set_res set_buf set_status fst snd];
         destruct (process_acrh ic b3 req dbg) as [b4 [|]] eqn:H4; cbn [negb fst snd g_res g_buf g_status g_deleg set_res set_buf set_status is_some opt_list];
         [ destruct (i_acma ic); cbn [negb is_some opt_list g_res g_buf g_status g_deleg set_res set_buf set_status]; reflexivity
         | destruct dbg; reflexivity ]
       | destruct dbg; reflexivity ]
     | destruct dbg; reflexivity ]
   | destruct dbg; reflexivity ]).
Qed.

Definition go_serve (st : option icfg) (debug : bool) (r : request) (pre : hmap) : outcome :=
  let s := go_Wrap st debug r (init_gst pre) in
  {| o_hdrs := g_res s; o_status := g_status s; o_delegated := g_deleg s |}.

(* the tie: the translated source and the hand-written model agree on every input *)
Theorem go_serve_eq : forall st debug r pre, go_serve st debug r pre = serve st debug r pre.
Proof.
  intros [ic|] debug r pre; unfold go_serve, serve, go_Wrap, init_gst, first3; [|reflexivity].
  destruct (first (r_hdrs r) headers_Origin) as [org|] eqn:Ho; cbn [negb].
  2:{ rewrite go_handleNonCORS_eq. reflexivity. }
  destruct (first (r_hdrs r) headers_ACRM) as [acrm|] eqn:Hm.
  - destruct (beqb (r_method r) method_options) eqn:Hopt; cbn [andb].
    + rewrite go_handleCORSPreflight_eq. cbn [g_res g_deleg].
      destruct (handle_preflight ic pre (r_hdrs r) org acrm debug) as [h s]. reflexivity.
    + rewrite go_handleCORSActual_eq. reflexivity.
  - rewrite Bool.andb_false_r. rewrite go_handleCORSActual_eq. reflexivity.
Qed.

(* ---- the four state-touching methods, sequentially: the translated bodies are the steps of Model/Mw.v ---- *)
Theorem go_NewMiddleware_eq : forall ace ip6 psl c, go_NewMiddleware ace ip6 psl c = mw_new ace ip6 psl c.
Proof.
  intros. unfold go_NewMiddleware, mw_new, newInternalConfig2, zero_mw.
  destruct (new_internal_config ace ip6 psl c); reflexivity.
Qed.

Theorem go_Reconfigure_eq : forall ace ip6 psl st c,
  go_Reconfigure ace ip6 psl st c = step ace ip6 psl st (OReconfigure c).
Proof.
  intros ace ip6 psl [ic dbg] [c|]; unfold go_Reconfigure, step, newInternalConfig2; cbn [fst snd is_some andb].
  - destruct (new_internal_config ace ip6 psl c); reflexivity.
  - reflexivity.
Qed.

Theorem go_SetDebug_eq : forall ace ip6 psl st b,
  step ace ip6 psl st (OSetDebug b) = (go_SetDebug st b, None).
Proof. intros ace ip6 psl [[ic|] dbg] b; reflexivity. Qed.

Theorem go_Config_eq : forall st, go_Config st = mw_config st.
Proof. intros [[ic|] dbg]; reflexivity. Qed.

(* any history of calls: the translated methods drive the state exactly as Model/Mw.v's [run] does *)
Definition go_step (ace : bytes -> bool) (ip6 : bytes -> ipres) (psl : bytes -> bool) (st : mstate) (o : op) : mstate :=
  match o with
  | OReconfigure c => fst (go_Reconfigure ace ip6 psl st c)
  | OSetDebug b => go_SetDebug st b
  end.

Theorem go_run_eq : forall ace ip6 psl ops st,
  fold_left (go_step ace ip6 psl) ops st = run ace ip6 psl st ops.
Proof.
  intros ace ip6 psl ops. unfold run. induction ops as [|o ops IH]; intros st; [reflexivity|].
  cbn [fold_left]. rewrite IH. f_equal. destruct o as [c|b]; unfold go_step.
  - rewrite go_Reconfigure_eq. reflexivity.
  - rewrite go_SetDebug_eq. reflexivity.
Qed.
