(* Proofs/DispatchRelP.v -- the side conditions of C09/C10 hold for every accepted configuration
   (through the characterisation [icfg_rel] of Proofs/Rel.v). *)
Require Import Base.Bytes Model.Util Model.Radix Model.Netip Model.Config Model.Serve.
Require Import Spec.Wire Proofs.Rel Proofs.DispatchP.
Open Scope N_scope.

Lemma rel_tree_cred_ok : forall ace ip6 c ic, icfg_rel ace ip6 c ic -> tree_cred_ok (Some ic).
Proof.
  intros ace ip6 c ic R. simpl. intro He.
  rewrite (rel_tree_empty _ _ _ _ R) in He. rewrite (rel_cred _ _ _ _ R).
  destruct (rel_star _ _ _ _ R He) as [H _]. exact H.
Qed.

Lemma rel_acah_rendered : forall ace ip6 c ic, icfg_rel ace ip6 c ic -> acah_rendered ic.
Proof.
  intros ace ip6 c ic R Hs. rewrite (rel_acah _ _ _ _ R).
  destruct (sset_size (i_req_hdrs ic) =? 0) eqn:E; [|discriminate].
  apply N.eqb_eq in E. contradiction.
Qed.
