(* Proofs/LoopHeadersP.v -- the Gallina functions that tools/genloop generates from internal/headers/{ows,acrh}.go
   (Gen/LoopSrc.v: go_trimLeftOWS, go_trimRightOWS, go_TrimOWS, go_cutAtComma, go_Check) compute exactly what the
   hand-written model (Model/Headers.v) computes, for all inputs; in particular the fuel the translator gave to
   every loop suffices (the result is never None). *)
Require Import Base.Bytes Gen.Tables Model.Util Model.Headers Model.UtilRt Gen.UtilSrc Model.LoopRt Gen.LoopSrc.
Require Import Proofs.HeadersP Proofs.UtilSrcP.
From Coq Require Import Lia ZifyBool ZifyNat ZifyN.
Open Scope N_scope.

(* ------------------------------------------------------------------------------------------ *)
(* 1. strings.IndexByte and cutAtComma                                                         *)
(* ------------------------------------------------------------------------------------------ *)

Fixpoint find_idx (s : bytes) (c : N) : option nat :=
  match s with
  | [] => None
  | x :: r => if x =? c then Some O else match find_idx r c with Some k => Some (S k) | None => None end
  end.

Lemma index_byte_from_find : forall s c i,
  index_byte_from s c i = match find_idx s c with Some k => (i + Z.of_nat k)%Z | None => (-1)%Z end.
Proof.
  induction s as [|x r IH]; intros c i; cbn [index_byte_from find_idx]; [reflexivity|].
  destruct (x =? c); [lia|]. rewrite IH. destruct (find_idx r c); [lia | reflexivity].
Qed.

Lemma cut_at_comma_find : forall k s,
  cut_at_comma s k = match find_idx (firstn k s) 44 with
                     | Some j => (firstn j s, skipn (S j) s, true)
                     | None => (s, [], false)
                     end.
Proof.
  induction k as [|k IH]; intros s.
  - destruct s; reflexivity.
  - destruct s as [|c r]; [reflexivity|].
    cbn [cut_at_comma firstn find_idx]. destruct (c =? 44); [reflexivity|].
    rewrite IH. destruct (find_idx (firstn k r) 44) as [j|]; reflexivity.
Qed.

Lemma firstn_min_len : forall (A : Type) (l : list A) k, firstn (Nat.min (length l) k) l = firstn k l.
Proof.
  intros A l k. destruct (Nat.le_gt_cases k (length l)) as [H|H].
  - rewrite Nat.min_r by exact H. reflexivity.
  - rewrite Nat.min_l by lia. rewrite firstn_all. symmetry. apply firstn_all2. lia.
Qed.

(* holds without any hypothesis on n: for n < 0 the translated slice expression s[:end] is the empty string
   (Go would panic), and the model called with Z.to_nat n = 0 finds no comma either *)
Theorem go_cutAtComma_eq' : forall s n, go_cutAtComma s n = cut_at_comma s (Z.to_nat n).
Proof.
  intros s n. unfold go_cutAtComma. cbv zeta.
  replace (Z.to_nat (Z.min (Z.of_nat (length s)) n)) with (Nat.min (length s) (Z.to_nat n)) by lia.
  rewrite firstn_min_len. unfold strings_IndexByte. rewrite index_byte_from_find, cut_at_comma_find.
  destruct (find_idx (firstn (Z.to_nat n) s) 44) as [j|].
  - replace (0 <=? 0 + Z.of_nat j)%Z with true by lia.
    replace (Z.to_nat (0 + Z.of_nat j)) with j by lia.
    replace (Z.to_nat (0 + Z.of_nat j + 1)) with (S j) by lia. reflexivity.
  - reflexivity.
Qed.

Theorem go_cutAtComma_eq : forall s n, (0 <= n)%Z -> go_cutAtComma s n = cut_at_comma s (Z.to_nat n).
Proof. intros s n _. apply go_cutAtComma_eq'. Qed.

(* ------------------------------------------------------------------------------------------ *)
(* 2. trimLeftOWS, trimRightOWS, TrimOWS                                                       *)
(* ------------------------------------------------------------------------------------------ *)

Definition left_body (cp : bytes) (v_n : Z) : bytes * Z -> ctl (bytes * Z) (bytes * bool) :=
  fun '(v_s, v_i) =>
      if ((0)%Z <? (Z.of_nat (length v_s)))%Z then (
        if (v_n <? v_i)%Z then (
        (Ret (cp, false)))
      else (
        if (negb (go_isOWS (nth (Z.to_nat (0)%Z) v_s 0%N))) then (
          (Brk (v_s, v_i)))
        else (
          let v_s := (skipn (Z.to_nat (1)%Z) v_s) in
          let v_i := (v_i + 1)%Z in
          (Next (v_s, v_i)))))
      else (Brk (v_s, v_i)).

Definition right_body (cp : bytes) (v_n : Z) : bytes * Z -> ctl (bytes * Z) (bytes * bool) :=
  fun '(v_s, v_i) =>
      if ((0)%Z <? (Z.of_nat (length v_s)))%Z then (
        if (v_n <? v_i)%Z then (
        (Ret (cp, false)))
      else (
        if (negb (go_isOWS (nth (Z.to_nat ((Z.of_nat (length v_s)) - (1)%Z)%Z) v_s 0%N))) then (
          (Brk (v_s, v_i)))
        else (
          let v_s := (firstn (Z.to_nat ((Z.of_nat (length v_s)) - (1)%Z)%Z) v_s) in
          let v_i := (v_i + 1)%Z in
          (Next (v_s, v_i)))))
      else (Brk (v_s, v_i)).

Definition finish (r : lres (bytes * Z) (bytes * bool)) : option (bytes * bool) :=
  match r with
  | Done (v_s, v_i) => Some (v_s, true)
  | Returned r => Some r
  | Exhausted => None
  end.

Lemma go_trimLeftOWS_unfold : forall s n,
  go_trimLeftOWS s n = finish (loop_n (S (length s)) (left_body s n) (s, 0%Z)).
Proof. reflexivity. Qed.

Lemma go_trimRightOWS_unfold : forall s n,
  go_trimRightOWS s n = finish (loop_n (S (length s)) (right_body s n) (s, 0%Z)).
Proof. reflexivity. Qed.

Definition tres (cp : bytes) (o : option bytes) : option (bytes * bool) :=
  Some (match o with Some t => (t, true) | None => (cp, false) end).

Lemma left_loop : forall cp n, (0 <= n)%Z -> forall fuel s i, (0 <= i)%Z -> (length s < fuel)%nat ->
  finish (loop_n fuel (left_body cp n) (s, i)) = tres cp (trim_left s (Z.to_N i) (Z.to_N n)).
Proof.
  intros cp n Hn. induction fuel as [|f IH]; intros s i Hi Hf; [lia|].
  cbn [loop_n]. unfold left_body at 1.
  destruct s as [|c r].
  - reflexivity.
  - replace (0 <? Z.of_nat (length (c :: r)))%Z with true by (cbn [length]; lia).
    cbn [trim_left].
    replace (Z.to_N n <? Z.to_N i) with (n <? i)%Z by lia.
    destruct (n <? i)%Z; [reflexivity|].
    change (nth (Z.to_nat 0) (c :: r) 0) with c. rewrite go_isOWS_eq.
    destruct (is_ows c); cbn [negb]; [|reflexivity].
    cbv zeta. change (skipn (Z.to_nat 1) (c :: r)) with r.
    rewrite IH by (cbn [length] in Hf; lia).
    replace (Z.to_N (i + 1)) with (Z.to_N i + 1) by lia. reflexivity.
Qed.

Lemma go_trimLeftOWS_eq : forall s n, (0 <= n)%Z ->
  go_trimLeftOWS s n = Some (match trim_left s 0 (Z.to_N n) with Some t => (t, true) | None => (s, false) end).
Proof.
  intros s n Hn. rewrite go_trimLeftOWS_unfold, (left_loop s n Hn) by lia. reflexivity.
Qed.

Lemma nth_last_app : forall (l : bytes) c, nth (length l) (l ++ [c]) 0 = c.
Proof. intros l c. rewrite app_nth2 by lia. rewrite Nat.sub_diag. reflexivity. Qed.

Lemma firstn_app_len : forall (l : bytes) c, firstn (length l) (l ++ [c]) = l.
Proof.
  intros l c. rewrite firstn_app, Nat.sub_diag, firstn_all. cbn [firstn]. apply app_nil_r.
Qed.

Definition finish_rev (cp : bytes) (o : option bytes) : option (bytes * bool) :=
  tres cp (match o with Some t => Some (rev t) | None => None end).

Lemma right_loop : forall cp n, (0 <= n)%Z -> forall fuel s i, (0 <= i)%Z -> (length s < fuel)%nat ->
  finish (loop_n fuel (right_body cp n) (s, i)) = finish_rev cp (trim_left (rev s) (Z.to_N i) (Z.to_N n)).
Proof.
  intros cp n Hn. induction fuel as [|f IH]; intros s i Hi Hf; [lia|].
  cbn [loop_n]. unfold right_body at 1.
  destruct (rev s) as [|c r] eqn:E.
  - assert (Es : s = []). { rewrite <- (rev_involutive s), E. reflexivity. }
    subst s. reflexivity.
  - assert (Es : s = rev r ++ [c]). { rewrite <- (rev_involutive s), E. reflexivity. }
    assert (Hl : length s = S (length (rev r))). { rewrite Es, app_length. cbn [length]. lia. }
    replace (0 <? Z.of_nat (length s))%Z with true by lia.
    cbn [trim_left].
    replace (Z.to_N n <? Z.to_N i) with (n <? i)%Z by lia.
    destruct (n <? i)%Z; [reflexivity|].
    replace (Z.to_nat (Z.of_nat (length s) - 1)) with (length (rev r)) by lia.
    rewrite Es at 1. rewrite nth_last_app, go_isOWS_eq.
    destruct (is_ows c); cbn [negb].
    + cbv zeta. rewrite Es at 1. rewrite firstn_app_len.
      rewrite IH by lia. rewrite rev_involutive.
      replace (Z.to_N (i + 1)) with (Z.to_N i + 1) by lia. reflexivity.
    + unfold finish, finish_rev, tres. rewrite <- E, rev_involutive. reflexivity.
Qed.

Lemma go_trimRightOWS_eq : forall s n, (0 <= n)%Z ->
  go_trimRightOWS s n = Some (match trim_right s (Z.to_N n) with Some t => (t, true) | None => (s, false) end).
Proof.
  intros s n Hn. rewrite go_trimRightOWS_unfold, (right_loop s n Hn) by lia.
  unfold finish_rev, tres, trim_right. reflexivity.
Qed.

(* 0 <= n is needed: for n < 0 and a non-empty s the Go code answers (s, false) at once, whereas the model called
   with Z.to_N n = 0 may succeed, e.g. on "a" *)
Theorem go_TrimOWS_eq : forall s n, (0 <= n)%Z ->
  go_TrimOWS s n = Some (match trim_ows s (Z.to_N n) with Some t => (t, true) | None => (s, false) end).
Proof.
  intros s n Hn. unfold go_TrimOWS. cbv zeta.
  destruct s as [|c r].
  - reflexivity.
  - change (beqb (c :: r) []) with false. cbv iota.
    rewrite go_trimRightOWS_eq by exact Hn. unfold trim_ows.
    destruct (trim_right (c :: r) (Z.to_N n)) as [t|]; [|reflexivity].
    cbn [negb]. cbv iota. rewrite go_trimLeftOWS_eq by exact Hn.
    destruct (trim_left t 0 (Z.to_N n)) as [u|]; reflexivity.
Qed.

(* ------------------------------------------------------------------------------------------ *)
(* 3. Check                                                                                    *)
(* ------------------------------------------------------------------------------------------ *)

Definition istate : Type := (Z * bytes * bool * Z * bool * bytes)%type.
Definition ostate : Type := (Z * bytes * bool * Z * bool)%type.

Definition inner_body (v_set : sset) (v_maxLen : Z) : istate -> ctl istate bool :=
  fun '(v_posOfLastNameSeen, v_name, v_commaFound, v_emptyElements, v_ok, v_acrh) =>
          if true then (
            let '(v_name, v_acrh, v_commaFound) := go_cutAtComma v_acrh v_maxLen in
          match go_TrimOWS v_name headers_MaxOWSBytes with
          | None => Exh
          | Some (v_name, v_ok) =>
            if (negb v_ok) then (
              (Ret false))
            else (
              if (beqb v_name ([] : bytes)) then (
                let v_emptyElements := (v_emptyElements + 1)%Z in
                if (headers_MaxEmptyElements <? v_emptyElements)%Z then (
                  (Ret false))
                else (
                  if (negb v_commaFound) then (
                    (Brk (v_posOfLastNameSeen, v_name, v_commaFound, v_emptyElements, v_ok, v_acrh)))
                  else (
                    (Next (v_posOfLastNameSeen, v_name, v_commaFound, v_emptyElements, v_ok, v_acrh)))))
              else (
                let v_i := (index_after v_set v_posOfLastNameSeen v_name) in
                if (v_i <? (0)%Z)%Z then (
                  (Ret false))
                else (
                  let v_posOfLastNameSeen := v_i in
                  if (negb v_commaFound) then (
                    (Brk (v_posOfLastNameSeen, v_name, v_commaFound, v_emptyElements, v_ok, v_acrh)))
                  else (
                    (Next (v_posOfLastNameSeen, v_name, v_commaFound, v_emptyElements, v_ok, v_acrh))))))
          end)
          else (Brk (v_posOfLastNameSeen, v_name, v_commaFound, v_emptyElements, v_ok, v_acrh)).

Definition outer_body (v_set : sset) (v_maxLen : Z) : ostate -> bytes -> ctl ostate bool :=
  fun '(v_posOfLastNameSeen, v_name, v_commaFound, v_emptyElements, v_ok) v_acrh =>
    match loop_n (S (length v_acrh)) (inner_body v_set v_maxLen)
            (v_posOfLastNameSeen, v_name, v_commaFound, v_emptyElements, v_ok, v_acrh) with
    | Done (v_posOfLastNameSeen, v_name, v_commaFound, v_emptyElements, v_ok, v_acrh) =>
        (Next (v_posOfLastNameSeen, v_name, v_commaFound, v_emptyElements, v_ok))
    | Returned r => (Ret r)
    | Exhausted => Exh
    end.

Definition go_maxLen (v_set : sset) : Z :=
  (((headers_MaxOWSBytes + (Z.of_N (maxlen v_set)))%Z + headers_MaxOWSBytes)%Z + (1)%Z)%Z.

Definition finish_check (r : lres ostate bool) : option bool :=
  match r with
  | Done (v_posOfLastNameSeen, v_name, v_commaFound, v_emptyElements, v_ok) => Some true
  | Returned r => Some r
  | Exhausted => None
  end.

Lemma go_Check_unfold : forall set lines,
  go_Check set lines
  = finish_check (loop_list lines (outer_body set (go_maxLen set)) ((-1)%Z, [], false, 0%Z, false)).
Proof. reflexivity. Qed.

(* one generated loop against one model loop: same verdict, same live components (pos, emp) *)
Definition irel (r : lres istate bool) (c : cres) : Prop :=
  match c with
  | CFail => r = Returned false
  | COk p e => exists nm cf ok rest, r = Done (p, nm, cf, e, ok, rest)
  | CFuel => r = Exhausted
  end.

Definition orel (r : lres ostate bool) (c : cres) : Prop :=
  match c with
  | CFail => r = Returned false
  | COk p e => exists nm cf ok, r = Done (p, nm, cf, e, ok)
  | CFuel => r = Exhausted
  end.

Lemma max_ows_bytes_nonneg : (0 <= headers_MaxOWSBytes)%Z.
Proof. vm_compute. discriminate. Qed.

Lemma inner_loop : forall set maxLen fuel pos nm cf emp ok acrh,
  irel (loop_n fuel (inner_body set maxLen) (pos, nm, cf, emp, ok, acrh))
       (check_line fuel set (Z.to_nat maxLen) acrh pos emp).
Proof.
  intros set maxLen. induction fuel as [|f IH]; intros pos nm cf emp ok acrh.
  - reflexivity.
  - cbn [loop_n check_line]. unfold inner_body at 1.
    rewrite go_cutAtComma_eq'.
    destruct (cut_at_comma acrh (Z.to_nat maxLen)) as [[name rest] found].
    rewrite go_TrimOWS_eq by exact max_ows_bytes_nonneg.
    fold max_ows. fold max_empty.
    destruct (trim_ows name max_ows) as [[|c t]|].
    + cbn [negb]. change (beqb [] []) with true. cbv iota zeta.
      destruct (max_empty <? emp + 1)%Z; [reflexivity|].
      destruct found; cbn [negb].
      * apply IH.
      * cbn [irel]. eauto.
    + cbn [negb]. change (beqb (c :: t) []) with false. cbv iota zeta.
      destruct (index_after set pos (c :: t) <? 0)%Z; [reflexivity|].
      destruct found; cbn [negb].
      * apply IH.
      * cbn [irel]. eauto.
    + reflexivity.
Qed.

Lemma outer_loop : forall set maxLen lines pos nm cf emp ok,
  orel (loop_list lines (outer_body set maxLen) (pos, nm, cf, emp, ok))
       (check_lines set (Z.to_nat maxLen) lines pos emp).
Proof.
  intros set maxLen. induction lines as [|l r IH]; intros pos nm cf emp ok.
  - cbn [loop_list check_lines orel]. eauto.
  - cbn [loop_list check_lines]. unfold outer_body at 1.
    pose proof (inner_loop set maxLen (S (length l)) pos nm cf emp ok l) as H.
    destruct (check_line (S (length l)) set (Z.to_nat maxLen) l pos emp) as [|p e|]; cbn [irel] in H.
    + rewrite H. reflexivity.
    + destruct H as [nm' [cf' [ok' [rest' H]]]]. rewrite H. apply IH.
    + rewrite H. reflexivity.
Qed.

Lemma go_maxLen_window : forall set, Z.to_nat (go_maxLen set) = check_window set.
Proof.
  intro set. unfold go_maxLen, check_window. rewrite max_ows_1.
  change headers_MaxOWSBytes with 1%Z. lia.
Qed.

(* the model's fuel always suffices (Proofs/HeadersP.v, check_lines_ref): no hypothesis on the set is needed *)
Lemma check_lines_no_fuel : forall set lines pos emp,
  check_lines set (check_window set) lines pos emp <> CFuel.
Proof.
  intros set lines pos emp. rewrite check_lines_ref.
  destruct (ref_elems set (flat_map (split_byte 44) lines) pos emp) as [[p e]|]; discriminate.
Qed.

Lemma finish_check_rel : forall r c, orel r c -> c <> CFuel ->
  finish_check r = Some (match c with COk _ _ => true | _ => false end).
Proof.
  intros r c H Hf. destruct c as [|p e|]; cbn [orel] in H.
  - rewrite H. reflexivity.
  - destruct H as [nm [cf [ok H]]]. rewrite H. reflexivity.
  - congruence.
Qed.

Theorem go_Check_eq : forall set lines, go_Check set lines = Some (check set lines).
Proof.
  intros set lines. rewrite go_Check_unfold. unfold check.
  apply finish_check_rel.
  - rewrite <- go_maxLen_window. apply outer_loop.
  - apply check_lines_no_fuel.
Qed.

Print Assumptions go_cutAtComma_eq'.
Print Assumptions go_cutAtComma_eq.
Print Assumptions go_trimLeftOWS_eq.
Print Assumptions go_trimRightOWS_eq.
Print Assumptions go_TrimOWS_eq.
Print Assumptions go_Check_eq.
