(* Proofs/SrcXferP.v -- statements that combine both translations (middleware.go methods by tools/genmw, config.go by
   tools/gencfg): the state-machine and round-trip theorems over the generated functions. *)
Require Import Base.Bytes Gen.Tables.
Require Import Model.Util Model.Headers Model.Methods Model.Origins Model.Netip Model.Pattern Model.Radix
  Model.CfgErrors Model.Config Model.CfgRt Gen.CfgSrc Model.Serve Model.Mw Model.MwRt Gen.MwSrc.
Require Import Spec.Wire Spec.DebugSM.
Require Import Proofs.Rel Proofs.DispatchP Proofs.DispatchRelP Proofs.RoundTripParseP Proofs.RoundTripMainP
  Proofs.MwSrcP Proofs.CfgSrcP.

(* newInternalConfig2 over the translated validation *)
Lemma newInternalConfig2_src : forall ace ip6 psl c,
  newInternalConfig2 ace ip6 psl (Some c) =
  match go_newInternalConfig ace ip6 psl c with inl ic => (Some ic, None) | inr e => (None, Some e) end.
Proof. intros. unfold newInternalConfig2. rewrite go_newInternalConfig_eq. reflexivity. Qed.

Lemma go_Reconfigure_rejected : forall ace ip6 psl st c e,
  go_newInternalConfig ace ip6 psl c = inr e -> go_Reconfigure ace ip6 psl st (Some c) = (st, Some e).
Proof.
  intros ace ip6 psl st c e H. rewrite go_Reconfigure_eq. rewrite go_newInternalConfig_eq in H.
  apply step_rejected. exact H.
Qed.

Lemma go_run_refines : forall ace ip6 psl st ops, inv st ->
  abs (fold_left (go_step ace ip6 psl) ops st) = sm_run (abs st) (map (sm_of ace ip6 psl) ops) /\
  inv (fold_left (go_step ace ip6 psl) ops st).
Proof. intros ace ip6 psl st ops Hi. rewrite go_run_eq. apply run_refines. exact Hi. Qed.

Lemma go_constructors_agree : forall ace ip6 psl c,
  fst (go_NewMiddleware ace ip6 psl c) =
  match go_newInternalConfig ace ip6 psl c with
  | inl _ => Some (fst (go_Reconfigure ace ip6 psl zero_mw (Some c)))
  | inr _ => None
  end.
Proof.
  intros. rewrite go_NewMiddleware_eq, go_Reconfigure_eq, go_newInternalConfig_eq. apply constructors_agree.
Qed.

Lemma go_reconfigure_config_noop : forall ace ip6 psl c ic dbg, ip6_sane ip6 ->
  go_newInternalConfig ace ip6 psl c = inl ic ->
  let st := (Some ic, dbg) in
  exists st', go_Reconfigure ace ip6 psl st (go_Config st) = (st', None) /\ snd st' = dbg /\
              forall r pre, mw_serve st' r pre = mw_serve st r pre.
Proof.
  intros ace ip6 psl c ic dbg Hs H. rewrite go_newInternalConfig_eq in H. cbv zeta.
  rewrite go_Reconfigure_eq, go_Config_eq. exact (reconfigure_config_noop ace ip6 psl c ic dbg Hs H).
Qed.
