(* Proofs/FetchP.v -- C02: the verdict of a Fetch-compliant browser (Spec/Fetch.v) on the two
   responses of the middleware equals what the documentation says the configuration means.
   The link to validation is the record [icfg_rel] (Proofs/Rel.v), taken as a hypothesis. *)
Require Import Base.Bytes Gen.Tables.
Require Import Model.Util Model.Headers Model.Methods Model.Origins Model.Netip Model.Pattern Model.Radix
  Model.CfgErrors Model.Config Model.Serve.
Require Import Spec.Origins Spec.Wire Spec.ConfigDoc Spec.AcrhList Spec.Fetch.
Require Import Proofs.RadixP Proofs.HeadersP Proofs.ParseP Proofs.Rel.
From Coq Require Import Sorted ZifyBool ZifyNat ZifyN.
Open Scope N_scope.
Import Coq.Strings.String.StringSyntax.
Arguments b _%string_scope.

(* ------------------------------------------------------------------------------------------ *)
(* 1. Header maps                                                                              *)
(* ------------------------------------------------------------------------------------------ *)

Lemma f_beqb_sym : forall x y, beqb x y = beqb y x.
Proof.
  intros x y. destruct (beqb x y) eqn:E; destruct (beqb y x) eqn:F; try reflexivity.
  - apply beqb_eq in E. subst. rewrite beqb_refl in F. discriminate.
  - apply beqb_eq in F. subst. rewrite beqb_refl in E. discriminate.
Qed.

Lemma f_hget_hset : forall m k v k',
  hget (hset m k v) k' = if beqb k' k then Some v else hget m k'.
Proof.
  induction m as [|[k1 v1] r IH]; intros k v k'; cbn [hset hget].
  - reflexivity.
  - destruct (beqb k k1) eqn:E; cbn [hget].
    + apply beqb_eq in E. subst k1. destruct (beqb k' k); reflexivity.
    + rewrite IH. destruct (beqb k' k1) eqn:F; [|reflexivity].
      apply beqb_eq in F. subst k'. rewrite f_beqb_sym, E. reflexivity.
Qed.

(* no key occurs twice *)
Fixpoint ukeys (m : hmap) : Prop :=
  match m with
  | [] => True
  | (k, _) :: r => hget r k = None /\ ukeys r
  end.

Lemma f_ukeys_hset : forall m k v, ukeys m -> ukeys (hset m k v).
Proof.
  induction m as [|[k1 v1] r IH]; intros k v U; cbn [hset].
  - cbn. auto.
  - destruct U as [U1 U2]. destruct (beqb k k1) eqn:E.
    + apply beqb_eq in E. subst k1. cbn. auto.
    + cbn [ukeys]. split; [|apply IH; exact U2].
      rewrite f_hget_hset. rewrite f_beqb_sym, E. exact U1.
Qed.

Lemma f_hget_hcopy : forall src dst k, ukeys src ->
  hget (hcopy dst src) k = match hget src k with Some v => Some v | None => hget dst k end.
Proof.
  unfold hcopy. induction src as [|[k1 v1] r IH]; intros dst k U; cbn [fold_left hget fst snd].
  - reflexivity.
  - destruct U as [U1 U2]. rewrite IH by exact U2. rewrite f_hget_hset.
    destruct (beqb k k1) eqn:E; [|reflexivity].
    apply beqb_eq in E. subst k1. rewrite U1. reflexivity.
Qed.

(* conditional set *)
Definition oset (m : hmap) (k : bytes) (o : option (list bytes)) : hmap :=
  match o with Some v => hset m k v | None => m end.

Lemma f_hget_oset : forall m k o k',
  hget (oset m k o) k' = if beqb k' k then match o with Some v => Some v | None => hget m k' end else hget m k'.
Proof.
  intros m k [v|] k'; unfold oset.
  - rewrite f_hget_hset. destruct (beqb k' k); reflexivity.
  - destruct (beqb k' k); reflexivity.
Qed.

Lemma f_ukeys_oset : forall m k o, ukeys m -> ukeys (oset m k o).
Proof. intros m k [v|] U; unfold oset; [apply f_ukeys_hset|]; exact U. Qed.

Lemma f_hadd_nil : forall k v, hadd [] k v = hset [] k [v].
Proof. reflexivity. Qed.

(* decide [beqb a c] for closed header names *)
Ltac keq :=
  repeat match goal with
  | |- context [beqb ?a ?c] =>
      let v := eval vm_compute in (beqb a c) in
      lazymatch v with
      | true => change (beqb a c) with true
      | false => change (beqb a c) with false
      end
  end.

Ltac hsimp :=
  repeat first
    [ rewrite f_hget_hset
    | rewrite f_hget_oset
    | rewrite f_hget_hcopy by (repeat first [apply f_ukeys_hset | apply f_ukeys_oset | assumption | exact I])
    | progress keq
    | progress cbn [hget] ];
  cbv iota.

(* the spec's typed-in names are the code's constants *)
Lemma f_h_origin : h_origin = headers_Origin. Proof. reflexivity. Qed.
Lemma f_h_acrm : h_acrm = headers_ACRM. Proof. reflexivity. Qed.
Lemma f_h_acrh : h_acrh = headers_ACRH. Proof. reflexivity. Qed.
Lemma f_h_acrpn : h_acrpn = headers_ACRPN. Proof. reflexivity. Qed.
Lemma f_h_acao : h_acao = headers_ACAO. Proof. reflexivity. Qed.
Lemma f_h_acac : h_acac = headers_ACAC. Proof. reflexivity. Qed.
Lemma f_h_acam : h_acam = headers_ACAM. Proof. reflexivity. Qed.
Lemma f_h_acah : h_acah = headers_ACAH. Proof. reflexivity. Qed.
Lemma f_h_acapn : h_acapn = headers_ACAPN. Proof. reflexivity. Qed.
Lemma f_v_true : v_true = headers_ValueTrue. Proof. reflexivity. Qed.
Lemma f_v_star : v_star = headers_ValueWildcard. Proof. reflexivity. Qed.
Lemma f_m_options : beqb m_options method_options = true. Proof. reflexivity. Qed.

(* ------------------------------------------------------------------------------------------ *)
(* 2. Tokens, trimming, list extraction                                                        *)
(* ------------------------------------------------------------------------------------------ *)

Definition strip_sp : bytes -> bytes :=
  fix f (s : bytes) : bytes := match s with 32 :: r => f r | 9 :: r => f r | _ => s end.

Lemma f_trim_sp_def : forall s, trim_sp s = rev (strip_sp (rev (strip_sp s))).
Proof. reflexivity. Qed.

Lemma f_strip_sp_cons : forall c r, strip_sp (c :: r) = if is_ows c then strip_sp r else c :: r.
Proof.
  intros c r. destruct c as [|p]; [reflexivity|].
  do 6 (destruct p as [p|p|]; try reflexivity).
Qed.

Lemma f_strip_sp_nil : strip_sp [] = [].
Proof. reflexivity. Qed.

Lemma f_strip_sp_clean : forall s, is_ows (hd 0 s) = false -> strip_sp s = s.
Proof.
  intros [|c r] H; [reflexivity|]. rewrite f_strip_sp_cons. cbn [hd] in H. rewrite H. reflexivity.
Qed.

Lemma f_strip_sp_strip1 : forall e, strip_sp (strip1_left e) = strip_sp e.
Proof.
  intros [|c r]; [reflexivity|]. unfold strip1_left. change ows with is_ows.
  rewrite (f_strip_sp_cons c r). destruct (is_ows c) eqn:E; [reflexivity|].
  rewrite f_strip_sp_cons, E. reflexivity.
Qed.

Lemma f_strip1_right_cases : forall s,
  strip1_right s = s \/ exists x, is_ows x = true /\ s = strip1_right s ++ [x].
Proof.
  intros s. unfold strip1_right. destruct (rev s) as [|d u] eqn:R.
  - left. apply (f_equal (@rev _)) in R. rewrite rev_involutive in R. subst s. reflexivity.
  - unfold strip1_left. change ows with is_ows. destruct (is_ows d) eqn:Od.
    + right. exists d. split; [exact Od|]. rewrite <- (rev_involutive s), R. reflexivity.
    + left. rewrite <- R. apply rev_involutive.
Qed.

Definition rstrip (s : bytes) : bytes := rev (strip_sp (rev s)).

Lemma f_rstrip_strip1 : forall s, rstrip (strip1_right s) = rstrip s.
Proof.
  intros s. unfold rstrip, strip1_right. rewrite rev_involutive, f_strip_sp_strip1. reflexivity.
Qed.

(* the name of an element (at most one OWS byte per side) is what full trimming yields *)
Lemma f_element_name_trim : forall e n, element_name e = Some n -> trim_sp e = n.
Proof.
  intros e n. unfold element_name. rewrite f_trim_sp_def.
  rewrite <- (f_strip_sp_strip1 e).
  set (e1 := strip1_left e).
  change (rev (strip_sp (rev (strip_sp e1)))) with (rstrip (strip_sp e1)).
  destruct (f_strip1_right_cases e1) as [C|[x [Ox C]]];
    destruct (strip1_right e1) as [|c t] eqn:E2.
  - intros H. injection H as <-. rewrite <- C. reflexivity.
  - change ows with is_ows. destruct (is_ows c) eqn:Oc; [discriminate|].
    destruct (rev (c :: t)) as [|d u] eqn:R2.
    { apply (f_equal (@length _)) in R2. rewrite rev_length in R2. discriminate. }
    destruct (is_ows d) eqn:Od; [discriminate|].
    intros H. injection H as <-.
    rewrite <- C. rewrite (f_strip_sp_clean (c :: t)) by exact Oc.
    unfold rstrip. rewrite R2, f_strip_sp_cons, Od, <- R2. apply rev_involutive.
  - intros H. injection H as <-. rewrite C. cbn [app].
    rewrite f_strip_sp_cons, Ox. reflexivity.
  - change ows with is_ows. destruct (is_ows c) eqn:Oc; [discriminate|].
    destruct (rev (c :: t)) as [|d u] eqn:R2.
    { apply (f_equal (@length _)) in R2. rewrite rev_length in R2. discriminate. }
    destruct (is_ows d) eqn:Od; [discriminate|].
    intros H. injection H as <-.
    rewrite (f_strip_sp_clean e1) by (rewrite C; exact Oc).
    rewrite <- (f_rstrip_strip1 e1), E2.
    unfold rstrip. rewrite R2, f_strip_sp_cons, Od, <- R2. apply rev_involutive.
Qed.

Lemma f_all_names_trim : forall es names, all_names es = Some names -> map trim_sp es = names.
Proof.
  induction es as [|e r IH]; intros names H; cbn [all_names] in H.
  - injection H as <-. reflexivity.
  - destruct (element_name e) as [n|] eqn:E; [|discriminate].
    destruct (all_names r) as [ns|]; [|discriminate].
    injection H as <-. cbn [map]. rewrite (f_element_name_trim _ _ E), (IH ns eq_refl). reflexivity.
Qed.

(* tokens *)
Lemma f_tchar_not_ows : forall c, is_tchar c = true -> is_ows c = false.
Proof.
  intros c H. unfold is_ows. destruct (c =? 9) eqn:E9.
  - apply N.eqb_eq in E9. subst. discriminate.
  - destruct (c =? 32) eqn:E32; [|reflexivity]. apply N.eqb_eq in E32. subst. discriminate.
Qed.

Lemma f_tchar_not_comma : forall c, is_tchar c = true -> c <> 44.
Proof. intros c H E. subst. discriminate. Qed.

Lemma f_all_tchar_In : forall s c, all_bytes is_tchar s = true -> In c s -> is_tchar c = true.
Proof.
  induction s as [|x r IH]; intros c H Hin; [destruct Hin|].
  cbn [all_bytes] in H; apply andb_true_iff in H; destruct H as [H1 H2].
  destruct Hin as [E|E].
  - subst. exact H1.
  - exact (IH c H2 E).
Qed.

Lemma f_token_clean : forall n, is_token n = true -> clean_name n.
Proof.
  intros n H. unfold is_token, is_valid_name in H. destruct n as [|c r]; [discriminate|].
  unfold clean_name. split; [discriminate|]. split; [|split].
  - intros Hin. apply (f_all_tchar_In _ _ H) in Hin. discriminate.
  - cbn [hd]. apply f_tchar_not_ows. apply (f_all_tchar_In _ _ H). left. reflexivity.
  - apply f_tchar_not_ows. apply (f_all_tchar_In _ _ H).
    destruct (@exists_last _ (c :: r)) as [m [z E]]; [discriminate|].
    rewrite E, last_last. apply in_or_app. right. left. reflexivity.
Qed.

Lemma f_trim_clean : forall n, clean_name n -> trim_sp n = n.
Proof. intros n H. apply f_element_name_trim. apply element_name_clean. exact H. Qed.

Definition nonempty_b (x : bytes) : bool := match x with [] => false | _ => true end.

Definition extract_vals (vs : list bytes) : option (list bytes) :=
  let elems := filter nonempty_b (map trim_sp (flat_map (split_byte 44) vs)) in
  if forallb is_token elems then Some elems else None.

(* extraction as a function of the map entry *)
Definition ext (o : option (list bytes)) : option (list bytes) :=
  match o with None => Some [] | Some vs => extract_vals vs end.

Lemma f_extract_list : forall h k, extract_list h k = ext (hget h k).
Proof. intros h k. unfold extract_list, ext. destruct (hget h k); reflexivity. Qed.

Lemma f_forallb_token : forall l, Forall (fun n => is_token n = true) l -> forallb is_token l = true.
Proof. intros l H. apply forallb_forall. rewrite Forall_forall in H. exact H. Qed.

Lemma f_filter_nonempty_clean : forall l, Forall clean_name l -> filter nonempty_b l = l.
Proof.
  intros l H. induction H as [|n l [Hn _] _ IH]; [reflexivity|].
  destruct n; [congruence|]. cbn [filter nonempty_b]. rewrite IH. reflexivity.
Qed.

Lemma f_map_trim_clean : forall l, Forall clean_name l -> map trim_sp l = l.
Proof.
  intros l H. induction H as [|n l Hn _ IH]; [reflexivity|].
  cbn [map]. rewrite (f_trim_clean n Hn), IH. reflexivity.
Qed.

Lemma f_tokens_clean : forall l, Forall (fun n => is_token n = true) l -> Forall clean_name l.
Proof. intros l H. eapply Forall_impl; [|exact H]. exact f_token_clean. Qed.

(* a single token *)
Lemma f_extract_token : forall m, is_token m = true -> extract_vals [m] = Some [m].
Proof.
  intros m H. pose proof (f_token_clean m H) as C.
  unfold extract_vals. cbn [flat_map]. rewrite app_nil_r.
  destruct C as [Cn [Cc C']].
  rewrite (split_nocomma 44 m Cc). cbn [map].
  rewrite (f_trim_clean m (conj Cn (conj Cc C'))).
  destruct m; [congruence|]. cbn [filter nonempty_b forallb]. rewrite H. reflexivity.
Qed.

(* the comma-join of a non-empty list of tokens *)
Lemma f_extract_join : forall l, l <> [] -> Forall (fun n => is_token n = true) l ->
  extract_vals [join headers_ValueSep l] = Some l.
Proof.
  intros l Hne H. pose proof (f_tokens_clean l H) as C.
  unfold extract_vals. cbn [flat_map]. rewrite app_nil_r.
  change headers_ValueSep with [44].
  rewrite (split_join l Hne C), (f_map_trim_clean l C), (f_filter_nonempty_clean l C).
  rewrite (f_forallb_token l H). reflexivity.
Qed.

Lemma f_filter_ext : forall (A : Type) (f g : A -> bool) l, (forall x, f x = g x) -> filter f l = filter g l.
Proof.
  intros A f g l E. induction l as [|x r IH]; [reflexivity|]. cbn [filter]. rewrite E, IH. reflexivity.
Qed.

(* tolerated renderings of a token list *)
Lemma f_extract_perturb : forall H lines, perturb H lines -> Forall (fun n => is_token n = true) H ->
  extract_vals lines = Some H.
Proof.
  intros H lines [names [HA [HF _]]] HT.
  unfold extract_vals. rewrite (f_all_names_trim _ _ HA).
  rewrite (f_filter_ext _ nonempty_b (fun x => negb (is_empty x)) names) by (intros [|? ?]; reflexivity).
  rewrite HF. rewrite (f_forallb_token H HT). reflexivity.
Qed.

Lemma f_extract_star : extract_vals headers_WildcardSgl = Some [v_star].
Proof. reflexivity. Qed.
Lemma f_extract_star_auth : extract_vals headers_WildcardAuthSgl = Some [v_star; headers_Authorization].
Proof. reflexivity. Qed.

(* ------------------------------------------------------------------------------------------ *)
(* 3. Sets and the method tables                                                               *)
(* ------------------------------------------------------------------------------------------ *)

Lemma f_mem_false : forall x l, mem x l = false <-> ~ In x l.
Proof.
  intros x l. split.
  - intros H Hin. apply mem_In in Hin. congruence.
  - intros H. destruct (mem x l) eqn:E; [|reflexivity]. apply mem_In in E. contradiction.
Qed.

Lemma f_set_contains_mem : forall s x, sset_inv s -> set_contains s x = mem x (elems s).
Proof.
  intros s x Hinv. unfold set_contains.
  assert (Hm : maxlen_ok s) by (intros y Hy; apply sset_inv_maxlen; assumption).
  pose proof (index_after_spec s (-1) x Hm ltac:(lia)) as H.
  change (skipn (Z.to_nat (-1 + 1)) (elems s)) with (elems s) in H.
  destruct (after x (elems s)) as [r|] eqn:A.
  - destruct H as [i [Hi [Hlt _]]]. rewrite Hi.
    destruct (after_split _ _ _ A) as [pre Hs].
    assert (Hin : In x (elems s)) by (rewrite Hs; apply in_or_app; right; left; reflexivity).
    apply mem_In in Hin. rewrite Hin. apply Z.leb_le. lia.
  - rewrite H. apply after_none in A. apply f_mem_false in A. rewrite A. reflexivity.
Qed.

Lemma f_safelisted : forall m, method_is_safelisted m = mem m safelisted_methods.
Proof.
  intros m. unfold method_is_safelisted, safelisted_methods_set.
  rewrite f_set_contains_mem by apply sset_inv_new_set. reflexivity.
Qed.

Lemma f_normalize : forall m, method_normalize m = fetch_normalize m.
Proof.
  intros m. unfold method_normalize, fetch_normalize, normalized_methods_set.
  rewrite f_set_contains_mem by apply sset_inv_new_set. reflexivity.
Qed.

Lemma f_map_normalize : forall l, map method_normalize l = map fetch_normalize l.
Proof. intros l. apply map_ext. exact f_normalize. Qed.

(* ------------------------------------------------------------------------------------------ *)
(* 4. Lower-casing and case-insensitive membership                                             *)
(* ------------------------------------------------------------------------------------------ *)

Lemma f_lower_byte_idem : forall c, lower_byte (lower_byte c) = lower_byte c.
Proof.
  intros c. unfold lower_byte.
  destruct ((65 <=? c) && (c <=? 90)) eqn:E; [|rewrite E; reflexivity].
  destruct ((65 <=? c + 32) && (c + 32 <=? 90)) eqn:F; [lia | reflexivity].
Qed.

Lemma f_lower_idem : forall s, lower (lower s) = lower s.
Proof.
  intros s. unfold lower. rewrite map_map. apply map_ext. exact f_lower_byte_idem.
Qed.

Lemma f_lower_byte_star : forall c, lower_byte c = 42 -> c = 42.
Proof. intros c. unfold lower_byte. destruct ((65 <=? c) && (c <=? 90)) eqn:E; lia. Qed.

Lemma f_lower_star : forall x, lower x = v_star -> x = v_star.
Proof.
  intros [|c [|d r]] H; try discriminate. cbn in H. injection H as H.
  apply f_lower_byte_star in H. subst. reflexivity.
Qed.

Lemma f_star_not_lowered : forall l,
  mem v_star (map lower (filter (fun x => negb (is_star x)) l)) = false.
Proof.
  induction l as [|x r IH]; [reflexivity|]. cbn [filter].
  unfold is_star at 1. destruct (beqb x v_star) eqn:E; cbn [negb]; [exact IH|].
  cbn [map mem]. rewrite IH, orb_false_r.
  destruct (beqb v_star (lower x)) eqn:F; [|reflexivity].
  apply beqb_eq in F. symmetry in F. apply f_lower_star in F. subst x. discriminate.
Qed.

Lemma f_ci_mem_lower : forall n l, lower n = n -> ci_mem n l = mem n (map lower l).
Proof. intros n l H. unfold ci_mem. rewrite H. reflexivity. Qed.

Lemma f_ci_mem_self : forall n l, In n l -> ci_mem n l = true.
Proof. intros n l H. unfold ci_mem. apply mem_In. apply in_map. exact H. Qed.

Lemma f_map_id_on : forall (l : list bytes), (forall e, In e l -> lower e = e) -> map lower l = l.
Proof.
  induction l as [|x r IH]; intros H; [reflexivity|]. cbn [map].
  rewrite (H x (or_introl eq_refl)), IH; [reflexivity|]. intros e He. apply H. right. exact He.
Qed.

(* "authorization" among the listed names *)
Lemma f_auth_listed : forall l,
  mem headers_Authorization (map lower (filter (fun x => negb (beqb x v_star)) l)) =
  existsb (fun n => beqb (lower n) headers_Authorization) l.
Proof.
  induction l as [|x r IH]; [reflexivity|]. cbn [filter existsb].
  destruct (beqb x v_star) eqn:E; cbn [negb].
  - apply beqb_eq in E. subst x. rewrite IH. reflexivity.
  - cbn [map mem]. rewrite IH, (f_beqb_sym headers_Authorization). reflexivity.
Qed.

(* ------------------------------------------------------------------------------------------ *)
(* 5. The preflight pipeline as values written into the buffer                                 *)
(* ------------------------------------------------------------------------------------------ *)

Definition acapn_val (ic : icfg) (req : hmap) : option (list bytes) * bool :=
  match first req headers_ACRPN with
  | None => (None, true)
  | Some v =>
      if negb (beqb v headers_ValueTrue) then (None, true)
      else if i_pna ic || i_pna_nocors ic then (Some headers_TrueSgl, true)
      else (None, false)
  end.

Definition acam_val (ic : icfg) (acrm : bytes) : option (list bytes) * bool :=
  if method_is_safelisted acrm then (None, true)
  else if i_any_method ic && negb (i_cred ic) then (Some headers_WildcardSgl, true)
  else if i_any_method ic || set_contains (i_methods ic) acrm then (Some [acrm], true)
  else (None, false).

Definition acah_val (ic : icfg) (acrh : option (list bytes)) (debug : bool) : option (list bytes) * bool :=
  match acrh with
  | None => (None, true)
  | Some lines =>
      if i_asterisk_req ic && negb (i_cred ic) then
        (Some (if i_allow_auth ic then headers_WildcardAuthSgl else headers_WildcardSgl), true)
      else if i_asterisk_req ic && i_cred ic then (Some lines, true)
      else if negb debug then
        if sset_size (i_req_hdrs ic) =? 0 then (None, false)
        else if negb (check (i_req_hdrs ic) lines) then (None, false)
        else (Some lines, true)
      else match i_acah ic with
           | Some v => (Some [v], true)
           | None => (None, false)
           end
  end.

Lemma f_process_acrpn : forall ic buf req,
  process_acrpn ic buf req = (oset buf headers_ACAPN (fst (acapn_val ic req)), snd (acapn_val ic req)).
Proof.
  intros ic buf req. unfold process_acrpn, acapn_val.
  destruct (first req headers_ACRPN) as [v|]; [|reflexivity].
  destruct (negb (beqb v headers_ValueTrue)); [reflexivity|].
  destruct (i_pna ic || i_pna_nocors ic); reflexivity.
Qed.

Lemma f_process_acrm : forall ic buf acrm,
  process_acrm ic buf acrm = (oset buf headers_ACAM (fst (acam_val ic acrm)), snd (acam_val ic acrm)).
Proof.
  intros ic buf acrm. unfold process_acrm, acam_val.
  destruct (method_is_safelisted acrm); [reflexivity|].
  destruct (i_any_method ic && negb (i_cred ic)); [reflexivity|].
  destruct (i_any_method ic || set_contains (i_methods ic) acrm); reflexivity.
Qed.

Lemma f_process_acrh : forall ic buf req debug,
  process_acrh ic buf req debug =
  (oset buf headers_ACAH (fst (acah_val ic (hget req headers_ACRH) debug)),
   snd (acah_val ic (hget req headers_ACRH) debug)).
Proof.
  intros ic buf req debug. unfold process_acrh, acah_val.
  destruct (hget req headers_ACRH) as [lines|]; [|reflexivity].
  destruct (i_asterisk_req ic && negb (i_cred ic)); [reflexivity|].
  destruct (i_asterisk_req ic && i_cred ic); [reflexivity|].
  destruct (negb debug).
  - destruct (sset_size (i_req_hdrs ic) =? 0); [reflexivity|].
    destruct (negb (check (i_req_hdrs ic) lines)); reflexivity.
  - destruct (i_acah ic); reflexivity.
Qed.

Lemma f_acapn_fail : forall ic req, snd (acapn_val ic req) = false -> fst (acapn_val ic req) = None.
Proof.
  intros ic req. unfold acapn_val. destruct (first req headers_ACRPN); [|reflexivity].
  destruct (negb _); [reflexivity|]. destruct (i_pna ic || i_pna_nocors ic); [discriminate|reflexivity].
Qed.

Lemma f_acam_fail : forall ic m, snd (acam_val ic m) = false -> fst (acam_val ic m) = None.
Proof.
  intros ic m. unfold acam_val. destruct (method_is_safelisted m); [reflexivity|].
  destruct (i_any_method ic && negb (i_cred ic)); [discriminate|].
  destruct (i_any_method ic || set_contains (i_methods ic) m); [discriminate|reflexivity].
Qed.

Lemma f_acah_fail : forall ic a d, snd (acah_val ic a d) = false -> fst (acah_val ic a d) = None.
Proof.
  intros ic a d. unfold acah_val. destruct a as [lines|]; [|reflexivity].
  destruct (i_asterisk_req ic && negb (i_cred ic)); [discriminate|].
  destruct (i_asterisk_req ic && i_cred ic); [discriminate|].
  destruct (negb d).
  - destruct (sset_size (i_req_hdrs ic) =? 0); [reflexivity|].
    destruct (negb (check (i_req_hdrs ic) lines)); [reflexivity|discriminate].
  - destruct (i_acah ic); [discriminate|reflexivity].
Qed.

(* what the preflight response looks like once the origin step has succeeded *)
Lemma f_handle_preflight_view : forall ic req org acrm dbg buf1,
  process_origin_preflight ic [] org = (buf1, true) -> ukeys buf1 ->
  hget buf1 headers_ACAPN = None -> hget buf1 headers_ACAM = None -> hget buf1 headers_ACAH = None ->
  let vp := acapn_val ic req in
  let vm := acam_val ic acrm in
  let vh := acah_val ic (hget req headers_ACRH) dbg in
  let r := handle_preflight ic [] req org acrm dbg in
  if (snd vp && snd vm && snd vh) || dbg then
    snd r = success_status ic /\
    hget (fst r) headers_ACAO = hget buf1 headers_ACAO /\
    hget (fst r) headers_ACAC = hget buf1 headers_ACAC /\
    hget (fst r) headers_ACAPN = fst vp /\
    hget (fst r) headers_ACAM = (if snd vp then fst vm else None) /\
    hget (fst r) headers_ACAH = (if snd vp && snd vm then fst vh else None)
  else snd r = 403%Z.
Proof.
  intros ic req org acrm dbg buf1 HO U N1 N2 N3 vp vm vh r.
  assert (E : r = handle_preflight ic [] req org acrm dbg) by reflexivity. clearbody r.
  unfold handle_preflight in E. rewrite HO in E.
  rewrite f_process_acrpn in E. cbv beta iota in E.
  rewrite f_process_acrm in E. cbv beta iota in E.
  rewrite f_process_acrh in E. cbv beta iota in E.
  change (hget [] headers_Vary) with (@None (list bytes)) in E. cbv beta iota in E.
  pose proof (f_acapn_fail ic req) as Fp. pose proof (f_acam_fail ic acrm) as Fm.
  pose proof (f_acah_fail ic (hget req headers_ACRH) dbg) as Fh.
  change (acapn_val ic req) with vp in E, Fp. change (acam_val ic acrm) with vm in E, Fm.
  change (acah_val ic (hget req headers_ACRH) dbg) with vh in E, Fh.
  clearbody vp vm vh.
  destruct vp as [vp okp], vm as [vm okm], vh as [vh okh]. cbn [fst snd] in *.
  destruct okp; [|specialize (Fp eq_refl); subst vp]; (destruct okm; [|specialize (Fm eq_refl); subst vm]);
    (destruct okh; [|specialize (Fh eq_refl); subst vh]); destruct dbg; cbn [andb orb fst snd];
    try (destruct (i_acma ic)); subst r; cbn [fst snd];
    try reflexivity;
    (split; [reflexivity|]); hsimp; rewrite ?N1, ?N2, ?N3;
    repeat split; try reflexivity;
    try (destruct (hget buf1 headers_ACAO); reflexivity);
    try (destruct (hget buf1 headers_ACAC); reflexivity);
    try (destruct vp; reflexivity); try (destruct vm; reflexivity); try (destruct vh; reflexivity).
Qed.

(* ------------------------------------------------------------------------------------------ *)
(* 6. The browser's checks as functions of the map entries they read                           *)
(* ------------------------------------------------------------------------------------------ *)

Definition hval (o : option (list bytes)) : option bytes :=
  match o with
  | None | Some [] => None
  | Some vs => Some (join (b ", ") vs)
  end.

Lemma f_header_get : forall h k, header_get h k = hval (hget h k).
Proof. reflexivity. Qed.

Definition cors_chk (i : intent) (ao ac : option (list bytes)) : bool :=
  match hval ao with
  | None => false
  | Some o =>
      if negb (in_credentials i) && beqb o v_star then true
      else if negb (beqb o (in_origin i)) then false
      else if negb (in_credentials i) then true
      else match hval ac with Some v => beqb v v_true | None => false end
  end.

Lemma f_cors_check : forall i h, cors_check i h = cors_chk i (hget h headers_ACAO) (hget h headers_ACAC).
Proof. reflexivity. Qed.

Lemma f_cors_chk_val : forall i x (vc : bool),
  cors_chk i (Some [x]) (if vc then Some headers_TrueSgl else None) =
  if negb (in_credentials i) && beqb x v_star then true
  else if negb (beqb x (in_origin i)) then false
  else if negb (in_credentials i) then true else vc.
Proof. intros i x [|]; reflexivity. Qed.

Definition pna_chk (i : intent) (v : option (list bytes)) : bool :=
  if in_pna i then match hval v with Some x => beqb x v_true | None => false end else true.

Definition meth_chk (i : intent) (ms : list bytes) : bool :=
  negb (negb (mem (in_method i) ms) && negb (mem (in_method i) safelisted_methods) &&
        (in_credentials i || negb (mem v_star ms))).

Definition hdr_chk (i : intent) (ns : list bytes) : bool :=
  forallb (fun n => negb (beqb n (b "authorization")) || ci_mem n ns) (in_headers i) &&
  forallb (fun n => ci_mem n ns || (negb (in_credentials i) && mem v_star ns)) (in_headers i).

Definition meth_chk' (i : intent) (v : option (list bytes)) : bool :=
  match ext v with Some ms => meth_chk i ms | None => false end.
Definition hdr_chk' (i : intent) (v : option (list bytes)) : bool :=
  match ext v with Some ns => hdr_chk i ns | None => false end.

Lemma f_preflight_ok : forall i h s d,
  preflight_ok i {| o_hdrs := h; o_status := Some s; o_delegated := d |} =
  cors_chk i (hget h headers_ACAO) (hget h headers_ACAC) && ok_status s &&
  pna_chk i (hget h headers_ACAPN) && meth_chk' i (hget h headers_ACAM) && hdr_chk' i (hget h headers_ACAH).
Proof.
  intros i h s d. unfold preflight_ok. cbn [o_status o_hdrs].
  rewrite !f_extract_list, f_cors_check.
  unfold meth_chk', hdr_chk'.
  change h_acam with headers_ACAM. change h_acah with headers_ACAH.
  change (if in_pna i then match header_get h h_acapn with Some v => beqb v v_true | None => false end else true)
    with (pna_chk i (hget h headers_ACAPN)).
  destruct (ext (hget h headers_ACAM)) as [ms|]; destruct (ext (hget h headers_ACAH)) as [ns|];
    rewrite ?andb_false_r; try reflexivity.
  unfold meth_chk, hdr_chk. rewrite !andb_assoc. reflexivity.
Qed.

(* the two requests, as the code reads them *)
Lemma f_pre_origin : forall i lines,
  first (r_hdrs (preflight_request i lines)) headers_Origin = Some (in_origin i).
Proof. reflexivity. Qed.
Lemma f_pre_acrm : forall i lines,
  first (r_hdrs (preflight_request i lines)) headers_ACRM = Some (in_method i).
Proof. reflexivity. Qed.
Lemma f_pre_acrh : forall i lines,
  hget (r_hdrs (preflight_request i lines)) headers_ACRH =
  match in_headers i with [] => None | _ => Some lines end.
Proof. intros i lines. unfold preflight_request. cbn [r_hdrs]. destruct (in_headers i), (in_pna i); reflexivity. Qed.
Lemma f_pre_acrpn : forall i lines,
  first (r_hdrs (preflight_request i lines)) headers_ACRPN =
  if in_pna i then Some headers_ValueTrue else None.
Proof. intros i lines. unfold preflight_request. cbn [r_hdrs]. destruct (in_headers i), (in_pna i); reflexivity. Qed.
Lemma f_act_origin : forall i, first (r_hdrs (actual_request i)) headers_Origin = Some (in_origin i).
Proof. reflexivity. Qed.
Lemma f_act_acrm : forall i, first (r_hdrs (actual_request i)) headers_ACRM = None.
Proof. reflexivity. Qed.

Lemma f_serve_preflight : forall ic dbg i lines,
  serve (Some ic) dbg (preflight_request i lines) [] =
  let r := handle_preflight ic [] (r_hdrs (preflight_request i lines)) (in_origin i) (in_method i) dbg in
  {| o_hdrs := fst r; o_status := Some (snd r); o_delegated := false |}.
Proof.
  intros ic dbg i lines. unfold serve. rewrite f_pre_origin, f_pre_acrm.
  change (r_method (preflight_request i lines)) with m_options. rewrite f_m_options.
  cbv zeta. destruct (handle_preflight _ _ _ _ _ _). reflexivity.
Qed.

Lemma f_serve_actual : forall ic dbg i,
  serve (Some ic) dbg (actual_request i) [] =
  {| o_hdrs := handle_actual ic [] (in_origin i) (beqb (in_method i) method_options);
     o_status := None; o_delegated := true |}.
Proof. intros ic dbg i. unfold serve. rewrite f_act_origin, f_act_acrm. reflexivity. Qed.

(* ------------------------------------------------------------------------------------------ *)
(* 7. An accepted configuration                                                                *)
(* ------------------------------------------------------------------------------------------ *)

Section C02.
Variable ace : bytes -> bool.
Variable ip6 : bytes -> ipres.
Variable c : config.
Variable ic : icfg.
Hypothesis R : icfg_rel ace ip6 c ic.
Hypothesis VP : Forall valid_pattern (cfg_patterns ace ip6 c).

Let pats := cfg_patterns ace ip6 c.

Definition orig_ok (i : intent) : bool := lists_star (c_origins c) || value_allowed pats (in_origin i).
Definition cred_ok (i : intent) : bool := negb (in_credentials i) || c_credentialed c.
Definition meth_ok (i : intent) : bool :=
  mem (in_method i) safelisted_methods || lists_star (c_methods c) ||
  mem (in_method i) (map fetch_normalize (c_methods c)).
Definition hdrs_ok (i : intent) : bool :=
  forallb (fun n =>
             ci_mem n (filter (fun x => negb (beqb x v_star)) (c_req_headers c)) ||
             (lists_star (c_req_headers c) && (negb (beqb n (b "authorization")) || c_credentialed c)))
          (in_headers i).
Definition pna_ok (i : intent) : bool := negb (in_pna i) || c_pna c || c_pna_nocors c.

Lemma f_permits : forall i,
  permits c pats i =
  orig_ok i && cred_ok i && meth_ok i && hdrs_ok i && (negb (in_pna i) || c_pna c) && negb (c_pna_nocors c).
Proof. reflexivity. Qed.

Lemma f_star_facts : lists_star (c_origins c) = true ->
  tree_is_empty (i_tree ic) = true /\ i_cred ic = false /\ c_credentialed c = false.
Proof.
  intros S. destruct (rel_star _ _ _ _ R S) as [H1 _].
  rewrite (rel_tree_empty _ _ _ _ R), (rel_cred _ _ _ _ R). auto.
Qed.

Lemma f_tree_contains : forall v o, lists_star (c_origins c) = false -> parse v = Some o ->
  tree_contains (i_tree ic) o = allowed_by pats o.
Proof.
  intros v o S P. rewrite (rel_tree _ _ _ _ R), S.
  apply tree_contains_build; [exact VP | exact (parse_valid_origin _ _ P)].
Qed.

(* the origin step of the preflight pipeline *)
Lemma f_origin_stage : forall i, orig_ok i = true -> cred_ok i = true ->
  (lists_star (c_origins c) = true -> parse (in_origin i) <> None) ->
  exists buf1, process_origin_preflight ic [] (in_origin i) = (buf1, true) /\ ukeys buf1 /\
    hget buf1 headers_ACAPN = None /\ hget buf1 headers_ACAM = None /\ hget buf1 headers_ACAH = None /\
    cors_chk i (hget buf1 headers_ACAO) (hget buf1 headers_ACAC) = true.
Proof.
  intros i HO HC HP. unfold orig_ok in HO. unfold cred_ok in HC. unfold process_origin_preflight.
  destruct (lists_star (c_origins c)) eqn:S.
  - destruct (f_star_facts S) as [T [C1 C2]]. specialize (HP eq_refl).
    destruct (parse (in_origin i)) as [o|]; [|congruence].
    rewrite T, C1. cbn [negb andb].
    exists (hset [] headers_ACAO headers_WildcardSgl).
    split; [reflexivity|]. split; [apply f_ukeys_hset; exact I|].
    hsimp. repeat split.
    change headers_WildcardSgl with [v_star].
    rewrite (f_cors_chk_val i v_star false).
    rewrite C2, orb_false_r in HC. rewrite HC. reflexivity.
  - cbn [orb] in HO. unfold value_allowed in HO.
    destruct (parse (in_origin i)) as [o|] eqn:P; [|discriminate].
    rewrite (rel_tree_empty _ _ _ _ R), S, andb_false_r.
    rewrite (f_tree_contains _ _ S P), HO. cbn [negb].
    exists (oset (hset [] headers_ACAO [in_origin i]) headers_ACAC
                 (if i_cred ic then Some headers_TrueSgl else None)).
    split; [destruct (i_cred ic); reflexivity|].
    split; [apply f_ukeys_oset, f_ukeys_hset; exact I|].
    hsimp. repeat split.
    replace (match (if i_cred ic then Some headers_TrueSgl else None) with Some v => Some v | None => None end)
      with (if i_cred ic then Some headers_TrueSgl else @None (list bytes)) by (destruct (i_cred ic); reflexivity).
    rewrite (f_cors_chk_val i (in_origin i) (i_cred ic)).
    rewrite beqb_refl. cbn [negb]. rewrite (rel_cred _ _ _ _ R).
    destruct (in_credentials i); cbn [negb andb orb] in *; [exact HC|].
    destruct (beqb (in_origin i) v_star); reflexivity.
Qed.

(* the response to the actual request *)
Lemma f_actual : forall i opt,
  cors_check i (handle_actual ic [] (in_origin i) opt) = orig_ok i && cred_ok i && negb (c_pna_nocors c).
Proof.
  intros i opt. rewrite f_cors_check. unfold handle_actual, orig_ok, cred_ok.
  rewrite (rel_pna_nocors _ _ _ _ R).
  destruct (c_pna_nocors c).
  { rewrite andb_false_r. destruct opt; rewrite ?f_hadd_nil; hsimp; reflexivity. }
  rewrite andb_true_r.
  set (res1 := if opt then hadd [] headers_Vary headers_ValueVaryOptions
               else if negb (tree_is_empty (i_tree ic)) then hadd [] headers_Vary headers_Origin else []).
  assert (N1 : hget res1 headers_ACAO = None).
  { subst res1. destruct opt; [|destruct (negb _)]; rewrite ?f_hadd_nil; hsimp; reflexivity. }
  assert (N2 : hget res1 headers_ACAC = None).
  { subst res1. destruct opt; [|destruct (negb _)]; rewrite ?f_hadd_nil; hsimp; reflexivity. }
  clearbody res1.
  destruct (lists_star (c_origins c)) eqn:S.
  - destruct (f_star_facts S) as [T [C1 C2]]. rewrite T, C1, C2. cbn [negb andb orb].
    rewrite orb_false_r.
    assert (X : cors_chk i (Some [headers_ValueWildcard]) None = negb (in_credentials i)).
    { change (cors_chk i (Some [headers_ValueWildcard]) None)
        with (cors_chk i (Some [v_star]) None).
      rewrite (f_cors_chk_val i v_star false). destruct (in_credentials i); cbn [negb andb]; [|reflexivity].
      destruct (beqb v_star (in_origin i)); reflexivity. }
    destruct (i_aceh ic); hsimp; rewrite ?N2; exact X.
  - rewrite (rel_tree_empty _ _ _ _ R), S, andb_false_r. cbn [orb]. unfold value_allowed.
    destruct (parse (in_origin i)) as [o|] eqn:P.
    + rewrite (f_tree_contains _ _ S P).
      destruct (allowed_by pats o); cbn [negb andb].
      * assert (X : cors_chk i (Some [in_origin i]) (if i_cred ic then Some headers_TrueSgl else None)
                    = negb (in_credentials i) || c_credentialed c).
        { rewrite (f_cors_chk_val i (in_origin i) (i_cred ic)), beqb_refl, (rel_cred _ _ _ _ R). cbn [negb].
          destruct (in_credentials i); cbn [negb andb orb]; [reflexivity|].
          destruct (beqb (in_origin i) v_star); reflexivity. }
        rewrite <- X.
        destruct (i_aceh ic); destruct (i_cred ic); hsimp; rewrite ?N2; reflexivity.
      * rewrite N1. reflexivity.
    + rewrite N1. reflexivity.
Qed.

(* the private-network step *)
Lemma f_pna_stage : forall i lines,
  let vp := acapn_val ic (r_hdrs (preflight_request i lines)) in
  snd vp = pna_ok i /\ pna_chk i (fst vp) = snd vp.
Proof.
  intros i lines. cbv zeta. unfold acapn_val. rewrite f_pre_acrpn. unfold pna_ok, pna_chk.
  rewrite (rel_pna _ _ _ _ R), (rel_pna_nocors _ _ _ _ R).
  destruct (in_pna i); [|split; reflexivity].
  rewrite beqb_refl. cbn [negb orb].
  destruct (c_pna c), (c_pna_nocors c); split; reflexivity.
Qed.

(* the method step *)
Lemma f_meth_stage : forall i, is_token (in_method i) = true -> cred_ok i = true ->
  let vm := acam_val ic (in_method i) in
  snd vm = meth_ok i /\ meth_chk' i (fst vm) = snd vm.
Proof.
  intros i HT HC. cbv zeta. unfold acam_val, meth_ok, cred_ok in *. rewrite f_safelisted.
  destruct (mem (in_method i) safelisted_methods) eqn:SL.
  { split; [reflexivity|]. cbn [fst snd]. unfold meth_chk', meth_chk. cbn [ext mem].
    rewrite SL. reflexivity. }
  rewrite (rel_any_method _ _ _ _ R), (rel_cred _ _ _ _ R). cbn [orb].
  assert (Echo : meth_chk' i (Some [in_method i]) = true).
  { unfold meth_chk', meth_chk. cbn [ext]. rewrite (f_extract_token _ HT).
    cbn [mem]. rewrite beqb_refl. reflexivity. }
  destruct (lists_star (c_methods c)) eqn:AM; cbn [andb orb].
  - destruct (c_credentialed c) eqn:CC; cbn [negb fst snd].
    + split; [reflexivity | exact Echo].
    + split; [reflexivity|]. rewrite orb_false_r in HC. apply negb_true_iff in HC.
      unfold meth_chk', meth_chk. cbn [ext]. rewrite f_extract_star, HC.
      change (mem v_star [v_star]) with true. cbn [negb orb]. rewrite andb_false_r. reflexivity.
  - rewrite (rel_methods _ _ _ _ R), AM, f_safelisted, SL, f_map_normalize. cbn [negb andb].
    rewrite andb_true_r.
    destruct (mem (in_method i) (map fetch_normalize (c_methods c))); cbn [fst snd].
    + split; [reflexivity | exact Echo].
    + split; [reflexivity|]. unfold meth_chk', meth_chk. cbn [ext mem]. rewrite SL.
      cbn [negb andb]. rewrite orb_true_r. reflexivity.
Qed.

(* the request-header step *)
Lemma f_forallb_ext_in : forall (A : Type) (f g : A -> bool) l,
  (forall x, In x l -> f x = g x) -> forallb f l = forallb g l.
Proof.
  intros A f g l. induction l as [|x r IH]; intros H; [reflexivity|]. cbn [forallb].
  rewrite (H x (or_introl eq_refl)), IH; [reflexivity|]. intros y Hy. apply H. right. exact Hy.
Qed.

Lemma f_forallb_and : forall (A : Type) (f g : A -> bool) l,
  forallb f l && forallb g l = forallb (fun x => f x && g x) l.
Proof.
  intros A f g l. induction l as [|x r IH]; [reflexivity|]. cbn [forallb]. rewrite <- IH.
  destruct (f x), (g x), (forallb f r); reflexivity.
Qed.

Lemma f_forallb_true : forall (A : Type) (f : A -> bool) l, (forall x, In x l -> f x = true) -> forallb f l = true.
Proof. intros A f l H. apply forallb_forall. exact H. Qed.

Lemma f_hdrs_discrete : forall i, lists_star (c_req_headers c) = false ->
  Forall (fun n => is_token n = true /\ lower n = n) (in_headers i) ->
  hdrs_ok i = forallb (fun n => mem n (elems (i_req_hdrs ic))) (in_headers i).
Proof.
  intros i AS HT. unfold hdrs_ok. rewrite AS. apply f_forallb_ext_in. intros n Hn.
  rewrite Forall_forall in HT. destruct (HT n Hn) as [_ Hl].
  cbn [andb]. rewrite orb_false_r. rewrite (f_ci_mem_lower _ _ Hl).
  rewrite (rel_req_elems _ _ _ _ R), AS. reflexivity.
Qed.

Lemma f_hdr_chk_self : forall i, hdr_chk i (in_headers i) = true.
Proof.
  intros i. unfold hdr_chk. apply andb_true_iff. split; apply f_forallb_true; intros n Hn;
    rewrite (f_ci_mem_self _ _ Hn); [apply orb_true_r | reflexivity].
Qed.

Lemma f_hdr_chk_nil : forall i, in_headers i <> [] -> hdr_chk i [] = false.
Proof.
  intros i Hne. unfold hdr_chk. destruct (in_headers i) as [|n r]; [congruence|].
  cbn [forallb]. unfold ci_mem at 2. cbn [map mem]. rewrite andb_false_r. cbn [orb andb].
  apply andb_false_r.
Qed.

Lemma f_spec_check_perturb : forall allowed H lines, perturb H lines -> strictly_increasing H = true ->
  spec_check allowed lines = forallb (fun x => mem x allowed) H.
Proof.
  intros allowed H lines [names [HA [HF HL]]] SI. unfold spec_check. rewrite HA. cbv zeta.
  rewrite HF, SI, andb_true_r.
  replace (length (filter is_empty names) <=? max_empty_elements)%nat with true; [reflexivity|].
  symmetry. apply Nat.leb_le. exact HL.
Qed.

Hypothesis TOK : Forall (fun n => is_token n = true) (elems (i_req_hdrs ic)).

Lemma f_elems_lower : map lower (elems (i_req_hdrs ic)) = elems (i_req_hdrs ic).
Proof.
  apply f_map_id_on. intros e He. apply mem_In in He.
  rewrite (rel_req_elems _ _ _ _ R) in He. apply andb_true_iff in He. destruct He as [_ He].
  apply mem_In in He. apply in_map_iff in He. destruct He as [x [Hx _]]. subst e. apply f_lower_idem.
Qed.

Lemma f_elems_no_star : mem v_star (elems (i_req_hdrs ic)) = false.
Proof. rewrite (rel_req_elems _ _ _ _ R), f_star_not_lowered. apply andb_false_r. Qed.

Lemma f_hdr_stage : forall i lines dbg,
  strictly_increasing (in_headers i) = true ->
  Forall (fun n => is_token n = true /\ lower n = n) (in_headers i) ->
  perturb (in_headers i) lines -> cred_ok i = true ->
  let vh := acah_val ic (match in_headers i with [] => None | _ => Some lines end) dbg in
  hdr_chk' i (fst vh) = hdrs_ok i.
Proof.
  intros i lines dbg SI HT PT HC. cbv zeta.
  assert (HTok : Forall (fun n => is_token n = true) (in_headers i)).
  { eapply Forall_impl; [|exact HT]. intros n [Hn _]. exact Hn. }
  destruct (in_headers i) as [|n0 r0] eqn:EH.
  { cbn [acah_val fst]. unfold hdr_chk', hdrs_ok, hdr_chk. rewrite EH. reflexivity. }
  rewrite <- EH in *.
  assert (NE : in_headers i <> []) by (rewrite EH; discriminate).
  assert (Nil : hdr_chk' i None = false) by (unfold hdr_chk'; cbn [ext]; exact (f_hdr_chk_nil i NE)).
  assert (Own : hdr_chk' i (Some lines) = true).
  { unfold hdr_chk'. cbn [ext]. rewrite (f_extract_perturb _ _ PT HTok). apply f_hdr_chk_self. }
  clear EH n0 r0.
  unfold acah_val.
  rewrite (rel_asterisk _ _ _ _ R), (rel_cred _ _ _ _ R), (rel_auth _ _ _ _ R).
  destruct (lists_star (c_req_headers c)) eqn:AS.
  - destruct (c_credentialed c) eqn:CC; cbn [negb andb fst].
    + (* every name, credentialed: the request's own lines are reflected *)
      rewrite Own. symmetry. unfold hdrs_ok. rewrite AS, CC. apply f_forallb_true. intros n _.
      rewrite orb_true_r. apply orb_true_r.
    + (* every name, not credentialed: "*" or "*,authorization" *)
      unfold cred_ok in HC. rewrite CC, orb_false_r in HC. apply negb_true_iff in HC.
      unfold hdrs_ok. rewrite AS, CC. unfold hdr_chk'.
      rewrite <- (f_auth_listed (c_req_headers c)).
      set (F := filter (fun x => negb (beqb x v_star)) (c_req_headers c)).
      assert (PW : forall names, mem v_star names = true ->
                mem headers_Authorization (map lower names) = mem headers_Authorization (map lower F) ->
                hdr_chk i names =
                forallb (fun n => ci_mem n F || true && (negb (beqb n (b "authorization")) || false)) (in_headers i)).
      { intros names Hs Ha. unfold hdr_chk. rewrite f_forallb_and. apply f_forallb_ext_in. intros n Hn.
        rewrite Hs, HC. cbn [negb andb]. rewrite !orb_true_r, andb_true_r, orb_false_r.
        destruct (beqb n (b "authorization")) eqn:EA; cbn [negb orb].
        - apply beqb_eq in EA. subst n. rewrite orb_false_r.
          rewrite !(f_ci_mem_lower (b "authorization")) by reflexivity. exact Ha.
        - rewrite orb_true_r. reflexivity. }
      clearbody F. remember (mem headers_Authorization (map lower F)) as au eqn:AU.
      destruct au; cbn [ext].
      * rewrite f_extract_star_auth. apply PW; reflexivity.
      * rewrite f_extract_star. apply PW; reflexivity.
  - (* discrete names *)
    cbn [andb]. rewrite (f_hdrs_discrete i AS HT).
    assert (Empty : (sset_size (i_req_hdrs ic) =? 0) = true ->
                    forallb (fun n => mem n (elems (i_req_hdrs ic))) (in_headers i) = false).
    { intros SZ. apply N.eqb_eq in SZ. unfold sset_size in SZ.
      destruct (elems (i_req_hdrs ic)); [|discriminate].
      destruct (in_headers i); [congruence | reflexivity]. }
    destruct dbg; cbn [negb].
    + rewrite (rel_acah _ _ _ _ R).
      destruct (sset_size (i_req_hdrs ic) =? 0) eqn:SZ; cbn [fst].
      * rewrite Nil, (Empty eq_refl). reflexivity.
      * unfold hdr_chk'. cbn [ext]. rewrite f_extract_join; [| |exact TOK].
        2:{ intros E. unfold sset_size in SZ. rewrite E in SZ. discriminate. }
        unfold hdr_chk. rewrite f_forallb_and. apply f_forallb_ext_in. intros n Hn.
        rewrite Forall_forall in HT. destruct (HT n Hn) as [_ Hl].
        rewrite (f_ci_mem_lower _ _ Hl), f_elems_lower, f_elems_no_star, andb_false_r, orb_false_r.
        destruct (mem n (elems (i_req_hdrs ic))); [rewrite orb_true_r|rewrite andb_false_r]; reflexivity.
    + destruct (sset_size (i_req_hdrs ic) =? 0) eqn:SZ; cbn [fst].
      * rewrite Nil, (Empty eq_refl). reflexivity.
      * rewrite (check_spec _ lines (rel_req_inv _ _ _ _ R)), (f_spec_check_perturb _ _ _ PT SI).
        destruct (forallb (fun x => mem x (elems (i_req_hdrs ic))) (in_headers i)); cbn [negb fst];
          [exact Own | exact Nil].
Qed.

Lemma f_hdr_fail : forall i lines dbg,
  strictly_increasing (in_headers i) = true ->
  Forall (fun n => is_token n = true /\ lower n = n) (in_headers i) ->
  perturb (in_headers i) lines -> cred_ok i = true ->
  snd (acah_val ic (match in_headers i with [] => None | _ => Some lines end) dbg) = false ->
  hdrs_ok i = false.
Proof.
  intros i lines dbg SI HT PT HC F.
  rewrite <- (f_hdr_stage i lines dbg SI HT PT HC). cbv zeta.
  rewrite (f_acah_fail _ _ _ F). unfold hdr_chk'. cbn [ext]. apply f_hdr_chk_nil.
  intros E. rewrite E in F. discriminate.
Qed.

Lemma f_status_ok : ok_status (success_status ic) = true.
Proof.
  unfold ok_status, success_status. destruct (rel_status _ _ _ _ R) as [_ HS]. clear R VP TOK.
  apply andb_true_iff. split; apply Z.leb_le; lia.
Qed.

(* the preflight response, when the origin is allowed and the credentials mode is acceptable *)
Lemma f_preflight : forall i lines dbg,
  wf_intent i -> perturb (in_headers i) lines ->
  orig_ok i = true -> cred_ok i = true ->
  (lists_star (c_origins c) = true -> parse (in_origin i) <> None) ->
  preflight_ok i (serve (Some ic) dbg (preflight_request i lines) []) = pna_ok i && meth_ok i && hdrs_ok i.
Proof.
  intros i lines dbg [WM [SI HT]] PT OO CO HP.
  rewrite f_serve_preflight. cbv zeta. rewrite f_preflight_ok.
  destruct (f_origin_stage i OO CO HP) as [buf1 [E1 [U [N1 [N2 [N3 CK]]]]]].
  pose proof (f_handle_preflight_view ic (r_hdrs (preflight_request i lines)) (in_origin i) (in_method i)
                dbg buf1 E1 U N1 N2 N3) as V. cbv zeta in V.
  rewrite f_pre_acrh in V.
  destruct (f_pna_stage i lines) as [P1 P2].
  destruct (f_meth_stage i WM CO) as [M1 M2].
  pose proof (f_hdr_stage i lines dbg SI HT PT CO) as H2. cbv zeta in H2.
  pose proof (f_hdr_fail i lines dbg SI HT PT CO) as H1.
  set (r := handle_preflight ic [] (r_hdrs (preflight_request i lines)) (in_origin i) (in_method i) dbg) in *.
  set (vp := acapn_val ic (r_hdrs (preflight_request i lines))) in *.
  set (vm := acam_val ic (in_method i)) in *.
  set (vh := acah_val ic (match in_headers i with [] => None | _ => Some lines end) dbg) in *.
  clearbody r vp vm vh.
  rewrite <- P1, <- M1.
  destruct (snd vp && snd vm && snd vh || dbg) eqn:G.
  - destruct V as [V0 [V1 [V2 [V3 [V4 V5]]]]].
    rewrite V0, V1, V2, V3, V4, V5, CK.
    rewrite f_status_ok. cbn [andb]. rewrite P2.
    destruct (snd vp); cbn [andb]; [|reflexivity].
    destruct (snd vm) eqn:SM; cbn [andb].
    + rewrite M2, H2. reflexivity.
    + rewrite M2. reflexivity.
  - apply orb_false_iff in G. destruct G as [G1 G2].
    rewrite V. change (ok_status 403) with false. rewrite andb_false_r. cbn [andb].
    symmetry.
    destruct (snd vp); cbn [andb]; [|reflexivity].
    destruct (snd vm); cbn [andb] in *; [|reflexivity].
    apply H1. exact G1.
Qed.

Lemma f_no_preflight : forall i, needs_preflight i = false ->
  meth_ok i = true /\ hdrs_ok i = true /\ in_pna i = false.
Proof.
  intros i NP. unfold needs_preflight in NP.
  apply orb_false_iff in NP. destruct NP as [NP P3]. apply orb_false_iff in NP. destruct NP as [P1 P2].
  apply negb_false_iff in P1. apply negb_false_iff in P2.
  unfold meth_ok, hdrs_ok. rewrite P1. destruct (in_headers i); [|discriminate]. auto.
Qed.

(* C02, with the weakest condition on the Origin value that the model satisfies: under an
   allow-all configuration a preflight whose Origin does not parse is refused (403), whereas the
   actual request is answered with "*" *)
Theorem f_C02 : forall i lines dbg,
  wf_intent i -> perturb (in_headers i) lines ->
  (lists_star (c_origins c) = true -> needs_preflight i = true -> parse (in_origin i) <> None) ->
  browser_verdict i (serve (Some ic) dbg (preflight_request i lines) [])
                    (serve (Some ic) dbg (actual_request i) []) = permits c pats i.
Proof.
  intros i lines dbg WF PT HP. unfold browser_verdict.
  rewrite f_permits.
  rewrite (f_serve_actual ic dbg i). cbn [o_delegated o_hdrs]. rewrite f_actual.
  destruct (orig_ok i) eqn:OO; [|rewrite andb_false_r; reflexivity].
  destruct (cred_ok i) eqn:CO; [|rewrite andb_false_r; reflexivity].
  destruct (c_pna_nocors c) eqn:NC; [rewrite !andb_false_r; reflexivity|].
  cbn [andb negb]. rewrite !andb_true_r.
  destruct (needs_preflight i) eqn:NP.
  - rewrite (f_preflight i lines dbg WF PT OO CO (fun S => HP S eq_refl)).
    rewrite f_serve_preflight. cbv zeta. cbn [o_delegated negb andb].
    unfold pna_ok. rewrite NC, orb_false_r.
    destruct (negb (in_pna i) || c_pna c), (meth_ok i), (hdrs_ok i); reflexivity.
  - destruct (f_no_preflight i NP) as [M [H P]]. rewrite M, H, P. reflexivity.
Qed.

End C02.

(* ------------------------------------------------------------------------------------------ *)
(* 8. The exact verdict, and its corollaries                                                   *)
(* ------------------------------------------------------------------------------------------ *)

Definition parses (v : bytes) : bool := match parse v with Some _ => true | None => false end.

(* the one cell where the verdict is not [permits]: allow-all configuration, a request that needs a
   preflight, and an Origin value that origins.Parse rejects (for instance "null") *)
Definition opaque_preflight_under_allow_all (c : config) (i : intent) : bool :=
  lists_star (c_origins c) && needs_preflight i && negb (parses (in_origin i)).

Lemma f_preflight_unparsable : forall ic dbg i lines, parse (in_origin i) = None ->
  preflight_ok i (serve (Some ic) dbg (preflight_request i lines) []) = false.
Proof.
  intros ic dbg i lines P. rewrite f_serve_preflight. cbv zeta. rewrite f_preflight_ok.
  unfold handle_preflight, process_origin_preflight. rewrite P.
  destruct dbg; cbn [snd]; change (ok_status 403) with false; rewrite andb_false_r; reflexivity.
Qed.

Theorem f_C02_exact : forall ace ip6 c ic i lines dbg,
  icfg_rel ace ip6 c ic -> Forall valid_pattern (cfg_patterns ace ip6 c) ->
  Forall (fun n => is_token n = true) (elems (i_req_hdrs ic)) ->
  wf_intent i -> perturb (in_headers i) lines ->
  browser_verdict i (serve (Some ic) dbg (preflight_request i lines) [])
                    (serve (Some ic) dbg (actual_request i) []) =
  permits c (cfg_patterns ace ip6 c) i && negb (opaque_preflight_under_allow_all c i).
Proof.
  intros ace ip6 c ic i lines dbg R VP TOK WF PT.
  destruct (opaque_preflight_under_allow_all c i) eqn:Q.
  - unfold opaque_preflight_under_allow_all in Q.
    apply andb_true_iff in Q. destruct Q as [Q Q3]. apply andb_true_iff in Q. destruct Q as [Q1 Q2].
    unfold parses in Q3. destruct (parse (in_origin i)) eqn:P; [discriminate|].
    rewrite andb_false_r. unfold browser_verdict. rewrite Q2, (f_preflight_unparsable ic dbg i lines P).
    rewrite andb_false_r. reflexivity.
  - rewrite andb_true_r. apply (f_C02 ace ip6 c ic R VP TOK i lines dbg WF PT).
    intros S NP P. unfold opaque_preflight_under_allow_all, parses in Q. rewrite S, NP, P in Q. discriminate.
Qed.

Theorem f_C02_main : forall ace ip6 c ic i lines dbg,
  icfg_rel ace ip6 c ic -> Forall valid_pattern (cfg_patterns ace ip6 c) ->
  Forall (fun n => is_token n = true) (elems (i_req_hdrs ic)) ->
  wf_intent i -> perturb (in_headers i) lines ->
  (lists_star (c_origins c) = true -> needs_preflight i = true -> parse (in_origin i) <> None) ->
  browser_verdict i (serve (Some ic) dbg (preflight_request i lines) [])
                    (serve (Some ic) dbg (actual_request i) []) = permits c (cfg_patterns ace ip6 c) i.
Proof. intros ace ip6 c ic i lines dbg R VP TOK. exact (f_C02 ace ip6 c ic R VP TOK i lines dbg). Qed.

Theorem f_C02_debug_invariant : forall ace ip6 c ic i lines,
  icfg_rel ace ip6 c ic -> Forall valid_pattern (cfg_patterns ace ip6 c) ->
  Forall (fun n => is_token n = true) (elems (i_req_hdrs ic)) ->
  wf_intent i -> perturb (in_headers i) lines ->
  browser_verdict i (serve (Some ic) true (preflight_request i lines) [])
                    (serve (Some ic) true (actual_request i) []) =
  browser_verdict i (serve (Some ic) false (preflight_request i lines) [])
                    (serve (Some ic) false (actual_request i) []).
Proof.
  intros ace ip6 c ic i lines R VP TOK WF PT.
  rewrite (f_C02_exact ace ip6 c ic i lines true R VP TOK WF PT).
  rewrite (f_C02_exact ace ip6 c ic i lines false R VP TOK WF PT). reflexivity.
Qed.

Theorem f_C02_perturbation_invariant : forall ace ip6 c ic i lines lines' dbg,
  icfg_rel ace ip6 c ic -> Forall valid_pattern (cfg_patterns ace ip6 c) ->
  Forall (fun n => is_token n = true) (elems (i_req_hdrs ic)) ->
  wf_intent i -> perturb (in_headers i) lines -> perturb (in_headers i) lines' ->
  browser_verdict i (serve (Some ic) dbg (preflight_request i lines) [])
                    (serve (Some ic) dbg (actual_request i) []) =
  browser_verdict i (serve (Some ic) dbg (preflight_request i lines') [])
                    (serve (Some ic) dbg (actual_request i) []).
Proof.
  intros ace ip6 c ic i lines lines' dbg R VP TOK WF PT PT'.
  rewrite (f_C02_exact ace ip6 c ic i lines dbg R VP TOK WF PT).
  rewrite (f_C02_exact ace ip6 c ic i lines' dbg R VP TOK WF PT'). reflexivity.
Qed.
