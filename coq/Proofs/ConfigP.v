(* Proofs/ConfigP.v -- newInternalConfig establishes [icfg_rel] (Proofs/Rel.v): the internal form
   of every ACCEPTED configuration is the one the specification-level functions describe.
   Main results: [accepted_rel], [accepted_patterns_valid], [accepted_tree_cred].
   Reusable sub-lemmas: [join_opt_none], [set_contains_mem], [mem_fold_add], [elems_fold_add_sort],
   [sorted_unique], [validate_*_inl]. *)
Require Import Base.Bytes Gen.Tables.
Require Import Model.Util Model.Headers Model.Methods Model.Origins Model.Netip Model.Pattern Model.Radix
  Model.CfgErrors Model.Config Model.Serve.
Require Import Spec.Origins Spec.Wire Spec.ConfigDoc.
Require Import Proofs.RadixP Proofs.HeadersP Proofs.ParseP Proofs.Rel.
From Coq Require Import Sorted ZifyBool ZifyNat ZifyN.
Import Coq.Strings.String.StringSyntax.
Arguments b _%string_scope.
Open Scope N_scope.

(* ------------------------------------------------------------------------------------------ *)
(* 0. Generic list facts                                                                       *)
(* ------------------------------------------------------------------------------------------ *)

Lemma flat_map_nil_inv {A B} (f : A -> list B) l :
  flat_map f l = [] -> forall x, In x l -> f x = [].
Proof.
  induction l as [|y r IH]; intros H x Hx; [destruct Hx|].
  simpl in H. apply app_eq_nil in H. destruct H as [H1 H2].
  destruct Hx as [<-|Hx]; [exact H1 | exact (IH H2 x Hx)].
Qed.

Lemma flat_map_fst_map_nil {A B C} (f : A -> list B * C) l :
  flat_map fst (map f l) = [] -> forall x, In x l -> fst (f x) = [].
Proof.
  intros H x Hx. apply (flat_map_nil_inv fst (map f l) H (f x)). apply in_map. exact Hx.
Qed.

(* a fold that inserts the optional second components = the fold over the selected elements *)
Definition sel {A B C} (f : A -> B * option C) (x : A) : list C :=
  match snd (f x) with Some m => [m] | None => [] end.

Lemma fold_opt_map {A B C S} (g : S -> C -> S) (f : A -> B * option C) l s0 :
  fold_left (fun s it => match snd it with Some m => g s m | None => s end) (map f l) s0
  = fold_left g (flat_map (sel f) l) s0.
Proof.
  revert s0. induction l as [|x r IH]; intros s0; [reflexivity|].
  cbn [map fold_left flat_map]. rewrite fold_left_app, IH. f_equal. unfold sel.
  destruct (snd (f x)); reflexivity.
Qed.

Lemma mem_app x l1 l2 : mem x (l1 ++ l2) = mem x l1 || mem x l2.
Proof. induction l1 as [|y r IH]; simpl; [reflexivity|]. rewrite IH, orb_assoc. reflexivity. Qed.

Lemma mem_map_existsb {A} (f : A -> bytes) x l : mem x (map f l) = existsb (fun a => beqb x (f a)) l.
Proof. induction l as [|y r IH]; simpl; [reflexivity|]. rewrite IH. reflexivity. Qed.

Lemma mem_flat_map {A} (f : A -> list bytes) x l : mem x (flat_map f l) = existsb (fun a => mem x (f a)) l.
Proof. induction l as [|y r IH]; simpl; [reflexivity|]. rewrite mem_app, IH. reflexivity. Qed.

Lemma existsb_ext_in {A} (f g : A -> bool) l : (forall x, In x l -> f x = g x) -> existsb f l = existsb g l.
Proof.
  induction l as [|y r IH]; intros H; simpl; [reflexivity|].
  rewrite (H y (or_introl eq_refl)), IH; [reflexivity|]. intros x Hx. apply H. right. exact Hx.
Qed.

Lemma existsb_andb_r {A} (f : A -> bool) c l : existsb (fun a => f a && c) l = existsb f l && c.
Proof.
  induction l as [|y r IH]; simpl; [reflexivity|]. rewrite IH. destruct (f y), c, (existsb f r); reflexivity.
Qed.

Lemma existsb_false_in {A} (f : A -> bool) l : existsb f l = false -> forall x, In x l -> f x = false.
Proof.
  induction l as [|y r IH]; intros H x Hx; [destruct Hx|]. simpl in H. apply orb_false_iff in H.
  destruct H as [H1 H2]. destruct Hx as [<-|Hx]; [exact H1 | exact (IH H2 x Hx)].
Qed.

(* ------------------------------------------------------------------------------------------ *)
(* 1. errors.Join returns nil exactly when every argument is nil                               *)
(* ------------------------------------------------------------------------------------------ *)

Lemma join_opt_none_iff {A} (l : list (option (etree A))) :
  join_opt l = None <-> forall o, In o l -> o = None.
Proof.
  unfold join_opt. split.
  - intros H. assert (E : flat_map (fun o : option (etree A) => match o with Some t => [t] | None => [] end) l = []).
    { destruct (flat_map _ l); [reflexivity | discriminate]. }
    intros o Ho. pose proof (flat_map_nil_inv _ _ E o Ho) as H1. destruct o; [discriminate | reflexivity].
  - intros H. replace (flat_map (fun o : option (etree A) => match o with Some t => [t] | None => [] end) l)
      with (@nil (etree A)); [reflexivity|].
    symmetry. induction l as [|o r IH]; [reflexivity|]. simpl.
    rewrite (H o (or_introl eq_refl)). simpl. apply IH. intros o' Ho'. apply H. right. exact Ho'.
Qed.

Lemma join_opt_none {A} (l : list (option (etree A))) : join_opt l = None -> forall o, In o l -> o = None.
Proof. apply join_opt_none_iff. Qed.

Lemma err_of_none {A} (r : A + etree cerr) : err_of r = None -> exists a, r = inl a.
Proof. destruct r as [a|e]; [eauto | discriminate]. Qed.

(* ------------------------------------------------------------------------------------------ *)
(* 2. The wildcard                                                                             *)
(* ------------------------------------------------------------------------------------------ *)

Lemma star_v_star : star = v_star. Proof. reflexivity. Qed.
Lemma star_wild : star = headers_ValueWildcard. Proof. reflexivity. Qed.
Lemma star_42 : star = [42]. Proof. reflexivity. Qed.
Lemma v_star_b : v_star = b "*". Proof. reflexivity. Qed.

Lemma lists_star_existsb l : existsb (fun raw => beqb raw star) l = lists_star l.
Proof.
  unfold lists_star. induction l as [|y r IH]; [reflexivity|]. cbn [existsb mem].
  rewrite IH, (beqb_sym y star). reflexivity.
Qed.

Lemma lists_star_in l : lists_star l = true <-> In star l.
Proof. unfold lists_star. rewrite mem_In. reflexivity. Qed.

Lemma lists_star_false_in l : lists_star l = false -> forall x, In x l -> beqb x star = false.
Proof. rewrite <- lists_star_existsb. apply existsb_false_in. Qed.

Lemma filter_not_star l : lists_star l = false -> filter (fun x => negb (is_star x)) l = l.
Proof.
  intros H. induction l as [|y r IH]; [reflexivity|].
  unfold lists_star in H. cbn [mem] in H. apply orb_false_iff in H. destruct H as [H1 H2].
  cbn [filter]. unfold is_star at 1. rewrite beqb_sym, H1. cbn [negb]. rewrite IH; [reflexivity | exact H2].
Qed.

(* ------------------------------------------------------------------------------------------ *)
(* 3. Sets built by SortedSet.Add: Contains is list membership                                  *)
(* ------------------------------------------------------------------------------------------ *)

Lemma mem_insert_sorted e x l : mem e (insert_sorted x l) = beqb e x || mem e l.
Proof.
  induction l as [|y r IH]; simpl; [reflexivity|].
  destruct (bleb x y); simpl; [reflexivity|]. rewrite IH.
  destruct (beqb e y), (beqb e x); reflexivity.
Qed.

Lemma mem_sset_add s x e : mem e (elems (sset_add s x)) = beqb e x || mem e (elems s).
Proof.
  unfold sset_add. destruct (mem x (elems s)) eqn:E.
  - destruct (beqb e x) eqn:E1; [|reflexivity]. apply beqb_true_iff in E1. subst e. exact E.
  - simpl. apply mem_insert_sorted.
Qed.

Lemma mem_fold_add l s e : mem e (elems (fold_left sset_add l s)) = mem e l || mem e (elems s).
Proof.
  revert s. induction l as [|x r IH]; intros s; simpl; [reflexivity|].
  rewrite IH, mem_sset_add. destruct (beqb e x), (mem e r); reflexivity.
Qed.

Lemma find_index_mem e l k : (0 <= k)%Z -> Z.leb 0 (find_index e l k) = mem e l.
Proof.
  revert k. induction l as [|x r IH]; intros k Hk; simpl; [reflexivity|].
  destruct (beqb e x); simpl; [lia|]. apply IH. lia.
Qed.

Lemma set_contains_mem s e : sset_inv s -> set_contains s e = mem e (elems s).
Proof.
  intros Hinv. unfold set_contains, index_after.
  destruct (maxlen s <? blen e) eqn:E.
  - destruct (mem e (elems s)) eqn:M; [|reflexivity].
    apply mem_In in M. apply (sset_inv_maxlen s e Hinv) in M. lia.
  - change (Z.to_nat (-1 + 1)) with 0%nat. change (-1 + 1)%Z with 0%Z. simpl skipn.
    apply find_index_mem. lia.
Qed.

Lemma set_contains_fold l e : set_contains (fold_left sset_add l sset_empty) e = mem e l.
Proof.
  rewrite set_contains_mem by apply sset_inv_fold. rewrite mem_fold_add. simpl. apply orb_false_r.
Qed.

Lemma set_contains_new_set l e : set_contains (new_set l) e = mem e l.
Proof. apply set_contains_fold. Qed.

Lemma set_contains_empty e : set_contains sset_empty e = false.
Proof. rewrite set_contains_mem by apply sset_inv_empty. reflexivity. Qed.

(* ------------------------------------------------------------------------------------------ *)
(* 4. Strictly sorted lists are determined by their members; sort + dedup                       *)
(* ------------------------------------------------------------------------------------------ *)

Definition ble (x y : bytes) : Prop := bleb x y = true.

Lemma ble_cases x y : ble x y <-> x = y \/ blt x y.
Proof.
  unfold ble, blt, bleb, bltb. split.
  - destruct (bcmp x y) eqn:E; intros H; try discriminate; [left; apply bcmp_eq; exact E | right; reflexivity].
  - intros [->|H]; [rewrite bcmp_refl; reflexivity|]. destruct (bcmp x y); try discriminate; reflexivity.
Qed.

Lemma ble_trans x y z : ble x y -> ble y z -> ble x z.
Proof.
  rewrite !ble_cases. intros [->|H1] [->|H2]; auto. right. eapply blt_trans; eassumption.
Qed.

Lemma blt_ble_trans x y z : blt x y -> ble y z -> blt x z.
Proof. rewrite ble_cases. intros H1 [<-|H2]; [exact H1 | eapply blt_trans; eassumption]. Qed.

Lemma sorted_unique l1 : forall l2, StronglySorted blt l1 -> StronglySorted blt l2 ->
  (forall x, mem x l1 = mem x l2) -> l1 = l2.
Proof.
  induction l1 as [|a l1 IH]; intros [|c l2] H1 H2 HM.
  - reflexivity.
  - specialize (HM c). simpl in HM. rewrite HeadersP.beqb_refl in HM. discriminate.
  - specialize (HM a). simpl in HM. rewrite HeadersP.beqb_refl in HM. discriminate.
  - apply StronglySorted_inv in H1. destruct H1 as [S1 F1].
    apply StronglySorted_inv in H2. destruct H2 as [S2 F2].
    rewrite Forall_forall in F1, F2.
    assert (E : a = c).
    { pose proof (HM a) as Ha. pose proof (HM c) as Hc. simpl in Ha, Hc.
      rewrite HeadersP.beqb_refl in Ha, Hc. simpl in Ha, Hc.
      destruct (beqb a c) eqn:Eac; [apply beqb_true_iff; exact Eac|].
      rewrite beqb_sym, Eac in Hc. simpl in Ha, Hc.
      symmetry in Ha. apply mem_In in Ha, Hc.
      exfalso. exact (blt_asym _ _ (F1 _ Hc) (F2 _ Ha)). }
    subst c. f_equal. apply IH; [exact S1 | exact S2|].
    intros x. specialize (HM x). simpl in HM.
    destruct (beqb x a) eqn:Exa; [|exact HM].
    apply beqb_true_iff in Exa. subst x.
    destruct (mem a l1) eqn:M1.
    { apply mem_In in M1. exfalso. exact (blt_irrefl _ (F1 _ M1)). }
    destruct (mem a l2) eqn:M2; [|reflexivity].
    apply mem_In in M2. exfalso. exact (blt_irrefl _ (F2 _ M2)).
Qed.

Lemma insert_sorted_ble x l : StronglySorted ble l -> StronglySorted ble (insert_sorted x l).
Proof.
  intros HS. induction HS as [|y r HS IH HF]; simpl.
  - constructor; constructor.
  - destruct (bleb x y) eqn:E.
    + constructor; [constructor; assumption|]. constructor; [exact E|].
      rewrite Forall_forall in HF |- *. intros z Hz. eapply ble_trans; [exact E | apply HF; exact Hz].
    + constructor; [exact IH|]. rewrite Forall_forall in HF |- *. intros z Hz.
      destruct (In_insert_sorted _ _ _ Hz) as [->|Hz'].
      * apply ble_cases. right. apply bleb_false. exact E.
      * apply HF. exact Hz'.
Qed.

Lemma sort_bytes_ble l : StronglySorted ble (sort_bytes l).
Proof. induction l as [|x r IH]; simpl; [constructor|]. apply insert_sorted_ble. exact IH. Qed.

Lemma mem_sort_bytes x l : mem x (sort_bytes l) = mem x l.
Proof. induction l as [|y r IH]; simpl; [reflexivity|]. rewrite mem_insert_sorted, IH. reflexivity. Qed.

Lemma dedup_cons2 x y r :
  dedup_adjacent (x :: y :: r) = if beqb x y then dedup_adjacent (y :: r) else x :: dedup_adjacent (y :: r).
Proof. reflexivity. Qed.

Lemma mem_dedup x l : mem x (dedup_adjacent l) = mem x l.
Proof.
  induction l as [|y r IH]; [reflexivity|]. destruct r as [|z r]; [reflexivity|].
  rewrite dedup_cons2. destruct (beqb y z) eqn:E.
  - rewrite IH. apply beqb_true_iff in E. subst z. simpl. destruct (beqb x y); reflexivity.
  - change (mem x (y :: dedup_adjacent (z :: r))) with (beqb x y || mem x (dedup_adjacent (z :: r))).
    rewrite IH. reflexivity.
Qed.

Lemma dedup_sorted l : StronglySorted ble l -> StronglySorted blt (dedup_adjacent l).
Proof.
  induction l as [|y r IH]; intros HS; [constructor|].
  destruct r as [|z r]; [constructor; constructor|].
  apply StronglySorted_inv in HS. destruct HS as [HS HF].
  rewrite dedup_cons2. destruct (beqb y z) eqn:E; [apply IH; exact HS|].
  constructor; [apply IH; exact HS|].
  apply Forall_forall. intros w Hw. apply mem_In in Hw. rewrite mem_dedup in Hw. apply mem_In in Hw.
  assert (Hyz : blt y z).
  { apply bleb_true_neq; [exact (Forall_inv HF)|]. intros ->. rewrite HeadersP.beqb_refl in E. discriminate. }
  destruct Hw as [<-|Hw]; [exact Hyz|].
  apply StronglySorted_inv in HS. destruct HS as [_ HF2]. rewrite Forall_forall in HF2.
  eapply blt_ble_trans; [exact Hyz | apply HF2; exact Hw].
Qed.

(* the element slice of a set built by Add is THE sorted duplicate-free rendering of the list *)
Lemma elems_fold_add_sort l : elems (fold_left sset_add l sset_empty) = dedup_adjacent (sort_bytes l).
Proof.
  apply sorted_unique.
  - apply (sset_inv_fold l).
  - apply dedup_sorted, sort_bytes_ble.
  - intros x. rewrite mem_fold_add, mem_dedup, mem_sort_bytes. simpl. apply orb_false_r.
Qed.

Lemma join_nonempty sep x r : x <> [] -> join sep (x :: r) <> [].
Proof.
  intros Hx. destruct r as [|y r]; simpl; [exact Hx|]. destruct x; [congruence | discriminate].
Qed.

(* ------------------------------------------------------------------------------------------ *)
(* 5. validateOrigins                                                                          *)
(* ------------------------------------------------------------------------------------------ *)

Lemma parse_pattern_star ace_ok ip6 : parse_pattern ace_ok ip6 star = inr RProhibited.
Proof. reflexivity. Qed.

Lemma ents_put_ne sch ps e : ents_put sch ps e <> [].
Proof. destruct e as [|[s q] r]; simpl; [discriminate|]. destruct (beqb sch s); [discriminate|]. destruct (bltb sch s); discriminate. Qed.

Lemma ents_add_ne e sch p w : ents_add e sch p w <> [].
Proof.
  unfold ents_add. destruct (ents_contains e sch (shift w p) w) eqn:E.
  - destruct e; [|discriminate]. unfold ents_contains in E. simpl in E. discriminate.
  - destruct (ents_find sch e); apply ents_put_ne.
Qed.

Lemma insert_kids_ne f c ks : insert_kids f c ks <> [].
Proof. destruct ks as [|[l ch] r]; simpl; [discriminate|]. destruct (c <? l); [discriminate|]. destruct (c =? l); discriminate. Qed.

Lemma insert_not_empty n s sch p w : tree_is_empty (insert n s sch p w) = false.
Proof.
  destruct n as [suf kids ents]. rewrite insert_eq. destruct s as [|c s'].
  - pose proof (ents_add_ne ents sch p w) as H. unfold tree_is_empty.
    destruct kids; [|reflexivity]. destruct (ents_add ents sch p w); [congruence | reflexivity].
  - destruct (ents_contains ents sch p true) eqn:E.
    + destruct ents; [unfold ents_contains in E; simpl in E; discriminate|].
      unfold tree_is_empty. destruct kids; reflexivity.
    + pose proof (insert_kids_ne (ins_child sch p w (c :: s')) c kids) as H. unfold tree_is_empty.
      destruct (insert_kids _ c kids); [congruence | reflexivity].
Qed.

Lemma tree_insert_not_empty t p : tree_is_empty (tree_insert t p) = false.
Proof.
  destruct (tree_insert_cases t p) as [[s' [_ ->]] | [_ ->]]; apply insert_not_empty.
Qed.

Lemma build_not_empty ps : ps <> [] -> tree_is_empty (build ps) = false.
Proof.
  unfold build. intros H. destruct ps as [|p ps]; [congruence|]. clear H. cbn [fold_left].
  generalize empty_tree. revert p. induction ps as [|q ps IH]; intros p t; cbn [fold_left].
  - apply tree_insert_not_empty.
  - apply IH.
Qed.

Section Origins.
Variable ace_ok : bytes -> bool.
Variable ip6 : bytes -> ipres.
Variable is_psl : bytes -> bool.
Variables cred pna ti tp : bool.

Let oitem := origin_item ace_ok ip6 is_psl cred pna ti tp.
Definition pats_of (raw : bytes) : list pattern :=
  match parse_pattern ace_ok ip6 raw with inl p => [p] | inr _ => [] end.

Lemma origin_item_ok raw : fst (oitem raw) = [] ->
  sel oitem raw = pats_of raw /\ (beqb raw star = false -> pats_of raw <> []).
Proof.
  unfold oitem, origin_item, sel, pats_of. destruct (beqb raw star) eqn:E.
  - apply beqb_true_iff in E. subst raw. rewrite parse_pattern_star. intros _. split; [reflexivity | discriminate].
  - destruct (parse_pattern ace_ok ip6 raw) as [p|r]; cbn [fst snd]; [|discriminate].
    intros _. split; [reflexivity | discriminate].
Qed.

Lemma origin_item_star : fst (oitem star) = [] -> cred = false /\ pna = false.
Proof.
  unfold oitem, origin_item. change (beqb star star) with true. cbn [fst].
  destruct cred, pna; try discriminate. auto.
Qed.

Lemma flat_map_sel_pats l : (forall raw, In raw l -> fst (oitem raw) = []) ->
  flat_map (sel oitem) l = flat_map pats_of l.
Proof.
  induction l as [|x r IH]; intros Hok; [reflexivity|]. cbn [flat_map].
  rewrite (proj1 (origin_item_ok x (Hok x (or_introl eq_refl)))), IH; [reflexivity|].
  intros raw Hr. apply Hok. right. exact Hr.
Qed.

Lemma validate_origins_inl pats t :
  validate_origins ace_ok ip6 is_psl cred pna ti tp pats = inl t ->
  pats <> [] /\ (forall raw, In raw pats -> fst (oitem raw) = []) /\
  t = if lists_star pats then empty_tree else build (flat_map pats_of pats).
Proof.
  unfold validate_origins. destruct pats as [|p0 pats']; [discriminate|].
  remember (p0 :: pats') as pats eqn:Ep. fold oitem.
  destruct (flat_map fst (map oitem pats)) eqn:E; [|discriminate].
  pose proof (flat_map_fst_map_nil oitem pats E) as Hok.
  rewrite lists_star_existsb. intros H. split; [rewrite Ep; discriminate|]. split; [exact Hok|].
  destruct (lists_star pats); [congruence|]. injection H as <-.
  rewrite fold_opt_map, (flat_map_sel_pats pats Hok). reflexivity.
Qed.

Lemma pats_nonempty pats : pats <> [] -> lists_star pats = false ->
  (forall raw, In raw pats -> fst (oitem raw) = []) -> flat_map pats_of pats <> [].
Proof.
  intros Hne Hs Hok. destruct pats as [|x r]; [congruence|]. cbn [flat_map].
  pose proof (proj2 (origin_item_ok x (Hok x (or_introl eq_refl)))
                (lists_star_false_in _ Hs x (or_introl eq_refl))) as H.
  destruct (pats_of x); [congruence | discriminate].
Qed.

End Origins.

(* ------------------------------------------------------------------------------------------ *)
(* 6. validateMethods                                                                          *)
(* ------------------------------------------------------------------------------------------ *)

Lemma method_item_ok name m : fst (method_item name) = [] -> beqb name star = false ->
  mem m (sel method_item name) = beqb m (method_normalize name) && negb (method_is_safelisted m).
Proof.
  unfold sel, method_item. intros H Hs. rewrite Hs in *.
  destruct (negb (method_is_valid name)); [discriminate|].
  destruct (method_is_safelisted (method_normalize name)) eqn:Es.
  - cbn [snd mem]. destruct (beqb m (method_normalize name)) eqn:E; [|reflexivity].
    apply beqb_true_iff in E. subst m. rewrite Es. reflexivity.
  - destruct (method_is_forbidden (method_normalize name)); [discriminate|].
    cbn [snd mem]. destruct (beqb m (method_normalize name)) eqn:E; [|reflexivity].
    apply beqb_true_iff in E. subst m. rewrite Es. reflexivity.
Qed.

Lemma validate_methods_inl names any set :
  validate_methods names = inl (any, set) ->
  any = lists_star names /\
  forall m, set_contains set m =
    negb (lists_star names) && mem m (map method_normalize names) && negb (method_is_safelisted m).
Proof.
  unfold validate_methods. destruct names as [|n0 names'].
  - intros H. injection H as <- <-. split; [reflexivity|]. intros m. apply set_contains_empty.
  - remember (n0 :: names') as names eqn:En.
    destruct (flat_map fst (map method_item names)) eqn:E; [|discriminate].
    pose proof (flat_map_fst_map_nil method_item names E) as Hok.
    rewrite lists_star_existsb. destruct (lists_star names) eqn:Es; intros H; injection H as <- <-.
    + split; [reflexivity|]. intros m. apply set_contains_empty.
    + split; [reflexivity|]. intros m. rewrite fold_opt_map, set_contains_fold, mem_flat_map.
      cbn [negb andb]. rewrite mem_map_existsb, <- existsb_andb_r.
      apply existsb_ext_in. intros x Hx. apply method_item_ok; [apply Hok; exact Hx|].
      apply (lists_star_false_in _ Es). exact Hx.
Qed.

(* ------------------------------------------------------------------------------------------ *)
(* 7. validateMaxAge, validatePreflightStatus                                                  *)
(* ------------------------------------------------------------------------------------------ *)

Lemma ma_disable_eq : ma_disable = (-1)%Z. Proof. reflexivity. Qed.
Lemma ma_upper_eq : ma_upper = 86400%Z. Proof. reflexivity. Qed.

Lemma validate_max_age_inl c v : validate_max_age (c_max_age c) = inl v -> v = spec_max_age c.
Proof.
  unfold validate_max_age, spec_max_age. rewrite ma_disable_eq, ma_upper_eq.
  destruct ((c_max_age c <? -1)%Z || (86400 <? c_max_age c)%Z); [discriminate|].
  destruct (c_max_age c =? -1)%Z eqn:E1.
  - replace (c_max_age c =? 0)%Z with false by lia. intros H. injection H as <-. reflexivity.
  - destruct (c_max_age c =? 0)%Z; intros H; injection H as <-; reflexivity.
Qed.

Lemma validate_status_inl s v : validate_status s = inl v ->
  (v + 200 = if s =? 0 then 204 else s)%Z /\ (200 <= v + 200 <= 299)%Z.
Proof.
  unfold validate_status.
  change st_lower with 200%Z. change st_upper with 299%Z. change cors_defaultPreflightStatus with 204%Z.
  destruct (s =? 0)%Z eqn:E0.
  - intros H. injection H as <-. lia.
  - destruct (negb ((200 <=? s)%Z && (s <=? 299)%Z)) eqn:E; [discriminate|].
    intros H. injection H as <-. rewrite Z.mod_small by lia. lia.
Qed.

(* ------------------------------------------------------------------------------------------ *)
(* 8. validateRequestHeaders: the single pass whose flags change mid-loop                      *)
(* ------------------------------------------------------------------------------------------ *)

Definition is_auth (n : bytes) : bool := beqb (lower n) headers_Authorization.

Lemma is_auth_star : is_auth star = false. Proof. reflexivity. Qed.

Lemma app_single_ne {A} (l : list A) x : l ++ [x] <> [].
Proof. destruct l; discriminate. Qed.

(* authorization, once seen without a preceding asterisk, sits in the set *)
Definition auth_in (st : rh_state) : Prop :=
  rh_auth st = true -> mem headers_Authorization (elems (rh_set st)) = true.

Lemma rh_step_ok cred st n : rh_errs (rh_step cred st n) = [] ->
  rh_errs st = [] /\
  rh_asterisk (rh_step cred st n) = rh_asterisk st || beqb n star /\
  rh_auth (rh_step cred st n) = rh_auth st || is_auth n /\
  (sset_inv (rh_set st) -> sset_inv (rh_set (rh_step cred st n))) /\
  (rh_asterisk (rh_step cred st n) = false -> auth_in st ->
     auth_in (rh_step cred st n) /\
     forall x, mem x (elems (rh_set (rh_step cred st n))) = beqb x (lower n) || mem x (elems (rh_set st))).
Proof.
  unfold rh_step, auth_in. destruct (beqb n star) eqn:Es.
  - apply beqb_true_iff in Es. subst n. cbn [rh_errs rh_asterisk rh_auth rh_set]. rewrite is_auth_star.
    intros H. rewrite !orb_true_r, orb_false_r.
    split; [exact H|]. split; [reflexivity|]. split; [reflexivity|]. split; [auto|]. intros Hd; discriminate.
  - destruct (negb (is_valid_name n)).
    { cbn [rh_errs]. intros H. exfalso. exact (app_single_ne _ _ H). }
    fold (is_auth n). destruct (is_auth n) eqn:Ea.
    + destruct (rh_auth st) eqn:Eau.
      * intros H. rewrite !orb_false_r.
        split; [exact H|]. split; [reflexivity|]. split; [exact Eau|]. split; [auto|].
        intros _ Hau. split; [intros _; apply Hau; reflexivity|].
        intros x. unfold is_auth in Ea. apply beqb_true_iff in Ea. rewrite Ea.
        destruct (beqb x headers_Authorization) eqn:Ex; [|reflexivity].
        apply beqb_true_iff in Ex. subst x. apply Hau. reflexivity.
      * cbn [rh_errs rh_asterisk rh_auth rh_set]. intros H. rewrite !orb_false_r.
        unfold is_auth in Ea. apply beqb_true_iff in Ea. rewrite Ea.
        split; [exact H|]. split; [reflexivity|]. split; [reflexivity|]. split.
        { intros Hi. destruct (negb (rh_asterisk st) || negb cred); [apply sset_inv_add|]; exact Hi. }
        intros Hast _. rewrite Hast. cbn [negb orb]. split.
        { intros _. rewrite mem_sset_add, HeadersP.beqb_refl. reflexivity. }
        intros x. apply mem_sset_add.
    + destruct (is_forbidden_req (lower n)).
      { cbn [rh_errs]. intros H. exfalso. exact (app_single_ne _ _ H). }
      destruct (is_prohibited_req (lower n)).
      { cbn [rh_errs]. intros H. exfalso. exact (app_single_ne _ _ H). }
      cbn [rh_errs rh_asterisk rh_auth rh_set]. intros H. rewrite !orb_false_r.
      split; [exact H|]. split; [reflexivity|]. split; [reflexivity|]. split; [apply sset_inv_add|].
      intros _ Hau. split; [|intros x; apply mem_sset_add].
      intros Hx. rewrite mem_sset_add, (Hau Hx). apply orb_true_r.
Qed.

Lemma rh_fold_ok cred names : forall st,
  rh_errs (fold_left (rh_step cred) names st) = [] ->
  rh_errs st = [] /\
  rh_asterisk (fold_left (rh_step cred) names st) = rh_asterisk st || existsb (fun n => beqb n star) names /\
  rh_auth (fold_left (rh_step cred) names st) = rh_auth st || existsb is_auth names /\
  (sset_inv (rh_set st) -> sset_inv (rh_set (fold_left (rh_step cred) names st))) /\
  (rh_asterisk (fold_left (rh_step cred) names st) = false -> auth_in st ->
     forall x, mem x (elems (rh_set (fold_left (rh_step cred) names st)))
               = mem x (map lower names) || mem x (elems (rh_set st))).
Proof.
  induction names as [|n r IH]; intros st H; cbn [fold_left existsb map mem] in *.
  - rewrite !orb_false_r. split; [exact H|]. split; [reflexivity|]. split; [reflexivity|]. split; [auto|].
    reflexivity.
  - destruct (IH _ H) as [I1 [I2 [I3 [I4 I5]]]].
    destruct (rh_step_ok cred st n I1) as [S1 [S2 [S3 [S4 S5]]]].
    split; [exact S1|]. split; [rewrite I2, S2, orb_assoc; reflexivity|].
    split; [rewrite I3, S3, orb_assoc; reflexivity|]. split; [intros Hi; exact (I4 (S4 Hi))|].
    intros Hast Hau.
    assert (Hast' : rh_asterisk (rh_step cred st n) = false).
    { rewrite I2 in Hast. apply orb_false_iff in Hast. exact (proj1 Hast). }
    destruct (S5 Hast' Hau) as [Hau' Hm]. intros x. rewrite (I5 Hast Hau' x), Hm.
    destruct (beqb x (lower n)), (mem x (map lower r)); reflexivity.
Qed.

Lemma auth_in_init : auth_in rh_init. Proof. intros H. discriminate. Qed.

Lemma validate_req_headers_inl cred names ast auth hset acah :
  validate_req_headers cred names = inl (ast, auth, hset, acah) ->
  ast = lists_star names /\
  auth = existsb (fun n => beqb (lower n) headers_Authorization) names /\
  sset_inv hset /\
  (forall n, mem n (elems hset) =
             negb (lists_star names) && mem n (map lower (filter (fun x => negb (is_star x)) names))) /\
  acah = if sset_size hset =? 0 then None else Some (join headers_ValueSep (elems hset)).
Proof.
  unfold validate_req_headers. destruct names as [|n0 names'].
  - intros H. injection H as <- <- <- <-. repeat split; auto. apply sset_inv_empty.
  - remember (n0 :: names') as names eqn:En. clear En n0 names'.
    set (st := fold_left (rh_step cred) names rh_init).
    destruct (rh_errs st) eqn:E; [|discriminate].
    destruct (rh_fold_ok cred names rh_init E) as [_ [F2 [F3 [F4 F5]]]]. fold st in F2, F3, F4, F5.
    cbn [rh_init rh_asterisk rh_auth rh_set orb] in F2, F3, F4, F5.
    rewrite lists_star_existsb in F2. specialize (F4 sset_inv_empty).
    destruct (negb (rh_asterisk st) && negb (sset_size (rh_set st) =? 0)) eqn:Ec;
      intros H; injection H as <- <- <- <-.
    + apply andb_true_iff in Ec. destruct Ec as [Ec1 Ec2].
      apply negb_true_iff in Ec1, Ec2.
      split; [exact F2|]. split; [exact F3|]. split; [exact F4|]. split.
      * intros n. rewrite <- F2, Ec1. cbn [negb andb]. rewrite filter_not_star by (rewrite <- F2; exact Ec1).
        rewrite (F5 Ec1 auth_in_init n). cbn [elems sset_empty mem]. apply orb_false_r.
      * rewrite Ec2. reflexivity.
    + split; [exact F2|]. split; [exact F3|]. split; [apply sset_inv_empty|]. split; [|reflexivity].
      intros n. cbn [elems sset_empty mem]. rewrite <- F2.
      destruct (rh_asterisk st) eqn:Ea; [reflexivity|]. cbn [negb andb] in *.
      rewrite filter_not_star by (rewrite <- F2; reflexivity).
      pose proof (F5 eq_refl auth_in_init n) as Hn. cbn [rh_init rh_set elems sset_empty mem] in Hn.
      rewrite orb_false_r in Hn. rewrite <- Hn.
      apply negb_false_iff in Ec. unfold sset_size in Ec.
      destruct (elems (rh_set st)); [reflexivity|]. simpl length in Ec. lia.
Qed.

(* ------------------------------------------------------------------------------------------ *)
(* 9. validateResponseHeaders                                                                  *)
(* ------------------------------------------------------------------------------------------ *)

Lemma safelisted_tables_eq : headers_safelistedResponseHeaderNames = fetch_safelisted_response.
Proof. reflexivity. Qed.

Lemma is_safelisted_res_spec nm : is_safelisted_res nm = mem nm fetch_safelisted_response.
Proof.
  unfold is_safelisted_res, safelisted_res_set. rewrite set_contains_new_set, safelisted_tables_eq. reflexivity.
Qed.

Definition not_safelisted (n : bytes) : bool := negb (mem n fetch_safelisted_response).

Lemma res_item_ok cred n : fst (res_item cred n) = [] -> beqb n star = false ->
  is_valid_name n = true /\
  sel (res_item cred) n = if not_safelisted (lower n) then [lower n] else [].
Proof.
  unfold sel, res_item, not_safelisted. intros H Hs. rewrite Hs in *.
  destruct (is_valid_name n); [|discriminate]. cbn [negb] in *.
  destruct (is_forbidden_res (lower n)); [discriminate|].
  destruct (is_prohibited_res (lower n)); [discriminate|].
  rewrite is_safelisted_res_spec in *. split; [reflexivity|].
  destruct (mem (lower n) fetch_safelisted_response); reflexivity.
Qed.

Lemma res_item_star cred : fst (res_item cred star) = [] -> cred = false.
Proof. unfold res_item. change (beqb star star) with true. destruct cred; [discriminate | reflexivity]. Qed.

Lemma res_sel_filter cred names :
  (forall n, In n names -> fst (res_item cred n) = []) -> lists_star names = false ->
  flat_map (sel (res_item cred)) names = filter not_safelisted (map lower names).
Proof.
  induction names as [|x r IH]; intros Hok Hs; [reflexivity|]. cbn [flat_map map filter].
  destruct (res_item_ok cred x (Hok x (or_introl eq_refl)) (lists_star_false_in _ Hs x (or_introl eq_refl)))
    as [_ ->].
  unfold lists_star in Hs. cbn [mem] in Hs. apply orb_false_iff in Hs.
  rewrite IH; [|intros n Hn; apply Hok; right; exact Hn | exact (proj2 Hs)].
  destruct (not_safelisted (lower x)); reflexivity.
Qed.

Lemma valid_name_lower_ne n : is_valid_name n = true -> lower n <> [].
Proof. destruct n; [discriminate|]. intros _. discriminate. Qed.

Lemma spec_aceh_unfold c :
  spec_aceh c = if lists_star (c_res_headers c) then Some v_star
                else match dedup_adjacent (sort_bytes (filter not_safelisted (map lower (c_res_headers c)))) with
                     | [] => None
                     | ns => Some (join headers_ValueSep ns)
                     end.
Proof. reflexivity. Qed.

Lemma validate_res_headers_inl c cred v :
  validate_res_headers cred (c_res_headers c) = inl v ->
  v = opt_or_nil (spec_aceh c) /\ (forall w, spec_aceh c = Some w -> w <> []) /\
  (lists_star (c_res_headers c) = true -> cred = false).
Proof.
  rewrite spec_aceh_unfold. unfold validate_res_headers. destruct (c_res_headers c) as [|n0 names'].
  - intros H. injection H as <-. split; [reflexivity|]. split; [discriminate|discriminate].
  - remember (n0 :: names') as names eqn:En. clear En n0 names'.
    destruct (flat_map fst (map (res_item cred) names)) eqn:E; [|discriminate].
    pose proof (flat_map_fst_map_nil (res_item cred) names E) as Hok.
    rewrite lists_star_existsb. destruct (lists_star names) eqn:Es; intros H; injection H as <-.
    + split; [reflexivity|]. split; [intros w Hw; injection Hw as <-; discriminate|].
      intros _. apply res_item_star. apply Hok. apply lists_star_in. exact Es.
    + split; [|split; [|discriminate]].
      * rewrite fold_opt_map, (res_sel_filter cred names Hok Es), elems_fold_add_sort.
        destruct (dedup_adjacent _); reflexivity.
      * intros w. destruct (dedup_adjacent _) as [|x r] eqn:Ed; [discriminate|].
        intros Hw. injection Hw as <-. apply (join_nonempty headers_ValueSep x r).
        assert (Hx : mem x (filter not_safelisted (map lower names)) = true).
        { rewrite <- mem_sort_bytes, <- mem_dedup, Ed. cbn [mem]. rewrite HeadersP.beqb_refl. reflexivity. }
        apply mem_In, filter_In in Hx. destruct Hx as [Hx _]. apply in_map_iff in Hx.
        destruct Hx as [n [<- Hn]]. apply valid_name_lower_ne.
        exact (proj1 (res_item_ok cred n (Hok n Hn) (lists_star_false_in _ Es n Hn))).
Qed.

(* ------------------------------------------------------------------------------------------ *)
(* 10. newInternalConfig establishes icfg_rel                                                  *)
(* ------------------------------------------------------------------------------------------ *)

Lemma cfg_patterns_eq ace_ok ip6 c : cfg_patterns ace_ok ip6 c = flat_map (pats_of ace_ok ip6) (c_origins c).
Proof. reflexivity. Qed.

(* acceptance = every validator succeeded *)
Lemma accepted_parts ace_ok ip6 is_psl c ic :
  new_internal_config ace_ok ip6 is_psl c = inl ic ->
  exists vs t anym mset ast auth hset acah acma aceh,
    validate_status (c_status c) = inl vs /\
    c_pna c && c_pna_nocors c = false /\
    validate_origins ace_ok ip6 is_psl (c_credentialed c) (c_pna c || c_pna_nocors c)
                     (c_tol_insecure c) (c_tol_psl c) (c_origins c) = inl t /\
    validate_methods (c_methods c) = inl (anym, mset) /\
    validate_req_headers (c_credentialed c) (c_req_headers c) = inl (ast, auth, hset, acah) /\
    validate_max_age (c_max_age c) = inl acma /\
    validate_res_headers (c_credentialed c) (c_res_headers c) = inl aceh /\
    ic = {| i_tree := t; i_methods := mset; i_req_hdrs := hset; i_acah := acah; i_status_m200 := vs;
            i_cred := c_credentialed c; i_any_method := anym; i_asterisk_req := ast; i_allow_auth := auth;
            i_pna := c_pna c; i_pna_nocors := c_pna_nocors c; i_acma := acma; i_aceh := aceh;
            i_tol_psl := c_tol_psl c; i_tol_insecure := c_tol_insecure c |}.
Proof.
  intros H. unfold new_internal_config in H. cbv zeta in H.
  match type of H with context [join_opt ?l] => destruct (join_opt l) eqn:J end; [discriminate|].
  pose proof (join_opt_none _ J) as HN.
  destruct (err_of_none _ (HN _ (or_introl eq_refl))) as [vs Es].
  pose proof (HN _ (or_intror (or_introl eq_refl))) as Ep.
  destruct (err_of_none _ (HN _ (or_intror (or_intror (or_introl eq_refl))))) as [t Eo].
  destruct (err_of_none _ (HN _ (or_intror (or_intror (or_intror (or_introl eq_refl)))))) as [[anym mset] Em].
  destruct (err_of_none _ (HN _ (or_intror (or_intror (or_intror (or_intror (or_introl eq_refl)))))))
    as [[[[ast auth] hset] acah] Eh].
  destruct (err_of_none _ (HN _ (or_intror (or_intror (or_intror (or_intror (or_intror (or_introl eq_refl))))))))
    as [acma Ea].
  destruct (err_of_none _ (HN _ (or_intror (or_intror (or_intror (or_intror (or_intror (or_intror (or_introl eq_refl)))))))))
    as [aceh Ee].
  clear J HN. rewrite Es, Eo, Em, Eh, Ea, Ee in H. cbn [val_of] in H. injection H as <-.
  exists vs, t, anym, mset, ast, auth, hset, acah, acma, aceh.
  split; [exact Es|]. split; [destruct (c_pna c && c_pna_nocors c); [discriminate | reflexivity]|].
  split; [exact Eo|]. split; [exact Em|]. split; [exact Eh|]. split; [exact Ea|]. split; [exact Ee|].
  reflexivity.
Qed.

Theorem accepted_rel : forall ace_ok ip6 is_psl c ic,
  new_internal_config ace_ok ip6 is_psl c = inl ic -> icfg_rel ace_ok ip6 c ic.
Proof.
  intros ace_ok ip6 is_psl c ic H.
  destruct (accepted_parts _ _ _ _ _ H)
    as [vs [t [anym [mset [ast [auth [hset [acah [acma [aceh [Es [Ep [Eo [Em [Eh [Ea [Ee ->]]]]]]]]]]]]]]]]].
  clear H.
  destruct (validate_origins_inl _ _ _ _ _ _ _ _ _ Eo) as [Hne [Hok Ht]].
  destruct (validate_methods_inl _ _ _ Em) as [Hany Hset].
  destruct (validate_req_headers_inl _ _ _ _ _ _ Eh) as [Hast [Hauth [Hinv [Hmem Hacah]]]].
  pose proof (validate_max_age_inl _ _ Ea) as Hma.
  destruct (validate_res_headers_inl _ _ _ Ee) as [Haceh [Hacehne _]].
  destruct (validate_status_inl _ _ Es) as [Hs1 Hs2].
  constructor; cbn [i_tree i_methods i_req_hdrs i_acah i_status_m200 i_cred i_any_method i_asterisk_req
                    i_allow_auth i_pna i_pna_nocors i_acma i_aceh i_tol_psl i_tol_insecure];
    try reflexivity; try assumption.
  - rewrite Ht. destruct (lists_star (c_origins c)) eqn:Est; [reflexivity|].
    apply build_not_empty. eapply pats_nonempty; eassumption.
  - intros Hst. apply lists_star_in in Hst.
    destruct (origin_item_star _ _ _ _ _ _ _ (Hok _ Hst)) as [Hc Hp].
    apply orb_false_iff in Hp. tauto.
  - split; assumption.
Qed.

Lemma accepted_patterns_valid : forall ace_ok ip6 c, Forall valid_pattern (cfg_patterns ace_ok ip6 c).
Proof.
  intros ace_ok ip6 c. unfold cfg_patterns. apply Forall_forall. intros p Hp.
  apply in_flat_map in Hp. destruct Hp as [raw [_ Hp]].
  destruct (parse_pattern ace_ok ip6 raw) as [q|r] eqn:E; [|destruct Hp].
  destruct Hp as [<-|[]]. exact (parse_pattern_valid _ _ _ _ E).
Qed.

Lemma accepted_tree_cred : forall ace_ok ip6 is_psl c ic,
  new_internal_config ace_ok ip6 is_psl c = inl ic ->
  tree_is_empty (i_tree ic) = true -> i_cred ic = false /\ i_pna ic = false /\ i_pna_nocors ic = false.
Proof.
  intros ace_ok ip6 is_psl c ic H He. pose proof (accepted_rel _ _ _ _ _ H) as R.
  rewrite (rel_tree_empty _ _ _ _ R) in He.
  rewrite (rel_cred _ _ _ _ R), (rel_pna _ _ _ _ R), (rel_pna_nocors _ _ _ _ R).
  exact (rel_star _ _ _ _ R He).
Qed.

(* the hypothesis is satisfiable, on a configuration exercising duplicates, case differences,
   safelisted names and the authorization name *)
Example accepted_rel_example :
  exists ic, new_internal_config (fun _ => true) (fun _ => IPErr) (fun _ => false)
    {| c_origins := [b "https://example.com"; b "https://*.example.org:8080"];
       c_credentialed := true;
       c_methods := [b "get"; b "PUT"; b "put"; b "patch"];
       c_req_headers := [b "Authorization"; b "X-Foo"; b "x-foo"; b "authorization"];
       c_max_age := 30%Z;
       c_res_headers := [b "X-Bar"; b "x-bar"; b "Content-Type"; b "x-baz"];
       c_status := 200%Z;
       c_pna := false; c_pna_nocors := false; c_tol_insecure := false; c_tol_psl := false |} = inl ic.
Proof. eexists. vm_compute. reflexivity. Qed.

Print Assumptions accepted_rel.
Print Assumptions accepted_patterns_valid.
Print Assumptions accepted_tree_cred.
