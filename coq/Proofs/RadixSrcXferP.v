(* Proofs/RadixSrcXferP.v -- the theorems about the hand-written radix-tree model, transported to the functions that
   tools/genradix generates from internal/origins/radix.go on every run (Gen/RadixSrc.v). *)
Require Import Base.Bytes Gen.Tables Model.Origins Model.Pattern Model.Radix Model.LoopRt Model.RadixRt Gen.RadixSrc.
Require Import Spec.Origins Proofs.RadixP Proofs.RadixAbs Proofs.RadixSrcContainsP Proofs.RadixSrcInsertP Proofs.RadixSrcElemsP.
Open Scope N_scope.

(* successive Tree.Insert calls of the translated code, starting from the zero Tree *)
Fixpoint go_build_from (t : gnode) (ps : list pattern) : option gnode :=
  match ps with
  | [] => Some t
  | p :: r => match go_Tree_Insert t p with None => None | Some t' => go_build_from t' r end
  end.
Definition go_build (ps : list pattern) : option gnode := go_build_from zero_gnode ps.

Lemma go_build_from_spec ps : forall t, gwf t ->
  exists t', go_build_from t ps = Some t' /\ abs t' = fold_left tree_insert ps (abs t) /\ gwf t'.
Proof.
  induction ps as [|p r IH]; intros t Hwf; cbn [go_build_from fold_left].
  - exists t. repeat split; assumption.
  - destruct (go_Tree_Insert_eq t p Hwf) as (t1 & H1 & H2 & H3). rewrite H1.
    destruct (IH t1 H3) as (t2 & G1 & G2 & G3). exists t2. rewrite <- H2. repeat split; assumption.
Qed.

Lemma abs_zero : abs zero_gnode = empty_tree.
Proof. reflexivity. Qed.

(* the translated code never runs out of fuel, and what it builds stands for the model's tree *)
Lemma go_build_spec ps : exists t, go_build ps = Some t /\ abs t = build ps /\ gwf t.
Proof.
  destruct (go_build_from_spec ps zero_gnode gwf_zero) as (t & H1 & H2 & H3).
  exists t. unfold go_build, build. rewrite <- abs_zero. repeat split; assumption.
Qed.

Lemma go_tree_contains_build ps o : Forall valid_pattern ps -> valid_origin o ->
  exists t, go_build ps = Some t /\ go_Tree_Contains t o = Some (allowed_by ps o).
Proof.
  intros Hps Ho. destruct (go_build_spec ps) as (t & H1 & H2 & H3). exists t. split; [exact H1|].
  rewrite (go_Tree_Contains_eq t o H3), H2, (tree_contains_build ps o Hps Ho). reflexivity.
Qed.

Lemma go_tree_contains_build_perm ps ps' o :
  Forall valid_pattern ps -> Forall valid_pattern ps' -> valid_origin o ->
  (forall p, In p ps <-> In p ps') ->
  exists t t', go_build ps = Some t /\ go_build ps' = Some t' /\ go_Tree_Contains t o = go_Tree_Contains t' o.
Proof.
  intros Hps Hps' Ho Hin.
  destruct (go_build_spec ps) as (t & H1 & H2 & H3). destruct (go_build_spec ps') as (t' & G1 & G2 & G3).
  exists t, t'. repeat split; try assumption.
  rewrite (go_Tree_Contains_eq t o H3), (go_Tree_Contains_eq t' o G3), H2, G2.
  f_equal. apply tree_contains_build_perm; assumption.
Qed.

Lemma go_tree_elems_build ps : Forall valid_pattern ps ->
  exists t, go_build ps = Some t /\ go_Tree_Elems t = Some (tree_elems (build ps)).
Proof.
  intros Hps. destruct (go_build_spec ps) as (t & H1 & H2 & H3). exists t. split; [exact H1|].
  rewrite <- H2. apply go_Tree_Elems_eq; [exact H3|]. rewrite H2. apply wf_build. exact Hps.
Qed.

Lemma go_tree_is_empty_build ps :
  exists t, go_build ps = Some t /\ go_Tree_IsEmpty t = tree_is_empty (build ps).
Proof.
  destruct (go_build_spec ps) as (t & H1 & H2 & H3). exists t. split; [exact H1|].
  rewrite <- H2. apply go_Tree_IsEmpty_eq. exact H3.
Qed.
