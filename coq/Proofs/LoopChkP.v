(* Proofs/LoopChkP.v -- the checked translation (Gen/LoopChk.v) of origins.go, ows.go and acrh.go never raises its
   flag: on every input each chk_f returns exactly what go_f (Gen/LoopSrc.v) returns, paired with the flag true.
   Hence no index or slice expression of these functions is ever evaluated out of range. *)
Require Import Base.Bytes Gen.Tables Model.Util Model.Headers Model.Origins Model.UtilRt Gen.UtilSrc Model.LoopRt
  Model.RadixRt Gen.LoopSrc Gen.LoopChk.
Require Import Proofs.LoopOriginsP Proofs.LoopHeadersP.
From Coq Require Import Lia ZifyBool ZifyNat ZifyN.
Open Scope bool_scope.

(* ---------- lockstep simulation of two loops ---------- *)

Definition ctl_rel {S1 S2 R1 R2 : Type} (PS : S1 -> S2 -> Prop) (PR : R1 -> R2 -> Prop)
  (c1 : ctl S1 R1) (c2 : ctl S2 R2) : Prop :=
  match c1, c2 with
  | Next a, Next b => PS a b
  | Brk a, Brk b => PS a b
  | Ret a, Ret b => PR a b
  | Exh, Exh => True
  | _, _ => False
  end.

Definition lres_rel {S1 S2 R1 R2 : Type} (PS : S1 -> S2 -> Prop) (PR : R1 -> R2 -> Prop)
  (c1 : lres S1 R1) (c2 : lres S2 R2) : Prop :=
  match c1, c2 with
  | Done a, Done b => PS a b
  | Returned a, Returned b => PR a b
  | Exhausted, Exhausted => True
  | _, _ => False
  end.

Lemma loop_n_sim : forall (S1 S2 R1 R2 : Type) (PS : S1 -> S2 -> Prop) (PR : R1 -> R2 -> Prop)
  (b1 : S1 -> ctl S1 R1) (b2 : S2 -> ctl S2 R2),
  (forall s1 s2, PS s1 s2 -> ctl_rel PS PR (b1 s1) (b2 s2)) ->
  forall n s1 s2, PS s1 s2 -> lres_rel PS PR (loop_n n b1 s1) (loop_n n b2 s2).
Proof.
  intros S1 S2 R1 R2 PS PR b1 b2 Hstep. induction n as [|n IH]; intros s1 s2 Hs.
  - exact I.
  - cbn [loop_n]. specialize (Hstep s1 s2 Hs).
    destruct (b1 s1), (b2 s2); cbn [ctl_rel] in Hstep; try contradiction; cbn [lres_rel]; auto.
Qed.

Lemma loop_list_sim : forall (A S1 S2 R1 R2 : Type) (PS : S1 -> S2 -> Prop) (PR : R1 -> R2 -> Prop)
  (b1 : S1 -> A -> ctl S1 R1) (b2 : S2 -> A -> ctl S2 R2),
  (forall s1 s2 x, PS s1 s2 -> ctl_rel PS PR (b1 s1 x) (b2 s2 x)) ->
  forall l s1 s2, PS s1 s2 -> lres_rel PS PR (loop_list l b1 s1) (loop_list l b2 s2).
Proof.
  intros A S1 S2 R1 R2 PS PR b1 b2 Hstep. induction l as [|x l IH]; intros s1 s2 Hs.
  - exact Hs.
  - cbn [loop_list]. specialize (Hstep s1 s2 x Hs).
    destruct (b1 s1 x), (b2 s2 x); cbn [ctl_rel] in Hstep; try contradiction; cbn [lres_rel]; auto.
Qed.

(* a returned value of the checked function is the unchecked one with the flag true *)
Definition lift {R : Type} (r1 : R * bool) (r2 : R) : Prop := r1 = (r2, true).
Definition olift {R : Type} (o : option R) : option (R * bool) :=
  match o with Some r => Some (r, true) | None => None end.

(* ---------- byte classes ---------- *)

Lemma chk_isLowerAlpha_eq b : chk_isLowerAlpha b = (go_isLowerAlpha b, true). Proof. reflexivity. Qed.
Lemma chk_isSubsequentSchemeByte_eq b : chk_isSubsequentSchemeByte b = (go_isSubsequentSchemeByte b, true). Proof. reflexivity. Qed.
Lemma chk_isASCIILabelByte_eq b : chk_isASCIILabelByte b = (go_isASCIILabelByte b, true). Proof. reflexivity. Qed.
Lemma chk_intFromDigit_eq b : chk_intFromDigit b = (go_intFromDigit b, true). Proof. reflexivity. Qed.
Lemma chk_isDigit_eq b : chk_isDigit b = (go_isDigit b, true). Proof. reflexivity. Qed.
Lemma chk_isNonZeroDigit_eq b : chk_isNonZeroDigit b = (go_isNonZeroDigit b, true). Proof. reflexivity. Qed.

(* ---------- parseScheme ---------- *)

Lemma chk_parseScheme_lift (s : bytes) : chk_parseScheme s = olift (go_parseScheme s).
Proof.
  unfold chk_parseScheme, go_parseScheme. rewrite chk_isLowerAlpha_eq. cbv beta iota zeta.
  destruct s as [|c r]; [reflexivity|].
  replace (Z.of_nat (length (c :: r)) =? 0)%Z with false by (cbn [length]; lia).
  cbn [orb andb]. change (in_range 0 (length (c :: r))) with true. cbn [andb orb].
  destruct (negb (go_isLowerAlpha (nth (Z.to_nat 0) (c :: r) 0%N))); [reflexivity|].
  set (s := c :: r). set (e := Z.min origins_maxSchemeLen (Z.of_nat (length s))).
  match goal with |- context [@loop_n (bool * Z)%type ?R1 ?f ?b1 ?s1] =>
  match goal with |- context [@loop_n Z ?R2 f ?b2 ?s2] =>
    assert (Hsim : lres_rel (fun '(k, i) i' => k = true /\ i = i' /\ (1 <= i <= e)%Z) lift
                     (@loop_n (bool * Z)%type R1 f b1 s1) (@loop_n Z R2 f b2 s2));
    [ | destruct (@loop_n (bool * Z)%type R1 f b1 s1) as [[k i]|r1|], (@loop_n Z R2 f b2 s2) as [i'|r2|];
        cbn [lres_rel] in Hsim; try contradiction ]
  end end.
  - apply loop_n_sim.
    + intros [k i] i' (-> & <- & Hi). cbv beta iota.
      destruct (i <? e)%Z eqn:E; [|cbn [ctl_rel]; auto].
      rewrite chk_isSubsequentSchemeByte_eq. cbv beta iota zeta.
      replace (in_range i (length s)) with true by (unfold in_range; lia). cbn [andb].
      destruct (negb (go_isSubsequentSchemeByte (nth (Z.to_nat i) s 0%N))); cbn [ctl_rel]; repeat split; lia.
    + repeat split; subst e s; change origins_maxSchemeLen with 64%Z; cbn [length]; lia.
  - destruct Hsim as (-> & <- & Hi). cbn [olift andb].
    replace (slice_ok 0 i (length s)) with true by (unfold slice_ok; lia).
    replace (slice_ok i (Z.of_nat (length s)) (length s)) with true by (unfold slice_ok; lia).
    reflexivity.
  - rewrite Hsim. reflexivity.
  - reflexivity.
Qed.

Lemma chk_parseScheme_ok (s : bytes) :
  exists a r ok, chk_parseScheme s = Some (a, r, ok, true) /\ go_parseScheme s = Some (a, r, ok).
Proof.
  rewrite chk_parseScheme_lift, go_parseScheme_eq.
  destruct (parse_scheme s) as [[a r]|]; cbn [olift]; eauto.
Qed.

(* ---------- parsePort ---------- *)

Lemma chk_parsePort_lift (s : bytes) : chk_parsePort s = olift (go_parsePort s).
Proof.
  unfold chk_parsePort, go_parsePort. rewrite chk_isNonZeroDigit_eq. cbv beta iota zeta.
  destruct s as [|c r]; [reflexivity|].
  replace (Z.of_nat (length (c :: r)) =? 0)%Z with false by (cbn [length]; lia).
  cbn [orb andb]. change (in_range 0 (length (c :: r))) with true. cbn [andb orb].
  destruct (negb (go_isNonZeroDigit (nth (Z.to_nat 0) (c :: r) 0%N))); [reflexivity|].
  rewrite chk_intFromDigit_eq. cbv beta iota zeta. cbn [andb].
  set (s := c :: r). set (e := Z.min (Z.of_nat (length s)) origins_maxPortLen).
  assert (He : (1 <= e <= Z.of_nat (length s))%Z)
    by (subst e s; change origins_maxPortLen with 5%Z; cbn [length]; lia).
  replace (slice_ok 1 e (length s)) with true by (unfold slice_ok; lia).
  match goal with |- context [@loop_n (bool * Z * Z)%type ?R1 ?f ?b1 ?s1] =>
  match goal with |- context [@loop_n (Z * Z)%type ?R2 f ?b2 ?s2] =>
    assert (Hsim : lres_rel (fun '(k, p, i) '(p', i') => k = true /\ p = p' /\ i = i' /\ (1 <= i <= e)%Z) lift
                     (@loop_n (bool * Z * Z)%type R1 f b1 s1) (@loop_n (Z * Z)%type R2 f b2 s2));
    [ | destruct (@loop_n (bool * Z * Z)%type R1 f b1 s1) as [[[k p] i]|r1|],
                 (@loop_n (Z * Z)%type R2 f b2 s2) as [[p' i']|r2|];
        cbn [lres_rel] in Hsim; try contradiction ]
  end end.
  - apply loop_n_sim.
    + intros [[k p] i] [p' i'] (-> & <- & <- & Hi). cbv beta iota.
      destruct (i <? e)%Z eqn:E; [|cbn [ctl_rel]; auto].
      rewrite chk_isDigit_eq. cbv beta iota zeta.
      replace (in_range i (length s)) with true by (unfold in_range; lia). cbn [andb].
      destruct (negb (go_isDigit (nth (Z.to_nat i) s 0%N))); [cbn [ctl_rel]; repeat split; lia|].
      rewrite chk_intFromDigit_eq. cbv beta iota zeta. cbn [ctl_rel]. repeat split; lia.
    + repeat split; lia.
  - destruct Hsim as (-> & <- & <- & Hi).
    destruct ((p <? 0)%Z || (origins_maxUint16 <? p)%Z); [reflexivity|]. cbn [olift andb].
    replace (slice_ok i (Z.of_nat (length s)) (length s)) with true by (unfold slice_ok; lia).
    reflexivity.
  - rewrite Hsim. reflexivity.
  - reflexivity.
Qed.

Lemma chk_parsePort_ok (s : bytes) :
  exists p r ok, chk_parsePort s = Some (p, r, ok, true) /\ go_parsePort s = Some (p, r, ok).
Proof.
  rewrite chk_parsePort_lift, go_parsePort_eq.
  destruct (parse_port s) as [[p r]|]; cbn [olift]; eauto.
Qed.

(* ---------- fastParseHost ---------- *)

Lemma index_byte_from_bound : forall (s : bytes) c i,
  index_byte_from s c i = (-1)%Z \/
  ((i <= index_byte_from s c i < i + Z.of_nat (length s))%Z /\
   nth (Z.to_nat (index_byte_from s c i - i)) s 0%N = c).
Proof.
  induction s as [|x r IH]; intros c i; cbn [index_byte_from]; [left; reflexivity|].
  destruct (N.eqb_spec x c) as [Hx|Hx].
  - right. rewrite Z.sub_diag. cbn [length nth Z.to_nat]. split; [lia | exact Hx].
  - destruct (IH c (i + 1)%Z) as [H|[H1 H2]]; [left; exact H|right].
    cbn [length]. split; [lia|].
    replace (Z.to_nat (index_byte_from r c (i + 1) - i)) with (S (Z.to_nat (index_byte_from r c (i + 1) - (i + 1)))) by lia.
    exact H2.
Qed.

Lemma index_byte_bound : forall (s : bytes) c,
  strings_IndexByte s c = (-1)%Z \/
  ((0 <= strings_IndexByte s c < Z.of_nat (length s))%Z /\ nth (Z.to_nat (strings_IndexByte s c)) s 0%N = c).
Proof.
  intros s c. unfold strings_IndexByte. destruct (index_byte_from_bound s c 0%Z) as [H|[H1 H2]]; [left; exact H|right].
  rewrite Z.sub_0_r in H2. split; [lia | exact H2].
Qed.

Lemma chk_fastParseHost_lift (s : bytes) : chk_fastParseHost s = olift (go_fastParseHost s).
Proof.
  unfold chk_fastParseHost, go_fastParseHost. cbv beta iota zeta. cbn [andb].
  destruct s as [|c r]; [reflexivity|].
  set (s := c :: r).
  assert (Hl : (1 <= Z.of_nat (length s))%Z) by (subst s; cbn [length]; lia).
  replace (in_range 0 (length s)) with true by (unfold in_range; lia).
  replace (implb (origins_fastParseHost_minIPv6HostLen <=? Z.of_nat (length s))%Z true) with true
    by (destruct (origins_fastParseHost_minIPv6HostLen <=? Z.of_nat (length s))%Z; reflexivity).
  replace (Z.of_nat (length s) =? 0)%Z with false by lia. cbn [orb andb].
  destruct ((origins_fastParseHost_minIPv6HostLen <=? Z.of_nat (length s))%Z && (nth (Z.to_nat 0) s 0%N =? 91)%N) eqn:Hbr.
  - destruct (strings_IndexByte s 93 =? -1)%Z eqn:He; [reflexivity|].
    destruct (index_byte_bound s 93%N) as [H|[H1 H2]]; [lia|].
    assert (H0 : strings_IndexByte s 93%N <> 0%Z).
    { intro H0. rewrite H0 in H2. lia. }
    replace (slice_ok 1 (strings_IndexByte s 93) (length s)) with true by (unfold slice_ok; lia).
    replace (slice_ok (strings_IndexByte s 93 + 1) (Z.of_nat (length s)) (length s)) with true by (unfold slice_ok; lia).
    reflexivity.
  - destruct (nth (Z.to_nat 0) s 0%N =? Z.to_N origins_labelSep)%N; [reflexivity|].
    match goal with |- context [@loop_n (bool * bool * bool * Z)%type ?R1 ?f ?b1 ?s1] =>
    match goal with |- context [@loop_n (bool * bool * Z)%type ?R2 f ?b2 ?s2] =>
      assert (Hsim : lres_rel (fun '(k, p, a, i) '(p', a', i') =>
                                 k = true /\ p = p' /\ a = a' /\ i = i' /\ (0 <= i <= Z.of_nat (length s))%Z) lift
                       (@loop_n (bool * bool * bool * Z)%type R1 f b1 s1) (@loop_n (bool * bool * Z)%type R2 f b2 s2));
      [ | destruct (@loop_n (bool * bool * bool * Z)%type R1 f b1 s1) as [[[[k p] a] i]|r1|],
                   (@loop_n (bool * bool * Z)%type R2 f b2 s2) as [[[p' a'] i']|r2|];
          cbn [lres_rel] in Hsim; try contradiction ]
    end end.
    + apply loop_n_sim.
      * intros [[[k p] a] i] [[p' a'] i'] (-> & <- & <- & <- & Hi). cbv beta iota.
        destruct (i <? Z.of_nat (length s))%Z eqn:E; [|cbn [ctl_rel]; auto].
        cbv zeta. replace (in_range i (length s)) with true by (unfold in_range; lia). cbn [andb].
        destruct (nth (Z.to_nat i) s 0%N =? Z.to_N origins_labelSep)%N.
        { destruct p; cbn [ctl_rel]; [reflexivity | repeat split; lia]. }
        rewrite chk_isDigit_eq. cbv beta iota.
        destruct (go_isDigit (nth (Z.to_nat i) s 0%N)).
        { destruct (p || (i =? 0)%Z); cbn [ctl_rel]; repeat split; lia. }
        rewrite chk_isASCIILabelByte_eq. cbv beta iota.
        destruct (go_isASCIILabelByte (nth (Z.to_nat i) s 0%N)).
        { destruct p; cbn [ctl_rel]; repeat split; lia. }
        cbn [ctl_rel]. repeat split; lia.
      * repeat split; lia.
    + destruct Hsim as (-> & <- & <- & <- & Hi). cbn [olift andb].
      replace (slice_ok 0 i (length s)) with true by (unfold slice_ok; lia).
      replace (slice_ok i (Z.of_nat (length s)) (length s)) with true by (unfold slice_ok; lia).
      reflexivity.
    + rewrite Hsim. reflexivity.
    + reflexivity.
Qed.

Lemma chk_fastParseHost_ok (s : bytes) :
  exists h r ok, chk_fastParseHost s = Some (h, r, ok, true) /\ go_fastParseHost s = Some (h, r, ok).
Proof.
  rewrite chk_fastParseHost_lift. destruct (go_fastParseHost_eq s) as [rest' [_ H]]. rewrite H.
  destruct (fast_parse_host s) as [[h r]|]; cbn [olift]; eauto.
Qed.

(* ---------- Parse ---------- *)

Lemma chk_Parse_lift (s : bytes) : chk_Parse s = olift (go_Parse s).
Proof.
  unfold chk_Parse, go_Parse. cbv beta iota zeta.
  destruct (origins_Parse_maxOriginLen <? Z.of_nat (length s))%Z; [reflexivity|].
  rewrite chk_parseScheme_lift. destruct (go_parseScheme s) as [[[sch s1] ok1]|]; cbn [olift]; [|reflexivity].
  cbn [andb]. destruct (negb ok1); [reflexivity|].
  destruct (strings_CutPrefix s1 origins_schemeHostSep) as [s2 ok2].
  destruct (negb ok2); [reflexivity|].
  rewrite chk_fastParseHost_lift. destruct (go_fastParseHost s2) as [[[h s3] ok3]|]; cbn [olift]; [|reflexivity].
  cbn [andb]. destruct (negb ok3); [reflexivity|].
  destruct (0 <? Z.of_nat (length s3))%Z; [|reflexivity].
  destruct (strings_CutPrefix s3 [Z.to_N origins_hostPortSep]) as [s4 ok4].
  destruct (negb ok4); [reflexivity|].
  rewrite chk_parsePort_lift. destruct (go_parsePort s4) as [[[p s5] ok5]|]; cbn [olift]; [|reflexivity].
  cbn [andb]. destruct (negb ok5 || negb (beqb s5 [])); reflexivity.
Qed.

Theorem chk_Parse_ok (s : bytes) : exists o ok, chk_Parse s = Some (o, ok, true) /\ go_Parse s = Some (o, ok).
Proof.
  rewrite chk_Parse_lift, go_Parse_eq. destruct (parse s) as [o|]; cbn [olift]; eauto.
Qed.

(* ---------- trimLeftOWS, trimRightOWS, TrimOWS ---------- *)

(* the fuel suffices whatever n is (Proofs/LoopHeadersP.v shows it for 0 <= n, with the value) *)
Lemma left_loop_total : forall cp n fuel s i, (length s < fuel)%nat ->
  loop_n fuel (left_body cp n) (s, i) <> Exhausted.
Proof.
  intros cp n. induction fuel as [|f IH]; intros s i Hf; [lia|].
  cbn [loop_n]. unfold left_body at 1.
  destruct s as [|c r]; [discriminate|].
  replace (0 <? Z.of_nat (length (c :: r)))%Z with true by (cbn [length]; lia).
  destruct (n <? i)%Z; [discriminate|].
  destruct (negb (go_isOWS (nth (Z.to_nat 0) (c :: r) 0%N))); [discriminate|].
  cbv zeta. apply IH. change (skipn (Z.to_nat 1) (c :: r)) with r. cbn [length] in Hf. lia.
Qed.

Lemma right_loop_total : forall cp n fuel s i, (length s < fuel)%nat ->
  loop_n fuel (right_body cp n) (s, i) <> Exhausted.
Proof.
  intros cp n. induction fuel as [|f IH]; intros s i Hf; [lia|].
  cbn [loop_n]. unfold right_body at 1.
  destruct (0 <? Z.of_nat (length s))%Z eqn:E; [|discriminate].
  destruct (n <? i)%Z; [discriminate|].
  destruct (negb (go_isOWS (nth (Z.to_nat (Z.of_nat (length s) - 1)) s 0%N))); [discriminate|].
  cbv zeta. apply IH. rewrite firstn_length. lia.
Qed.

Lemma go_trimLeftOWS_total : forall s n, go_trimLeftOWS s n <> None.
Proof.
  intros s n. rewrite go_trimLeftOWS_unfold.
  pose proof (left_loop_total s n (S (length s)) s 0%Z ltac:(lia)) as H.
  destruct (loop_n (S (length s)) (left_body s n) (s, 0%Z)) as [[s' i']|r|] eqn:E; cbn [finish];
    [discriminate | discriminate | exfalso; apply H; exact E].
Qed.

Lemma go_trimRightOWS_total : forall s n, go_trimRightOWS s n <> None.
Proof.
  intros s n. rewrite go_trimRightOWS_unfold.
  pose proof (right_loop_total s n (S (length s)) s 0%Z ltac:(lia)) as H.
  destruct (loop_n (S (length s)) (right_body s n) (s, 0%Z)) as [[s' i']|r|] eqn:E; cbn [finish];
    [discriminate | discriminate | exfalso; apply H; exact E].
Qed.

Lemma chk_trimLeftOWS_lift (s : bytes) (n : Z) : chk_trimLeftOWS s n = olift (go_trimLeftOWS s n).
Proof.
  unfold chk_trimLeftOWS, go_trimLeftOWS. cbv beta iota zeta.
  match goal with |- context [@loop_n (bytes * bool * Z)%type ?R1 ?f ?b1 ?s1] =>
  match goal with |- context [@loop_n (bytes * Z)%type ?R2 f ?b2 ?s2] =>
    assert (Hsim : lres_rel (fun '(t, k, i) '(t', i') => k = true /\ t = t' /\ i = i') lift
                     (@loop_n (bytes * bool * Z)%type R1 f b1 s1) (@loop_n (bytes * Z)%type R2 f b2 s2));
    [ | destruct (@loop_n (bytes * bool * Z)%type R1 f b1 s1) as [[[t k] i]|r1|],
                 (@loop_n (bytes * Z)%type R2 f b2 s2) as [[t' i']|r2|];
        cbn [lres_rel] in Hsim; try contradiction ]
  end end.
  - apply loop_n_sim.
    + intros [[t k] i] [t' i'] (-> & <- & <-). cbv beta iota.
      destruct (0 <? Z.of_nat (length t))%Z eqn:E; [|cbn [ctl_rel]; auto].
      destruct (n <? i)%Z; [reflexivity|]. cbv zeta.
      replace (in_range 0 (length t)) with true by (unfold in_range; lia). cbn [andb].
      destruct (negb (go_isOWS (nth (Z.to_nat 0) t 0%N))); [cbn [ctl_rel]; auto|].
      replace (slice_ok 1 (Z.of_nat (length t)) (length t)) with true by (unfold slice_ok; lia).
      cbn [ctl_rel]. auto.
    + auto.
  - destruct Hsim as (-> & <- & <-). reflexivity.
  - rewrite Hsim. reflexivity.
  - reflexivity.
Qed.

Lemma chk_trimRightOWS_lift (s : bytes) (n : Z) : chk_trimRightOWS s n = olift (go_trimRightOWS s n).
Proof.
  unfold chk_trimRightOWS, go_trimRightOWS. cbv beta iota zeta.
  match goal with |- context [@loop_n (bytes * bool * Z)%type ?R1 ?f ?b1 ?s1] =>
  match goal with |- context [@loop_n (bytes * Z)%type ?R2 f ?b2 ?s2] =>
    assert (Hsim : lres_rel (fun '(t, k, i) '(t', i') => k = true /\ t = t' /\ i = i') lift
                     (@loop_n (bytes * bool * Z)%type R1 f b1 s1) (@loop_n (bytes * Z)%type R2 f b2 s2));
    [ | destruct (@loop_n (bytes * bool * Z)%type R1 f b1 s1) as [[[t k] i]|r1|],
                 (@loop_n (bytes * Z)%type R2 f b2 s2) as [[t' i']|r2|];
        cbn [lres_rel] in Hsim; try contradiction ]
  end end.
  - apply loop_n_sim.
    + intros [[t k] i] [t' i'] (-> & <- & <-). cbv beta iota.
      destruct (0 <? Z.of_nat (length t))%Z eqn:E; [|cbn [ctl_rel]; auto].
      destruct (n <? i)%Z; [reflexivity|]. cbv zeta.
      replace (in_range (Z.of_nat (length t) - 1) (length t)) with true by (unfold in_range; lia). cbn [andb].
      destruct (negb (go_isOWS (nth (Z.to_nat (Z.of_nat (length t) - 1)) t 0%N))); [cbn [ctl_rel]; auto|].
      replace (slice_ok 0 (Z.of_nat (length t) - 1) (length t)) with true by (unfold slice_ok; lia).
      cbn [ctl_rel]. auto.
    + auto.
  - destruct Hsim as (-> & <- & <-). reflexivity.
  - rewrite Hsim. reflexivity.
  - reflexivity.
Qed.

Lemma chk_TrimOWS_lift (s : bytes) (n : Z) : chk_TrimOWS s n = olift (go_TrimOWS s n).
Proof.
  unfold chk_TrimOWS, go_TrimOWS. cbv beta iota zeta.
  destruct (beqb s []); [reflexivity|].
  rewrite chk_trimRightOWS_lift. destruct (go_trimRightOWS s n) as [[t ok]|]; cbn [olift]; [|reflexivity].
  cbn [andb]. destruct (negb ok); [reflexivity|].
  rewrite chk_trimLeftOWS_lift. destruct (go_trimLeftOWS t n) as [[u ok']|]; cbn [olift]; [|reflexivity].
  cbn [andb]. destruct (negb ok'); reflexivity.
Qed.

Lemma go_TrimOWS_total : forall s n, go_TrimOWS s n <> None.
Proof.
  intros s n. unfold go_TrimOWS. cbv beta iota zeta.
  destruct (beqb s []); [discriminate|].
  pose proof (go_trimRightOWS_total s n) as HR.
  destruct (go_trimRightOWS s n) as [[t ok]|]; [|congruence].
  destruct (negb ok); [discriminate|].
  pose proof (go_trimLeftOWS_total t n) as HL.
  destruct (go_trimLeftOWS t n) as [[u ok']|]; [|congruence].
  destruct (negb ok'); discriminate.
Qed.

Lemma chk_trimLeftOWS_ok (s : bytes) (n : Z) :
  exists r ok, chk_trimLeftOWS s n = Some (r, ok, true) /\ go_trimLeftOWS s n = Some (r, ok).
Proof.
  rewrite chk_trimLeftOWS_lift. pose proof (go_trimLeftOWS_total s n) as H.
  destruct (go_trimLeftOWS s n) as [[r ok]|]; [|congruence]. cbn [olift]. eauto.
Qed.

Lemma chk_trimRightOWS_ok (s : bytes) (n : Z) :
  exists r ok, chk_trimRightOWS s n = Some (r, ok, true) /\ go_trimRightOWS s n = Some (r, ok).
Proof.
  rewrite chk_trimRightOWS_lift. pose proof (go_trimRightOWS_total s n) as H.
  destruct (go_trimRightOWS s n) as [[r ok]|]; [|congruence]. cbn [olift]. eauto.
Qed.

Theorem chk_TrimOWS_ok (s : bytes) (n : Z) :
  exists r ok, chk_TrimOWS s n = Some (r, ok, true) /\ go_TrimOWS s n = Some (r, ok).
Proof.
  rewrite chk_TrimOWS_lift. pose proof (go_TrimOWS_total s n) as H.
  destruct (go_TrimOWS s n) as [[r ok]|]; [|congruence]. cbn [olift]. eauto.
Qed.

(* ---------- cutAtComma ---------- *)

(* n >= 0 is needed: Go evaluates str[:min(len(str), n)] *)
Lemma chk_cutAtComma_lift (s : bytes) (n : Z) : (0 <= n)%Z -> chk_cutAtComma s n = (go_cutAtComma s n, true).
Proof.
  intros Hn. unfold chk_cutAtComma, go_cutAtComma. cbv beta iota zeta. cbn [andb].
  set (e := Z.min (Z.of_nat (length s)) n).
  replace (slice_ok 0 e (length s)) with true by (unfold slice_ok; lia).
  destruct (index_byte_bound (firstn (Z.to_nat e) s) 44%N) as [H|[H _]].
  - rewrite H. reflexivity.
  - rewrite firstn_length in H.
    destruct (0 <=? strings_IndexByte (firstn (Z.to_nat e) s) 44)%Z; [|reflexivity].
    replace (slice_ok (strings_IndexByte (firstn (Z.to_nat e) s) 44 + 1) (Z.of_nat (length s)) (length s)) with true
      by (unfold slice_ok; lia).
    replace (slice_ok 0 (strings_IndexByte (firstn (Z.to_nat e) s) 44) (length s)) with true
      by (unfold slice_ok; lia).
    reflexivity.
Qed.

Lemma chk_cutAtComma_ok (s : bytes) (n : Z) : (0 <= n)%Z ->
  exists a c f, chk_cutAtComma s n = (a, c, f, true) /\ go_cutAtComma s n = (a, c, f).
Proof.
  intros Hn. rewrite (chk_cutAtComma_lift s n Hn).
  destruct (go_cutAtComma s n) as [[a c] f]. eauto.
Qed.

(* ---------- Check ---------- *)

Lemma find_index_bound : forall e (l : list bytes) i,
  find_index e l i = (-1)%Z \/ (i <= find_index e l i < i + Z.of_nat (length l))%Z.
Proof.
  intros e. induction l as [|x l IH]; intros i; cbn [find_index]; [left; reflexivity|].
  destruct (beqb e x); [right; cbn [length]; lia|].
  destruct (IH (i + 1)%Z) as [H|H]; [left; exact H | right; cbn [length]; lia].
Qed.

(* a successful SortedSet.IndexAfter answers a position of the slice: no sortedness needed *)
Lemma index_after_bound : forall set pos e,
  (0 <= index_after set pos e)%Z -> (index_after set pos e < Z.of_nat (length (elems set)))%Z.
Proof.
  intros set pos e. unfold index_after.
  destruct (maxlen set <? blen e)%N; [lia|].
  destruct (find_index_bound e (skipn (Z.to_nat (pos + 1)) (elems set)) (pos + 1)%Z) as [H|H]; [lia|].
  rewrite skipn_length in H. lia.
Qed.

Lemma chk_Check_lift (set : sset) (lines : list bytes) : chk_Check set lines = olift (go_Check set lines).
Proof.
  unfold chk_Check, go_Check. cbv beta iota zeta.
  set (m := (headers_MaxOWSBytes + Z.of_N (maxlen set) + headers_MaxOWSBytes + 1)%Z).
  assert (Hm : (0 <= m)%Z) by (pose proof max_ows_bytes_nonneg; subst m; lia).
  set (len := length (elems set)).
  match goal with |- context [@loop_list ?A (bool * Z * bytes * bool * Z * bool)%type ?R1 ?l ?b1 ?s1] =>
  match goal with |- context [@loop_list A (Z * bytes * bool * Z * bool)%type ?R2 l ?b2 ?s2] =>
    assert (Hsim : lres_rel (fun '(k, pos, nm, cf, ee, ok) '(pos', nm', cf', ee', ok') =>
                               k = true /\ pos = pos' /\ nm = nm' /\ cf = cf' /\ ee = ee' /\ ok = ok' /\
                               (-1 <= pos < Z.of_nat len)%Z) lift
                     (@loop_list A (bool * Z * bytes * bool * Z * bool)%type R1 l b1 s1)
                     (@loop_list A (Z * bytes * bool * Z * bool)%type R2 l b2 s2));
    [ | destruct (@loop_list A (bool * Z * bytes * bool * Z * bool)%type R1 l b1 s1) as [[[[[[k pos] nm] cf] ee] ok]|r1|],
                 (@loop_list A (Z * bytes * bool * Z * bool)%type R2 l b2 s2) as [[[[[pos' nm'] cf'] ee'] ok']|r2|];
        cbn [lres_rel] in Hsim; try contradiction ]
  end end.
  - apply loop_list_sim.
    + intros [[[[[k pos] nm] cf] ee] ok] [[[[pos' nm'] cf'] ee'] ok'] acrh (-> & <- & <- & <- & <- & <- & Hp).
      cbv beta iota.
      match goal with |- context [@loop_n (bool * Z * bytes * bool * Z * bool * bytes)%type ?R1 ?f ?b1 ?s1] =>
      match goal with |- context [@loop_n (Z * bytes * bool * Z * bool * bytes)%type ?R2 f ?b2 ?s2] =>
        assert (Hin : lres_rel (fun '(k, pos, nm, cf, ee, ok, ac) '(pos', nm', cf', ee', ok', ac') =>
                                 k = true /\ pos = pos' /\ nm = nm' /\ cf = cf' /\ ee = ee' /\ ok = ok' /\ ac = ac' /\
                                 (-1 <= pos < Z.of_nat len)%Z) lift
                       (@loop_n (bool * Z * bytes * bool * Z * bool * bytes)%type R1 f b1 s1)
                       (@loop_n (Z * bytes * bool * Z * bool * bytes)%type R2 f b2 s2));
        [ | destruct (@loop_n (bool * Z * bytes * bool * Z * bool * bytes)%type R1 f b1 s1)
                       as [[[[[[[k1 pos1] nm1] cf1] ee1] ok1] ac1]|r1|],
                     (@loop_n (Z * bytes * bool * Z * bool * bytes)%type R2 f b2 s2)
                       as [[[[[[pos1' nm1'] cf1'] ee1'] ok1'] ac1']|r2|];
            cbn [lres_rel] in Hin; try contradiction ]
      end end.
      * apply loop_n_sim.
        -- clear pos nm cf ee ok acrh Hp.
           intros [[[[[[k pos] nm] cf] ee] ok] ac] [[[[[pos' nm'] cf'] ee'] ok'] ac']
                  (-> & <- & <- & <- & <- & <- & <- & Hp).
           cbv beta iota.
           rewrite (chk_cutAtComma_lift ac m Hm).
           destruct (go_cutAtComma ac m) as [[nm1 ac1] cf1]. cbv beta iota zeta.
           rewrite chk_TrimOWS_lift.
           destruct (go_TrimOWS nm1 headers_MaxOWSBytes) as [[nm2 ok2]|]; cbn [olift]; [|exact I].
           cbn [andb]. destruct (negb ok2); [reflexivity|].
           destruct (beqb nm2 []).
           { destruct (headers_MaxEmptyElements <? ee + 1)%Z; [reflexivity|].
             destruct (negb cf1); cbn [ctl_rel]; repeat split; try reflexivity; lia. }
           replace (slice_ok (pos + 1) (Z.of_nat len) len) with true by (unfold slice_ok; lia).
           cbn [andb].
           destruct (index_after set pos nm2 <? 0)%Z eqn:Ei; [reflexivity|].
           pose proof (index_after_bound set pos nm2 ltac:(lia)) as Hb. fold len in Hb.
           destruct (negb cf1); cbn [ctl_rel]; repeat split; try reflexivity; lia.
        -- repeat split; try reflexivity; lia.
      * destruct Hin as (-> & <- & <- & <- & <- & <- & <- & Hp1). cbn [ctl_rel].
        repeat split; try reflexivity; lia.
      * cbn [ctl_rel]. exact Hin.
      * exact I.
    + repeat split; try reflexivity; lia.
  - destruct Hsim as (-> & _). reflexivity.
  - rewrite Hsim. reflexivity.
  - reflexivity.
Qed.

Theorem chk_Check_ok (set : sset) (lines : list bytes) :
  exists v, chk_Check set lines = Some (v, true) /\ go_Check set lines = Some v.
Proof.
  rewrite chk_Check_lift, go_Check_eq. cbn [olift]. eauto.
Qed.

Print Assumptions chk_parseScheme_ok.
Print Assumptions chk_fastParseHost_ok.
Print Assumptions chk_parsePort_ok.
Print Assumptions chk_Parse_ok.
Print Assumptions chk_trimLeftOWS_ok.
Print Assumptions chk_trimRightOWS_ok.
Print Assumptions chk_TrimOWS_ok.
Print Assumptions chk_cutAtComma_ok.
Print Assumptions chk_Check_ok.
