(* Proofs/LoopOriginsP.v -- the Gallina functions that tools/genloop generates from internal/origins/origins.go
   (Gen/LoopSrc.v: index-based byte loops run with fuel) compute exactly what the hand-written structural model
   (Model/Origins.v) computes, on every input; in particular the fuel the translator supplies always suffices. *)
Require Import Base.Bytes Gen.Tables Model.Origins Model.LoopRt Gen.LoopSrc.
From Coq Require Import ZifyBool ZifyNat ZifyN.
Open Scope bool_scope.

(* ---------- index <-> list bookkeeping: s = pre ++ suf, i = length pre ---------- *)

Lemma nth_app_len : forall (pre : bytes) c r d, nth (length pre) (pre ++ c :: r) d = c.
Proof. induction pre as [|x pre IH]; intros c r d; cbn; auto. Qed.

Lemma firstn_app_len : forall (pre suf : bytes), firstn (length pre) (pre ++ suf) = pre.
Proof. induction pre as [|x pre IH]; intros suf; cbn; [reflexivity | f_equal; auto]. Qed.

Lemma skipn_app_len : forall (pre suf : bytes), skipn (length pre) (pre ++ suf) = suf.
Proof. induction pre as [|x pre IH]; intros suf; cbn; auto. Qed.

Lemma nth_idx : forall (pre : bytes) c r,
  nth (Z.to_nat (Z.of_nat (length pre))) (pre ++ c :: r) 0%N = c.
Proof. intros pre c r. rewrite Nat2Z.id. apply nth_app_len. Qed.

Lemma len_snoc : forall (pre : bytes) c, (Z.of_nat (length pre) + 1)%Z = Z.of_nat (length (pre ++ [c])).
Proof. intros pre c. rewrite app_length. cbn [length]. lia. Qed.

Lemma loop_n_S : forall (St R : Type) n (body : St -> ctl St R) st,
  loop_n (S n) body st =
  match body st with Next s' => loop_n n body s' | Brk s' => Done s' | Ret r => Returned r | Exh => Exhausted end.
Proof. reflexivity. Qed.

(* ---------- parseScheme ---------- *)

Definition scheme_body (s : bytes) (e : Z) : Z -> ctl Z (bytes * bytes * bool) := fun v_i =>
  if (v_i <? e)%Z then (
    if (negb (go_isSubsequentSchemeByte (nth (Z.to_nat v_i) s 0%N))) then (Brk v_i)
    else (let v_i := (v_i + 1)%Z in (Next v_i)))
  else (Brk v_i).

Lemma scheme_loop : forall n suf pre fuel s e,
  s = pre ++ suf ->
  e = Z.of_nat (length pre + min n (length suf)) ->
  (S (min n (length suf)) <= fuel)%nat ->
  loop_n fuel (scheme_body s e) (Z.of_nat (length pre)) =
    Done (Z.of_nat (length (pre ++ fst (take_while_n (in_set origins_laterSchemeBytes) n suf))))
  /\ suf = fst (take_while_n (in_set origins_laterSchemeBytes) n suf)
           ++ snd (take_while_n (in_set origins_laterSchemeBytes) n suf).
Proof.
  induction n as [|n IH]; intros suf pre fuel s e Hs He Hf.
  - destruct fuel as [|f]; [lia|]. rewrite loop_n_S. unfold scheme_body at 1.
    cbn [take_while_n fst snd]. rewrite app_nil_r.
    replace (Z.of_nat (length pre) <? e)%Z with false by (cbn [min] in He; lia).
    split; reflexivity.
  - destruct suf as [|c r].
    + destruct fuel as [|f]; [lia|]. rewrite loop_n_S. unfold scheme_body at 1.
      cbn [take_while_n fst snd]. rewrite app_nil_r.
      replace (Z.of_nat (length pre) <? e)%Z with false by (cbn [min length] in He; lia).
      split; reflexivity.
    + cbn [length min] in He, Hf. destruct fuel as [|f]; [lia|]. rewrite loop_n_S. unfold scheme_body at 1.
      replace (Z.of_nat (length pre) <? e)%Z with true by lia.
      rewrite Hs at 1. rewrite nth_idx.
      cbn [take_while_n]. unfold go_isSubsequentSchemeByte. unfold in_set at 1 3 5.
      destruct (memN c origins_laterSchemeBytes) eqn:Hc; cbn [negb].
      * cbv zeta. rewrite (len_snoc pre c).
        destruct (IH r (pre ++ [c]) f s e) as [IH1 IH2].
        { rewrite <- app_assoc. exact Hs. }
        { rewrite app_length. cbn [length]. lia. }
        { lia. }
        rewrite IH1.
        destruct (take_while_n (in_set origins_laterSchemeBytes) n r) as [a rest] eqn:E.
        cbn [fst snd] in *. rewrite <- app_assoc. cbn [app]. split; [reflexivity|]. f_equal. exact IH2.
      * cbn [fst snd]. rewrite app_nil_r. split; reflexivity.
Qed.

Theorem go_parseScheme_eq : forall s,
  go_parseScheme s = Some (match parse_scheme s with Some (sch, rest) => (sch, rest, true) | None => ([], s, false) end).
Proof.
  intros s. unfold go_parseScheme, parse_scheme.
  destruct s as [|c r].
  - reflexivity.
  - replace (Z.of_nat (length (c :: r)) =? 0)%Z with false by (cbn [length]; lia).
    cbn [orb]. change (nth (Z.to_nat 0) (c :: r) 0%N) with c.
    unfold go_isLowerAlpha, in_set at 1.
    destruct (memN c origins_lowerAlpha) eqn:Hc; cbn [negb]; [|reflexivity].
    cbv zeta.
    match goal with |- context [loop_n ?f ?body ?i] =>
      change body with (scheme_body (c :: r) (Z.min origins_maxSchemeLen (Z.of_nat (length (c :: r)))));
      change i with (Z.of_nat (length [c]))
    end.
    destruct (scheme_loop (Z.to_nat origins_maxSchemeLen - 1) r [c]
                (S (Z.to_nat (Z.min origins_maxSchemeLen (Z.of_nat (length (c :: r))) - 1)))
                (c :: r) (Z.min origins_maxSchemeLen (Z.of_nat (length (c :: r))))) as [H1 H2].
    { reflexivity. }
    { change origins_maxSchemeLen with 64%Z. cbn [length]. lia. }
    { change origins_maxSchemeLen with 64%Z. cbn [length]. lia. }
    change (Z.of_nat (length [c])) with 1%Z in *.
    rewrite H1.
    destruct (take_while_n (in_set origins_laterSchemeBytes) (Z.to_nat origins_maxSchemeLen - 1) r) as [a rest] eqn:E.
    cbn [fst snd] in *. cbn [app]. rewrite Nat2Z.id.
    rewrite H2. change (c :: a ++ rest) with ((c :: a) ++ rest).
    rewrite firstn_app_len, skipn_app_len. reflexivity.
Qed.

(* ---------- parsePort ---------- *)

Definition port_body (s : bytes) (e : Z) : Z * Z -> ctl (Z * Z) (Z * bytes * bool) := fun '(v_port, v_i) =>
  if (v_i <? e)%Z then (
    if (negb (go_isDigit (nth (Z.to_nat v_i) s 0%N))) then (Brk (v_port, v_i))
    else (
      let v_port := ((origins_parsePort_base * v_port)%Z + (go_intFromDigit (nth (Z.to_nat v_i) s 0%N)))%Z in
      let v_i := (v_i + 1)%Z in (Next (v_port, v_i))))
  else (Brk (v_port, v_i)).

Lemma port_loop_eq : forall n suf pre fuel s e acc,
  s = pre ++ suf ->
  e = Z.of_nat (length pre + min n (length suf)) ->
  (S (min n (length suf)) <= fuel)%nat ->
  exists pre',
    loop_n fuel (port_body s e) (acc, Z.of_nat (length pre)) = Done (fst (port_loop suf n acc), Z.of_nat (length pre'))
    /\ s = pre' ++ snd (port_loop suf n acc).
Proof.
  induction n as [|n IH]; intros suf pre fuel s e acc Hs He Hf.
  - destruct fuel as [|f]; [lia|]. rewrite loop_n_S. unfold port_body at 1.
    replace (Z.of_nat (length pre) <? e)%Z with false by (cbn [min] in He; lia).
    exists pre. destruct suf; cbn [port_loop fst snd]; split; auto.
  - destruct suf as [|c r].
    + destruct fuel as [|f]; [lia|]. rewrite loop_n_S. unfold port_body at 1.
      replace (Z.of_nat (length pre) <? e)%Z with false by (cbn [min length] in He; lia).
      exists pre. cbn [port_loop fst snd]; split; auto.
    + cbn [length min] in He, Hf. destruct fuel as [|f]; [lia|]. rewrite loop_n_S. unfold port_body at 1.
      replace (Z.of_nat (length pre) <? e)%Z with true by lia.
      assert (Hn : nth (Z.to_nat (Z.of_nat (length pre))) s 0%N = c) by (rewrite Hs; apply nth_idx).
      rewrite !Hn. cbn [port_loop]. unfold go_isDigit, in_set.
      destruct (memN c origins_digits) eqn:Hc; cbn [negb].
      * cbv zeta. rewrite (len_snoc pre c). unfold go_intFromDigit.
        apply (IH r (pre ++ [c]) f s e).
        { rewrite <- app_assoc. exact Hs. }
        { rewrite app_length. cbn [length]. lia. }
        { lia. }
      * exists pre. cbn [fst snd]. split; auto.
Qed.

Theorem go_parsePort_eq : forall s,
  go_parsePort s = Some (match parse_port s with Some (p, rest) => (p, rest, true) | None => (0%Z, s, false) end).
Proof.
  intros s. unfold go_parsePort, parse_port.
  destruct s as [|c r].
  - reflexivity.
  - replace (Z.of_nat (length (c :: r)) =? 0)%Z with false by (cbn [length]; lia).
    cbn [orb]. change (nth (Z.to_nat 0) (c :: r) 0%N) with c.
    unfold go_isNonZeroDigit, in_set at 1.
    destruct (memN c origins_nonzeroDigits) eqn:Hc; cbn [negb]; [|reflexivity].
    cbv zeta.
    match goal with |- context [loop_n ?f ?body (?p, ?i)] =>
      change body with (port_body (c :: r) (Z.min (Z.of_nat (length (c :: r))) origins_maxPortLen));
      change i with (Z.of_nat (length [c]))
    end.
    destruct (port_loop_eq (Z.to_nat origins_maxPortLen - 1) r [c]
                (S (Z.to_nat (Z.min (Z.of_nat (length (c :: r))) origins_maxPortLen - 1)))
                (c :: r) (Z.min (Z.of_nat (length (c :: r))) origins_maxPortLen)
                (go_intFromDigit c)) as [pre' [H1 H2]].
    { reflexivity. }
    { change origins_maxPortLen with 5%Z. cbn [length]. lia. }
    { change origins_maxPortLen with 5%Z. cbn [length]. lia. }
    change (Z.of_nat (length [c])) with 1%Z in *.
    rewrite H1. unfold go_intFromDigit in *.
    destruct (port_loop r (Z.to_nat origins_maxPortLen - 1) (Z.of_N c - 48)) as [p rest] eqn:E.
    cbn [fst snd] in *.
    destruct ((p <? 0)%Z || (origins_maxUint16 <? p)%Z); [reflexivity|].
    rewrite Nat2Z.id. rewrite H2 at 1. rewrite skipn_app_len. reflexivity.
Qed.

(* ---------- fastParseHost ---------- *)

Definition host_body (s : bytes) : bool * bool * Z -> ctl (bool * bool * Z) (host * bytes * bool) :=
  fun '(v_previousByteWasLabelSep, v_assumeIPv4, v_i) =>
    if (v_i <? (Z.of_nat (length s)))%Z then (
      if (N.eqb (nth (Z.to_nat v_i) s 0%N) (Z.to_N origins_labelSep)) then (
        if v_previousByteWasLabelSep then (Ret (zero_host, ([] : bytes), false))
        else (
          let v_previousByteWasLabelSep := true in
          let v_i := (v_i + 1)%Z in (Next (v_previousByteWasLabelSep, v_assumeIPv4, v_i))))
      else (
        if (go_isDigit (nth (Z.to_nat v_i) s 0%N)) then (
          let v_assumeIPv4 := if (v_previousByteWasLabelSep || (v_i =? (0)%Z)%Z) then true else (v_assumeIPv4) in
          let v_previousByteWasLabelSep := false in
          let v_i := (v_i + 1)%Z in (Next (v_previousByteWasLabelSep, v_assumeIPv4, v_i)))
        else (
          if (go_isASCIILabelByte (nth (Z.to_nat v_i) s 0%N)) then (
            let v_assumeIPv4 := if v_previousByteWasLabelSep then false else (v_assumeIPv4) in
            let v_previousByteWasLabelSep := false in
            let v_i := (v_i + 1)%Z in (Next (v_previousByteWasLabelSep, v_assumeIPv4, v_i)))
          else (Brk (v_previousByteWasLabelSep, v_assumeIPv4, v_i)))))
    else (Brk (v_previousByteWasLabelSep, v_assumeIPv4, v_i)).

Lemma host_body_end : forall s prev ip4,
  host_body s (prev, ip4, Z.of_nat (length s)) = Brk (prev, ip4, Z.of_nat (length s)).
Proof. intros s prev ip4. unfold host_body. rewrite Z.ltb_irrefl. reflexivity. Qed.

Lemma host_body_step : forall s pre c r prev ip4,
  s = pre ++ c :: r ->
  host_body s (prev, ip4, Z.of_nat (length pre)) =
    if (c =? Z.to_N origins_labelSep)%N then
      if prev then Ret (zero_host, [], false) else Next (true, ip4, Z.of_nat (length (pre ++ [c])))
    else if memN c origins_digits then
      Next (false, (if prev || (Z.of_nat (length pre) =? 0)%Z then true else ip4), Z.of_nat (length (pre ++ [c])))
    else if memN c origins_asciiLabelBytes then
      Next (false, (if prev then false else ip4), Z.of_nat (length (pre ++ [c])))
    else Brk (prev, ip4, Z.of_nat (length pre)).
Proof.
  intros s pre c r prev ip4 Hs. unfold host_body.
  replace (Z.of_nat (length pre) <? Z.of_nat (length s))%Z with true
    by (rewrite Hs, app_length; cbn [length]; lia).
  assert (Hn : nth (Z.to_nat (Z.of_nat (length pre))) s 0%N = c) by (rewrite Hs; apply nth_idx).
  rewrite !Hn. cbv zeta. rewrite (len_snoc pre c). unfold go_isDigit, go_isASCIILabelByte. reflexivity.
Qed.

Lemma host_loop_eq : forall suf pre first prev ip4 fuel s,
  s = pre ++ suf ->
  first = (Z.of_nat (length pre) =? 0)%Z ->
  (length suf < fuel)%nat ->
  match host_loop suf first prev ip4 with
  | Some (h, rest, v) =>
      (exists p', loop_n fuel (host_body s) (prev, ip4, Z.of_nat (length pre)) = Done (p', v, Z.of_nat (length (pre ++ h))))
      /\ suf = h ++ rest
  | None => loop_n fuel (host_body s) (prev, ip4, Z.of_nat (length pre)) = Returned (zero_host, [], false)
  end.
Proof.
  induction suf as [|c r IH]; intros pre first prev ip4 fuel s Hs Hfirst Hf.
  - cbn [host_loop]. destruct fuel as [|f]; [lia|]. rewrite loop_n_S.
    rewrite app_nil_r in *. subst s. rewrite host_body_end.
    split; [exists prev; reflexivity | reflexivity].
  - cbn [length] in Hf. destruct fuel as [|f]; [lia|]. rewrite loop_n_S.
    rewrite (host_body_step s pre c r prev ip4 Hs). rewrite <- Hfirst.
    cbn [host_loop]. unfold label_sep, in_set.
    assert (Hs' : s = (pre ++ [c]) ++ r) by (rewrite <- app_assoc; exact Hs).
    assert (Hfirst' : false = (Z.of_nat (length (pre ++ [c])) =? 0)%Z) by (rewrite app_length; cbn [length]; lia).
    assert (Hf' : (length r < f)%nat) by lia.
    destruct (c =? Z.to_N origins_labelSep)%N eqn:Hsep.
    + destruct prev; [reflexivity|].
      specialize (IH (pre ++ [c]) false true ip4 f s Hs' Hfirst' Hf').
      destruct (host_loop r false true ip4) as [[[h rest] v]|]; [|exact IH].
      destruct IH as [[p' IH1] IH2]. rewrite <- app_assoc in IH1. cbn [app] in IH1.
      split; [exists p'; exact IH1 | cbn [app]; f_equal; exact IH2].
    + destruct (memN c origins_digits) eqn:Hd.
      * specialize (IH (pre ++ [c]) false false (if prev || first then true else ip4) f s Hs' Hfirst' Hf').
        destruct (host_loop r false false (if prev || first then true else ip4)) as [[[h rest] v]|]; [|exact IH].
        destruct IH as [[p' IH1] IH2]. rewrite <- app_assoc in IH1. cbn [app] in IH1.
        split; [exists p'; exact IH1 | cbn [app]; f_equal; exact IH2].
      * destruct (memN c origins_asciiLabelBytes) eqn:Ha.
        -- specialize (IH (pre ++ [c]) false false (if prev then false else ip4) f s Hs' Hfirst' Hf').
           destruct (host_loop r false false (if prev then false else ip4)) as [[[h rest] v]|]; [|exact IH].
           destruct IH as [[p' IH1] IH2]. rewrite <- app_assoc in IH1. cbn [app] in IH1.
           split; [exists p'; exact IH1 | cbn [app]; f_equal; exact IH2].
        -- rewrite app_nil_r. split; [exists prev; reflexivity | reflexivity].
Qed.

Lemma index_cut : forall c s i,
  match cut_byte c s with
  | Some (bf, af) => index_byte_from s c i = (i + Z.of_nat (length bf))%Z /\ s = bf ++ c :: af
  | None => index_byte_from s c i = (-1)%Z
  end.
Proof.
  intros c. induction s as [|x s IH]; intros i; cbn [cut_byte index_byte_from]; [reflexivity|].
  destruct (N.eqb_spec x c) as [Hx|Hx].
  - subst x. cbn [length app]. split; [lia | reflexivity].
  - specialize (IH (i + 1)%Z). destruct (cut_byte c s) as [[u v]|]; [|exact IH].
    destruct IH as [IH1 IH2]. cbn [length app]. split; [lia | f_equal; exact IH2].
Qed.

(* the model's match on the byte literal 91, with the test made explicit *)
Definition fph_alt (s : bytes) : option (host * bytes) :=
  match s with
  | [] => None
  | c :: r =>
      if (c =? 91)%N && (Z.to_nat origins_fastParseHost_minIPv6HostLen <=? length s)%nat then
        match cut_byte 93 s with
        | Some (bf, af) => Some ({| hvalue := tl bf; assume_ip := true |}, af)
        | None => None
        end
      else if (c =? label_sep)%N then None
      else match host_loop s true false false with
           | Some (h, rest, v) => Some ({| hvalue := h; assume_ip := v |}, rest)
           | None => None
           end
  end.

Lemma fph_alt_eq : forall s, fast_parse_host s = fph_alt s.
Proof.
  intros [|c r]; [reflexivity|].
  destruct (N.eqb_spec c 91) as [Hc|Hc].
  - subst c. unfold fast_parse_host, fph_alt. rewrite N.eqb_refl. cbn [andb].
    destruct (Z.to_nat origins_fastParseHost_minIPv6HostLen <=? length (91%N :: r))%nat; reflexivity.
  - unfold fast_parse_host, fph_alt. apply N.eqb_neq in Hc. rewrite Hc. cbn [andb]. apply N.eqb_neq in Hc.
    destruct c as [|p]; [reflexivity|].
    do 7 (try (destruct p as [p|p|]; try reflexivity)).
    all: exfalso; apply Hc; reflexivity.
Qed.

(* On failure the Go code does not return a uniform remainder: the input itself when it is empty, starts with a
   label separator or has an unterminated bracket, and "" when two consecutive label separators are met. *)
Theorem go_fastParseHost_eq : forall s,
  exists rest', (rest' = s \/ rest' = []) /\
    go_fastParseHost s = Some (match fast_parse_host s with
                               | Some (h, rest) => (h, rest, true)
                               | None => (zero_host, rest', false) end).
Proof.
  intros s. rewrite fph_alt_eq. unfold go_fastParseHost. cbv zeta.
  destruct s as [|c r].
  - exists []. split; [left; reflexivity | reflexivity].
  - change (nth (Z.to_nat 0) (c :: r) 0%N) with c.
    replace ((origins_fastParseHost_minIPv6HostLen <=? Z.of_nat (length (c :: r)))%Z && (c =? 91)%N)
      with ((c =? 91)%N && (Z.to_nat origins_fastParseHost_minIPv6HostLen <=? length (c :: r))%nat)
      by (change origins_fastParseHost_minIPv6HostLen with 4%Z; lia).
    unfold fph_alt.
    destruct ((c =? 91)%N && (Z.to_nat origins_fastParseHost_minIPv6HostLen <=? length (c :: r))%nat) eqn:Hbr.
    + apply andb_true_iff in Hbr. destruct Hbr as [Hc _]. apply N.eqb_eq in Hc. subst c.
      unfold strings_IndexByte.
      pose proof (index_cut 93%N (91%N :: r) 0%Z) as Hi.
      destruct (cut_byte 93 (91%N :: r)) as [[bf af]|].
      * destruct Hi as [Hi Hs]. rewrite Hi.
        replace (0 + Z.of_nat (length bf) =? -1)%Z with false by lia.
        exists []. split; [right; reflexivity|].
        destruct bf as [|x bf]; [discriminate Hs|].
        unfold slice3. rewrite Hs. change (Z.to_nat 1) with 1%nat. cbn [app skipn tl].
        replace (Z.to_nat (0 + Z.of_nat (length (x :: bf)) - 1)) with (length bf) by (cbn [length]; lia).
        rewrite firstn_app_len.
        replace (Z.to_nat (0 + Z.of_nat (length (x :: bf)) + 1)) with (length (x :: bf ++ [93%N]))
          by (cbn [length]; rewrite app_length; cbn [length]; lia).
        change (x :: bf ++ 93%N :: af) with ((x :: bf) ++ [93%N] ++ af).
        rewrite app_assoc. change ((x :: bf) ++ [93%N]) with (x :: bf ++ [93%N]).
        rewrite skipn_app_len. reflexivity.
      * rewrite Hi. exists (91%N :: r). split; [left; reflexivity | reflexivity].
    + replace (Z.of_nat (length (c :: r)) =? 0)%Z with false by (cbn [length]; lia).
      cbn [orb]. unfold label_sep.
      destruct (c =? Z.to_N origins_labelSep)%N eqn:Hsep.
      * exists (c :: r). split; [left; reflexivity | reflexivity].
      * match goal with |- context [loop_n ?f ?body (?p, ?a, ?i)] =>
          change body with (host_body (c :: r)); change i with (Z.of_nat (length (@nil N)))
        end.
        pose proof (host_loop_eq (c :: r) [] true false false
                      (S (Z.to_nat (Z.of_nat (length (c :: r)) - Z.of_nat (length (@nil N))))) (c :: r)
                      eq_refl eq_refl) as Hl.
        cbv beta in Hl.
        destruct (host_loop (c :: r) true false false) as [[[h rest] v]|].
        -- destruct Hl as [[p' Hl1] Hl2]; [cbn [length]; lia|]. rewrite Hl1. cbn [app].
           exists []. split; [right; reflexivity|].
           rewrite Nat2Z.id. rewrite Hl2. rewrite firstn_app_len, skipn_app_len. reflexivity.
        -- rewrite Hl; [|cbn [length]; lia]. exists []. split; [right; reflexivity | reflexivity].
Qed.

(* ---------- Parse ---------- *)

Theorem go_Parse_eq : forall s,
  go_Parse s = Some (match parse s with Some o => (o, true) | None => (zero_origin, false) end).
Proof.
  intros s. unfold go_Parse, parse. cbv zeta.
  destruct (origins_Parse_maxOriginLen <? Z.of_nat (length s))%Z; [reflexivity|].
  rewrite go_parseScheme_eq.
  destruct (parse_scheme s) as [[sch s1]|]; cbn [negb]; [|reflexivity].
  unfold strings_CutPrefix.
  destruct (cut_prefix origins_schemeHostSep s1) as [s2|]; cbn [negb]; [|reflexivity].
  destruct (go_fastParseHost_eq s2) as [rest' [_ Hh]]. rewrite Hh.
  destruct (fast_parse_host s2) as [[h s3]|]; cbn [negb]; [|reflexivity].
  destruct s3 as [|x s3]; [reflexivity|].
  replace (0 <? Z.of_nat (length (x :: s3)))%Z with true by (cbn [length]; lia).
  unfold host_port_sep.
  destruct (cut_prefix [Z.to_N origins_hostPortSep] (x :: s3)) as [s4|]; cbn [negb]; [|reflexivity].
  rewrite go_parsePort_eq.
  destruct (parse_port s4) as [[p rest]|]; cbn [negb orb]; [|reflexivity].
  destruct rest as [|y rest]; reflexivity.
Qed.

Print Assumptions go_parseScheme_eq.
Print Assumptions go_fastParseHost_eq.
Print Assumptions go_parsePort_eq.
Print Assumptions go_Parse_eq.
