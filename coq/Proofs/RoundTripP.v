(* Proofs/RoundTripP.v -- C06, layer 1: the non-origin fields of Config() re-validate to the same
   internal values, and [serve_ext]: the observations of an internal configuration that the
   request handler depends on.
   Main results: [status_rt], [max_age_rt], [validate_methods_rt], [validate_req_headers_rt],
   [validate_res_headers_rt], [fold_add_elems], [atoi_itoa], [same_obs], [serve_ext]. *)
Require Import Base.Bytes Gen.Tables.
Require Import Model.Util Model.Headers Model.Methods Model.Origins Model.Netip Model.Pattern Model.Radix
  Model.CfgErrors Model.Config Model.Serve.
Require Import Spec.Origins Spec.Wire Spec.ConfigDoc.
Require Import Proofs.RadixP Proofs.HeadersP Proofs.ParseP Proofs.Rel Proofs.ConfigP.
From Coq Require Import Sorted ZifyBool ZifyNat ZifyN.
Open Scope N_scope.

(* ------------------------------------------------------------------------------------------ *)
(* 1. decimal rendering and parsing                                                            *)
(* ------------------------------------------------------------------------------------------ *)

Lemma atoi_acc_app p q a : atoi_acc (p ++ q) a = atoi_acc q (atoi_acc p a).
Proof. revert a. induction p as [|c p IH]; intros a; [reflexivity|]. cbn [app atoi_acc]. apply IH. Qed.

Lemma digits_fuel_spec f : forall n acc, n < 10 ^ N.of_nat f ->
  exists pre, digits_fuel f n acc = pre ++ acc /\
              forall a, atoi_acc pre a = a * 10 ^ N.of_nat (length pre) + n.
Proof.
  induction f as [|f IH]; intros n acc Hn.
  - exists []. change (N.of_nat 0) with 0 in Hn. rewrite N.pow_0_r in Hn.
    split; [reflexivity|]. intros a. cbn [atoi_acc length]. change (N.of_nat 0) with 0. rewrite N.pow_0_r. lia.
  - cbn [digits_fuel]. cbv zeta. destruct (n <? 10) eqn:E.
    + exists [48 + n mod 10]. split; [reflexivity|]. intros a. cbn [atoi_acc length].
      change (N.of_nat 1) with 1. rewrite N.pow_1_r. rewrite N.mod_small by lia. lia.
    + rewrite Nat2N.inj_succ, N.pow_succ_r' in Hn.
      assert (Hd : n / 10 < 10 ^ N.of_nat f).
      { apply N.div_lt_upper_bound; lia. }
      destruct (IH (n / 10) ((48 + n mod 10) :: acc) Hd) as [pre [E1 E2]].
      exists (pre ++ [48 + n mod 10]). split.
      * rewrite E1, <- app_assoc. reflexivity.
      * intros a. rewrite atoi_acc_app, E2. cbn [atoi_acc]. rewrite app_length. cbn [length].
        rewrite Nat.add_1_r, Nat2N.inj_succ, N.pow_succ_r'.
        pose proof (N.div_mod n 10 ltac:(lia)) as Hdm.
        pose proof (N.mod_lt n 10 ltac:(lia)) as Hm.
        set (k := 10 ^ N.of_nat (length pre)) in *. set (q := n / 10) in *. set (r := n mod 10) in *.
        replace (48 + r - 48) with r by lia. lia.
Qed.

Lemma atoi_itoa n : n < 10 ^ 40 -> atoi (itoa n) = n.
Proof.
  intros Hn. unfold atoi, itoa.
  destruct (digits_fuel_spec 40 n [] Hn) as [pre [E1 E2]].
  rewrite E1, app_nil_r, E2. lia.
Qed.

(* ------------------------------------------------------------------------------------------ *)
(* 2. status and max-age                                                                       *)
(* ------------------------------------------------------------------------------------------ *)

Definition status_of (vs : Z) : Z :=
  if (((vs + 200) mod 256) =? cors_defaultPreflightStatus)%Z then 0%Z else (vs + 200)%Z.

Lemma status_rt s vs : validate_status s = inl vs -> validate_status (status_of vs) = inl vs.
Proof.
  intros H. destruct (validate_status_inl _ _ H) as [_ Hr].
  unfold status_of, validate_status.
  change st_lower with 200%Z. change st_upper with 299%Z. change cors_defaultPreflightStatus with 204%Z.
  destruct ((vs + 200) mod 256 =? 204)%Z eqn:E.
  - change (0 =? 0)%Z with true. cbv iota. f_equal.
    assert (Hc : (vs + 200 < 256 \/ 256 <= vs + 200)%Z) by lia. destruct Hc as [Hc|Hc].
    + rewrite Z.mod_small in E by lia. lia.
    + assert (Hm : ((vs + 200) mod 256 = vs + 200 - 256)%Z).
      { symmetry. apply (Z.mod_unique_pos _ _ 1); lia. }
      rewrite Hm in E. lia.
  - replace (vs + 200 =? 0)%Z with false by lia.
    replace (negb ((200 <=? vs + 200)%Z && (vs + 200 <=? 299)%Z)) with false by lia.
    f_equal. replace (vs + 200 - 200)%Z with vs by lia. apply Z.mod_small. lia.
Qed.

Definition max_age_of (v : option bytes) : Z :=
  match v with
  | Some v => let m := Z.of_N (atoi v) in if (m =? 0)%Z then (-1)%Z else m
  | None => 0%Z
  end.

Lemma max_age_rt d v : validate_max_age d = inl v -> validate_max_age (max_age_of v) = inl v.
Proof.
  unfold validate_max_age. rewrite ma_disable_eq, ma_upper_eq.
  destruct ((d <? -1)%Z || (86400 <? d)%Z) eqn:Er; [discriminate|].
  destruct (d =? -1)%Z eqn:E1.
  - intros H. injection H as <-. reflexivity.
  - destruct (d =? 0)%Z eqn:E0; intros H; injection H as <-; [reflexivity|].
    unfold max_age_of. cbv zeta.
    assert (Hn : Z.to_N d < 10 ^ 40).
    { apply N.lt_le_trans with (m := 100000); [lia|]. vm_compute. discriminate. }
    rewrite (atoi_itoa _ Hn). rewrite Z2N.id by lia. rewrite E0.
    replace ((d <? -1)%Z || (86400 <? d)%Z) with false by lia. rewrite E1, E0. reflexivity.
Qed.

(* ------------------------------------------------------------------------------------------ *)
(* 3. a sorted set is rebuilt by adding its own elements                                       *)
(* ------------------------------------------------------------------------------------------ *)

Lemma fold_add_elems s : sset_inv s -> fold_left sset_add (elems s) sset_empty = s.
Proof.
  intros [HS HM]. pose proof (sset_inv_fold (elems s)) as [HS' HM'].
  set (s' := fold_left sset_add (elems s) sset_empty) in *.
  assert (E : elems s' = elems s).
  { apply sorted_unique; [exact HS' | exact HS|]. intros x. unfold s'. rewrite mem_fold_add.
    cbn [elems sset_empty mem]. apply orb_false_r. }
  rewrite E in HM'. rewrite <- HM in HM'. destruct s as [e m], s' as [e' m']. cbn [elems maxlen] in *.
  congruence.
Qed.

Lemma fold_add_nil_empty l : elems (fold_left sset_add l sset_empty) = [] -> fold_left sset_add l sset_empty = sset_empty.
Proof. intros H. rewrite <- (fold_add_elems _ (sset_inv_fold l)), H. reflexivity. Qed.

(* items that all pass: no error, and the fold inserts exactly the listed names *)
Lemma items_all_pass {E} (f : bytes -> list E * option bytes) (l : list bytes) :
  (forall x, In x l -> f x = ([], Some x)) ->
  flat_map fst (map f l) = [] /\
  forall s0, fold_left (fun s it => match snd it with Some m => sset_add s m | None => s end) (map f l) s0
             = fold_left sset_add l s0.
Proof.
  induction l as [|x r IH]; intros H; [split; reflexivity|].
  destruct IH as [I1 I2]; [intros y Hy; apply H; right; exact Hy|].
  cbn [map flat_map fold_left]. rewrite (H x (or_introl eq_refl)). cbn [fst snd app].
  split; [exact I1 | intros s0; apply I2].
Qed.

Lemma no_star_existsb l : (forall x, In x l -> beqb x star = false) -> existsb (fun n => beqb n star) l = false.
Proof.
  induction l as [|x r IH]; intros H; [reflexivity|]. cbn [existsb].
  rewrite (H x (or_introl eq_refl)), IH; [reflexivity|]. intros y Hy. apply H. right. exact Hy.
Qed.

Lemma In_elems_fold l x : In x (elems (fold_left sset_add l sset_empty)) -> In x l.
Proof.
  intros H. apply mem_In in H. rewrite mem_fold_add in H. cbn [elems sset_empty mem] in H.
  rewrite orb_false_r in H. apply mem_In. exact H.
Qed.

(* ------------------------------------------------------------------------------------------ *)
(* 4. case mapping                                                                             *)
(* ------------------------------------------------------------------------------------------ *)

Lemma lower_byte_idem c : lower_byte (lower_byte c) = lower_byte c.
Proof.
  unfold lower_byte. destruct ((65 <=? c) && (c <=? 90)) eqn:E.
  - replace ((65 <=? c + 32) && (c + 32 <=? 90)) with false by lia. reflexivity.
  - rewrite E. reflexivity.
Qed.

Lemma lower_idem n : lower (lower n) = lower n.
Proof. unfold lower. rewrite map_map. apply map_ext. intros c. apply lower_byte_idem. Qed.

Lemma is_tchar_lower c : is_tchar c = true -> is_tchar (lower_byte c) = true.
Proof.
  unfold lower_byte. destruct ((65 <=? c) && (c <=? 90)) eqn:E; [|auto].
  intros _. unfold is_tchar.
  replace ((97 <=? c + 32) && (c + 32 <=? 122)) with true by lia. rewrite orb_true_r. reflexivity.
Qed.

Lemma all_tchar_lower l : all_bytes is_tchar l = true -> all_bytes is_tchar (lower l) = true.
Proof.
  induction l as [|x l IH]; [reflexivity|]. cbn [all_bytes lower map]. intros H.
  apply andb_true_iff in H. destruct H as [H1 H2]. rewrite (is_tchar_lower _ H1). exact (IH H2).
Qed.

Lemma valid_lower n : is_valid_name n = true -> is_valid_name (lower n) = true.
Proof.
  unfold is_valid_name. destruct n as [|c r]; [discriminate|]. intros H.
  apply all_tchar_lower in H. exact H.
Qed.

Lemma lower_not_star n : beqb n star = false -> beqb (lower n) star = false.
Proof.
  rewrite star_42. destruct n as [|c [|d r]]; [reflexivity | |].
  - cbn [lower map beqb]. rewrite !andb_true_r. unfold lower_byte.
    destruct ((65 <=? c) && (c <=? 90)) eqn:E; [|auto]. intros _. lia.
  - intros _. cbn [lower map beqb]. apply andb_false_r.
Qed.

(* ------------------------------------------------------------------------------------------ *)
(* 5. methods                                                                                  *)
(* ------------------------------------------------------------------------------------------ *)

Lemma norm_table_ok :
  forallb (fun t => negb (beqb t star) && method_is_valid t && beqb (method_normalize t) t)
          methods_browserNormalizedMethods = true.
Proof. vm_compute. reflexivity. Qed.

Lemma method_normalize_fix name : beqb name star = false -> method_is_valid name = true ->
  let nm := method_normalize name in
  beqb nm star = false /\ method_is_valid nm = true /\ method_normalize nm = nm.
Proof.
  intros Hs Hv. cbv zeta.
  assert (Hc : method_normalize name = name \/ In (method_normalize name) methods_browserNormalizedMethods).
  { unfold method_normalize. destruct (set_contains normalized_methods_set (upper name)) eqn:E; [|left; reflexivity].
    right. unfold normalized_methods_set in E. rewrite set_contains_new_set in E. apply mem_In in E. exact E. }
  destruct Hc as [Hc|Hc].
  - rewrite Hc. auto.
  - pose proof (proj1 (forallb_forall _ _) norm_table_ok _ Hc) as H.
    apply andb_true_iff in H. destruct H as [H H3]. apply andb_true_iff in H. destruct H as [H1 H2].
    apply negb_true_iff in H1. apply beqb_true_iff in H3. auto.
Qed.

Lemma method_item_pass name x : fst (method_item name) = [] -> beqb name star = false ->
  In x (sel method_item name) -> method_item x = ([], Some x).
Proof.
  unfold sel, method_item at 1 2. intros H Hs. rewrite Hs in *.
  destruct (method_is_valid name) eqn:Ev; [|discriminate]. cbn [negb] in *.
  destruct (method_normalize_fix name Hs Ev) as [N1 [N2 N3]].
  destruct (method_is_safelisted (method_normalize name)) eqn:Esafe; [intros []|].
  destruct (method_is_forbidden (method_normalize name)) eqn:Ef; [discriminate|].
  cbn [snd]. intros [<-|[]]. unfold method_item. rewrite N1, N2. cbn [negb]. rewrite N3, Esafe, Ef. reflexivity.
Qed.

Lemma validate_methods_ne names : names <> [] ->
  validate_methods names =
  match flat_map fst (map method_item names) with
  | [] => if existsb (fun n => beqb n star) names then inl (true, sset_empty)
          else inl (false, fold_left (fun s it => match snd it with Some m => sset_add s m | None => s end)
                                     (map method_item names) sset_empty)
  | errs => inr (Join (map Leaf errs))
  end.
Proof. destruct names; [congruence | reflexivity]. Qed.

Definition methods_of (any : bool) (set : sset) : list bytes := if any then [star] else elems set.

Lemma validate_methods_rt names any set :
  validate_methods names = inl (any, set) -> validate_methods (methods_of any set) = inl (any, set).
Proof.
  unfold validate_methods at 1. destruct names as [|n0 names'].
  { intros H. injection H as <- <-. reflexivity. }
  remember (n0 :: names') as names eqn:En. clear En n0 names'.
  destruct (flat_map fst (map method_item names)) eqn:E; [|discriminate].
  pose proof (flat_map_fst_map_nil method_item names E) as Hok.
  rewrite lists_star_existsb. destruct (lists_star names) eqn:Es; intros H; injection H as <- <-.
  { reflexivity. }
  rewrite fold_opt_map. unfold methods_of.
  set (src := flat_map (sel method_item) names).
  set (S := fold_left sset_add src sset_empty).
  assert (Hpass : forall x, In x (elems S) -> method_item x = ([], Some x)).
  { intros x Hx. apply In_elems_fold in Hx. unfold src in Hx. apply in_flat_map in Hx.
    destruct Hx as [name [Hn Hx]].
    exact (method_item_pass name x (Hok _ Hn) (lists_star_false_in _ Es _ Hn) Hx). }
  destruct (elems S) as [|x0 r0] eqn:EL.
  { unfold validate_methods. f_equal. f_equal. symmetry. apply fold_add_nil_empty. exact EL. }
  rewrite <- EL in *. rewrite validate_methods_ne by (rewrite EL; discriminate).
  destruct (items_all_pass method_item (elems S) Hpass) as [I1 I2].
  rewrite I1, I2.
  rewrite no_star_existsb.
  - f_equal. f_equal. apply fold_add_elems. apply sset_inv_fold.
  - intros x Hx. specialize (Hpass x Hx). unfold method_item in Hpass.
    destruct (beqb x star); [discriminate | reflexivity].
Qed.

(* ------------------------------------------------------------------------------------------ *)
(* 6. request headers                                                                          *)
(* ------------------------------------------------------------------------------------------ *)

Definition req_name_ok (n : bytes) : Prop :=
  beqb n star = true \/
  (is_valid_name n = true /\
   (beqb (lower n) headers_Authorization = true \/
    (is_forbidden_req (lower n) = false /\ is_prohibited_req (lower n) = false))).

Lemma rh_step_errs cred st n : rh_errs (rh_step cred st n) = [] -> rh_errs st = [] /\ req_name_ok n.
Proof.
  unfold rh_step, req_name_ok. destruct (beqb n star) eqn:Es.
  - cbn [rh_errs]. auto.
  - destruct (is_valid_name n).
    2:{ cbn [negb rh_errs]. intros H. exfalso. exact (app_single_ne _ _ H). }
    cbn [negb]. destruct (beqb (lower n) headers_Authorization) eqn:Ea.
    + destruct (rh_auth st); cbn [rh_errs]; intros H; (split; [exact H|]); right; auto.
    + destruct (is_forbidden_req (lower n)).
      { cbn [rh_errs]. intros H. exfalso. exact (app_single_ne _ _ H). }
      destruct (is_prohibited_req (lower n)).
      { cbn [rh_errs]. intros H. exfalso. exact (app_single_ne _ _ H). }
      cbn [rh_errs]. intros H. split; [exact H|]. right. auto.
Qed.

Lemma rh_fold_errs cred names : forall st,
  rh_errs (fold_left (rh_step cred) names st) = [] -> Forall req_name_ok names.
Proof.
  induction names as [|n r IH]; intros st H; [constructor|]. cbn [fold_left] in H.
  constructor; [|exact (IH _ H)].
  destruct (rh_fold_ok cred r _ H) as [H1 _]. exact (proj2 (rh_step_errs cred st n H1)).
Qed.

(* a name as Config() prints it *)
Definition good_req (x : bytes) : Prop :=
  beqb x star = false /\ is_valid_name x = true /\ lower x = x /\
  (beqb x headers_Authorization = true \/ (is_forbidden_req x = false /\ is_prohibited_req x = false)).

Lemma rh_step_good cred st x : good_req x ->
  rh_asterisk st = false -> rh_errs st = [] -> auth_in st ->
  rh_asterisk (rh_step cred st x) = false /\ rh_errs (rh_step cred st x) = [] /\
  auth_in (rh_step cred st x) /\ rh_set (rh_step cred st x) = sset_add (rh_set st) x.
Proof.
  intros [G1 [G2 [G3 G4]]] Ha He Hau. unfold rh_step. rewrite G1, G2, G3. cbn [negb].
  destruct (beqb x headers_Authorization) eqn:Ex.
  - apply beqb_true_iff in Ex. subst x.
    destruct (rh_auth st) eqn:Eau.
    + split; [exact Ha|]. split; [exact He|]. split; [exact Hau|].
      unfold sset_add. rewrite (Hau Eau). reflexivity.
    + cbn [rh_asterisk rh_errs rh_set]. rewrite Ha. cbn [negb orb].
      split; [reflexivity|]. split; [exact He|]. split; [|reflexivity].
      intros _. cbn [rh_set]. rewrite mem_sset_add, HeadersP.beqb_refl. reflexivity.
  - destruct G4 as [G4|[G4 G5]]; [discriminate|]. rewrite G4, G5.
    cbn [rh_asterisk rh_errs rh_set]. split; [exact Ha|]. split; [exact He|]. split; [|reflexivity].
    intros Hx. cbn [rh_auth rh_set] in *. rewrite mem_sset_add, (Hau Hx). apply orb_true_r.
Qed.

Lemma rh_fold_good cred l : Forall good_req l -> forall st,
  rh_asterisk st = false -> rh_errs st = [] -> auth_in st ->
  rh_asterisk (fold_left (rh_step cred) l st) = false /\ rh_errs (fold_left (rh_step cred) l st) = [] /\
  rh_set (fold_left (rh_step cred) l st) = fold_left sset_add l (rh_set st).
Proof.
  intros HF. induction HF as [|x r Hx _ IH]; intros st Ha He Hau; [auto|].
  cbn [fold_left]. destruct (rh_step_good cred st x Hx Ha He Hau) as [S1 [S2 [S3 S4]]].
  destruct (IH _ S1 S2 S3) as [I1 [I2 I3]]. rewrite S4 in I3. auto.
Qed.

Lemma validate_req_headers_ne cred names : names <> [] ->
  validate_req_headers cred names =
  let st := fold_left (rh_step cred) names rh_init in
  match rh_errs st with
  | [] => if negb (rh_asterisk st) && negb (sset_size (rh_set st) =? 0) then
            inl (rh_asterisk st, rh_auth st, rh_set st, Some (join headers_ValueSep (elems (rh_set st))))
          else inl (rh_asterisk st, rh_auth st, sset_empty, None)
  | errs => inr (Join (map Leaf errs))
  end.
Proof. destruct names; [congruence | reflexivity]. Qed.

Definition req_headers_of (cred ast auth : bool) (hset : sset) : list bytes :=
  if negb cred && ast && auth then [star; headers_Authorization]
  else if ast then [star] else elems hset.

Lemma validate_req_headers_rt cred names ast auth hset acah :
  validate_req_headers cred names = inl (ast, auth, hset, acah) ->
  exists auth', validate_req_headers cred (req_headers_of cred ast auth hset) = inl (ast, auth', hset, acah) /\
                (ast = true -> cred = false -> auth' = auth).
Proof.
  intros H. pose proof (validate_req_headers_inl _ _ _ _ _ _ H) as [Hast [Hauth [Hinv [Hmem Hacah]]]].
  unfold validate_req_headers in H. destruct names as [|n0 names'].
  { injection H as <- <- <- <-. exists false. split; [destruct cred; reflexivity | auto]. }
  remember (n0 :: names') as names eqn:En. clear En n0 names'.
  set (st := fold_left (rh_step cred) names rh_init) in *.
  destruct (rh_errs st) eqn:E; [|discriminate].
  pose proof (rh_fold_errs cred names rh_init E) as Hnames.
  destruct (negb (rh_asterisk st) && negb (sset_size (rh_set st) =? 0)) eqn:Ec.
  - (* discrete names, at least one stored *)
    apply andb_true_iff in Ec. destruct Ec as [Ec1 Ec2]. apply negb_true_iff in Ec1, Ec2.
    injection H as Ea Eau Eh Eac. rewrite Ec1 in Ea. subst ast.
    unfold req_headers_of. rewrite andb_false_r. cbn [andb].
    assert (Hgood : Forall good_req (elems hset)).
    { apply Forall_forall. intros x Hx. apply mem_In in Hx. rewrite Hmem in Hx.
      apply andb_true_iff in Hx. destruct Hx as [Hs Hx]. apply negb_true_iff in Hs.
      rewrite (filter_not_star _ Hs) in Hx. apply mem_In, in_map_iff in Hx. destruct Hx as [n [<- Hn]].
      pose proof (lists_star_false_in _ Hs _ Hn) as Hns.
      rewrite Forall_forall in Hnames. destruct (Hnames _ Hn) as [Hc|[Hv Hc]]; [congruence|].
      split; [apply lower_not_star; exact Hns|]. split; [apply valid_lower; exact Hv|].
      split; [apply lower_idem|]. exact Hc. }
    assert (Hsz : (sset_size hset =? 0) = false) by (rewrite <- Eh; exact Ec2).
    destruct (elems hset) as [|x0 r0] eqn:EL.
    { unfold sset_size in Hsz. rewrite EL in Hsz. discriminate. }
    rewrite <- EL in *.
    destruct (rh_fold_good cred (elems hset) Hgood rh_init eq_refl eq_refl auth_in_init) as [F1 [F2 F3]].
    cbn [rh_init rh_set] in F3. rewrite (fold_add_elems _ Hinv) in F3.
    exists (rh_auth (fold_left (rh_step cred) (elems hset) rh_init)).
    split; [|discriminate]. rewrite validate_req_headers_ne by (rewrite EL; discriminate). cbv zeta.
    rewrite F2, F1, F3, Hsz. cbn [negb andb]. rewrite Hacah, Hsz. reflexivity.
  - injection H as Ea Eau Eh Eac. subst hset acah. unfold req_headers_of.
    destruct ast eqn:East.
    + (* asterisk *)
      destruct (negb cred && true && auth) eqn:Ecase.
      * apply andb_true_iff in Ecase. destruct Ecase as [Ecase ->]. rewrite andb_true_r in Ecase.
        apply negb_true_iff in Ecase. subst cred. exists true. split; [reflexivity | auto].
      * exists false. split; [destruct cred; reflexivity|].
        intros _ ->. cbn [negb andb] in Ecase. symmetry. exact Ecase.
    + (* no asterisk, nothing stored *)
      destruct (negb cred && false && auth) eqn:Ecase; [rewrite andb_false_r in Ecase; discriminate|].
      exists false. split; [reflexivity | discriminate].
Qed.

(* ------------------------------------------------------------------------------------------ *)
(* 7. response headers                                                                         *)
(* ------------------------------------------------------------------------------------------ *)

Lemma res_item_pass cred n x : fst (res_item cred n) = [] -> beqb n star = false ->
  In x (sel (res_item cred) n) -> res_item cred x = ([], Some x) /\ is_valid_name x = true.
Proof.
  unfold sel, res_item at 1 2. intros H Hs. rewrite Hs in *.
  destruct (is_valid_name n) eqn:Ev; [|discriminate]. cbn [negb] in *.
  destruct (is_forbidden_res (lower n)) eqn:Ef; [discriminate|].
  destruct (is_prohibited_res (lower n)) eqn:Ep; [discriminate|].
  destruct (is_safelisted_res (lower n)) eqn:Esafe; [intros []|].
  cbn [snd]. intros [<-|[]]. split; [|apply valid_lower; exact Ev].
  unfold res_item. rewrite (lower_not_star _ Hs), (valid_lower _ Ev). cbn [negb].
  rewrite lower_idem, Ef, Ep, Esafe. reflexivity.
Qed.

Lemma is_tchar_44 : is_tchar 44 = false. Proof. reflexivity. Qed.

Lemma valid_no_comma x : is_valid_name x = true -> ~ In 44 x.
Proof.
  unfold is_valid_name. destruct x as [|c r]; [intros _ []|]. generalize (c :: r). clear c r.
  intros l H Hin. induction l as [|y l IH]; [destruct Hin|]. cbn [all_bytes] in H.
  apply andb_true_iff in H. destruct H as [H1 H2]. destruct Hin as [->|Hin]; [|exact (IH H2 Hin)].
  rewrite is_tchar_44 in H1. discriminate.
Qed.

Lemma split_join_nocomma l : l <> [] -> Forall (fun n => ~ In 44 n) l -> split_byte 44 (join [44] l) = l.
Proof.
  intros Hne H. induction H as [|n l Hc Hl IH]; [congruence|].
  destruct l as [|m l].
  - simpl. apply split_nocomma. exact Hc.
  - change (join [44] (n :: m :: l)) with (n ++ 44 :: join [44] (m :: l)).
    rewrite split_app_comma by exact Hc. rewrite IH by discriminate. reflexivity.
Qed.

Lemma validate_res_headers_ne cred names : names <> [] ->
  validate_res_headers cred names =
  match flat_map fst (map (res_item cred) names) with
  | [] => if existsb (fun n => beqb n star) names then inl star
          else inl (join headers_ValueSep (elems (fold_left
                 (fun s it => match snd it with Some m => sset_add s m | None => s end)
                 (map (res_item cred) names) sset_empty)))
  | errs => inr (Join (map Leaf errs))
  end.
Proof. destruct names; [congruence | reflexivity]. Qed.

Definition res_headers_of (aceh : bytes) : list bytes :=
  match aceh with [] => [] | n :: l => split_byte 44 (n :: l) end.

Lemma validate_res_headers_rt cred names aceh :
  validate_res_headers cred names = inl aceh -> validate_res_headers cred (res_headers_of aceh) = inl aceh.
Proof.
  unfold validate_res_headers at 1. destruct names as [|n0 names'].
  { intros H. injection H as <-. reflexivity. }
  remember (n0 :: names') as names eqn:En. clear En n0 names'.
  destruct (flat_map fst (map (res_item cred) names)) eqn:E; [|discriminate].
  pose proof (flat_map_fst_map_nil (res_item cred) names E) as Hok.
  rewrite lists_star_existsb. destruct (lists_star names) eqn:Es; intros H; injection H as <-.
  { assert (Hc : cred = false).
    { apply res_item_star. apply Hok. apply lists_star_in. exact Es. }
    subst cred. reflexivity. }
  rewrite fold_opt_map.
  set (src := flat_map (sel (res_item cred)) names).
  set (S := fold_left sset_add src sset_empty).
  assert (Hpass : forall x, In x (elems S) -> res_item cred x = ([], Some x) /\ is_valid_name x = true).
  { intros x Hx. apply In_elems_fold in Hx. unfold src in Hx. apply in_flat_map in Hx.
    destruct Hx as [name [Hn Hx]].
    exact (res_item_pass cred name x (Hok _ Hn) (lists_star_false_in _ Es _ Hn) Hx). }
  destruct (elems S) as [|x0 r0] eqn:EL; [reflexivity|]. rewrite <- EL in *.
  assert (Hsplit : res_headers_of (join headers_ValueSep (elems S)) = elems S).
  { change headers_ValueSep with [44].
    assert (Hne : join [44] (elems S) <> []).
    { rewrite EL. apply join_nonempty.
      assert (Hv : is_valid_name x0 = true) by (apply Hpass; rewrite EL; left; reflexivity).
      destruct x0; [discriminate | discriminate]. }
    unfold res_headers_of. destruct (join [44] (elems S)) eqn:EJ; [congruence|]. rewrite <- EJ.
    apply split_join_nocomma; [rewrite EL; discriminate|].
    apply Forall_forall. intros x Hx. apply valid_no_comma. apply Hpass. exact Hx. }
  rewrite Hsplit. rewrite validate_res_headers_ne by (rewrite EL; discriminate).
  destruct (items_all_pass (res_item cred) (elems S) (fun x Hx => proj1 (Hpass x Hx))) as [I1 I2].
  rewrite I1, I2. rewrite no_star_existsb.
  - rewrite (fold_add_elems S (sset_inv_fold src)). reflexivity.
  - intros x Hx. destruct (Hpass x Hx) as [Hp _]. unfold res_item in Hp.
    destruct (beqb x star); [destruct cred; discriminate | reflexivity].
Qed.

(* ------------------------------------------------------------------------------------------ *)
(* 8. what the request handler observes of an internal configuration                            *)
(* ------------------------------------------------------------------------------------------ *)

(* Two internal configurations with the same observations serve every request identically. The
   tree is observed through [tree_is_empty] and [tree_contains] on parsed origins only, and
   allowAuthorization only when request headers are wildcarded without credentials. *)
Record same_obs (ic ic1 : icfg) : Prop := {
  so_empty : tree_is_empty (i_tree ic1) = tree_is_empty (i_tree ic);
  so_tree : forall o, valid_origin o -> tree_contains (i_tree ic1) o = tree_contains (i_tree ic) o;
  so_methods : i_methods ic1 = i_methods ic;
  so_req : i_req_hdrs ic1 = i_req_hdrs ic;
  so_acah : i_acah ic1 = i_acah ic;
  so_status : i_status_m200 ic1 = i_status_m200 ic;
  so_cred : i_cred ic1 = i_cred ic;
  so_any : i_any_method ic1 = i_any_method ic;
  so_ast : i_asterisk_req ic1 = i_asterisk_req ic;
  so_auth : i_asterisk_req ic = true -> i_cred ic = false -> i_allow_auth ic1 = i_allow_auth ic;
  so_pna : i_pna ic1 = i_pna ic;
  so_pna_nocors : i_pna_nocors ic1 = i_pna_nocors ic;
  so_acma : i_acma ic1 = i_acma ic;
  so_aceh : i_aceh ic1 = i_aceh ic
}.

Section ServeExt.
Variables ic ic1 : icfg.
Hypothesis SO : same_obs ic ic1.

Lemma ext_non_cors res opt : handle_non_cors ic1 res opt = handle_non_cors ic res opt.
Proof.
  unfold handle_non_cors. rewrite (so_pna_nocors _ _ SO), (so_empty _ _ SO), (so_aceh _ _ SO). reflexivity.
Qed.

Lemma ext_origin_preflight buf org : process_origin_preflight ic1 buf org = process_origin_preflight ic buf org.
Proof.
  unfold process_origin_preflight. destruct (parse org) as [o|] eqn:E; [|reflexivity].
  rewrite (so_cred _ _ SO), (so_empty _ _ SO), (so_tree _ _ SO o (parse_valid_origin _ _ E)). reflexivity.
Qed.

Lemma ext_acrpn buf req : process_acrpn ic1 buf req = process_acrpn ic buf req.
Proof. unfold process_acrpn. rewrite (so_pna _ _ SO), (so_pna_nocors _ _ SO). reflexivity. Qed.

Lemma ext_acrm buf acrm : process_acrm ic1 buf acrm = process_acrm ic buf acrm.
Proof. unfold process_acrm. rewrite (so_any _ _ SO), (so_cred _ _ SO), (so_methods _ _ SO). reflexivity. Qed.

Lemma ext_acrh buf req dbg : process_acrh ic1 buf req dbg = process_acrh ic buf req dbg.
Proof.
  unfold process_acrh. rewrite (so_ast _ _ SO), (so_cred _ _ SO), (so_req _ _ SO), (so_acah _ _ SO).
  destruct (hget req headers_ACRH) as [acrh|]; [|reflexivity].
  destruct (i_asterisk_req ic) eqn:Ea; [|reflexivity].
  destruct (i_cred ic) eqn:Ec; [reflexivity|].
  cbn [negb andb]. rewrite (so_auth _ _ SO Ea Ec). reflexivity.
Qed.

Lemma ext_preflight res req org acrm dbg :
  handle_preflight ic1 res req org acrm dbg = handle_preflight ic res req org acrm dbg.
Proof.
  unfold handle_preflight, success_status. rewrite ext_origin_preflight.
  destruct (process_origin_preflight ic [] org) as [buf1 [|]]; [|reflexivity].
  rewrite ext_acrpn. destruct (process_acrpn ic buf1 req) as [buf2 [|]];
    [|rewrite (so_status _ _ SO); reflexivity].
  rewrite ext_acrm. destruct (process_acrm ic buf2 acrm) as [buf3 [|]];
    [|rewrite (so_status _ _ SO); reflexivity].
  rewrite ext_acrh. destruct (process_acrh ic buf3 req dbg) as [buf4 [|]];
    rewrite (so_status _ _ SO); [|reflexivity].
  rewrite (so_acma _ _ SO). reflexivity.
Qed.

Lemma ext_actual res org opt : handle_actual ic1 res org opt = handle_actual ic res org opt.
Proof.
  unfold handle_actual. rewrite (so_pna_nocors _ _ SO), (so_empty _ _ SO), (so_cred _ _ SO), (so_aceh _ _ SO).
  destruct (i_pna_nocors ic); [reflexivity|].
  destruct (negb (i_cred ic) && tree_is_empty (i_tree ic)); [reflexivity|].
  destruct (parse org) as [o|] eqn:E; [|reflexivity].
  rewrite (so_tree _ _ SO o (parse_valid_origin _ _ E)). reflexivity.
Qed.

Lemma serve_ext dbg r pre : serve (Some ic1) dbg r pre = serve (Some ic) dbg r pre.
Proof.
  unfold serve. destruct (first (r_hdrs r) headers_Origin) as [org|]; [|rewrite ext_non_cors; reflexivity].
  destruct (first (r_hdrs r) headers_ACRM) as [acrm|]; [|rewrite ext_actual; reflexivity].
  destruct (beqb (r_method r) method_options); [|rewrite ext_actual; reflexivity].
  rewrite ext_preflight. reflexivity.
Qed.

End ServeExt.

Print Assumptions serve_ext.
Print Assumptions validate_req_headers_rt.
