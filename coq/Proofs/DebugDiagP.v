(* Proofs/DebugDiagP.v -- C09, the "and nothing else" clause of debug mode, for ALL preflights:
   switching debug on keeps the wrapped handler bypassed, keeps the status or turns a 403 into the
   configured ok status, and changes no header outside the six preflight grant names; the grant
   headers attached to a preflight that fails with debug off are values a succeeding step produced.

   Finding recorded here (see [pacrh_off_fail_on_ok] and Properties/C09b.v): a preflight that fails
   with debug off AT THE HEADER-NAMES STEP does not "fail" at all with debug on when the
   configuration lists discrete request-header names: process_acrh answers the configured list and
   reports success, so the response is the complete successful one, Access-Control-Max-Age included. *)
Require Import Base.Bytes Gen.Tables Model.Util Model.Headers Model.Methods Model.Origins
  Model.Pattern Model.Radix Model.Netip Model.CfgErrors Model.Config Model.Serve.
Require Import Spec.Wire.
Require Import Proofs.HeadersP Proofs.DispatchP.
Open Scope N_scope.

Definition diag_names : list bytes :=
  [headers_ACAO; headers_ACAC; headers_ACAPN; headers_ACAM; headers_ACAH; headers_ACMA].

(* ------------------------------------------------------------------------------------------ *)
(* 1. names                                                                                    *)
(* ------------------------------------------------------------------------------------------ *)

Lemma diag_cases : forall k, mem k diag_names = true ->
  k = headers_ACAO \/ k = headers_ACAC \/ k = headers_ACAPN \/ k = headers_ACAM \/ k = headers_ACAH \/
  k = headers_ACMA.
Proof.
  intros k H. apply mem_In in H. unfold diag_names in H. cbn [In] in H.
  destruct H as [<-|[<-|[<-|[<-|[<-|[<-|[]]]]]]]; auto 10.
Qed.

Lemma diag_not_vary : forall k, mem k diag_names = true -> beqb k headers_Vary = false.
Proof.
  intros k H. destruct (diag_cases k H) as [->|[->|[->|[->|[->| ->]]]]]; reflexivity.
Qed.

Lemma nondiag_nonbuf : forall k, mem k diag_names = false -> mem k buf_names = false.
Proof.
  intros k. unfold diag_names, buf_names. cbn [mem].
  change h_acao with headers_ACAO. change h_acac with headers_ACAC. change h_acapn with headers_ACAPN.
  change h_acam with headers_ACAM. change h_acah with headers_ACAH.
  rewrite !orb_false_iff. tauto.
Qed.

Lemma nondiag_not_acma : forall k, mem k diag_names = false -> beqb k headers_ACMA = false.
Proof. intros k. unfold diag_names. cbn [mem]. rewrite !orb_false_iff. tauto. Qed.

Lemma buf_distinct : forall buf, hsets buf_names [] buf -> keys_distinct buf.
Proof. intros buf H. eapply hsets_distinct; [exact H | constructor]. Qed.

Lemma pf_res1_get : forall res k, beqb k headers_Vary = false -> hget (pf_res1 res) k = hget res k.
Proof. intros res k H. unfold pf_res1. destruct (hget res headers_Vary); apply d_hget_hset_ne, H. Qed.

(* ------------------------------------------------------------------------------------------ *)
(* 2. frame: outside diag_names every preflight response shows the map after the Vary step     *)
(* ------------------------------------------------------------------------------------------ *)

Lemma hcopy_buf_frame : forall res buf k, hsets buf_names [] buf -> mem k diag_names = false ->
  hget (hcopy res buf) k = hget res k.
Proof.
  intros res buf k Hb Hk. rewrite d_hget_hcopy by (apply buf_distinct, Hb).
  rewrite (hsets_frame _ _ _ _ Hb (nondiag_nonbuf k Hk)). reflexivity.
Qed.

Lemma pf_frame : forall ic res req org acrm dbg k, mem k diag_names = false ->
  hget (fst (handle_preflight ic res req org acrm dbg)) k = hget (pf_res1 res) k.
Proof.
  intros ic res req org acrm dbg k Hk. rewrite handle_preflight_eq.
  pose proof (pf_buf1_hsets ic org) as B1. pose proof (pf_buf2_hsets ic org req) as B2.
  pose proof (pf_buf3_hsets ic org req acrm) as B3. pose proof (pf_buf4_hsets ic org req acrm dbg) as B4.
  pose proof (nondiag_not_acma k Hk) as Hm.
  repeat match goal with |- context [if negb ?c then _ else _] => destruct (negb c) end;
    destruct dbg; cbn [fst]; try reflexivity;
    try (destruct (i_acma ic); [rewrite d_hget_hset_ne by exact Hm|]);
    apply hcopy_buf_frame; assumption.
Qed.

(* ------------------------------------------------------------------------------------------ *)
(* 3. status: the same, or 403 becomes the ok status                                           *)
(* ------------------------------------------------------------------------------------------ *)

Lemma pf_status : forall ic res req org acrm,
  snd (handle_preflight ic res req org acrm true) = snd (handle_preflight ic res req org acrm false) \/
  (snd (handle_preflight ic res req org acrm false) = 403%Z /\
   snd (handle_preflight ic res req org acrm true) = success_status ic).
Proof.
  intros. rewrite !handle_preflight_eq.
  destruct (negb (snd (process_origin_preflight ic [] org))); [left; reflexivity|].
  destruct (negb (snd (process_acrpn ic (pf_buf1 ic org) req))); [right; split; reflexivity|].
  destruct (negb (snd (process_acrm ic (pf_buf2 ic org req) acrm))); [right; split; reflexivity|].
  destruct (negb (snd (process_acrh ic (pf_buf3 ic org req acrm) req true)));
    destruct (negb (snd (process_acrh ic (pf_buf3 ic org req acrm) req false)));
    cbn [snd]; auto.
Qed.

Lemma debug_changes_only_diagnostics : forall ic r pre, is_preflight r = true ->
  let on := serve (Some ic) true r pre in
  let off := serve (Some ic) false r pre in
  o_delegated on = false /\ o_delegated off = false /\
  (o_status on = o_status off \/ (o_status off = Some 403%Z /\ o_status on = Some (success_status ic))) /\
  (forall k, mem k diag_names = false -> hget (o_hdrs on) k = hget (o_hdrs off) k).
Proof.
  intros ic r pre Hpf. cbv zeta.
  destruct (serve_preflight ic false r pre Hpf) as (org & acrm & Ho & Ha & _ & ->).
  destruct (serve_preflight ic true r pre Hpf) as (org' & acrm' & Ho' & Ha' & _ & ->).
  rewrite Ho in Ho'. injection Ho' as <-. rewrite Ha in Ha'. injection Ha' as <-.
  cbn [o_status o_hdrs o_delegated]. split; [reflexivity|]. split; [reflexivity|]. split.
  - destruct (pf_status ic pre (r_hdrs r) org acrm) as [E|[E1 E2]].
    + left. rewrite E. reflexivity.
    + right. rewrite E1, E2. split; reflexivity.
  - intros k Hk. rewrite !pf_frame by exact Hk. reflexivity.
Qed.

(* ------------------------------------------------------------------------------------------ *)
(* 4. the values the four steps can put in the buffer, in either mode                          *)
(* ------------------------------------------------------------------------------------------ *)

Definition buf_val (ic : icfg) (req : hmap) (org acrm : bytes) (k : bytes) (vs : list bytes) : Prop :=
  (beqb k headers_ACAO = true -> vs = headers_WildcardSgl \/ vs = [org]) /\
  (beqb k headers_ACAC = true -> vs = headers_TrueSgl) /\
  (beqb k headers_ACAPN = true -> vs = headers_TrueSgl) /\
  (beqb k headers_ACAM = true -> vs = headers_WildcardSgl \/ vs = [acrm]) /\
  (beqb k headers_ACAH = true ->
     vs = headers_WildcardSgl \/ vs = headers_WildcardAuthSgl \/ hget req headers_ACRH = Some vs \/
     exists v, i_acah ic = Some v /\ vs = [v]) /\
  (beqb k headers_ACMA = true -> False).

Definition good (ic : icfg) (req : hmap) (org acrm : bytes) (buf : hmap) : Prop :=
  forall k vs, hget buf k = Some vs -> buf_val ic req org acrm k vs.

Lemma good_nil : forall ic req org acrm, good ic req org acrm [].
Proof. intros ic req org acrm k vs H. discriminate H. Qed.

Lemma good_hset : forall ic req org acrm buf k v,
  good ic req org acrm buf -> buf_val ic req org acrm k v -> good ic req org acrm (hset buf k v).
Proof.
  intros ic req org acrm buf k v Hg Hv k' vs H. rewrite d_hget_hset in H.
  destruct (beqb k' k) eqn:E; [|apply Hg, H].
  apply beqb_eq in E. subst k'. injection H as <-. exact Hv.
Qed.

(* [buf_val] at a concrete name: all clauses but one are vacuous *)
Ltac bv_key :=
  unfold buf_val; split; [|split; [|split; [|split; [|split]]]];
  let E := fresh "E" in intros E; try (exfalso; vm_compute in E; discriminate E).

Lemma pop_good : forall ic req org acrm buf, good ic req org acrm buf ->
  good ic req org acrm (fst (process_origin_preflight ic buf org)).
Proof.
  intros ic req org acrm buf Hg. unfold process_origin_preflight.
  destruct (parse org); [|exact Hg].
  destruct (negb (i_cred ic) && tree_is_empty (i_tree ic)); cbn [fst].
  { apply good_hset; [exact Hg|]. bv_key. left. reflexivity. }
  destruct (negb (tree_contains (i_tree ic) o)); cbn [fst]; [exact Hg|].
  assert (H1 : good ic req org acrm (hset buf headers_ACAO [org])).
  { apply good_hset; [exact Hg|]. bv_key. right. reflexivity. }
  destruct (i_cred ic); [|exact H1].
  apply good_hset; [exact H1|]. bv_key. reflexivity.
Qed.

Lemma pacrpn_good : forall ic req org acrm buf, good ic req org acrm buf ->
  good ic req org acrm (fst (process_acrpn ic buf req)).
Proof.
  intros ic req org acrm buf Hg. unfold process_acrpn.
  destruct (first req headers_ACRPN) as [v|]; [|exact Hg].
  destruct (negb (beqb v headers_ValueTrue)); [exact Hg|].
  destruct (i_pna ic || i_pna_nocors ic); cbn [fst]; [|exact Hg].
  apply good_hset; [exact Hg|]. bv_key. reflexivity.
Qed.

Lemma pacrm_good : forall ic req org acrm buf, good ic req org acrm buf ->
  good ic req org acrm (fst (process_acrm ic buf acrm)).
Proof.
  intros ic req org acrm buf Hg. unfold process_acrm.
  destruct (method_is_safelisted acrm); [exact Hg|].
  destruct (i_any_method ic && negb (i_cred ic)); cbn [fst].
  { apply good_hset; [exact Hg|]. bv_key. left. reflexivity. }
  destruct (i_any_method ic || set_contains (i_methods ic) acrm); cbn [fst]; [|exact Hg].
  apply good_hset; [exact Hg|]. bv_key. right. reflexivity.
Qed.

Lemma pacrh_good : forall ic req org acrm buf dbg, good ic req org acrm buf ->
  good ic req org acrm (fst (process_acrh ic buf req dbg)).
Proof.
  intros ic req org acrm buf dbg Hg. unfold process_acrh.
  destruct (hget req headers_ACRH) as [acrh|] eqn:Eh; [|exact Hg].
  destruct (i_asterisk_req ic && negb (i_cred ic)); cbn [fst].
  { apply good_hset; [exact Hg|]. bv_key. destruct (i_allow_auth ic); auto. }
  destruct (i_asterisk_req ic && i_cred ic); cbn [fst].
  { apply good_hset; [exact Hg|]. bv_key. auto. }
  destruct (negb dbg).
  - destruct (sset_size (i_req_hdrs ic) =? 0); [exact Hg|].
    destruct (negb (check (i_req_hdrs ic) acrh)); cbn [fst]; [exact Hg|].
    apply good_hset; [exact Hg|]. bv_key. auto.
  - destruct (i_acah ic) as [v|] eqn:Ea; cbn [fst]; [|exact Hg].
    apply good_hset; [exact Hg|]. bv_key. right. right. right. exists v. auto.
Qed.

Lemma pf_buf1_good : forall ic req org acrm, good ic req org acrm (pf_buf1 ic org).
Proof. intros. apply pop_good, good_nil. Qed.
Lemma pf_buf2_good : forall ic req org acrm, good ic req org acrm (pf_buf2 ic org req).
Proof. intros. apply pacrpn_good, pf_buf1_good. Qed.
Lemma pf_buf3_good : forall ic req org acrm, good ic req org acrm (pf_buf3 ic org req acrm).
Proof. intros. apply pacrm_good, pf_buf2_good. Qed.
Lemma pf_buf4_good : forall ic req org acrm dbg, good ic req org acrm (pf_buf4 ic org req acrm dbg).
Proof. intros. apply pacrh_good, pf_buf3_good. Qed.

(* the response after maps.Copy shows the buffer on every diagnostic name the handler's map lacked *)
Lemma hcopy_buf_view : forall ic req org acrm res buf k vs,
  hsets buf_names [] buf -> good ic req org acrm buf ->
  mem k diag_names = true -> hget res k = None ->
  hget (hcopy (pf_res1 res) buf) k = Some vs -> buf_val ic req org acrm k vs.
Proof.
  intros ic req org acrm res buf k vs Hb Hg Hk Hn H.
  rewrite d_hget_hcopy in H by (apply buf_distinct, Hb).
  destruct (hget buf k) as [w|] eqn:E.
  - injection H as <-. apply Hg, E.
  - rewrite pf_res1_get in H by (apply diag_not_vary, Hk). congruence.
Qed.

(* ------------------------------------------------------------------------------------------ *)
(* 5. the header-names step: the only place where debug mode turns a failure into a success    *)
(* ------------------------------------------------------------------------------------------ *)

Lemma pacrh_off_fail_on_ok : forall ic buf req,
  snd (process_acrh ic buf req false) = false -> snd (process_acrh ic buf req true) = true ->
  hget req headers_ACRH <> None /\
  exists a, i_acah ic = Some a /\ fst (process_acrh ic buf req true) = hset buf headers_ACAH [a].
Proof.
  intros ic buf req. unfold process_acrh.
  destruct (hget req headers_ACRH) as [acrh|]; [|discriminate].
  destruct (i_asterisk_req ic && negb (i_cred ic)); [discriminate|].
  destruct (i_asterisk_req ic && i_cred ic); [discriminate|].
  change (negb false) with true. change (negb true) with false. cbv iota.
  intros _. destruct (i_acah ic) as [a|]; [|discriminate]. intros _.
  split; [discriminate|]. exists a. split; reflexivity.
Qed.

(* ------------------------------------------------------------------------------------------ *)
(* 6. the diagnostic headers of a preflight that fails with debug off                          *)
(* ------------------------------------------------------------------------------------------ *)

(* at the level of handle_preflight; [Max-Age] is the only name the buffer never holds *)
Lemma pf_on_values : forall ic res req org acrm k vs,
  mem k diag_names = true -> hget res k = None ->
  hget (fst (handle_preflight ic res req org acrm true)) k = Some vs ->
  (beqb k headers_ACMA = false /\ buf_val ic req org acrm k vs) \/
  (beqb k headers_ACMA = true /\ (exists v, i_acma ic = Some v /\ vs = [v]) /\
   snd (process_origin_preflight ic [] org) = true /\
   snd (process_acrpn ic (pf_buf1 ic org) req) = true /\
   snd (process_acrm ic (pf_buf2 ic org req) acrm) = true /\
   snd (process_acrh ic (pf_buf3 ic org req acrm) req true) = true).
Proof.
  intros ic res req org acrm k vs Hk Hn. rewrite handle_preflight_eq.
  assert (Hbuf : forall buf, hsets buf_names [] buf -> good ic req org acrm buf ->
            hget (hcopy (pf_res1 res) buf) k = Some vs ->
            (beqb k headers_ACMA = false /\ buf_val ic req org acrm k vs) \/
            (beqb k headers_ACMA = true /\ (exists v, i_acma ic = Some v /\ vs = [v]) /\
             snd (process_origin_preflight ic [] org) = true /\
             snd (process_acrpn ic (pf_buf1 ic org) req) = true /\
             snd (process_acrm ic (pf_buf2 ic org req) acrm) = true /\
             snd (process_acrh ic (pf_buf3 ic org req acrm) req true) = true)).
  { intros buf Hb Hg H. left. pose proof (hcopy_buf_view _ _ _ _ _ _ _ _ Hb Hg Hk Hn H) as Hv.
    split; [|exact Hv]. destruct (beqb k headers_ACMA) eqn:E; [|reflexivity].
    exfalso. apply Hv. exact E. }
  destruct (snd (process_origin_preflight ic [] org)) eqn:E1; cbn [negb fst]; cbv iota.
  2:{ apply Hbuf; [apply pf_buf1_hsets | apply pf_buf1_good]. }
  destruct (snd (process_acrpn ic (pf_buf1 ic org) req)) eqn:E2; cbn [negb fst]; cbv iota.
  2:{ apply Hbuf; [apply pf_buf2_hsets | apply pf_buf2_good]. }
  destruct (snd (process_acrm ic (pf_buf2 ic org req) acrm)) eqn:E3; cbn [negb fst]; cbv iota.
  2:{ apply Hbuf; [apply pf_buf3_hsets | apply pf_buf3_good]. }
  destruct (snd (process_acrh ic (pf_buf3 ic org req acrm) req true)) eqn:E4; cbn [negb fst]; cbv iota.
  2:{ apply Hbuf; [apply pf_buf4_hsets | apply pf_buf4_good]. }
  destruct (i_acma ic) as [v|].
  2:{ apply Hbuf; [apply pf_buf4_hsets | apply pf_buf4_good]. }
  rewrite d_hget_hset. destruct (beqb k headers_ACMA) eqn:E.
  - intros H. injection H as <-. right. split; [reflexivity|]. split; [exists v; auto|]. auto.
  - apply Hbuf; [apply pf_buf4_hsets | apply pf_buf4_good].
Qed.

Lemma debug_failing_preflight_headers : forall ic r pre k vs,
  is_preflight r = true ->
  mem k diag_names = true -> hget pre k = None ->
  hget (o_hdrs (serve (Some ic) true r pre)) k = Some vs ->
  (beqb k headers_ACAO = true ->
     vs = headers_WildcardSgl \/ exists o, first (r_hdrs r) headers_Origin = Some o /\ vs = [o]) /\
  (beqb k headers_ACAC = true -> vs = headers_TrueSgl) /\
  (beqb k headers_ACAPN = true -> vs = headers_TrueSgl) /\
  (beqb k headers_ACAM = true ->
     vs = headers_WildcardSgl \/ exists m, first (r_hdrs r) headers_ACRM = Some m /\ vs = [m]) /\
  (beqb k headers_ACAH = true ->
     vs = headers_WildcardSgl \/ vs = headers_WildcardAuthSgl \/ hget (r_hdrs r) headers_ACRH = Some vs \/
     exists v, i_acah ic = Some v /\ vs = [v]) /\
  (beqb k headers_ACMA = true -> exists v, i_acma ic = Some v /\ vs = [v]).
Proof.
  intros ic r pre k vs Hpf Hk Hn.
  destruct (serve_preflight ic true r pre Hpf) as (org & acrm & Ho & Ha & _ & ->).
  cbn [o_hdrs]. intros H.
  destruct (pf_on_values _ _ _ _ _ _ _ Hk Hn H) as [[Em Hv]|[Em [Hv _]]].
  - destruct Hv as (V1 & V2 & V3 & V4 & V5 & _). repeat split; try assumption.
    + intros E. destruct (V1 E) as [-> | ->]; [left; reflexivity | right; exists org; auto].
    + intros E. destruct (V4 E) as [-> | ->]; [left; reflexivity | right; exists acrm; auto].
    + intros E. congruence.
  - apply beqb_eq in Em. subst k.
    repeat split; try exact (fun _ => Hv); intros E; vm_compute in E; discriminate E.
Qed.

(* Max-Age on a preflight that fails with debug off: only when the failing step is the
   header-names step and debug mode answers the configured list instead, i.e. the response is the
   complete successful one.  [success_status ic <> 403] separates "fails with debug off" from a
   success whose configured status happens to be 403 (impossible for accepted configurations). *)
Lemma debug_failing_preflight_max_age : forall ic r pre vs,
  is_preflight r = true -> success_status ic <> 403%Z ->
  o_status (serve (Some ic) false r pre) = Some 403%Z ->
  hget pre headers_ACMA = None ->
  hget (o_hdrs (serve (Some ic) true r pre)) headers_ACMA = Some vs ->
  hget (r_hdrs r) headers_ACRH <> None /\
  (exists a, i_acah ic = Some a /\ hget (o_hdrs (serve (Some ic) true r pre)) headers_ACAH = Some [a]) /\
  o_status (serve (Some ic) true r pre) = Some (success_status ic).
Proof.
  intros ic r pre vs Hpf Hs.
  destruct (serve_preflight ic false r pre Hpf) as (org & acrm & Ho & Ha & _ & ->).
  destruct (serve_preflight ic true r pre Hpf) as (org' & acrm' & Ho' & Ha' & _ & ->).
  rewrite Ho in Ho'. injection Ho' as <-. rewrite Ha in Ha'. injection Ha' as <-.
  cbn [o_status o_hdrs]. intros Hoff Hn H.
  destruct (pf_on_values ic pre (r_hdrs r) org acrm headers_ACMA vs eq_refl Hn H)
    as [[Em _]|[_ [_ (E1 & E2 & E3 & E4)]]]; [discriminate Em|].
  clear H. revert Hoff. rewrite !handle_preflight_eq. rewrite E1, E2, E3, E4. cbn [negb]. cbv iota.
  destruct (snd (process_acrh ic (pf_buf3 ic org (r_hdrs r) acrm) (r_hdrs r) false)) eqn:E4'; cbn [negb snd]; cbv iota.
  { intros Hoff. injection Hoff as Hoff. exfalso. apply Hs, Hoff. }
  intros _. destruct (pacrh_off_fail_on_ok ic _ _ E4' E4) as [Hr [a [Ea Eb]]].
  split; [exact Hr|]. split; [|reflexivity]. exists a. split; [exact Ea|].
  assert (Hc : hget (hcopy (pf_res1 pre) (pf_buf4 ic org (r_hdrs r) acrm true)) headers_ACAH = Some [a]).
  { rewrite d_hget_hcopy by (apply buf_distinct, pf_buf4_hsets).
    unfold pf_buf4. rewrite Eb, d_hget_hset_eq. reflexivity. }
  cbn [fst]. destruct (i_acma ic); [rewrite d_hget_hset_ne by reflexivity|]; exact Hc.
Qed.

(* conversely, when debug mode also fails the header-names step (no rendered list) or an earlier
   step fails, no Max-Age is attached *)
Lemma debug_failing_preflight_no_max_age : forall ic r pre,
  is_preflight r = true -> success_status ic <> 403%Z ->
  o_status (serve (Some ic) false r pre) = Some 403%Z ->
  hget pre headers_ACMA = None ->
  i_acah ic = None \/ hget (r_hdrs r) headers_ACRH = None ->
  hget (o_hdrs (serve (Some ic) true r pre)) headers_ACMA = None.
Proof.
  intros ic r pre Hpf Hs Hoff Hn Hc.
  destruct (hget (o_hdrs (serve (Some ic) true r pre)) headers_ACMA) as [vs|] eqn:E; [|reflexivity].
  destruct (debug_failing_preflight_max_age ic r pre vs Hpf Hs Hoff Hn E) as [Hr [[a [Ea _]] _]].
  destruct Hc as [Hc|Hc]; [congruence | contradiction].
Qed.

(* ------------------------------------------------------------------------------------------ *)
(* 7. the statement of Properties/C09b.v                                                       *)
(* ------------------------------------------------------------------------------------------ *)

Lemma debug_failing_preflight_headers_are_a_prefix_of_success : forall ic r pre k vs,
  is_preflight r = true -> o_status (serve (Some ic) false r pre) = Some 403%Z ->
  mem k diag_names = true -> hget pre k = None ->
  hget (o_hdrs (serve (Some ic) true r pre)) k = Some vs ->
  (beqb k headers_ACAO = true ->
     vs = headers_WildcardSgl \/ exists o, first (r_hdrs r) headers_Origin = Some o /\ vs = [o]) /\
  (beqb k headers_ACAC = true -> vs = headers_TrueSgl) /\
  (beqb k headers_ACAPN = true -> vs = headers_TrueSgl) /\
  (beqb k headers_ACAM = true ->
     vs = headers_WildcardSgl \/ exists m, first (r_hdrs r) headers_ACRM = Some m /\ vs = [m]) /\
  (beqb k headers_ACAH = true ->
     vs = headers_WildcardSgl \/ vs = headers_WildcardAuthSgl \/ hget (r_hdrs r) headers_ACRH = Some vs \/
     exists v, i_acah ic = Some v /\ vs = [v]) /\
  (beqb k headers_ACMA = true ->
     (exists v, i_acma ic = Some v /\ vs = [v]) /\
     (success_status ic <> 403%Z ->
        hget (r_hdrs r) headers_ACRH <> None /\
        (exists a, i_acah ic = Some a /\
                   hget (o_hdrs (serve (Some ic) true r pre)) headers_ACAH = Some [a]) /\
        o_status (serve (Some ic) true r pre) = Some (success_status ic))).
Proof.
  intros ic r pre k vs Hpf Hoff Hk Hn H.
  destruct (debug_failing_preflight_headers ic r pre k vs Hpf Hk Hn H) as (V1 & V2 & V3 & V4 & V5 & V6).
  repeat (split; [assumption|]). intros E. split; [exact (V6 E)|]. intros Hs.
  apply beqb_eq in E. subst k.
  exact (debug_failing_preflight_max_age ic r pre vs Hpf Hs Hoff Hn H).
Qed.

(* for configurations accepted by validation the ok status is never 403 *)
Require Import Proofs.Rel Proofs.ConfigP Proofs.ServeP.

Lemma accepted_success_not_403 : forall ace ip6 psl c ic,
  new_internal_config ace ip6 psl c = inl ic -> success_status ic <> 403%Z.
Proof. intros ace ip6 psl c ic Hacc. eapply success_not_403. eapply accepted_rel. exact Hacc. Qed.

Lemma debug_failing_preflight_max_age_accepted : forall ace ip6 psl c ic r pre vs,
  new_internal_config ace ip6 psl c = inl ic -> is_preflight r = true ->
  o_status (serve (Some ic) false r pre) = Some 403%Z ->
  hget pre headers_ACMA = None ->
  hget (o_hdrs (serve (Some ic) true r pre)) headers_ACMA = Some vs ->
  hget (r_hdrs r) headers_ACRH <> None /\
  (exists a, i_acah ic = Some a /\ hget (o_hdrs (serve (Some ic) true r pre)) headers_ACAH = Some [a]) /\
  o_status (serve (Some ic) true r pre) = Some (success_status ic).
Proof.
  intros ace ip6 psl c ic r pre vs Hacc Hpf. apply debug_failing_preflight_max_age; [exact Hpf|].
  eapply accepted_success_not_403. exact Hacc.
Qed.

Lemma debug_failing_preflight_no_max_age_accepted : forall ace ip6 psl c ic r pre,
  new_internal_config ace ip6 psl c = inl ic -> is_preflight r = true ->
  o_status (serve (Some ic) false r pre) = Some 403%Z ->
  hget pre headers_ACMA = None ->
  i_acah ic = None \/ hget (r_hdrs r) headers_ACRH = None ->
  hget (o_hdrs (serve (Some ic) true r pre)) headers_ACMA = None.
Proof.
  intros ace ip6 psl c ic r pre Hacc Hpf. apply debug_failing_preflight_no_max_age; [exact Hpf|].
  eapply accepted_success_not_403. exact Hacc.
Qed.
