(* Proofs/RadixSrcContainsP.v -- Tree.Contains as tools/genradix translates it from internal/origins/radix.go
   (Gen/RadixSrc.v: Go-layout tree, the pointer n as a path, a `for { }` loop run with fuel S (len host)) computes,
   on every tree that satisfies the invariant gwf, exactly what the hand-written model computes on the abstraction
   of the tree; in particular the fuel always suffices: every descent consumes at least one byte of the host. *)
Require Import Base.Bytes Gen.Tables Model.Origins Model.Pattern Model.Radix Model.UtilRt Model.LoopRt Model.RadixRt
  Gen.RadixSrc Proofs.RadixAbs Proofs.RadixP Proofs.RadixSrcHelpP.
From Coq Require Import Sorted ZifyBool ZifyNat ZifyN.
Open Scope bool_scope.
Open Scope N_scope.

(* ---------- pointers as paths ---------- *)

Lemma gget_app t p q : gget t (p ++ q) = gget (gget t p) q.
Proof. revert t; induction p as [|i p IH]; intros t; [reflexivity|]. cbn [app gget]. apply IH. Qed.

Lemma gget_snoc t p i : gget t (p ++ [i]) = nth i (g_children (gget t p)) zero_gnode.
Proof. rewrite gget_app. reflexivity. Qed.

Lemma gget_gchild t p i : gget t (gchild p i) = nth (Z.to_nat i) (g_children (gget t p)) zero_gnode.
Proof. unfold gchild. apply gget_snoc. Qed.

(* ---------- the abstraction of a node, by projections ---------- *)

Lemma abs_eq g :
  abs g = Node (rev (g_suf g)) (combine (g_edges g) (map abs (g_children g))) (combine (g_schemes g) (g_ports g)).
Proof. destruct g; reflexivity. Qed.

Lemma contains_child_abs g h sch q :
  contains_child (abs g) h sch q =
  match cut_prefix (rev (g_suf g)) h with Some h' => contains (abs g) h' sch q | None => false end.
Proof. destruct g; reflexivity. Qed.

(* ---------- cut_prefix from common_prefix: the whole of c is common iff c is a prefix of a ---------- *)

Lemma cut_prefix_common a c :
  let '(ra, rc, com) := common_prefix a c in
  cut_prefix c a = if (length com =? length c)%nat then Some ra else None.
Proof.
  revert c; induction a as [|x a IH]; intros [|y c]; try reflexivity.
  cbn [common_prefix cut_prefix]. rewrite (N.eqb_sym y x). destruct (x =? y); [|reflexivity].
  specialize (IH c). destruct (common_prefix a c) as [[ra rc] com]. exact IH.
Qed.

(* ---------- the loop ---------- *)

Definition contains_body (v_t : gnode) (v_o : origin) : bytes * gpath -> ctl (bytes * gpath) bool :=
  fun '(v_host, v_n) =>
      if true then (
        let '(v_label, v_ok) := go_lastByte v_host in
            if (negb v_ok) then (
        (Ret (go_node_contains (gget v_t v_n) (oscheme v_o) (oport v_o) false)))
      else (
        if (go_node_contains (gget v_t v_n) (oscheme v_o) (oport v_o) true) then (
          (Ret true))
        else (
          let '(v_i, v_found) := slices_BinarySearch_N (g_edges (gget v_t v_n)) v_label in
          if (negb v_found) then (
            (Ret false))
          else (
            let v_n := gchild v_n v_i in
            match go_splitAtCommonSuffix v_host (g_suf (gget v_t v_n)) with
            | None => Exh
            | Some (v_prefixOfHost, _, v_suf) =>
                            if (negb ((Z.of_nat (length v_suf)) =? (Z.of_nat (length (g_suf (gget v_t v_n)))))%Z) then (
                (Ret false))
              else (
                let v_host := v_prefixOfHost in
                (Next (v_host, v_n)))
            end))))
      else (Brk (v_host, v_n)).

Lemma go_Tree_Contains_unfold t o :
  go_Tree_Contains t o =
  match loop_n (S (length (hvalue (ohost o)))) (contains_body t o) (hvalue (ohost o), []) with
  | Done (_, _) => None
  | Returned r => Some r
  | Exhausted => None
  end.
Proof. reflexivity. Qed.

(* from a well-formed subtree n reached by the path p, with the bytes h of the host still to be matched and
   more fuel than bytes, the loop returns what the model's recursion answers on the abstraction of n *)
Lemma contains_loop t o : forall fuel n (p : gpath) (h : bytes),
  gwf n -> gget t p = n -> (S (length h) <= fuel)%nat ->
  loop_n fuel (contains_body t o) (h, p) = Returned (contains (abs n) (rev h) (oscheme o) (oport o)).
Proof.
  induction fuel as [|f IH]; intros n p h Hwf Hg Hf; [lia|].
  rewrite loop_n_S'. unfold contains_body at 1. cbv beta iota zeta.
  rewrite go_lastByte_spec, Hg.
  destruct n as [suf edges children schemes ports].
  destruct (gwf_inv _ _ _ _ _ Hwf) as (Hl1 & Hl2 & Hs1 & Hs2 & Hp & Hch).
  cbn [abs]. rewrite contains_eq.
  rewrite !go_node_contains_spec by assumption.
  assert (Hlen : length h = length (rev h)) by (rewrite rev_length; reflexivity).
  unfold last_byte. destruct (rev h) as [|c hr] eqn:Eh; cbv beta iota zeta; cbn [negb]; [reflexivity|].
  destruct (ents_contains (combine schemes ports) (oscheme o) (oport o) true); [reflexivity|].
  cbn [g_edges]. rewrite (bsN_find_kid edges children c Hs1 Hl1).
  destruct (slices_BinarySearch_N edges c) as [i found] eqn:Ebs.
  destruct found; cbn [negb]; [|reflexivity].
  destruct (bsN_found edges c i Hs1 Ebs) as (_ & Hi & _ & _ & _).
  rewrite gget_gchild, Hg. cbn [g_children].
  assert (Hi' : (Z.to_nat i < length edges)%nat) by lia.
  pose proof (Forall2_nth_both _ 0 zero_gnode _ _ Hch (Z.to_nat i) Hi') as [Hlb Hwfc].
  set (cn := nth (Z.to_nat i) children zero_gnode) in *.
  rewrite contains_child_abs, go_split_spec, Eh.
  pose proof (cut_prefix_common (c :: hr) (rev (g_suf cn))) as Hcut.
  pose proof (common_prefix_spec (c :: hr) (rev (g_suf cn))) as Hcp.
  destruct (common_prefix (c :: hr) (rev (g_suf cn))) as [[ra rc] com].
  destruct Hcp as (Hcp & _ & _).
  rewrite Hcut, !rev_length.
  destruct (length com =? length (g_suf cn))%nat eqn:El.
  - replace (Z.of_nat (length com) =? Z.of_nat (length (g_suf cn)))%Z with true by lia. cbn [negb].
    rewrite <- (rev_involutive ra) at 2. apply (IH cn (gchild p i) (rev ra)).
    + exact Hwfc.
    + rewrite gget_gchild, Hg. reflexivity.
    + apply last_byte_true_nonempty in Hlb.
      assert (Hne : (length (g_suf cn) <> 0)%nat) by (destruct (g_suf cn); [congruence | discriminate]).
      rewrite rev_length. rewrite Hcp, app_length in Hlen. lia.
  - replace (Z.of_nat (length com) =? Z.of_nat (length (g_suf cn)))%Z with false by lia. reflexivity.
Qed.

Theorem go_Tree_Contains_eq (t : gnode) (o : origin) :
  gwf t -> go_Tree_Contains t o = Some (tree_contains (abs t) o).
Proof.
  intros Hwf. rewrite go_Tree_Contains_unfold.
  assert (H : loop_n (S (length (hvalue (ohost o)))) (contains_body t o) (hvalue (ohost o), []) =
              Returned (contains (abs t) (rev (hvalue (ohost o))) (oscheme o) (oport o))).
  { apply contains_loop; [exact Hwf | reflexivity | apply le_n]. }
  rewrite H. reflexivity.
Qed.

Print Assumptions go_Tree_Contains_eq.
