(* Proofs/UtilSrcP.v -- the Gallina functions generated from internal/util, internal/methods and internal/headers
   (Gen/UtilSrc.v, over the contract functions of Model/UtilRt.v) compute exactly what the hand-written model
   (Model/Util.v, Model/Methods.v, Model/Headers.v) computes. *)
Require Import Base.Bytes Gen.Tables Model.Util Model.Headers Model.Methods Model.UtilRt Gen.UtilSrc.
Require Import Proofs.HeadersP.
From Coq Require Import Sorted Lia ZifyBool ZifyNat ZifyN.

(* ------------------------------------------------------------------------------------------ *)
(* 1. case conversion                                                                          *)
(* ------------------------------------------------------------------------------------------ *)

Lemma go_ByteLowercase_eq : forall s, go_ByteLowercase s = lower s.
Proof. intro s. reflexivity. Qed.

Lemma go_ByteUppercase_eq : forall s, go_ByteUppercase s = upper s.
Proof. intro s. reflexivity. Qed.

(* ------------------------------------------------------------------------------------------ *)
(* 2. append + slices.Sort on a strictly sorted slice is sorted insertion                      *)
(* ------------------------------------------------------------------------------------------ *)

Lemma blt_bleb : forall x y, blt x y -> bleb x y = true.
Proof. intros x y H. apply blt_bcmp in H. unfold bleb. rewrite H. reflexivity. Qed.

Lemma blt_bleb_false : forall x y, blt x y -> bleb y x = false.
Proof.
  intros x y H. apply blt_bcmp in H. unfold bleb. rewrite bcmp_antisym, H. reflexivity.
Qed.

Lemma blt_bltb_false : forall x y, blt x y -> bltb y x = false.
Proof.
  intros x y H. apply blt_bcmp in H. unfold bltb. rewrite bcmp_antisym, H. reflexivity.
Qed.

Lemma insert_sorted_head : forall x l,
  Forall (fun y => bleb x y = true) l -> insert_sorted x l = x :: l.
Proof.
  intros x l HF. destruct l as [|y r]; simpl; [reflexivity|].
  inversion HF as [|y' r' Hy Hr]; subst. rewrite Hy. reflexivity.
Qed.

Lemma fold_insert_sorted_single : forall e l,
  StronglySorted blt l -> ~ In e l -> fold_right insert_sorted [e] l = insert_sorted e l.
Proof.
  intros e l HS. induction HS as [|x r HS IH HF]; intro HN; [reflexivity|].
  cbn [fold_right]. rewrite IH by (intro H; apply HN; right; exact H).
  rewrite Forall_forall in HF.
  cbn [insert_sorted]. destruct (bleb e x) eqn:E.
  - assert (Hlt : blt e x).
    { apply bleb_true_neq; [exact E|]. intro H. apply HN. left. symmetry. exact H. }
    rewrite (insert_sorted_head e r).
    + cbn [insert_sorted]. rewrite (blt_bleb_false e x Hlt).
      rewrite (insert_sorted_head x r); [reflexivity|].
      apply Forall_forall. intros y Hy. apply blt_bleb. apply HF. exact Hy.
    + apply Forall_forall. intros y Hy. apply blt_bleb.
      eapply blt_trans; [exact Hlt|]. apply HF. exact Hy.
  - apply bleb_false in E. apply insert_sorted_head.
    apply Forall_forall. intros y Hy. apply blt_bleb.
    destruct (In_insert_sorted _ _ _ Hy) as [H|H]; [subst; exact E | apply HF; exact H].
Qed.

Lemma sort_bytes_snoc : forall e l,
  StronglySorted blt l -> ~ In e l -> sort_bytes (l ++ [e]) = insert_sorted e l.
Proof.
  intros e l HS HN. unfold sort_bytes. rewrite fold_right_app. cbn [fold_right insert_sorted].
  apply fold_insert_sorted_single; assumption.
Qed.

Lemma sort_bytes_sorted_id : forall l, StronglySorted blt l -> sort_bytes l = l.
Proof.
  intros l HS. induction HS as [|x r HS IH HF]; [reflexivity|].
  unfold sort_bytes in *. cbn [fold_right]. rewrite IH. apply insert_sorted_head.
  rewrite Forall_forall in HF. apply Forall_forall. intros y Hy. apply blt_bleb. apply HF. exact Hy.
Qed.

Theorem go_SortedSet_Add_eq : forall s e, sset_inv s -> go_SortedSet_Add s e = sset_add s e.
Proof.
  intros s e [HS HM]. unfold go_SortedSet_Add, sset_add, slices_BinarySearch, slices_Sort, set_elems, set_maxlen.
  cbv beta iota. destruct (mem e (elems s)) eqn:E; [reflexivity|].
  cbn [elems maxlen]. rewrite sort_bytes_snoc; [reflexivity | exact HS |].
  intro H. apply mem_In in H. congruence.
Qed.

(* ------------------------------------------------------------------------------------------ *)
(* 3. slices.BinarySearch on a strictly sorted slice is the linear search of the model         *)
(* ------------------------------------------------------------------------------------------ *)

Lemma filter_lt_nil : forall e l, Forall (blt e) l -> filter (fun x => bltb x e) l = [].
Proof.
  intros e l HF. induction HF as [|y r Hy HF IH]; [reflexivity|].
  cbn [filter]. rewrite (blt_bltb_false e y Hy). exact IH.
Qed.

Lemma find_index_not_mem : forall e l i, mem e l = false -> find_index e l i = (-1)%Z.
Proof.
  intros e l. induction l as [|x r IH]; intros i H; [reflexivity|].
  cbn [mem] in H. apply orb_false_iff in H. destruct H as [H1 H2].
  cbn [find_index]. rewrite H1. apply IH. exact H2.
Qed.

Lemma find_index_count : forall e l i, StronglySorted blt l -> mem e l = true ->
  find_index e l i = (i + Z.of_nat (length (filter (fun x => bltb x e) l)))%Z.
Proof.
  intros e l i HS. revert i. induction HS as [|x r HS IH HF]; intros i H; [discriminate|].
  cbn [mem] in H. cbn [find_index filter]. destruct (beqb e x) eqn:E.
  - apply beqb_eq in E. subst x.
    assert (Hirr : bltb e e = false).
    { destruct (bltb e e) eqn:B; [|reflexivity]. exfalso. exact (blt_irrefl e B). }
    rewrite Hirr, (filter_lt_nil e r HF). cbn [length]. lia.
  - cbn [orb] in H. assert (Hin : In e r) by (apply mem_In; exact H).
    rewrite Forall_forall in HF. assert (Hlt : bltb x e = true) by (apply HF; exact Hin).
    rewrite Hlt. cbn [length]. rewrite (IH (i + 1)%Z H). lia.
Qed.

Lemma SS_skipn : forall n (l : list bytes), StronglySorted blt l -> StronglySorted blt (skipn n l).
Proof.
  induction n as [|n IH]; intros l HS; [exact HS|].
  destruct l as [|x r]; [exact HS|]. cbn [skipn]. apply IH.
  inversion HS; assumption.
Qed.

Theorem go_SortedSet_IndexAfter_eq : forall s n e, sset_inv s -> (-1 <= n)%Z ->
  go_SortedSet_IndexAfter s n e = index_after s n e.
Proof.
  intros s n e [HS HM] Hn. unfold go_SortedSet_IndexAfter, index_after, slices_BinarySearch.
  cbv beta iota zeta. destruct (N.ltb (maxlen s) (blen e)); [reflexivity|].
  set (l' := skipn (Z.to_nat (n + 1)) (elems s)).
  assert (HS' : StronglySorted blt l') by (apply SS_skipn; exact HS).
  destruct (mem e l') eqn:E; cbn [negb].
  - rewrite (find_index_count e l' (n + 1)%Z HS' E). reflexivity.
  - rewrite (find_index_not_mem e l' (n + 1)%Z E). reflexivity.
Qed.

Lemma go_SortedSet_Size_eq : forall s, go_SortedSet_Size s = Z.of_N (sset_size s).
Proof. intro s. unfold go_SortedSet_Size, sset_size. lia. Qed.

Theorem go_Set_Contains_eq : forall s e, sset_inv s -> go_Set_Contains s e = set_contains s e.
Proof.
  intros s e H. unfold go_Set_Contains, set_contains.
  rewrite go_SortedSet_IndexAfter_eq; [reflexivity | exact H | lia].
Qed.

(* ------------------------------------------------------------------------------------------ *)
(* 4. NewSet                                                                                   *)
(* ------------------------------------------------------------------------------------------ *)

Lemma go_NewSet_fold : forall l s, sset_inv s ->
  fold_left (fun v_set v_e => go_Set_Add v_set v_e) l s = fold_left sset_add l s.
Proof.
  induction l as [|e l IH]; intros s H; [reflexivity|].
  cbn [fold_left]. unfold go_Set_Add at 2. rewrite (go_SortedSet_Add_eq s e H).
  apply IH. apply sset_inv_add. exact H.
Qed.

Theorem go_NewSet_eq : forall l, go_NewSet l = new_set l.
Proof. intro l. unfold go_NewSet, new_set. apply go_NewSet_fold. apply sset_inv_empty. Qed.

Lemma go_contains_new_set : forall l e, go_Set_Contains (go_NewSet l) e = set_contains (new_set l) e.
Proof.
  intros l e. rewrite go_NewSet_eq. apply go_Set_Contains_eq. apply sset_inv_new_set.
Qed.

(* ------------------------------------------------------------------------------------------ *)
(* 5. internal/methods and internal/headers predicates                                         *)
(* ------------------------------------------------------------------------------------------ *)

Theorem go_methods_eq : forall m,
  go_methods_IsValid m = method_is_valid m /\ go_methods_IsForbidden m = method_is_forbidden m /\
  go_methods_IsSafelisted m = method_is_safelisted m /\ go_methods_Normalize m = method_normalize m.
Proof.
  intro m. split; [reflexivity|]. split; [|split].
  - unfold go_methods_IsForbidden, method_is_forbidden, forbidden_methods_set.
    rewrite go_contains_new_set, go_ByteUppercase_eq. reflexivity.
  - unfold go_methods_IsSafelisted, method_is_safelisted, safelisted_methods_set.
    apply go_contains_new_set.
  - unfold go_methods_Normalize, method_normalize, normalized_methods_set.
    cbv zeta. rewrite go_contains_new_set, go_ByteUppercase_eq. reflexivity.
Qed.

Lemma forbidden_req_lits :
  headers_IsForbiddenRequestHeaderName_lits = [[112; 114; 111; 120; 121; 45]%N; [115; 101; 99; 45]%N].
Proof. reflexivity. Qed.

Theorem go_header_predicates_eq : forall n,
  go_headers_IsValid n = is_valid_name n /\
  go_IsForbiddenRequestHeaderName n = is_forbidden_req n /\ go_IsProhibitedRequestHeaderName n = is_prohibited_req n /\
  go_IsForbiddenResponseHeaderName n = is_forbidden_res n /\ go_IsProhibitedResponseHeaderName n = is_prohibited_res n /\
  go_IsSafelistedResponseHeaderName n = is_safelisted_res n.
Proof.
  intro n. split; [reflexivity|]. split; [|split; [|split; [|split]]].
  - unfold go_IsForbiddenRequestHeaderName, is_forbidden_req, forbidden_req_set, strings_HasPrefix.
    rewrite go_contains_new_set, forbidden_req_lits. cbn [existsb].
    destruct (set_contains (new_set headers_discreteForbiddenRequestHeaderNames) n); cbn [orb]; [reflexivity|].
    rewrite orb_false_r. reflexivity.
  - unfold go_IsProhibitedRequestHeaderName, is_prohibited_req, prohibited_req_set. apply go_contains_new_set.
  - unfold go_IsForbiddenResponseHeaderName, is_forbidden_res, forbidden_res_set. apply go_contains_new_set.
  - unfold go_IsProhibitedResponseHeaderName, is_prohibited_res, prohibited_res_set. apply go_contains_new_set.
  - unfold go_IsSafelistedResponseHeaderName, is_safelisted_res, safelisted_res_set. apply go_contains_new_set.
Qed.

Lemma go_isOWS_eq : forall c, go_isOWS c = is_ows c.
Proof. intro c. reflexivity. Qed.

Print Assumptions go_SortedSet_Add_eq.
Print Assumptions go_SortedSet_IndexAfter_eq.
Print Assumptions go_Set_Contains_eq.
Print Assumptions go_NewSet_eq.
Print Assumptions go_methods_eq.
Print Assumptions go_header_predicates_eq.
