(* Proofs/EtldSrcP.v -- Pattern.HostIsEffectiveTLD as translated by tools/genloop (Gen/PatSrc.v), with
   publicsuffix.PublicSuffix as the oracle `psl`, is the model's host_is_etld for the induced "is a public suffix"
   predicate (the one the harness records per host: PublicSuffix(h) == h). *)
Require Import Base.Bytes Gen.Tables Model.Origins Model.Netip Model.Idna Model.Pattern Model.LoopRt Gen.LoopSrc Model.PatRt Gen.PatSrc.
Require Import Proofs.PatSrcP.
Open Scope N_scope.

Definition is_psl_of (psl : bytes -> bytes) (h : bytes) : bool := beqb (psl h) h.

Lemma cut_prefix_single c l :
  cut_prefix [c] l = match l with x :: r => if x =? c then Some r else None | [] => None end.
Proof.
  destruct l as [|x r]; cbn; [reflexivity|].
  rewrite N.eqb_sym. destruct (x =? c); reflexivity.
Qed.

Lemma strings_TrimSuffix_byte s c : strings_TrimSuffix s [c] = trim_suffix_byte c s.
Proof.
  unfold strings_TrimSuffix, trim_suffix_byte. cbn [rev app]. rewrite cut_prefix_single.
  destruct (rev s) as [|x r]; [reflexivity|]. destruct (x =? c); reflexivity.
Qed.

Lemma go_HostIsEffectiveTLD_eq psl p :
  go_HostIsEffectiveTLD psl p =
  let h := trim_suffix_byte label_sep (host_only (pvalue p) (pkind_of p)) in
  if host_is_etld (is_psl_of psl) p then (h, true) else ([], false).
Proof.
  unfold go_HostIsEffectiveTLD, host_is_etld, is_psl_of, hostpat_of.
  rewrite go_hostOnly_eq, strings_TrimSuffix_byte. fold label_sep. cbv zeta.
  destruct (beqb _ _); reflexivity.
Qed.
