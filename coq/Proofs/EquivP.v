(* Proofs/EquivP.v -- equivalent configurations (Spec/Equiv.v) are accepted alike and, when
   accepted, give middlewares that answer every request identically (C15).
   1. generic facts on [mem]/[same_members]; 2. ASCII case mapping vs tokens and "*";
   3. acceptance: [doc_ok] is invariant under [cfg_equiv]; 4. [serve] only observes an [icfg]
   through [obs_eq]; 5. [icfg_rel] on both sides + [cfg_equiv] give [obs_eq]. *)
Require Import Base.Bytes Gen.Tables.
Require Import Model.Util Model.Headers Model.Methods Model.Origins Model.Netip Model.Pattern Model.Radix
  Model.CfgErrors Model.Config Model.Serve.
Require Import Spec.Origins Spec.Wire Spec.Fetch Spec.ConfigDoc Spec.Equiv.
Require Import Proofs.RadixP Proofs.HeadersP Proofs.ParseP Proofs.Rel Proofs.ValidateP Proofs.ConfigP.
From Coq Require Import Sorted ZifyBool ZifyNat ZifyN.
Import Coq.Strings.String.StringSyntax.
Arguments b _%string_scope.
Open Scope N_scope.

(* ------------------------------------------------------------------------------------------ *)
(* 1. Lists up to order and repetition                                                         *)
(* ------------------------------------------------------------------------------------------ *)

Lemma same_members_In l l' : same_members l l' -> forall x, In x l <-> In x l'.
Proof. intros H x. rewrite <- !mem_In, (H x). reflexivity. Qed.

Lemma same_members_sym l l' : same_members l l' -> same_members l' l.
Proof. intros H x. symmetry. apply H. Qed.

Lemma same_members_nil l l' : same_members l l' ->
  match l with [] => true | _ => false end = match l' with [] => true | _ => false end.
Proof.
  intros H. destruct l as [|x r], l' as [|y r']; try reflexivity.
  - specialize (H y). simpl in H. rewrite HeadersP.beqb_refl in H. discriminate.
  - specialize (H x). simpl in H. rewrite HeadersP.beqb_refl in H. discriminate.
Qed.

Lemma forallb_same_members (f : bytes -> bool) l l' : same_members l l' -> forallb f l = forallb f l'.
Proof.
  intros H. apply eq_true_iff_eq. rewrite !forallb_forall.
  split; intros Hf x Hx; apply Hf; apply (same_members_In _ _ H); exact Hx.
Qed.

Lemma mem_filter (f : bytes -> bool) x l : mem x (filter f l) = f x && mem x l.
Proof.
  induction l as [|y r IH]; cbn [filter mem]; [rewrite andb_false_r; reflexivity|].
  destruct (beqb x y) eqn:E.
  - apply beqb_eq in E. subst y. destruct (f x); cbn [mem orb andb]; [|exact IH].
    rewrite HeadersP.beqb_refl. reflexivity.
  - destruct (f y); cbn [mem orb]; rewrite ?E; exact IH.
Qed.

Lemma forallb_map {A B} (f : A -> B) (g : B -> bool) l : forallb g (map f l) = forallb (fun x => g (f x)) l.
Proof. induction l as [|x r IH]; simpl; [reflexivity|]. rewrite IH. reflexivity. Qed.

Lemma forallb_ext {A} (f g : A -> bool) l : (forall x, f x = g x) -> forallb f l = forallb g l.
Proof. intros H. induction l as [|x r IH]; simpl; [reflexivity|]. rewrite H, IH. reflexivity. Qed.

(* dropping entries that pass anyway *)
Lemma forallb_filter_irrelevant {A} (keep ok : A -> bool) l :
  (forall x, keep x = false -> ok x = true) -> forallb ok (filter keep l) = forallb ok l.
Proof.
  intros H. induction l as [|x r IH]; simpl; [reflexivity|].
  destruct (keep x) eqn:E; simpl; rewrite IH; [reflexivity|]. rewrite (H x E). reflexivity.
Qed.

(* ------------------------------------------------------------------------------------------ *)
(* 2. ASCII case mapping: tokens, the wildcard, idempotence                                     *)
(* ------------------------------------------------------------------------------------------ *)

Lemma token_char_upper c : token_char (upper_byte c) = token_char c.
Proof.
  unfold upper_byte. destruct ((97 <=? c) && (c <=? 122)) eqn:E; [|reflexivity].
  unfold token_char, memN. lia.
Qed.

Lemma token_char_lower c : token_char (lower_byte c) = token_char c.
Proof.
  unfold lower_byte. destruct ((65 <=? c) && (c <=? 90)) eqn:E; [|reflexivity].
  unfold token_char, memN. lia.
Qed.

Lemma all_bytes_map (f : N -> N) (p : N -> bool) s : (forall c, p (f c) = p c) -> all_bytes p (map f s) = all_bytes p s.
Proof. intros H. induction s as [|d t IH]; [reflexivity|]. cbn [map all_bytes]. rewrite H, IH. reflexivity. Qed.

Lemma is_token_upper s : is_token (upper s) = is_token s.
Proof.
  unfold is_token, upper. destruct s as [|c r]; [reflexivity|].
  rewrite (all_bytes_map upper_byte token_char (c :: r) token_char_upper). reflexivity.
Qed.

Lemma is_token_lower s : is_token (lower s) = is_token s.
Proof.
  unfold is_token, lower. destruct s as [|c r]; [reflexivity|].
  rewrite (all_bytes_map lower_byte token_char (c :: r) token_char_lower). reflexivity.
Qed.

Lemma lower_byte_idem c : lower_byte (lower_byte c) = lower_byte c.
Proof.
  unfold lower_byte. destruct ((65 <=? c) && (c <=? 90)) eqn:E; [|rewrite E; reflexivity].
  destruct ((65 <=? c + 32) && (c + 32 <=? 90)) eqn:E'; [lia | reflexivity].
Qed.

Lemma lower_idem s : lower (lower s) = lower s.
Proof. unfold lower. rewrite map_map. apply map_ext. exact lower_byte_idem. Qed.

Lemma beqb_upper_star m : beqb (upper m) v_star = beqb m v_star.
Proof.
  destruct m as [|c [|d r]]; [reflexivity| |].
  - change (beqb (upper [c]) v_star) with ((upper_byte c =? 42) && true).
    change (beqb [c] v_star) with ((c =? 42) && true). unfold upper_byte.
    destruct ((97 <=? c) && (c <=? 122)) eqn:E; lia.
  - change (beqb (upper (c :: d :: r)) v_star) with ((upper_byte c =? 42) && false).
    change (beqb (c :: d :: r) v_star) with ((c =? 42) && false). rewrite !andb_false_r. reflexivity.
Qed.

Lemma beqb_lower_star n : beqb (lower n) v_star = beqb n v_star.
Proof.
  destruct n as [|c [|d r]]; [reflexivity| |].
  - change (beqb (lower [c]) v_star) with ((lower_byte c =? 42) && true).
    change (beqb [c] v_star) with ((c =? 42) && true). unfold lower_byte.
    destruct ((65 <=? c) && (c <=? 90)) eqn:E; lia.
  - change (beqb (lower (c :: d :: r)) v_star) with ((lower_byte c =? 42) && false).
    change (beqb (c :: d :: r) v_star) with ((c =? 42) && false). rewrite !andb_false_r. reflexivity.
Qed.

(* the model's method functions are the spec's *)
Lemma method_normalize_fetch m : method_normalize m = fetch_normalize m.
Proof. unfold method_normalize, fetch_normalize. rewrite normalized_methods_tbl. reflexivity. Qed.

Lemma method_is_safelisted_fetch m : method_is_safelisted m = mem m safelisted_methods.
Proof. unfold method_is_safelisted. apply safelisted_methods_tbl. Qed.

Lemma fetch_normalize_cases m :
  fetch_normalize m = m \/ (fetch_normalize m = upper m /\ mem (upper m) normalised_methods = true).
Proof.
  unfold fetch_normalize. destruct (mem (upper m) normalised_methods) eqn:E; [right; split; reflexivity | left; reflexivity].
Qed.

Lemma beqb_normalize_star m : beqb (fetch_normalize m) v_star = beqb m v_star.
Proof.
  destruct (fetch_normalize_cases m) as [->|[-> _]]; [reflexivity | apply beqb_upper_star].
Qed.

(* "*" is listed iff it is a member of the key list *)
Lemma lists_star_map (f : bytes -> bytes) l :
  (forall x, beqb (f x) v_star = beqb x v_star) -> lists_star (map f l) = lists_star l.
Proof.
  intros H. unfold lists_star. induction l as [|x r IH]; [reflexivity|]. cbn [map mem].
  rewrite IH, (beqb_sym v_star (f x)), H, (beqb_sym x v_star). reflexivity.
Qed.

Lemma lists_star_method_key l : lists_star (method_key l) = lists_star l.
Proof.
  unfold method_key, lists_star at 1. rewrite mem_filter. change (negb (mem v_star safelisted_methods)) with true.
  cbn [andb]. apply (lists_star_map fetch_normalize). exact beqb_normalize_star.
Qed.

Lemma lists_star_header_key l : lists_star (header_key l) = lists_star l.
Proof. apply (lists_star_map lower). exact beqb_lower_star. Qed.

Lemma lists_star_res_header_key l : lists_star (res_header_key l) = lists_star l.
Proof.
  unfold res_header_key, lists_star at 1. rewrite mem_filter.
  change (negb (mem v_star fetch_safelisted_response)) with true.
  cbn [andb]. apply (lists_star_map lower). exact beqb_lower_star.
Qed.

(* ------------------------------------------------------------------------------------------ *)
(* 3. Acceptance: doc_ok is invariant                                                          *)
(* ------------------------------------------------------------------------------------------ *)

Lemma method_ok_normalize m : method_ok (fetch_normalize m) = method_ok m.
Proof.
  destruct (fetch_normalize_cases m) as [->|[-> _]]; [reflexivity|].
  unfold method_ok. rewrite beqb_upper_star, is_token_upper, upper_idem. reflexivity.
Qed.

Lemma safelisted_method_ok k : mem k safelisted_methods = true -> method_ok k = true.
Proof.
  intros H. apply mem_In in H. cbn [In safelisted_methods] in H.
  repeat (destruct H as [H|H]; [subst k; vm_compute; reflexivity|]). destruct H.
Qed.

Lemma methods_ok_key l : forallb method_ok (method_key l) = forallb method_ok l.
Proof.
  unfold method_key. rewrite forallb_filter_irrelevant.
  - rewrite forallb_map. apply forallb_ext. exact method_ok_normalize.
  - intros x Hx. apply negb_false_iff in Hx. apply safelisted_method_ok. exact Hx.
Qed.

Lemma req_header_ok_lower n : req_header_ok (lower n) = req_header_ok n.
Proof. unfold req_header_ok. rewrite beqb_lower_star, is_token_lower, lower_idem. reflexivity. Qed.

Lemma req_headers_ok_key l : forallb req_header_ok (header_key l) = forallb req_header_ok l.
Proof. unfold header_key. rewrite forallb_map. apply forallb_ext. exact req_header_ok_lower. Qed.

Lemma res_header_ok_lower c n : res_header_ok c (lower n) = res_header_ok c n.
Proof. unfold res_header_ok. rewrite beqb_lower_star, is_token_lower, lower_idem. reflexivity. Qed.

Lemma safelisted_res_ok c k : mem k fetch_safelisted_response = true -> res_header_ok c k = true.
Proof.
  intros H. apply mem_In in H. cbn [In fetch_safelisted_response] in H.
  repeat (destruct H as [H|H]; [subst k; vm_compute; reflexivity|]). destruct H.
Qed.

Lemma res_headers_ok_key c l : forallb (res_header_ok c) (res_header_key l) = forallb (res_header_ok c) l.
Proof.
  unfold res_header_key. rewrite forallb_filter_irrelevant.
  - rewrite forallb_map. apply forallb_ext. exact (res_header_ok_lower c).
  - intros x Hx. apply negb_false_iff in Hx. apply safelisted_res_ok. exact Hx.
Qed.

Lemma res_header_ok_cred c c' n : c_credentialed c = c_credentialed c' -> res_header_ok c n = res_header_ok c' n.
Proof. intros H. unfold res_header_ok. rewrite H. reflexivity. Qed.

Lemma origin_ok_flags ace ip6 psl c c' raw :
  c_credentialed c = c_credentialed c' -> c_pna c = c_pna c' -> c_pna_nocors c = c_pna_nocors c' ->
  c_tol_insecure c = c_tol_insecure c' -> c_tol_psl c = c_tol_psl c' ->
  origin_ok ace ip6 psl c raw = origin_ok ace ip6 psl c' raw.
Proof. intros H1 H2 H3 H4 H5. unfold origin_ok, any_pna. rewrite H1, H2, H3, H4, H5. reflexivity. Qed.

Lemma doc_ok_equiv ace ip6 psl c c' : cfg_equiv c c' -> doc_ok ace ip6 psl c = doc_ok ace ip6 psl c'.
Proof.
  intros [Ho Hm Hq Hr Hc Ha Hs Hp Hn Hi Ht]. unfold doc_ok.
  rewrite (same_members_nil _ _ Ho), Ha, Hs, Hp, Hn.
  rewrite (forallb_same_members (origin_ok ace ip6 psl c) _ _ Ho).
  rewrite (forallb_ext (origin_ok ace ip6 psl c) (origin_ok ace ip6 psl c') (c_origins c'))
    by (intros raw; apply origin_ok_flags; assumption).
  rewrite <- (methods_ok_key (c_methods c)), <- (methods_ok_key (c_methods c')),
    (forallb_same_members method_ok _ _ Hm).
  rewrite <- (req_headers_ok_key (c_req_headers c)), <- (req_headers_ok_key (c_req_headers c')),
    (forallb_same_members req_header_ok _ _ Hq).
  rewrite <- (res_headers_ok_key c (c_res_headers c)), <- (res_headers_ok_key c' (c_res_headers c')),
    (forallb_same_members (res_header_ok c) _ _ Hr).
  rewrite (forallb_ext (res_header_ok c) (res_header_ok c') (res_header_key (c_res_headers c')))
    by (intros n; apply res_header_ok_cred; exact Hc).
  reflexivity.
Qed.

Lemma accepted_iff_doc_ok ace ip6 psl c :
  (exists ic, new_internal_config ace ip6 psl c = inl ic) <-> doc_ok ace ip6 psl c = true.
Proof.
  split.
  - intros [ic H]. exact (accepted_doc_ok _ _ _ _ _ H).
  - intros H. apply valid_accepted. apply doc_ok_iff_no_violation. exact H.
Qed.

Theorem equiv_accepted_alike : forall ace ip6 psl c c', cfg_equiv c c' ->
  ((exists ic, new_internal_config ace ip6 psl c = inl ic) <->
   (exists ic', new_internal_config ace ip6 psl c' = inl ic')).
Proof.
  intros ace ip6 psl c c' H. rewrite !accepted_iff_doc_ok, (doc_ok_equiv ace ip6 psl c c' H). reflexivity.
Qed.

(* ------------------------------------------------------------------------------------------ *)
(* 4. What [serve] observes of an internal configuration                                        *)
(* ------------------------------------------------------------------------------------------ *)

(* [i_tol_psl], [i_tol_insecure] are never read by the request path; the tree is only asked
   whether it is empty and whether it contains a PARSED origin; the method set is only queried *)
Record obs_eq (ic ic' : icfg) : Prop := {
  oe_empty : tree_is_empty (i_tree ic) = tree_is_empty (i_tree ic');
  oe_tree : forall o, valid_origin o -> tree_contains (i_tree ic) o = tree_contains (i_tree ic') o;
  oe_cred : i_cred ic = i_cred ic';
  oe_any : i_any_method ic = i_any_method ic';
  oe_methods : forall m, set_contains (i_methods ic) m = set_contains (i_methods ic') m;
  oe_ast : i_asterisk_req ic = i_asterisk_req ic';
  oe_auth : i_allow_auth ic = i_allow_auth ic';
  oe_req : i_req_hdrs ic = i_req_hdrs ic';
  oe_acah : i_acah ic = i_acah ic';
  oe_acma : i_acma ic = i_acma ic';
  oe_aceh : i_aceh ic = i_aceh ic';
  oe_status : i_status_m200 ic = i_status_m200 ic';
  oe_pna : i_pna ic = i_pna ic';
  oe_pna_nocors : i_pna_nocors ic = i_pna_nocors ic'
}.

Section ServeExt.
Variables ic ic' : icfg.
Hypothesis E : obs_eq ic ic'.

Lemma handle_non_cors_ext res o : handle_non_cors ic res o = handle_non_cors ic' res o.
Proof.
  unfold handle_non_cors. rewrite (oe_pna_nocors _ _ E), (oe_empty _ _ E), (oe_aceh _ _ E). reflexivity.
Qed.

Lemma process_origin_preflight_ext buf org :
  process_origin_preflight ic buf org = process_origin_preflight ic' buf org.
Proof.
  unfold process_origin_preflight. destruct (parse org) as [o|] eqn:P; [|reflexivity].
  rewrite (oe_cred _ _ E), (oe_empty _ _ E), (oe_tree _ _ E o (parse_valid_origin _ _ P)). reflexivity.
Qed.

Lemma process_acrpn_ext buf req : process_acrpn ic buf req = process_acrpn ic' buf req.
Proof. unfold process_acrpn. rewrite (oe_pna _ _ E), (oe_pna_nocors _ _ E). reflexivity. Qed.

Lemma process_acrm_ext buf acrm : process_acrm ic buf acrm = process_acrm ic' buf acrm.
Proof.
  unfold process_acrm. rewrite (oe_any _ _ E), (oe_cred _ _ E), (oe_methods _ _ E acrm). reflexivity.
Qed.

Lemma process_acrh_ext buf req dbg : process_acrh ic buf req dbg = process_acrh ic' buf req dbg.
Proof.
  unfold process_acrh.
  rewrite (oe_ast _ _ E), (oe_cred _ _ E), (oe_auth _ _ E), (oe_req _ _ E), (oe_acah _ _ E). reflexivity.
Qed.

Lemma success_status_ext : success_status ic = success_status ic'.
Proof. unfold success_status. rewrite (oe_status _ _ E). reflexivity. Qed.

Lemma handle_preflight_ext res req org acrm dbg :
  handle_preflight ic res req org acrm dbg = handle_preflight ic' res req org acrm dbg.
Proof.
  unfold handle_preflight. rewrite process_origin_preflight_ext, success_status_ext, (oe_acma _ _ E).
  destruct (process_origin_preflight ic' [] org) as [buf1 [|]]; [|reflexivity].
  rewrite process_acrpn_ext. destruct (process_acrpn ic' buf1 req) as [buf2 [|]]; [|reflexivity].
  rewrite process_acrm_ext. destruct (process_acrm ic' buf2 acrm) as [buf3 [|]]; [|reflexivity].
  rewrite process_acrh_ext. reflexivity.
Qed.

Lemma handle_actual_ext res org o : handle_actual ic res org o = handle_actual ic' res org o.
Proof.
  unfold handle_actual. rewrite (oe_pna_nocors _ _ E), (oe_empty _ _ E), (oe_cred _ _ E), (oe_aceh _ _ E).
  destruct (parse org) as [og|] eqn:P; [|reflexivity].
  rewrite (oe_tree _ _ E og (parse_valid_origin _ _ P)). reflexivity.
Qed.

Lemma serve_ext dbg r pre : serve (Some ic) dbg r pre = serve (Some ic') dbg r pre.
Proof.
  unfold serve. destruct (first (r_hdrs r) headers_Origin) as [org|]; [|rewrite handle_non_cors_ext; reflexivity].
  destruct (first (r_hdrs r) headers_ACRM) as [acrm|]; [|rewrite handle_actual_ext; reflexivity].
  rewrite handle_preflight_ext, handle_actual_ext. reflexivity.
Qed.

End ServeExt.

(* ------------------------------------------------------------------------------------------ *)
(* 5. Equivalent accepted configurations have observationally equal internal forms             *)
(* ------------------------------------------------------------------------------------------ *)

Lemma cfg_patterns_same ace ip6 c c' : same_members (c_origins c) (c_origins c') ->
  forall p, In p (cfg_patterns ace ip6 c) <-> In p (cfg_patterns ace ip6 c').
Proof.
  intros H p. unfold cfg_patterns. rewrite !in_flat_map.
  split; intros [raw [Hr Hp]]; exists raw; (split; [apply (same_members_In _ _ H); exact Hr | exact Hp]).
Qed.

(* two SortedSets with the same members are the same record *)
Lemma sset_ext s s' : sset_inv s -> sset_inv s' -> (forall x, mem x (elems s) = mem x (elems s')) -> s = s'.
Proof.
  intros [S1 M1] [S2 M2] H. pose proof (sorted_unique _ _ S1 S2 H) as He.
  destruct s as [e m], s' as [e' m']. cbn [elems maxlen] in *. subst e'. rewrite M1, M2. reflexivity.
Qed.

Lemma mem_method_key m l :
  mem m (map method_normalize l) && negb (method_is_safelisted m) = mem m (method_key l).
Proof.
  unfold method_key. rewrite mem_filter, method_is_safelisted_fetch, andb_comm.
  rewrite (map_ext _ _ method_normalize_fetch). reflexivity.
Qed.

Lemma req_elems_key n l :
  negb (lists_star l) && mem n (map lower (filter (fun x => negb (is_star x)) l))
  = negb (lists_star (header_key l)) && mem n (header_key l).
Proof.
  rewrite lists_star_header_key. destruct (lists_star l) eqn:Es; [reflexivity|].
  rewrite filter_not_star by exact Es. reflexivity.
Qed.

Lemma auth_key l :
  existsb (fun n => beqb (lower n) headers_Authorization) l = mem headers_Authorization (header_key l).
Proof.
  unfold header_key. rewrite mem_map_existsb. apply existsb_ext_in. intros x _. apply beqb_sym.
Qed.

Lemma spec_aceh_key c :
  spec_aceh c = if lists_star (res_header_key (c_res_headers c)) then Some v_star
                else match dedup_adjacent (sort_bytes (res_header_key (c_res_headers c))) with
                     | [] => None
                     | ns => Some (join (b ",") ns)
                     end.
Proof. rewrite lists_star_res_header_key. reflexivity. Qed.

Lemma dedup_sort_same l l' : same_members l l' -> dedup_adjacent (sort_bytes l) = dedup_adjacent (sort_bytes l').
Proof.
  intros H. apply sorted_unique; try (apply dedup_sorted, sort_bytes_ble).
  intros x. rewrite !mem_dedup, !mem_sort_bytes. apply H.
Qed.

Lemma spec_aceh_equiv c c' :
  same_members (res_header_key (c_res_headers c)) (res_header_key (c_res_headers c')) -> spec_aceh c = spec_aceh c'.
Proof.
  intros H. rewrite !spec_aceh_key. unfold lists_star. rewrite (H v_star), (dedup_sort_same _ _ H). reflexivity.
Qed.

Lemma rel_obs_eq ace ip6 c c' ic ic' :
  cfg_equiv c c' -> icfg_rel ace ip6 c ic -> icfg_rel ace ip6 c' ic' -> obs_eq ic ic'.
Proof.
  intros [Ho Hm Hq Hr Hc Ha Hs Hp Hn Hi Ht] R R'.
  assert (Hso : lists_star (c_origins c) = lists_star (c_origins c')) by apply Ho.
  assert (Hsm : lists_star (c_methods c) = lists_star (c_methods c')).
  { rewrite <- (lists_star_method_key (c_methods c)), <- (lists_star_method_key (c_methods c')). apply Hm. }
  assert (Hsq : lists_star (c_req_headers c) = lists_star (c_req_headers c')).
  { rewrite <- (lists_star_header_key (c_req_headers c)), <- (lists_star_header_key (c_req_headers c')). apply Hq. }
  assert (Hreq : i_req_hdrs ic = i_req_hdrs ic').
  { apply sset_ext; [exact (rel_req_inv _ _ _ _ R) | exact (rel_req_inv _ _ _ _ R')|].
    intros n. rewrite (rel_req_elems _ _ _ _ R n), (rel_req_elems _ _ _ _ R' n), !req_elems_key.
    unfold lists_star. rewrite (Hq v_star), (Hq n). reflexivity. }
  constructor.
  - rewrite (rel_tree_empty _ _ _ _ R), (rel_tree_empty _ _ _ _ R'). exact Hso.
  - intros o Hv. rewrite (rel_tree _ _ _ _ R), (rel_tree _ _ _ _ R'), <- Hso.
    destruct (lists_star (c_origins c)); [reflexivity|].
    apply tree_contains_build_perm; try apply accepted_patterns_valid; [exact Hv|].
    apply cfg_patterns_same. exact Ho.
  - rewrite (rel_cred _ _ _ _ R), (rel_cred _ _ _ _ R'). exact Hc.
  - rewrite (rel_any_method _ _ _ _ R), (rel_any_method _ _ _ _ R'). exact Hsm.
  - intros m. rewrite (rel_methods _ _ _ _ R m), (rel_methods _ _ _ _ R' m), <- !andb_assoc, !mem_method_key.
    rewrite Hsm, (Hm m). reflexivity.
  - rewrite (rel_asterisk _ _ _ _ R), (rel_asterisk _ _ _ _ R'). exact Hsq.
  - rewrite (rel_auth _ _ _ _ R), (rel_auth _ _ _ _ R'), !auth_key. apply Hq.
  - exact Hreq.
  - rewrite (rel_acah _ _ _ _ R), (rel_acah _ _ _ _ R'), Hreq. reflexivity.
  - rewrite (rel_acma _ _ _ _ R), (rel_acma _ _ _ _ R'). unfold spec_max_age. rewrite Ha. reflexivity.
  - rewrite (rel_aceh _ _ _ _ R), (rel_aceh _ _ _ _ R'), (spec_aceh_equiv c c' Hr). reflexivity.
  - destruct (rel_status _ _ _ _ R) as [S1 _]. destruct (rel_status _ _ _ _ R') as [S2 _].
    apply (proj1 (Z.add_cancel_r _ _ 200%Z)). rewrite S1, S2, Hs. reflexivity.
  - rewrite (rel_pna _ _ _ _ R), (rel_pna _ _ _ _ R'). exact Hp.
  - rewrite (rel_pna_nocors _ _ _ _ R), (rel_pna_nocors _ _ _ _ R'). exact Hn.
Qed.

Theorem equiv_behave_alike : forall ace ip6 psl c c' ic ic', cfg_equiv c c' ->
  new_internal_config ace ip6 psl c = inl ic -> new_internal_config ace ip6 psl c' = inl ic' ->
  forall dbg r pre, serve (Some ic) dbg r pre = serve (Some ic') dbg r pre.
Proof.
  intros ace ip6 psl c c' ic ic' He H H'. apply serve_ext.
  exact (rel_obs_eq ace ip6 c c' ic ic' He (accepted_rel _ _ _ _ _ H) (accepted_rel _ _ _ _ _ H')).
Qed.

(* the instance the property singles out: "*" before or after Authorization *)
Lemma star_auth_equiv c c' a :
  c_req_headers c = [star; a] -> c_req_headers c' = [a; star] ->
  c_origins c' = c_origins c -> c_credentialed c' = c_credentialed c -> c_methods c' = c_methods c ->
  c_max_age c' = c_max_age c -> c_res_headers c' = c_res_headers c -> c_status c' = c_status c ->
  c_pna c' = c_pna c -> c_pna_nocors c' = c_pna_nocors c -> c_tol_insecure c' = c_tol_insecure c ->
  c_tol_psl c' = c_tol_psl c -> cfg_equiv c c'.
Proof.
  intros H1 H2 E1 E2 E3 E4 E5 E6 E7 E8 E9 E10.
  constructor; rewrite ?E1, ?E2, ?E3, ?E4, ?E5, ?E6, ?E7, ?E8, ?E9, ?E10; try reflexivity; try (intros x; reflexivity).
  rewrite H1, H2. intros x. cbn [header_key map mem]. rewrite !orb_false_r. apply orb_comm.
Qed.

Theorem star_and_authorization_commute : forall ace ip6 psl c c' ic ic' a,
  lower a = headers_Authorization -> c_req_headers c = [star; a] -> c_req_headers c' = [a; star] ->
  c_origins c' = c_origins c -> c_credentialed c' = c_credentialed c -> c_methods c' = c_methods c ->
  c_max_age c' = c_max_age c -> c_res_headers c' = c_res_headers c -> c_status c' = c_status c ->
  c_pna c' = c_pna c -> c_pna_nocors c' = c_pna_nocors c -> c_tol_insecure c' = c_tol_insecure c ->
  c_tol_psl c' = c_tol_psl c ->
  new_internal_config ace ip6 psl c = inl ic -> new_internal_config ace ip6 psl c' = inl ic' ->
  forall dbg r pre, serve (Some ic) dbg r pre = serve (Some ic') dbg r pre.
Proof.
  intros ace ip6 psl c c' ic ic' a _ H1 H2 E1 E2 E3 E4 E5 E6 E7 E8 E9 E10 H H'.
  apply (equiv_behave_alike ace ip6 psl c c' ic ic'); [|exact H | exact H'].
  apply (star_auth_equiv c c' a); assumption.
Qed.

(* ------------------------------------------------------------------------------------------ *)
(* 6. A boolean decision of [cfg_equiv], for concrete configurations                            *)
(* ------------------------------------------------------------------------------------------ *)

Definition same_membersb (l l' : list bytes) : bool :=
  forallb (fun x => mem x l') l && forallb (fun x => mem x l) l'.

Lemma same_membersb_iff l l' : same_membersb l l' = true <-> same_members l l'.
Proof.
  unfold same_membersb. rewrite andb_true_iff. split.
  - intros [H1 H2]. exact (mem_ext_incl l l' H1 H2).
  - intros H. split; apply forallb_forall; intros x Hx; apply mem_In;
      apply (same_members_In _ _ H); exact Hx.
Qed.

Definition cfg_equivb (c c' : config) : bool :=
  same_membersb (c_origins c) (c_origins c') &&
  same_membersb (method_key (c_methods c)) (method_key (c_methods c')) &&
  same_membersb (header_key (c_req_headers c)) (header_key (c_req_headers c')) &&
  same_membersb (res_header_key (c_res_headers c)) (res_header_key (c_res_headers c')) &&
  Bool.eqb (c_credentialed c) (c_credentialed c') &&
  (c_max_age c =? c_max_age c')%Z && (c_status c =? c_status c')%Z &&
  Bool.eqb (c_pna c) (c_pna c') && Bool.eqb (c_pna_nocors c) (c_pna_nocors c') &&
  Bool.eqb (c_tol_insecure c) (c_tol_insecure c') && Bool.eqb (c_tol_psl c) (c_tol_psl c').

Lemma cfg_equivb_iff c c' : cfg_equivb c c' = true <-> cfg_equiv c c'.
Proof.
  unfold cfg_equivb. rewrite !andb_true_iff, !same_membersb_iff, !Bool.eqb_true_iff, !Z.eqb_eq. split.
  - intros [[[[[[[[[[H1 H2] H3] H4] H5] H6] H7] H8] H9] H10] H11]. constructor; assumption.
  - intros [H1 H2 H3 H4 H5 H6 H7 H8 H9 H10 H11]. repeat split; assumption.
Qed.

Lemma cfg_equivb_sound c c' : cfg_equivb c c' = true -> cfg_equiv c c'.
Proof. apply cfg_equivb_iff. Qed.

Print Assumptions equiv_accepted_alike.
Print Assumptions equiv_behave_alike.
Print Assumptions star_and_authorization_commute.
