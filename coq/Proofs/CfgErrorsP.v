(* Proofs/CfgErrorsP.v -- the push iterator yields exactly the leaves, in order, and stops at once *)
Require Import Base.Bytes Model.CfgErrors.
From Coq Require Import ZifyBool.
Open Scope Z_scope.

(* induction principle for the nested type *)
Section EtreeInd.
  Variable A : Type.
  Variable P : etree A -> Prop.
  Hypothesis Hleaf : forall a, P (Leaf a).
  Hypothesis Hjoin : forall l, Forall P l -> P (Join l).
  Fixpoint etree_ind' (t : etree A) : P t :=
    match t with
    | Leaf a => Hleaf a
    | Join l => Hjoin l ((fix go (l : list (etree A)) : Forall P l :=
                            match l with
                            | [] => Forall_nil P
                            | x :: r => Forall_cons x (etree_ind' x) (go r)
                            end) l)
    end.
End EtreeInd.

(* flatten / all over the children of a join, as list functions *)
Fixpoint flatten_list {A} (ts : list (etree A)) : list A :=
  match ts with [] => [] | x :: r => flatten x ++ flatten_list r end.

Fixpoint all_list {A S} (ts : list (etree A)) (y : A -> S -> S * bool) (s : S) : S * bool :=
  match ts with
  | [] => (s, true)
  | x :: r => match all x y s with (s', true) => all_list r y s' | (s', false) => (s', false) end
  end.

Lemma flatten_join {A} (l : list (etree A)) : flatten (Join l) = flatten_list l.
Proof. induction l as [|x r IH]; simpl; [reflexivity|]. f_equal. exact IH. Qed.

Lemma all_join {A S} (l : list (etree A)) (y : A -> S -> S * bool) s : all (Join l) y s = all_list l y s.
Proof.
  revert s; induction l as [|x r IH]; intros s; simpl; [reflexivity|].
  destruct (all x y s) as [s' [|]]; [apply IH | reflexivity].
Qed.

(* running the consumer directly over a list of elements *)
Fixpoint feed {A} (l : list A) (st : list A * Z * Z) : (list A * Z * Z) * bool :=
  match l with
  | [] => (st, true)
  | a :: r => match kconsumer a st with (st', true) => feed r st' | (st', false) => (st', false) end
  end.

Lemma feed_app {A} (l1 l2 : list A) st :
  feed (l1 ++ l2) st = match feed l1 st with (st', true) => feed l2 st' | (st', false) => (st', false) end.
Proof.
  revert st; induction l1 as [|a r IH]; intros st; simpl; [reflexivity|].
  destruct (kconsumer a st) as [st' [|]]; [apply IH | reflexivity].
Qed.

(* the iterator behaves exactly like feeding the flattened leaves one by one, and makes no further call
   once the consumer has answered false *)
Lemma all_feed {A} (t : etree A) st : all t kconsumer st = feed (flatten t) st.
Proof.
  revert st; induction t as [a | l IH] using etree_ind'; intros st.
  - simpl. destruct (kconsumer a st) as [st' [|]]; reflexivity.
  - rewrite all_join, flatten_join. revert st.
    induction IH as [|x r Hx Hr IHr]; intros st; simpl; [reflexivity|].
    rewrite feed_app, Hx. destruct (feed (flatten x) st) as [st' [|]]; [apply IHr | reflexivity].
Qed.

(* what feeding gives *)
Lemma feed_never {A} (l : list A) seen k late : k < 0 -> k <> -2 ->
  feed l (seen, k, late) = ((rev l ++ seen, k, late), true).
Proof.
  revert seen; induction l as [|a r IH]; intros seen Hk Hk2; simpl; [reflexivity|].
  destruct (k =? 0) eqn:E0; [lia|]. destruct (k =? -2) eqn:E2; [lia|].
  destruct (k <? 0) eqn:El; [|lia]. rewrite IH by assumption. rewrite <- app_assoc. reflexivity.
Qed.

Lemma feed_count {A} (l : list A) seen k late : 0 <= k ->
  feed l (seen, k, late) =
    if Z.of_nat (length l) <=? k then ((rev l ++ seen, k - Z.of_nat (length l), late), true)
    else ((rev (firstn (Z.to_nat k + 1) l) ++ seen, -2, late), false).
Proof.
  revert seen k; induction l as [|a r IH]; intros seen k Hk.
  - simpl. destruct (0 <=? k) eqn:E; [|lia]. f_equal. f_equal. f_equal. lia.
  - cbn [feed kconsumer]. destruct (k =? 0) eqn:E0.
    + assert (k = 0) by lia. subst k. cbn [length]. destruct (Z.of_nat (S (length r)) <=? 0) eqn:E; [lia|].
      simpl. reflexivity.
    + destruct (k =? -2) eqn:E2; [lia|]. destruct (k <? 0) eqn:El; [lia|].
      rewrite IH by lia. cbn [length].
      destruct (Z.of_nat (length r) <=? k - 1) eqn:E; destruct (Z.of_nat (S (length r)) <=? k) eqn:E'; try lia.
      * f_equal. f_equal. f_equal. simpl. rewrite <- app_assoc. reflexivity. lia.
      * replace (Z.to_nat k + 1)%nat with (S (Z.to_nat (k - 1) + 1)) by lia.
        cbn [firstn rev]. rewrite <- app_assoc. reflexivity.
Qed.

Lemma yielded_spec {A} (t : etree A) (k : Z) : -1 <= k ->
  yielded t k = ((if k <? 0 then flatten t else firstn (Z.to_nat k + 1) (flatten t)), 0).
Proof.
  intros Hk. unfold yielded. rewrite all_feed.
  destruct (k <? 0) eqn:E.
  - rewrite feed_never by lia. rewrite app_nil_r, rev_involutive. reflexivity.
  - rewrite feed_count by lia.
    destruct (Z.of_nat (length (flatten t)) <=? k) eqn:E'.
    + rewrite app_nil_r, rev_involutive. rewrite firstn_all2 by lia. reflexivity.
    + rewrite app_nil_r, rev_involutive. reflexivity.
Qed.
