(* Proofs/HeadersP.v -- headers.Check (the bounded-window scanner) decides exactly the naive
   list reading of Spec/AcrhList.v, for every sorted set built by SortedSet.Add. *)
Require Import Base.Bytes Gen.Tables Model.Util Model.Headers Spec.AcrhList.
From Coq Require Import Sorted ZifyBool ZifyNat ZifyN.
Open Scope N_scope.

(* ------------------------------------------------------------------------------------------ *)
(* 1. Go string order on bytes is a strict total order                                         *)
(* ------------------------------------------------------------------------------------------ *)

Lemma beqb_eq : forall x y, beqb x y = true <-> x = y.
Proof.
  induction x as [|a x IH]; destruct y as [|c y]; simpl; split; intro H;
    try discriminate; try reflexivity.
  - apply andb_true_iff in H. destruct H as [H1 H2].
    apply N.eqb_eq in H1. apply IH in H2. subst. reflexivity.
  - injection H as H1 H2. subst. apply andb_true_iff. split.
    + apply N.eqb_refl.
    + apply IH. reflexivity.
Qed.

Lemma beqb_refl : forall x, beqb x x = true.
Proof. intro x. apply beqb_eq. reflexivity. Qed.

Lemma mem_In : forall x l, mem x l = true <-> In x l.
Proof.
  intros x l. induction l as [|y r IH]; simpl.
  - split; [discriminate | intros []].
  - rewrite orb_true_iff, IH, beqb_eq. split; intros [H|H]; auto.
Qed.

Lemma bcmp_refl : forall x, bcmp x x = Eq.
Proof. induction x as [|a x IH]; simpl; [reflexivity|]. rewrite N.compare_refl. exact IH. Qed.

Lemma bcmp_eq : forall x y, bcmp x y = Eq -> x = y.
Proof.
  induction x as [|a x IH]; destruct y as [|c y]; simpl; intro H; try discriminate; try reflexivity.
  destruct (N.compare_spec a c) as [E|E|E]; try discriminate.
  subst. f_equal. apply IH. exact H.
Qed.

Lemma bcmp_antisym : forall x y, bcmp y x = CompOpp (bcmp x y).
Proof.
  induction x as [|a x IH]; destruct y as [|c y]; simpl; try reflexivity.
  rewrite (N.compare_antisym a c).
  destruct (a ?= c); simpl; [apply IH | reflexivity | reflexivity].
Qed.

Lemma bcmp_trans : forall x y z, bcmp x y = Lt -> bcmp y z = Lt -> bcmp x z = Lt.
Proof.
  induction x as [|a x IH]; destruct y as [|c y]; destruct z as [|d z]; simpl;
    intros H1 H2; try discriminate; try reflexivity.
  destruct (N.compare_spec a c) as [E1|E1|E1]; try discriminate;
    destruct (N.compare_spec c d) as [E2|E2|E2]; try discriminate; subst.
  - rewrite N.compare_refl. eapply IH; eassumption.
  - apply N.compare_lt_iff in E2. rewrite E2. reflexivity.
  - apply N.compare_lt_iff in E1. rewrite E1. reflexivity.
  - assert (E : (a ?= d) = Lt) by (apply N.compare_lt_iff; lia). rewrite E. reflexivity.
Qed.

Definition blt (x y : bytes) : Prop := bltb x y = true.

Lemma blt_bcmp : forall x y, blt x y <-> bcmp x y = Lt.
Proof.
  intros x y. unfold blt, bltb. destruct (bcmp x y); split; intro H; try discriminate; reflexivity.
Qed.

Lemma blt_irrefl : forall x, ~ blt x x.
Proof. intros x H. apply blt_bcmp in H. rewrite bcmp_refl in H. discriminate. Qed.

Lemma blt_trans : forall x y z, blt x y -> blt y z -> blt x z.
Proof. intros x y z H1 H2. apply blt_bcmp in H1, H2. apply blt_bcmp. eapply bcmp_trans; eassumption. Qed.

Lemma blt_asym : forall x y, blt x y -> blt y x -> False.
Proof. intros x y H1 H2. apply (blt_irrefl x). eapply blt_trans; eassumption. Qed.

Lemma bleb_true_neq : forall x y, bleb x y = true -> x <> y -> blt x y.
Proof.
  intros x y H N. apply blt_bcmp. unfold bleb in H.
  destruct (bcmp x y) eqn:E; try discriminate; [|reflexivity].
  exfalso. apply N. apply bcmp_eq. exact E.
Qed.

Lemma bleb_false : forall x y, bleb x y = false -> blt y x.
Proof.
  intros x y H. apply blt_bcmp. rewrite bcmp_antisym. unfold bleb in H.
  destruct (bcmp x y); try discriminate. reflexivity.
Qed.

(* ------------------------------------------------------------------------------------------ *)
(* 2. The invariant of every SortedSet                                                         *)
(* ------------------------------------------------------------------------------------------ *)

Definition max_blen (l : list bytes) : N := fold_right N.max 0 (map blen l).

Definition sset_inv (s : sset) : Prop :=
  StronglySorted blt (elems s) /\ maxlen s = max_blen (elems s).

Lemma sset_inv_empty : sset_inv sset_empty.
Proof. split; [constructor | reflexivity]. Qed.

Lemma In_insert_sorted : forall e l x, In x (insert_sorted e l) -> x = e \/ In x l.
Proof.
  intros e l x. induction l as [|y r IH]; simpl.
  - intros [H|[]]. left. symmetry. exact H.
  - destruct (bleb e y); simpl.
    + intros [H|[H|H]]; auto.
    + intros [H|H]; auto. destruct (IH H) as [H'|H']; auto.
Qed.

Lemma insert_sorted_sorted : forall e l,
  StronglySorted blt l -> ~ In e l -> StronglySorted blt (insert_sorted e l).
Proof.
  intros e l HS. induction HS as [|y r HS IH HF]; intro HN; simpl.
  - constructor; constructor.
  - destruct (bleb e y) eqn:E.
    + assert (Hlt : blt e y).
      { apply bleb_true_neq; [exact E|]. intro H. apply HN. left. symmetry. exact H. }
      constructor; [constructor; assumption|].
      constructor; [exact Hlt|].
      rewrite Forall_forall in HF |- *. intros z Hz. eapply blt_trans; [exact Hlt|]. apply HF. exact Hz.
    + apply bleb_false in E.
      constructor.
      * apply IH. intro H. apply HN. right. exact H.
      * rewrite Forall_forall in HF |- *. intros z Hz.
        destruct (In_insert_sorted _ _ _ Hz) as [H|H]; [subst; exact E | apply HF; exact H].
Qed.

Lemma max_blen_insert : forall e l, max_blen (insert_sorted e l) = N.max (max_blen l) (blen e).
Proof.
  intros e l. unfold max_blen. induction l as [|y r IH]; simpl.
  - lia.
  - destruct (bleb e y); simpl; [lia|]. rewrite IH. lia.
Qed.

Lemma sset_inv_add : forall s e, sset_inv s -> sset_inv (sset_add s e).
Proof.
  intros s e [HS HM]. unfold sset_add. destruct (mem e (elems s)) eqn:E.
  - split; assumption.
  - split; simpl.
    + apply insert_sorted_sorted; [exact HS|]. intro H. apply mem_In in H. congruence.
    + rewrite max_blen_insert, HM. reflexivity.
Qed.

Lemma sset_inv_fold_from : forall l s, sset_inv s -> sset_inv (fold_left sset_add l s).
Proof.
  induction l as [|e l IH]; intros s H; simpl; [exact H|]. apply IH. apply sset_inv_add. exact H.
Qed.

Lemma sset_inv_fold : forall l, sset_inv (fold_left sset_add l sset_empty).
Proof. intro l. apply sset_inv_fold_from. apply sset_inv_empty. Qed.

Lemma sset_inv_new_set : forall l, sset_inv (new_set l).
Proof. exact sset_inv_fold. Qed.

Lemma max_blen_bound : forall l x, In x l -> blen x <= max_blen l.
Proof.
  unfold max_blen. induction l as [|y r IH]; simpl; intros x H; [destruct H|].
  destruct H as [H|H]; [subst; lia|]. specialize (IH x H). lia.
Qed.

Lemma sset_inv_maxlen : forall s x, sset_inv s -> In x (elems s) -> blen x <= maxlen s.
Proof. intros s x [_ HM] H. rewrite HM. apply max_blen_bound. exact H. Qed.

(* ------------------------------------------------------------------------------------------ *)
(* 3. TrimOWS(s, 1) computes the element name of the naive reading                             *)
(* ------------------------------------------------------------------------------------------ *)

Lemma max_ows_1 : max_ows = 1.
Proof. reflexivity. Qed.

Lemma max_empty_16 : max_empty = 16%Z.
Proof. reflexivity. Qed.

(* trimLeftOWS(s, 1) in closed form *)
Definition tl1 (s : bytes) : option bytes :=
  match s with
  | [] => Some []
  | c :: r =>
      if is_ows c then
        match r with
        | [] => Some []
        | d :: r' => if is_ows d then match r' with [] => Some [] | _ :: _ => None end else Some r
        end
      else Some s
  end.

Lemma trim_left_tl1 : forall s, trim_left s 0 1 = tl1 s.
Proof.
  intros [|c [|d [|e r]]]; simpl; try reflexivity;
    destruct (is_ows c); try reflexivity; destruct (is_ows d); reflexivity.
Qed.

Lemma trim_ows_tl1 : forall s,
  trim_ows s max_ows = match tl1 (rev s) with None => None | Some t => tl1 (rev t) end.
Proof.
  intro s. rewrite max_ows_1. unfold trim_ows, trim_right. rewrite trim_left_tl1.
  destruct (tl1 (rev s)); [apply trim_left_tl1 | reflexivity].
Qed.

Lemma app_cons_ne : forall (l : bytes) x r, l ++ x :: r <> [].
Proof. intros l x r H. symmetry in H. exact (app_cons_not_nil _ _ _ H). Qed.

Lemma tl1_0 : tl1 [] = Some [].
Proof. reflexivity. Qed.
Lemma tl1_1 : forall c, tl1 [c] = if is_ows c then Some [] else Some [c].
Proof. reflexivity. Qed.
Lemma tl1_2 : forall c d, tl1 [c; d] = if is_ows c then if is_ows d then Some [] else Some [d] else Some [c; d].
Proof. reflexivity. Qed.
Lemma tl1_3 : forall c d r, r <> [] ->
  tl1 (c :: d :: r) = if is_ows c then if is_ows d then None else Some (d :: r) else Some (c :: d :: r).
Proof. intros c d [|e r] H; [congruence | reflexivity]. Qed.

Lemma ends : forall (s : bytes),
  s = [] \/ (exists a, s = [a]) \/ exists a m z, s = a :: m ++ [z].
Proof.
  intros [|a [|c r]]; [left; reflexivity | right; left; eauto |].
  right. right. destruct (@exists_last _ (c :: r)) as [m [z E]]; [discriminate|].
  rewrite E. eauto.
Qed.

Section TrimName.
Local Arguments tl1 : simpl never.
Local Arguments is_ows : simpl never.

Local Ltac step :=
  first
  [ progress simpl
  | rewrite rev_app_distr
  | rewrite rev_involutive
  | rewrite <- app_assoc
  | rewrite tl1_0
  | rewrite tl1_1
  | rewrite tl1_2
  | rewrite tl1_3 by (apply app_cons_ne || discriminate)
  | match goal with
    | H : is_ows ?c = _ |- context [is_ows ?c] => rewrite H
    | |- context [is_ows ?c] => destruct (is_ows c) eqn:?
    end ].

Lemma trim_ows_element_name : forall s, trim_ows s max_ows = element_name s.
Proof.
  intro s. rewrite trim_ows_tl1.
  unfold element_name, strip1_right, strip1_left. change ows with is_ows.
  destruct (ends s) as [E | [[a E] | [a [m1 [z E]]]]]; subst s.
  - reflexivity.
  - repeat step; reflexivity.
  - destruct (ends m1) as [E | [[c E] | [c [m [y E]]]]]; subst m1.
    + repeat step; reflexivity.
    + repeat step; reflexivity.
    + repeat step; reflexivity.
Qed.
End TrimName.

Lemma strip1_left_len : forall e, (length e <= length (strip1_left e) + 1)%nat.
Proof. intros [|c r]; simpl; [lia|]. destruct (ows c); simpl; lia. Qed.

Lemma element_name_len : forall e nm, element_name e = Some nm -> (length e <= length nm + 2)%nat.
Proof.
  intros e nm. unfold element_name.
  assert (H : (length e <= length (strip1_right (strip1_left e)) + 2)%nat).
  { unfold strip1_right. rewrite rev_length.
    pose proof (strip1_left_len e) as H1.
    pose proof (strip1_left_len (rev (strip1_left e))) as H2. rewrite rev_length in H2. lia. }
  destruct (strip1_right (strip1_left e)) as [|c e2] eqn:E.
  - intro H0. injection H0 as <-. exact H.
  - destruct (ows c); [discriminate|].
    destruct (rev (c :: e2)) as [|d t] eqn:R.
    + apply (f_equal (@length _)) in R. rewrite rev_length in R. discriminate.
    + destruct (ows d); [discriminate|]. intro H0. injection H0 as <-. exact H.
Qed.

(* ------------------------------------------------------------------------------------------ *)
(* 4. cutAtComma and strings.Split                                                             *)
(* ------------------------------------------------------------------------------------------ *)

Lemma cut_at_comma_spec : forall n s,
  match cut_at_comma s n with
  | (bf, af, true) => s = bf ++ 44 :: af /\ ~ In 44 bf
  | (nm, af, false) => nm = s /\ af = [] /\ ~ In 44 (firstn n s)
  end.
Proof.
  induction n as [|n IH]; intros s.
  - destruct s; simpl; (split; [reflexivity|]; split; [reflexivity|]; intros []).
  - destruct s as [|c r]; simpl.
    + split; [reflexivity|]. split; [reflexivity|]. intros [].
    + destruct (c =? 44) eqn:E.
      * apply N.eqb_eq in E. subst c. split; [reflexivity | intros []].
      * apply N.eqb_neq in E. specialize (IH r).
        destruct (cut_at_comma r n) as [[bf af] [|]].
        -- destruct IH as [IH1 IH2]. split; [rewrite IH1; reflexivity|].
           intros [H|H]; [apply E; exact H | apply IH2; exact H].
        -- destruct IH as [_ [_ IH3]]. split; [reflexivity|]. split; [reflexivity|].
           intros [H|H]; [apply E; exact H | apply IH3; exact H].
Qed.

Lemma split_byte_ne : forall c s, split_byte c s <> [].
Proof.
  intros c s. destruct s as [|x r]; simpl; [discriminate|].
  destruct (x =? c); [discriminate|]. destruct (split_byte c r); discriminate.
Qed.

Lemma split_nocomma : forall c s, ~ In c s -> split_byte c s = [s].
Proof.
  intros c s. induction s as [|x r IH]; intro H; simpl; [reflexivity|].
  destruct (x =? c) eqn:E.
  - apply N.eqb_eq in E. exfalso. apply H. left. exact E.
  - rewrite IH; [reflexivity|]. intro H'. apply H. right. exact H'.
Qed.

Lemma split_app_comma : forall c p t, ~ In c p -> split_byte c (p ++ c :: t) = p :: split_byte c t.
Proof.
  intros c p t. induction p as [|x r IH]; intro H; simpl.
  - rewrite N.eqb_refl. reflexivity.
  - destruct (x =? c) eqn:E.
    + apply N.eqb_eq in E. exfalso. apply H. left. exact E.
    + rewrite IH; [reflexivity|]. intro H'. apply H. right. exact H'.
Qed.

Lemma split_app_nocomma : forall c p t, ~ In c p ->
  exists h r, split_byte c (p ++ t) = (p ++ h) :: r.
Proof.
  intros c p t. induction p as [|x p IH]; intro H; simpl.
  - destruct (split_byte c t) as [|h r] eqn:E; [exfalso; exact (split_byte_ne _ _ E)|].
    exists h, r. reflexivity.
  - destruct (x =? c) eqn:E.
    + apply N.eqb_eq in E. exfalso. apply H. left. exact E.
    + destruct IH as [h [r IH]]; [intro H'; apply H; right; exact H'|].
      rewrite IH. exists h, r. reflexivity.
Qed.

Lemma firstn_notin_long : forall (x : N) n l, ~ In x (firstn n l) -> In x l -> (n < length l)%nat.
Proof.
  intros x n l H1 H2. destruct (Nat.lt_ge_cases n (length l)) as [H|H]; [exact H|].
  rewrite firstn_all2 in H1 by exact H. contradiction.
Qed.

(* ------------------------------------------------------------------------------------------ *)
(* 5. The scanner against a fuel-free, window-free reference over the elements                 *)
(* ------------------------------------------------------------------------------------------ *)

Fixpoint ref_elems (set : sset) (es : list bytes) (pos emp : Z) : option (Z * Z) :=
  match es with
  | [] => Some (pos, emp)
  | e :: r =>
      match element_name e with
      | None => None
      | Some [] => if (max_empty <? emp + 1)%Z then None else ref_elems set r pos (emp + 1)%Z
      | Some nm =>
          let i := index_after set pos nm in
          if (i <? 0)%Z then None else ref_elems set r i emp
      end
  end.

Definition to_cres (o : option (Z * Z)) : cres :=
  match o with Some (p, e) => COk p e | None => CFail end.

Lemma check_window_eq : forall set, check_window set = (N.to_nat (maxlen set) + 3)%nat.
Proof. intro set. unfold check_window. rewrite max_ows_1. lia. Qed.

(* an element too long for the window cannot carry an allowed name *)
Lemma long_name_fails : forall set e nm pos,
  element_name e = Some nm -> (N.to_nat (maxlen set) + 3 <= length e)%nat ->
  nm <> [] /\ index_after set pos nm = (-1)%Z.
Proof.
  intros set e nm pos En Hl. apply element_name_len in En. split.
  - intro H. subst nm. simpl in En. lia.
  - unfold index_after. replace (maxlen set <? blen nm) with true; [reflexivity|].
    symmetry. apply N.ltb_lt. unfold blen. lia.
Qed.

Lemma long_head_fails : forall set e r pos emp,
  (N.to_nat (maxlen set) + 3 <= length e)%nat -> ref_elems set (e :: r) pos emp = None.
Proof.
  intros set e r pos emp Hl. cbn [ref_elems].
  destruct (element_name e) as [nm|] eqn:En; [|reflexivity].
  destruct (long_name_fails set e nm pos En Hl) as [Hne Hi].
  destruct nm as [|c nm]; [congruence|]. cbv zeta. rewrite Hi. reflexivity.
Qed.

Lemma check_line_ref : forall set fuel l pos emp,
  (length l < fuel)%nat ->
  check_line fuel set (check_window set) l pos emp
  = to_cres (ref_elems set (split_byte 44 l) pos emp).
Proof.
  intros set. induction fuel as [|f IH]; intros l pos emp Hf; [lia|].
  cbn [check_line].
  pose proof (cut_at_comma_spec (check_window set) l) as HC.
  destruct (cut_at_comma l (check_window set)) as [[name rest] found].
  rewrite trim_ows_element_name.
  destruct found.
  - destruct HC as [El Hn].
    assert (Hr : (length rest < f)%nat).
    { rewrite El, app_length in Hf. simpl in Hf. lia. }
    rewrite El, split_app_comma by exact Hn. cbn [ref_elems].
    destruct (element_name name) as [[|c nm]|]; [| |reflexivity].
    + destruct (max_empty <? emp + 1)%Z; [reflexivity|]. apply IH. exact Hr.
    + cbv zeta. destruct (index_after set pos (c :: nm) <? 0)%Z; [reflexivity|]. apply IH. exact Hr.
  - destruct HC as [-> [-> Hn]].
    destruct (in_dec N.eq_dec 44 l) as [Hin|Hnin].
    + (* a comma beyond the window: both the scanner and the reference reject *)
      pose proof (firstn_notin_long _ _ _ Hn Hin) as Hlong.
      rewrite check_window_eq in Hlong, Hn.
      replace (ref_elems set (split_byte 44 l) pos emp) with (@None (Z * Z)).
      * simpl to_cres.
        destruct (element_name l) as [nm|] eqn:En; [|reflexivity].
        destruct (long_name_fails set l nm pos En) as [Hne Hi]; [lia|].
        destruct nm as [|c nm]; [congruence|]. cbv zeta. rewrite Hi. reflexivity.
      * symmetry. rewrite <- (firstn_skipn (N.to_nat (maxlen set) + 3) l).
        destruct (split_app_nocomma 44 _ (skipn (N.to_nat (maxlen set) + 3) l) Hn) as [h [r E]].
        rewrite E. apply long_head_fails.
        rewrite app_length, firstn_length. lia.
    + rewrite split_nocomma by exact Hnin. cbn [ref_elems].
      destruct (element_name l) as [[|c nm]|]; [| |reflexivity].
      * destruct (max_empty <? emp + 1)%Z; reflexivity.
      * cbv zeta. destruct (index_after set pos (c :: nm) <? 0)%Z; reflexivity.
Qed.

Lemma ref_elems_app : forall set a c pos emp,
  ref_elems set (a ++ c) pos emp
  = match ref_elems set a pos emp with None => None | Some (p, e) => ref_elems set c p e end.
Proof.
  intros set a c. induction a as [|x a IH]; intros pos emp; [reflexivity|].
  rewrite <- app_comm_cons. cbn [ref_elems].
  destruct (element_name x) as [[|d nm]|]; [| |reflexivity].
  - destruct (max_empty <? emp + 1)%Z; [reflexivity | apply IH].
  - cbv zeta. destruct (index_after set pos (d :: nm) <? 0)%Z; [reflexivity | apply IH].
Qed.

Lemma check_lines_ref : forall set lines pos emp,
  check_lines set (check_window set) lines pos emp
  = to_cres (ref_elems set (flat_map (split_byte 44) lines) pos emp).
Proof.
  intros set lines. induction lines as [|l r IH]; intros pos emp; [reflexivity|].
  cbn [check_lines flat_map]. rewrite check_line_ref by lia. rewrite ref_elems_app.
  destruct (ref_elems set (split_byte 44 l) pos emp) as [[p e]|]; [apply IH | reflexivity].
Qed.

(* ------------------------------------------------------------------------------------------ *)
(* 6. IndexAfter on a sorted set: positions become suffixes of the element list                *)
(* ------------------------------------------------------------------------------------------ *)

(* the part of l after the first occurrence of nm *)
Fixpoint after (nm : bytes) (l : list bytes) : option (list bytes) :=
  match l with
  | [] => None
  | x :: r => if beqb nm x then Some r else after nm r
  end.

Lemma after_split : forall nm l r, after nm l = Some r -> exists pre, l = pre ++ nm :: r.
Proof.
  intros nm l. induction l as [|x l IH]; intros r H; simpl in H; [discriminate|].
  destruct (beqb nm x) eqn:E.
  - apply beqb_eq in E. injection H as <-. subst x. exists []. reflexivity.
  - destruct (IH r H) as [pre Hp]. exists (x :: pre). rewrite Hp. reflexivity.
Qed.

Lemma after_none : forall nm l, after nm l = None -> ~ In nm l.
Proof.
  intros nm l. induction l as [|x l IH]; intros H; simpl in H; [intros []|].
  destruct (beqb nm x) eqn:E; [discriminate|].
  intros [H'|H'].
  - subst x. rewrite beqb_refl in E. discriminate.
  - exact (IH H H').
Qed.

Lemma find_index_after : forall nm l k,
  match after nm l with
  | None => find_index nm l k = (-1)%Z
  | Some r => exists j : nat, find_index nm l k = (k + Z.of_nat j)%Z /\ r = skipn (S j) l
  end.
Proof.
  intros nm l. induction l as [|x l IH]; intros k; simpl; [reflexivity|].
  destruct (beqb nm x).
  - exists 0%nat. split; [lia | reflexivity].
  - specialize (IH (k + 1)%Z). destruct (after nm l) as [r|]; [|exact IH].
    destruct IH as [j [H1 H2]]. exists (S j). split; [lia | exact H2].
Qed.

Lemma In_skipn : forall (x : bytes) n l, In x (skipn n l) -> In x l.
Proof.
  intros x n l H. rewrite <- (firstn_skipn n l). apply in_or_app. right. exact H.
Qed.

Lemma skipn_skipn' : forall (c a : nat) (l : list bytes), skipn a (skipn c l) = skipn (c + a) l.
Proof.
  induction c as [|c IH]; intros a l; [reflexivity|].
  destruct l as [|x l]; simpl; [destruct a; reflexivity | apply IH].
Qed.

Definition maxlen_ok (set : sset) : Prop := forall x, In x (elems set) -> blen x <= maxlen set.

Lemma index_after_spec : forall set pos nm, maxlen_ok set -> (-1 <= pos)%Z ->
  match after nm (skipn (Z.to_nat (pos + 1)) (elems set)) with
  | None => index_after set pos nm = (-1)%Z
  | Some r => exists i, index_after set pos nm = i /\ (pos < i)%Z /\
                        r = skipn (Z.to_nat (i + 1)) (elems set)
  end.
Proof.
  intros set pos nm Hm Hp. unfold index_after.
  destruct (maxlen set <? blen nm) eqn:E.
  - destruct (after nm (skipn (Z.to_nat (pos + 1)) (elems set))) as [r|] eqn:A; [|reflexivity].
    exfalso. destruct (after_split _ _ _ A) as [pre Hs].
    assert (Hin : In nm (elems set)).
    { apply (In_skipn nm (Z.to_nat (pos + 1))). rewrite Hs. apply in_or_app. right. left. reflexivity. }
    apply Hm in Hin. apply N.ltb_lt in E. lia.
  - pose proof (find_index_after nm (skipn (Z.to_nat (pos + 1)) (elems set)) (pos + 1)%Z) as H.
    destruct (after nm (skipn (Z.to_nat (pos + 1)) (elems set))) as [r|]; [|exact H].
    destruct H as [j [H1 H2]]. exists (pos + 1 + Z.of_nat j)%Z.
    split; [exact H1|]. split; [lia|].
    rewrite H2, skipn_skipn'. f_equal. lia.
Qed.

(* the reference on names, threading the remaining suffix of the allowed list *)
Fixpoint ref2 (rem names : list bytes) (emp : Z) : bool :=
  match names with
  | [] => true
  | nm :: r =>
      match nm with
      | [] => if (max_empty <? emp + 1)%Z then false else ref2 rem r (emp + 1)%Z
      | _ :: _ => match after nm rem with None => false | Some rem' => ref2 rem' r emp end
      end
  end.

Definition is_some {A} (o : option A) : bool := match o with Some _ => true | None => false end.

Lemma ref_elems_ref2 : forall set, maxlen_ok set -> forall es pos emp, (-1 <= pos)%Z ->
  is_some (ref_elems set es pos emp)
  = match all_names es with
    | None => false
    | Some names => ref2 (skipn (Z.to_nat (pos + 1)) (elems set)) names emp
    end.
Proof.
  intros set Hm es. induction es as [|e r IH]; intros pos emp Hp; [reflexivity|].
  cbn [ref_elems all_names].
  destruct (element_name e) as [[|c nm]|]; [| |reflexivity].
  - destruct (max_empty <? emp + 1)%Z eqn:E.
    + destruct (all_names r); [cbn [ref2]; rewrite E|]; reflexivity.
    + rewrite IH by exact Hp. destruct (all_names r); [cbn [ref2]; rewrite E|]; reflexivity.
  - cbv zeta. pose proof (index_after_spec set pos (c :: nm) Hm Hp) as HI.
    destruct (after (c :: nm) (skipn (Z.to_nat (pos + 1)) (elems set))) as [rem'|] eqn:A.
    + destruct HI as [i [Hi [Hlt Hr]]]. rewrite Hi.
      replace (i <? 0)%Z with false by lia.
      rewrite IH by lia. destruct (all_names r); [cbn [ref2]; rewrite A, Hr|]; reflexivity.
    + rewrite HI. simpl. destruct (all_names r); [cbn [ref2]; rewrite A|]; reflexivity.
Qed.

(* separating the count of empty elements from the walk over the non-empty names *)
Fixpoint ref3 (rem ne : list bytes) : bool :=
  match ne with
  | [] => true
  | nm :: r => match after nm rem with None => false | Some rem' => ref3 rem' r end
  end.

Definition nonempty (x : bytes) : bool := negb (is_empty x).

Lemma ref2_split : forall names rem emp, (emp <= max_empty)%Z ->
  ref2 rem names emp
  = (emp + Z.of_nat (length (filter is_empty names)) <=? max_empty)%Z && ref3 rem (filter nonempty names).
Proof.
  induction names as [|nm r IH]; intros rem emp He.
  - simpl. symmetry. rewrite andb_true_r. apply Z.leb_le. lia.
  - destruct nm as [|c nm]; cbn [ref2 filter is_empty nonempty negb ref3].
    + destruct (Z.ltb_spec max_empty (emp + 1)) as [H|H].
      * symmetry. apply andb_false_iff. left. apply Z.leb_gt. simpl length. lia.
      * rewrite IH by exact H. f_equal. simpl length. f_equal. lia.
    + destruct (after (c :: nm) rem) as [rem'|]; [apply IH; exact He|].
      symmetry. apply andb_false_r.
Qed.

(* ------------------------------------------------------------------------------------------ *)
(* 7. Walking a strictly sorted list = membership + strictly increasing                        *)
(* ------------------------------------------------------------------------------------------ *)

Lemma SS_app_inv : forall (l1 : list bytes) x l2,
  StronglySorted blt (l1 ++ x :: l2) ->
  StronglySorted blt l2 /\ (forall z, In z l1 -> blt z x) /\ (forall z, In z l2 -> blt x z).
Proof.
  induction l1 as [|a l1 IH]; intros x l2 H; simpl in H; apply StronglySorted_inv in H; destruct H as [H1 H2].
  - split; [exact H1|]. split; [intros z []|]. rewrite Forall_forall in H2. exact H2.
  - destruct (IH _ _ H1) as [I1 [I2 I3]]. split; [exact I1|]. split; [|exact I3].
    intros z [Hz|Hz]; [|apply I2; exact Hz]. subst z.
    rewrite Forall_forall in H2. apply H2. apply in_or_app. right. left. reflexivity.
Qed.

Lemma ref3_iff : forall ne rem, StronglySorted blt rem ->
  (ref3 rem ne = true <-> (forall z, In z ne -> In z rem) /\ StronglySorted blt ne).
Proof.
  induction ne as [|nm r IH]; intros rem HS; cbn [ref3].
  - split; [intros _; split; [intros z [] | constructor] | reflexivity].
  - destruct (after nm rem) as [rem'|] eqn:A.
    + destruct (after_split _ _ _ A) as [pre E]. subst rem.
      destruct (SS_app_inv _ _ _ HS) as [HS' [Hpre Hpost]].
      rewrite (IH rem' HS'). split.
      * intros [Hin Hss]. split.
        -- intros z [Hz|Hz]; apply in_or_app; right; [left; exact Hz | right; apply Hin; exact Hz].
        -- constructor; [exact Hss|]. apply Forall_forall. intros z Hz. apply Hpost. apply Hin. exact Hz.
      * intros [Hin Hss]. apply StronglySorted_inv in Hss. destruct Hss as [Hss' HF].
        split; [|exact Hss']. intros z Hz.
        assert (Hlt : blt nm z) by (rewrite Forall_forall in HF; apply HF; exact Hz).
        assert (Hz' : In z (pre ++ nm :: rem')) by (apply Hin; right; exact Hz).
        apply in_app_or in Hz'. destruct Hz' as [H|[H|H]].
        -- exfalso. exact (blt_asym _ _ Hlt (Hpre z H)).
        -- exfalso. subst z. exact (blt_irrefl _ Hlt).
        -- exact H.
    + split; [discriminate|]. intros [Hin _]. exfalso.
      apply (after_none _ _ A). apply Hin. left. reflexivity.
Qed.

Lemma strictly_increasing_iff : forall l, strictly_increasing l = true <-> StronglySorted blt l.
Proof.
  induction l as [|x l IH].
  - split; [constructor | reflexivity].
  - destruct l as [|y r].
    + split; [intros _; constructor; constructor | reflexivity].
    + change (strictly_increasing (x :: y :: r)) with (bltb x y && strictly_increasing (y :: r)).
      rewrite andb_true_iff, IH. split.
      * intros [H1 H2]. constructor; [exact H2|]. constructor; [exact H1|].
        apply StronglySorted_inv in H2. destruct H2 as [_ H2].
        rewrite Forall_forall in H2 |- *. intros z Hz. eapply blt_trans; [exact H1 | apply H2; exact Hz].
      * intros H. apply StronglySorted_inv in H. destruct H as [H1 H2]. split; [|exact H1].
        apply Forall_inv in H2. exact H2.
Qed.

Lemma ref3_bool : forall rem ne, StronglySorted blt rem ->
  ref3 rem ne = forallb (fun x => mem x rem) ne && strictly_increasing ne.
Proof.
  intros rem ne HS. apply eq_iff_eq_true.
  rewrite (ref3_iff ne rem HS), andb_true_iff, forallb_forall, strictly_increasing_iff.
  split; intros [H1 H2]; (split; [|exact H2]); intros z Hz.
  - apply mem_In. apply H1. exact Hz.
  - apply mem_In. apply H1. exact Hz.
Qed.

(* ------------------------------------------------------------------------------------------ *)
(* 8. C14: headers.Check = the naive reading                                                   *)
(* ------------------------------------------------------------------------------------------ *)

Theorem check_spec : forall set lines, sset_inv set -> check set lines = spec_check (elems set) lines.
Proof.
  intros set lines Hinv.
  assert (Hm : maxlen_ok set) by (intros x Hx; apply sset_inv_maxlen; assumption).
  destruct Hinv as [HS _].
  unfold check. rewrite check_lines_ref.
  transitivity (is_some (ref_elems set (flat_map (split_byte 44) lines) (-1) 0)).
  { destruct (ref_elems set (flat_map (split_byte 44) lines) (-1) 0) as [[p e]|]; reflexivity. }
  rewrite (ref_elems_ref2 set Hm) by lia.
  unfold spec_check. destruct (all_names (flat_map (split_byte 44) lines)) as [names|]; [|reflexivity].
  change (skipn (Z.to_nat (-1 + 1)) (elems set)) with (elems set).
  rewrite ref2_split by (rewrite max_empty_16; lia).
  rewrite (ref3_bool _ _ HS). fold nonempty. rewrite <- andb_assoc. f_equal.
  rewrite max_empty_16. unfold max_empty_elements.
  apply eq_iff_eq_true. rewrite Z.leb_le, Nat.leb_le. lia.
Qed.

(* ------------------------------------------------------------------------------------------ *)
(* 9. Corollaries                                                                              *)
(* ------------------------------------------------------------------------------------------ *)

(* soundness: every non-empty element name of an approved list is an allowed name *)
Lemma check_sound : forall set lines, sset_inv set -> check set lines = true ->
  exists names, all_names (flat_map (split_byte 44) lines) = Some names /\
    (length (filter is_empty names) <= 16)%nat /\
    (forall n, In n names -> n <> [] -> mem n (elems set) = true) /\
    strictly_increasing (filter (fun x => negb (is_empty x)) names) = true.
Proof.
  intros set lines Hinv H. rewrite (check_spec set lines Hinv) in H. unfold spec_check in H.
  destruct (all_names (flat_map (split_byte 44) lines)) as [names|]; [|discriminate].
  exists names. split; [reflexivity|].
  apply andb_true_iff in H. destruct H as [H H3]. apply andb_true_iff in H. destruct H as [H1 H2].
  split; [apply Nat.leb_le in H1; exact H1|]. split; [|exact H3].
  intros n Hn Hne. rewrite forallb_forall in H2. apply H2. apply filter_In. split; [exact Hn|].
  destruct n; [congruence | reflexivity].
Qed.

Lemma check_sound_names : forall set lines, sset_inv set -> check set lines = true ->
  forall names, all_names (flat_map (split_byte 44) lines) = Some names ->
  forall n, In n names -> n <> [] -> mem n (elems set) = true.
Proof.
  intros set lines Hinv H names Hn.
  destruct (check_sound set lines Hinv H) as [names' [E [_ [Hmem _]]]].
  rewrite Hn in E. injection E as <-. exact Hmem.
Qed.

(* completeness for Fetch-compliant browsers: sorted, unique, comma-joined allowed names *)
Inductive subseq {A : Type} : list A -> list A -> Prop :=
  | subseq_nil : subseq [] []
  | subseq_skip : forall l1 l2 x, subseq l1 l2 -> subseq l1 (x :: l2)
  | subseq_take : forall l1 l2 x, subseq l1 l2 -> subseq (x :: l1) (x :: l2).

Lemma subseq_In : forall (A : Type) (l1 l2 : list A), subseq l1 l2 -> forall x, In x l1 -> In x l2.
Proof.
  intros A l1 l2 H. induction H as [|l1 l2 y H IH|l1 l2 y H IH]; intros x Hx.
  - exact Hx.
  - right. apply IH. exact Hx.
  - destruct Hx as [Hx|Hx]; [left; exact Hx | right; apply IH; exact Hx].
Qed.

Lemma subseq_sorted : forall l1 l2, subseq l1 l2 -> StronglySorted blt l2 -> StronglySorted blt l1.
Proof.
  intros l1 l2 H. induction H as [|l1 l2 y H IH|l1 l2 y H IH]; intro HS.
  - exact HS.
  - apply StronglySorted_inv in HS. apply IH. apply HS.
  - apply StronglySorted_inv in HS. destruct HS as [HS HF]. constructor; [apply IH; exact HS|].
    rewrite Forall_forall in HF |- *. intros z Hz. apply HF. eapply subseq_In; eassumption.
Qed.

(* a name as a browser serialises it: non-empty, no comma, no OWS at either end *)
Definition clean_name (n : bytes) : Prop :=
  n <> [] /\ ~ In 44 n /\ is_ows (hd 0 n) = false /\ is_ows (last n 0) = false.

Lemma last_rev_hd : forall (n : bytes) d t, rev n = d :: t -> last n 0 = d.
Proof.
  intros n d t H. rewrite <- (rev_involutive n), H. simpl. apply last_last.
Qed.

Lemma element_name_clean : forall n, clean_name n -> element_name n = Some n.
Proof.
  intros n [Hne [_ [Hh Hl]]]. destruct n as [|c r]; [congruence|]. simpl hd in Hh.
  unfold element_name, strip1_right.
  assert (E1 : strip1_left (c :: r) = c :: r).
  { unfold strip1_left. change ows with is_ows. rewrite Hh. reflexivity. }
  rewrite E1.
  destruct (rev (c :: r)) as [|d t] eqn:R.
  { apply (f_equal (@length _)) in R. rewrite rev_length in R. discriminate. }
  rewrite (last_rev_hd _ _ _ R) in Hl.
  assert (E2 : strip1_left (d :: t) = d :: t).
  { unfold strip1_left. change ows with is_ows. rewrite Hl. reflexivity. }
  rewrite E2, <- R, rev_involutive. change ows with is_ows. rewrite Hh, R, Hl. reflexivity.
Qed.

Lemma all_names_clean : forall l, Forall clean_name l -> all_names l = Some l.
Proof.
  intros l H. induction H as [|n l Hn _ IH]; [reflexivity|].
  cbn [all_names]. rewrite (element_name_clean n Hn), IH. reflexivity.
Qed.

Lemma split_join : forall l, l <> [] -> Forall clean_name l -> split_byte 44 (join [44] l) = l.
Proof.
  intros l Hne H. induction H as [|n l Hn Hl IH]; [congruence|].
  destruct Hn as [_ [Hc _]].
  destruct l as [|m l].
  - simpl. apply split_nocomma. exact Hc.
  - change (join [44] (n :: m :: l)) with (n ++ 44 :: join [44] (m :: l)).
    rewrite split_app_comma by exact Hc. rewrite IH by discriminate. reflexivity.
Qed.

Lemma filter_clean_empty : forall l, Forall clean_name l -> filter is_empty l = [].
Proof.
  intros l H. induction H as [|n l [Hn _] _ IH]; [reflexivity|].
  destruct n; [congruence|]. simpl. exact IH.
Qed.

Lemma filter_clean_nonempty : forall l, Forall clean_name l -> filter (fun x => negb (is_empty x)) l = l.
Proof.
  intros l H. induction H as [|n l [Hn _] _ IH]; [reflexivity|].
  destruct n; [congruence|]. simpl. rewrite IH. reflexivity.
Qed.

Lemma check_complete : forall set sub, sset_inv set -> subseq sub (elems set) ->
  Forall clean_name sub -> check set [join [44] sub] = true.
Proof.
  intros set sub Hinv Hsub Hcl. rewrite (check_spec _ _ Hinv). unfold spec_check.
  cbn [flat_map]. rewrite app_nil_r.
  destruct sub as [|n sub]; [reflexivity|].
  rewrite split_join by (discriminate || exact Hcl).
  rewrite (all_names_clean _ Hcl), (filter_clean_empty _ Hcl), (filter_clean_nonempty _ Hcl).
  destruct Hinv as [HS _].
  apply andb_true_iff. split.
  - apply andb_true_iff. split; [reflexivity|].
    apply forallb_forall. intros z Hz. apply mem_In. eapply subseq_In; eassumption.
  - apply strictly_increasing_iff. eapply subseq_sorted; eassumption.
Qed.

Lemma subseq_Forall : forall (A : Type) (P : A -> Prop) l1 l2, subseq l1 l2 -> Forall P l2 -> Forall P l1.
Proof.
  intros A P l1 l2 Hs H. rewrite Forall_forall in H |- *. intros x Hx. apply H. eapply subseq_In; eassumption.
Qed.

Lemma check_complete_set : forall set sub, sset_inv set -> Forall clean_name (elems set) ->
  subseq sub (elems set) -> check set [join [44] sub] = true.
Proof.
  intros set sub Hinv Hcl Hsub. apply check_complete; [exact Hinv | exact Hsub |].
  eapply subseq_Forall; eassumption.
Qed.

(* every set built by NewSet satisfies the invariant, so the equivalence holds unconditionally there *)
Lemma check_spec_new_set : forall l lines,
  check (new_set l) lines = spec_check (elems (new_set l)) lines.
Proof. intros l lines. apply check_spec. apply sset_inv_new_set. Qed.
