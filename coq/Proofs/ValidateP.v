(* Proofs/ValidateP.v -- newInternalConfig against the documented prohibitions (C04, C05):
   the error tree returned by the validation, flattened, is exactly the list [violations] of
   Spec/ConfigDoc.v (same errors, same order, nothing missing, nothing spurious, no early stop),
   a configuration is accepted iff that list is empty, and [violations c = []] iff [doc_ok c]. *)
Require Import Base.Bytes Gen.Tables.
Require Import Model.Util Model.Headers Model.Methods Model.Origins Model.Netip Model.Pattern Model.Radix
  Model.CfgErrors Model.Config Model.Mw.
Require Import Spec.Wire Spec.ConfigDoc.
Require Import Proofs.CfgErrorsP Proofs.HeadersP.
From Coq Require Import ZifyBool ZifyNat ZifyN.
Open Scope N_scope.
Import Coq.Strings.String.StringSyntax.
Arguments b _%string_scope.

(* ------------------------------------------------------------------------------------------ *)
(* 1. Set.Contains on a set built by NewSet is list membership                                 *)
(* ------------------------------------------------------------------------------------------ *)

Lemma after_some_In : forall nm l r, after nm l = Some r -> In nm l.
Proof.
  intros nm l r H. destruct (after_split _ _ _ H) as [pre Hp]. rewrite Hp.
  apply in_or_app. right. left. reflexivity.
Qed.

Lemma set_contains_mem : forall s x, sset_inv s -> set_contains s x = mem x (elems s).
Proof.
  intros s x Hinv. unfold set_contains.
  assert (Hm : maxlen_ok s) by (intros y Hy; apply sset_inv_maxlen; assumption).
  pose proof (index_after_spec s (-1)%Z x Hm ltac:(lia)) as H.
  change (Z.to_nat (-1 + 1)) with 0%nat in H. cbn [skipn] in H.
  destruct (after x (elems s)) as [r|] eqn:A.
  - destruct H as [i [Hi [Hlt _]]]. rewrite Hi.
    apply after_some_In in A. apply mem_In in A. rewrite A. apply Z.leb_le. lia.
  - rewrite H. apply after_none in A.
    destruct (mem x (elems s)) eqn:M; [|reflexivity].
    apply mem_In in M. contradiction.
Qed.

Lemma new_set_contains : forall l x, set_contains (new_set l) x = mem x (elems (new_set l)).
Proof. intros l x. apply set_contains_mem. apply sset_inv_new_set. Qed.

(* two concrete tables with the same members answer [mem] alike *)
Lemma mem_ext_incl : forall l1 l2,
  forallb (fun x => mem x l2) l1 = true -> forallb (fun x => mem x l1) l2 = true ->
  forall x, mem x l1 = mem x l2.
Proof.
  intros l1 l2 H1 H2 x. rewrite forallb_forall in H1, H2.
  apply eq_true_iff_eq. rewrite !mem_In. split; intro H.
  - apply mem_In. apply H1. exact H.
  - apply mem_In. apply H2. exact H.
Qed.

Ltac table_eq := apply mem_ext_incl; vm_compute; reflexivity.

(* the model's tables (Gen/Tables.v, through NewSet) have the members of the spec's typed-in tables *)
Lemma forbidden_methods_tbl : forall x, set_contains forbidden_methods_set x = mem x fetch_forbidden_methods.
Proof. intro x. unfold forbidden_methods_set. rewrite new_set_contains. revert x. table_eq. Qed.

Lemma safelisted_methods_tbl : forall x,
  set_contains safelisted_methods_set x = mem x [b "GET"; b "HEAD"; b "POST"].
Proof. intro x. unfold safelisted_methods_set. rewrite new_set_contains. revert x. table_eq. Qed.

Lemma normalized_methods_tbl : forall x,
  set_contains normalized_methods_set x = mem x [b "DELETE"; b "GET"; b "HEAD"; b "OPTIONS"; b "POST"; b "PUT"].
Proof. intro x. unfold normalized_methods_set. rewrite new_set_contains. revert x. table_eq. Qed.

Lemma forbidden_req_tbl : forall x, set_contains forbidden_req_set x = mem x fetch_forbidden_request.
Proof. intro x. unfold forbidden_req_set. rewrite new_set_contains. revert x. table_eq. Qed.

Lemma prohibited_req_tbl : forall x, is_prohibited_req x = mem x doc_prohibited_request.
Proof. intro x. unfold is_prohibited_req, prohibited_req_set. rewrite new_set_contains. revert x. table_eq. Qed.

Lemma forbidden_res_tbl : forall x, is_forbidden_res x = mem x fetch_forbidden_response.
Proof. intro x. unfold is_forbidden_res, forbidden_res_set. rewrite new_set_contains. revert x. table_eq. Qed.

Lemma prohibited_res_tbl : forall x, is_prohibited_res x = mem x doc_prohibited_response.
Proof. intro x. unfold is_prohibited_res, prohibited_res_set. rewrite new_set_contains. revert x. table_eq. Qed.

Lemma forbidden_req_name : forall x, is_forbidden_req x = forbidden_request_name x.
Proof.
  intro x. unfold is_forbidden_req, forbidden_request_name. rewrite forbidden_req_tbl. reflexivity.
Qed.

(* RFC 9110 tokens: the model's and the spec's definitions coincide *)
Lemma valid_name_token : forall s, is_valid_name s = is_token s.
Proof. reflexivity. Qed.

(* ------------------------------------------------------------------------------------------ *)
(* 2. Methods: normalisation, safelist and the forbidden test                                  *)
(* ------------------------------------------------------------------------------------------ *)

Lemma upper_byte_idem : forall c, upper_byte (upper_byte c) = upper_byte c.
Proof.
  intro c. unfold upper_byte.
  destruct ((97 <=? c) && (c <=? 122)) eqn:E; [|rewrite E; reflexivity].
  destruct ((97 <=? c - 32) && (c - 32 <=? 122)) eqn:E'; [lia | reflexivity].
Qed.

Lemma upper_idem : forall s, upper (upper s) = upper s.
Proof.
  intro s. unfold upper. rewrite map_map. apply map_ext. exact upper_byte_idem.
Qed.

Lemma normalized_not_forbidden : forall x,
  mem x [b "DELETE"; b "GET"; b "HEAD"; b "OPTIONS"; b "POST"; b "PUT"] = true ->
  mem x fetch_forbidden_methods = false.
Proof.
  intros x H. apply mem_In in H. cbn [In] in H.
  repeat (destruct H as [H|H]; [subst x; vm_compute; reflexivity|]). destruct H.
Qed.

Lemma safelisted_not_forbidden : forall x,
  mem x [b "GET"; b "HEAD"; b "POST"] = true -> mem (upper x) fetch_forbidden_methods = false.
Proof.
  intros x H. apply mem_In in H. cbn [In] in H.
  repeat (destruct H as [H|H]; [subst x; vm_compute; reflexivity|]). destruct H.
Qed.

Lemma method_normalize_cases : forall m,
  (method_normalize m = m) \/
  (method_normalize m = upper m /\ mem (upper m) fetch_forbidden_methods = false).
Proof.
  intro m. unfold method_normalize. rewrite normalized_methods_tbl.
  destruct (mem (upper m) _) eqn:E; [right | left; reflexivity].
  split; [reflexivity | apply normalized_not_forbidden; exact E].
Qed.

Lemma method_is_forbidden_mem : forall m, method_is_forbidden m = mem (upper m) fetch_forbidden_methods.
Proof. intro m. unfold method_is_forbidden. apply forbidden_methods_tbl. Qed.

(* the forbidden test is insensitive to Fetch normalisation *)
Lemma forbidden_normalize : forall m,
  method_is_forbidden (method_normalize m) = mem (upper m) fetch_forbidden_methods.
Proof.
  intro m. rewrite method_is_forbidden_mem.
  destruct (method_normalize_cases m) as [H|[H _]]; rewrite H; [reflexivity|].
  rewrite upper_idem. reflexivity.
Qed.

(* Fetch normalisation never changes a forbidden method: the error carries the name as supplied *)
Lemma forbidden_as_supplied : forall m,
  method_is_forbidden (method_normalize m) = true -> method_normalize m = m.
Proof.
  intros m H. rewrite forbidden_normalize in H.
  destruct (method_normalize_cases m) as [E|[_ E]]; [exact E | congruence].
Qed.

Lemma forbidden_as_supplied_valid : forall m,
  method_is_valid m = true -> method_is_forbidden (method_normalize m) = true -> method_normalize m = m.
Proof. intros m _. apply forbidden_as_supplied. Qed.

Lemma safelisted_normalize_not_forbidden : forall m,
  method_is_safelisted (method_normalize m) = true -> mem (upper m) fetch_forbidden_methods = false.
Proof.
  intros m H. unfold method_is_safelisted in H. rewrite safelisted_methods_tbl in H.
  destruct (method_normalize_cases m) as [E|[_ E]]; [|exact E].
  rewrite E in H. apply safelisted_not_forbidden. exact H.
Qed.

Lemma method_item_violations : forall m, fst (method_item m) = method_violations m.
Proof.
  intro m. unfold method_item, method_violations. change star with v_star.
  destruct (beqb m v_star); [reflexivity|].
  unfold method_is_valid. rewrite valid_name_token.
  destruct (is_token m); cbn [negb]; [|reflexivity].
  destruct (method_is_safelisted (method_normalize m)) eqn:S.
  - rewrite (safelisted_normalize_not_forbidden _ S). reflexivity.
  - destruct (method_is_forbidden (method_normalize m)) eqn:F.
    + rewrite (forbidden_as_supplied _ F). rewrite forbidden_normalize in F. rewrite F. reflexivity.
    + rewrite forbidden_normalize in F. rewrite F. reflexivity.
Qed.

(* ------------------------------------------------------------------------------------------ *)
(* 3. Per-occurrence errors of the other list fields                                           *)
(* ------------------------------------------------------------------------------------------ *)

Lemma res_item_violations : forall c n,
  fst (res_item (c_credentialed c) n) = res_header_violations c n.
Proof.
  intros c n. unfold res_item, res_header_violations. change star with v_star.
  destruct (beqb n v_star); [reflexivity|].
  rewrite valid_name_token. destruct (is_token n); cbn [negb]; [|reflexivity].
  rewrite forbidden_res_tbl, prohibited_res_tbl. change (b "*") with v_star.
  destruct (mem (lower n) fetch_forbidden_response); [reflexivity|].
  destruct (mem (lower n) doc_prohibited_response); [reflexivity|].
  destruct (is_safelisted_res (lower n)); reflexivity.
Qed.

(* one step of the request-header loop appends exactly the violations of that occurrence,
   whatever the flags are *)
Lemma rh_step_errs : forall cred st n,
  rh_errs (rh_step cred st n) = rh_errs st ++ req_header_violations n.
Proof.
  intros cred st n. unfold rh_step, req_header_violations. change star with v_star.
  destruct (beqb n v_star); [cbn; rewrite app_nil_r; reflexivity|].
  rewrite valid_name_token. destruct (is_token n); cbn [negb]; [|reflexivity].
  change headers_Authorization with (b "authorization").
  destruct (beqb (lower n) (b "authorization")).
  - destruct (rh_auth st); cbn; rewrite app_nil_r; reflexivity.
  - rewrite forbidden_req_name, prohibited_req_tbl.
    destruct (forbidden_request_name (lower n)); [reflexivity|].
    destruct (mem (lower n) doc_prohibited_request); [reflexivity|].
    cbn. rewrite app_nil_r. reflexivity.
Qed.

Lemma rh_fold_errs : forall cred names st,
  rh_errs (fold_left (rh_step cred) names st) = rh_errs st ++ flat_map req_header_violations names.
Proof.
  intros cred names. induction names as [|n r IH]; intro st; cbn [fold_left flat_map].
  - rewrite app_nil_r. reflexivity.
  - rewrite IH, rh_step_errs, app_assoc. reflexivity.
Qed.

Lemma insecure_eq : forall p, is_deemed_insecure p = insecure p.
Proof. intro p. unfold is_deemed_insecure, insecure. destruct (pkind_of p); reflexivity. Qed.

Lemma etld_eq : forall psl p, host_is_etld psl p = base_is_public_suffix psl p.
Proof. reflexivity. Qed.

Lemma origin_item_violations : forall ace ip6 psl c raw,
  fst (origin_item ace ip6 psl (c_credentialed c) (any_pna c) (c_tol_insecure c) (c_tol_psl c) raw)
  = origin_violations ace ip6 psl c raw.
Proof.
  intros ace ip6 psl c raw. unfold origin_item, origin_violations. change star with v_star.
  destruct (beqb raw v_star); [reflexivity|].
  destruct (parse_pattern ace ip6 raw) as [p|r]; [|reflexivity].
  cbn [fst]. rewrite insecure_eq, etld_eq. f_equal.
  unfold is_wild. destruct (pkind_of p); cbn [pkind_eqb andb];
    try reflexivity.
  destruct (c_tol_psl c), (base_is_public_suffix psl p); reflexivity.
Qed.

(* ------------------------------------------------------------------------------------------ *)
(* 4. errors.Join of leaves, and of the per-field results                                      *)
(* ------------------------------------------------------------------------------------------ *)

Lemma flatten_join_leaves : forall (A : Type) (errs : list A), flatten (Join (map Leaf errs)) = errs.
Proof.
  intros A errs. rewrite flatten_join. induction errs as [|e r IH]; cbn; [reflexivity|].
  f_equal. exact IH.
Qed.

Lemma flat_map_map : forall (A B C : Type) (f : A -> B) (g : B -> list C) l,
  flat_map g (map f l) = flat_map (fun x => g (f x)) l.
Proof. intros A B C f g l. induction l as [|x r IH]; cbn; [reflexivity|]. rewrite IH. reflexivity. Qed.

Lemma flat_map_ext' : forall (A B : Type) (f g : A -> list B) l,
  (forall x, f x = g x) -> flat_map f l = flat_map g l.
Proof. intros A B f g l H. induction l as [|x r IH]; cbn; [reflexivity|]. rewrite H, IH. reflexivity. Qed.

(* the leaves of an optional error *)
Definition oflat {A} (o : option (etree A)) : list A :=
  match o with Some t => flatten t | None => [] end.

(* a non-nil error has at least one leaf *)
Definition good {A} (o : option (etree A)) : Prop :=
  match o with Some t => flatten t <> [] | None => True end.

Lemma join_opt_spec : forall (A : Type) (l : list (option (etree A))),
  Forall good l ->
  match join_opt l with
  | None => flat_map oflat l = []
  | Some e => flatten e = flat_map oflat l /\ flat_map oflat l <> []
  end.
Proof.
  intros A l HG. unfold join_opt.
  set (sel := fun o : option (etree A) => match o with Some t => [t] | None => [] end).
  assert (HF : flatten_list (flat_map sel l) = flat_map oflat l).
  { clear HG. induction l as [|o r IH]; cbn; [reflexivity|].
    destruct o as [t|]; cbn; rewrite IH; reflexivity. }
  assert (HN : flat_map sel l <> [] -> flat_map oflat l <> []).
  { clear HF. induction HG as [|o r Ho _ IH]; cbn; [intro H; exfalso; apply H; reflexivity|].
    destruct o as [t|]; cbn.
    - intros _ H. apply app_eq_nil in H. destruct H as [H _]. exact (Ho H).
    - exact IH. }
  destruct (flat_map sel l) as [|t ts] eqn:E.
  - rewrite <- HF. reflexivity.
  - split; [rewrite flatten_join; exact HF | apply HN; discriminate].
Qed.

(* a field whose error is the join of a non-empty list of leaves *)
Lemma leaves_result : forall (A : Type) (errs : list cerr) (r : A + etree cerr),
  match errs with [] => exists a, r = inl a | _ => r = inr (Join (map Leaf errs)) end ->
  oflat (err_of r) = errs /\ good (err_of r).
Proof.
  intros A errs r H. destruct errs as [|e es].
  - destruct H as [a ->]. cbn. split; [reflexivity | exact I].
  - subst r. cbn [err_of oflat good]. rewrite flatten_join_leaves. split; [reflexivity | discriminate].
Qed.

Lemma status_field : forall s,
  oflat (err_of (validate_status s)) =
    (if (s =? 0)%Z || ((200 <=? s)%Z && (s <=? 299)%Z) then [] else [EStatus s 204 200 299]) /\
  good (err_of (validate_status s)).
Proof.
  intro s. unfold validate_status.
  change st_lower with 200%Z. change st_upper with 299%Z. change cors_defaultPreflightStatus with 204%Z.
  destruct (s =? 0)%Z; [cbn; split; [reflexivity | exact I]|].
  cbn [orb]. destruct ((200 <=? s)%Z && (s <=? 299)%Z); cbn; split;
    solve [reflexivity | exact I | discriminate].
Qed.

Lemma max_age_field : forall d,
  oflat (err_of (validate_max_age d)) =
    (if (d <? -1)%Z || (86400 <? d)%Z then [EMaxAge d 5 86400 (-1)] else []) /\
  good (err_of (validate_max_age d)).
Proof.
  intro d. unfold validate_max_age.
  change ma_disable with (-1)%Z. change ma_upper with 86400%Z. change ma_default with 5%Z.
  destruct ((d <? -1)%Z || (86400 <? d)%Z); [cbn; split; [reflexivity | discriminate]|].
  destruct (d =? -1)%Z; [cbn; split; [reflexivity | exact I]|].
  destruct (d =? 0)%Z; cbn; split; solve [reflexivity | exact I].
Qed.

Lemma pna_field : forall (p q : bool),
  oflat (if p && q then Some (Leaf EIncompatPNA) else None) = (if p && q then [EIncompatPNA] else []) /\
  good (if p && q then Some (Leaf EIncompatPNA) else None).
Proof. intros p q. destruct (p && q); cbn; split; solve [reflexivity | exact I | discriminate]. Qed.

Lemma origins_field : forall ace ip6 psl c,
  let r := validate_origins ace ip6 psl (c_credentialed c) (any_pna c) (c_tol_insecure c) (c_tol_psl c)
             (c_origins c) in
  oflat (err_of r) =
    match c_origins c with
    | [] => [EOrigin [] RMissing]
    | l => flat_map (origin_violations ace ip6 psl c) l
    end /\ good (err_of r).
Proof.
  intros ace ip6 psl c. cbv zeta. unfold validate_origins.
  destruct (c_origins c) as [|o os]; [cbn; split; [reflexivity | discriminate]|].
  cbv iota. generalize (o :: os). intro l.
  rewrite flat_map_map.
  rewrite (flat_map_ext' _ _ _ _ l (origin_item_violations ace ip6 psl c)).
  apply leaves_result.
  destruct (flat_map _ _); [|reflexivity].
  destruct (existsb _ _); eexists; reflexivity.
Qed.

Lemma methods_field : forall names,
  oflat (err_of (validate_methods names)) = flat_map method_violations names /\
  good (err_of (validate_methods names)).
Proof.
  intro names. unfold validate_methods.
  destruct names as [|n ns]; [cbn; split; [reflexivity | exact I]|].
  cbv iota. generalize (n :: ns). intro names.
  rewrite flat_map_map.
  rewrite (flat_map_ext' _ _ _ _ names method_item_violations).
  apply leaves_result.
  destruct (flat_map _ _); [|reflexivity].
  destruct (existsb _ _); eexists; reflexivity.
Qed.

Lemma res_headers_field : forall c,
  oflat (err_of (validate_res_headers (c_credentialed c) (c_res_headers c))) =
    flat_map (res_header_violations c) (c_res_headers c) /\
  good (err_of (validate_res_headers (c_credentialed c) (c_res_headers c))).
Proof.
  intro c. unfold validate_res_headers.
  destruct (c_res_headers c) as [|n ns]; [cbn; split; [reflexivity | exact I]|].
  cbv iota. generalize (n :: ns). intro names.
  rewrite flat_map_map.
  rewrite (flat_map_ext' _ _ _ _ names (res_item_violations c)).
  apply leaves_result.
  destruct (flat_map _ _); [|reflexivity].
  destruct (existsb _ _); eexists; reflexivity.
Qed.

Lemma req_headers_field : forall cred names,
  oflat (err_of (validate_req_headers cred names)) = flat_map req_header_violations names /\
  good (err_of (validate_req_headers cred names)).
Proof.
  intros cred names. unfold validate_req_headers.
  destruct names as [|n ns]; [cbn; split; [reflexivity | exact I]|].
  cbv iota zeta. generalize (n :: ns). intro names.
  pose proof (rh_fold_errs cred names rh_init) as H. cbn [rh_init rh_errs app] in H.
  rewrite <- H.
  apply leaves_result.
  destruct (rh_errs _); [|reflexivity].
  destruct (negb _ && _); eexists; reflexivity.
Qed.

(* ------------------------------------------------------------------------------------------ *)
(* 5. C05: the flattened error tree is the list of violations                                  *)
(* ------------------------------------------------------------------------------------------ *)

Lemma validate_flatten : forall ace ip6 psl c,
  match new_internal_config ace ip6 psl c with
  | inl _ => violations ace ip6 psl c = []
  | inr e => flatten e = violations ace ip6 psl c /\ violations ace ip6 psl c <> []
  end.
Proof.
  intros ace ip6 psl c. unfold new_internal_config. cbv zeta.
  change (c_pna c || c_pna_nocors c) with (any_pna c).
  destruct (status_field (c_status c)) as [S1 S2].
  destruct (pna_field (c_pna c) (c_pna_nocors c)) as [P1 P2].
  destruct (origins_field ace ip6 psl c) as [O1 O2]. cbv zeta in O1, O2.
  destruct (methods_field (c_methods c)) as [M1 M2].
  destruct (req_headers_field (c_credentialed c) (c_req_headers c)) as [H1 H2].
  destruct (max_age_field (c_max_age c)) as [A1 A2].
  destruct (res_headers_field c) as [R1 R2].
  match goal with |- context [join_opt ?l] => set (fields := l) end.
  assert (HV : flat_map oflat fields = violations ace ip6 psl c).
  { unfold fields, violations. cbn [flat_map].
    rewrite S1, P1, O1, M1, H1, A1, R1, app_nil_r. reflexivity. }
  assert (HG : Forall good fields).
  { unfold fields. repeat (constructor; [assumption|]). constructor. }
  pose proof (join_opt_spec _ fields HG) as J. rewrite HV in J.
  destruct (join_opt fields) as [e|]; [exact J|].
  destruct (val_of (false, sset_empty) (validate_methods (c_methods c))) as [anym mset].
  destruct (val_of (false, false, sset_empty, None) (validate_req_headers (c_credentialed c) (c_req_headers c)))
    as [[[ast auth] hset] acah].
  exact J.
Qed.

Lemma valid_accepted : forall ace ip6 psl c,
  violations ace ip6 psl c = [] -> exists ic, new_internal_config ace ip6 psl c = inl ic.
Proof.
  intros ace ip6 psl c H. pose proof (validate_flatten ace ip6 psl c) as V.
  destruct (new_internal_config ace ip6 psl c) as [ic|e]; [exists ic; reflexivity|].
  destruct V as [_ V]. contradiction.
Qed.

Lemma all_violations_reported : forall ace ip6 psl c e,
  new_internal_config ace ip6 psl c = inr e ->
  flatten e = violations ace ip6 psl c /\ violations ace ip6 psl c <> [].
Proof.
  intros ace ip6 psl c e H. pose proof (validate_flatten ace ip6 psl c) as V. rewrite H in V. exact V.
Qed.

Lemma accepted_no_violation : forall ace ip6 psl c ic,
  new_internal_config ace ip6 psl c = inl ic -> violations ace ip6 psl c = [].
Proof.
  intros ace ip6 psl c ic H. pose proof (validate_flatten ace ip6 psl c) as V. rewrite H in V. exact V.
Qed.

(* ------------------------------------------------------------------------------------------ *)
(* 6. C04: doc_ok is the absence of violations                                                 *)
(* ------------------------------------------------------------------------------------------ *)

Lemma forallb_flat_map_nil : forall (A B : Type) (ok : A -> bool) (viol : A -> list B) l,
  (forall x, ok x = true <-> viol x = []) ->
  (forallb ok l = true <-> flat_map viol l = []).
Proof.
  intros A B ok viol l H. induction l as [|x r IH]; cbn; [split; reflexivity|].
  rewrite andb_true_iff, H, IH. split.
  - intros [-> ->]. reflexivity.
  - intro E. apply app_eq_nil in E. exact E.
Qed.

Lemma origin_ok_iff : forall ace ip6 psl c raw,
  origin_ok ace ip6 psl c raw = true <-> origin_violations ace ip6 psl c raw = [].
Proof.
  intros ace ip6 psl c raw. unfold origin_ok, origin_violations.
  destruct (beqb raw v_star).
  - destruct (c_credentialed c), (any_pna c); cbn; split; solve [reflexivity | discriminate].
  - destruct (parse_pattern ace ip6 raw) as [p|r]; [|split; discriminate].
    destruct (insecure p), (c_credentialed c), (any_pna c), (c_tol_insecure c),
      (is_wild p), (base_is_public_suffix psl p), (c_tol_psl c); cbn;
      split; solve [reflexivity | discriminate].
Qed.

Lemma method_ok_iff : forall m, method_ok m = true <-> method_violations m = [].
Proof.
  intro m. unfold method_ok, method_violations.
  destruct (beqb m v_star); [split; reflexivity|].
  destruct (is_token m); [|split; discriminate].
  destruct (mem (upper m) fetch_forbidden_methods); cbn; split; solve [reflexivity | discriminate].
Qed.

Lemma req_header_ok_iff : forall n, req_header_ok n = true <-> req_header_violations n = [].
Proof.
  intro n. unfold req_header_ok, req_header_violations.
  destruct (beqb n v_star); [split; reflexivity|].
  destruct (is_token n); [|split; discriminate].
  destruct (beqb (lower n) (b "authorization")); [split; reflexivity|].
  destruct (forbidden_request_name (lower n)); [split; discriminate|].
  destruct (mem (lower n) doc_prohibited_request); cbn; split; solve [reflexivity | discriminate].
Qed.

Lemma res_header_ok_iff : forall c n, res_header_ok c n = true <-> res_header_violations c n = [].
Proof.
  intros c n. unfold res_header_ok, res_header_violations.
  destruct (beqb n v_star).
  - destruct (c_credentialed c); cbn; split; solve [reflexivity | discriminate].
  - destruct (is_token n); [|split; discriminate].
    destruct (mem (lower n) fetch_forbidden_response); [split; discriminate|].
    destruct (mem (lower n) doc_prohibited_response); cbn; split; solve [reflexivity | discriminate].
Qed.

Lemma doc_ok_iff_no_violation : forall ace ip6 psl c,
  doc_ok ace ip6 psl c = true <-> violations ace ip6 psl c = [].
Proof.
  intros ace ip6 psl c. unfold doc_ok, violations.
  set (st := ((c_status c =? 0)%Z || ((200 <=? c_status c)%Z && (c_status c <=? 299)%Z))).
  assert (HA : ((c_max_age c <? -1)%Z || (86400 <? c_max_age c)%Z) =
               negb ((-1 <=? c_max_age c)%Z && (c_max_age c <=? 86400)%Z)) by lia.
  rewrite HA. clear HA.
  set (ma := ((-1 <=? c_max_age c)%Z && (c_max_age c <=? 86400)%Z)).
  rewrite !andb_true_iff.
  rewrite (forallb_flat_map_nil _ _ _ _ (c_origins c) (origin_ok_iff ace ip6 psl c)).
  rewrite (forallb_flat_map_nil _ _ _ _ (c_methods c) method_ok_iff).
  rewrite (forallb_flat_map_nil _ _ _ _ (c_req_headers c) req_header_ok_iff).
  rewrite (forallb_flat_map_nil _ _ _ _ (c_res_headers c) (res_header_ok_iff c)).
  split.
  - intros [[[[[[[N O] M] H] R] A] S] P].
    rewrite S, A, M, H, R. rewrite negb_true_iff in P. rewrite P.
    destruct (c_origins c); [discriminate N|]. rewrite O. reflexivity.
  - intro E.
    apply app_eq_nil in E. destruct E as [S E].
    apply app_eq_nil in E. destruct E as [P E].
    apply app_eq_nil in E. destruct E as [O E].
    apply app_eq_nil in E. destruct E as [M E].
    apply app_eq_nil in E. destruct E as [H E].
    apply app_eq_nil in E. destruct E as [A R].
    destruct st; [|discriminate S]. destruct ma; [|discriminate A].
    destruct (c_pna c && c_pna_nocors c); [discriminate P|].
    destruct (c_origins c); [discriminate O|].
    repeat split; assumption.
Qed.

Lemma accepted_doc_ok : forall ace ip6 psl c ic,
  new_internal_config ace ip6 psl c = inl ic -> doc_ok ace ip6 psl c = true.
Proof.
  intros ace ip6 psl c ic H. apply doc_ok_iff_no_violation. exact (accepted_no_violation _ _ _ _ _ H).
Qed.

Lemma rejected_error_nil_mw : forall ace ip6 psl c e,
  new_internal_config ace ip6 psl c = inr e ->
  flatten e <> [] /\ mw_new ace ip6 psl c = (None, Some e).
Proof.
  intros ace ip6 psl c e H. split.
  - destruct (all_violations_reported _ _ _ _ _ H) as [E N]. rewrite E. exact N.
  - unfold mw_new. rewrite H. reflexivity.
Qed.

(* a rejected Reconfigure leaves the middleware state unchanged and returns the same errors *)
Lemma rejected_reconfigure_keeps_state : forall ace ip6 psl st c e,
  new_internal_config ace ip6 psl c = inr e ->
  step ace ip6 psl st (OReconfigure (Some c)) = (st, Some e).
Proof. intros ace ip6 psl st c e H. cbn [step]. rewrite H. reflexivity. Qed.

(* ------------------------------------------------------------------------------------------ *)
(* 7. C05: every message of package cfgerrors starts with "cors: "                             *)
(* ------------------------------------------------------------------------------------------ *)

(* The generated [_lits] lists hold every string literal of the Error methods, including the
   comparison literals "missing", "*", "credentialed", "pna", "psl" (at most 12 bytes), which are
   not messages; the shortest message ("cors: unknown issue") has 19 bytes. A literal is taken
   to be a message iff it is longer than 12 bytes. *)
Definition is_message (s : bytes) : bool := (12 <? length s)%nat.

Definition cfgerrors_messages : list bytes :=
  [cfgerrors_IncompatibleOriginPatternError_Error_tmpl;
   cfgerrors_MaxAgeOutOfBoundsError_Error_tmpl;
   cfgerrors_PreflightSuccessStatusOutOfBoundsError_Error_tmpl;
   cfgerrors_UnacceptableHeaderNameError_Error_tmpl;
   cfgerrors_UnacceptableMethodError_Error_tmpl;
   cfgerrors_UnacceptableOriginPatternError_Error_tmpl] ++
  filter is_message
    (cfgerrors_IncompatibleOriginPatternError_Error_lits ++
     cfgerrors_IncompatiblePrivateNetworkAccessModesError_Error_lits ++
     cfgerrors_IncompatibleWildcardResponseHeaderNameError_Error_lits ++
     cfgerrors_MaxAgeOutOfBoundsError_Error_lits ++
     cfgerrors_PreflightSuccessStatusOutOfBoundsError_Error_lits ++
     cfgerrors_UnacceptableHeaderNameError_Error_lits ++
     cfgerrors_UnacceptableMethodError_Error_lits ++
     cfgerrors_UnacceptableOriginPatternError_Error_lits).

(* the literals that are filtered out are exactly the comparison keywords *)
Lemma non_messages :
  filter (fun s => negb (is_message s))
    (cfgerrors_IncompatibleOriginPatternError_Error_lits ++
     cfgerrors_IncompatiblePrivateNetworkAccessModesError_Error_lits ++
     cfgerrors_IncompatibleWildcardResponseHeaderNameError_Error_lits ++
     cfgerrors_MaxAgeOutOfBoundsError_Error_lits ++
     cfgerrors_PreflightSuccessStatusOutOfBoundsError_Error_lits ++
     cfgerrors_UnacceptableHeaderNameError_Error_lits ++
     cfgerrors_UnacceptableMethodError_Error_lits ++
     cfgerrors_UnacceptableOriginPatternError_Error_lits)
  = [b "*"; b "credentialed"; b "*"; b "pna"; b "credentialed"; b "pna"; b "psl"; b "missing"].
Proof. vm_compute. reflexivity. Qed.

Lemma message_prefix :
  length cfgerrors_messages = 20%nat /\
  forallb (has_prefix (b "cors: ")) cfgerrors_messages = true.
Proof. vm_compute. split; reflexivity. Qed.
