(* Proofs/CfgSrcXferP.v -- the configuration-level theorems restated for [go_newInternalConfig] / [go_newConfig],
   the functions that tools/gencfg generates from config.go on every run: each one is the corresponding theorem
   about the hand-written [new_internal_config] / [new_config], transported along [go_newInternalConfig_eq] and
   [go_newConfig_eq] (Proofs/CfgSrcP.v). *)
Require Import Base.Bytes Gen.Tables.
Require Import Model.Util Model.Headers Model.Methods Model.Origins Model.Netip Model.Pattern Model.Radix
  Model.CfgErrors Model.Config Model.CfgRt Gen.CfgSrc Model.Serve Model.Mw.
Require Import Spec.Origins Spec.Wire Spec.ConfigDoc Spec.Equiv.
Require Import Proofs.RadixP Proofs.ServeP Proofs.ValidateP Proofs.DispatchP Proofs.EquivP Proofs.RoundTripParseP
  Proofs.RoundTripMainP Proofs.Compose2P Proofs.CfgSrcP.

Lemma go_accepted_doc_ok : forall ace ip6 psl c ic,
  go_newInternalConfig ace ip6 psl c = inl ic -> doc_ok ace ip6 psl c = true.
Proof. intros ace ip6 psl c ic. rewrite go_newInternalConfig_eq. apply accepted_doc_ok. Qed.

Lemma go_validate_flatten : forall ace ip6 psl c,
  match go_newInternalConfig ace ip6 psl c with
  | inl _ => violations ace ip6 psl c = []
  | inr e => flatten e = violations ace ip6 psl c /\ violations ace ip6 psl c <> []
  end.
Proof. intros. rewrite go_newInternalConfig_eq. apply validate_flatten. Qed.

Lemma go_valid_accepted : forall ace ip6 psl c,
  violations ace ip6 psl c = [] -> exists ic, go_newInternalConfig ace ip6 psl c = inl ic.
Proof. intros ace ip6 psl c H. destruct (valid_accepted ace ip6 psl c H) as [ic Hic]. exists ic. rewrite go_newInternalConfig_eq. exact Hic. Qed.

Lemma go_step_rejected : forall ace ip6 psl st c e,
  go_newInternalConfig ace ip6 psl c = inr e ->
  step ace ip6 psl st (OReconfigure (Some c)) = (st, Some e).
Proof. intros ace ip6 psl st c e. rewrite go_newInternalConfig_eq. apply step_rejected. Qed.

Lemma go_config_is_accepted : forall ace ip6 psl c ic, ip6_sane ip6 ->
  go_newInternalConfig ace ip6 psl c = inl ic ->
  exists ic1, go_newInternalConfig ace ip6 psl (go_newConfig ic) = inl ic1.
Proof.
  intros ace ip6 psl c ic Hs. rewrite go_newInternalConfig_eq, go_newConfig_eq. intros H.
  destruct (config_is_accepted ace ip6 psl c ic Hs H) as [ic1 H1]. exists ic1. rewrite go_newInternalConfig_eq. exact H1.
Qed.

Lemma go_same_responses : forall ace ip6 psl c ic ic1, ip6_sane ip6 ->
  go_newInternalConfig ace ip6 psl c = inl ic ->
  go_newInternalConfig ace ip6 psl (go_newConfig ic) = inl ic1 ->
  forall dbg r pre, serve (Some ic1) dbg r pre = serve (Some ic) dbg r pre.
Proof.
  intros ace ip6 psl c ic ic1 Hs. rewrite !go_newInternalConfig_eq, go_newConfig_eq. apply same_responses. exact Hs.
Qed.

Lemma go_equiv_accepted_alike : forall ace ip6 psl c c', cfg_equiv c c' ->
  ((exists ic, go_newInternalConfig ace ip6 psl c = inl ic) <->
   (exists ic', go_newInternalConfig ace ip6 psl c' = inl ic')).
Proof. intros ace ip6 psl c c' H. rewrite !go_newInternalConfig_eq. apply equiv_accepted_alike. exact H. Qed.

Lemma go_equiv_behave_alike : forall ace ip6 psl c c' ic ic', cfg_equiv c c' ->
  go_newInternalConfig ace ip6 psl c = inl ic -> go_newInternalConfig ace ip6 psl c' = inl ic' ->
  forall dbg r pre, serve (Some ic) dbg r pre = serve (Some ic') dbg r pre.
Proof. intros ace ip6 psl c c' ic ic' H. rewrite !go_newInternalConfig_eq. apply equiv_behave_alike. exact H. Qed.

Lemma go_c01_middleware : forall ace ip6 psl c ic dbg r pre v o,
  go_newInternalConfig ace ip6 psl c = inl ic -> c_pna_nocors c = false -> cors_free pre ->
  beqb (r_method r) method_options = false ->
  first (r_hdrs r) headers_Origin = Some v -> parse v = Some o ->
  (hget (o_hdrs (serve (Some ic) dbg r pre)) headers_ACAO <> None <->
   (lists_star (c_origins c) = true \/ allowed_by (cfg_patterns ace ip6 c) o = true)).
Proof. intros ace ip6 psl c ic dbg r pre v o. rewrite go_newInternalConfig_eq. apply c01_middleware. Qed.
