(* Proofs/RadixP.v -- correctness of the path-compressed radix tree of Model/Radix.v (C01).
   Main results:
     contains_insert : on a well-formed tree, [contains] after [insert] is [contains] before, or
                       the inserted (scheme, port, host pattern) matches the looked-up tuple;
     wf_insert       : [insert] preserves well-formedness;
     tree_contains_build : a tree built by folding [tree_insert] over a pattern list answers
                       exactly [Spec.Origins.allowed_by]. *)
Require Import Base.Bytes Gen.Tables Model.Origins Model.Pattern Model.Radix Spec.Origins.
From Coq Require Import ZifyBool ZifyNat ZifyN.
Open Scope N_scope.

(* ------------------------------------------------------------------------------------------ *)
(* bytes                                                                                       *)

Lemma beqb_refl x : beqb x x = true.
Proof. induction x as [|a x IH]; simpl; [reflexivity|]. rewrite N.eqb_refl. exact IH. Qed.

Lemma beqb_eq x y : beqb x y = true -> x = y.
Proof.
  revert y; induction x as [|a x IH]; intros [|c y] H; simpl in H; try discriminate; [reflexivity|].
  apply andb_true_iff in H. destruct H as [H1 H2]. apply N.eqb_eq in H1. subst c. f_equal. apply IH, H2.
Qed.

Lemma beqb_true_iff x y : beqb x y = true <-> x = y.
Proof. split; [apply beqb_eq | intros ->; apply beqb_refl]. Qed.

Lemma beqb_sym x y : beqb x y = beqb y x.
Proof.
  apply eq_true_iff_eq. rewrite !beqb_true_iff. split; congruence.
Qed.

Lemma beqb_rev x y : beqb (rev x) (rev y) = beqb x y.
Proof.
  apply eq_true_iff_eq. rewrite !beqb_true_iff. split; [|congruence].
  intros H. rewrite <- (rev_involutive x), <- (rev_involutive y). congruence.
Qed.

Definition nilb (r : bytes) : bool := match r with [] => true | _ :: _ => false end.

(* what a host pattern (reversed: s) says about a reversed host h, by entry class *)
Definition hostm (w : bool) (s h : bytes) : bool :=
  match cut_prefix s h with
  | Some r => if w then negb (nilb r) else nilb r
  | None => false
  end.

Lemma cut_prefix_app a c h :
  cut_prefix (a ++ c) h = match cut_prefix a h with Some h' => cut_prefix c h' | None => None end.
Proof.
  revert h; induction a as [|x a IH]; intros h; simpl; [reflexivity|].
  destruct h as [|y h]; [reflexivity|]. destruct (x =? y); [apply IH | reflexivity].
Qed.

Lemma hostm_app w a c h :
  hostm w (a ++ c) h = match cut_prefix a h with Some h' => hostm w c h' | None => false end.
Proof. unfold hostm. rewrite cut_prefix_app. destruct (cut_prefix a h); reflexivity. Qed.

Lemma hostm_true s h : hostm true s h = has_prefix s h && (length s <? length h)%nat.
Proof.
  unfold hostm. revert h; induction s as [|x s IH]; intros [|y h]; simpl; try reflexivity.
  destruct (x =? y); simpl; [|reflexivity]. rewrite IH. reflexivity.
Qed.

Lemma hostm_false s h : hostm false s h = beqb s h.
Proof.
  unfold hostm. revert h; induction s as [|x s IH]; intros [|y h]; simpl; try reflexivity.
  destruct (x =? y); simpl; [apply IH | reflexivity].
Qed.

(* ------------------------------------------------------------------------------------------ *)
(* port lists                                                                                  *)

Lemma memZ_insert x y l : memZ x (insert_sortedZ y l) = (x =? y)%Z || memZ x l.
Proof.
  induction l as [|z l IH]; simpl; [reflexivity|].
  destruct (y <=? z)%Z; simpl; [reflexivity|]. rewrite IH.
  destruct (x =? y)%Z, (x =? z)%Z; reflexivity.
Qed.

Lemma memZ_filter (f : Z -> bool) x l : memZ x (filter f l) = f x && memZ x l.
Proof.
  induction l as [|z l IH]; simpl; [rewrite andb_false_r; reflexivity|].
  destruct (f z) eqn:Ef; simpl; rewrite IH.
  - destruct (x =? z)%Z eqn:E; simpl; [|reflexivity].
    apply Z.eqb_eq in E. subst z. rewrite Ef. reflexivity.
  - destruct (x =? z)%Z eqn:E; simpl; [|reflexivity].
    apply Z.eqb_eq in E. subst z. rewrite Ef. reflexivity.
Qed.

Lemma memZ_delete_same_sign x l v :
  memZ x (delete_same_sign l v) = (if (v <? 0)%Z then (0 <=? x)%Z else (x <? 0)%Z) && memZ x l.
Proof. unfold delete_same_sign. destruct (v <? 0)%Z; rewrite memZ_filter; reflexivity. Qed.

(* ------------------------------------------------------------------------------------------ *)
(* entries                                                                                     *)

Lemma off_eq : origins_portOffset = 65537%Z. Proof. reflexivity. Qed.
Lemma wild_eq : origins_wildcardPort = 65536%Z. Proof. reflexivity. Qed.

Definition port_ok (p q : Z) : bool := (p =? 65536)%Z || (p =? q)%Z.

(* the only invariant the entry lists need: no stored value lies below the shifted range, so the
   doubly shifted membership test of node.add (radix.go:185) can never succeed by accident *)
Definition ents_ok (e : ents_t) : Prop :=
  forall sch ps v, ents_find sch e = Some ps -> memZ v ps = true -> (-65537 <= v)%Z.

Lemma ents_ok_nil : ents_ok []. Proof. intros sch ps v H; discriminate. Qed.

Lemma ents_find_put sch ps e sch' :
  ents_find sch' (ents_put sch ps e) = if beqb sch sch' then Some ps else ents_find sch' e.
Proof.
  induction e as [|[s q] r IH]; simpl.
  - rewrite (beqb_sym sch' sch). reflexivity.
  - destruct (beqb sch s) eqn:E1.
    + apply beqb_eq in E1. subst s. simpl. rewrite (beqb_sym sch' sch).
      destruct (beqb sch sch'); reflexivity.
    + destruct (bltb sch s); simpl.
      * rewrite (beqb_sym sch' sch). reflexivity.
      * rewrite IH. destruct (beqb sch' s) eqn:E2; [|reflexivity].
        apply beqb_eq in E2. subst s. rewrite E1. reflexivity.
Qed.

Lemma shift_cases w w' p q : (0 <= p <= 65536)%Z -> (0 <= q <= 65536)%Z ->
  (shift w' q =? shift w p)%Z = Bool.eqb w w' && (p =? q)%Z.
Proof. intros Hp Hq. unfold shift. rewrite off_eq. destruct w, w'; simpl; lia. Qed.

Lemma ents_contains_add e sch p w sch' q w' :
  ents_ok e -> (0 <= p <= 65536)%Z -> (0 <= q <= 65536)%Z ->
  ents_contains (ents_add e sch p w) sch' q w' =
  ents_contains e sch' q w' || (beqb sch sch' && Bool.eqb w w' && port_ok p q).
Proof.
  intros Hok Hp Hq. unfold ents_add.
  destruct (ents_contains e sch (shift w p) w) eqn:Ec.
  - (* already present: nothing stored; the new entry is subsumed *)
    destruct (beqb sch sch') eqn:Es; [|rewrite orb_false_r; reflexivity].
    apply beqb_eq in Es. subst sch'.
    destruct (Bool.eqb w w') eqn:Ew; [|rewrite orb_false_r; reflexivity].
    apply eqb_prop in Ew. subst w'.
    destruct (port_ok p q) eqn:Epq; [|rewrite orb_false_r; reflexivity].
    simpl. rewrite orb_true_r.
    unfold ents_contains in *. destruct (ents_find sch e) as [ps|] eqn:Ef; [|discriminate].
    unfold port_ok in Epq. unfold shift in *. rewrite off_eq, wild_eq in *.
    destruct w.
    + destruct (memZ (p - 65537 - 65537) ps) eqn:E1.
      * apply (Hok _ _ _ Ef) in E1. lia.
      * change (false || memZ (65536 - 65537) ps) with (memZ (65536 - 65537) ps) in Ec.
        rewrite Ec. apply orb_true_r.
    + destruct (p =? 65536)%Z eqn:E1.
      * assert (p = 65536%Z) by lia. subst p. rewrite orb_diag in Ec. rewrite Ec. apply orb_true_r.
      * assert (p = q) by lia. subst q. exact Ec.
  - clear Ec. unfold ents_contains.
    destruct (ents_find sch e) as [ps|] eqn:Ef; rewrite ents_find_put.
    + destruct (beqb sch sch') eqn:Es; [|rewrite orb_false_r; reflexivity].
      apply beqb_eq in Es. subst sch'. rewrite Ef. rewrite andb_true_l.
      rewrite !memZ_insert.
      assert (Hw : (0 <= origins_wildcardPort <= 65536)%Z) by (rewrite wild_eq; lia).
      rewrite (shift_cases w w' p q Hp Hq), (shift_cases w w' p _ Hp Hw).
      rewrite (shift_cases w w _ p Hw Hp). rewrite eqb_reflx, andb_true_l.
      unfold port_ok. rewrite wild_eq. rewrite (Z.eqb_sym 65536 p).
      destruct (p =? 65536)%Z eqn:E1.
      * rewrite !memZ_delete_same_sign.
        destruct (Bool.eqb w w') eqn:Ew; simpl.
        { rewrite !orb_true_r. reflexivity. }
        { assert (p = 65536%Z) by lia. subst p.
          destruct (memZ (shift w' q) ps), (memZ (shift w' 65536) ps); simpl;
            unfold shift; rewrite off_eq; destruct w, w'; simpl in *; try discriminate; lia. }
      * destruct (Bool.eqb w w'), (p =? q)%Z, (memZ (shift w' q) ps), (memZ (shift w' 65536) ps); reflexivity.
    + destruct (beqb sch sch') eqn:Es; [|rewrite orb_false_r; reflexivity].
      apply beqb_eq in Es. subst sch'. rewrite Ef. simpl.
      assert (Hw : (0 <= origins_wildcardPort <= 65536)%Z) by (rewrite wild_eq; lia).
      rewrite (shift_cases w w' p q Hp Hq), (shift_cases w w' p _ Hp Hw).
      unfold port_ok. rewrite wild_eq.
      destruct (Bool.eqb w w'), (p =? q)%Z, (p =? 65536)%Z; reflexivity.
Qed.

Lemma ents_ok_add e sch p w : ents_ok e -> (0 <= p <= 65536)%Z -> ents_ok (ents_add e sch p w).
Proof.
  intros Hok Hp. unfold ents_add.
  destruct (ents_contains e sch (shift w p) w); [exact Hok|].
  assert (Hs : (-65537 <= shift w p)%Z) by (unfold shift; rewrite off_eq; destruct w; lia).
  destruct (ents_find sch e) as [ps|] eqn:Ef; intros sch' ps' v; rewrite ents_find_put;
    (destruct (beqb sch sch'); [|apply Hok]); intros H Hm; inversion H; subst ps'; clear H.
  - rewrite memZ_insert in Hm. apply orb_true_iff in Hm. destruct Hm as [Hm|Hm]; [lia|].
    destruct (shift w p =? shift w origins_wildcardPort)%Z.
    + rewrite memZ_delete_same_sign in Hm. apply andb_true_iff in Hm. apply (Hok _ _ _ Ef), Hm.
    + apply (Hok _ _ _ Ef), Hm.
  - simpl in Hm. lia.
Qed.

(* ------------------------------------------------------------------------------------------ *)
(* nodes: induction principle and first-order views of the two nested loops                   *)

Section NodeInd.
  Variable P : node -> Prop.
  Hypothesis Hnode : forall suf kids ents, Forall (fun kv => P (snd kv)) kids -> P (Node suf kids ents).
  Fixpoint node_ind' (n : node) : P n :=
    match n with
    | Node suf kids ents =>
        Hnode suf kids ents
          ((fix go (ks : list (N * node)) : Forall (fun kv => P (snd kv)) ks :=
              match ks with
              | [] => Forall_nil _
              | (l, ch) :: r => Forall_cons (l, ch) (node_ind' ch) (go r)
              end) kids)
    end.
End NodeInd.

(* the child reached by the first byte c *)
Fixpoint find_kid (c : N) (ks : list (N * node)) : option node :=
  match ks with
  | [] => None
  | (l, ch) :: r => if l =? c then Some ch else find_kid c r
  end.

(* descending into a child: its whole suffix must be a prefix of what remains *)
Definition contains_child (ch : node) (h sch : bytes) (q : Z) : bool :=
  match ch with
  | Node csuf _ _ =>
      match cut_prefix csuf h with
      | Some h' => contains ch h' sch q
      | None => false
      end
  end.

Lemma contains_eq suf kids ents h sch q :
  contains (Node suf kids ents) h sch q =
  match h with
  | [] => ents_contains ents sch q false
  | c :: _ =>
      if ents_contains ents sch q true then true
      else match find_kid c kids with
           | Some ch => contains_child ch h sch q
           | None => false
           end
  end.
Proof.
  destruct h as [|c h']; [reflexivity|].
  cbn [contains]. destruct (ents_contains ents sch q true); [reflexivity|].
  induction kids as [|[l ch] r IH]; [reflexivity|].
  cbn [find_kid]. destruct (l =? c); [|exact IH].
  destruct ch; reflexivity.
Qed.

(* contains never looks at the suffix stored in the node it is called on *)
Lemma contains_rsuf a a' kids ents h sch q :
  contains (Node a kids ents) h sch q = contains (Node a' kids ents) h sch q.
Proof. rewrite !contains_eq. reflexivity. Qed.

(* sorted insertion / replacement among the children, abstracted over what becomes of the
   child with label c (None: there is none) *)
Fixpoint insert_kids (f : option node -> node) (c : N) (ks : list (N * node)) : list (N * node) :=
  match ks with
  | [] => [(c, f None)]
  | (l, ch) :: rest =>
      if c <? l then (c, f None) :: ks
      else if c =? l then (l, f (Some ch)) :: rest
      else (l, ch) :: insert_kids f c rest
  end.

Definition ins_child (sch : bytes) (p : Z) (w : bool) (s : bytes) (och : option node) : node :=
  match och with
  | None => Node s [] (ents_add [] sch p w)
  | Some ch =>
      match ch with
      | Node csuf ckids cents =>
          match common_prefix s csuf with
          | (ps, pc, com) =>
              match pc with
              | [] => insert ch ps sch p w
              | l1 :: _ =>
                  let gc1 := Node pc ckids cents in
                  match ps with
                  | [] => Node com [(l1, gc1)] (ents_add [] sch p w)
                  | l2 :: _ => Node com (upsert l2 (Node ps [] (ents_add [] sch p w)) [(l1, gc1)]) []
                  end
              end
          end
      end
  end.

Lemma insert_eq suf kids ents s sch p w :
  insert (Node suf kids ents) s sch p w =
  match s with
  | [] => Node suf kids (ents_add ents sch p w)
  | c :: _ =>
      if ents_contains ents sch p true then Node suf kids ents
      else Node suf (insert_kids (ins_child sch p w s) c kids) ents
  end.
Proof.
  destruct s as [|c s']; [reflexivity|].
  cbn [insert]. destruct (ents_contains ents sch p true); [reflexivity|].
  f_equal.
  induction kids as [|[l ch] r IH]; [reflexivity|].
  cbn [insert_kids]. destruct (c <? l); [reflexivity|].
  destruct (c =? l).
  - destruct ch as [csuf ckids cents]. unfold ins_child.
    destruct (common_prefix (c :: s') csuf) as [[ps pc] com].
    destruct pc as [|l1 pc']; [reflexivity|]. destruct ps as [|l2 ps']; reflexivity.
  - f_equal. exact IH.
Qed.

Lemma insert_rsuf n s sch p w : match insert n s sch p w, n with Node a _ _, Node a' _ _ => a = a' end.
Proof.
  destruct n as [suf kids ents]. rewrite insert_eq.
  destruct s; [reflexivity|]. destruct (ents_contains ents sch p true); reflexivity.
Qed.

(* ------------------------------------------------------------------------------------------ *)
(* children lists                                                                              *)

Definition labels_gt (c : N) (ks : list (N * node)) : Prop := Forall (fun kv => c < fst kv) ks.

Fixpoint lab_sorted (ks : list (N * node)) : Prop :=
  match ks with
  | [] => True
  | (l, _) :: r => labels_gt l r /\ lab_sorted r
  end.

Lemma find_kid_gt c l ks : labels_gt l ks -> c <= l -> find_kid c ks = None.
Proof.
  intros H Hc. induction H as [|[l' ch] r Hl _ IH]; [reflexivity|].
  simpl in *. destruct (l' =? c) eqn:E; [lia | exact IH].
Qed.

Lemma labels_gt_trans c l ks : labels_gt l ks -> c <= l -> labels_gt c ks.
Proof. intros H Hc. eapply Forall_impl; [|exact H]. simpl. intros a Ha. lia. Qed.

Lemma find_insert_kids f c ks c' : lab_sorted ks ->
  find_kid c' (insert_kids f c ks) = if c' =? c then Some (f (find_kid c ks)) else find_kid c' ks.
Proof.
  induction ks as [|[l ch] r IH]; intros Hs.
  - simpl. rewrite (N.eqb_sym c c'). reflexivity.
  - destruct Hs as [Hgt Hs]. specialize (IH Hs). cbn [insert_kids].
    destruct (c <? l) eqn:E1.
    + assert (Hn : find_kid c ((l, ch) :: r) = None).
      { cbn [find_kid]. destruct (l =? c) eqn:E; [lia|]. apply (find_kid_gt c l r Hgt). lia. }
      rewrite Hn. cbn [find_kid]. rewrite (N.eqb_sym c c'). reflexivity.
    + destruct (c =? l) eqn:E2.
      * assert (c = l) by lia. subst l. cbn [find_kid]. rewrite N.eqb_refl.
        rewrite (N.eqb_sym c c'). destruct (c' =? c); reflexivity.
      * cbn [find_kid]. rewrite IH. rewrite (N.eqb_sym l c), E2.
        destruct (l =? c') eqn:E3; [|reflexivity].
        destruct (c' =? c) eqn:E4; [lia | reflexivity].
Qed.

Lemma labels_gt_insert_kids f c l ks : labels_gt l ks -> l < c -> labels_gt l (insert_kids f c ks).
Proof.
  intros H Hc. induction H as [|[l' ch] r Hl Hr IH]; simpl.
  - constructor; [exact Hc | constructor].
  - destruct (c <? l'); [constructor; [exact Hc | constructor; assumption]|].
    destruct (c =? l'); constructor; assumption.
Qed.

Lemma lab_sorted_insert_kids f c ks : lab_sorted ks -> lab_sorted (insert_kids f c ks).
Proof.
  induction ks as [|[l ch] r IH]; intros Hs.
  - simpl. split; [constructor | exact I].
  - destruct Hs as [Hgt Hs]. cbn [insert_kids].
    destruct (c <? l) eqn:E1.
    + split; [|split; assumption]. constructor; [simpl; lia|]. apply (labels_gt_trans c l r Hgt). lia.
    + destruct (c =? l) eqn:E2.
      * split; assumption.
      * split; [|apply IH, Hs]. apply labels_gt_insert_kids; [exact Hgt | lia].
Qed.

Lemma Forall_insert_kids (R : node -> Prop) f c ks :
  R (f None) -> Forall (fun kv => R (snd kv) /\ R (f (Some (snd kv)))) ks ->
  Forall (fun kv => R (snd kv)) (insert_kids f c ks).
Proof.
  intros H0 H. induction H as [|[l ch] r [H1 H2] Hr IH]; simpl.
  - constructor; [exact H0 | constructor].
  - assert (Hr' : Forall (fun kv => R (snd kv)) r).
    { eapply Forall_impl; [|exact Hr]. intros a Ha. apply Ha. }
    destruct (c <? l); [constructor; [exact H0 | constructor; assumption]|].
    destruct (c =? l); constructor; assumption.
Qed.

Lemma find_kid_In c ks ch : find_kid c ks = Some ch -> In (c, ch) ks.
Proof.
  induction ks as [|[l ch'] r IH]; simpl; [discriminate|].
  destruct (l =? c) eqn:E; [|right; apply IH; assumption].
  intros H. inversion H. left. f_equal. lia.
Qed.

(* ------------------------------------------------------------------------------------------ *)
(* common_prefix                                                                               *)

Lemma common_prefix_spec a c :
  match common_prefix a c with
  | (ra, rc, com) =>
      a = com ++ ra /\ c = com ++ rc /\
      match ra, rc with x :: _, y :: _ => x <> y | _, _ => True end
  end.
Proof.
  revert c; induction a as [|x a IH]; intros c.
  - simpl. repeat split.
  - destruct c as [|y c].
    + simpl. repeat split.
    + cbn [common_prefix]. destruct (x =? y) eqn:E.
      * specialize (IH c). destruct (common_prefix a c) as [[ra rc] com].
        destruct IH as (H1 & H2 & H3). assert (x = y) by lia. subst. simpl. repeat split. exact H3.
      * simpl. repeat split. lia.
Qed.

(* ------------------------------------------------------------------------------------------ *)
(* well-formed trees                                                                           *)

Inductive wf : node -> Prop :=
| wf_Node suf kids ents :
    ents_ok ents -> lab_sorted kids -> Forall (fun kv => wf (snd kv)) kids -> wf (Node suf kids ents).

Lemma wf_inv suf kids ents : wf (Node suf kids ents) ->
  ents_ok ents /\ lab_sorted kids /\ Forall (fun kv => wf (snd kv)) kids.
Proof. intros H. inversion H. auto. Qed.

Lemma wf_empty : wf empty_tree.
Proof. constructor; [apply ents_ok_nil | exact I | constructor]. Qed.

Lemma wf_leaf s sch p w : (0 <= p <= 65536)%Z -> wf (Node s [] (ents_add [] sch p w)).
Proof. intros Hp. constructor; [apply ents_ok_add; [apply ents_ok_nil | exact Hp] | exact I | constructor]. Qed.

Lemma lab_sorted_upsert2 l2 x l1 y : lab_sorted (upsert l2 x [(l1, y)]).
Proof.
  simpl. destruct (l2 =? l1) eqn:E1; [simpl; split; [constructor | exact I]|].
  destruct (l2 <? l1) eqn:E2; simpl.
  - split; [constructor; [simpl; lia | constructor] | split; [constructor | exact I]].
  - split; [constructor; [simpl; lia | constructor] | split; [constructor | exact I]].
Qed.

Lemma Forall_upsert2 (R : node -> Prop) l2 x l1 y : R x -> R y ->
  Forall (fun kv => R (snd kv)) (upsert l2 x [(l1, y)]).
Proof.
  intros Hx Hy. simpl. destruct (l2 =? l1); [repeat constructor; assumption|].
  destruct (l2 <? l1); repeat constructor; assumption.
Qed.

Lemma wf_insert sch p w : (0 <= p <= 65536)%Z -> forall n, wf n -> forall s, wf (insert n s sch p w).
Proof.
  intros Hp. induction n as [suf kids ents IH] using node_ind'. intros Hwf s.
  apply wf_inv in Hwf. destruct Hwf as (Hok & Hs & Hk).
  rewrite insert_eq. destruct s as [|c s'].
  - constructor; [apply ents_ok_add|..]; assumption.
  - destruct (ents_contains ents sch p true); [constructor; assumption|].
    constructor; [exact Hok | apply lab_sorted_insert_kids, Hs|].
    apply Forall_insert_kids; [apply wf_leaf, Hp|].
    generalize (c :: s'). intros s.
    rewrite Forall_forall in *. intros [l ch] Hin. specialize (IH _ Hin). specialize (Hk _ Hin).
    cbn [snd] in *. split; [exact Hk|].
    destruct ch as [csuf ckids cents]. unfold ins_child.
    destruct (common_prefix s csuf) as [[ps pc] com].
    destruct pc as [|l1 pc']; [apply IH, Hk|].
    apply wf_inv in Hk. destruct Hk as (Hok' & Hs' & Hk').
    assert (Hg : wf (Node (l1 :: pc') ckids cents)) by (constructor; assumption).
    destruct ps as [|l2 ps'].
    + constructor; [apply ents_ok_add; [apply ents_ok_nil | exact Hp] | |].
      * simpl. split; [constructor | exact I].
      * constructor; [exact Hg | constructor].
    + constructor; [apply ents_ok_nil | apply lab_sorted_upsert2 |].
      apply Forall_upsert2; [apply wf_leaf, Hp | exact Hg].
Qed.

(* ------------------------------------------------------------------------------------------ *)
(* contains after insert                                                                       *)

Lemma ents_contains_port_ok e sch p q :
  ents_contains e sch p true = true -> port_ok p q = true -> ents_contains e sch q true = true.
Proof.
  unfold ents_contains, port_ok, shift. rewrite off_eq, wild_eq.
  destruct (ents_find sch e) as [ps|]; [|discriminate]. intros H Hpq.
  destruct (p =? 65536)%Z eqn:E1.
  - assert (p = 65536%Z) by lia. subst p. rewrite orb_diag in H. rewrite H. apply orb_true_r.
  - assert (p = q) by lia. subst q. exact H.
Qed.

Section ContainsInsert.
Variables (sch : bytes) (p : Z) (w : bool) (sch' : bytes) (q : Z).
Hypothesis Hp : (0 <= p <= 65536)%Z.
Hypothesis Hq : (0 <= q <= 65536)%Z.

(* the inserted (reversed) pattern s with its scheme and port matches the looked-up tuple *)
Definition matches (s h : bytes) : bool := beqb sch sch' && port_ok p q && hostm w s h.

Lemma contains_add_here a kids E r : ents_ok E ->
  contains (Node a kids (ents_add E sch p w)) r sch' q =
  contains (Node a kids E) r sch' q || matches [] r.
Proof.
  intros Hok. rewrite !contains_eq. unfold matches, hostm. cbn [cut_prefix].
  destruct r as [|c t]; rewrite (ents_contains_add _ _ _ _ _ _ _ Hok Hp Hq); cbn [nilb negb].
  - destruct (ents_contains E sch' q false), (beqb sch sch'), (port_ok p q), w; reflexivity.
  - destruct (ents_contains E sch' q true), (beqb sch sch'), (port_ok p q), w; cbn; try reflexivity;
      rewrite ?orb_false_r, ?orb_true_r; reflexivity.
Qed.

Lemma contains_bare a r : contains (Node a [] []) r sch' q = false.
Proof. rewrite contains_eq. destruct r; reflexivity. Qed.

Lemma contains_child_leaf s h :
  contains_child (Node s [] (ents_add [] sch p w)) h sch' q = matches s h.
Proof.
  unfold contains_child, matches, hostm.
  destruct (cut_prefix s h) as [r|]; [|rewrite andb_false_r; reflexivity].
  rewrite (contains_add_here _ _ _ _ ents_ok_nil), contains_bare. reflexivity.
Qed.

Lemma matches_app a c h :
  matches (a ++ c) h = match cut_prefix a h with Some h' => matches c h' | None => false end.
Proof.
  unfold matches. rewrite hostm_app. destruct (cut_prefix a h); [reflexivity | apply andb_false_r].
Qed.

Lemma matches_nil_r s : matches s [] = if nilb s then matches [] [] else false.
Proof. unfold matches, hostm. destruct s; cbn; [reflexivity | apply andb_false_r]. Qed.

Lemma matches_cons c s c' t : matches (c :: s) (c' :: t) = if c =? c' then matches s t else false.
Proof. unfold matches, hostm. cbn [cut_prefix]. destruct (c =? c'); [reflexivity | apply andb_false_r]. Qed.

Lemma find_kid_upsert2 l2 x l1 y c : l2 <> l1 ->
  find_kid c (upsert l2 x [(l1, y)]) = if l2 =? c then Some x else if l1 =? c then Some y else None.
Proof.
  intros Hne. simpl. destruct (l2 =? l1) eqn:E1; [lia|].
  destruct (l2 <? l1); simpl; [reflexivity|].
  destruct (l1 =? c) eqn:E2, (l2 =? c) eqn:E3; try reflexivity. lia.
Qed.

Lemma contains_child_ins s och h :
  match och with
  | Some ch => wf ch /\ (forall s h, contains (insert ch s sch p w) h sch' q = contains ch h sch' q || matches s h)
  | None => True
  end ->
  contains_child (ins_child sch p w s och) h sch' q =
  match och with Some ch => contains_child ch h sch' q | None => false end || matches s h.
Proof.
  destruct och as [ch|]; [|intros _; apply contains_child_leaf].
  intros [Hwf IH]. destruct ch as [csuf ckids cents]. unfold ins_child.
  pose proof (common_prefix_spec s csuf) as Hcp.
  destruct (common_prefix s csuf) as [[ps pc] com]. destruct Hcp as (Hs & Hc & Hd). subst s csuf.
  rewrite matches_app.
  destruct pc as [|l1 pc'].
  - (* the child's suffix is a prefix of s: recurse *)
    rewrite app_nil_r in *.
    pose proof (insert_rsuf (Node com ckids cents) ps sch p w) as Hr.
    destruct (insert (Node com ckids cents) ps sch p w) as [a k e] eqn:Ei. subst a.
    unfold contains_child. rewrite <- Ei.
    destruct (cut_prefix com h) as [h'|]; [apply IH | reflexivity].
  - (* split the child at the common prefix *)
    unfold contains_child at 2. rewrite cut_prefix_app.
    destruct ps as [|l2 ps'].
    + unfold contains_child at 1.
      destruct (cut_prefix com h) as [h'|]; [|reflexivity].
      rewrite (contains_add_here _ _ _ _ ents_ok_nil). f_equal.
      rewrite contains_eq. destruct h' as [|c t]; [reflexivity|].
      change (ents_contains [] sch' q true) with false. cbn iota. cbn [find_kid cut_prefix].
      destruct (l1 =? c) eqn:E; [|reflexivity].
      unfold contains_child. cbn [cut_prefix]. rewrite E.
      destruct (cut_prefix pc' t); [apply contains_rsuf | reflexivity].
    + unfold contains_child at 1.
      destruct (cut_prefix com h) as [h'|]; [|reflexivity].
      rewrite contains_eq. destruct h' as [|c t].
      * rewrite matches_nil_r. reflexivity.
      * change (ents_contains [] sch' q true) with false. cbn iota.
        rewrite find_kid_upsert2 by congruence. rewrite matches_cons. cbn [cut_prefix].
        destruct (l2 =? c) eqn:E2.
        { destruct (l1 =? c) eqn:E1; [lia|]. rewrite contains_child_leaf, matches_cons, E2. reflexivity. }
        destruct (l1 =? c) eqn:E1; [|reflexivity].
        unfold contains_child. cbn [cut_prefix]. rewrite E1, orb_false_r.
        destruct (cut_prefix pc' t); [apply contains_rsuf | reflexivity].
Qed.

Lemma contains_insert : forall n, wf n -> forall s h,
  contains (insert n s sch p w) h sch' q = contains n h sch' q || matches s h.
Proof.
  induction n as [suf kids ents IH] using node_ind'. intros Hwf s h.
  apply wf_inv in Hwf. destruct Hwf as (Hok & Hs & Hk).
  rewrite insert_eq. destruct s as [|c s'].
  - apply contains_add_here, Hok.
  - destruct (ents_contains ents sch p true) eqn:Esub.
    + (* a wildcard-subdomains entry of this node already covers everything below it *)
      destruct (matches (c :: s') h) eqn:EM; [|rewrite orb_false_r; reflexivity].
      rewrite orb_true_r. destruct h as [|c' t]; [rewrite matches_nil_r in EM; discriminate|].
      unfold matches in EM. apply andb_true_iff in EM. destruct EM as [EM _].
      apply andb_true_iff in EM. destruct EM as [E1 E2]. apply beqb_eq in E1. rewrite E1 in Esub.
      rewrite contains_eq. rewrite (ents_contains_port_ok _ _ _ _ Esub E2). reflexivity.
    + rewrite !contains_eq. destruct h as [|c' t].
      * rewrite matches_nil_r. cbn [nilb]. rewrite orb_false_r. reflexivity.
      * destruct (ents_contains ents sch' q true); [reflexivity|].
        rewrite find_insert_kids by exact Hs.
        destruct (c' =? c) eqn:Ecc.
        { assert (c' = c) by lia. subst c'. rewrite contains_child_ins.
          - destruct (find_kid c kids); reflexivity.
          - destruct (find_kid c kids) as [ch|] eqn:Ef; [|exact I].
            apply find_kid_In in Ef. rewrite Forall_forall in IH, Hk.
            specialize (IH _ Ef). specialize (Hk _ Ef). cbn [snd] in *.
            split; [exact Hk | apply IH, Hk]. }
        { rewrite matches_cons, (N.eqb_sym c c'), Ecc, orb_false_r. reflexivity. }
Qed.

End ContainsInsert.

(* ------------------------------------------------------------------------------------------ *)
(* Tree.Insert / Tree.Contains against the specification                                       *)

Definition valid_pattern (p : pattern) : Prop := (0 <= pport p <= 65536)%Z.
Definition valid_origin (o : origin) : Prop := (0 <= oport o <= 65535)%Z.
Definition build (ps : list pattern) : node := fold_left tree_insert ps empty_tree.

(* closes goals of the form [match c with 42 => x | _ => y end = y] (possibly under further
   context) when c <> 42 *)
Ltac not_star c Hc :=
  let p0 := fresh "p0" in
  destruct c as [|p0]; [reflexivity|];
  do 6 (destruct p0 as [p0|p0|]; try reflexivity);
  exfalso; apply Hc; reflexivity.

Lemma tree_insert_cases t p :
  (exists s', pvalue p = 42 :: s' /\ tree_insert t p = insert t (rev s') (pscheme p) (pport p) true) \/
  ((forall s', pvalue p <> 42 :: s') /\
   tree_insert t p = insert t (rev (pvalue p)) (pscheme p) (pport p) false).
Proof.
  unfold tree_insert. destruct (pvalue p) as [|c s']; [right; split; [discriminate | reflexivity]|].
  destruct (N.eq_dec c 42) as [->|Hc]; [left; exists s'; split; reflexivity|].
  right. split; [congruence|]. not_star c Hc.
Qed.

Lemma host_denotes_cases pv h :
  (exists s', pv = 42 :: s' /\ host_denotes pv h = has_suffix s' h && (length s' <? length h)%nat) \/
  ((forall s', pv <> 42 :: s') /\ host_denotes pv h = beqb pv h).
Proof.
  unfold host_denotes. destruct pv as [|c s']; [right; split; [discriminate | reflexivity]|].
  destruct (N.eq_dec c 42) as [->|Hc]; [left; exists s'; split; reflexivity|].
  right. split; [congruence|]. not_star c Hc.
Qed.

Lemma tree_insert_step t p o : wf t -> valid_pattern p -> valid_origin o ->
  wf (tree_insert t p) /\
  tree_contains (tree_insert t p) o = tree_contains t o || denotes p o.
Proof.
  intros Hwf Hp Ho. unfold valid_pattern in Hp. unfold valid_origin in Ho.
  assert (Hq : (0 <= oport o <= 65536)%Z) by lia.
  unfold tree_contains, denotes.
  destruct (tree_insert_cases t p) as [(s' & Hv & ->) | (Hn & ->)];
    (split; [apply wf_insert; assumption|]); rewrite (contains_insert _ _ _ _ _ Hp Hq _ Hwf);
    f_equal; unfold matches, port_denotes, port_ok, wildcard_port; f_equal.
  - destruct (host_denotes_cases (pvalue p) (hvalue (ohost o))) as [(s'' & Hv' & ->) | (Hn & _)].
    + rewrite Hv in Hv'. inversion Hv'. subst s''. rewrite hostm_true. unfold has_suffix.
      rewrite !rev_length. reflexivity.
    + exfalso. apply (Hn s'), Hv.
  - destruct (host_denotes_cases (pvalue p) (hvalue (ohost o))) as [(s'' & Hv' & _) | (_ & ->)].
    + exfalso. apply (Hn s''), Hv'.
    + rewrite hostm_false. apply beqb_rev.
Qed.

Lemma contains_empty h sch q : contains empty_tree h sch q = false.
Proof. apply contains_bare. Qed.

Lemma build_from ps o : valid_origin o -> forall t, wf t -> Forall valid_pattern ps ->
  wf (fold_left tree_insert ps t) /\
  tree_contains (fold_left tree_insert ps t) o = tree_contains t o || allowed_by ps o.
Proof.
  intros Ho. induction ps as [|p ps IH]; intros t Hwf Hps.
  - simpl. rewrite orb_false_r. split; [exact Hwf | reflexivity].
  - inversion Hps as [|? ? Hp Hps']. subst.
    destruct (tree_insert_step t p o Hwf Hp Ho) as [Hwf' Hc].
    destruct (IH _ Hwf' Hps') as [Hwf'' Hc'].
    cbn [fold_left]. split; [exact Hwf''|]. rewrite Hc', Hc. unfold allowed_by. cbn [existsb].
    symmetry. apply orb_assoc.
Qed.

Lemma wf_build ps : Forall valid_pattern ps -> wf (build ps).
Proof.
  intros Hps. set (o := {| oscheme := []; ohost := {| hvalue := []; assume_ip := false |}; oport := 0 |}).
  apply (build_from ps o); [unfold valid_origin; simpl; lia | apply wf_empty | exact Hps].
Qed.

Theorem tree_contains_build ps o : Forall valid_pattern ps -> valid_origin o ->
  tree_contains (build ps) o = allowed_by ps o.
Proof.
  intros Hps Ho. destruct (build_from ps o Ho empty_tree wf_empty Hps) as [_ H].
  unfold build. rewrite H. unfold tree_contains at 1. rewrite contains_empty. reflexivity.
Qed.

Lemma existsb_same {A} (f : A -> bool) l l' : (forall x, In x l <-> In x l') -> existsb f l = existsb f l'.
Proof.
  intros H. apply eq_true_iff_eq. rewrite !existsb_exists.
  split; intros (x & Hx & Hf); exists x; (split; [apply H, Hx | exact Hf]).
Qed.

Theorem tree_contains_build_perm ps ps' o :
  Forall valid_pattern ps -> Forall valid_pattern ps' -> valid_origin o ->
  (forall p, In p ps <-> In p ps') ->
  tree_contains (build ps) o = tree_contains (build ps') o.
Proof.
  intros Hps Hps' Ho H. rewrite !tree_contains_build by assumption. apply existsb_same, H.
Qed.
